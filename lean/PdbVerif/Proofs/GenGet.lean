/-
  The translated `get` (Gen/Get.lean, `GenG.getF`) against the hand model `Model.getF`: the head of the function — argument
  validation and the per-model dispatch — as equalities for EVERY database, column string and keyword list; concrete runs of
  the whole function (no-keyword query, generic query, error classes) against the hand model.
  Then the whole function: `GenG.get db columns tn kw = Model.get db columns tn kw` (`get_eq_model`) for every database, column
  string, keyword list and list length, error classes included, under the three decidable side conditions the SQL tie has always
  had: the names that go into the text are plain identifiers (`PlainNames`: MicroSql gives other text no meaning), `rowID`
  resolves to the rowid (`rowid_of_wf`), and the keyword list is a dictionary (distinct keys).
-/
import PdbVerif.Proofs.GenGetD

set_option linter.unusedVariables false
set_option linter.unusedSimpArgs false

namespace GenGetProofs
open Tbl Model MicroSql GenSql SqlProofs GenG

/-- **invalid column string**: the translated `get` raises ValueError exactly where the model does (`validCols`: every
    comma-separated piece, stripped, is one of `get_colnames()`; `*` passes), before anything else happens — for every
    database, table name, keyword list and recursion depth -/
theorem getF_invalid_columns (fuel : Nat) (db : Db) (columns tn : Py.Str) (kw : List Kw) (h : validCols db columns = false) :
    GenG.getF (fuel + 1) db columns tn kw = Model.getF (fuel + 1) db columns tn kw := by
  unfold GenG.getF Model.getF get_body
  simp only [bind]
  rw [validate_eq]
  simp only [h, Bool.false_eq_true, if_false, Bool.not_false, if_true, not_true_eq_false, Except.bind]

/-- **the per-model dispatch**: with valid columns, no `model` keyword and `_nModel > 0`, the translated `get` is the model's
    per-model loop over the recursive calls (the keyword `model` set to 0, 1, … in place; every answer used as a list of rows) —
    so the two agree at depth `fuel + 1` as soon as they agree at depth `fuel` on the keyword lists `kw ++ [model = m]` -/
theorem getF_dispatch (fuel : Nat) (db : Db) (columns tn : Py.Str) (kw : List Kw) (hv : validCols db columns = true)
    (hd : (!hasModelKey kw && decide (db.nModel > 0)) = true)
    (hrec : ∀ m : Nat, GenG.getF fuel db columns tn (kw ++ [⟨modelKey, .scalar (.int m)⟩]) =
      Model.getF fuel db columns tn (kw ++ [⟨modelKey, .scalar (.int m)⟩])) :
    GenG.getF (fuel + 1) db columns tn kw = Model.getF (fuel + 1) db columns tn kw := by
  have hnot : modelKey ∉ E.keys kw := by
    have := (dispatch_iff db kw).2 hd
    exact this.1
  unfold GenG.getF Model.getF get_body
  simp only [bind]
  rw [validate_eq]
  simp only [hv, if_true, Bool.not_true, Bool.false_eq_true, if_false, not_true_eq_false,
    (dispatch_iff db kw).2 hd, and_self, get_if_model_data_nf, hd, Except.bind]
  have hr : Rt.range (E.nModel db) = (List.range db.nModel).map (fun (k : Nat) => (k : Int)) := by
    unfold E.nModel; rw [range_eq, List.range_eq_range']
  rw [hr]
  have := modelLoop_eq (GenG.getF fuel db) (fun kw' => Model.getF fuel db columns tn kw') db columns tn kw hnot hrec
    (List.range db.nModel) kw [] (fun a => setKw_absent modelKey a kw hnot)
  cases hl : E.forM ((List.range db.nModel).map (fun (k : Nat) => (k : Int))) (kw, ([] : List (List Item)))
      (fun it_ st_ => get_if_model_data_for_iModel (GenG.getF fuel db) db columns tn it_ st_) with
  | error e =>
    rw [hl] at this
    cases hm : modelLoop (fun kw' => Model.getF fuel db columns tn kw') kw (List.range db.nModel) with
    | error e' => rw [hm] at this; simp only [] at this; injection this with this; simp [this]
    | ok ds => rw [hm] at this; simp at this
  | ok st =>
    rw [hl] at this
    cases hm : modelLoop (fun kw' => Model.getF fuel db columns tn kw') kw (List.range db.nModel) with
    | error e' => rw [hm] at this; simp at this
    | ok ds => rw [hm] at this; simp only [List.nil_append] at this; injection this with this; simp [this]


/-! ### the function below the chunk limit -/

theorem modelF_short (fuel : Nat) (db : Db) (columns tn : Py.Str) (kw : List Kw)
    (hv : validCols db columns = true) (hd : (!hasModelKey kw && decide (db.nModel > 0)) = false) (hnl : NoLong kw)
    (hp : PlainNames columns tn kw) (hrow : sqlCol db rowIDName = some .rowID) :
    Model.getF (fuel + 1) db columns tn kw =
      if kw.all (fun k => keyOK db tn (stripNo k.key).2) = true then getViaSql db columns tn kw else .error .valueError := by
  by_cases hkeys : kw.all (fun k => keyOK db tn (stripNo k.key).2) = true
  · have hdisp : hasModelKey kw = true ∨ db.nModel = 0 := by
      simp only [Bool.and_eq_false_iff, Bool.not_eq_false', decide_eq_false_iff_not] at hd
      rcases hd with h | h
      · exact Or.inl h
      · exact Or.inr (by omega)
    simp only [hkeys, if_true]
    exact getF_eq_sql db columns tn kw fuel hv hdisp hkeys hnl hp hrow
  · have hne : kw.isEmpty = false := by
      cases kw with
      | nil => simp at hkeys
      | cons a t => rfl
    unfold Model.getF
    simp only [hv, hd, hne, hkeys, Bool.not_true, Bool.false_eq_true, if_false, Bool.not_false, if_true]

theorem getF_short (fuel : Nat) (db : Db) (columns tn : Py.Str) (kw : List Kw)
    (hv : validCols db columns = true) (hd : (!hasModelKey kw && decide (db.nModel > 0)) = false) (hnl : NoLong kw)
    (hp : PlainNames columns tn kw) (hrow : sqlCol db rowIDName = some .rowID) :
    GenG.getF (fuel + 1) db columns tn kw = Model.getF (fuel + 1) db columns tn kw := by
  rw [modelF_short fuel db columns tn kw hv hd hnl hp hrow]
  show get_body (GenG.getF fuel db) db columns tn kw = _
  exact get_body_short _ db columns tn kw hv hd hnl hp

/-! ### the chunked branch -/

theorem keys_set (a : Arg) : ∀ (kw : List Kw) (idx : Nat) (k : Kw), kw[idx]? = some k →
    (kw.set idx ⟨k.key, a⟩).map (·.key) = kw.map (·.key)
  | [], idx, k, h => by simp at h
  | x :: rest, 0, k, h => by
    simp only [List.getElem?_cons_zero, Option.some.injEq] at h
    subst h; simp
  | x :: rest, j + 1, k, h => by
    simp only [List.getElem?_cons_succ] at h
    simp [keys_set a rest j k h]

theorem chunks_ne_nil {α : Type} (n : Nat) (l : List α) (h : l ≠ []) : Model.chunks n l ≠ [] := by
  cases l with
  | nil => exact absurd rfl h
  | cons a t => simp [Model.chunks, Model.chunksAux]

theorem long_ne_nil (a : Arg) (h : isLong a = true) : a.vals ≠ [] := by
  cases a with
  | scalar v => simp [isLong] at h
  | list vs =>
    intro h0
    simp only [Arg.vals] at h0
    subst h0
    revert h; decide

theorem getF_long (fuel : Nat) (db : Db) (columns tn : Py.Str) (kw : List Kw)
    (hv : validCols db columns = true) (hd : (!hasModelKey kw && decide (db.nModel > 0)) = false) (hlong : ¬ NoLong kw)
    (hp : PlainNames columns tn kw) (hrow : sqlCol db rowIDName = some .rowID) (hnd : (kw.map (·.key)).Nodup)
    (hrec : ∀ kw', PlainNames rowIDName tn kw' → (kw'.map (·.key)).Nodup →
      GenG.getF fuel db rowIDName tn kw' = Model.getF fuel db rowIDName tn kw') :
    GenG.getF (fuel + 1) db columns tn kw = Model.getF (fuel + 1) db columns tn kw := by
  obtain ⟨hc, ht, hk⟩ := hp
  have hne : kw.isEmpty = false := by
    cases kw with
    | nil => exact absurd (fun k hk => by simp at hk) hlong
    | cons a t => rfl
  have hndp : ¬ ((['m', 'o', 'd', 'e', 'l'] : Py.Str) ∉ E.keys kw ∧ E.nModel db > 0) := by
    intro h; have := (dispatch_iff db kw).1 h; rw [hd] at this; cases this
  have hl : ¬ (Rt.len kw = (0 : Int)) := fun h => by have := (len_zero_iff kw).1 h; rw [hne] at this; cases this
  unfold GenG.getF Model.getF get_body
  simp only [bind]
  rw [validate_eq]
  simp only [hv, if_true, not_true_eq_false, if_false, hndp, bind_ok, hl, probes_eq _ db tn ht kw hk, hd, hne,
    Bool.not_true, Bool.false_eq_true]
  by_cases hkeys : kw.all (fun k => keyOK db tn (stripNo k.key).2) = true
  · simp only [hkeys, if_true, bind_ok, Bool.not_true, Bool.false_eq_true, if_false]
    have hkr : KeysResolve db kw := by
      intro k hk'
      have := (List.all_eq_true.1 hkeys) k hk'
      simp only [keyOK, Bool.and_eq_true] at this
      exact this.2
    have henum : Rt.enumerate (Rt.items kw) = ((Rt.items kw).zipIdx 0).map (fun p => (((p.2 : Nat) : Int), p.1)) := rfl
    rw [henum, loop_walk]
    have hw := scan_walk db kw hkr
    cases hwk : walk kw with
    | error e => rw [hwk] at hw; simp only [] at hw; simp only [hw, bind_error]
    | ok o =>
      rw [hwk] at hw
      cases o with
      | conds ss => exact absurd hw.2 hlong
      | long idx k =>
        obtain ⟨hscan, hidx, hklong⟩ := hw
        have hkmem : k ∈ kw := List.mem_of_getElem? hidx
        simp only [hscan]
        -- the translated branch
        have hset : ∀ vc, E.setKw kw k.key (.list vc) = Model.setKw kw idx k.key vc := fun vc => setKw_idx _ kw idx k hnd hidx
        have hrec' : ∀ vc, GenG.getF fuel db rowIDName tn (Model.setKw kw idx k.key vc) =
            (fun kw' => Model.getF fuel db rowIDName tn kw') (Model.setKw kw idx k.key vc) := by
          intro vc
          apply hrec
          · refine ⟨by decide, ht, ?_⟩
            intro x hx
            rcases List.mem_or_eq_of_mem_set hx with hx | rfl
            · exact hk x hx
            · exact hk k hkmem
          · unfold Model.setKw; rw [keys_set _ kw idx k hidx]; exact hnd
        have hloop := chunkLoop_eq (GenG.getF fuel db) (fun kw' => Model.getF fuel db rowIDName tn kw') db tn kw idx k hset hrec'
          (Model.chunks Gen.max_sql_values k.arg.vals) none
        rw [get_chunked_nf, range3_chunks, hloop]
        cases hcl : chunkLoop (fun kw' => Model.getF fuel db rowIDName tn kw') kw idx k.key (stripNo k.key).1
            (Model.chunks Gen.max_sql_values k.arg.vals) none with
        | error e => rfl
        | ok rows =>
          simp only []
          have hvne : k.arg.vals ≠ [] := long_ne_nil k.arg hklong
          have hsome := chunkLoop_some _ kw idx k.key _ _ none rows hcl (Or.inr (chunks_ne_nil _ _ hvne))
          obtain ⟨s, rfl⟩ := Option.isSome_iff_exists.1 hsome
          simp only [E.sortedOpt, sorted_eq, Option.getD_some]
          obtain ⟨tab, hfind⟩ : ∃ tab, findTab db tn = some tab := by
            have := (List.all_eq_true.1 hkeys) k hkmem
            simp only [keyOK, Bool.and_eq_true] at this
            exact Option.isSome_iff_exists.1 this.1
          obtain ⟨cols, hcols⟩ := sqlCols_ok db columns hv
          obtain ⟨q', hrows⟩ := rowsLoop_eq (GenG.getF fuel db) db columns tn tab cols (sortDedup intLt s) hc ht hrow hfind hcols
            (E.range3 0 (Rt.len (sortDedup intLt s)) (Gen.max_sql_values : Int))
            (['S', 'E', 'L', 'E', 'C', 'T', ' '] ++ columns ++ [' ', 'F', 'R', 'O', 'M', ' '] ++ tn ++ [' ', 'W', 'H', 'E', 'R', 'E', ' ']) []
          rw [range3_chunks] at hrows
          simp only [hrows, hfind, hcols, List.nil_append]
          have hfetch : (Model.chunks Gen.max_sql_values (sortDedup intLt s)).flatMap (rsel db tab cols) = fetchRows db tab cols (sortDedup intLt s) := rfl
          rw [hfetch]
          have hfin := finish_fetch db columns cols hcols hrow tab (sortDedup intLt s)
          cases hf : format_get_output (fetchRows db tab cols (sortDedup intLt s)) columns with
          | error e => rw [hf] at hfin; simp only [Except.mapError] at hfin; simp only [← hfin, bind_error]
          | ok items => rw [hf] at hfin; simp only [Except.mapError] at hfin; simp only [← hfin, bind_ok]; rfl
  · simp only [hkeys, if_false, Bool.false_eq_true, bind_error, Bool.not_false, if_true]

/-! ### the whole function -/

/-- **`GenG.getF = Model.getF` at every recursion depth**: the translation of the whole `get` — validation, per-model dispatch,
    key probes, the loop over the keywords, the chunked branch with its recursion, the final queries run by MicroSql and
    `_format_get_output` — IS the hand model, for every database, column string, keyword list and list length -/
theorem getF_eq_model (db : Db) (tn : Py.Str) (hrow : sqlCol db rowIDName = some .rowID) : ∀ (fuel : Nat) (columns : Py.Str) (kw : List Kw),
    PlainNames columns tn kw → (kw.map (·.key)).Nodup → GenG.getF fuel db columns tn kw = Model.getF fuel db columns tn kw
  | 0, _, _, _, _ => rfl
  | fuel + 1, columns, kw, hp, hnd => by
    have ih := getF_eq_model db tn hrow fuel
    by_cases hv : validCols db columns = true
    · by_cases hd : (!hasModelKey kw && decide (db.nModel > 0)) = true
      · apply getF_dispatch fuel db columns tn kw hv hd
        intro m
        have hnot : modelKey ∉ E.keys kw := ((dispatch_iff db kw).2 hd).1
        apply ih
        · refine ⟨hp.1, hp.2.1, ?_⟩
          intro x hx
          rcases List.mem_append.1 hx with hx | hx
          · exact hp.2.2 x hx
          · simp only [List.mem_singleton] at hx; subst hx; show isName (stripNo modelKey).2 = true; decide
        · rw [List.map_append, List.nodup_append]
          refine ⟨hnd, by simp, ?_⟩
          intro a ha b hb
          simp only [List.map_cons, List.map_nil, List.mem_singleton] at hb
          subst hb
          intro e; subst e; exact hnot ha
      · have hd' : (!hasModelKey kw && decide (db.nModel > 0)) = false := by simpa using hd
        by_cases hnl : NoLong kw
        · exact getF_short fuel db columns tn kw hv hd' hnl hp hrow
        · exact getF_long fuel db columns tn kw hv hd' hnl hp hrow hnd (fun kw' h1 h2 => ih rowIDName kw' h1 h2)
    · exact getF_invalid_columns fuel db columns tn kw (by simpa using hv)

/-- **`GenG.get = Model.get`** -/
theorem get_eq_model (db : Db) (columns tn : Py.Str) (kw : List Kw) (hp : PlainNames columns tn kw)
    (hrow : sqlCol db rowIDName = some .rowID) (hnd : (kw.map (·.key)).Nodup) :
    GenG.get db columns tn kw = Model.get db columns tn kw :=
  getF_eq_model db tn hrow _ columns kw hp hnd

/-! ### concrete runs of the WHOLE translated function against the hand model (non-vacuity; every branch but the chunked one) -/

/-- the generic query: a text list, a negated numeric condition, a rowID list; table name in another letter case -/
example : GenG.get exDb "serial ,rowID".toList "atom".toList exKw = .ok (.data [.many [.int 1, .int 0], .many [.int 2, .int 1]]) ∧
    Model.get exDb "serial ,rowID".toList "atom".toList exKw = .ok (.data [.many [.int 1, .int 0], .many [.int 2, .int 1]]) := by
  decide +kernel

/-- no keyword; one column is flattened -/
example : GenG.get exDb "name".toList "ATOM".toList [] = Model.get exDb "name".toList "ATOM".toList [] ∧
    GenG.get exDb "name".toList "ATOM".toList [] = .ok (.data [.one (.text "CA".toList), .one (.text "N".toList), .one (.text "CA".toList)]) := by
  decide +kernel

/-- error classes are reached in the translation as in the model: unknown column, unknown key (the `SELECT EXISTS` probe),
    a text rowID value, an unknown table (the probe fails: ValueError) -/
example : GenG.get exDb "foo".toList "ATOM".toList [] = .error .valueError ∧
    GenG.get exDb "x".toList "ATOM".toList [⟨"no_foo".toList, .scalar (.int 1)⟩] = .error .valueError ∧
    GenG.get exDb "x".toList "ATOM".toList [⟨"rowID".toList, .scalar (.text "1".toList)⟩] = .error .typeError ∧
    GenG.get exDb "x".toList "nosuch".toList [⟨"name".toList, .scalar (.int 1)⟩] = .error .valueError ∧
    Model.get exDb "x".toList "nosuch".toList [⟨"name".toList, .scalar (.int 1)⟩] = .error .valueError := by
  decide +kernel

/-- the per-model dispatch on a two-model file -/
example : GenG.get { exDb with nModel := 2 } "serial".toList "ATOM".toList [] = Model.get { exDb with nModel := 2 } "serial".toList "ATOM".toList [] ∧
    GenG.get { exDb with nModel := 2 } "serial".toList "ATOM".toList [] = .ok (.models [[.one (.int 1), .one (.int 2), .one (.int 3)], []]) := by
  decide +kernel

end GenGetProofs
