/-
  The WORLD the translated `superpose` / `get_intersection` (Gen/Sup.lean, namespace `GenSup`) are run in and proved in:
  the parameters `many2sql`, `many2sql_call`, `many2sql_get_intersection` instantiated by the hand model's own steps
  (Model/SuperposeDb.lean: one table per structure re-read from its exported text, the selected rows re-exported and re-read,
  the INNER JOIN as nested loops), the conversion of the model's databases / arguments to those of the generated code, and the
  four-column version of `np.linalg.eigh`'s result the model of the quaternion kernel takes.
  Definitions only, core Lean (the driver `Driver/ExtSup.lean` imports this file; the proofs are in `Proofs/GenSup*.lean`).
-/
import PdbVerif.Gen.Sup
import PdbVerif.Model.SuperposeDb

namespace Proofs.GenSupWorld
open Py Model

/-- a many2sql object: one ATOM table per structure -/
abbrev Many := List (List Atom)

/-- `many2sql(pdbdata)`: `_create_table` on each list of lines, in order -/
def many2sql (pdbdata : List (List Str)) : Except Err Many := pdbdata.mapM SupDb.readTable

/-- `manydb(**kwargs)`: per table, the selected rows exported (`sql2pdb(tablename=n, **kwargs)`) and read again -/
def many2sqlCall (m : Many) (kw : GenSup.Rt.Kwargs) : Except Err Many :=
  m.mapM (fun t => do
    let s ← SupDb.sql2pdb (t.filter (GenSup.Rt.kwTest kw))
    SupDb.readTable s)

def triple (v : Vec3 Rat) : Rat × Rat × Rat := (v.x, v.y, v.z)

/-- `manydb.get_intersection('x,y,z')` of two structures: the joined rows cut per structure (Model.SupDb.join) -/
def many2sqlGetIntersection (m : Many) (cols : String) : Except Err (List (List (Rat × Rat × Rat))) :=
  if cols ≠ "x,y,z" then .error (.unmodelled "get_intersection: columns other than x,y,z")
  else match m with
    | [u1, u2] => .ok [(SupDb.join u1 u2).map (fun p => triple p.1), (SupDb.join u1 u2).map (fun p => triple p.2)]
    | _ => .error (.unmodelled "get_intersection: not two structures")

/-- the model's database as the generated code's -/
def toGen (d : SupDb.Db) : GenSup.Rt.Db := { rows := d.rows, pdbfile := d.pdbfile }
def ofGen (d : GenSup.Rt.Db) : SupDb.Db := { rows := d.rows, pdbfile := d.pdbfile }

/-- the arguments of the model that correspond to `only_backbone`, `export`, `**kwargs` -/
def argsOf (onlyBackbone doExport : Bool) (kw : GenSup.Rt.Kwargs) : SupDb.Args :=
  { onlyBackbone := onlyBackbone, doExport := doExport,
    nameGiven := Py.Dict.contains kw (['n', 'a', 'm', 'e'] : Str), sel := GenSup.Rt.kwTest kw }

/-- the result of the model as the generated code returns it: the updated mobile database and the files written -/
def outOf (mob : SupDb.Db) (o : SupDb.Out) : GenSup.Rt.Db × List (Str × List Str) :=
  ({ rows := o.mobile, pdbfile := mob.pdbfile }, o.files)

/-- `l, U = np.linalg.eigh(F)` as the pairs `(l[k], U[:, k])` the model of the quaternion kernel takes -/
def eigPairs {α : Type} (eigh : Mat4 α → Vec4 α × Mat4 α) (F : Mat4 α) : List (α × Vec4 α) :=
  let l := (eigh F).1
  let U := (eigh F).2
  [(l.w, GenSup.Rt.col4 U 0), (l.x, GenSup.Rt.col4 U 1), (l.y, GenSup.Rt.col4 U 2), (l.z, GenSup.Rt.col4 U 3)]

/-- `method.lower()` against the two names -/
def methodOf (s : String) : Option Model.Method :=
  if s.toLower = "svd" then some .svd else if s.toLower = "quaternion" then some .quaternion else none

end Proofs.GenSupWorld
