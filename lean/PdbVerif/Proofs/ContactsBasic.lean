/-
  Helper lemmas for C05 / C14 (contacts), part 1: strict total orders, `sorted(set(·))`, dictionaries as association
  lists, `itertools.combinations(·, 2)`, positions in `zipIdx`.
-/
import PdbVerif.Model.Contacts
import PdbVerif.Spec.C05
import PdbVerif.Spec.C14

set_option linter.unusedVariables false
set_option linter.unusedSimpArgs false
set_option linter.unusedSectionVars false

namespace Proofs.Contacts
open Model Py

/-! ### strict total orders given as Boolean functions -/

structure StrictTotal {α : Type} (lt : α → α → Bool) : Prop where
  irrefl : ∀ a, lt a a = false
  trans : ∀ a b c, lt a b = true → lt b c = true → lt a c = true
  tri : ∀ a b, lt a b = true ∨ a = b ∨ lt b a = true

theorem StrictTotal.asymm {α : Type} {lt : α → α → Bool} (h : StrictTotal lt) {a b : α} (hab : lt a b = true) : lt b a = false := by
  cases hba : lt b a with
  | false => rfl
  | true => have := h.trans a b a hab hba; simp [h.irrefl] at this

theorem strictTotal_ltNat : StrictTotal ltNat where
  irrefl a := by simp [ltNat]
  trans a b c := by simp [ltNat]; omega
  tri a b := by simp [ltNat]; omega

theorem str_lt_tri (a b : Str) : a < b ∨ a = b ∨ b < a := by
  by_cases h1 : a < b
  · exact Or.inl h1
  · by_cases h2 : b < a
    · exact Or.inr (Or.inr h2)
    · exact Or.inr (Or.inl (List.le_antisymm (List.not_lt.mp h2) (List.not_lt.mp h1)))

theorem strictTotal_ltStr : StrictTotal ltStr where
  irrefl a := by simp [ltStr, List.lt_irrefl]
  trans a b c := by simp only [ltStr, decide_eq_true_eq]; exact List.lt_trans
  tri a b := by simp only [ltStr, decide_eq_true_eq]; exact str_lt_tri a b

theorem strictTotal_ltRes : StrictTotal ltRes where
  irrefl a := by
    have := strictTotal_ltStr.irrefl
    simp [ltRes, this]
  trans a b c := by
    obtain ⟨a1, a2, a3⟩ := a; obtain ⟨b1, b2, b3⟩ := b; obtain ⟨c1, c2, c3⟩ := c
    have T := strictTotal_ltStr.trans
    simp only [ltRes, Bool.or_eq_true, Bool.and_eq_true, decide_eq_true_eq]
    intro h1 h2
    rcases h1 with h1 | ⟨rfl, h1⟩ <;> rcases h2 with h2 | ⟨rfl, h2⟩
    · exact Or.inl (T _ _ _ h1 h2)
    · exact Or.inl h1
    · exact Or.inl h2
    · refine Or.inr ⟨rfl, ?_⟩
      rcases h1 with h1 | ⟨rfl, h1⟩ <;> rcases h2 with h2 | ⟨rfl, h2⟩
      · exact Or.inl (by omega)
      · exact Or.inl h1
      · exact Or.inl h2
      · exact Or.inr ⟨rfl, T _ _ _ h1 h2⟩
  tri a b := by
    obtain ⟨a1, a2, a3⟩ := a; obtain ⟨b1, b2, b3⟩ := b
    simp only [ltRes, Bool.or_eq_true, Bool.and_eq_true, decide_eq_true_eq, Prod.mk.injEq]
    rcases strictTotal_ltStr.tri a1 b1 with h | rfl | h
    · exact Or.inl (Or.inl h)
    · rcases Int.lt_trichotomy a2 b2 with h | rfl | h
      · exact Or.inl (Or.inr ⟨rfl, Or.inl h⟩)
      · rcases strictTotal_ltStr.tri a3 b3 with h | rfl | h
        · exact Or.inl (Or.inr ⟨rfl, Or.inr ⟨rfl, h⟩⟩)
        · exact Or.inr (Or.inl ⟨rfl, rfl, rfl⟩)
        · exact Or.inr (Or.inr (Or.inr ⟨rfl, Or.inr ⟨rfl, h⟩⟩))
      · exact Or.inr (Or.inr (Or.inr ⟨rfl, Or.inl h⟩))
    · exact Or.inr (Or.inr (Or.inl h))

/-! ### `sorted(set(·))` -/

section sorted
variable {α : Type} [DecidableEq α] {lt : α → α → Bool}

/-- strictly ascending -/
abbrev Asc (lt : α → α → Bool) (l : List α) : Prop := l.Pairwise (fun a b => lt a b = true)

theorem mem_insertAsc {x z : α} {l : List α} : z ∈ insertAsc lt x l ↔ z = x ∨ z ∈ l := by
  induction l with
  | nil => simp [insertAsc]
  | cons y ys ih =>
    unfold insertAsc
    split
    · simp
    · split
      · rename_i h; subst h; simp
      · simp [ih]; grind

theorem mem_foldl_insertAsc {z : α} {l acc : List α} :
    z ∈ l.foldl (fun acc x => insertAsc lt x acc) acc ↔ z ∈ acc ∨ z ∈ l := by
  induction l generalizing acc with
  | nil => simp
  | cons x xs ih => simp [ih, mem_insertAsc]; grind

@[simp] theorem mem_sortedSet {z : α} {l : List α} : z ∈ sortedSet lt l ↔ z ∈ l := by
  simp [sortedSet, mem_foldl_insertAsc]

theorem asc_insertAsc (h : StrictTotal lt) {x : α} {l : List α} (hl : Asc lt l) : Asc lt (insertAsc lt x l) := by
  induction l with
  | nil => simp [insertAsc]
  | cons y ys ih =>
    have hy := (List.pairwise_cons.mp hl)
    unfold insertAsc
    split
    · rename_i hxy
      refine List.pairwise_cons.mpr ⟨?_, hl⟩
      intro z hz
      rcases List.mem_cons.mp hz with rfl | hz
      · exact hxy
      · exact h.trans _ _ _ hxy (hy.1 z hz)
    · split
      · exact hl
      · rename_i h1 h2
        have hyx : lt y x = true := by
          rcases h.tri x y with h3 | h3 | h3
          · exact absurd h3 h1
          · exact absurd h3 h2
          · exact h3
        refine List.pairwise_cons.mpr ⟨?_, ih hy.2⟩
        intro z hz
        rcases mem_insertAsc.mp hz with rfl | hz
        · exact hyx
        · exact hy.1 z hz

theorem asc_foldl_insertAsc (h : StrictTotal lt) {l acc : List α} (hacc : Asc lt acc) :
    Asc lt (l.foldl (fun acc x => insertAsc lt x acc) acc) := by
  induction l generalizing acc with
  | nil => simpa
  | cons x xs ih => exact ih (asc_insertAsc h hacc)

theorem asc_sortedSet (h : StrictTotal lt) (l : List α) : Asc lt (sortedSet lt l) :=
  asc_foldl_insertAsc h List.Pairwise.nil

/-- two strictly ascending lists with the same elements are equal -/
theorem asc_unique (h : StrictTotal lt) : ∀ {l₁ l₂ : List α}, Asc lt l₁ → Asc lt l₂ → (∀ z, z ∈ l₁ ↔ z ∈ l₂) → l₁ = l₂
  | [], [], _, _, _ => rfl
  | [], y :: ys, _, _, hm => by have := (hm y).mpr (by simp); simp at this
  | x :: xs, [], _, _, hm => by have := (hm x).mp (by simp); simp at this
  | x :: xs, y :: ys, h1, h2, hm => by
    have h1' := List.pairwise_cons.mp h1
    have h2' := List.pairwise_cons.mp h2
    have hxy : x = y := by
      have hx : x ∈ y :: ys := (hm x).mp (by simp)
      have hy : y ∈ x :: xs := (hm y).mpr (by simp)
      rcases List.mem_cons.mp hx with hx | hx
      · exact hx
      · rcases List.mem_cons.mp hy with hy | hy
        · exact hy.symm
        · have a := h2'.1 x hx
          have b := h1'.1 y hy
          have := h.asymm a
          simp [b] at this
    subst hxy
    congr 1
    apply asc_unique h h1'.2 h2'.2
    intro z
    constructor
    · intro hz
      have : z ∈ x :: ys := (hm z).mp (List.mem_cons_of_mem _ hz)
      rcases List.mem_cons.mp this with rfl | h3
      · have := h1'.1 z hz; simp [h.irrefl] at this
      · exact h3
    · intro hz
      have : z ∈ x :: xs := (hm z).mpr (List.mem_cons_of_mem _ hz)
      rcases List.mem_cons.mp this with rfl | h3
      · have := h2'.1 z hz; simp [h.irrefl] at this
      · exact h3

theorem asc_nodup (h : StrictTotal lt) {l : List α} (hl : Asc lt l) : l.Nodup := by
  refine List.Pairwise.imp ?_ hl
  intro a b hab heq
  subst heq
  simp [h.irrefl] at hab

theorem sortedSet_eq_of_asc (h : StrictTotal lt) {l s : List α} (hs : Asc lt s) (hm : ∀ z, z ∈ l ↔ z ∈ s) :
    sortedSet lt l = s :=
  asc_unique h (asc_sortedSet h l) hs (by intro z; simp [hm])

theorem sortedSet_congr (h : StrictTotal lt) {l₁ l₂ : List α} (hm : ∀ z, z ∈ l₁ ↔ z ∈ l₂) :
    sortedSet lt l₁ = sortedSet lt l₂ :=
  sortedSet_eq_of_asc h (asc_sortedSet h l₂) (by intro z; simp [hm])

theorem sortedSet_self (h : StrictTotal lt) {l : List α} (hl : Asc lt l) : sortedSet lt l = l :=
  sortedSet_eq_of_asc h hl (fun _ => Iff.rfl)

end sorted

/-! the Spec's "sorted distinct" is the same function -/

theorem insertSorted_eq {α : Type} [DecidableEq α] (lt : α → α → Bool) (x : α) (l : List α) :
    Spec.Contact.insertSorted lt x l = insertAsc lt x l := by
  induction l with
  | nil => rfl
  | cons y ys ih => simp [Spec.Contact.insertSorted, insertAsc, ih]

theorem sortDistinct_eq {α : Type} [DecidableEq α] (lt : α → α → Bool) (l : List α) :
    Spec.Contact.sortDistinct lt l = sortedSet lt l := by
  unfold Spec.Contact.sortDistinct sortedSet
  congr 1
  funext acc x
  exact insertSorted_eq lt x acc

theorem natLt_eq : Spec.Contact.natLt = ltNat := rfl
theorem strLt_eq : Spec.Contact.strLt = ltStr := rfl
theorem resLt_eq : Spec.Contact.resLt = ltRes := rfl

/-! ### first occurrences -/

theorem mem_distinctFirst {α : Type} [DecidableEq α] {z : α} {l : List α} : z ∈ distinctFirst l ↔ z ∈ l := by
  induction l with
  | nil => simp [distinctFirst]
  | cons x xs ih =>
    simp only [distinctFirst, List.mem_cons, List.mem_filter, ih, decide_eq_true_eq]
    by_cases h : z = x <;> simp [h]

theorem nodup_distinctFirst {α : Type} [DecidableEq α] (l : List α) : (distinctFirst l).Nodup := by
  induction l with
  | nil => simp [distinctFirst]
  | cons x xs ih =>
    simp only [distinctFirst, List.nodup_cons, List.mem_filter, decide_eq_true_eq]
    exact ⟨by simp, List.Nodup.sublist List.filter_sublist ih⟩

theorem distinct_eq {α : Type} [DecidableEq α] (l : List α) : Spec.Contact.distinct l = distinctFirst l := by
  induction l with
  | nil => rfl
  | cons x xs ih => simp [Spec.Contact.distinct, distinctFirst, ih]

theorem distinctFirst_append_singleton {α : Type} [DecidableEq α] (l : List α) (x : α) :
    distinctFirst (l ++ [x]) = if x ∈ l then distinctFirst l else distinctFirst l ++ [x] := by
  induction l with
  | nil => simp [distinctFirst]
  | cons y ys ih =>
    simp only [List.cons_append, distinctFirst, ih, List.mem_cons]
    by_cases hxy : x = y
    · subst hxy
      by_cases hx : x ∈ ys <;> simp [hx, List.filter_append]
    · have : ¬ y = x := fun h => hxy h.symm
      by_cases hx : x ∈ ys <;> simp [hx, hxy, List.filter_append]

/-! ### dictionaries -/

section dict
variable {κ ν : Type} [DecidableEq κ]

theorem contains_iff {d : Dict κ ν} {k : κ} : d.contains k = true ↔ k ∈ d.keys := by
  induction d with
  | nil => simp [Dict.contains, Dict.keys]
  | cons e d ih =>
    obtain ⟨k', v'⟩ := e
    simp only [Dict.contains, Dict.keys, List.map_cons, List.mem_cons]
    simp only [Dict.keys] at ih
    by_cases h : k' = k
    · simp [h]
    · have : ¬ k = k' := fun h' => h h'.symm
      simp [h, this, ih]

theorem getD_extend (d : Dict κ (List ν)) (k k' : κ) (l : List ν) :
    (d.extend k l).getD k' = if k = k' then d.getD k' ++ l else d.getD k' := by
  induction d with
  | nil => by_cases h : k = k' <;> simp [Dict.extend, Dict.getD, h]
  | cons e d ih =>
    obtain ⟨k₀, v₀⟩ := e
    by_cases h0 : k₀ = k
    · subst h0
      by_cases h : k₀ = k' <;> simp [Dict.extend, Dict.getD, h]
    · by_cases h : k = k'
      · subst h
        simp [Dict.extend, Dict.getD, h0, ih]
      · by_cases h1 : k₀ = k'
        · subst h1; simp [Dict.extend, Dict.getD, h0, h]
        · simp [Dict.extend, Dict.getD, h0, h1, h, ih]

theorem keys_extend (d : Dict κ (List ν)) (k : κ) (l : List ν) :
    (d.extend k l).keys = if k ∈ d.keys then d.keys else d.keys ++ [k] := by
  induction d with
  | nil => simp [Dict.extend, Dict.keys]
  | cons e d ih =>
    obtain ⟨k₀, v₀⟩ := e
    simp only [Dict.keys] at ih
    by_cases h0 : k₀ = k
    · subst h0; simp [Dict.extend, Dict.keys]
    · have : ¬ k = k₀ := fun h' => h0 h'.symm
      by_cases hk : k ∈ List.map (fun x => x.fst) d <;> simp [Dict.extend, Dict.keys, h0, this, ih, hk]

theorem setDefault_nil (d : Dict κ (List ν)) (k : κ) : d.setDefault k [] = d.extend k [] := by
  unfold Dict.setDefault
  induction d with
  | nil => simp [Dict.contains, Dict.extend]
  | cons e d ih =>
    obtain ⟨k₀, v₀⟩ := e
    by_cases h0 : k₀ = k
    · simp [Dict.contains, Dict.extend, h0]
    · simp only [Dict.contains, h0, if_false, Dict.extend]
      split at ih
      · rename_i hc; simp [hc, ← ih]
      · rename_i hc; simp [hc, ← ih]

theorem setDefault_extend (d : Dict κ (List ν)) (k : κ) (l : List ν) : (d.setDefault k []).extend k l = d.extend k l := by
  rw [setDefault_nil]
  induction d with
  | nil => simp [Dict.extend]
  | cons e d ih =>
    obtain ⟨k₀, v₀⟩ := e
    by_cases h0 : k₀ = k <;> simp [Dict.extend, h0, ih]

/-- apply a list of `setdefault(k, []).extend(l)` events -/
def applyEvents (d : Dict κ (List ν)) (evs : List (κ × List ν)) : Dict κ (List ν) :=
  evs.foldl (fun d e => d.extend e.1 e.2) d

theorem applyEvents_append (d : Dict κ (List ν)) (e₁ e₂ : List (κ × List ν)) :
    applyEvents d (e₁ ++ e₂) = applyEvents (applyEvents d e₁) e₂ := by
  simp [applyEvents, List.foldl_append]

/-- the events of key `k`, concatenated -/
def eventsOf (evs : List (κ × List ν)) (k : κ) : List ν :=
  (evs.filter (fun e => decide (e.1 = k))).flatMap (·.2)

theorem getD_applyEvents (d : Dict κ (List ν)) (evs : List (κ × List ν)) (k : κ) :
    (applyEvents d evs).getD k = d.getD k ++ eventsOf evs k := by
  induction evs generalizing d with
  | nil => simp [applyEvents, eventsOf]
  | cons e es ih =>
    have : applyEvents d (e :: es) = applyEvents (d.extend e.1 e.2) es := rfl
    rw [this, ih, getD_extend]
    by_cases h : e.1 = k <;> simp [eventsOf, List.filter_cons, h]

theorem mem_keys_applyEvents (d : Dict κ (List ν)) (evs : List (κ × List ν)) (k : κ) :
    k ∈ (applyEvents d evs).keys ↔ k ∈ d.keys ∨ ∃ e ∈ evs, e.1 = k := by
  induction evs generalizing d with
  | nil => simp [applyEvents]
  | cons e es ih =>
    have : applyEvents d (e :: es) = applyEvents (d.extend e.1 e.2) es := rfl
    rw [this, ih, keys_extend]
    by_cases h : e.1 ∈ d.keys
    · simp only [h, if_true, List.mem_cons, exists_eq_or_imp]
      constructor
      · rintro (h1 | h1)
        · exact Or.inl h1
        · exact Or.inr (Or.inr h1)
      · rintro (h1 | h1 | h1)
        · exact Or.inl h1
        · exact Or.inl (h1 ▸ h)
        · exact Or.inr h1
    · simp only [h, if_false, List.mem_append, List.mem_cons, List.not_mem_nil, or_false, exists_eq_or_imp]
      constructor
      · rintro ((h1 | h1) | h1)
        · exact Or.inl h1
        · exact Or.inr (Or.inl h1.symm)
        · exact Or.inr (Or.inr h1)
      · rintro (h1 | h1 | h1)
        · exact Or.inl (Or.inl h1)
        · exact Or.inl (Or.inr h1.symm)
        · exact Or.inr h1

theorem nodup_keys_extend {d : Dict κ (List ν)} (h : d.keys.Nodup) (k : κ) (l : List ν) : (d.extend k l).keys.Nodup := by
  rw [keys_extend]
  split
  · exact h
  · rename_i hk
    rw [List.nodup_append]
    refine ⟨h, by simp, ?_⟩
    intro a ha b hb
    simp at hb
    subst hb
    intro hab
    exact hk (hab ▸ ha)

theorem nodup_keys_applyEvents {d : Dict κ (List ν)} (h : d.keys.Nodup) (evs : List (κ × List ν)) :
    (applyEvents d evs).keys.Nodup := by
  induction evs generalizing d with
  | nil => simpa [applyEvents]
  | cons e es ih => exact ih (nodup_keys_extend h e.1 e.2)

/-- keys do not change when every event's key is already present -/
theorem keys_applyEvents_of_mem {d : Dict κ (List ν)} {evs : List (κ × List ν)} (h : ∀ e ∈ evs, e.1 ∈ d.keys) :
    (applyEvents d evs).keys = d.keys := by
  induction evs generalizing d with
  | nil => simp [applyEvents]
  | cons e es ih =>
    have h1 : (d.extend e.1 e.2).keys = d.keys := by rw [keys_extend]; simp [h e (by simp)]
    have : applyEvents d (e :: es) = applyEvents (d.extend e.1 e.2) es := rfl
    rw [this, ih, h1]
    intro e' he'
    rw [h1]
    exact h e' (by simp [he'])

/-- new distinct keys are appended -/
theorem applyEvents_of_nodup {d : Dict κ (List ν)} {evs : List (κ × List ν)} (h : (d.keys ++ evs.map (·.1)).Nodup) :
    applyEvents d evs = d ++ evs := by
  induction evs generalizing d with
  | nil => simp [applyEvents]
  | cons e es ih =>
    have hk : e.1 ∉ d.keys := by
      intro hk
      have := (List.nodup_append.mp h).2.2 e.1 hk e.1 (by simp)
      exact this rfl
    have hext : d.extend e.1 e.2 = d ++ [e] := by
      clear ih h
      induction d with
      | nil => simp [Dict.extend]
      | cons x d ihd =>
        obtain ⟨k₀, v₀⟩ := x
        simp only [Dict.keys, List.map_cons, List.mem_cons, not_or] at hk
        have h0 : ¬ k₀ = e.1 := fun h' => hk.1 h'.symm
        simp only [Dict.extend, h0, if_false, List.cons_append]
        rw [ihd]
        simpa [Dict.keys] using hk.2
    have : applyEvents d (e :: es) = applyEvents (d.extend e.1 e.2) es := rfl
    rw [this, hext, ih]
    · simp
    · simp only [Dict.keys, List.map_append, List.map_cons, List.map_nil] at *
      simpa using h

theorem get?_eq_getD {d : Dict κ (List ν)} {k : κ} (h : k ∈ d.keys) : d.get? k = some (d.getD k) := by
  induction d with
  | nil => simp [Dict.keys] at h
  | cons e d ih =>
    obtain ⟨k₀, v₀⟩ := e
    by_cases h0 : k₀ = k
    · simp [Dict.get?, Dict.getD, h0]
    · simp only [Dict.keys, List.map_cons, List.mem_cons] at h
      have : k ∈ Dict.keys d := by
        rcases h with h | h
        · exact absurd h.symm h0
        · exact h
      simp [Dict.get?, Dict.getD, h0, ih this]

theorem get?_none {d : Dict κ ν} {k : κ} (h : k ∉ d.keys) : d.get? k = none := by
  induction d with
  | nil => rfl
  | cons e d ih =>
    obtain ⟨k₀, v₀⟩ := e
    simp only [Dict.keys, List.map_cons, List.mem_cons, not_or] at h
    have h0 : ¬ k₀ = k := fun h' => h.1 h'.symm
    simp only [Dict.get?, h0, if_false]
    exact ih h.2

/-- with distinct keys an entry's value is the value of its key -/
theorem getD_of_mem {d : Dict κ (List ν)} (hd : d.keys.Nodup) {k : κ} {v : List ν} (h : (k, v) ∈ d) : d.getD k = v := by
  induction d with
  | nil => simp at h
  | cons e d ih =>
    obtain ⟨k₀, v₀⟩ := e
    simp only [Dict.keys, List.map_cons, List.nodup_cons] at hd
    rcases List.mem_cons.mp h with h | h
    · cases h; simp [Dict.getD]
    · have : ¬ k₀ = k := by
        intro h'
        subst h'
        exact hd.1 (List.mem_map.mpr ⟨(k₀, v), h, rfl⟩)
      simp only [Dict.getD, this, if_false]
      exact ih hd.2 h

theorem mem_of_mem_keys {d : Dict κ (List ν)} {k : κ} (h : k ∈ d.keys) : (k, d.getD k) ∈ d := by
  induction d with
  | nil => simp [Dict.keys] at h
  | cons e d ih =>
    obtain ⟨k₀, v₀⟩ := e
    by_cases h0 : k₀ = k
    · subst h0; simp [Dict.getD]
    · simp only [Dict.keys, List.map_cons, List.mem_cons] at h
      have : k ∈ Dict.keys d := by
        rcases h with h | h
        · exact absurd h.symm h0
        · exact h
      simp only [Dict.getD, h0, if_false]
      exact List.mem_cons_of_mem _ (ih this)

/-- a dictionary with distinct keys is determined by its key list and its values -/
theorem eq_map_keys (d : Dict κ (List ν)) (hd : d.keys.Nodup) : d = d.keys.map (fun k => (k, d.getD k)) := by
  induction d with
  | nil => rfl
  | cons e d ih =>
    obtain ⟨k₀, v₀⟩ := e
    simp only [Dict.keys, List.map_cons, List.nodup_cons] at hd
    simp only [Dict.keys, List.map_cons, Dict.getD, if_true, List.cons.injEq, true_and]
    have := ih hd.2
    simp only [Dict.keys] at this
    conv => lhs; rw [this]
    simp only [List.map_map]
    apply List.map_congr_left
    intro e he
    have : ¬ k₀ = e.1 := by
      intro h'
      exact hd.1 (h' ▸ List.mem_map.mpr ⟨e, he, rfl⟩)
    simp [this]

theorem list_reverse_induction {α : Type} {P : List α → Prop} (nil : P []) (snoc : ∀ l x, P l → P (l ++ [x])) :
    ∀ l, P l := by
  intro l
  have : ∀ r : List α, P r.reverse := by
    intro r
    induction r with
    | nil => simpa
    | cons x xs ih => simpa using snoc _ x ih
  simpa using this l.reverse

theorem keys_applyEvents_nil (evs : List (κ × List ν)) :
    (applyEvents ([] : Dict κ (List ν)) evs).keys = distinctFirst (evs.map (·.1)) := by
  induction evs using list_reverse_induction with
  | nil => simp [applyEvents, Dict.keys, distinctFirst]
  | snoc es e ih =>
    rw [applyEvents_append]
    show ((applyEvents [] es).extend e.1 e.2).keys = _
    rw [keys_extend, ih, List.map_append, List.map_singleton, distinctFirst_append_singleton]
    simp only [mem_distinctFirst]

/-- closed form of a dictionary built from events -/
theorem applyEvents_nil_eq (evs : List (κ × List ν)) :
    applyEvents ([] : Dict κ (List ν)) evs = (distinctFirst (evs.map (·.1))).map (fun k => (k, eventsOf evs k)) := by
  have hn : (applyEvents ([] : Dict κ (List ν)) evs).keys.Nodup := nodup_keys_applyEvents (by simp [Dict.keys]) evs
  rw [eq_map_keys _ hn, keys_applyEvents_nil]
  apply List.map_congr_left
  intro k _
  simp [getD_applyEvents, Dict.getD]

end dict

/-! ### `itertools.combinations(·, 2)` of a strictly ascending list -/

theorem mem_combinations2 {α : Type} {R : α → α → Prop} (hirr : ∀ a, ¬ R a a) (hasym : ∀ a b, R a b → ¬ R b a)
    {l : List α} (hl : l.Pairwise R) {a b : α} : (a, b) ∈ combinations2 l ↔ a ∈ l ∧ b ∈ l ∧ R a b := by
  induction l with
  | nil => simp [combinations2]
  | cons x xs ih =>
    have hx := List.pairwise_cons.mp hl
    simp only [combinations2, List.mem_append, List.mem_map, Prod.mk.injEq, ih hx.2, List.mem_cons]
    constructor
    · rintro (⟨y, hy, rfl, rfl⟩ | ⟨h1, h2, h3⟩)
      · exact ⟨Or.inl rfl, Or.inr hy, hx.1 y hy⟩
      · exact ⟨Or.inr h1, Or.inr h2, h3⟩
    · rintro ⟨h1 | h1, h2 | h2, h3⟩
      · subst h1; subst h2; exact absurd h3 (hirr _)
      · subst h1; exact Or.inl ⟨b, h2, rfl, rfl⟩
      · subst h2; exact absurd (hx.1 a h1) (hasym _ _ h3)
      · exact Or.inr ⟨h1, h2, h3⟩

theorem nodup_combinations2 {α : Type} {l : List α} (hl : l.Nodup) : (combinations2 l).Nodup := by
  induction l with
  | nil => simp [combinations2]
  | cons x xs ih =>
    have hx := List.nodup_cons.mp hl
    simp only [combinations2]
    rw [List.nodup_append]
    refine ⟨?_, ih hx.2, ?_⟩
    · rw [List.Nodup, List.pairwise_map]
      refine List.Pairwise.imp ?_ hx.2
      intro a b hab h
      cases h; exact hab rfl
    · intro p hp q hq hpq
      subst hpq
      obtain ⟨y, hy, rfl⟩ := List.mem_map.mp hp
      have : ∀ {l : List α} {a b : α}, (a, b) ∈ combinations2 l → a ∈ l := by
        intro l
        induction l with
        | nil => simp [combinations2]
        | cons z zs ihz =>
          intro a b h
          simp only [combinations2, List.mem_append, List.mem_map, Prod.mk.injEq] at h
          rcases h with ⟨_, _, rfl, _⟩ | h
          · simp
          · exact List.mem_cons_of_mem _ (ihz h)
      exact hx.1 (this hq)

end Proofs.Contacts
