/-
  Helper lemmas about decimal digit strings: `Py.decDigits`, `Py.digitsVal`, `Py.intStr`, `Py.parseInt`,
  `Py.splitOn`.  Helper lemmas only; property theorems live in `Props/`.
-/
import Mathlib.Tactic.Linarith
import Mathlib.Tactic.IntervalCases
import PdbVerif.Py.Num
import PdbVerif.Proofs.Str
import PdbVerif.Proofs.Num

set_option linter.unusedSimpArgs false
set_option linter.unusedVariables false
set_option linter.unnecessarySeqFocus false

namespace Py

/-! ### digit characters -/

def digitList : List Char := ['0','1','2','3','4','5','6','7','8','9']

theorem digitChar_mod (n : Nat) : digitChar n = digitChar (n % 10) := by
  unfold digitChar; rw [Nat.mod_mod]

theorem digitChar_mem (n : Nat) : digitChar n ∈ digitList := by
  rw [digitChar_mod]
  have h : n % 10 < 10 := Nat.mod_lt _ (by omega)
  generalize n % 10 = m at h
  interval_cases m <;> decide

theorem isDigit_digitChar (n : Nat) : isDigit (digitChar n) = true :=
  isDigit_of_mem _ (digitChar_mem n)

theorem digitVal_digitChar (n : Nat) : digitVal (digitChar n) = n % 10 := by
  rw [digitChar_mod]
  have h : n % 10 < 10 := Nat.mod_lt _ (by omega)
  generalize n % 10 = m at h
  interval_cases m <;> decide

/-- what we need to know about a digit character -/
structure DigitFacts (c : Char) : Prop where
  notSpace : isSpace c = false
  ne_us : c ≠ '_'
  ne_dot : c ≠ '.'
  ne_e : c ≠ 'e'
  ne_minus : c ≠ '-'
  ne_plus : c ≠ '+'
  ne_nl : c ≠ '\n'
  lower : c.toLower = c
  ne_i : c ≠ 'i'
  ne_n : c ≠ 'n'

theorem digitFacts (c : Char) (h : isDigit c = true) : DigitFacts c := by
  have := digit_cases c h
  simp only [List.mem_cons, List.not_mem_nil, or_false] at this
  rcases this with h | h | h | h | h | h | h | h | h | h <;> subst h <;>
    exact ⟨by decide, by decide, by decide, by decide, by decide, by decide, by decide, by decide, by decide, by decide⟩

/-- a string of decimal digits -/
def AllDigits (s : Str) : Prop := ∀ c ∈ s, isDigit c = true

theorem AllDigits.append {a b : Str} (ha : AllDigits a) (hb : AllDigits b) : AllDigits (a ++ b) := by
  intro c hc; rcases List.mem_append.mp hc with h | h; exact ha c h; exact hb c h

theorem allDigits_replicate_zero (n : Nat) : AllDigits (List.replicate n '0') := by
  intro c hc; rw [List.eq_of_mem_replicate hc]; decide

/-! ### `decDigits` -/

theorem decDigits_lt (n : Nat) (h : n < 10) : decDigits n = [digitChar n] := by
  rw [decDigits]; simp [h]

theorem decDigits_ge (n : Nat) (h : ¬ n < 10) : decDigits n = decDigits (n / 10) ++ [digitChar (n % 10)] := by
  rw [decDigits]; simp [h]

theorem decDigits_allDigits (n : Nat) : AllDigits (decDigits n) := by
  induction n using Nat.strongRecOn with
  | _ n ih =>
    by_cases h : n < 10
    · rw [decDigits_lt n h]; intro c hc; simp at hc; subst hc; exact isDigit_digitChar n
    · rw [decDigits_ge n h]
      apply AllDigits.append (ih _ (by omega))
      intro c hc; simp at hc; subst hc; exact isDigit_digitChar _

theorem decDigits_ne_nil (n : Nat) : decDigits n ≠ [] := by
  have := decDigits_length_pos n
  intro h; rw [h] at this; simp at this

theorem digitsVal_append_single (s : Str) (c : Char) : digitsVal (s ++ [c]) = digitsVal s * 10 + digitVal c := by
  unfold digitsVal; simp [List.foldl_append]

theorem digitsVal_decDigits (n : Nat) : digitsVal (decDigits n) = n := by
  induction n using Nat.strongRecOn with
  | _ n ih =>
    by_cases h : n < 10
    · rw [decDigits_lt n h]; simp [digitsVal, digitVal_digitChar]; omega
    · rw [decDigits_ge n h, digitsVal_append_single, ih _ (by omega), digitVal_digitChar]; omega

/-- leading zeros do not change the value -/
theorem digitsVal_zeros_append (k : Nat) (s : Str) : digitsVal (List.replicate k '0' ++ s) = digitsVal s := by
  induction k with
  | zero => simp
  | succ k ih =>
    rw [List.replicate_succ, List.cons_append]
    unfold digitsVal at ih ⊢
    simp only [List.foldl_cons]
    have : (0 * 10 + digitVal '0') = 0 := by decide
    rw [this]; exact ih

/-! ### digit strings and the `int()` grammar -/

theorem validDigitRun_go_allDigits (s : Str) (h : AllDigits s) : validDigitRun.go s = true := by
  induction s with
  | nil => rfl
  | cons d rest ih =>
    have hd := h d (by simp)
    have hne : d ≠ '_' := (digitFacts d hd).ne_us
    have hr : AllDigits rest := fun c hc => h c (by simp [hc])
    unfold validDigitRun.go
    split
    all_goals (rename_i heq; cases heq)
    all_goals first
      | exact (hne rfl).elim
      | simp [hd, ih hr]

theorem validDigitRun_allDigits (s : Str) (h : AllDigits s) (hne : s ≠ []) : validDigitRun s = true := by
  match s, hne with
  | c :: cs, _ =>
    unfold validDigitRun
    have hc := h c (by simp)
    have hr : AllDigits cs := fun d hd => h d (by simp [hd])
    simp [hc, validDigitRun_go_allDigits cs hr]

theorem stripUnderscores_allDigits (s : Str) (h : AllDigits s) : stripUnderscores s = s := by
  unfold stripUnderscores
  rw [List.filter_eq_self]
  intro c hc
  have := (digitFacts c (h c hc)).ne_us
  simp [this]

theorem strip_allDigits (s : Str) (h : AllDigits s) : strip s = s := by
  by_cases hne : s = []
  · subst hne; rfl
  · apply strip_eq_self_of s hne
    · intro c hc
      exact (digitFacts c (h c (List.mem_of_mem_head? hc))).notSpace
    · intro c hc
      exact (digitFacts c (h c (List.mem_of_getLast? hc))).notSpace

theorem splitSign_of_digit (c : Char) (r : Str) (h : isDigit c = true) : splitSign (c :: r) = (false, c :: r) := by
  have f := digitFacts c h
  unfold splitSign
  split
  · rename_i heq; simp at heq; exact absurd heq.1 f.ne_minus
  · rename_i heq; simp at heq; exact absurd heq.1 f.ne_plus
  · rfl

theorem splitSign_allDigits (s : Str) (h : AllDigits s) : splitSign s = (false, s) := by
  match s with
  | [] => rfl
  | c :: r => exact splitSign_of_digit c r (h c (by simp))

/-- `int()` of a (non-empty) digit string is its value -/
theorem parseInt_digits (s : Str) (h : AllDigits s) (hne : s ≠ []) : parseInt s = .ok (digitsVal s : Int) := by
  unfold parseInt
  simp only [strip_allDigits s h, splitSign_allDigits s h, validDigitRun_allDigits s h hne,
    stripUnderscores_allDigits s h, if_true]
  simp

theorem parseInt_neg_digits (s : Str) (h : AllDigits s) (hne : s ≠ []) :
    parseInt ('-' :: s) = .ok (-(digitsVal s : Int)) := by
  unfold parseInt
  have hs : strip ('-' :: s) = '-' :: s := by
    obtain ⟨m, e, hme⟩ : ∃ m e, s = m ++ [e] :=
      ⟨s.dropLast, s.getLast hne, (List.dropLast_concat_getLast hne).symm⟩
    rw [hme]
    apply strip_of_edges _ _ _ (by decide)
    exact (digitFacts e (h e (by rw [hme]; simp))).notSpace
  simp only [hs]
  have : splitSign ('-' :: s) = (true, s) := rfl
  simp only [this, validDigitRun_allDigits s h hne, stripUnderscores_allDigits s h, if_true]

/-! ### `str(int)` and back -/

theorem parseInt_intStr (i : Int) : parseInt (intStr i) = .ok i := by
  unfold intStr
  by_cases h : i < 0
  · simp only [h, if_true]
    rw [parseInt_neg_digits _ (decDigits_allDigits _) (decDigits_ne_nil _), digitsVal_decDigits]
    congr 1; omega
  · simp only [h, if_false]
    rw [parseInt_digits _ (decDigits_allDigits _) (decDigits_ne_nil _), digitsVal_decDigits]
    congr 1; omega

theorem intStr_ne_nil (i : Int) : intStr i ≠ [] := by
  unfold intStr; split
  · simp
  · exact decDigits_ne_nil _

theorem strip_intStr (i : Int) : strip (intStr i) = intStr i := by
  unfold intStr
  by_cases h : i < 0
  · simp only [h, if_true]
    have hne := decDigits_ne_nil i.natAbs
    obtain ⟨m, e, hme⟩ : ∃ m e, decDigits i.natAbs = m ++ [e] :=
      ⟨_, _, (List.dropLast_concat_getLast hne).symm⟩
    have he : isDigit e = true := decDigits_allDigits i.natAbs e (by rw [hme]; simp)
    rw [hme]
    exact strip_of_edges _ _ _ (by decide) (digitFacts e he).notSpace
  · simp only [h, if_false]; exact strip_allDigits _ (decDigits_allDigits _)

/-- `int(line[a:b])` of a right-aligned `str(i)` is `i` -/
theorem parseInt_rjust_intStr (w : Nat) (i : Int) : parseInt (rjust w (intStr i)) = .ok i := by
  have : parseInt (rjust w (intStr i)) = parseInt (intStr i) := by
    unfold parseInt; rw [strip_rjust]
  rw [this, parseInt_intStr]

theorem intStr_no_nl (i : Int) : '\n' ∉ intStr i := by
  unfold intStr
  have hd : '\n' ∉ decDigits i.natAbs := fun hc => by
    have := decDigits_allDigits _ _ hc; revert this; decide
  split
  · intro hc; simp at hc; exact hd hc
  · exact hd

theorem intStr_length_le (i : Int) (d : Nat) (hlo : -(10 ^ d : Int) < i) (hhi : i < 10 ^ (d + 1)) :
    (intStr i).length ≤ d + 1 := by
  unfold intStr
  by_cases h : i < 0
  · simp only [h, if_true, List.length_cons]
    cases d with
    | zero => simp at hlo; omega
    | succ d =>
      have : i.natAbs < 10 ^ (d + 1) := by
        have : (i.natAbs : Int) < 10 ^ (d + 1) := by omega
        exact_mod_cast this
      have := decDigits_length_le d _ this
      omega
  · simp only [h, if_false]
    have : i.natAbs < 10 ^ (d + 1) := by
      have : (i.natAbs : Int) < 10 ^ (d + 1) := by omega
      exact_mod_cast this
    exact decDigits_length_le d _ this

/-! ### `split` on one character -/

theorem splitOn_not_mem (c : Char) (s : Str) (h : c ∉ s) : splitOn c s = [s] := by
  induction s with
  | nil => rfl
  | cons x xs ih =>
    have hx : x ≠ c := fun e => h (by simp [e])
    have hxs : c ∉ xs := fun e => h (by simp [e])
    simp [splitOn, hx, ih hxs]

theorem splitOn_append_sep (c : Char) (a b : Str) (h : c ∉ a) : splitOn c (a ++ c :: b) = a :: splitOn c b := by
  induction a with
  | nil => simp [splitOn]
  | cons x xs ih =>
    have hx : x ≠ c := fun e => h (by simp [e])
    have hxs : c ∉ xs := fun e => h (by simp [e])
    simp [splitOn, hx, ih hxs]

end Py
