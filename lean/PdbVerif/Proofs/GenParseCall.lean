/-
  The translated `pdb2sql.__init__` and `pdb2sql.__call__` (Gen/ParseLoop.lean: `GenP.init`, `GenP.call`; regenerated from
  pdb2sqlcore.py on every run) in closed form: the order `super().__init__`, `_create_sql`, the statements of `_create_table`,
  `_fix_chainID` only with the option; `db(**kwargs)` = `sql2pdb(tablename=names[0], **kwargs)` parsed again by a new object's
  `__init__` with the same table name and the DEFAULT options.  With the closed form of `_create_table` (GenParseLoop) and of
  `read_pdb` on a list (GenParseRead): the rows the new object inserts are `Model.parse` of the exported lines — the text round trip
  `Model.textRoundtrip` of Model/TableWorldText.lean, whose export half is `Gen.data2pdb_line` (translated) — and an empty export is
  IndexError (`Model.newTable`).
-/
import PdbVerif.Proofs.GenParseLoop
import PdbVerif.Proofs.GenParseRead
import PdbVerif.Model.TableWorldText
import PdbVerif.Model.TableWorld
import PdbVerif.Proofs.GenParseChain

set_option linter.unusedVariables false
set_option linter.unusedSimpArgs false

namespace Proofs.GenParse
open Py

/-- **`__init__`**: base-class initialisation, `_create_sql`, then `_create_table` (its statements, its exceptions, its `_nModel`),
    then `_fix_chainID` exactly when the option is set -/
theorem init_nf (fs : GenP.Rt.FS) (o : GenP.Rt.Obj) (tn : Str) (fix : Bool) :
    GenP.init fs o tn fix = GenP._create_table fs o tn >>= fun r =>
      Except.ok ([GenP.Rt.Fx.method "super().__init__", GenP.Rt.Fx.method "_create_sql"] ++ r.1 ++
                  (if fix then [GenP.Rt.Fx.method "_fix_chainID"] else []), r.2) := by
  unfold GenP.init
  apply bind_congr'; intro r
  cases fix <;> simp [ok_bind, pure_eq_ok]

/-- **`__call__`**: the first table name (IndexError without a table), `sql2pdb` of that table, a new object from the lines -/
theorem call_nf (fs : GenP.Rt.FS) (names : List Str) (sql2pdb : Str → Except Err (List Str)) :
    GenP.call fs names sql2pdb =
      Py.listGet names 0 >>= fun t => sql2pdb t >>= fun lines =>
        GenP.init fs (.listStr lines) t GenP.init_fix_chainID_default := by
  unfold GenP.call
  simp only [ok_bind, pure_eq_ok, bind_assoc, ite_self, bind_ok_eq]
  cases h : Py.listGet names 0 with
  | error e => rfl
  | ok t => simp [ok_bind, h, bind_ok_eq]

/-- **the derived database**: for the exported lines `lines` of table `tn`, the new object is created by CREATE TABLE on the cleaned
    name and ONE INSERT of `Model.parse lines`; no `_fix_chainID`; an empty export is IndexError -/
theorem genp_call_eq_parse (fs : GenP.Rt.FS) (tn : Str) (rest : List Str) (lines : List Str) :
    GenP.call fs (tn :: rest) (fun _ => Except.ok lines) =
      if lines.isEmpty then Except.error Err.indexError
      else Model.parseLines lines 0 >>= fun rows =>
        Except.ok ([GenP.Rt.Fx.method "super().__init__", GenP.Rt.Fx.method "_create_sql",
                    GenP.Rt.Fx.execute (createText (clean tn) headerText),
                    GenP.Rt.Fx.executemany (insertText (clean tn) qmText) rows], modelCount lines 0) := by
  rw [call_nf]
  have h0 : Py.listGet (tn :: rest) 0 = Except.ok tn := rfl
  simp only [h0, ok_bind, init_nf, create_table_nf, read_listStr, GenP.init_fix_chainID_default]
  cases lines with
  | nil => rfl
  | cons l ls =>
    simp only [List.isEmpty_cons, Bool.false_eq_true, if_false, ok_bind, bind_assoc]
    apply bind_congr'; intro rows
    rfl

/-- rows parsed back from exported lines, as table rows (what `Model.textRoundtrip` does after the export) -/
def parseBack (lines : List Str) : Tbl.Table :=
  match Model.parse lines with
  | .error _ => []
  | .ok rows => rows.filterMap (fun row => (Py.Atom.ofRow row).map (fun a => ({ atom := a, extra := [] } : Tbl.Row)))

/-- the hand model's text round trip is "export by `Gen.data2pdb_line`, then `Model.parse`": the same `Model.parse lines` -/
theorem textRoundtrip_eq (T : Tbl.Table) (lines : List Str) (h : T.mapM (fun r => Gen.data2pdb_line r.atom) = Except.ok lines) :
    Model.textRoundtrip T = parseBack lines := by
  unfold Model.textRoundtrip parseBack
  rw [h]
  dsimp only
  cases Model.parse lines <;> rfl


/-! ### the derived database as an OBJECT of the table model

  The contract for a fresh connection (what `CREATE TABLE name (<the 14 columns>)` followed by ONE
  `INSERT INTO name VALUES (?,…)` with `rows` leaves): one table `name` holding the rows, no added column, `_nModel` as returned. -/

theorem bind_eq_ok {ε α β : Type} {x : Except ε α} {f : α → Except ε β} {b : β} (h : (x >>= f) = Except.ok b) :
    ∃ a, x = Except.ok a ∧ f a = Except.ok b := by
  cases x with
  | error e => cases h
  | ok a => exact ⟨a, rfl, h⟩

/-- every line `data2pdb` writes is an ATOM record -/
theorem data2pdb_line_atom (d : Py.Atom) (l : Str) (h : Gen.data2pdb_line d = Except.ok l) :
    Py.startsWith l Gen.atom_prefix = true := by
  unfold Gen.data2pdb_line at h
  simp only [pure_eq_ok] at h
  obtain ⟨t1, _, h⟩ := bind_eq_ok h
  obtain ⟨t2, _, h⟩ := bind_eq_ok h
  obtain ⟨t3, _, h⟩ := bind_eq_ok h
  obtain ⟨t4, _, h⟩ := bind_eq_ok h
  injection h with h
  subst h
  simp [Py.startsWith, Gen.atom_prefix, List.isPrefixOf, List.append_assoc]

theorem modelCount_atoms : ∀ (lines : List Str) (n : Int), (∀ l ∈ lines, Py.startsWith l Gen.atom_prefix = true) →
    modelCount lines n = n
  | [], n, _ => rfl
  | l :: rest, n, h => by
    simp only [modelCount, h l (by simp), if_true]
    exact modelCount_atoms rest n (fun x hx => h x (by simp [hx]))

theorem mapM_ok_mem {α β : Type} (f : α → Except Err β) : ∀ (T : List α) (ls : List β), T.mapM f = Except.ok ls →
    ls.length = T.length ∧ ∀ l ∈ ls, ∃ r ∈ T, f r = Except.ok l
  | [], ls, h => by
    simp only [List.mapM_nil, pure_eq_ok] at h
    injection h with h; subst h; simp
  | r :: T, ls, h => by
    rw [List.mapM_cons] at h
    obtain ⟨b, hb, h⟩ := bind_eq_ok h
    obtain ⟨bs, hbs, h⟩ := bind_eq_ok h
    simp only [pure_eq_ok] at h
    injection h with h; subst h
    obtain ⟨hl, hm⟩ := mapM_ok_mem f T bs hbs
    refine ⟨by simp [hl], ?_⟩
    intro l hl'
    rcases List.mem_cons.1 hl' with rfl | hl'
    · exact ⟨r, by simp, hb⟩
    · obtain ⟨r', hr', hf⟩ := hm l hl'
      exact ⟨r', by simp [hr'], hf⟩

/-- the table name of a `CREATE TABLE name (<header>)` text -/
def createdName (q : Str) : Option Str :=
  let n := (q.drop 13).take (q.length - 13 - (2 + headerText.length + 1))
  if q = createText n headerText then some n else none

theorem createdName_createText (n : Str) : createdName (createText n headerText) = some n := by
  have hl : (createText n headerText).length = 13 + n.length + (2 + headerText.length + 1) := by
    simp [createText]; omega
  have hd : ((createText n headerText).drop 13).take n.length = n := by
    simp [createText]
  unfold createdName
  have hk : (createText n headerText).length - 13 - (2 + headerText.length + 1) = n.length := by omega
  simp only [hk, hd, if_true]

/-- the object a new connection holds after `__init__` returned these statements (`none`: not the statements of `__init__`) -/
def objOfInit : List GenP.Rt.Fx × Int → Option Tbl.Obj
  | ([GenP.Rt.Fx.method _, GenP.Rt.Fx.method _, GenP.Rt.Fx.execute q, GenP.Rt.Fx.executemany q' rows], n) =>
    match createdName q with
    | some name =>
      if q' = insertText name qmText ∧ 0 ≤ n then
        some { kind := .single,
               db := { tabs := [{ name := name,
                                  rows := rows.filterMap (fun row => (Py.Atom.ofRow row).map (fun a => ({ atom := a, extra := [] } : Tbl.Row))) }],
                       nModel := n.toNat } }
      else none
    | none => none
  | _ => none

/-- the exception classes the two layers share -/
def errOf : Err → Model.Err
  | .indexError => .indexError
  | .valueError => .valueError
  | .typeError => .typeError
  | e => .unmodelled e.tag

/-- a call of the translated `__call__` / `__init__`, seen as a database object -/
def asObj (r : Except Err (List GenP.Rt.Fx × Int)) : Except Model.Err Tbl.Obj :=
  match r with
  | .error e => .error (errOf e)
  | .ok x => match objOfInit x with
    | some o => .ok o
    | none => .error (.unmodelled "not the statements of __init__")

theorem clean_idem (tn : Str) : clean (clean tn) = clean tn := by
  unfold clean
  rw [List.map_map]
  apply List.map_congr_left
  intro x _
  by_cases hx : x ∈ punct
  · have : '_' ∈ punct := by decide
    simp [hx, this]
  · simp [hx]

/-- **`db(**kwargs)` = `Model.derive Model.textRoundtrip … (.deriveSub k kw)` as database objects**, for a single-structure object
    whose first table has a name the library created (`clean name = name`, see `clean_idem`), when `sql2pdb` is the export of
    the selected rows (`Model.exportRows`, line by line `Gen.data2pdb_line`) and the exported lines parse
    (`Model.textRoundtrip` is total: on a failing export / parse the hand model has no meaning, see its definition);
    an empty selection is IndexError on both sides -/
theorem genp_call_eq_derive (fs : GenP.Rt.FS) (w : Model.World) (k : Nat) (o : Tbl.Obj) (hw : w[k]? = some o) (hk : o.kind = .single)
    (t0 : Tbl.Tab) (rest : List Tbl.Tab) (ht : o.db.tabs = t0 :: rest) (hc : clean t0.name = t0.name) (kw : List Tbl.Kw)
    (sql2pdb : Str → Except Err (List Str)) (T : Tbl.Table) (lines : List Str) (prows : List Row)
    (hexp : Model.exportRows o.db t0.name kw = Except.ok T)
    (hs : sql2pdb t0.name = T.mapM (fun r => Gen.data2pdb_line r.atom))
    (hl : T.mapM (fun r => Gen.data2pdb_line r.atom) = Except.ok lines)
    (hp : Model.parse lines = Except.ok prows) :
    asObj (GenP.call fs (o.db.tabs.map (·.name)) sql2pdb) = Model.derive Model.textRoundtrip w (.deriveSub k kw) := by
  obtain ⟨hlen, hmem⟩ := mapM_ok_mem _ T lines hl
  have hatoms : ∀ l ∈ lines, Py.startsWith l Gen.atom_prefix = true := by
    intro l hl'
    obtain ⟨r, _, hr⟩ := hmem l hl'
    exact data2pdb_line_atom r.atom l hr
  have hcount := modelCount_atoms lines 0 hatoms
  have hp' : Model.parseLines lines 0 = Except.ok prows := hp
  -- the code
  have hcode : GenP.call fs (o.db.tabs.map (·.name)) sql2pdb =
      if lines.isEmpty then Except.error Err.indexError
      else Except.ok ([GenP.Rt.Fx.method "super().__init__", GenP.Rt.Fx.method "_create_sql",
                    GenP.Rt.Fx.execute (createText t0.name headerText),
                    GenP.Rt.Fx.executemany (insertText t0.name qmText) prows], 0) := by
    rw [ht, List.map_cons]
    have hsame : GenP.call fs (t0.name :: rest.map (·.name)) sql2pdb =
        GenP.call fs (t0.name :: rest.map (·.name)) (fun _ => Except.ok lines) := by
      rw [call_nf, call_nf]
      have h0 : Py.listGet (t0.name :: rest.map (·.name)) 0 = Except.ok t0.name := rfl
      simp only [h0, ok_bind, hs, hl]
    rw [hsame, genp_call_eq_parse, hp', hcount, hc]
    rfl
  -- the model
  have hmodel : Model.derive Model.textRoundtrip w (.deriveSub k kw) =
      if T.isEmpty then Except.error Model.Err.indexError
      else Except.ok { kind := .single, db := { tabs := [{ name := t0.name, rows := parseBack lines }] } } := by
    simp only [Model.derive, hw, hk, ht, hexp, Model.newTable, textRoundtrip_eq T lines hl]
    cases T <;> rfl
  have hemp : T.isEmpty = lines.isEmpty := by
    cases T <;> cases lines <;> simp_all
  rw [hcode, hmodel, hemp]
  cases hle : lines.isEmpty with
  | true => rfl
  | false =>
    simp only [Bool.false_eq_true, if_false, asObj, objOfInit, createdName_createText]
    simp [parseBack, hp]

/-! ### `pdb2sql(pdbfile, tablename=.., fix_chainID=..)` as a database of the table model -/

def toTable (rows : List Row) : Tbl.Table :=
  rows.filterMap (fun row => (Py.Atom.ofRow row).map (fun a => ({ atom := a, extra := [] } : Tbl.Row)))

/-- the database a new connection holds after CREATE TABLE `q` and ONE INSERT `q'` of `rows` -/
def baseDb (q q' : Str) (rows : List Row) (n : Int) : Except Model.Err Tbl.Db :=
  match createdName q with
  | some name =>
    if q' = insertText name qmText then .ok { tabs := [{ name := name, rows := toTable rows }], nModel := n.toNat }
    else .error (.unmodelled "not the statements of __init__")
  | none => .error (.unmodelled "not the statements of __init__")

/-- what the statements and method calls `__init__` returned leave behind: the table, then the TRANSLATED `_fix_chainID` run on
    it (`GenP._fix_chainID` through `Rt.runMethod`) when `__init__` called it; an exception of `_fix_chainID` is the constructor's -/
def dbOfInitFx : List GenP.Rt.Fx × Int → Except Model.Err Tbl.Db
  | ([GenP.Rt.Fx.method _, GenP.Rt.Fx.method _, GenP.Rt.Fx.execute q, GenP.Rt.Fx.executemany q' rows], n) => baseDb q q' rows n
  | ([GenP.Rt.Fx.method _, GenP.Rt.Fx.method _, GenP.Rt.Fx.execute q, GenP.Rt.Fx.executemany q' rows, GenP.Rt.Fx.method "_fix_chainID"], n) =>
    match baseDb q q' rows n with
    | .error e => .error e
    | .ok db =>
      match GenP.Rt.runMethod db (GenP._fix_chainID db) with
      | (db', .ok _) => .ok db'
      | (_, .error e) => .error e
  | _ => .error (.unmodelled "not the statements of __init__")

def asDb (r : Except Err (List GenP.Rt.Fx × Int)) : Except Model.Err Tbl.Db :=
  match r with
  | .error e => .error (errOf e)
  | .ok x => dbOfInitFx x

/-- the hand model's construction: `Model.readPdb`, `Model.parse`, one table under the cleaned name with the ENDMDL count,
    then `Model.fixChainID` with the option (its exception is the constructor's) -/
def modelConstruct (fs : Model.FS) (i : Model.Input) (tn : Str) (fix : Bool) : Except Model.Err Tbl.Db :=
  match Model.readPdb fs i with
  | .error e => .error (errOf e)
  | .ok lines =>
    match Model.parse lines with
    | .error e => .error (errOf e)
    | .ok rows =>
      let db : Tbl.Db := { tabs := [{ name := clean tn, rows := toTable rows }], nModel := (modelCount lines 0).toNat }
      if fix then
        (match Model.fixChainID db with
         | (db', .ok _) => .ok db'
         | (_, .error e) => .error e)
      else .ok db

/-- **`pdb2sql.__init__` = the model's construction**, for every file system, input form, table name and value of the
    `fix_chainID` option: translated `__init__` (with the translated `read_pdb`, `_create_table`, `_fix_chainID` inside) run on a
    fresh connection = `Model.readPdb`, `Model.parse`, `Model.fixChainID`; every exception inside the equation -/
theorem genp_init_eq_model (fs : Model.FS) (i : Model.Input) (tn : Str) (fix : Bool) :
    asDb (GenP.init (toFS fs) (toObj i) tn fix) = modelConstruct fs i tn fix := by
  rw [init_nf, create_table_nf, genp_read_pdb_eq_model]
  unfold modelConstruct
  cases hr : Model.readPdb fs i with
  | error e => rfl
  | ok lines =>
    simp only [ok_bind]
    have hpl : Model.parseLines lines 0 = Model.parse lines := rfl
    rw [hpl]
    cases hp : Model.parse lines with
    | error e => rfl
    | ok rows =>
      cases fix
      · simp [asDb, dbOfInitFx, baseDb, createdName_createText, ok_bind]
      · simp [asDb, dbOfInitFx, baseDb, createdName_createText, ok_bind, genp_fix_chainID_eq_model]

end Proofs.GenParse
