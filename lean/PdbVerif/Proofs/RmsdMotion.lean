/-
  Helper lemmas for C07 / C11 (cluster E), part 11: rigid motions (composition, inverse, isometry); the minimum over
  rigid motions and the fit-then-evaluate value do not notice a rigid motion of the decoy points or of the reference
  points; the definition's pair lists under a motion of the decoy, of both structures, and under renumbering.
  Helper lemmas only.
-/
import PdbVerif.Proofs.RmsdMsd
import PdbVerif.Proofs.RmsdLines
import PdbVerif.Spec.C11

set_option linter.unusedVariables false
set_option linter.unusedSimpArgs false
set_option linter.unusedSectionVars false

namespace Proofs.Motion
open Py Py.Mat3 Spec Spec.Rmsd Proofs.Msd

section field
variable {α : Type} [Field α] [LinearOrder α] [IsStrictOrderedRing α]

/-! ### rigid motions: composition, inverse, isometry -/

def comp (g h : Motion α) : Motion α := ⟨g.rot.mul h.rot, Vec3.add (g.rot.mulVec h.tr) g.tr⟩
def inv (h : Motion α) : Motion α := ⟨h.rot.T, Vec3.neg (h.rot.T.mulVec h.tr)⟩

theorem comp_apply (g h : Motion α) (p : Vec3 α) : (comp g h).apply p = g.apply (h.apply p) := by
  simp only [comp, Motion.apply]
  ext <;> simp only [Vec3.add, Mat3.mulVec, Mat3.mul] <;> ring

theorem comp_rigid {g h : Motion α} (hg : g.IsRigid) (hh : h.IsRigid) : (comp g h).IsRigid := Proofs.M3.rot_mul hg hh
theorem inv_rigid {h : Motion α} (hh : h.IsRigid) : (inv h).IsRigid := Proofs.M3.rot_T hh

theorem inv_apply_apply {h : Motion α} (hh : h.IsRigid) (p : Vec3 α) : (inv h).apply (h.apply p) = p := by
  have h2 := hh.1.2      -- Rᵀ R = 1
  have e : h.rot.T.mulVec (h.rot.mulVec p) = p := by
    rw [← Proofs.M3.mulVec_mul, h2, Proofs.M3.one_mulVec]
  simp only [inv, Motion.apply]
  have : h.rot.T.mulVec (Vec3.add (h.rot.mulVec p) h.tr) = Vec3.add (h.rot.T.mulVec (h.rot.mulVec p)) (h.rot.T.mulVec h.tr) :=
    Proofs.M3.mulVec_add _ _ _
  rw [this, e]
  ext <;> simp only [Vec3.add, Vec3.neg] <;> ring

theorem apply_inv_apply {h : Motion α} (hh : h.IsRigid) (p : Vec3 α) : h.apply ((inv h).apply p) = p := by
  have h1 := hh.1.1      -- R Rᵀ = 1
  simp only [inv, Motion.apply]
  have e : h.rot.mulVec (h.rot.T.mulVec p) = p := by
    rw [← Proofs.M3.mulVec_mul, h1, Proofs.M3.one_mulVec]
  have e2 : h.rot.mulVec (h.rot.T.mulVec h.tr) = h.tr := by
    rw [← Proofs.M3.mulVec_mul, h1, Proofs.M3.one_mulVec]
  have : h.rot.mulVec (Vec3.add (h.rot.T.mulVec p) (Vec3.neg (h.rot.T.mulVec h.tr))) =
      Vec3.add (h.rot.mulVec (h.rot.T.mulVec p)) (Vec3.neg (h.rot.mulVec (h.rot.T.mulVec h.tr))) := by
    ext <;> simp only [Vec3.add, Vec3.neg, Mat3.mulVec] <;> ring
  rw [this, e, e2]
  ext <;> simp only [Vec3.add, Vec3.neg] <;> ring

/-- a rigid motion keeps distances -/
theorem normSq_apply_sub {h : Motion α} (hh : h.IsRigid) (p q : Vec3 α) :
    Vec3.normSq (Vec3.sub (h.apply p) (h.apply q)) = Vec3.normSq (Vec3.sub p q) := by
  have e : Vec3.sub (h.apply p) (h.apply q) = h.rot.mulVec (Vec3.sub p q) := by
    simp only [Motion.apply]
    ext <;> simp only [Vec3.sub, Vec3.add, Mat3.mulVec] <;> ring
  rw [e, Proofs.M3.orth_normSq hh.1]

theorem sumSqDev_congr {g g' : Motion α} (l : List (Vec3 α × Vec3 α)) (h : ∀ p, g.apply p = g'.apply p) :
    sumSqDev g l = sumSqDev g' l := by
  induction l with
  | nil => rfl
  | cons pq l ih => simp only [sumSqDev, ih, h]

/-- decoy points moved by `h`: the deviation under `g` is the deviation of the original pairs under `g ∘ h` -/
theorem sumSqDev_moveDecoy (g h : Motion α) (l : List (Vec3 α × Vec3 α)) :
    sumSqDev g (l.map (fun pq => (h.apply pq.1, pq.2))) = sumSqDev (comp g h) l := by
  induction l with
  | nil => rfl
  | cons pq l ih => simp only [List.map_cons, sumSqDev, ih, comp_apply]

/-- reference points moved by a rigid `k`: the deviation under `g` is the deviation of the original pairs under `k⁻¹ ∘ g` -/
theorem sumSqDev_moveRef (g : Motion α) {k : Motion α} (hk : k.IsRigid) (l : List (Vec3 α × Vec3 α)) :
    sumSqDev g (l.map (fun pq => (pq.1, k.apply pq.2))) = sumSqDev (comp (inv k) g) l := by
  induction l with
  | nil => rfl
  | cons pq l ih =>
    simp only [List.map_cons, sumSqDev, ih, comp_apply]
    congr 1
    have := normSq_apply_sub (inv_rigid hk) (g.apply pq.1) (k.apply pq.2)
    rw [inv_apply_apply hk] at this
    exact this.symm

theorem msd_moveDecoy (g h : Motion α) (l : List (Vec3 α × Vec3 α)) :
    msd g (l.map (fun pq => (h.apply pq.1, pq.2))) = msd (comp g h) l := by
  unfold msd; rw [sumSqDev_moveDecoy, List.length_map]

theorem msd_moveRef (g : Motion α) {k : Motion α} (hk : k.IsRigid) (l : List (Vec3 α × Vec3 α)) :
    msd g (l.map (fun pq => (pq.1, k.apply pq.2))) = msd (comp (inv k) g) l := by
  unfold msd; rw [sumSqDev_moveRef g hk, List.length_map]

theorem msd_congr {g g' : Motion α} (l : List (Vec3 α × Vec3 α)) (h : ∀ p, g.apply p = g'.apply p) : msd g l = msd g' l := by
  unfold msd; rw [sumSqDev_congr l h]

/-- **The minimum over rigid motions does not notice a rigid motion of the decoy** … -/
theorem isMinMsd_moveDecoy {h : Motion α} (hh : h.IsRigid) (m : α) (l : List (Vec3 α × Vec3 α)) :
    IsMinMsd m (l.map (fun pq => (h.apply pq.1, pq.2))) ↔ IsMinMsd m l := by
  constructor
  · rintro ⟨⟨g, hg, hgm⟩, hmin⟩
    refine ⟨⟨comp g h, comp_rigid hg hh, by rw [← msd_moveDecoy]; exact hgm⟩, fun g' hg' => ?_⟩
    have := hmin (comp g' (inv h)) (comp_rigid hg' (inv_rigid hh))
    rw [msd_moveDecoy] at this
    rwa [msd_congr l (g := comp (comp g' (inv h)) h) (g' := g') (fun p => by
      rw [comp_apply, comp_apply, inv_apply_apply hh])] at this
  · rintro ⟨⟨g, hg, hgm⟩, hmin⟩
    refine ⟨⟨comp g (inv h), comp_rigid hg (inv_rigid hh), ?_⟩, fun g' hg' => ?_⟩
    · rw [msd_moveDecoy, msd_congr l (g' := g) (fun p => by rw [comp_apply, comp_apply, inv_apply_apply hh])]
      exact hgm
    · rw [msd_moveDecoy]; exact hmin _ (comp_rigid hg' hh)

/-- … nor one of the reference -/
theorem isMinMsd_moveRef {k : Motion α} (hk : k.IsRigid) (m : α) (l : List (Vec3 α × Vec3 α)) :
    IsMinMsd m (l.map (fun pq => (pq.1, k.apply pq.2))) ↔ IsMinMsd m l := by
  constructor
  · rintro ⟨⟨g, hg, hgm⟩, hmin⟩
    refine ⟨⟨comp (inv k) g, comp_rigid (inv_rigid hk) hg, by rw [← msd_moveRef g hk]; exact hgm⟩, fun g' hg' => ?_⟩
    have := hmin (comp k g') (comp_rigid hk hg')
    rw [msd_moveRef _ hk] at this
    rwa [msd_congr l (g' := g') (fun p => by rw [comp_apply, comp_apply, inv_apply_apply hk])] at this
  · rintro ⟨⟨g, hg, hgm⟩, hmin⟩
    refine ⟨⟨comp k g, comp_rigid hk hg, ?_⟩, fun g' hg' => ?_⟩
    · rw [msd_moveRef _ hk, msd_congr l (g' := g) (fun p => by rw [comp_apply, comp_apply, inv_apply_apply hk])]
      exact hgm
    · rw [msd_moveRef _ hk]; exact hmin _ (comp_rigid (inv_rigid hk) hg')


theorem isFitThenEval_moveDecoy {h : Motion α} (hh : h.IsRigid) (m : α) (fit ev : List (Vec3 α × Vec3 α)) :
    IsFitThenEval m (fit.map (fun pq => (h.apply pq.1, pq.2))) (ev.map (fun pq => (h.apply pq.1, pq.2))) ↔
      IsFitThenEval m fit ev := by
  constructor
  · rintro ⟨g, hg, hopt, hgm⟩
    refine ⟨comp g h, comp_rigid hg hh, fun k hk => ?_, by rw [← msd_moveDecoy]; exact hgm⟩
    have := hopt (comp k (inv h)) (comp_rigid hk (inv_rigid hh))
    rw [msd_moveDecoy, msd_moveDecoy] at this
    rwa [msd_congr fit (g := comp (comp k (inv h)) h) (g' := k) (fun p => by
      rw [comp_apply, comp_apply, inv_apply_apply hh])] at this
  · rintro ⟨g, hg, hopt, hgm⟩
    have e : ∀ l : List (Vec3 α × Vec3 α), msd (comp g (inv h)) (l.map (fun pq => (h.apply pq.1, pq.2))) = msd g l := by
      intro l
      rw [msd_moveDecoy, msd_congr l (g' := g) (fun p => by rw [comp_apply, comp_apply, inv_apply_apply hh])]
    refine ⟨comp g (inv h), comp_rigid hg (inv_rigid hh), fun k hk => ?_, by rw [e]; exact hgm⟩
    rw [e, msd_moveDecoy]
    exact hopt _ (comp_rigid hk hh)

theorem isFitThenEval_moveRef {k : Motion α} (hk : k.IsRigid) (m : α) (fit ev : List (Vec3 α × Vec3 α)) :
    IsFitThenEval m (fit.map (fun pq => (pq.1, k.apply pq.2))) (ev.map (fun pq => (pq.1, k.apply pq.2))) ↔
      IsFitThenEval m fit ev := by
  constructor
  · rintro ⟨g, hg, hopt, hgm⟩
    refine ⟨comp (inv k) g, comp_rigid (inv_rigid hk) hg, fun j hj => ?_, by rw [← msd_moveRef g hk]; exact hgm⟩
    have := hopt (comp k j) (comp_rigid hk hj)
    rw [msd_moveRef _ hk, msd_moveRef _ hk] at this
    rwa [msd_congr fit (g := comp (inv k) (comp k j)) (g' := j) (fun p => by
      rw [comp_apply, comp_apply, inv_apply_apply hk])] at this
  · rintro ⟨g, hg, hopt, hgm⟩
    have e : ∀ l : List (Vec3 α × Vec3 α), msd (comp k g) (l.map (fun pq => (pq.1, k.apply pq.2))) = msd g l := by
      intro l
      rw [msd_moveRef _ hk, msd_congr l (g' := g) (fun p => by rw [comp_apply, comp_apply, inv_apply_apply hk])]
    refine ⟨comp k g, comp_rigid hk hg, fun j hj => ?_, by rw [e]; exact hgm⟩
    rw [e, msd_moveRef _ hk]
    exact hopt _ (comp_rigid (inv_rigid hk) hj)

end field

/-! ### structures under a rigid motion, a renumbering, a change of the ignored columns -/

open Proofs.Rmsd Model Model.Rmsd Spec.Inv

theorem moveAtom_id (g : Motion Rat) : IdPreserving (moveAtom g) := ⟨fun _ => rfl, fun _ => rfl, fun _ => rfl, fun _ => rfl⟩
theorem moveAtom_moves (g : Motion Rat) : MovesBy (moveAtom g) g.apply := fun _ => rfl

theorem atomDist2_eq (a b : Atom) : atomDist2 a b = Vec3.normSq (Vec3.sub (posOf a) (posOf b)) := by
  simp only [atomDist2, Vec3.normSq, Vec3.dot, Vec3.sub, posOf]

theorem moveAtom_keepsCutoff {g : Motion Rat} (hg : g.IsRigid) (c : Rat) : KeepsCutoff (moveAtom g) c := by
  intro a b
  unfold withinCutoff
  rw [atomDist2_eq, atomDist2_eq, moveAtom_moves g a, moveAtom_moves g b, normSq_apply_sub hg]

theorem within_move {g : Motion Rat} (hg : g.IsRigid) (c : Rat) (p q : Spec.Rmsd.P3) :
    within c (g.apply p) (g.apply q) = within c p q := by
  unfold within
  have : sqDist (g.apply p) (g.apply q) = sqDist p q := by
    have := normSq_apply_sub hg p q
    simpa only [Vec3.normSq, Vec3.dot, Vec3.sub, sqDist] using this
  rw [this]

/-- decoy moved by ANY motion: every pair keeps its identity and its reference point, the decoy point is the moved one -/
theorem commonBackbone_moveDecoy (g : Motion Rat) (dec ref : List Atom) (sel : Atom → Bool) :
    commonBackbone (move g dec) ref sel = (commonBackbone dec ref sel).map (moveDecoy g) := by
  have := commonBackbone_map (fD := moveAtom g) (fR := id) (kf := id) (pd := g.apply) (pr := id)
    (fun _ _ h => h) (fun _ => rfl) (fun _ => rfl) (fun _ => rfl) (fun _ => rfl) (fun _ => rfl) dec ref sel sel (fun _ _ => rfl)
  rw [List.map_id] at this
  exact this

theorem interfacePairs_moveDecoy (g : Motion Rat) (dec ref : List Atom) (c : Rat) :
    interfacePairs (move g dec) ref c = (interfacePairs dec ref c).map (moveDecoy g) :=
  commonBackbone_moveDecoy g dec ref _

theorem ligandPairs_moveDecoy (g : Motion Rat) (dec ref : List Atom) :
    ligandFitPairs (move g dec) ref = (ligandFitPairs dec ref).map (moveDecoy g) ∧
    ligandEvalPairs (move g dec) ref = (ligandEvalPairs dec ref).map (moveDecoy g) := by
  unfold ligandFitPairs ligandEvalPairs
  cases longShort ref with
  | none => exact ⟨rfl, rfl⟩
  | some ls => exact ⟨commonBackbone_moveDecoy g dec ref _, commonBackbone_moveDecoy g dec ref _⟩

/-- decoy and reference moved together by a RIGID motion: the interface is the same, both points of every pair move -/
theorem interfacePairs_moveBoth {g : Motion Rat} (hg : g.IsRigid) (dec ref : List Atom) (c : Rat) :
    interfacePairs (move g dec) (move g ref) c = (interfacePairs dec ref c).map (moveBoth g) := by
  unfold interfacePairs
  refine commonBackbone_map (fD := moveAtom g) (fR := moveAtom g) (kf := id) (pd := g.apply) (pr := g.apply)
    (fun _ _ h => h) (fun _ => rfl) (fun _ => rfl) (fun _ => rfl) (fun _ => rfl) (fun _ => rfl) dec ref _ _ ?_
  intro r _
  have := atInterface_map (f := moveAtom g) 0 (fun _ => rfl) (fun a => by simp [moveAtom]) c
    (fun a b => within_move hg c _ _) ref r.chainID r.resSeq
  simpa [move, moveAtom] using this

theorem ligandPairs_moveBoth (g : Motion Rat) (dec ref : List Atom) :
    ligandFitPairs (move g dec) (move g ref) = (ligandFitPairs dec ref).map (moveBoth g) ∧
    ligandEvalPairs (move g dec) (move g ref) = (ligandEvalPairs dec ref).map (moveBoth g) := by
  unfold ligandFitPairs ligandEvalPairs
  have hls : longShort (move g ref) = longShort ref := longShort_map (f := moveAtom g) (fun _ => rfl) ref
  rw [hls]
  have key : ∀ ch : Str, commonBackbone (move g dec) (move g ref) (fun r => decide (r.chainID = ch)) =
      (commonBackbone dec ref (fun r => decide (r.chainID = ch))).map (moveBoth g) := fun ch =>
    commonBackbone_map (fD := moveAtom g) (fR := moveAtom g) (kf := id) (pd := g.apply) (pr := g.apply)
      (fun _ _ h => h) (fun _ => rfl) (fun _ => rfl) (fun _ => rfl) (fun _ => rfl) (fun _ => rfl) dec ref _ _ (fun _ _ => rfl)
  cases longShort ref with
  | none => exact ⟨rfl, rfl⟩
  | some ls => exact ⟨key _, key _⟩

/-! ### renumbering -/

theorem shiftKey_inj (δ : Int) : Function.Injective (shiftKey δ) := by
  rintro ⟨a1, a2, a3⟩ ⟨b1, b2, b3⟩ h
  simp only [shiftKey, Prod.mk.injEq] at h ⊢
  exact ⟨h.1, by omega, h.2.2⟩

theorem commonBackbone_renumber (δ : Int) (dec ref : List Atom) (sel sel' : Atom → Bool)
    (hsel : ∀ r ∈ ref, sel' (shiftAtom δ r) = sel r) :
    commonBackbone (renumber δ dec) (renumber δ ref) sel' = (commonBackbone dec ref sel).map (shiftPair δ) :=
  commonBackbone_map (fD := shiftAtom δ) (fR := shiftAtom δ) (kf := shiftKey δ) (pd := id) (pr := id)
    (shiftKey_inj δ) (fun _ => rfl) (fun _ => rfl) (fun _ => rfl) (fun _ => rfl) (fun _ => rfl) dec ref sel sel' hsel

theorem interfacePairs_renumber (δ : Int) (dec ref : List Atom) (c : Rat) :
    interfacePairs (renumber δ dec) (renumber δ ref) c = (interfacePairs dec ref c).map (shiftPair δ) := by
  unfold interfacePairs
  apply commonBackbone_renumber
  intro r _
  exact atInterface_map (f := shiftAtom δ) δ (fun _ => rfl) (fun _ => rfl) c (fun _ _ => rfl) ref r.chainID r.resSeq

theorem ligandPairs_renumber (δ : Int) (dec ref : List Atom) :
    ligandFitPairs (renumber δ dec) (renumber δ ref) = (ligandFitPairs dec ref).map (shiftPair δ) ∧
    ligandEvalPairs (renumber δ dec) (renumber δ ref) = (ligandEvalPairs dec ref).map (shiftPair δ) := by
  unfold ligandFitPairs ligandEvalPairs
  have hls : longShort (renumber δ ref) = longShort ref := longShort_map (f := shiftAtom δ) (fun _ => rfl) ref
  rw [hls]
  cases longShort ref with
  | none => exact ⟨rfl, rfl⟩
  | some ls => exact ⟨commonBackbone_renumber δ dec ref _ _ (fun _ _ => rfl), commonBackbone_renumber δ dec ref _ _ (fun _ _ => rfl)⟩

end Proofs.Motion
