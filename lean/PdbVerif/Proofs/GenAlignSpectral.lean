/-
  C18, the principal-direction statement, for the GENERATED `align` / `align_interface` (Gen/Align.lean) under contracts on
  `np.linalg.eigh`, `np.cov` and the trig functions only.

  * `EighOK C u V`: what `np.linalg.eigh(C) = (u, V)` promises - the columns of `V` are orthonormal and `C vᵢ = uᵢ vᵢ`
    (`C V = V diag(u)`).
  * Rayleigh bound (`rayleigh_upper` / `rayleigh_lower`): then `wᵀ C w ≤ m ‖w‖²` for every bound `m` of the eigenvalues, and
    `≥` for a lower bound (expand `w` in the eigenbasis: `C = V diag(u) Vᵀ`, `wᵀCw = Σ uᵢ cᵢ²`, `Σ cᵢ² = ‖w‖²`, `c = Vᵀw`).
  * hence the column `get_max_pca_vect` returns IS a direction of largest variance of the selection it was given
    (`gena_get_max_pca_vect_principal`), and `get_min_pca_vect`'s a direction of least variance: the hypotheses `heig` / `hdom` of
    `Props.C18.principal_axis_aligned(_min)` are discharged from the contracts.
  * composed with the equalities of GenAlignMain.lean: when the generated `align` returns, the requested axis carries the largest
    variance of the selected atoms OF THE RESULT TABLE and is an eigen-direction of their scatter matrix
    (`gena_align_principal_axis`); for `align_interface` the normal of the plane carries the least variance of the contact rows
    (`gena_align_interface_principal_axis`).
-/
import PdbVerif.Proofs.GenAlignSpec
import PdbVerif.Props.C11

set_option linter.unusedSectionVars false
set_option linter.unusedVariables false
set_option linter.unusedSimpArgs false
set_option linter.style.nameCheck false

namespace Proofs.GenAlign
open Py Py.Mat3 Model GenA Spec Proofs.M3 Proofs.Align

/-! ### the eigen-decomposition contract and the Rayleigh bound -/
section field
variable {α : Type} [Field α] [LinearOrder α] [IsStrictOrderedRing α]

/-- `np.linalg.eigh(C) = (u, V)`: orthonormal columns, `C vᵢ = uᵢ vᵢ` -/
def EighOK (C : Mat3 α) (u : Vec3 α) (V : Mat3 α) : Prop :=
  Orthogonal V ∧ C.mul V = V.mul (Mat3.diag u.x u.y u.z)

/-- spectral decomposition `C = V diag(u) Vᵀ` -/
theorem eigh_decomp {C : Mat3 α} {u : Vec3 α} {V : Mat3 α} (h : EighOK C u V) :
    C = (V.mul (Mat3.diag u.x u.y u.z)).mul V.T := by
  calc C = C.mul Mat3.one := (mul_one C).symm
    _ = C.mul (V.mul V.T) := by rw [h.1.1]
    _ = (C.mul V).mul V.T := (mul_assoc C V V.T).symm
    _ = (V.mul (Mat3.diag u.x u.y u.z)).mul V.T := by rw [h.2]

theorem quadForm_diag (u c : Vec3 α) :
    quadForm (Mat3.diag u.x u.y u.z) c = u.x * (c.x * c.x) + u.y * (c.y * c.y) + u.z * (c.z * c.z) := by
  simp only [quadForm, Vec3.dot, mulVec, Mat3.diag]; ring

/-- `wᵀ C w = Σ uᵢ cᵢ²` with `c = Vᵀ w`, and `Σ cᵢ² = ‖w‖²` -/
theorem quadForm_eigenbasis {C : Mat3 α} {u : Vec3 α} {V : Mat3 α} (h : EighOK C u V) (w : Vec3 α) :
    quadForm C w = u.x * ((V.T.mulVec w).x * (V.T.mulVec w).x) + u.y * ((V.T.mulVec w).y * (V.T.mulVec w).y) +
        u.z * ((V.T.mulVec w).z * (V.T.mulVec w).z) ∧
      (V.T.mulVec w).x * (V.T.mulVec w).x + (V.T.mulVec w).y * (V.T.mulVec w).y + (V.T.mulVec w).z * (V.T.mulVec w).z =
        Vec3.normSq w := by
  constructor
  · conv_lhs => rw [eigh_decomp h]
    rw [quadForm_conj, quadForm_diag]
  · have := orth_normSq (orth_T h.1) w
    simpa only [Vec3.normSq, Vec3.dot] using this

/-- **Rayleigh bound, upper**: every eigenvalue `≤ m` ⇒ `wᵀ C w ≤ m ‖w‖²` for every `w` -/
theorem rayleigh_upper {C : Mat3 α} {u : Vec3 α} {V : Mat3 α} (h : EighOK C u V) {m : α} (hx : u.x ≤ m) (hy : u.y ≤ m)
    (hz : u.z ≤ m) (w : Vec3 α) : quadForm C w ≤ m * Vec3.normSq w := by
  obtain ⟨h1, h2⟩ := quadForm_eigenbasis h w
  rw [h1, ← h2]
  nlinarith [mul_nonneg (sub_nonneg.2 hx) (mul_self_nonneg (V.T.mulVec w).x),
    mul_nonneg (sub_nonneg.2 hy) (mul_self_nonneg (V.T.mulVec w).y),
    mul_nonneg (sub_nonneg.2 hz) (mul_self_nonneg (V.T.mulVec w).z)]

/-- **Rayleigh bound, lower**: every eigenvalue `≥ m` ⇒ `m ‖w‖² ≤ wᵀ C w` -/
theorem rayleigh_lower {C : Mat3 α} {u : Vec3 α} {V : Mat3 α} (h : EighOK C u V) {m : α} (hx : m ≤ u.x) (hy : m ≤ u.y)
    (hz : m ≤ u.z) (w : Vec3 α) : m * Vec3.normSq w ≤ quadForm C w := by
  obtain ⟨h1, h2⟩ := quadForm_eigenbasis h w
  rw [h1, ← h2]
  nlinarith [mul_nonneg (sub_nonneg.2 hx) (mul_self_nonneg (V.T.mulVec w).x),
    mul_nonneg (sub_nonneg.2 hy) (mul_self_nonneg (V.T.mulVec w).y),
    mul_nonneg (sub_nonneg.2 hz) (mul_self_nonneg (V.T.mulVec w).z)]

/-- for a unit vector: `min λ ≤ uᵀ C u ≤ max λ` -/
theorem rayleigh_unit {C : Mat3 α} {u : Vec3 α} {V : Mat3 α} (h : EighOK C u V) {lo hi : α}
    (hlo : lo ≤ u.x ∧ lo ≤ u.y ∧ lo ≤ u.z) (hhi : u.x ≤ hi ∧ u.y ≤ hi ∧ u.z ≤ hi) (w : Vec3 α) (hw : Vec3.normSq w = 1) :
    lo ≤ quadForm C w ∧ quadForm C w ≤ hi := by
  have h1 := rayleigh_lower h hlo.1 hlo.2.1 hlo.2.2 w
  have h2 := rayleigh_upper h hhi.1 hhi.2.1 hhi.2.2 w
  rw [hw, _root_.mul_one] at h1 h2
  exact ⟨h1, h2⟩

/-- the `k`-th column is an eigenvector for `u[k]`, of unit length -/
theorem eigh_col {C : Mat3 α} {u : Vec3 α} {V : Mat3 α} (h : EighOK C u V) (k : Nat) (hk : k < 3) :
    C.mulVec (Mat3.col V k) = Vec3.smul (comp u k) (Mat3.col V k) ∧ Vec3.normSq (Mat3.col V k) = 1 := by
  obtain ⟨⟨_, hVtV⟩, hCV⟩ := h
  have ea := congrArg Mat3.a hCV; have eb := congrArg Mat3.b hCV; have ec := congrArg Mat3.c hCV
  have ed := congrArg Mat3.d hCV; have ee := congrArg Mat3.e hCV; have ef := congrArg Mat3.f hCV
  have eg := congrArg Mat3.g hCV; have eh := congrArg Mat3.h hCV; have ei := congrArg Mat3.i hCV
  have na := congrArg Mat3.a hVtV; have ne := congrArg Mat3.e hVtV; have ni := congrArg Mat3.i hVtV
  simp only [Mat3.mul, Mat3.diag, Mat3.T, Mat3.one] at ea eb ec ed ee ef eg eh ei na ne ni
  have k3 : k = 0 ∨ k = 1 ∨ k = 2 := by omega
  rcases k3 with rfl | rfl | rfl
  · refine ⟨?_, ?_⟩
    · ext <;> simp only [Mat3.col, mulVec, Vec3.smul, comp]
      · linear_combination ea
      · linear_combination ed
      · linear_combination eg
    · simp only [Mat3.col, Vec3.normSq, Vec3.dot]; linear_combination na
  · refine ⟨?_, ?_⟩
    · ext <;> simp only [Mat3.col, mulVec, Vec3.smul, comp]
      · linear_combination eb
      · linear_combination ee
      · linear_combination eh
    · simp only [Mat3.col, Vec3.normSq, Vec3.dot]; linear_combination ne
  · refine ⟨?_, ?_⟩
    · ext <;> simp only [Mat3.col, mulVec, Vec3.smul, comp]
      · linear_combination ec
      · linear_combination ef
      · linear_combination ei
    · simp only [Mat3.col, Vec3.normSq, Vec3.dot]; linear_combination ni

theorem mulVec_smulMat (s : α) (C : Mat3 α) (v : Vec3 α) : (Mat3.smul s C).mulVec v = Vec3.smul s (C.mulVec v) := by
  ext <;> simp only [Mat3.smul, mulVec, Vec3.smul] <;> ring

theorem quadForm_smulMat (s : α) (C : Mat3 α) (w : Vec3 α) : quadForm (Mat3.smul s C) w = s * quadForm C w := by
  simp only [quadForm, Vec3.dot, Mat3.smul, mulVec]; ring

/-- a column of a LARGEST eigenvalue: eigenvector of `S = s·C` (`s ≥ 0`) whose eigenvalue dominates the quadratic form of `S` -/
theorem max_column_principal {C S : Mat3 α} {u : Vec3 α} {V : Mat3 α} {s : α} (h : EighOK C u V) (hs : 0 ≤ s) (hS : S = Mat3.smul s C)
    (k : Nat) (hk : k < 3) (hx : u.x ≤ comp u k) (hy : u.y ≤ comp u k) (hz : u.z ≤ comp u k) :
    S.mulVec (Mat3.col V k) = Vec3.smul (s * comp u k) (Mat3.col V k) ∧
      ∀ w, quadForm S w ≤ (s * comp u k) * Vec3.normSq w := by
  subst hS
  refine ⟨?_, fun w => ?_⟩
  · rw [mulVec_smulMat, (eigh_col h k hk).1]; ext <;> simp only [Vec3.smul] <;> ring
  · rw [quadForm_smulMat, _root_.mul_assoc]
    exact mul_le_mul_of_nonneg_left (rayleigh_upper h hx hy hz w) hs

/-- a column of a SMALLEST eigenvalue -/
theorem min_column_principal {C S : Mat3 α} {u : Vec3 α} {V : Mat3 α} {s : α} (h : EighOK C u V) (hs : 0 ≤ s) (hS : S = Mat3.smul s C)
    (k : Nat) (hk : k < 3) (hx : comp u k ≤ u.x) (hy : comp u k ≤ u.y) (hz : comp u k ≤ u.z) :
    S.mulVec (Mat3.col V k) = Vec3.smul (s * comp u k) (Mat3.col V k) ∧
      ∀ w, (s * comp u k) * Vec3.normSq w ≤ quadForm S w := by
  subst hS
  refine ⟨?_, fun w => ?_⟩
  · rw [mulVec_smulMat, (eigh_col h k hk).1]; ext <;> simp only [Vec3.smul] <;> ring
  · rw [quadForm_smulMat, _root_.mul_assoc]
    exact mul_le_mul_of_nonneg_left (rayleigh_lower h hx hy hz w) hs

/-- what the parameter `eigh` promises -/
def EighContract (eigh : Mat3 α → Except Err (Vec3 α × Mat3 α)) : Prop :=
  ∀ C u V, eigh C = .ok (u, V) → EighOK C u V

/-- what the parameter `cov` promises of `np.cov(scat)`: a non-negative multiple (`1 / (n − 1)`) of the scatter matrix of the
    points `pca` was given -/
def CovContract (cov : Np.PointsT α → Except Err (Mat3 α)) : Prop :=
  ∀ X C, cov (scat X) = .ok C → ∃ s, 0 ≤ s ∧ scatter X = Mat3.smul s C

/-- **`get_max_pca_vect` returns a direction of largest variance** of the points it was given: an eigenvector of their scatter
    matrix whose eigenvalue `lam` dominates the quadratic form (`heig`, `hdom` of `Props.C18.principal_axis_aligned`), of unit length -/
theorem gena_get_max_pca_vect_principal {cov : Np.PointsT α → Except Err (Mat3 α)} {eigh : Mat3 α → Except Err (Vec3 α × Mat3 α)}
    (hcov : CovContract cov) (heigh : EighContract eigh) (X : List (Vec3 α)) (v : Vec3 α)
    (h : GenA.get_max_pca_vect cov eigh X = .ok v) :
    X ≠ [] ∧ Vec3.normSq v = 1 ∧ ∃ lam, (scatter X).mulVec v = Vec3.smul lam v ∧ ∀ w, quadForm (scatter X) w ≤ lam * Vec3.normSq w := by
  obtain ⟨hX, C, u, V, k, hc, he, hk, rfl, hx, hy, hz⟩ := gena_get_max_pca_vect_extreme cov eigh X v h
  obtain ⟨s, hs, hS⟩ := hcov X C hc
  have hE := heigh C u V he
  obtain ⟨h1, h2⟩ := max_column_principal hE hs hS k hk hx hy hz
  exact ⟨hX, (eigh_col hE k hk).2, s * comp u k, h1, h2⟩

/-- **`get_min_pca_vect` returns a direction of least variance** -/
theorem gena_get_min_pca_vect_principal {cov : Np.PointsT α → Except Err (Mat3 α)} {eigh : Mat3 α → Except Err (Vec3 α × Mat3 α)}
    (hcov : CovContract cov) (heigh : EighContract eigh) (X : List (Vec3 α)) (v : Vec3 α)
    (h : GenA.get_min_pca_vect cov eigh X = .ok v) :
    X ≠ [] ∧ Vec3.normSq v = 1 ∧ ∃ lam, (scatter X).mulVec v = Vec3.smul lam v ∧ ∀ w, lam * Vec3.normSq w ≤ quadForm (scatter X) w := by
  obtain ⟨hX, C, u, V, k, hc, he, hk, rfl, hx, hy, hz⟩ := gena_get_min_pca_vect_extreme cov eigh X v h
  obtain ⟨s, hs, hS⟩ := hcov X C hc
  have hE := heigh C u V he
  obtain ⟨h1, h2⟩ := min_column_principal hE hs hS k hk hx hy hz
  exact ⟨hX, (eigh_col hE k hk).2, s * comp u k, h1, h2⟩

theorem scatterAbout_centred (m : Vec3 α) (X : List (Vec3 α)) :
    scatterAbout Vec3.zero (X.map (fun p => Vec3.sub p m)) = scatterAbout m X := by
  induction X with
  | nil => rfl
  | cons p X ih =>
    simp only [List.map_cons, scatterAbout, ih]
    congr 1
    ext <;> simp [Mat3.outer, Vec3.sub, Vec3.zero]

/-- the contract on `cov` is met by the scatter matrix of what `pca` hands over (NumPy divides it by `n − 1`) -/
theorem covContract_scatter : CovContract (fun Y : Np.PointsT α => Except.ok (scatterAbout Vec3.zero Y.cols)) := by
  intro X C hC
  refine ⟨1, zero_le_one, ?_⟩
  simp only [Except.ok.injEq] at hC
  subst hC
  have : (scat X).cols = X.map (fun p => Vec3.sub p (mean X)) := rfl
  rw [this, scatterAbout_centred, Proofs.Residual.mean_eq]
  unfold scatter
  ext <;> simp [Mat3.smul]

end field

/-! ### database level (ℚ): the result table -/

/-- the selection does not look at coordinates (true of every keyword selection on the other columns and on rowID) -/
def CoordBlind (sel : Sel) : Prop := ∀ i a x y z, sel i { a with x := x, y := y, z := z } = sel i a

theorem getFrom_map_blind (sel : Sel) (hb : CoordBlind sel) (g : Vec3 Rat → Vec3 Rat) (db : List Atom) (i : Nat) :
    getFrom sel i (db.map (fun a => { a with x := (g (xyzOf a)).x, y := (g (xyzOf a)).y, z := (g (xyzOf a)).z })) =
      (getFrom sel i db).map g := by
  induction db generalizing i with
  | nil => rfl
  | cons a db ih =>
    have hb' := hb i a (g (xyzOf a)).x (g (xyzOf a)).y (g (xyzOf a)).z
    simp only [List.map_cons, getFrom, ih]
    rw [hb']
    by_cases h : sel i a = true
    · simp only [h, if_true, List.map_cons]; rfl
    · simp [h]

theorem moveSelected_all (g : Vec3 Rat → Vec3 Rat) (db : List Atom) :
    moveSelected selAll g db = db.map (fun a => { a with x := (g (xyzOf a)).x, y := (g (xyzOf a)).y, z := (g (xyzOf a)).z }) := by
  unfold moveSelected
  simp only [selAll, if_true]
  rw [show (fun ai : Atom × Nat => ({ ai.1 with x := (g (xyzOf ai.1)).x, y := (g (xyzOf ai.1)).y, z := (g (xyzOf ai.1)).z } : Atom)) =
    (fun a : Atom => ({ a with x := (g (xyzOf a)).x, y := (g (xyzOf a)).y, z := (g (xyzOf a)).z } : Atom)) ∘ Prod.fst from rfl,
    ← List.map_map, List.zipIdx_map_fst]

/-- the selected coordinates of the moved table are the moved selected coordinates -/
theorem getXYZ_moveSelected (sel : Sel) (hb : CoordBlind sel) (g : Vec3 Rat → Vec3 Rat) (db : List Atom) :
    getXYZ sel (moveSelected selAll g db) = (getXYZ sel db).map g := by
  rw [moveSelected_all]
  exact getFrom_map_blind sel hb g db 0

/-- what `Model.alignPcaVect` returns: every row moved by the composed matrix about the centroid of all atoms -/
theorem alignPcaVect_ok (cp sp ct st : ℚ) (axis : String) (db t : List Atom) (h : alignPcaVect cp sp ct st axis db = .ok t) :
    ∃ mats, alignMats cp sp ct st axis = some mats ∧
      t = moveSelected selAll (fun p => Vec3.add ((composeMats mats).mulVec (Vec3.sub p (mean (getXYZ selAll db)))) (mean (getXYZ selAll db))) db := by
  unfold alignPcaVect at h
  cases hm : alignMats cp sp ct st axis with
  | none => rw [hm] at h; cases h
  | some mats =>
    rw [hm] at h
    simp only at h
    by_cases hne : (getXYZ selAll db).length = 0
    · rw [if_pos hne] at h; cases h
    · rw [if_neg hne] at h
      have hX : getXYZ selAll db ≠ [] := fun hc => hne (by rw [hc]; rfl)
      rw [applyMats_eq mats _ hX] at h
      unfold rotateAbout at h
      rw [Proofs.Tr.update_get selAll _ db hne] at h
      cases h
      exact ⟨mats, rfl, rfl⟩

/-- what `get_rotation_angle` promises AT the vector it is given: `r = norm v ≠ 0` and the spherical angles of `v`
    (`Model.SphericalContract`, derived from Mathlib's `arg` / `arccos` in `Props.C18.spherical_contract_holds`) -/
def AnglesAt (norm : Vec3 Rat → Rat) (arctan2 : Rat → Rat → Rat) (arccos cos sin : Rat → Rat) (v : Vec3 Rat) : Prop :=
  norm v ≠ 0 ∧ SphericalContract v (norm v) (cos (phiOf arctan2 v)) (sin (phiOf arctan2 v)) (cos (thetaOf norm arccos v))
    (sin (thetaOf norm arccos v))

/-- the generated `align`, taken apart: the object, the vector, the table -/
theorem gena_align_ok_inv {σ : Type} {cos sin : Rat → Rat} {pi : Rat}
    (cast : σ → Option Rt.Db) (ctor : σ → Except Err Rt.Db) (cov : Np.PointsT Rat → Except Err (Mat3 Rat))
    (eigh : Mat3 Rat → Except Err (Vec3 Rat × Mat3 Rat)) (norm : Vec3 Rat → Rat) (arctan2 : Rat → Rat → Rat) (arccos : Rat → Rat)
    (h : ∀ v, TrigAt cos sin pi (phiOf arctan2 v) (thetaOf norm arccos v))
    (pdb : σ) (axis : String) (export_ : Bool) (kwargs : Tbl.IRow → Bool) (sql' : Rt.Db) (files : List Rt.FileEffect)
    (hr : GenA.align cast ctor cov eigh norm arctan2 arccos cos sin pi pdb axis export_ kwargs = .ok (sql', files)) :
    ∃ sql v t, openDb cast ctor pdb = .ok sql ∧ GenA.get_max_pca_vect cov eigh (getXYZ (selOf kwargs) sql.atoms) = .ok v ∧
      alignPcaVect (cos (phiOf arctan2 v)) (sin (phiOf arctan2 v)) (cos (thetaOf norm arccos v)) (sin (thetaOf norm arccos v))
        axis sql.atoms = .ok t ∧ sql'.atoms = t := by
  rw [gena_align_eq_model cast ctor cov eigh norm arctan2 arccos h] at hr
  cases ho : openDb cast ctor pdb with
  | error e => rw [ho] at hr; cases hr
  | ok sql =>
    rw [ho] at hr
    simp only [bind_ok, alignModelDb] at hr
    cases hv : pcaVect cov eigh (fun u => Model.argmax [u.x, u.y, u.z]) (getXYZ (selOf kwargs) sql.atoms) with
    | error e => rw [hv] at hr; cases hr
    | ok v =>
      rw [hv] at hr
      simp only [bind_ok, alignCore] at hr
      cases ht : alignPcaVect (cos (phiOf arctan2 v)) (sin (phiOf arctan2 v)) (cos (thetaOf norm arccos v))
          (sin (thetaOf norm arccos v)) axis sql.atoms with
      | error e => rw [ht] at hr; cases hr
      | ok t =>
        rw [ht] at hr
        simp only [Except.map, finish, Except.ok.injEq, Prod.mk.injEq] at hr
        refine ⟨sql, v, t, rfl, ?_, ht, ?_⟩
        · rw [gena_get_max_pca_vect_eq_model]; exact hv
        · rw [← hr.1]; rfl

/-- **the principal axis is aligned, for the generated `align`**.  Contracts: `eigh` returns orthonormal eigenvectors, `cov` a
    non-negative multiple of the scatter matrix, the trig functions satisfy the pointwise laws, and `get_rotation_angle` returns the
    spherical angles of the vector it is given.  Then, whenever the translated call returns, the requested axis `e` carries the
    LARGEST variance of the selected atoms of the RESULT table and is an eigen-direction of their scatter matrix. -/
theorem gena_align_principal_axis {σ : Type} {cos sin : Rat → Rat} {pi : Rat}
    (cast : σ → Option Rt.Db) (ctor : σ → Except Err Rt.Db) (cov : Np.PointsT Rat → Except Err (Mat3 Rat))
    (eigh : Mat3 Rat → Except Err (Vec3 Rat × Mat3 Rat)) (norm : Vec3 Rat → Rat) (arctan2 : Rat → Rat → Rat) (arccos : Rat → Rat)
    (hcov : CovContract cov) (heigh : EighContract eigh)
    (h : ∀ v, TrigAt cos sin pi (phiOf arctan2 v) (thetaOf norm arccos v))
    (pdb : σ) (axis : String) (export_ : Bool) (kwargs : Tbl.IRow → Bool) (hb : CoordBlind (selOf kwargs))
    (hang : ∀ sql v, openDb cast ctor pdb = .ok sql → GenA.get_max_pca_vect cov eigh (getXYZ (selOf kwargs) sql.atoms) = .ok v →
      AnglesAt norm arctan2 arccos cos sin v)
    (sql' : Rt.Db) (files : List Rt.FileEffect)
    (hr : GenA.align cast ctor cov eigh norm arctan2 arccos cos sin pi pdb axis export_ kwargs = .ok (sql', files))
    (e : Vec3 Rat) (he : axisVec axis = some e) :
    LargestVarianceAlong (getXYZ (selOf kwargs) sql'.atoms) e ∧
      ∃ lam, (scatter (getXYZ (selOf kwargs) sql'.atoms)).mulVec e = Vec3.smul lam e := by
  obtain ⟨sql, v, t, ho, hv, ht, hs⟩ := gena_align_ok_inv cast ctor cov eigh norm arctan2 arccos h pdb axis export_ kwargs sql' files hr
  obtain ⟨hX, _, lam, heig, hdom⟩ := gena_get_max_pca_vect_principal hcov heigh _ v hv
  obtain ⟨hr0, hsph⟩ := hang sql v ho hv
  obtain ⟨mats, hm, hL, hE, _⟩ := Props.C18.principal_axis_aligned hsph hr0 (getXYZ selAll sql.atoms)
    (getXYZ (selOf kwargs) sql.atoms) hX heig hdom axis e he
  obtain ⟨mats', hm', rfl⟩ := alignPcaVect_ok _ _ _ _ axis sql.atoms t ht
  rw [hm] at hm'
  cases hm'
  rw [hs, getXYZ_moveSelected _ hb]
  exact ⟨hL, lam, hE⟩

/-- the generated `align_interface`, taken apart -/
theorem gena_align_interface_ok_inv {σ : Type} {cos sin : Rat → Rat} {pi : Rat}
    (ord : List (Py.Str × Py.Str × Int) → List (Py.Str × Py.Str × Int)) (hord : Proofs.GenContacts.SetOrderOK ord)
    (cast : σ → Option Rt.Db) (ctor : σ → Except Err Rt.Db) (cov : Np.PointsT Rat → Except Err (Mat3 Rat))
    (eigh : Mat3 Rat → Except Err (Vec3 Rat × Mat3 Rat)) (norm : Vec3 Rat → Rat) (arctan2 : Rat → Rat → Rat) (arccos : Rat → Rat)
    (h : ∀ v, TrigAt cos sin pi (phiOf arctan2 v) (thetaOf norm arccos v))
    (ppi : σ) (plane : String) (export_ : Bool) (kw : Rt.ContactKw) (sql' : Rt.Db) (files : List Rt.FileEffect)
    (hr : GenA.align_interface cast ctor ord cov eigh norm arctan2 arccos cos sin pi ppi plane export_ kw = .ok (sql', files)) :
    ∃ sql out v axis t, openDb cast ctor ppi = .ok sql ∧ Model.contactAtoms sql.atoms (kwArgs kw) = .ok out ∧
      GenA.get_min_pca_vect cov eigh (getXYZ (fun i _ => decide (i ∈ rowIds out)) sql.atoms) = .ok v ∧
      planeAxis plane = some axis ∧
      alignPcaVect (cos (phiOf arctan2 v)) (sin (phiOf arctan2 v)) (cos (thetaOf norm arccos v)) (sin (thetaOf norm arccos v))
        axis sql.atoms = .ok t ∧ sql'.atoms = t := by
  rw [gena_align_interface_eq_model ord hord cast ctor cov eigh norm arctan2 arccos h] at hr
  cases ho : openDb cast ctor ppi with
  | error e => rw [ho] at hr; cases hr
  | ok sql =>
    rw [ho] at hr
    simp only [bind_ok, alignInterfaceModelDb] at hr
    cases hc0 : Model.contactAtoms sql.atoms (kwArgs kw) with
    | error e => rw [hc0] at hr; cases hr
    | ok out =>
      rw [hc0] at hr
      simp only [bind_ok] at hr
      cases hv : pcaVect cov eigh Rt.argmin3 (getXYZ (fun i _ => decide (i ∈ rowIds out)) sql.atoms) with
      | error e => rw [hv] at hr; cases hr
      | ok v =>
        rw [hv] at hr
        simp only [bind_ok, planeAxisE] at hr
        cases hp : planeAxis plane with
        | none => rw [hp] at hr; cases hr
        | some axis =>
          rw [hp] at hr
          simp only [bind_ok, alignCore] at hr
          cases ht : alignPcaVect (cos (phiOf arctan2 v)) (sin (phiOf arctan2 v)) (cos (thetaOf norm arccos v))
              (sin (thetaOf norm arccos v)) axis sql.atoms with
          | error e => rw [ht] at hr; cases hr
          | ok t =>
            rw [ht] at hr
            simp only [Except.map, finish, Except.ok.injEq, Prod.mk.injEq] at hr
            refine ⟨sql, out, v, axis, t, rfl, hc0, ?_, rfl, ht, ?_⟩
            · rw [gena_get_min_pca_vect_eq_model]; exact hv
            · rw [← hr.1]; rfl

/-- **the least-variance direction is normal to the plane, for the generated `align_interface`**: whenever the translated call
    returns, the normal `e` of the requested plane carries the LEAST variance of the contact rows (the rows
    `Model.contactAtoms` returned for the table the call was given) of the RESULT table and is an eigen-direction of their scatter matrix. -/
theorem gena_align_interface_principal_axis {σ : Type} {cos sin : Rat → Rat} {pi : Rat}
    (ord : List (Py.Str × Py.Str × Int) → List (Py.Str × Py.Str × Int)) (hord : Proofs.GenContacts.SetOrderOK ord)
    (cast : σ → Option Rt.Db) (ctor : σ → Except Err Rt.Db) (cov : Np.PointsT Rat → Except Err (Mat3 Rat))
    (eigh : Mat3 Rat → Except Err (Vec3 Rat × Mat3 Rat)) (norm : Vec3 Rat → Rat) (arctan2 : Rat → Rat → Rat) (arccos : Rat → Rat)
    (hcov : CovContract cov) (heigh : EighContract eigh)
    (h : ∀ v, TrigAt cos sin pi (phiOf arctan2 v) (thetaOf norm arccos v))
    (ppi : σ) (plane : String) (export_ : Bool) (kw : Rt.ContactKw)
    (hang : ∀ sql out v, openDb cast ctor ppi = .ok sql → Model.contactAtoms sql.atoms (kwArgs kw) = .ok out →
      GenA.get_min_pca_vect cov eigh (getXYZ (fun i _ => decide (i ∈ rowIds out)) sql.atoms) = .ok v →
      AnglesAt norm arctan2 arccos cos sin v)
    (sql' : Rt.Db) (files : List Rt.FileEffect)
    (hr : GenA.align_interface cast ctor ord cov eigh norm arctan2 arccos cos sin pi ppi plane export_ kw = .ok (sql', files))
    (e : Vec3 Rat) (he : planeNormal plane = some e) :
    ∃ sql out, openDb cast ctor ppi = .ok sql ∧ Model.contactAtoms sql.atoms (kwArgs kw) = .ok out ∧
      LeastVarianceAlong (getXYZ (fun i _ => decide (i ∈ rowIds out)) sql'.atoms) e ∧
      ∃ lam, (scatter (getXYZ (fun i _ => decide (i ∈ rowIds out)) sql'.atoms)).mulVec e = Vec3.smul lam e := by
  obtain ⟨sql, out, v, axis, t, ho, hc, hv, hp, ht, hs⟩ :=
    gena_align_interface_ok_inv ord hord cast ctor cov eigh norm arctan2 arccos h ppi plane export_ kw sql' files hr
  obtain ⟨hX, _, lam, heig, hdom⟩ := gena_get_min_pca_vect_principal hcov heigh _ v hv
  obtain ⟨hr0, hsph⟩ := hang sql out v ho hc hv
  obtain ⟨_, mats, hm, hL, hE⟩ := Props.C18.principal_axis_aligned_min hsph hr0 (getXYZ selAll sql.atoms)
    (getXYZ (fun i _ => decide (i ∈ rowIds out)) sql.atoms) hX heig hdom plane axis hp e he
  obtain ⟨mats', hm', rfl⟩ := alignPcaVect_ok _ _ _ _ axis sql.atoms t ht
  rw [hm] at hm'
  cases hm'
  refine ⟨sql, out, ho, hc, ?_⟩
  rw [hs, getXYZ_moveSelected _ (fun _ _ _ _ _ => rfl)]
  exact ⟨hL, lam, hE⟩

/-! ### the contact atoms are those of the RESULT table (contacts are invariant under the rigid motion applied: C11) -/

/-- what `Model.alignPcaVect` returns is the image of the table under ONE rigid motion (`Spec.Inv.move`, the vocabulary of C11) -/
theorem alignPcaVect_rigid (cp sp ct st : ℚ) (hp : cp * cp + sp * sp = 1) (hθ : ct * ct + st * st = 1) (axis : String)
    (db t : List Atom) (h : alignPcaVect cp sp ct st axis db = .ok t) :
    ∃ g : Spec.Rmsd.Motion Rat, g.IsRigid ∧ t = Spec.Inv.move g db := by
  obtain ⟨mats, hm, rfl⟩ := alignPcaVect_ok cp sp ct st axis db t h
  have hR := (Props.C18.align_mats_rotations cp sp ct st hp hθ axis mats hm).2
  refine ⟨⟨composeMats mats, Vec3.sub (mean (getXYZ selAll db)) ((composeMats mats).mulVec (mean (getXYZ selAll db)))⟩, hR, ?_⟩
  rw [moveSelected_all]
  unfold Spec.Inv.move
  apply List.map_congr_left
  intro a _
  simp only [Spec.Inv.moveAtom, Spec.Rmsd.Motion.apply, Spec.Rmsd.pos, xyzOf]
  congr 1 <;> simp only [Vec3.add, Vec3.sub, mulVec] <;> ring

/-- `get_contact_atoms` returns the same rows for a table and for its image under a rigid motion (C11 `isometry_invariant_contacts`) -/
theorem contactAtoms_move {g : Spec.Rmsd.Motion Rat} (hg : g.IsRigid) (t : List Atom) (a : ContactArgs) :
    Model.contactAtoms (Spec.Inv.move g t) a = Model.contactAtoms t a := by
  unfold Model.contactAtoms
  rw [(Props.C11.isometry_invariant_contacts hg t a [] [] 0).1]

/-- **the least-variance direction of the contact atoms OF THE RESULT TABLE is normal to the plane, for the generated
    `align_interface`**: whenever the translated call returns, `get_contact_atoms` (the model the generated call uses, same
    keyword arguments) run on the RESULT table returns some `out'`, and the normal `e` of the requested plane carries the LEAST
    variance of those atoms and is an eigen-direction of their scatter matrix. -/
theorem gena_align_interface_principal_axis_result {σ : Type} {cos sin : Rat → Rat} {pi : Rat}
    (ord : List (Py.Str × Py.Str × Int) → List (Py.Str × Py.Str × Int)) (hord : Proofs.GenContacts.SetOrderOK ord)
    (cast : σ → Option Rt.Db) (ctor : σ → Except Err Rt.Db) (cov : Np.PointsT Rat → Except Err (Mat3 Rat))
    (eigh : Mat3 Rat → Except Err (Vec3 Rat × Mat3 Rat)) (norm : Vec3 Rat → Rat) (arctan2 : Rat → Rat → Rat) (arccos : Rat → Rat)
    (hcov : CovContract cov) (heigh : EighContract eigh)
    (h : ∀ v, TrigAt cos sin pi (phiOf arctan2 v) (thetaOf norm arccos v))
    (ppi : σ) (plane : String) (export_ : Bool) (kw : Rt.ContactKw)
    (hang : ∀ sql out v, openDb cast ctor ppi = .ok sql → Model.contactAtoms sql.atoms (kwArgs kw) = .ok out →
      GenA.get_min_pca_vect cov eigh (getXYZ (fun i _ => decide (i ∈ rowIds out)) sql.atoms) = .ok v →
      AnglesAt norm arctan2 arccos cos sin v)
    (sql' : Rt.Db) (files : List Rt.FileEffect)
    (hr : GenA.align_interface cast ctor ord cov eigh norm arctan2 arccos cos sin pi ppi plane export_ kw = .ok (sql', files))
    (e : Vec3 Rat) (he : planeNormal plane = some e) :
    ∃ out', Model.contactAtoms sql'.atoms (kwArgs kw) = .ok out' ∧
      LeastVarianceAlong (getXYZ (fun i _ => decide (i ∈ rowIds out')) sql'.atoms) e ∧
      ∃ lam, (scatter (getXYZ (fun i _ => decide (i ∈ rowIds out')) sql'.atoms)).mulVec e = Vec3.smul lam e := by
  obtain ⟨sql, out, v, axis, t, ho, hc, hv, hp, ht, hs⟩ :=
    gena_align_interface_ok_inv ord hord cast ctor cov eigh norm arctan2 arccos h ppi plane export_ kw sql' files hr
  obtain ⟨sql₂, out₂, ho₂, hc₂, hL, hE⟩ := gena_align_interface_principal_axis ord hord cast ctor cov eigh norm arctan2 arccos hcov heigh h
    ppi plane export_ kw hang sql' files hr e he
  rw [ho] at ho₂
  cases ho₂
  rw [hc] at hc₂
  cases hc₂
  obtain ⟨_, hsph⟩ := hang sql out v ho hc hv
  obtain ⟨g, hg, hmove⟩ := alignPcaVect_rigid _ _ _ _ hsph.phi_unit hsph.theta_unit axis sql.atoms t ht
  refine ⟨out, ?_, hL, hE⟩
  rw [hs, hmove, contactAtoms_move hg]
  exact hc

/-! ### `align`: a selection by keywords that do not name x, y or z does not look at coordinates -/

/-- the C03 conditions `q` (what the keywords of `get` denote, Spec/C03.lean) name none of the columns x, y, z -/
def NoXYZ (q : List Spec.Cond) : Prop :=
  ∀ c ∈ q, c.col ≠ .std .x ∧ c.col ≠ .std .y ∧ c.col ≠ .std .z

theorem cell_blind (c : _root_.Tbl.Col) (hc : c ≠ .std .x ∧ c ≠ .std .y ∧ c ≠ .std .z) (i : Nat) (a : Atom) (x y z : Rat) :
    _root_.Tbl.cell c i { atom := { a with x := x, y := y, z := z } } = _root_.Tbl.cell c i { atom := a } := by
  cases c with
  | rowID => rfl
  | extra k => rfl
  | std s =>
    cases s <;> first | rfl | exact absurd rfl hc.1 | exact absurd rfl hc.2.1 | exact absurd rfl hc.2.2

/-- a row condition that agrees with keyword conditions naming none of x, y, z (the hypothesis of
    `Proofs.GenContacts.select_eq_spec`) is blind to coordinates -/
theorem coordBlind_of_keywords (q : List Spec.Cond) (hq : NoXYZ q) (cond : Py.Tbl.IRow → Bool)
    (hcond : ∀ a i, cond (a, i) = Spec.sat [] q ({ atom := a }, i)) : CoordBlind (selOf cond) := by
  intro i a x y z
  simp only [selOf, hcond, Spec.sat]
  have hc : ∀ c ∈ q, Spec.Cond.holds [] c i { atom := { a with x := x, y := y, z := z } } = Spec.Cond.holds [] c i { atom := a } :=
    fun c hc => by simp only [Spec.Cond.holds, cell_blind c.col (hq c hc) i a x y z]
  clear hq hcond
  induction q with
  | nil => rfl
  | cons c q ih =>
    simp only [List.all_cons]
    rw [hc c (List.mem_cons_self ..), ih (fun c' h' => hc c' (List.mem_cons_of_mem _ h'))]

/-- **the principal axis is aligned, for the generated `align`, selection given by keywords**: as `gena_align_principal_axis`, for
    a `**kwargs` that denotes keyword conditions `q` (C03) none of which names x, y or z -/
theorem gena_align_principal_axis_keywords {σ : Type} {cos sin : Rat → Rat} {pi : Rat}
    (cast : σ → Option Rt.Db) (ctor : σ → Except Err Rt.Db) (cov : Np.PointsT Rat → Except Err (Mat3 Rat))
    (eigh : Mat3 Rat → Except Err (Vec3 Rat × Mat3 Rat)) (norm : Vec3 Rat → Rat) (arctan2 : Rat → Rat → Rat) (arccos : Rat → Rat)
    (hcov : CovContract cov) (heigh : EighContract eigh)
    (h : ∀ v, TrigAt cos sin pi (phiOf arctan2 v) (thetaOf norm arccos v))
    (pdb : σ) (axis : String) (export_ : Bool) (kwargs : Tbl.IRow → Bool)
    (q : List Spec.Cond) (hq : NoXYZ q) (hkw : ∀ a i, kwargs (a, i) = Spec.sat [] q ({ atom := a }, i))
    (hang : ∀ sql v, openDb cast ctor pdb = .ok sql → GenA.get_max_pca_vect cov eigh (getXYZ (selOf kwargs) sql.atoms) = .ok v →
      AnglesAt norm arctan2 arccos cos sin v)
    (sql' : Rt.Db) (files : List Rt.FileEffect)
    (hr : GenA.align cast ctor cov eigh norm arctan2 arccos cos sin pi pdb axis export_ kwargs = .ok (sql', files))
    (e : Vec3 Rat) (he : axisVec axis = some e) :
    LargestVarianceAlong (getXYZ (selOf kwargs) sql'.atoms) e ∧
      ∃ lam, (scatter (getXYZ (selOf kwargs) sql'.atoms)).mulVec e = Vec3.smul lam e :=
  gena_align_principal_axis cast ctor cov eigh norm arctan2 arccos hcov heigh h pdb axis export_ kwargs
    (coordBlind_of_keywords q hq kwargs hkw) hang sql' files hr e he

end Proofs.GenAlign
