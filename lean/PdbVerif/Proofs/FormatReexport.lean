/-
  Helper lemmas for C02: the precision class of a coordinate after it was read back, and the second export.
  Helper lemmas only.
-/
import Mathlib.Tactic.Linarith
import Mathlib.Tactic.NormNum
import Mathlib.Tactic.FieldSimp
import Mathlib.Tactic.Ring
import Mathlib.Tactic.Positivity
import PdbVerif.Gen.Str
import PdbVerif.Spec.C02
import PdbVerif.Proofs.Str
import PdbVerif.Proofs.Digits
import PdbVerif.Proofs.Format
import PdbVerif.Proofs.FormatXyz
import PdbVerif.Proofs.FormatLine
import PdbVerif.Proofs.FormatRoundtrip

set_option linter.unusedSimpArgs false
set_option linter.unusedVariables false
set_option linter.unnecessarySeqFocus false

namespace Proofs.Reexport
open Py Proofs.Line Proofs.Xyz

/-! ### constants -/

theorem r1 : Py.round ((19999 : ℚ) / 2) 3 = (19999 : ℚ) / 2 := by decide +kernel
theorem r2 : Py.round (-(1999 : ℚ) / 2) 3 = -(1999 : ℚ) / 2 := by decide +kernel
theorem r3 : Py.round ((19999 : ℚ) / 2) 2 = (19999 : ℚ) / 2 := by decide +kernel
theorem r4 : Py.round ((199999 : ℚ) / 2) 2 = (199999 : ℚ) / 2 := by decide +kernel
theorem r5 : Py.round (-(1999 : ℚ) / 2) 2 = -(1999 : ℚ) / 2 := by decide +kernel
theorem r6 : Py.round (-(19999 : ℚ) / 2) 2 = -(19999 : ℚ) / 2 := by decide +kernel
theorem r7 : Py.round ((199999 : ℚ) / 2) 1 = (199999 : ℚ) / 2 := by decide +kernel
theorem r8 : Py.round ((1999999 : ℚ) / 2) 1 = (1999999 : ℚ) / 2 := by decide +kernel
theorem r9 : Py.round (-(19999 : ℚ) / 2) 1 = -(19999 : ℚ) / 2 := by decide +kernel
theorem r10 : Py.round (-(199999 : ℚ) / 2) 1 = -(199999 : ℚ) / 2 := by decide +kernel
theorem r11 : Py.round ((1999999 : ℚ) / 2) 0 = 1000000 := by decide +kernel
theorem r12 : Py.round (-(199999 : ℚ) / 2) 0 = -100000 := by decide +kernel

theorem thr (y : ℚ) (h : y = (19999 : ℚ) / 2 ∨ y = (199999 : ℚ) / 2 ∨ y = (1999999 : ℚ) / 2 ∨ y = -(1999 : ℚ) / 2 ∨
    y = -(19999 : ℚ) / 2 ∨ y = -(199999 : ℚ) / 2) : Spec.onThreshold y = true := by
  unfold Spec.onThreshold Spec.switchThresholds
  rcases h with h | h | h | h | h | h <;> subst h <;> simp

theorem round0_le (x : ℚ) (N : ℤ) (h : x < N + 1 / 2) : Py.round x 0 ≤ N := by
  rw [round_eq]
  have : ((pow10 0 : ℕ) : ℚ) = 1 := by norm_num [pow10]
  rw [this, mul_one, div_one]
  exact_mod_cast roundHE_le_of_lt_half x N h

theorem round0_ge (x : ℚ) (N : ℤ) (h : (N : ℚ) - 1 / 2 < x) : (N : ℚ) ≤ Py.round x 0 := by
  rw [round_eq]
  have : ((pow10 0 : ℕ) : ℚ) = 1 := by norm_num [pow10]
  rw [this, mul_one, div_one]
  exact_mod_cast roundHE_ge_of_gt_half x N h

/-! ### the precision class of the value read back -/

theorem class_round (x : ℚ) (h : Spec.CoordInRange x) :
    Spec.CoordInRange (Py.round x (xyzClass x)) ∧
    (Spec.onThreshold (Py.round x (xyzClass x)) = true ∨ xyzClass (Py.round x (xyzClass x)) = xyzClass x) := by
  obtain ⟨h1, h2⟩ := h
  unfold Spec.CoordInRange
  by_cases c0 : x ≥ (1999999 : ℚ) / 2 ∨ x ≤ -((199999 : ℚ) / 2)
  · have hk : xyzClass x = 0 := by unfold xyzClass; simp only [c0, if_true]
    rw [hk]
    rcases c0 with c | c
    · have lo : (1000000 : ℚ) ≤ Py.round x 0 := by
        have := round_mono 0 c; rw [r11] at this; exact this
      have hi : Py.round x 0 ≤ ((99999999 : ℤ) : ℚ) := round0_le x 99999999 (by push_cast; linarith)
      push_cast at hi
      refine ⟨⟨by linarith, by linarith⟩, Or.inr ?_⟩
      unfold xyzClass
      have : Py.round x 0 ≥ (1999999 : ℚ) / 2 ∨ Py.round x 0 ≤ -((199999 : ℚ) / 2) := Or.inl (by linarith)
      simp only [this, if_true]
    · have hi : Py.round x 0 ≤ (-100000 : ℚ) := by
        have : x ≤ -(199999 : ℚ) / 2 := by linarith
        have := round_mono 0 this; rw [r12] at this; exact this
      have lo : ((-9999999 : ℤ) : ℚ) ≤ Py.round x 0 := round0_ge x (-9999999) (by push_cast; linarith)
      push_cast at lo
      refine ⟨⟨by linarith, by linarith⟩, Or.inr ?_⟩
      unfold xyzClass
      have : Py.round x 0 ≥ (1999999 : ℚ) / 2 ∨ Py.round x 0 ≤ -((199999 : ℚ) / 2) := Or.inr (by linarith)
      simp only [this, if_true]
  · by_cases c1 : x ≥ (199999 : ℚ) / 2 ∨ x ≤ -((19999 : ℚ) / 2)
    · have hk : xyzClass x = 1 := by unfold xyzClass; simp only [c0, c1, if_true, if_false]
      rw [hk]
      push Not at c0
      rcases c1 with c | c
      · have lo : (199999 : ℚ) / 2 ≤ Py.round x 1 := by have := round_mono 1 c; rw [r7] at this; exact this
        have hi : Py.round x 1 ≤ (1999999 : ℚ) / 2 := by have := round_mono 1 c0.1.le; rw [r8] at this; exact this
        refine ⟨⟨by linarith, by linarith⟩, ?_⟩
        rcases lt_or_eq_of_le hi with hlt | heq
        · right
          unfold xyzClass
          have a0 : ¬ (Py.round x 1 ≥ (1999999 : ℚ) / 2 ∨ Py.round x 1 ≤ -((199999 : ℚ) / 2)) := by
            rintro (a | a) <;> linarith
          have a1 : Py.round x 1 ≥ (199999 : ℚ) / 2 ∨ Py.round x 1 ≤ -((19999 : ℚ) / 2) := Or.inl lo
          simp only [a0, a1, if_true, if_false]
        · left; exact thr _ (by simp [heq])
      · have c' : x ≤ -(19999 : ℚ) / 2 := by linarith
        have c0' : -(199999 : ℚ) / 2 ≤ x := by linarith [c0.2]
        have hi : Py.round x 1 ≤ -(19999 : ℚ) / 2 := by have := round_mono 1 c'; rw [r9] at this; exact this
        have lo : -(199999 : ℚ) / 2 ≤ Py.round x 1 := by have := round_mono 1 c0'; rw [r10] at this; exact this
        refine ⟨⟨by linarith, by linarith⟩, ?_⟩
        rcases lt_or_eq_of_le lo with hlt | heq
        · right
          unfold xyzClass
          have a0 : ¬ (Py.round x 1 ≥ (1999999 : ℚ) / 2 ∨ Py.round x 1 ≤ -((199999 : ℚ) / 2)) := by
            rintro (a | a) <;> linarith
          have a1 : Py.round x 1 ≥ (199999 : ℚ) / 2 ∨ Py.round x 1 ≤ -((19999 : ℚ) / 2) := Or.inr (by linarith)
          simp only [a0, a1, if_true, if_false]
        · left; exact thr _ (by simp [← heq])
    · by_cases c2 : x ≥ (19999 : ℚ) / 2 ∨ x ≤ -((1999 : ℚ) / 2)
      · have hk : xyzClass x = 2 := by unfold xyzClass; simp only [c0, c1, c2, if_true, if_false]
        rw [hk]
        push Not at c0 c1
        rcases c2 with c | c
        · have lo : (19999 : ℚ) / 2 ≤ Py.round x 2 := by have := round_mono 2 c; rw [r3] at this; exact this
          have hi : Py.round x 2 ≤ (199999 : ℚ) / 2 := by have := round_mono 2 c1.1.le; rw [r4] at this; exact this
          refine ⟨⟨by linarith, by linarith⟩, ?_⟩
          rcases lt_or_eq_of_le hi with hlt | heq
          · right
            unfold xyzClass
            have a0 : ¬ (Py.round x 2 ≥ (1999999 : ℚ) / 2 ∨ Py.round x 2 ≤ -((199999 : ℚ) / 2)) := by
              rintro (a | a) <;> linarith
            have a1 : ¬ (Py.round x 2 ≥ (199999 : ℚ) / 2 ∨ Py.round x 2 ≤ -((19999 : ℚ) / 2)) := by
              rintro (a | a) <;> linarith
            have a2 : Py.round x 2 ≥ (19999 : ℚ) / 2 ∨ Py.round x 2 ≤ -((1999 : ℚ) / 2) := Or.inl lo
            simp only [a0, a1, a2, if_true, if_false]
          · left; exact thr _ (by simp [heq])
        · have c' : x ≤ -(1999 : ℚ) / 2 := by linarith
          have c1' : -(19999 : ℚ) / 2 ≤ x := by linarith [c1.2]
          have hi : Py.round x 2 ≤ -(1999 : ℚ) / 2 := by have := round_mono 2 c'; rw [r5] at this; exact this
          have lo : -(19999 : ℚ) / 2 ≤ Py.round x 2 := by have := round_mono 2 c1'; rw [r6] at this; exact this
          refine ⟨⟨by linarith, by linarith⟩, ?_⟩
          rcases lt_or_eq_of_le lo with hlt | heq
          · right
            unfold xyzClass
            have a0 : ¬ (Py.round x 2 ≥ (1999999 : ℚ) / 2 ∨ Py.round x 2 ≤ -((199999 : ℚ) / 2)) := by
              rintro (a | a) <;> linarith
            have a1 : ¬ (Py.round x 2 ≥ (199999 : ℚ) / 2 ∨ Py.round x 2 ≤ -((19999 : ℚ) / 2)) := by
              rintro (a | a) <;> linarith
            have a2 : Py.round x 2 ≥ (19999 : ℚ) / 2 ∨ Py.round x 2 ≤ -((1999 : ℚ) / 2) := Or.inr (by linarith)
            simp only [a0, a1, a2, if_true, if_false]
          · left; exact thr _ (by simp [← heq])
      · have hk : xyzClass x = 3 := by unfold xyzClass; simp only [c0, c1, c2, if_false]
        rw [hk]
        push Not at c0 c1 c2
        have c2' : -(1999 : ℚ) / 2 ≤ x := by linarith [c2.2]
        have hi : Py.round x 3 ≤ (19999 : ℚ) / 2 := by have := round_mono 3 c2.1.le; rw [r1] at this; exact this
        have lo : -(1999 : ℚ) / 2 ≤ Py.round x 3 := by have := round_mono 3 c2'; rw [r2] at this; exact this
        refine ⟨⟨by linarith, by linarith⟩, ?_⟩
        rcases lt_or_eq_of_le hi with hlt | heq
        · rcases lt_or_eq_of_le lo with hlt' | heq'
          · right
            exact class_usual _ hlt' hlt
          · left; exact thr _ (by simp [← heq'])
        · left; exact thr _ (by simp [heq])

/-! ### writing the read-back row again -/

theorem rawCols_flatten' (pre mids post : List Str) (a b : Nat)
    (ha : pre.flatten.length + 1 = a) (hb : pre.flatten.length + mids.flatten.length = b) :
    Spec.rawCols ((pre ++ mids ++ post).flatten) a b = mids.flatten := by
  have := rawCols_flatten pre mids.flatten post a b ha hb
  simpa [List.flatten_append] using this

theorem c_1_30 {p : Pieces} (w : p.WF) : Spec.rawCols p.line 1 30 = (p.segs.take 11).flatten :=
  rawCols_flatten' [] (p.segs.take 11) (p.segs.drop 11) 1 30 (by simp)
    (by simp [Pieces.segs, w.serial, w.name, w.alt, w.resn, w.chain, w.resseq, w.icode])

theorem c_55_80 {p : Pieces} (w : p.WF) : Spec.rawCols p.line 55 80 = (p.segs.drop 14).flatten :=
  rawCols_flatten' (p.segs.take 14) (p.segs.drop 14) [] 55 80
    (by simp [Pieces.segs, w.serial, w.name, w.alt, w.resn, w.chain, w.resseq, w.icode, w.x, w.y, w.z])
    (by simp [Pieces.segs, w.serial, w.name, w.alt, w.resn, w.chain, w.resseq, w.icode, w.x, w.y, w.z,
      w.occ, w.temp, w.elem])

theorem q1 : Py.round (-(9999 : ℚ) / 100) 2 = -(9999 : ℚ) / 100 := by decide +kernel
theorem q2 : Py.round ((99999 : ℚ) / 100) 2 = (99999 : ℚ) / 100 := by decide +kernel

/-- the row read back fits again -/
theorem readBack_fits (a : Atom) (hf : Spec.Fits a) (hx : Spec.CoordInRange a.x) (hy : Spec.CoordInRange a.y)
    (hz : Spec.CoordInRange a.z) :
    Spec.Fits (readBack a) ∧ Spec.CoordInRange (readBack a).x ∧ Spec.CoordInRange (readBack a).y ∧
      Spec.CoordInRange (readBack a).z := by
  obtain ⟨s1, s2, r1, r2, n1, n4, ns, al, als, rn1, rn3, rns, cl, cs, il, is_, e1, e2, es, o1, o2, t1, t2, l1, l2, l3, l4,
    l5, l6⟩ := hf
  refine ⟨⟨s1, s2, r1, r2, n1, n4, ns, al, als, rn1, rn3, rns, cl, cs, il, is_, e1, e2, es, ?_, ?_, ?_, ?_, l1, l2, l3, l4,
    l5, l6⟩, (class_round _ hx).1, (class_round _ hy).1, (class_round _ hz).1⟩
  · have := round_mono 2 o1; rw [q1] at this; exact this
  · have := round_mono 2 o2; rw [q2] at this; exact this
  · have := round_mono 2 t1; rw [q1] at this; exact this
  · have := round_mono 2 t2; rw [q2] at this; exact this

/-- one coordinate field of the second export -/
theorem coord_reexport (x : ℚ) (h : Spec.CoordInRange x) :
    let y := Py.round x (xyzClass x)
    (Spec.coordOK y (fmtFloatR 8 (xyzClass y) y) &&
      (fmtFloatR 8 (xyzClass x) x == fmtFloatR 8 (xyzClass y) y || Spec.onThreshold y || y == 0)) = true := by
  intro y
  obtain ⟨hr, hcl⟩ := class_round x h
  rw [coordOK_xyz y hr, Bool.true_and]
  by_cases h0 : y = 0
  · simp [h0]
  · rcases hcl with ht | hc
    · have ht' : Spec.onThreshold y = true := ht
      simp [ht']
    · have : fmtFloatR 8 (xyzClass y) y = fmtFloatR 8 (xyzClass x) x := by
        rw [hc]; unfold fmtFloatR
        rw [fmtFixed_round x _ (fun hh => h0 hh.2)]
      rw [this]; simp

theorem c_67_80 {p : Pieces} (w : p.WF) : Spec.rawCols p.line 67 80 = (p.segs.drop 16).flatten :=
  rawCols_flatten' (p.segs.take 16) (p.segs.drop 16) [] 67 80
    (by simp [Pieces.segs, w.serial, w.name, w.alt, w.resn, w.chain, w.resseq, w.icode, w.x, w.y, w.z,
      w.occ, w.temp])
    (by simp [Pieces.segs, w.serial, w.name, w.alt, w.resn, w.chain, w.resseq, w.icode, w.x, w.y, w.z,
      w.occ, w.temp, w.elem])

/-- one two-decimal field (occupancy, B-factor) of the second export: the same text, or the value read back is
    zero (the first export may then have printed `-0.00`) and the field denotes it -/
theorem fixed2_reexport (v : ℚ) (h1 : -(9999 : ℚ) / 100 ≤ v) (h2 : v ≤ (99999 : ℚ) / 100) :
    (fmtFloatR 6 2 v == fmtFloatR 6 2 (Py.round v 2) ||
      (Py.round v 2 == 0 && Spec.fixed2OK (Py.round v 2) (fmtFloatR 6 2 (Py.round v 2)))) = true := by
  by_cases hneg : v < 0 ∧ Py.round v 2 = 0
  · have b1 : -(9999 : ℚ) / 100 ≤ Py.round v 2 := by rw [hneg.2]; norm_num
    have b2 : Py.round v 2 ≤ (99999 : ℚ) / 100 := by rw [hneg.2]; norm_num
    rw [fixed2OK_fmt _ b1 b2]
    simp [hneg.2]
  · have : fmtFloatR 6 2 (Py.round v 2) = fmtFloatR 6 2 v := by
      unfold fmtFloatR; rw [fmtFixed_round _ _ hneg]
    rw [this]; simp

/-- Writing the table that was read back again: every coordinate again denotes the value in `b` with enough
    decimals, and the text is identical except for a coordinate on a format-switch threshold (or zero) and for an
    occupancy / B-factor read back as zero. -/
theorem reexportOK_export (a : Atom) (hf : Spec.Fits a) (hx : Spec.CoordInRange a.x) (hy : Spec.CoordInRange a.y)
    (hz : Spec.CoordInRange a.z) :
    Spec.reexportOK (readBack a) (exportPieces a).line (exportPieces (readBack a)).line = true := by
  obtain ⟨hfb, hxb, hyb, hzb⟩ := readBack_fits a hf hx hy hz
  have w1 := export_wf a hf hx hy hz
  have w2 := export_wf (readBack a) hfb hxb hyb hzb
  have o1 := hf.2.2.2.2.2.2.2.2.2.2.2.2.2.2.2.2.2.2.2.1
  have o2 := hf.2.2.2.2.2.2.2.2.2.2.2.2.2.2.2.2.2.2.2.2.1
  have t1 := hf.2.2.2.2.2.2.2.2.2.2.2.2.2.2.2.2.2.2.2.2.2.1
  have t2 := hf.2.2.2.2.2.2.2.2.2.2.2.2.2.2.2.2.2.2.2.2.2.2.1
  unfold Spec.reexportOK
  simp only [c_1_30 w1, c_1_30 w2, c_67_80 w1, c_67_80 w2, c_occ w1, c_occ w2, c_temp w1, c_temp w2,
    c_x w1, c_x w2, c_y w1, c_y w2, c_z w1, c_z w2]
  have e1 : ((exportPieces a).segs.take 11) = ((exportPieces (readBack a)).segs.take 11) := rfl
  have e2 : ((exportPieces a).segs.drop 16) = ((exportPieces (readBack a)).segs.drop 16) := rfl
  rw [e1, e2]
  have kx := coord_reexport a.x hx
  have ky := coord_reexport a.y hy
  have kz := coord_reexport a.z hz
  have ko := fixed2_reexport a.occ o1 o2
  have kt := fixed2_reexport a.temp t1 t2
  simp only [exportPieces, pieces, readBack] at kx ky kz ko kt ⊢
  simp only [beq_self_eq_true, Bool.true_and, kx, ky, kz, ko, kt, Bool.and_self]

/-! ### the values after a second round trip -/

theorem cls1 : xyzClass ((19999 : ℚ) / 2) = 2 := by decide +kernel
theorem cls2 : xyzClass ((199999 : ℚ) / 2) = 1 := by decide +kernel
theorem cls3 : xyzClass (-(1999 : ℚ) / 2) = 2 := by decide +kernel
theorem cls4 : xyzClass (-(19999 : ℚ) / 2) = 1 := by decide +kernel

/-- a coordinate read back is reproduced exactly by a second export/parse, except on the two thresholds
    where the format switches to zero decimals -/
theorem round_stable (x : ℚ) (h : Spec.CoordInRange x)
    (hn : Py.round x (xyzClass x) ≠ (1999999 : ℚ) / 2 ∧ Py.round x (xyzClass x) ≠ -(199999 : ℚ) / 2) :
    Py.round (Py.round x (xyzClass x)) (xyzClass (Py.round x (xyzClass x))) = Py.round x (xyzClass x) := by
  obtain ⟨_, hcl⟩ := class_round x h
  rcases hcl with ht | hc
  · unfold Spec.onThreshold Spec.switchThresholds at ht
    simp only [List.contains_cons, List.contains_nil, Bool.or_false, Bool.or_eq_true, beq_iff_eq] at ht
    rcases ht with ht | ht | ht | ht | ht | ht
    · rw [ht, cls1, r3]
    · rw [ht, cls2, r7]
    · exact absurd ht hn.1
    · rw [ht, cls3, r5]
    · rw [ht, cls4, r9]
    · exact absurd ht hn.2
  · rw [hc, round_round]

theorem readBack_idem (a : Atom) (hx : Spec.CoordInRange a.x) (hy : Spec.CoordInRange a.y) (hz : Spec.CoordInRange a.z)
    (nx : (readBack a).x ≠ (1999999 : ℚ) / 2 ∧ (readBack a).x ≠ -(199999 : ℚ) / 2)
    (ny : (readBack a).y ≠ (1999999 : ℚ) / 2 ∧ (readBack a).y ≠ -(199999 : ℚ) / 2)
    (nz : (readBack a).z ≠ (1999999 : ℚ) / 2 ∧ (readBack a).z ≠ -(199999 : ℚ) / 2) :
    readBack (readBack a) = readBack a := by
  unfold readBack at nx ny nz ⊢
  simp only [round_stable _ hx nx, round_stable _ hy ny, round_stable _ hz nz, round_round]

end Proofs.Reexport
