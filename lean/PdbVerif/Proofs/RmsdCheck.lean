/-
  Helper lemmas for C07 / C11 (cluster E), part 6: `check_residues` — when it passes both structures hold the same atom
  identities (among the names looked at); an identity present in one structure only is reported when enforcement is on.
  Helper lemmas only.
-/
import PdbVerif.Proofs.RmsdSql

set_option linter.unusedVariables false
set_option linter.unusedSimpArgs false
set_option linter.unusedSectionVars false
set_option linter.unnecessarySeqFocus false
set_option linter.unusedTactic false
set_option linter.unreachableTactic false

namespace Proofs.Rmsd
open Model Model.Rmsd Py Proofs.Contacts

/-! ### check_residues -/

theorem zip_self_mem {α : Type} (l : List α) (p : α × α) (h : p ∈ l.zip l) : p.1 = p.2 ∧ p.1 ∈ l := by
  induction l with
  | nil => simp at h
  | cons a l ih =>
    simp only [List.zip_cons_cons, List.mem_cons] at h
    rcases h with rfl | h
    · exact ⟨rfl, by simp⟩
    · exact ⟨(ih h).1, List.mem_cons_of_mem _ (ih h).2⟩

theorem mem_zip_self {α : Type} (l : List α) (a : α) (h : a ∈ l) : (a, a) ∈ l.zip l := by
  induction l with
  | nil => simp at h
  | cons b l ih =>
    simp only [List.zip_cons_cons, List.mem_cons]
    rcases List.mem_cons.mp h with rfl | h
    · exact Or.inl rfl
    · exact Or.inr (ih h)

/-- when `check_residues` passes, decoy and reference list the same residues and, residue by residue, the same atom names -/
theorem checkResidues_true {dec ref : List Atom} {names : Option (List Str)} {enforce : Bool}
    (h : checkResidues dec ref names enforce = .ok true) :
    getResidues ref names = getResidues dec names ∧
      ∀ r ∈ getResidues dec names, residueNames ref names r = residueNames dec names r := by
  unfold checkResidues at h
  simp only at h
  by_cases h1 : getResidues ref names ≠ getResidues dec names
  · rw [if_pos h1] at h
    cases enforce with
    | false => simp only [Bool.false_eq_true, if_false] at h; cases h
    | true => simp only [if_true] at h; cases h
  · simp only [h1, if_false] at h
    have h1' : getResidues ref names = getResidues dec names := by simpa using h1
    refine ⟨h1', ?_⟩
    by_cases h2 : (((getResidues dec names).zip (getResidues ref names)).any fun rr =>
        decide (residueNames ref names rr.snd ≠ residueNames dec names rr.fst)) = true
    · simp only [h2, if_true] at h
      cases enforce with
      | false => simp only [Bool.false_eq_true, if_false] at h; cases h
      | true => simp only [if_true] at h; cases h
    · intro r hr
      simp only [List.any_eq_true, decide_eq_true_eq, not_exists, not_and, not_not] at h2
      exact h2 (r, r) (by rw [h1']; exact mem_zip_self _ r hr)

theorem checkResidues_keys {dec ref : List Atom} {names : Option (List Str)} {enforce : Bool}
    (h : checkResidues dec ref names enforce = .ok true) (k : Key) :
    k ∈ (dec.filter (nameOK names)).map keyOf ↔ k ∈ (ref.filter (nameOK names)).map keyOf := by
  obtain ⟨hres, hnames⟩ := checkResidues_true h
  have key3 : ∀ a b : Atom, res3 a = res3 b → a.name = b.name → keyOf a = keyOf b := by
    intro a b h3 hn
    simp only [res3, Prod.mk.injEq] at h3
    simp only [keyOf, Prod.mk.injEq]
    exact ⟨h3.1, h3.2.2, hn⟩
  constructor
  · rintro hk
    obtain ⟨a, ha, rfl⟩ := List.mem_map.mp hk
    have hr : res3 a ∈ getResidues dec names := mem_distinctFirst.mpr (List.mem_map.mpr ⟨a, ha, rfl⟩)
    have hn : a.name ∈ residueNames dec names (res3 a) :=
      List.mem_map.mpr ⟨a, List.mem_filter.mpr ⟨ha, by simp⟩, rfl⟩
    rw [← hnames _ hr] at hn
    obtain ⟨b, hb, hbn⟩ := List.mem_map.mp hn
    obtain ⟨hb1, hb2⟩ := List.mem_filter.mp hb
    exact List.mem_map.mpr ⟨b, hb1, key3 b a (of_decide_eq_true hb2) hbn⟩
  · rintro hk
    obtain ⟨a, ha, rfl⟩ := List.mem_map.mp hk
    have hr : res3 a ∈ getResidues dec names := by
      rw [← hres]; exact mem_distinctFirst.mpr (List.mem_map.mpr ⟨a, ha, rfl⟩)
    have hn : a.name ∈ residueNames ref names (res3 a) :=
      List.mem_map.mpr ⟨a, List.mem_filter.mpr ⟨ha, by simp⟩, rfl⟩
    rw [hnames _ hr] at hn
    obtain ⟨b, hb, hbn⟩ := List.mem_map.mp hn
    obtain ⟨hb1, hb2⟩ := List.mem_filter.mp hb
    exact List.mem_map.mpr ⟨b, hb1, key3 b a (of_decide_eq_true hb2) hbn⟩

theorem checkResidues_ok_true {dec ref : List Atom} {names : Option (List Str)} {b : Bool}
    (h : checkResidues dec ref names true = .ok b) : b = true := by
  unfold checkResidues at h
  simp only [if_true] at h
  split_ifs at h <;> first | (cases h; rfl) | cases h

theorem sel_eq (names : Option (List Str)) :
    (fun a : Atom => match names with | none => true | some ns => decide (a.name ∈ ns)) = nameOK names := by
  funext a; unfold nameOK; rfl

/-- an atom identity (among the names looked at) present in one structure only is reported when enforcement is on -/
theorem mismatch_error {dec ref : List Atom} {names : Option (List Str)}
    (h : Spec.Rmsd.missingSomewhere names dec ref = true) : checkResidues dec ref names true = .error .valueError := by
  cases hck : checkResidues dec ref names true with
  | error e => rw [(checkResidues_error hck).1]
  | ok b =>
    exfalso
    have hb := checkResidues_ok_true hck
    subst hb
    have hk := checkResidues_keys hck
    simp only [Spec.Rmsd.missingSomewhere, sel_eq, Bool.or_eq_true, List.any_eq_true, Bool.not_eq_true',
      List.contains_eq_mem, decide_eq_false_iff_not] at h
    rcases h with ⟨k, hk1, hk2⟩ | ⟨k, hk1, hk2⟩
    · exact hk2 ((hk k).mp hk1)
    · exact hk2 ((hk k).mpr hk1)

end Proofs.Rmsd
