/-
  C16 — the routines' effect programs: solo-run equations of the building blocks, footprint (`Within`) and
  "own temp file is gone at the end" for every routine.   Core Lean only.
-/
import PdbVerif.Model.Effects
import PdbVerif.Proofs.Effects

set_option linter.unusedVariables false
set_option linter.unusedSectionVars false

namespace Proofs.Effects
open Spec.C16 Model.C16

variable {P L Z R : Type} [DecidableEq P]

theorem FS.set_set (fs : FS P L) (p : P) (v w : Option (List L)) : (fs.set p v).set p w = fs.set p w := by
  funext q; by_cases h : q = p <;> simp [FS.set, h]

theorem FS.set_eq_self (fs : FS P L) (p : P) : fs.set p (fs p) = fs := by
  funext q; by_cases h : q = p <;> simp [FS.set, h]

/-! ### solo-run equations -/

theorem exec_finish (x : Except Err R) (fs : FS P L) : (finish x : Prog P L R).exec fs = (fs, x) := by
  cases x <;> rfl

theorem exec_readPdb (p : P) (k : List L → Prog P L R) (fs : FS P L) :
    (readPdb p k).exec fs = match fs p with
      | some c => (k c).exec fs
      | none => (fs, .error .fileNotFound) := by
  unfold readPdb
  cases h : fs p <;> simp [Prog.exec, h]

theorem exec_loadPdb (p : P) (k : List L → Prog P L R) (fs : FS P L) :
    (loadPdb p k).exec fs = match fs p with
      | some c => (k c).exec fs
      | none => (fs, .error .fileNotFound) := by
  unfold loadPdb; simp only [Prog.exec]; exact exec_readPdb p k fs

theorem exec_writeFile (p : P) (l : List L) (k : Prog P L R) (fs : FS P L) :
    (writeFile p l k).exec fs = k.exec (fs.set p (some l)) := by
  unfold writeFile; simp [Prog.exec, FS.set_set]

theorem exec_writeZone (tmp f : P) (l : List L) (k : Prog P L R) (fs : FS P L) (h : fs tmp = none) :
    (writeZone tmp f l k).exec fs = k.exec ((fs.set tmp none).set f (some l)) := by
  unfold writeZone; simp [Prog.exec, h, FS.set_set]

theorem exec_readZone (W : Work L Z R) (f : P) (k : Z → Prog P L R) (fs : FS P L) :
    (readZone W f k).exec fs = match fs f with
      | some c => (match W.parse c with
        | .ok z => (k z).exec fs
        | .error e => (fs, .error e))
      | none => (fs, .error .fileNotFound) := by
  unfold readZone
  cases h : fs f with
  | none => simp [Prog.exec, h]
  | some c => cases hp : W.parse c <;> simp [Prog.exec, h, hp]

/-! ### footprint and temp hygiene, block by block -/

/-- no file under a temp name -/
def NoTemp (role : P → Role) (fs : FS P L) : Prop := ∀ p, role p = .temp → fs p = none

/-- inside the footprint, and a run that starts without temp files ends without temp files -/
def Tidy (role : P → Role) (t : Prog P L R) : Prop :=
  Within role t ∧ ∀ fs : FS P L, NoTemp role fs → NoTemp role (t.exec fs).1

theorem noTemp_set {role : P → Role} {fs : FS P L} (h : NoTemp role fs) (p : P) (hp : role p ≠ .temp) (v : Option (List L)) :
    NoTemp role (fs.set p v) := by
  intro q hq
  have : q ≠ p := by intro e; subst e; exact hp hq
  rw [FS.set_other _ _ _ _ this]; exact h q hq

theorem noTemp_set_none {role : P → Role} {fs : FS P L} (h : NoTemp role fs) (p : P) : NoTemp role (fs.set p none) := by
  intro q hq
  by_cases e : q = p
  · subst e; simp
  · rw [FS.set_other _ _ _ _ e]; exact h q hq

theorem tidy_finish (role : P → Role) (x : Except Err R) : Tidy role (finish x : Prog P L R) := by
  cases x <;> exact ⟨trivial, fun fs h => h⟩

theorem tidy_fail (role : P → Role) (e : Err) : Tidy role (.fail e : Prog P L R) := ⟨trivial, fun fs h => h⟩

theorem tidy_readPdb (role : P → Role) (p : P) (k : List L → Prog P L R) (hp : (role p).readable = true)
    (hk : ∀ c, Tidy role (k c)) : Tidy role (readPdb p k) := by
  refine ⟨?_, ?_⟩
  · unfold readPdb
    simp only [Within]
    refine ⟨hp, fun b => ?_⟩
    cases b
    · simp [Within]
    · simp only [if_true, Within]
      refine ⟨hp, fun b2 => ?_⟩
      cases b2
      · simp [Within]
      · simp only [if_true, Within]; exact ⟨hp, fun c => (hk c).1⟩
  · intro fs h
    rw [exec_readPdb]
    cases hfs : fs p with
    | none => exact h
    | some c => exact (hk c).2 fs h

theorem tidy_loadPdb (role : P → Role) (p : P) (k : List L → Prog P L R) (hp : (role p).readable = true)
    (hk : ∀ c, Tidy role (k c)) : Tidy role (loadPdb p k) := by
  have := tidy_readPdb role p k hp hk
  exact ⟨by unfold loadPdb; simp only [Within]; exact this.1, by
    intro fs h; unfold loadPdb; simp only [Prog.exec]; exact this.2 fs h⟩

theorem tidy_readSeq (role : P → Role) (rs : List (Rd P)) (k : List (List L) → Prog P L R)
    (hr : ∀ rd ∈ rs, (role rd.path).readable = true) (hk : ∀ cs, Tidy role (k cs)) : Tidy role (readSeq rs k) := by
  induction rs generalizing k with
  | nil => exact hk []
  | cons rd rs ih =>
    have hrest : ∀ rd' ∈ rs, (role rd'.path).readable = true := fun rd' h' => hr rd' (List.mem_cons_of_mem _ h')
    cases rd with
    | load p =>
      exact tidy_loadPdb role p _ (hr (.load p) (List.mem_cons_self ..)) (fun c => ih _ hrest (fun cs => hk (c :: cs)))
    | read p =>
      exact tidy_readPdb role p _ (hr (.read p) (List.mem_cons_self ..)) (fun c => ih _ hrest (fun cs => hk (c :: cs)))

theorem tidy_writeFile (role : P → Role) (p : P) (l : List L) (k : Prog P L R) (hp : role p = .output) (hk : Tidy role k) :
    Tidy role (writeFile p l k) := by
  refine ⟨?_, ?_⟩
  · unfold writeFile; simp only [Within]; exact ⟨hp, Or.inr hp, hk.1⟩
  · intro fs h; rw [exec_writeFile]
    exact hk.2 _ (noTemp_set h p (by rw [hp]; decide) _)

theorem tidy_writeZone (role : P → Role) (tmp f : P) (l : List L) (k : Prog P L R) (ht : role tmp = .temp) (hf : role f = .cache)
    (hk : Tidy role k) : Tidy role (writeZone tmp f l k) := by
  refine ⟨?_, ?_⟩
  · unfold writeZone; simp only [Within]; exact ⟨ht, Or.inl ht, ⟨ht, hf⟩, hk.1⟩
  · intro fs h; rw [exec_writeZone _ _ _ _ _ (h tmp ht)]
    exact hk.2 _ (noTemp_set (noTemp_set_none h tmp) f (by rw [hf]; decide) _)

theorem tidy_readZone (role : P → Role) (W : Work L Z R) (f : P) (k : Z → Prog P L R) (hf : role f = .cache)
    (hk : ∀ z, Tidy role (k z)) : Tidy role (readZone W f k) := by
  have hr : (role f).readable = true := by rw [hf]; rfl
  refine ⟨?_, ?_⟩
  · unfold readZone; simp only [Within]
    refine ⟨hr, fun b => ?_⟩
    cases b
    · simp [Within]
    · simp only [if_true, Within]
      refine ⟨hr, fun c => ?_⟩
      cases W.parse c with
      | ok z => exact (hk z).1
      | error e => trivial
  · intro fs h; rw [exec_readZone]
    cases hfs : fs f with
    | none => exact h
    | some c =>
      cases hp : W.parse c with
      | ok z => simp only [hp]; exact (hk z).2 fs h
      | error e => simp only [hp]; exact h

theorem tidy_isFile (role : P → Role) (p : P) (k : Bool → Prog P L R) (hp : (role p).readable = true)
    (hk : ∀ b, Tidy role (k b)) : Tidy role (.isFile p k) :=
  ⟨by simp only [Within]; exact ⟨hp, fun b => (hk b).1⟩, fun fs h => by simp only [Prog.exec]; exact (hk _).2 fs h⟩

theorem tidy_dbMem (role : P → Role) (k : Prog P L R) (hk : Tidy role k) : Tidy role (.dbMem k) :=
  ⟨by simp only [Within]; exact hk.1, fun fs h => by simp only [Prog.exec]; exact hk.2 fs h⟩

theorem tidy_withZone (role : P → Role) (W : Work L Z R) (r : Routine) (ref f tmp : P) (k : Z → Prog P L R)
    (href : role ref = .input) (hf : role f = .cache) (ht : role tmp = .temp) (hk : ∀ z, Tidy role (k z)) :
    Tidy role (withZone W r ref f tmp k) := by
  unfold withZone
  apply tidy_isFile role f _ (by rw [hf]; rfl)
  intro b; cases b
  · simp only [Bool.false_eq_true, if_false]
    refine tidy_loadPdb role ref _ (by rw [href]; rfl) (fun rc => ?_)
    cases W.computeErr r rc with
    | some e => exact tidy_finish role (.error e)
    | none => exact tidy_writeZone role tmp f _ _ ht hf (hk _)
  · simp only [if_true]; exact tidy_readZone role W f k hf hk

theorem tidy_zoneArg (role : P → Role) (W : Work L Z R) (r : Routine) (a : Args P) (k : Z → Prog P L R)
    (ha : a.Roles role) (hk : ∀ z, Tidy role (k z)) : Tidy role (zoneArg W r a k) := by
  unfold zoneArg
  cases hz : a.zone with
  | none =>
    refine tidy_loadPdb role a.ref _ (by rw [ha.ref]; rfl) (fun rc => ?_)
    cases W.computeErr r rc with
    | some e => exact tidy_finish role (.error e)
    | none => exact hk _
  | some f => exact tidy_withZone role W r a.ref f a.tmp k ha.ref (ha.zone f hz) ha.tmp hk

theorem tidy_export1 (role : P → Role) (W : Work L Z R) (r : Routine) (a : Args P) (obs : List (List L)) (res : Except Err R)
    (ha : a.Roles role) : Tidy role (export1 W r a obs res : Prog P L R) := by
  unfold export1
  cases h : a.out1 with
  | none => exact tidy_finish role res
  | some o => exact tidy_writeFile role o _ _ (ha.out1 o h) (tidy_finish role res)

theorem tidy_export2 (role : P → Role) (W : Work L Z R) (r : Routine) (a : Args P) (obs : List (List L)) (res : Except Err R)
    (ha : a.Roles role) : Tidy role (export2 W r a obs res : Prog P L R) := by
  unfold export2
  cases h1 : a.out1 with
  | none => exact tidy_finish role res
  | some o1 =>
    cases h2 : a.out2 with
    | none => exact tidy_finish role res
    | some o2 =>
      exact tidy_writeFile role o1 _ _ (ha.out1 o1 h1) (tidy_writeFile role o2 _ _ (ha.out2 o2 h2) (tidy_finish role res))

theorem tidy_checked (role : P → Role) (W : Work L Z R) (r : Routine) (z : Option Z) (first second : List (Rd P))
    (k : List (List L) → Except Err R → Prog P L R)
    (h1 : ∀ rd ∈ first, (role rd.path).readable = true) (h2 : ∀ rd ∈ second, (role rd.path).readable = true)
    (hk : ∀ obs res, Tidy role (k obs res)) : Tidy role (checked W r z first second k) := by
  unfold checked
  apply tidy_readSeq role first _ h1
  intro o1
  cases W.check r 0 o1 with
  | error e => exact tidy_fail role e
  | ok u =>
    refine tidy_readSeq role second _ h2 (fun o2 => ?_)
    cases W.check r 1 (o1 ++ o2) with
    | error e => exact tidy_fail role e
    | ok u => exact hk _ _

/-- every routine, every option: inside the footprint, own temp file gone at the end -/
theorem tidy_prog (role : P → Role) (W : Work L Z R) (r : Routine) (a : Args P) (ha : a.Roles role) :
    Tidy role (prog W r a : Prog P L R) := by
  have hd : (role a.decoy).readable = true := by rw [ha.decoy]; rfl
  have hr : (role a.ref).readable = true := by rw [ha.ref]; rfl
  have hrd : ∀ (l : List (Rd P)), (∀ rd ∈ l, rd.path = a.decoy ∨ rd.path = a.ref) →
      ∀ rd ∈ l, (role rd.path).readable = true := by
    intro l hl rd hrd
    rcases hl rd hrd with h | h <;> rw [h] <;> assumption
  cases r with
  | lrmsdFast c =>
    cases c <;> simp only [prog] <;>
    · apply tidy_zoneArg role W _ a _ ha
      intro z
      apply tidy_checked role W _ _ _ _ _ (hrd _ (by simp [Rd.path])) (hrd _ (by simp [Rd.path]))
      intro obs res; exact tidy_finish role res
  | irmsdFast c =>
    cases c <;> simp only [prog] <;>
    · apply tidy_zoneArg role W _ a _ ha
      intro z
      apply tidy_checked role W _ _ _ _ _ (hrd _ (by simp [Rd.path])) (hrd _ (by simp [Rd.path]))
      intro obs res; exact tidy_finish role res
  | lrmsdSql =>
    simp only [prog]
    apply tidy_checked role W _ _ _ _ _ (hrd _ (by simp [Rd.path])) (hrd _ (by simp [Rd.path]))
    intro obs res; exact tidy_export2 role W _ a obs res ha
  | irmsdSql =>
    simp only [prog]
    apply tidy_checked role W _ _ _ _ _ (hrd _ (by simp [Rd.path])) (hrd _ (by simp [Rd.path]))
    intro obs res
    cases hz : a.zone with
    | none => exact tidy_export2 role W _ a obs _ ha
    | some f =>
      simp only []
      apply tidy_isFile role f _ (by rw [ha.zone f hz]; rfl)
      intro b; cases b
      · exact tidy_fail role _
      · simp only [if_true]
        exact tidy_readZone role W f _ (ha.zone f hz) (fun z => tidy_export2 role W _ a obs _ ha)
  | fnatFast =>
    simp only [prog]
    apply tidy_checked role W _ _ _ _ _ (hrd _ (by simp [Rd.path])) (hrd _ (by simp [Rd.path]))
    intro obs res; exact tidy_finish role res
  | fnatSql =>
    simp only [prog]
    apply tidy_checked role W _ _ _ _ _ (hrd _ (by simp [Rd.path])) (hrd _ (by simp [Rd.path]))
    intro obs res; exact tidy_finish role res
  | clashes =>
    simp only [prog]
    apply tidy_checked role W _ _ _ _ _ (hrd _ (by simp [Rd.path])) (hrd _ (by simp [Rd.path]))
    intro obs res; exact tidy_finish role res
  | contacts =>
    simp only [prog]
    apply tidy_checked role W _ _ _ _ _ (hrd _ (by simp [Rd.path])) (hrd _ (by simp [Rd.path]))
    intro obs res; exact tidy_finish role res
  | superpose =>
    simp only [prog]
    apply tidy_checked role W _ _ _ _ _ (hrd _ (by simp [Rd.path])) (hrd _ (by simp [Rd.path]))
    intro obs res
    split
    · exact tidy_export1 role W _ a obs res ha
    · exact tidy_dbMem role _ (tidy_dbMem role _ (tidy_export1 role W _ a obs res ha))
  | align =>
    simp only [prog]
    apply tidy_checked role W _ _ _ _ _ (hrd _ (by simp [Rd.path])) (hrd _ (by simp [Rd.path]))
    intro obs res; exact tidy_export1 role W _ a obs res ha
  | pairsRef =>
    simp only [prog]
    apply tidy_checked role W _ _ _ _ _ (hrd _ (by simp [Rd.path])) (hrd _ (by simp [Rd.path]))
    intro obs res; exact tidy_export1 role W _ a obs res ha
  | lzone =>
    simp only [prog]
    apply tidy_checked role W _ _ _ _ _ (hrd _ (by simp [Rd.path])) (hrd _ (by simp [Rd.path]))
    intro obs res
    cases hz : a.zone with
    | none => exact tidy_finish role res
    | some f =>
      cases obs with
      | nil => exact tidy_finish role res
      | cons rc _ => exact tidy_writeZone role a.tmp f _ _ ha.tmp (ha.zone f hz) (tidy_finish role res)
  | izone =>
    simp only [prog]
    apply tidy_checked role W _ _ _ _ _ (hrd _ (by simp [Rd.path])) (hrd _ (by simp [Rd.path]))
    intro obs res
    cases hz : a.zone with
    | none => exact tidy_finish role res
    | some f =>
      cases obs with
      | nil => exact tidy_finish role res
      | cons rc _ => exact tidy_writeZone role a.tmp f _ _ ha.tmp (ha.zone f hz) (tidy_finish role res)

end Proofs.Effects
