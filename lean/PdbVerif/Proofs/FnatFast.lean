/-
  C08, step 3 (fast route): the decoy dictionary built from the raw record columns, the two counters of the loop over the
  reference pairs, and `Model.Fnat.fnatFast = Spec.C08.fnat`.  Helper lemmas only.
-/
import PdbVerif.Proofs.FnatSpec

set_option linter.unusedSectionVars false
set_option linter.unusedVariables false

namespace Proofs.Fnat
open Py Model Model.Fnat Proofs.Contacts
open Spec.C08 (Res resOf inContact contacts residues preserved NamesConsistent within)

/-- the raw-column reader of the fast route sees exactly the rows of the table `dec` (what `Model.Fnat.rawAgrees` tests) -/
def RawAgrees (lines : List Str) (dec : List Atom) : Prop :=
  (lines.filter (fun l => startsWith l Gen.atom_prefix)).mapM readRec = .ok (dec.map recOfAtom)

def initData : DecoyData := { xyz := [], names := [] }

theorem mapM_cons_ok {β γ : Type} {f : β → Except Err γ} {x : β} {xs : List β} {ys : List γ}
    (h : (x :: xs).mapM f = .ok ys) : ∃ y ys', f x = .ok y ∧ xs.mapM f = .ok ys' ∧ ys = y :: ys' := by
  rw [List.mapM_cons] at h
  cases hx : f x with
  | error e => simp [hx, bind, Except.bind] at h
  | ok y =>
    cases hxs : xs.mapM f with
    | error e => simp [hx, hxs, bind, Except.bind] at h
    | ok ys' =>
      simp [hx, hxs, bind, Except.bind, pure, Except.pure] at h
      exact ⟨y, ys', rfl, rfl, h.symm⟩

theorem readDecoy_fold : ∀ (lines : List Str) (recs : List Rec) (st : DecoyData),
    (lines.filter (fun l => startsWith l Gen.atom_prefix)).mapM readRec = .ok recs →
      lines.foldlM decoyStep st = .ok (recs.foldl addRec st)
  | [], recs, st, h => by
    simp [List.mapM_nil, pure, Except.pure] at h
    subst h; rfl
  | l :: ls, recs, st, h => by
    by_cases hl : startsWith l Gen.atom_prefix = true
    · simp only [List.filter_cons, hl, if_true] at h
      obtain ⟨r, rs, h1, h2, rfl⟩ := mapM_cons_ok h
      simp only [List.foldlM_cons, decoyStep, hl, if_true, h1, bind, Except.bind, pure, Except.pure, List.foldl_cons]
      exact readDecoy_fold ls rs _ h2
    · simp only [List.filter_cons, hl, if_false, Bool.false_eq_true] at h
      simp only [List.foldlM_cons, decoyStep, hl, if_false, Bool.false_eq_true, bind, Except.bind, pure, Except.pure]
      exact readDecoy_fold ls recs st h

/-- the events of the heavy records -/
def heavyEvents (recs : List Rec) : List (ResKey × List P3) :=
  (recs.filter (fun r => !startsWithH r.name)).map (fun r => (r.key, [r.xyz]))

theorem fold_addRec_xyz : ∀ (recs : List Rec) (st : DecoyData),
    (recs.foldl addRec st).xyz = applyEvents st.xyz (heavyEvents recs)
  | [], st => rfl
  | r :: rs, st => by
    simp only [List.foldl_cons]
    rw [fold_addRec_xyz rs]
    cases hr : startsWithH r.name with
    | true =>
      have e1 : addRec st r = st := by simp [addRec, hr]
      have e2 : heavyEvents (r :: rs) = heavyEvents rs := by simp [heavyEvents, List.filter_cons, hr]
      rw [e1, e2]
    | false =>
      have e1 : (addRec st r).xyz = st.xyz.extend r.key [r.xyz] := by
        simp only [addRec, hr, Bool.not_false, if_true]
        exact setDefault_extend _ _ _
      have e2 : heavyEvents (r :: rs) = (r.key, [r.xyz]) :: heavyEvents rs := by simp [heavyEvents, List.filter_cons, hr]
      rw [e1, e2]
      rfl

theorem readDecoy_ok {lines : List Str} {dec : List Atom} (h : RawAgrees lines dec) :
    ∃ data, readDecoy lines = .ok data ∧ data.xyz = applyEvents [] (heavyEvents (dec.map recOfAtom)) := by
  refine ⟨_, readDecoy_fold lines _ initData h, ?_⟩
  rw [fold_addRec_xyz]; rfl

/-! ### the decoy dictionary -/

def xyzOf (a : Atom) : P3 := (a.x, a.y, a.z)

/-- `residue_xyz` of the decoy table -/
def decoyDict (dec : List Atom) : Dict ResKey (List P3) := applyEvents [] (heavyEvents (dec.map recOfAtom))

theorem heavyEvents_atoms (dec : List Atom) :
    heavyEvents (dec.map recOfAtom) = (dec.filter heavy).map (fun a => (resKey a, [xyzOf a])) := by
  unfold heavyEvents
  induction dec with
  | nil => rfl
  | cons a dec ih =>
    simp only [List.map_cons, List.filter_cons]
    by_cases h : startsWithH a.name = true
    · simp only [recOfAtom, h, Bool.not_true, heavy, Bool.false_eq_true, if_false]
      simpa [recOfAtom] using ih
    · simp only [Bool.not_eq_true] at h
      simp only [recOfAtom, h, Bool.not_false, heavy, if_true, List.map_cons, List.cons.injEq]
      exact ⟨rfl, by simpa [recOfAtom] using ih⟩

theorem mem_keys_decoyDict {dec : List Atom} {K : ResKey} :
    K ∈ (decoyDict dec).keys ↔ ∃ a ∈ dec, heavy a = true ∧ resKey a = K := by
  unfold decoyDict
  rw [mem_keys_applyEvents, heavyEvents_atoms]
  simp only [Dict.keys, List.map_nil, List.not_mem_nil, false_or, List.mem_map, List.mem_filter]
  constructor
  · rintro ⟨e, ⟨a, ⟨ha, hh⟩, rfl⟩, rfl⟩; exact ⟨a, ha, hh, rfl⟩
  · rintro ⟨a, ha, hh, rfl⟩; exact ⟨_, ⟨a, ⟨ha, hh⟩, rfl⟩, rfl⟩

theorem getD_decoyDict (dec : List Atom) (K : ResKey) :
    (decoyDict dec).getD K = ((dec.filter heavy).filter (fun a => decide (resKey a = K))).map xyzOf := by
  unfold decoyDict
  rw [getD_applyEvents, heavyEvents_atoms]
  simp only [Dict.getD, List.nil_append, eventsOf]
  induction dec.filter heavy with
  | nil => rfl
  | cons a l ih =>
    by_cases h : resKey a = K
    · simp [List.filter_cons, h, ih]
    · simp [List.filter_cons, h, ih]

theorem get?_decoyDict (dec : List Atom) (K : ResKey) :
    (decoyDict dec).get? K =
      if K ∈ (decoyDict dec).keys then some (((dec.filter heavy).filter (fun a => decide (resKey a = K))).map xyzOf) else none := by
  by_cases h : K ∈ (decoyDict dec).keys
  · rw [if_pos h, get?_eq_getD h, getD_decoyDict]
  · rw [if_neg h, get?_none h]

theorem dist2_eq (a b : Atom) : dist2 (xyzOf a) (xyzOf b) = Spec.C08.sqDist a b := rfl

/-- the Boolean the loop computes for one reference pair (no exception can occur: lists of present keys are non-empty) -/
def presFast (c : Rat) (dec : List Atom) (p : ResKey × ResKey) : Bool :=
  (dec.filter heavy).any (fun a => decide (resKey a = p.1) &&
    (dec.filter heavy).any (fun b => decide (resKey b = p.2) && within c a b))

theorem presFast_iff {c : Rat} {dec : List Atom} {K K' : ResKey} :
    presFast c dec (K, K') = true ↔ TouchD c dec resKey K K' := by
  simp only [presFast, List.any_eq_true, List.mem_filter, Bool.and_eq_true, decide_eq_true_eq, TouchD]
  constructor
  · rintro ⟨a, ⟨ha, hha⟩, hka, b, ⟨hb, hhb⟩, hkb, hw⟩; exact ⟨a, ha, b, hb, hha, hhb, hw, hka, hkb⟩
  · rintro ⟨a, ha, b, hb, hha, hhb, hw, hka, hkb⟩; exact ⟨a, ⟨ha, hha⟩, hka, b, ⟨hb, hhb⟩, hkb, hw⟩

theorem minWithin_decoy (c : Rat) (dec : List Atom) (K K' : ResKey)
    (hK : K ∈ (decoyDict dec).keys) (hK' : K' ∈ (decoyDict dec).keys) :
    minWithin c (((dec.filter heavy).filter (fun a => decide (resKey a = K))).map xyzOf)
        (((dec.filter heavy).filter (fun a => decide (resKey a = K'))).map xyzOf) = .ok (presFast c dec (K, K')) := by
  obtain ⟨a, ha, hha, hka⟩ := mem_keys_decoyDict.1 hK
  obtain ⟨b, hb, hhb, hkb⟩ := mem_keys_decoyDict.1 hK'
  have ne1 : ((dec.filter heavy).filter (fun a => decide (resKey a = K))).map xyzOf ≠ [] := by
    intro h0
    have : a ∈ (dec.filter heavy).filter (fun a => decide (resKey a = K)) :=
      List.mem_filter.2 ⟨List.mem_filter.2 ⟨ha, hha⟩, by simp [hka]⟩
    rw [List.map_eq_nil_iff] at h0
    rw [h0] at this; cases this
  have ne2 : ((dec.filter heavy).filter (fun a => decide (resKey a = K'))).map xyzOf ≠ [] := by
    intro h0
    have : b ∈ (dec.filter heavy).filter (fun a => decide (resKey a = K')) :=
      List.mem_filter.2 ⟨List.mem_filter.2 ⟨hb, hhb⟩, by simp [hkb]⟩
    rw [List.map_eq_nil_iff] at h0
    rw [h0] at this; cases this
  unfold minWithin
  have e1 : (((dec.filter heavy).filter (fun a => decide (resKey a = K))).map xyzOf).isEmpty = false := by
    cases h : ((dec.filter heavy).filter (fun a => decide (resKey a = K))).map xyzOf with
    | nil => exact absurd h ne1
    | cons _ _ => rfl
  have e2 : (((dec.filter heavy).filter (fun a => decide (resKey a = K'))).map xyzOf).isEmpty = false := by
    cases h : ((dec.filter heavy).filter (fun a => decide (resKey a = K'))).map xyzOf with
    | nil => exact absurd h ne2
    | cons _ _ => rfl
  simp only [e1, e2, Bool.or_false, Bool.false_eq_true, if_false, pure, Except.pure]
  congr 1
  simp only [presFast, List.any_map, List.any_filter, Function.comp, dist2_eq]
  rfl

/-- the test of one reference pair as the loop sees it -/
def presLoop (c : Rat) (dec : List Atom) (p : ResKey × ResKey) : Bool :=
  decide (p.1 ∈ (decoyDict dec).keys) && decide (p.2 ∈ (decoyDict dec).keys) && presFast c dec p

theorem presLoop_iff {c : Rat} {dec : List Atom} {K K' : ResKey} :
    presLoop c dec (K, K') = true ↔ TouchD c dec resKey K K' := by
  simp only [presLoop, Bool.and_eq_true, decide_eq_true_eq]
  constructor
  · rintro ⟨_, h⟩; exact presFast_iff.1 h
  · intro h
    obtain ⟨a, ha, b, hb, hha, hhb, hw, hka, hkb⟩ := h
    exact ⟨⟨mem_keys_decoyDict.2 ⟨a, ha, hha, hka⟩, mem_keys_decoyDict.2 ⟨b, hb, hhb, hkb⟩⟩,
      presFast_iff.2 ⟨a, ha, b, hb, hha, hhb, hw, hka, hkb⟩⟩

/-! ### the counters -/

theorem countB_fold (c : Rat) (dec : List Atom) (K : ResKey) (hK : K ∈ (decoyDict dec).keys) :
    ∀ (l : List ResKey) (n : Counters),
      l.foldlM (countB c (decoyDict dec) (((dec.filter heavy).filter (fun a => decide (resKey a = K))).map xyzOf)) n =
        .ok (n.1 + (l.filter (fun K' => presLoop c dec (K, K'))).length, n.2 + l.length)
  | [], n => by simp [pure, Except.pure]
  | K' :: l, n => by
    simp only [List.foldlM_cons, countB, get?_decoyDict]
    by_cases hK' : K' ∈ (decoyDict dec).keys
    · simp only [hK', if_true, minWithin_decoy c dec K K' hK hK', bind, Except.bind, pure, Except.pure]
      rw [countB_fold c dec K hK l]
      by_cases hp : presFast c dec (K, K') = true
      · simp [List.filter_cons, presLoop, hK, hK', hp]; omega
      · simp [List.filter_cons, presLoop, hK, hK', hp]; omega
    · simp only [hK', if_false, bind, Except.bind, pure, Except.pure]
      rw [countB_fold c dec K hK l]
      simp [List.filter_cons, presLoop, hK']; omega

theorem countA_fold (c : Rat) (dec : List Atom) :
    ∀ (D : Dict ResKey (List ResKey)) (n : Counters),
      D.foldlM (countA c (decoyDict dec)) n =
        .ok (n.1 + ((flattenPairs D).filter (presLoop c dec)).length, n.2 + (flattenPairs D).length)
  | [], n => by simp [flattenPairs, pure, Except.pure]
  | e :: D, n => by
    simp only [List.foldlM_cons, countA, get?_decoyDict]
    have hflat : flattenPairs (e :: D) = e.2.map (fun b => (e.1, b)) ++ flattenPairs D := by
      simp [flattenPairs]
    by_cases hK : e.1 ∈ (decoyDict dec).keys
    · simp only [hK, if_true, countB_fold c dec e.1 hK, bind, Except.bind]
      rw [countA_fold c dec D, hflat]
      simp only [List.filter_append, List.length_append, List.filter_map, List.length_map, Function.comp_def]
      congr 1
      ext <;> simp <;> omega
    · simp only [hK, if_false, bind, Except.bind, pure, Except.pure]
      rw [countA_fold c dec D, hflat]
      have : (e.2.map (fun b => (e.1, b))).filter (presLoop c dec) = [] := by
        rw [List.filter_eq_nil_iff]
        intro p hp
        obtain ⟨b, _, rfl⟩ := List.mem_map.1 hp
        simp [presLoop, hK]
      simp only [List.filter_append, this, List.length_append, List.length_map, List.nil_append, List.length_nil]
      congr 1
      ext <;> simp <;> omega

/-- the value of a pair of counters, as the Spec writes it -/
theorem ratio_eq (nC nT : Nat) :
    ratio (nC, nT) = if nT = 0 then .error Err.zeroDiv else .ok (Py.round ((nC : Rat) / (nT : Rat)) 6) := by
  unfold ratio
  by_cases h : nT = 0 <;> simp [h, throw, throwThe, MonadExceptOf.throw, pure, Except.pure]

theorem spec_fnat_eq (c : Rat) (ref dec : List Atom) :
    orZeroDiv (Spec.C08.fnat c ref dec) =
      ratio ((preserved c ref dec).length, (contacts c ref).length) := by
  rw [ratio_eq]
  unfold Spec.C08.fnat orZeroDiv
  by_cases h : (contacts c ref).isEmpty = true
  · have : (contacts c ref).length = 0 := by
      rw [List.isEmpty_iff] at h; rw [h]; rfl
    simp [h, this]
  · have : (contacts c ref).length ≠ 0 := by
      intro h0; apply h; rw [List.isEmpty_iff]; exact List.length_eq_zero_iff.1 h0
    simp [h, this]

/-- **the fast route equals the definition** -/
theorem fnatFast_eq {ref dec : List Atom} {lines : List Str} {X Y : Str} (c : Rat)
    (hch : getChains ref = [X, Y]) (hn : NamesConsistent (ref ++ dec)) (hraw : RawAgrees lines dec) :
    fnatFast ref lines c =
      orZeroDiv (Spec.C08.fnat c ref dec) := by
  obtain ⟨D, hD, hnd, hmem⟩ := pairs_char hch c
  obtain ⟨data, hdata, hxyz⟩ := readDecoy_ok hraw
  have hcnt := counts_eq hch hn (keyOK_resKey _) hnd (fun K K' => (hmem K K').trans (touch_eq_touchK c ref X Y K K'))
    (presLoop c dec) (fun K K' _ => presLoop_iff)
  rw [spec_fnat_eq, ← hcnt.1, ← hcnt.2]
  unfold fnatFast residuePairsRef
  simp only [hch, hD, hdata, bind, Except.bind, hxyz]
  have := countA_fold c dec D (0, 0)
  unfold decoyDict at this
  rw [this]
  simp

end Proofs.Fnat
