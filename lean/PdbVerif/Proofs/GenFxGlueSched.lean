/-
  C16 — the whole fast routines assembled from translated code (`lrmsdFastT`, `irmsdFastT`) ARE `Model.C16.prog`, and therefore the
  theorems of Props/C16 — footprint, frame, noninterference under EVERY schedule — hold of the translated programs.
  See the header of Proofs/GenFxGlue.lean for what is translated and what is hand glue.
-/
import PdbVerif.Proofs.GenFxGlue
import PdbVerif.Proofs.Effects
import PdbVerif.Proofs.EffectsRoutines
import PdbVerif.Proofs.EffectsMix

set_option linter.unusedVariables false
set_option linter.unusedSimpArgs false
set_option linter.unusedSectionVars false

namespace Proofs.GenFx
open Py Py.Fx Spec.C16 Model.C16 Proofs.Effects

section
variable {R : Type}

/-! ### the tail of a fast routine after the zone branch (hand glue; pure work = the model's uninterpreted `W.check` / `W.score`) -/

def readSeqT : List (Rd Py.Str) → PS (List (List Py.Str))
  | [] => .pure []
  | .load p :: rs => (loadT p).bind fun x => (readSeqT rs).bind fun cs => .pure (x.2 :: cs)
  | .read p :: rs => (readPdbT p).bind fun c => (readSeqT rs).bind fun cs => .pure (c :: cs)

def checkedT (W : Work Py.Str ZoneZ R) (r : Routine) (z : Option ZoneZ) (first second : List (Rd Py.Str)) : PS (Except Spec.C16.Err R) :=
  (readSeqT first).bind fun o1 => match W.check r 0 o1 with
    | .error e => .pure (.error e)
    | .ok _ => (readSeqT second).bind fun o2 => match W.check r 1 (o1 ++ o2) with
      | .error e => .pure (.error e)
      | .ok _ => .pure (W.score r z (o1 ++ o2))

theorem toC16_readSeqT {α : Type} (mk : Py.Str → Py.Str → Py.Str → Py.Str) (rs : List (Rd Py.Str)) (f : List (List Py.Str) → PS α)
    (b : Bufs Py.Str Py.Str) (k : α → Bufs Py.Str Py.Str → Spec.C16.Prog Py.Str Py.Str R) :
    toC16 mk ((readSeqT rs).bind f) b k = readSeq rs (fun cs => toC16 mk (f cs) b k) := by
  induction rs generalizing f with
  | nil => rfl
  | cons rd rs ih =>
    cases rd with
    | load p => simp only [readSeqT, readSeq, bind_assoc, toC16_loadT, ih, Fx.Prog.bind]
    | read p => simp only [readSeqT, readSeq, bind_assoc, toC16_readPdbT, ih, Fx.Prog.bind]

theorem toC16_checkedT (mk : Py.Str → Py.Str → Py.Str → Py.Str) (W : Work Py.Str ZoneZ R) (r : Routine) (z : Option ZoneZ)
    (first second : List (Rd Py.Str)) (b : Bufs Py.Str Py.Str) :
    toC16 mk (checkedT W r z first second) b (fun res _ => finish res) = checked W r z first second (fun _ res => finish res) := by
  unfold checkedT checked
  rw [toC16_readSeqT]; congr 1; funext o1
  cases W.check r 0 o1 with
  | error e => rfl
  | ok _ =>
    simp only []
    rw [toC16_readSeqT]; congr 1; funext o2
    cases W.check r 1 (o1 ++ o2) <;> rfl

/-- the reads of the tail, as `Model.C16.prog` lists them -/
def lrmsdReads (check : Bool) (a : Args Py.Str) : List (Rd Py.Str) × List (Rd Py.Str) :=
  if check then ([.load a.ref, .load a.decoy], [.read a.decoy, .read a.ref, .read a.decoy, .read a.ref, .read a.decoy, .read a.ref])
  else ([], [.read a.decoy, .read a.ref])

def irmsdReads (check : Bool) (a : Args Py.Str) : List (Rd Py.Str) × List (Rd Py.Str) :=
  if check then ([.load a.ref, .load a.decoy], [.read a.decoy, .read a.ref, .read a.decoy, .read a.ref])
  else ([], [.read a.decoy, .read a.ref])

/-- **`compute_lrmsd_fast(lzone=a.zone, check)` as one effect program**: the translated zone branch over the glued `compute_lzone`
    and `read_zone`, then the tail -/
def lrmsdFastT (W : Work Py.Str ZoneZ R) (de : Routine → List Py.Str → Except Py.Err ZoneZ) (check : Bool) (a : Args Py.Str) : PS (Except Spec.C16.Err R) :=
  (GenF.compute_lrmsd_fast_zone (computeZoneT de .lzone a.ref) readZoneT a.zone).bind fun z =>
    checkedT W (.lrmsdFast check) (some z) (lrmsdReads check a).1 (lrmsdReads check a).2

def irmsdFastT {Q : Type} (W : Work Py.Str ZoneZ R) (de : Q → Routine → List Py.Str → Except Py.Err ZoneZ) (cutoff : Q) (check : Bool)
    (a : Args Py.Str) : PS (Except Spec.C16.Err R) :=
  (GenF.compute_irmsd_fast_zone (fun c => computeZoneT (de c) .izone a.ref) readZoneT a.zone cutoff).bind fun z =>
    checkedT W (.irmsdFast check) (some z) (irmsdReads check a).1 (irmsdReads check a).2

/-- what ties the model's pure work `W` to the translated writer / reader and to the (GenR) zone computation -/
structure WorkIs (W : Work Py.Str ZoneZ R) (de : Routine → List Py.Str → Except Py.Err ZoneZ) : Prop where
  render : W.render = renderZone
  parse : W.parse = parseZone
  lzone : ZoneIs W de .lzone
  izone : ZoneIs W de .izone

/-- **whole routine, closed form**: the effect program of the translated fast L-RMSD routine IS the hand model's program -/
theorem genf_lrmsd_fast_whole (mk : Py.Str → Py.Str → Py.Str → Py.Str) (W : Work Py.Str ZoneZ R)
    (de : Routine → List Py.Str → Except Py.Err ZoneZ) (hW : WorkIs W de) (check : Bool) (a : Args Py.Str)
    (ht : ∀ f, a.zone = some f → a.tmp = tmpOf mk f) :
    prog16 mk (lrmsdFastT W de check a) finish = prog W (.lrmsdFast check) a := by
  unfold prog16 lrmsdFastT
  rw [toC16_bind]
  have hk : (fun (z : ZoneZ) (b' : Bufs Py.Str Py.Str) => toC16 mk (checkedT W (.lrmsdFast check) (some z) (lrmsdReads check a).1 (lrmsdReads check a).2) b'
      (fun res _ => finish res)) = fun z _ => checked W (.lrmsdFast check) (some z) (lrmsdReads check a).1 (lrmsdReads check a).2 (fun _ res => finish res) := by
    funext z b'; exact toC16_checkedT mk W _ _ _ _ b'
  rw [hk]
  have h := genf_lrmsd_fast_zone_closed mk W hW.parse de a ht
    (fun z => checked W (.lrmsdFast check) (some z) (lrmsdReads check a).1 (lrmsdReads check a).2 (fun _ res => finish res))
  unfold prog16 at h
  rw [h, zoneArgE_eq_model W de .lzone a _ hW.render hW.lzone]
  cases check <;> rfl

theorem genf_irmsd_fast_whole {Q : Type} (mk : Py.Str → Py.Str → Py.Str → Py.Str) (W : Work Py.Str ZoneZ R)
    (de : Q → Routine → List Py.Str → Except Py.Err ZoneZ) (cutoff : Q) (hW : WorkIs W (de cutoff)) (check : Bool) (a : Args Py.Str)
    (ht : ∀ f, a.zone = some f → a.tmp = tmpOf mk f) :
    prog16 mk (irmsdFastT W de cutoff check a) finish = prog W (.irmsdFast check) a := by
  unfold prog16 irmsdFastT
  rw [toC16_bind]
  have hk : (fun (z : ZoneZ) (b' : Bufs Py.Str Py.Str) => toC16 mk (checkedT W (.irmsdFast check) (some z) (irmsdReads check a).1 (irmsdReads check a).2) b'
      (fun res _ => finish res)) = fun z _ => checked W (.irmsdFast check) (some z) (irmsdReads check a).1 (irmsdReads check a).2 (fun _ res => finish res) := by
    funext z b'; exact toC16_checkedT mk W _ _ _ _ b'
  rw [hk]
  have h := genf_irmsd_fast_zone_closed mk W hW.parse de cutoff a ht
    (fun z => checked W (.irmsdFast check) (some z) (irmsdReads check a).1 (irmsdReads check a).2 (fun _ res => finish res))
  unfold prog16 at h
  rw [h, zoneArgE_eq_model W (de cutoff) .izone a _ hW.render hW.izone]
  cases check <;> rfl

/-! ### the theorems of Props/C16, of the translated programs -/

/-- the program of a call: the TRANSLATED one for the fast score routines, the hand model's for the other routines -/
def progT {Q : Type} (mk : Py.Str → Py.Str → Py.Str → Py.Str) (W : Work Py.Str ZoneZ R) (de : Q → Routine → List Py.Str → Except Py.Err ZoneZ)
    (cutoff : Q) (r : Routine) (a : Args Py.Str) : Spec.C16.Prog Py.Str Py.Str R :=
  match r with
  | .lrmsdFast c => prog16 mk (lrmsdFastT W (de cutoff) c a) finish
  | .irmsdFast c => prog16 mk (irmsdFastT W de cutoff c a) finish
  | r => prog W r a

/-- the temp name of a call is the one `_write_zone` asks `mkstemp` for: in the directory of the zone file, its base name + `.` … `.tmp` -/
def TmpIsMkstemp (mk : Py.Str → Py.Str → Py.Str → Py.Str) (a : Args Py.Str) : Prop := ∀ f, a.zone = some f → a.tmp = tmpOf mk f

theorem progT_eq_prog {Q : Type} (mk : Py.Str → Py.Str → Py.Str → Py.Str) (W : Work Py.Str ZoneZ R)
    (de : Q → Routine → List Py.Str → Except Py.Err ZoneZ) (cutoff : Q) (hW : WorkIs W (de cutoff)) (r : Routine) (a : Args Py.Str)
    (ht : TmpIsMkstemp mk a) : progT mk W de cutoff r a = prog W r a := by
  cases r <;> try rfl
  · exact genf_lrmsd_fast_whole mk W (de cutoff) hW _ a ht
  · exact genf_irmsd_fast_whole mk W de cutoff hW _ a ht

/-- **footprint_sound of the translated programs**: every action on every branch inside the footprint, the run's temp file gone at the
    end, every solo trace made of allowed actions -/
theorem genf_footprint_sound {Q : Type} (mk : Py.Str → Py.Str → Py.Str → Py.Str) (W : Work Py.Str ZoneZ R)
    (de : Q → Routine → List Py.Str → Except Py.Err ZoneZ) (cutoff : Q) (hW : WorkIs W (de cutoff)) (role : Py.Str → Role) (r : Routine)
    (a : Args Py.Str) (ht : TmpIsMkstemp mk a) (ha : a.Roles role) :
    Within role (progT mk W de cutoff r a) ∧
      (∀ fs : FS Py.Str Py.Str, (∀ p, role p = .temp → fs p = none) → ∀ p, role p = .temp → ((progT mk W de cutoff r a).exec fs).1 p = none) ∧
      (∀ fs : FS Py.Str Py.Str, traceOk role ((progT mk W de cutoff r a).trace fs) = true) := by
  rw [progT_eq_prog mk W de cutoff hW r a ht]
  exact ⟨(tidy_prog role W r a ha).1, (tidy_prog role W r a ha).2, fun fs => trace_ok role _ (tidy_prog role W r a ha).1 fs⟩

/-- **frame_fs of the translated programs** -/
theorem genf_frame_fs {Q : Type} (mk : Py.Str → Py.Str → Py.Str → Py.Str) (W : Work Py.Str ZoneZ R)
    (de : Q → Routine → List Py.Str → Except Py.Err ZoneZ) (cutoff : Q) (hW : WorkIs W (de cutoff)) (role : Py.Str → Role) (r : Routine)
    (a : Args Py.Str) (ht : TmpIsMkstemp mk a) (ha : a.Roles role) :
    (∀ (fs : FS Py.Str Py.Str) p, (role p = .input ∨ role p = .other) → ((progT mk W de cutoff r a).exec fs).1 p = fs p) ∧
      (∀ fs₁ fs₂ : FS Py.Str Py.Str, AgreeOn role fs₁ fs₂ →
        ((progT mk W de cutoff r a).exec fs₁).2 = ((progT mk W de cutoff r a).exec fs₂).2 ∧
        AgreeOn role ((progT mk W de cutoff r a).exec fs₁).1 ((progT mk W de cutoff r a).exec fs₂).1) := by
  rw [progT_eq_prog mk W de cutoff hW r a ht]
  exact ⟨fun fs p hp => exec_frame role _ (tidy_prog role W r a ha).1 fs p hp,
    fun fs₁ fs₂ h => exec_agree role _ (tidy_prog role W r a ha).1 fs₁ fs₂ h⟩

theorem map_progT {Q : Type} (mk : Py.Str → Py.Str → Py.Str → Py.Str) (W : Work Py.Str ZoneZ R)
    (de : Q → Routine → List Py.Str → Except Py.Err ZoneZ) (cutoff : Q) (hW : WorkIs W (de cutoff)) (calls : List (Routine × Args Py.Str))
    (ht : ∀ c ∈ calls, TmpIsMkstemp mk c.2) :
    calls.map (fun c => progT mk W de cutoff c.1 c.2) = calls.map (fun c => (prog W c.1 c.2 : Spec.C16.Prog Py.Str Py.Str R)) :=
  List.map_congr_left (fun c hc => progT_eq_prog mk W de cutoff hW c.1 c.2 (ht c hc))

/-- **noninterference of the translated programs** — any number of calls in one directory, the fast score routines TRANSLATED and
    sharing one zone file, every schedule -/
theorem genf_noninterference {Q : Type} (mk : Py.Str → Py.Str → Py.Str → Py.Str) (W : Work Py.Str ZoneZ R)
    (de : Q → Routine → List Py.Str → Except Py.Err ZoneZ) (cutoff : Q) (hW : WorkIs W (de cutoff))
    (fs₀ : FS Py.Str Py.Str) (isInput : Py.Str → Prop) (ref cache : Py.Str) (zr : Routine) (calls : List (Routine × Args Py.Str))
    (h : SharedZoneRun W fs₀ isInput ref cache zr calls) (ht : ∀ c ∈ calls, TmpIsMkstemp mk c.2) :
    Noninterfering fs₀ (calls.map (fun c => progT mk W de cutoff c.1 c.2)) := by
  rw [map_progT mk W de cutoff hW calls ht]
  exact mix_noninterfering W fs₀ isInput ref cache zr calls h

/-- the same spelled out: every schedule, every task that has finished has exactly the outcome of ITS OWN (translated) solo run -/
theorem genf_noninterference_every_schedule {Q : Type} (mk : Py.Str → Py.Str → Py.Str → Py.Str) (W : Work Py.Str ZoneZ R)
    (de : Q → Routine → List Py.Str → Except Py.Err ZoneZ) (cutoff : Q) (hW : WorkIs W (de cutoff))
    (fs₀ : FS Py.Str Py.Str) (isInput : Py.Str → Prop) (ref cache : Py.Str) (zr : Routine) (calls : List (Routine × Args Py.Str))
    (h : SharedZoneRun W fs₀ isInput ref cache zr calls) (ht : ∀ c ∈ calls, TmpIsMkstemp mk c.2)
    (sched : List Nat) (i : Nat) (c : Routine × Args Py.Str) (hc : calls[i]? = some c) (o : Outcome R)
    (ho : (Sys.run ⟨fs₀, calls.map (fun c => progT mk W de cutoff c.1 c.2)⟩ sched).outcome i = some o) :
    o = ((progT mk W de cutoff c.1 c.2).exec fs₀).2 := by
  obtain ⟨t, ht', hot⟩ := genf_noninterference mk W de cutoff hW fs₀ isInput ref cache zr calls h ht sched i o ho
  simp only [List.getElem?_map, hc, Option.map_some, Option.some.injEq] at ht'
  rw [hot, ← ht']

end
end Proofs.GenFx
