/-
  `GenC.get_contact_residues` (Gen/Contacts.lean) = `Model.contactResidueSets` / `Model.contactResiduePairs`, for every table and
  argument combination.

  return_contact_pairs=True: the translated dictionary holds Python sets (distinct elements in order of first insertion) where the
  model keeps the list of insertions; the loop over `atom_pairs.items()` is proved to SIMULATE `Model.residuePairStep` through
  `dd` (entry-wise `distinctFirst`, same keys in the same order, same IndexError when a key atom does not exist), and the final loop
  `for k in d.keys(): d[k] = sorted(d[k])` is entry-wise `sorted` because the keys are distinct — so the RETURNED values are equal.
  return_contact_pairs=False: the loop over `contact_atoms.keys()` rebuilds the dictionary entry by entry; equal to the model's
  `map` because the keys of what `get_contact_atoms` returns are distinct (`contactRun_keys_nodup`).
  `Rt.asLeft / asRight` (the projection of the two-type return value of `get_contact_atoms`) never fails.
-/
import PdbVerif.Proofs.GenContactsAtoms

set_option linter.unusedVariables false
set_option linter.unusedSimpArgs false
set_option linter.unusedSectionVars false

namespace Proofs.GenContacts
open Model Proofs.Contacts

/-! ### more about dictionaries -/

section dict
variable {κ ν : Type} [DecidableEq κ]

theorem get?_append_of_not_mem {pre : List (κ × ν)} {k : κ} (h : k ∉ Model.Dict.keys pre) (suf : List (κ × ν)) :
    Model.Dict.get? (pre ++ suf) k = Model.Dict.get? suf k := by
  induction pre with
  | nil => rfl
  | cons e pre ih =>
    obtain ⟨k', v'⟩ := e
    simp only [Model.Dict.keys, List.map_cons, List.mem_cons, not_or] at h
    have h1 : ¬ k' = k := fun e => h.1 e.symm
    simp only [List.cons_append, Model.Dict.get?, h1, if_false]
    exact ih h.2

theorem set_append_of_not_mem {pre : List (κ × ν)} {k : κ} (h : k ∉ Model.Dict.keys pre) (suf : List (κ × ν)) (v : ν) :
    Model.Dict.set (pre ++ suf) k v = pre ++ Model.Dict.set suf k v := by
  induction pre with
  | nil => rfl
  | cons e pre ih =>
    obtain ⟨k', v'⟩ := e
    simp only [Model.Dict.keys, List.map_cons, List.mem_cons, not_or] at h
    have h1 : ¬ k' = k := fun e => h.1 e.symm
    simp only [List.cons_append, Model.Dict.set, h1, if_false]
    rw [ih h.2]

theorem keys_set_of_mem {d : List (κ × ν)} {k : κ} (h : k ∈ Model.Dict.keys d) (v : ν) :
    Model.Dict.keys (Model.Dict.set d k v) = Model.Dict.keys d := by
  induction d with
  | nil => simp [Model.Dict.keys] at h
  | cons e d ih =>
    obtain ⟨k', v'⟩ := e
    by_cases h0 : k' = k
    · simp [Model.Dict.set, Model.Dict.keys, h0]
    · have hk : k ∈ Model.Dict.keys d := by
        simp only [Model.Dict.keys, List.map_cons, List.mem_cons] at h
        rcases h with h | h
        · exact absurd h.symm h0
        · exact h
      have := ih hk
      simp only [Model.Dict.keys] at this
      simp [Model.Dict.set, Model.Dict.keys, h0, this]

theorem getD_set_self (d : List (κ × List ν)) (k : κ) (v : List ν) :
    Model.Dict.getD (Model.Dict.set d k v) k = v := by
  induction d with
  | nil => simp [Model.Dict.set, Model.Dict.getD]
  | cons e d ih =>
    obtain ⟨k', v'⟩ := e
    by_cases h0 : k' = k <;> simp [Model.Dict.set, Model.Dict.getD, h0, ih]

theorem set_set (d : List (κ × ν)) (k : κ) (v w : ν) :
    Model.Dict.set (Model.Dict.set d k v) k w = Model.Dict.set d k w := by
  induction d with
  | nil => simp [Model.Dict.set]
  | cons e d ih =>
    obtain ⟨k', v'⟩ := e
    by_cases h0 : k' = k <;> simp [Model.Dict.set, h0, ih]

theorem keys_setDefault_nodup {d : List (κ × ν)} (h : (Model.Dict.keys d).Nodup) (k : κ) (v : ν) :
    (Model.Dict.keys (Model.Dict.setDefault d k v)).Nodup := by
  unfold Model.Dict.setDefault
  by_cases hc : Model.Dict.contains d k = true
  · rw [if_pos hc]; exact h
  · have hk : k ∉ Model.Dict.keys d := fun hk => hc (contains_iff.mpr hk)
    rw [if_neg hc]
    show (List.map (fun e => e.1) (d ++ [(k, v)])).Nodup
    rw [List.map_append]
    refine List.nodup_append.mpr ⟨h, (by simp), ?_⟩
    intro a ha b hb
    simp at hb
    subst hb
    intro e
    subst e
    exact hk ha

/-- `for k in d.keys(): d[k] = F(d[k])` on a dictionary whose keys are distinct -/
theorem foldlM_update_values (F : ν → ν) :
    ∀ (suf pre : List (κ × ν)), (Model.Dict.keys (pre ++ suf)).Nodup →
      (Model.Dict.keys suf).foldlM (fun acc k => Py.Dict.getItem acc k >>= fun v => Except.ok (Model.Dict.set acc k (F v)))
          (pre.map (fun e => (e.1, F e.2)) ++ suf) = .ok ((pre ++ suf).map (fun e => (e.1, F e.2))) := by
  intro suf
  induction suf with
  | nil => intro pre _; simp [Model.Dict.keys]; rfl
  | cons e suf ih =>
    intro pre hnd
    obtain ⟨k, v⟩ := e
    have hk : k ∉ Model.Dict.keys (pre.map (fun e => (e.1, F e.2))) := by
      simp only [Model.Dict.keys, List.map_append, List.map_cons, List.map_map] at hnd ⊢
      have := (List.nodup_append.mp hnd).2.2
      intro hm
      exact this k (by simpa [Function.comp_def] using hm) k (List.mem_cons_self ..) rfl
    have hget : Py.Dict.getItem (pre.map (fun e => (e.1, F e.2)) ++ (k, v) :: suf) k = .ok v :=
      getItem_some (by rw [get?_append_of_not_mem hk]; simp [Model.Dict.get?])
    simp only [Model.Dict.keys, List.map_cons, List.foldlM_cons, hget, ok_bind]
    rw [set_append_of_not_mem hk]
    simp only [Model.Dict.set, if_true]
    have := ih (pre ++ [(k, v)]) (by simpa using hnd)
    simp only [List.map_append, List.map_cons, List.map_nil, List.append_assoc, List.cons_append, List.nil_append, Model.Dict.keys] at this
    simpa using this

end dict

/-! ### loops that simulate a loop of the model on related states -/

theorem foldlM_sim {σ σ' α : Type} (φ : σ' → σ) (f : σ → α → Except Py.Err σ) (f' : σ' → α → Except Py.Err σ') :
    ∀ (xs : List α) (init' : σ'), (∀ acc' x, x ∈ xs → f (φ acc') x = (f' acc' x).map φ) →
      xs.foldlM f (φ init') = (xs.foldlM f' init').map φ := by
  intro xs
  induction xs with
  | nil => intro _ _; rfl
  | cons x xs ih =>
    intro init' h
    simp only [List.foldlM_cons, h init' x (List.mem_cons_self ..)]
    cases f' init' x with
    | error e => rfl
    | ok s => exact ih s (fun acc' y hy => h acc' y (List.mem_cons_of_mem _ hy))

theorem foldlM_bind_sim {σ σ' α β : Type} {f : σ → α → Except Py.Err σ} {xs : List α} {init : σ} {k : σ → Except Py.Err β}
    {rhs : Except Py.Err β} (φ : σ' → σ) (f' : σ' → α → Except Py.Err σ') (init' : σ') (h0 : init = φ init')
    (hstep : ∀ acc' x, x ∈ xs → f (φ acc') x = (f' acc' x).map φ)
    (hk : ((xs.foldlM f' init').map φ >>= k) = rhs) : (xs.foldlM f init >>= k) = rhs := by
  rw [h0, foldlM_sim φ f f' xs init' hstep]; exact hk

/-! ### the per-chain dictionary returned by `get_contact_atoms` has distinct keys -/

theorem mapChains_keys (f : List Nat → List Nat) (ks : List Py.Str) :
    ∀ (d d' : List (Py.Str × List Nat)), mapChains f ks d = .ok d' → Model.Dict.keys d' = Model.Dict.keys d := by
  induction ks with
  | nil => intro d d' h; simp only [mapChains, List.foldlM_nil, pure_eq_ok, Except.ok.injEq] at h; rw [h]
  | cons k ks ih =>
    intro d d' h
    simp only [mapChains, List.foldlM_cons] at h
    cases hg : Model.Dict.get? d k with
    | none => rw [hg] at h; exact absurd h (by simp [throw_eq_error, error_bind])
    | some l =>
      rw [hg] at h
      have hk : k ∈ Model.Dict.keys d := by
        by_cases hk : k ∈ Model.Dict.keys d
        · exact hk
        · rw [get?_none hk] at hg; exact absurd hg (by simp)
      simp only [pure_eq_ok, ok_bind] at h
      rw [ih _ _ h, keys_set_of_mem hk]

theorem contactRun_keys_nodup {t : List Py.Atom} {a : ContactArgs} {r : List (Py.Str × List Nat) × List (Nat × List Nat)}
    (h : contactRun t a = .ok r) : (Model.Dict.keys r.1).Nodup := by
  rw [contactRun_eq] at h
  split at h
  · exact absurd h (by simp)
  · cases h1 : mapChains (sortedSet ltNat) (callChains t a) (icAfterLoop t a) with
    | error e => rw [h1] at h; exact absurd h (by simp [Except.bind])
    | ok ic =>
      rw [h1] at h
      have k1 := mapChains_keys _ _ _ _ h1
      cases hext : a.extend with
      | false =>
        simp only [hext, Except.bind, Bool.false_eq_true, if_false, Except.ok.injEq] at h
        rw [← h, k1]; exact nodup_keys_icAfterLoop t a
      | true =>
        simp only [hext, Except.bind, if_true] at h
        cases h2 : mapChains (fun l => extendToResidue t l a.bb) (callChains t a) ic with
        | error e => rw [h2] at h; exact absurd h (by simp)
        | ok ic2 =>
          rw [h2] at h
          simp only [Except.ok.injEq] at h
          rw [← h, mapChains_keys _ _ _ _ h2, k1]; exact nodup_keys_icAfterLoop t a

theorem getItem_set_self {κ ν : Type} [DecidableEq κ] (d : List (κ × ν)) (k : κ) (v : ν) :
    Py.Dict.getItem (Model.Dict.set d k v) k = .ok v := by
  have := getItem_setItem d k k v
  simpa [setItem_eq] using this

theorem foldl_pair_snd {α σ τ : Type} (A : σ → α → σ) (B : τ → α → τ) (xs : List α) (a : σ) (b : τ) :
    (xs.foldl (fun acc x => (A acc.1 x, B acc.2 x)) (a, b)).2 = xs.foldl B b := by
  induction xs generalizing a b with
  | nil => rfl
  | cons x xs ih => simp only [List.foldl_cons, ih]

theorem foldl_set_fresh {κ μ : Type} [DecidableEq κ] (G : κ → μ) (ks : List κ) :
    ∀ pre : List (κ × μ), (Model.Dict.keys pre ++ ks).Nodup →
      ks.foldl (fun acc k => Model.Dict.set acc k (G k)) pre = pre ++ ks.map (fun k => (k, G k)) := by
  induction ks with
  | nil => intro pre _; simp
  | cons k ks ih =>
    intro pre h
    have hk : k ∉ Model.Dict.keys pre := by
      intro hm
      have := (List.nodup_append.mp h).2.2 k hm k (List.mem_cons_self ..)
      exact this rfl
    have hset : Model.Dict.set pre k (G k) = pre ++ [(k, G k)] := by
      have := set_append_of_not_mem hk [] (G k)
      simpa [Model.Dict.set] using this
    simp only [List.foldl_cons, hset]
    rw [ih (pre ++ [(k, G k)]) (by simpa [Model.Dict.keys] using h)]
    simp

/-! ### `get_contact_residues` -/

/-- `get_contact_atoms` with its arguments spelled out (the form in which `get_contact_residues` calls it) -/
theorem get_contact_atoms_eq_model' (ord : List (Py.Str × Py.Str × Int) → List (Py.Str × Py.Str × Int)) (hord : ∀ l x, x ∈ ord l ↔ x ∈ l)
    (t : List Py.Atom) (cutoff : Rat) (allchains : Bool) (c1 c2 : Py.Str) (ext bb noH rp : Bool) :
    GenC.get_contact_atoms ord t cutoff allchains c1 c2 ext bb noH rp =
      (Model.contactAtoms t ⟨cutoff, allchains, c1, c2, ext, bb, noH, rp⟩).map outSum :=
  get_contact_atoms_eq_model ord hord t ⟨cutoff, allchains, c1, c2, ext, bb, noH, rp⟩

/-! ### the pair dictionary of `get_contact_residues`: sets against insertion lists -/

theorem setAdd_distinctFirst {α : Type} [DecidableEq α] (l : List α) (x : α) :
    Py.Rt.setAdd (distinctFirst l) x = distinctFirst (l ++ [x]) := by
  rw [distinctFirst_append_singleton]
  simp only [Py.Rt.setAdd, mem_distinctFirst]

theorem foldl_setAdd {α : Type} [DecidableEq α] (xs l : List α) :
    xs.foldl Py.Rt.setAdd (distinctFirst l) = distinctFirst (l ++ xs) := by
  induction xs generalizing l with
  | nil => simp
  | cons x xs ih => simp only [List.foldl_cons, setAdd_distinctFirst, ih, List.append_assoc, List.cons_append, List.nil_append]

theorem sorted_distinctFirst_res (l : List ResKey) : Py.Rt.sorted (distinctFirst l) = sortedSet ltRes l := by
  rw [← set_eq, sorted_set_res]

/-- the translated pair dictionary holds sets (distinct elements, first insertion first) where the model keeps the insertions -/
def dd (M : List (ResKey × List ResKey)) : List (ResKey × List ResKey) := M.map (fun e => (e.1, distinctFirst e.2))

theorem keys_dd (M : List (ResKey × List ResKey)) : Model.Dict.keys (dd M) = Model.Dict.keys M := by
  simp [dd, Model.Dict.keys, List.map_map, Function.comp_def]

theorem contains_dd (M : List (ResKey × List ResKey)) (k : ResKey) : Model.Dict.contains (dd M) k = Model.Dict.contains M k := by
  induction M with
  | nil => rfl
  | cons e M ih => obtain ⟨k', v'⟩ := e; simp only [dd, List.map_cons, Model.Dict.contains]; simp only [dd] at ih; rw [ih]

theorem getD_dd (M : List (ResKey × List ResKey)) (k : ResKey) : Model.Dict.getD (dd M) k = distinctFirst (Model.Dict.getD M k) := by
  induction M with
  | nil => rfl
  | cons e M ih =>
    obtain ⟨k', v'⟩ := e
    simp only [dd, List.map_cons, Model.Dict.getD]
    simp only [dd] at ih
    by_cases h : k' = k <;> simp [h, ih]

theorem setDefault_dd (M : List (ResKey × List ResKey)) (k : ResKey) :
    Model.Dict.setDefault (dd M) k [] = dd (Model.Dict.setDefault M k []) := by
  unfold Model.Dict.setDefault
  rw [contains_dd]
  by_cases hc : Model.Dict.contains M k = true
  · simp [hc]
  · simp [hc, dd, distinctFirst]

theorem dd_extend {M : List (ResKey × List ResKey)} {k : ResKey} (h : k ∈ Model.Dict.keys M) (xs : List ResKey) :
    dd (Model.Dict.extend M k xs) = Model.Dict.set (dd M) k (distinctFirst (Model.Dict.getD M k ++ xs)) := by
  induction M with
  | nil => simp [Model.Dict.keys] at h
  | cons e M ih =>
    obtain ⟨k', v'⟩ := e
    by_cases h0 : k' = k
    · simp [dd, Model.Dict.extend, Model.Dict.set, Model.Dict.getD, h0]
    · have hk : k ∈ Model.Dict.keys M := by
        simp only [Model.Dict.keys, List.map_cons, List.mem_cons] at h
        rcases h with h | h
        · exact absurd h.symm h0
        · exact h
      have := ih hk
      simp only [dd] at this
      simp [dd, Model.Dict.extend, Model.Dict.set, Model.Dict.getD, h0, this]

/-- one pass of `for iat1, atoms2 in atom_pairs.items()` on the set-valued dictionary = the model's pass on the insertion lists -/
theorem pair_step_dd (M : List (ResKey × List ResKey)) (k : ResKey) (xs : List ResKey) :
    Model.Dict.set (Model.Dict.setDefault (dd M) k []) k (xs.foldl Py.Rt.setAdd (Model.Dict.getD (Model.Dict.setDefault (dd M) k []) k)) =
      dd (Model.Dict.extend (Model.Dict.setDefault M k []) k xs) := by
  have hk : k ∈ Model.Dict.keys (Model.Dict.setDefault M k []) := (mem_keys_setDefault M k k []).mpr (Or.inl rfl)
  rw [setDefault_dd, getD_dd, foldl_setAdd, dd_extend hk]

theorem set_getD_self {κ ν : Type} [DecidableEq κ] {d : List (κ × List ν)} {k : κ} (h : k ∈ Model.Dict.keys d) :
    Model.Dict.set d k (Model.Dict.getD d k) = d := by
  induction d with
  | nil => simp [Model.Dict.keys] at h
  | cons e d ih =>
    obtain ⟨k', v'⟩ := e
    by_cases h0 : k' = k
    · simp [Model.Dict.set, Model.Dict.getD, h0]
    · have hk : k ∈ Model.Dict.keys d := by
        simp only [Model.Dict.keys, List.map_cons, List.mem_cons] at h
        rcases h with h | h
        · exact absurd h.symm h0
        · exact h
      simp [Model.Dict.set, Model.Dict.getD, h0, ih hk]

theorem foldl_set_setAdd {κ α : Type} [DecidableEq κ] [DecidableEq α] (k : κ) (xs : List α) :
    ∀ d : List (κ × List α), k ∈ Model.Dict.keys d →
      xs.foldl (fun acc x => Model.Dict.set acc k (Py.Rt.setAdd (Model.Dict.getD acc k) x)) d =
        Model.Dict.set d k (xs.foldl Py.Rt.setAdd (Model.Dict.getD d k)) := by
  induction xs with
  | nil => intro d h; simp only [List.foldl_nil, set_getD_self h]
  | cons x xs ih =>
    intro d h
    simp only [List.foldl_cons]
    rw [ih _ ((mem_keys_set d k k _).mpr (Or.inl rfl)), getD_set_self, set_set]

theorem select_rowsAt (t : List Py.Atom) (S : List Nat) :
    Py.Tbl.select t (fun r => decide (r.2 ∈ S)) (fun r => (r.1.chainID, r.1.resSeq, r.1.resName)) = (rowsAt t S).map (fun r => resKey r.1) := by
  simp only [Py.Tbl.select, rowsAt, List.contains_eq_mem]
  rfl

theorem residuePairStep_nodup {t : List Py.Atom} {M M' : List (ResKey × List ResKey)} {e : Nat × List Nat}
    (h : (Model.Dict.keys M).Nodup) (hs : residuePairStep t M e = .ok M') : (Model.Dict.keys M').Nodup := by
  unfold residuePairStep at hs
  split at hs
  · exact absurd hs (by simp [throw_eq_error])
  · simp only [pure_eq_ok, Except.ok.injEq] at hs
    subst hs
    exact nodup_keys_extend (keys_setDefault_nodup h _ _) _ _

theorem foldlM_residuePairStep_nodup {t : List Py.Atom} (m : List (Nat × List Nat)) :
    ∀ (M M' : List (ResKey × List ResKey)), (Model.Dict.keys M).Nodup → m.foldlM (residuePairStep t) M = .ok M' →
      (Model.Dict.keys M').Nodup := by
  induction m with
  | nil => intro M M' h hs; simp only [List.foldlM_nil, pure_eq_ok, Except.ok.injEq] at hs; exact hs ▸ h
  | cons e m ih =>
    intro M M' h hs
    simp only [List.foldlM_cons] at hs
    cases h1 : residuePairStep t M e with
    | error err => rw [h1] at hs; exact absurd hs (by simp [error_bind])
    | ok M1 => rw [h1] at hs; exact ih M1 M' (residuePairStep_nodup h h1) hs

theorem get_contact_residues_eq_model (ord : List (Py.Str × Py.Str × Int) → List (Py.Str × Py.Str × Int)) (hord : ∀ l x, x ∈ ord l ↔ x ∈ l)
    (t : List Py.Atom) (a : ContactArgs) :
    GenC.get_contact_residues ord t a.cutoff a.allchains a.chain1 a.chain2 a.noH a.bb a.retPairs =
      if a.retPairs then (Model.contactResiduePairs t a).map Sum.inl else (Model.contactResidueSets t a).map Sum.inr := by
  obtain ⟨cutoff, allchains, c1, c2, ext, bb, noH, rp⟩ := a
  unfold GenC.get_contact_residues
  cases rp
  · simp only [Bool.false_eq_true, if_false, get_contact_atoms_eq_model' ord hord, Model.contactResidueSets, Model.contactSets, Model.contactAtoms, residueArgs]
    cases hrun : contactRun t ⟨cutoff, allchains, c1, c2, false, bb, noH, false⟩ with
    | error e => rfl
    | ok r =>
      simp only [map_ok, Bool.false_eq_true, if_false, outSum, ok_bind, Py.Rt.asRight, select_rowsAt]
      have hnd := contactRun_keys_nodup hrun
      rw [keys_eq]
      refine foldlM_bind_ok
        (fun acc k => (Model.Dict.set acc.1 k ((rowsAt t (Model.Dict.getD r.1 k)).map (fun r => resKey r.1)),
                       Model.Dict.set acc.2 k (sortedSet ltRes ((rowsAt t (Model.Dict.getD r.1 k)).map (fun r => resKey r.1)))))
        (fun _ => True) trivial ?_ ?_
      · intro acc k _ hk
        refine ⟨?_, trivial⟩
        simp only [getItem_of_mem hk, ok_bind, setItem_eq, getItem_set_self, sorted_set_res, pure_eq_ok]
      · intro _
        rw [foldl_pair_snd (fun (d : List (Py.Str × List ResKey)) k => Model.Dict.set d k ((rowsAt t (Model.Dict.getD r.1 k)).map (fun r => resKey r.1)))
          (fun (d : List (Py.Str × List ResKey)) k => Model.Dict.set d k (sortedSet ltRes ((rowsAt t (Model.Dict.getD r.1 k)).map (fun r => resKey r.1))))]
        rw [show (Py.Dict.empty : Py.Dict Py.Str (List ResKey)) = [] from rfl,
          foldl_set_fresh (fun k => sortedSet ltRes ((rowsAt t (Model.Dict.getD r.1 k)).map (fun r => resKey r.1))) _ []
            (by simpa [Model.Dict.keys] using hnd)]
        simp only [List.nil_append, pure_eq_ok, map_ok]
        refine congrArg (fun x => Except.ok (Sum.inr x)) ?_
        conv => rhs; rw [eq_map_keys r.1 hnd]
        simp only [List.map_map, Function.comp_def]
  · simp only [if_true, get_contact_atoms_eq_model' ord hord, Model.contactResiduePairs, Model.contactPairs, Model.contactAtoms, residueArgs]
    cases hrun : contactRun t ⟨cutoff, allchains, c1, c2, false, bb, noH, true⟩ with
    | error e => rfl
    | ok r =>
      simp only [map_ok, if_true, outSum, ok_bind, Py.Rt.asLeft]
      simp only [Py.Dict.items, select_rowsAt]
      refine foldlM_bind_sim dd (residuePairStep t) [] rfl ?_ ?_
      · intro M e _
        unfold residuePairStep
        cases hrows : rowsAt t [e.1] with
        | nil => rfl
        | cons r0 rs =>
          simp only [List.map_cons, Py.Rt.getItem, List.getElem?_cons_zero, ok_bind, contains_eq, setItem_eq, Py.Rt.emptySet,
            set_if_absent, pure_eq_ok]
          have hk0 : resKey r0.1 ∈ Model.Dict.keys (Model.Dict.setDefault (dd M) (resKey r0.1) []) :=
            (mem_keys_setDefault _ _ _ _).mpr (Or.inl rfl)
          rw [(foldlM_ok_of_inv _ (fun acc x => Model.Dict.set acc (resKey r0.1) (Py.Rt.setAdd (Model.Dict.getD acc (resKey r0.1)) x))
            (fun acc => resKey r0.1 ∈ Model.Dict.keys acc) _ _ hk0 ?_).1]
          · rw [foldl_set_setAdd _ _ _ hk0, pair_step_dd]
            rfl
          · intro acc x hacc _
            exact ⟨by simp only [getItem_of_mem hacc, ok_bind], (mem_keys_set _ _ _ _).mpr (Or.inr hacc)⟩
      · cases hfold : List.foldlM (residuePairStep t) [] r.2 with
        | error e => rfl
        | ok M =>
          have hnd := foldlM_residuePairStep_nodup r.2 [] M (by simp [Model.Dict.keys]) hfold
          have hupd := foldlM_update_values (κ := ResKey) Py.Rt.sorted (dd M) [] (by simpa [keys_dd] using hnd)
          simp only [List.map_nil, List.nil_append] at hupd
          simp only [map_ok, ok_bind, pure_eq_ok, setItem_eq, keys_eq, hupd]
          simp only [dd, List.map_map, Function.comp_def, sorted_distinctFirst_res]

end Proofs.GenContacts
