/-
  Helper lemmas for C07 / C11 (cluster E), part 3: pairing by identity.  A list of pairs that joins records of the same
  identity, uses no identity twice and covers the selected identities is the definition's list up to order; the
  filter / sort-by-key / zip pipeline of the fast routines produces such a list.  Helper lemmas only.
-/
import Mathlib.Data.List.Nodup
import PdbVerif.Proofs.RmsdZone
import PdbVerif.Model.RmsdFast
import PdbVerif.Model.RmsdSql
set_option linter.unusedVariables false
set_option linter.unusedSimpArgs false
set_option linter.unusedSectionVars false
namespace Proofs.Rmsd
open Model Model.Rmsd Py Proofs.Contacts

/-- the Spec's view of a pair of the model: (identity of the reference record, decoy coordinates, reference coordinates) -/
def idPair (p : Pair) : Spec.Rmsd.IdPair := (p.2.1, p.1.2, p.2.2)

theorem key_eq (a : Atom) : Spec.Rmsd.key a = keyOf a := rfl
theorem pos_eq (a : Atom) : Spec.Rmsd.pos a = posOf a := rfl

/-! ### uniqueness of identities -/

theorem nodupKeys_iff (l : List Key) : Spec.Rmsd.nodupKeys l = true ↔ l.Nodup := by
  induction l with
  | nil => simp [Spec.Rmsd.nodupKeys]
  | cons k ks ih => simp [Spec.Rmsd.nodupKeys, ih]

/-- with unique identities, the record of a given identity is determined -/
theorem eq_of_key_eq {t : List Atom} (h : (t.map keyOf).Nodup) {a b : Atom} (ha : a ∈ t) (hb : b ∈ t)
    (hk : keyOf a = keyOf b) : a = b :=
  List.inj_on_of_nodup_map h ha hb hk

theorem atomWith_eq_some {t : List Atom} (h : (t.map keyOf).Nodup) {k : Key} {a : Atom} :
    Spec.Rmsd.atomWith t k = some a ↔ a ∈ t ∧ keyOf a = k := by
  unfold Spec.Rmsd.atomWith
  constructor
  · intro hf
    have h1 := List.find?_some hf
    have h2 := List.mem_of_find?_eq_some hf
    exact ⟨h2, by simpa [key_eq] using of_decide_eq_true h1⟩
  · rintro ⟨ha, hk⟩
    cases hf : t.find? (fun a => decide (Spec.Rmsd.key a = k)) with
    | none =>
      have := List.find?_eq_none.mp hf a ha
      simp [key_eq, hk] at this
    | some b =>
      have h1 := List.find?_some hf
      have h2 := List.mem_of_find?_eq_some hf
      have : keyOf b = keyOf a := by rw [hk]; simpa [key_eq] using of_decide_eq_true h1
      rw [eq_of_key_eq h h2 ha this]

theorem find_key_eq_some {t : List Atom} (h : (t.map keyOf).Nodup) {k : Key} {a : Atom} :
    t.find? (fun a => decide (keyOf a = k)) = some a ↔ a ∈ t ∧ keyOf a = k :=
  atomWith_eq_some h

/-! ### the pairs of the definition -/

theorem commonBackbone_keys_sublist (dec ref : List Atom) (sel : Atom → Bool) :
    ((Spec.Rmsd.commonBackbone dec ref sel).map (·.1)).Sublist (ref.map keyOf) := by
  unfold Spec.Rmsd.commonBackbone
  induction ref with
  | nil => simp
  | cons r rs ih =>
    rw [List.filterMap_cons]
    split
    · rename_i hnone
      exact List.Sublist.cons _ ih
    · rename_i b hsome
      simp only [List.map_cons]
      have : b.1 = keyOf r := by
        split at hsome
        · cases hd : Spec.Rmsd.atomWith dec (Spec.Rmsd.key r) with
          | none => simp [hd] at hsome
          | some d => simp [hd] at hsome; rw [← hsome]; rfl
        · cases hsome
      rw [this]
      exact List.Sublist.cons_cons _ ih

/-- **Pairing by identity.**  A list of pairs that (1) joins records of decoy and reference of the same identity,
    (2) uses no identity twice and (3) covers exactly the selected identities present in both structures is, up to
    order, the list of the definition. -/
theorem pairs_perm_spec {dec ref : List Atom} (hd : (dec.map keyOf).Nodup) (hr : (ref.map keyOf).Nodup)
    (sel : Atom → Bool) (S : Key → Bool) (hS : ∀ r ∈ ref, (Spec.Rmsd.isBackbone r && sel r) = S (keyOf r))
    (out : List Pair)
    (h1 : ∀ p ∈ out, p.1 ∈ dec.map ptOf ∧ p.2 ∈ ref.map ptOf ∧ p.1.1 = p.2.1)
    (h2 : (out.map (·.2.1)).Nodup)
    (h3 : ∀ k, k ∈ out.map (·.2.1) ↔ (S k = true ∧ k ∈ dec.map keyOf ∧ k ∈ ref.map keyOf)) :
    (out.map idPair).Perm (Spec.Rmsd.commonBackbone dec ref sel) := by
  have hn1 : (out.map idPair).Nodup := by
    apply List.Nodup.of_map (·.1)
    rw [List.map_map]
    exact h2
  have hn2 : (Spec.Rmsd.commonBackbone dec ref sel).Nodup :=
    List.Nodup.of_map (·.1) ((commonBackbone_keys_sublist dec ref sel).nodup hr)
  rw [List.perm_ext_iff_of_nodup hn1 hn2]
  rintro ⟨k, pd, pr⟩
  simp only [List.mem_map, Spec.Rmsd.commonBackbone, List.mem_filterMap, idPair, Prod.mk.injEq]
  constructor
  · rintro ⟨p, hp, rfl, rfl, rfl⟩
    obtain ⟨hm1, hm2, hkk⟩ := h1 p hp
    obtain ⟨d, hd', hde⟩ := List.mem_map.mp hm1
    obtain ⟨r, hr', hre⟩ := List.mem_map.mp hm2
    have hkS := (h3 p.2.1).mp (List.mem_map.mpr ⟨p, hp, rfl⟩)
    have hkr : keyOf r = p.2.1 := by rw [← hre]; rfl
    have hkd : keyOf d = p.2.1 := by rw [← hkk, ← hde]; rfl
    refine ⟨r, hr', ?_⟩
    rw [hS r hr', hkr, hkS.1, if_pos rfl, key_eq, hkr, (atomWith_eq_some hd).mpr ⟨hd', hkd⟩]
    simp only [Option.map_some, Option.some.injEq, Prod.mk.injEq, true_and]
    rw [← hde, ← hre]; exact ⟨rfl, rfl⟩
  · rintro ⟨r, hr', hsome⟩
    split at hsome
    · rename_i hsel
      cases hw : Spec.Rmsd.atomWith dec (Spec.Rmsd.key r) with
      | none => simp [hw] at hsome
      | some d =>
        simp only [hw, Option.map_some, Option.some.injEq, Prod.mk.injEq] at hsome
        obtain ⟨rfl, rfl, rfl⟩ := hsome
        obtain ⟨hd', hkd⟩ := (atomWith_eq_some hd).mp hw
        rw [key_eq] at hkd
        have hSk : S (keyOf r) = true := by rw [← hS r hr']; exact hsel
        have hin := (h3 (keyOf r)).mpr ⟨hSk, List.mem_map.mpr ⟨d, hd', hkd⟩, List.mem_map.mpr ⟨r, hr', rfl⟩⟩
        obtain ⟨p, hp, hpk⟩ := List.mem_map.mp hin
        obtain ⟨hm1, hm2, hkk⟩ := h1 p hp
        obtain ⟨d1, hd1, hde⟩ := List.mem_map.mp hm1
        obtain ⟨r1, hr1, hre⟩ := List.mem_map.mp hm2
        have e1 : r1 = r := eq_of_key_eq hr hr1 hr' (by rw [← hpk, ← hre]; rfl)
        have e2 : d1 = d := eq_of_key_eq hd hd1 hd' (by rw [hkd, ← hpk, ← hkk, ← hde]; rfl)
        subst e1; subst e2
        refine ⟨p, hp, ?_, ?_, ?_⟩
        · rw [key_eq]; exact hpk
        · rw [← hde]; rfl
        · rw [← hre]; rfl
    · cases hsome

/-! ### the fast routines: filter by index set, sort by key, zip -/

theorem zip_keys_eq {β : Type} : ∀ (A B : List (Key × β)), A.map (·.1) = B.map (·.1) → ∀ p ∈ A.zip B, p.1.1 = p.2.1
  | [], _, _, p, hp => by simp at hp
  | _ :: _, [], h, _, _ => by simp at h
  | a :: A, b :: B, h, p, hp => by
    simp only [List.map_cons, List.cons.injEq] at h
    simp only [List.zip_cons_cons, List.mem_cons] at hp
    rcases hp with rfl | hp
    · exact h.1
    · exact zip_keys_eq A B h.2 p hp

/-- `_get_xyz(file, index)` on the records `D` -/
def pick (D : List Pt) (idx : List Key) : List Pt := sortByKey (D.filter (fun p => idx.contains p.1))

theorem pick_keys_asc {D : List Pt} (hD : (D.map (·.1)).Nodup) (idx : List Key) : Asc keyLt ((pick D idx).map (·.1)) := by
  apply asc_sortByKey
  exact (List.Sublist.map _ List.filter_sublist).nodup hD

theorem mem_pick {D : List Pt} {idx : List Key} {p : Pt} : p ∈ pick D idx ↔ p ∈ D ∧ p.1 ∈ idx := by
  simp [pick, mem_sortByKey]

theorem pick_keys_eq {D R : List Pt} (hD : (D.map (·.1)).Nodup) (hR : (R.map (·.1)).Nodup) {idx : List Key}
    (hsub : ∀ k ∈ idx, k ∈ D.map (·.1) ∧ k ∈ R.map (·.1)) : (pick D idx).map (·.1) = (pick R idx).map (·.1) := by
  apply asc_unique strictTotal_keyLt (pick_keys_asc hD idx) (pick_keys_asc hR idx)
  intro k
  simp only [List.mem_map, mem_pick]
  constructor
  · rintro ⟨p, ⟨hp, hk⟩, rfl⟩
    obtain ⟨q, hq, hqk⟩ := List.mem_map.mp (hsub _ hk).2
    exact ⟨q, ⟨hq, by rw [hqk]; exact hk⟩, hqk⟩
  · rintro ⟨p, ⟨hp, hk⟩, rfl⟩
    obtain ⟨q, hq, hqk⟩ := List.mem_map.mp (hsub _ hk).1
    exact ⟨q, ⟨hq, by rw [hqk]; exact hk⟩, hqk⟩

/-- what the fast routines hand to the kernel for one index set: the two picked lists pair up record by record
    by identity, use every identity once, and cover exactly the index set -/
theorem fast_pairs {D R : List Pt} (hD : (D.map (·.1)).Nodup) (hR : (R.map (·.1)).Nodup) {idx : List Key}
    (hsub : ∀ k ∈ idx, k ∈ D.map (·.1) ∧ k ∈ R.map (·.1)) :
    (pick D idx).length = (pick R idx).length ∧
    (∀ p ∈ (pick D idx).zip (pick R idx), p.1 ∈ D ∧ p.2 ∈ R ∧ p.1.1 = p.2.1) ∧
    (((pick D idx).zip (pick R idx)).map (·.2.1)).Nodup ∧
    (∀ k, k ∈ ((pick D idx).zip (pick R idx)).map (·.2.1) ↔ k ∈ idx) := by
  have hk := pick_keys_eq hD hR hsub
  have hlen : (pick D idx).length = (pick R idx).length := by
    have := congrArg List.length hk
    simpa using this
  have hmap : ((pick D idx).zip (pick R idx)).map (·.2.1) = (pick R idx).map (·.1) := by
    have h2 : ((pick D idx).zip (pick R idx)).map Prod.snd = pick R idx := List.map_snd_zip (by omega)
    calc ((pick D idx).zip (pick R idx)).map (·.2.1)
        = (((pick D idx).zip (pick R idx)).map Prod.snd).map (·.1) := by rw [List.map_map]; rfl
      _ = (pick R idx).map (·.1) := by rw [h2]
  refine ⟨hlen, ?_, ?_, ?_⟩
  · intro p hp
    have := List.of_mem_zip (a := p.1) (b := p.2) hp
    exact ⟨(mem_pick.mp this.1).1, (mem_pick.mp this.2).1, zip_keys_eq _ _ hk p hp⟩
  · rw [hmap]; exact asc_nodup strictTotal_keyLt (pick_keys_asc hR idx)
  · intro k
    rw [hmap]
    simp only [List.mem_map, mem_pick]
    constructor
    · rintro ⟨p, ⟨_, hk'⟩, rfl⟩; exact hk'
    · intro hk'
      obtain ⟨q, hq, hqk⟩ := List.mem_map.mp (hsub _ hk').2
      exact ⟨q, ⟨hq, by rw [hqk]; exact hk'⟩, hqk⟩

end Proofs.Rmsd
