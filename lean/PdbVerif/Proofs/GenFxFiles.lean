/-
  C16 / C02 — the TRANSLATED file-handling code (Gen/Fx.lean), interpreted as effect programs of `Spec.C16` (`toC16`,
  Proofs/GenFxSem.lean), IS the hand model of Model/Effects.lean:

    `_write_zone`                      = `Model.C16.writeZone`  (temp file in the target's directory, one append, one replace)
    file part of `read_zone`           = `Model.C16.readZone`
    zone branches of the fast routines = `Model.C16.zoneArg` / `withZone`   (callee programs as hypotheses, and glued)
    `get_izone_rowID`'s file part      = the `isFile … readZone … else FileNotFoundError` of `prog .irmsdSql`
    `exportpdb(append=False)`, pickle  = `Model.C16.writeFile`
    export branches                    = `Model.C16.export2`

  and the text `exportpdb` leaves in the file is `Model.exportText` / `Model.appendText` of the lines of `sql2pdb`
  = `Model.data2pdb` of the rows `get` returns (C02).
-/
import PdbVerif.Proofs.GenFx
import PdbVerif.Proofs.EffectsZoneFiles
import PdbVerif.Model.Export

set_option linter.unusedVariables false
set_option linter.unusedSimpArgs false
set_option linter.unusedSectionVars false

namespace Proofs.GenFx
open Py Py.Fx Spec.C16 Model.C16
open Proofs.Effects (ZoneZ renderZone)

section
variable {P C R : Type} [DecidableEq P] {α : Type}

theorem FS.set_set (b : FS P C) (p : P) (u v : Option (List C)) : (b.set p u).set p v = b.set p v := by
  funext q; simp only [FS.set]; split <;> rfl

theorem FS.set_self (b : FS P C) (p : P) (v : Option (List C)) (h : b p = v) : b.set p v = b := by
  funext q; simp only [FS.set]; split <;> simp_all

/-- the writes of one open file go into its buffer -/
theorem toC16_writes (mk : P → Py.Str → Py.Str → P) (p : P) (cs : List C) (rest : Unit → Fx.Prog P C α) (b : Bufs P C) (old : List C)
    (hb : b p = some old) (k : α → Bufs P C → Spec.C16.Prog P C R) :
    toC16 mk ((writes p cs).bind rest) b k = toC16 mk (rest ()) (b.set p (some (old ++ cs))) k := by
  induction cs generalizing b old with
  | nil => simp [writes, Fx.Prog.bind, FS.set_self b p _ hb]
  | cons c cs ih =>
    simp only [writes, Fx.Prog.bind, toC16]
    have hw : Bufs.write b p c = b.set p (some (old ++ [c])) := by simp [Bufs.write, hb]
    rw [hw, ih (b.set p (some (old ++ [c]))) (old ++ [c]) (by simp), FS.set_set]
    simp

theorem writes_finally (p : P) (cs : List C) (fin : Fx.Prog P C Unit) :
    (writes p cs).finally_ fin = (writes p cs).bind (fun _ => fin) := by
  induction cs with
  | nil => simp [writes, Fx.Prog.finally_, Fx.Prog.bind]
  | cons c cs ih => simp [writes, Fx.Prog.finally_, Fx.Prog.bind, ih]

/-- the file part of `read_zone`, followed by the parsing `W.parse`, = the model's `readZone` -/
theorem genf_read_zone_eq_model {Z : Type} (mk : P → Py.Str → Py.Str → P) (W : Work C Z R) (f : P) (b : Bufs P C) (k : Z → Spec.C16.Prog P C R) :
    toC16 mk (GenF.read_zone_io f : Fx.Prog P C _) b (fun c _ => match W.parse c with | .ok z => k z | .error e => .fail e) =
      readZone W f k := by
  rw [read_zone_io_nf]
  simp only [toC16, readZone]
  congr 1; funext x; cases x
  · simp [toC16, errOf]
  · simp only [toC16, if_true]; congr 1

/-- interpretation of a sequence: the buffers are threaded through -/
theorem toC16_bind {β : Type} (mk : P → Py.Str → Py.Str → P) (m : Fx.Prog P C α) (f : α → Fx.Prog P C β) (b : Bufs P C)
    (k : β → Bufs P C → Spec.C16.Prog P C R) :
    toC16 mk (m.bind f) b k = toC16 mk m b (fun a b' => toC16 mk (f a) b' k) := by
  induction m generalizing b with
  | pure a => rfl
  | raise e => rfl
  | isfile p g ih => simp only [Fx.Prog.bind, toC16]; congr 1; funext x; exact ih x b
  | pathExists p g ih => simp only [Fx.Prog.bind, toC16]; congr 1; funext x; exact ih x b
  | remove p m ih => simp only [Fx.Prog.bind, toC16, ih]
  | connect d m ih => cases d <;> simp only [Fx.Prog.bind, toC16, ih]
  | cursor d m ih => simp only [Fx.Prog.bind, toC16, ih]
  | commit d m ih => simp only [Fx.Prog.bind, toC16, ih]
  | close d m ih => simp only [Fx.Prog.bind, toC16, ih]
  | openw p md m ih => cases md <;> simp only [Fx.Prog.bind, toC16, ih]
  | write p c m ih => simp only [Fx.Prog.bind, toC16, ih]
  | fclose p m ih => simp only [Fx.Prog.bind, toC16]; cases b p <;> simp only [ih]
  | mkstemp d a s g ih => simp only [Fx.Prog.bind, toC16, ih]
  | replace s d m ih => simp only [Fx.Prog.bind, toC16, ih]
  | readlines p g ih => simp only [Fx.Prog.bind, toC16]; congr 1; funext x; exact ih x b

/-- the zone-file branch of `compute_lrmsd_fast` / `compute_irmsd_fast` = the model's `zoneArg`, for ANY callee programs that are
    the model's pieces: `compute_?zone(save_file=False)` loads the reference and computes, `compute_?zone(save_file=True,
    filename=f)` also writes the zone under `f` through a temp file, `read_zone(f)` is `readZone` -/
theorem genf_lrmsd_fast_zone_eq_model {Z : Type} (mk : P → Py.Str → Py.Str → P) (W : Work C Z R) (a : Args P)
    (cl : Bool → Option P → Fx.Prog P C Z) (rz : P → Fx.Prog P C Z) (k : Z → Spec.C16.Prog P C R)
    (h0 : toC16 mk (cl false none) noBufs (fun z _ => k z) = loadPdb a.ref fun rc => match W.computeErr .lzone rc with | some e => .fail e | none => k (W.compute .lzone rc))
    (h1 : ∀ f, toC16 mk (cl true (some f)) noBufs (fun z _ => k z) =
      loadPdb a.ref fun rc => match W.computeErr .lzone rc with
        | some e => .fail e
        | none => writeZone a.tmp f (W.render (W.compute .lzone rc)) (k (W.compute .lzone rc)))
    (hr : ∀ f, toC16 mk (rz f) noBufs (fun z _ => k z) = readZone W f k) :
    prog16 mk (GenF.compute_lrmsd_fast_zone cl rz a.zone) k = zoneArg W .lzone a k := by
  unfold prog16 zoneArg
  rw [lrmsd_fast_zone_nf]
  cases hz : a.zone with
  | none => exact h0.trans (by congr 1)
  | some f =>
    simp only [toC16, withZone]
    congr 1; funext x; cases x
    · exact (h1 f).trans (by congr 1)
    · simpa using hr f

theorem genf_irmsd_fast_zone_eq_model {Z Q : Type} (mk : P → Py.Str → Py.Str → P) (W : Work C Z R) (a : Args P) (cutoff : Q)
    (ci : Q → Bool → Option P → Fx.Prog P C Z) (rz : P → Fx.Prog P C Z) (k : Z → Spec.C16.Prog P C R)
    (h0 : toC16 mk (ci cutoff false none) noBufs (fun z _ => k z) = loadPdb a.ref fun rc => match W.computeErr .izone rc with | some e => .fail e | none => k (W.compute .izone rc))
    (h1 : ∀ f, toC16 mk (ci cutoff true (some f)) noBufs (fun z _ => k z) =
      loadPdb a.ref fun rc => match W.computeErr .izone rc with
        | some e => .fail e
        | none => writeZone a.tmp f (W.render (W.compute .izone rc)) (k (W.compute .izone rc)))
    (hr : ∀ f, toC16 mk (rz f) noBufs (fun z _ => k z) = readZone W f k) :
    prog16 mk (GenF.compute_irmsd_fast_zone ci rz a.zone cutoff) k = zoneArg W .izone a k := by
  unfold prog16 zoneArg
  rw [irmsd_fast_zone_nf]
  cases hz : a.zone with
  | none => exact h0.trans (by congr 1)
  | some f =>
    simp only [toC16, withZone]
    congr 1; funext x; cases x
    · exact (h1 f).trans (by congr 1)
    · simpa using hr f

/-- the file part of `get_izone_rowID` = the `izone=<name>` step of the model's `prog .irmsdSql` -/
theorem genf_izone_rowID_eq_model {Z : Type} (mk : P → Py.Str → Py.Str → P) (W : Work C Z R) (f : P)
    (rz : P → Fx.Prog P C Z) (k : Z → Spec.C16.Prog P C R)
    (hr : toC16 mk (rz f) noBufs (fun z _ => k z) = readZone W f k) :
    prog16 mk (GenF.get_izone_rowID_io rz f) k = .isFile f fun b => if b then readZone W f k else .fail .fileNotFound := by
  unfold prog16
  rw [izone_rowID_io_nf]
  simp only [toC16]
  congr 1; funext x; cases x <;> simp [toC16, errOf, hr]

/-- the pickle branch of `compute_residue_pairs_ref` with a file name = the model's `writeFile` (one chunk: the pickle) -/
theorem genf_pairs_save_eq_model {D : Type} (mk : Py.Str → Py.Str → Py.Str → Py.Str) (self_ref f : Py.Str) (pickle : D → C) (x : D)
    (k : Unit → Spec.C16.Prog Py.Str C R) :
    prog16 mk (GenF.compute_residue_pairs_ref_save self_ref pickle true (some f) x) k = writeFile f [pickle x] (k ()) := by
  unfold prog16 writeFile
  rw [pairs_save_nf]
  simp [toC16, Fx.Prog.bind, noBufs, Bufs.write, FS.set]

theorem genf_pairs_nosave (mk : Py.Str → Py.Str → Py.Str → Py.Str) {D : Type} (self_ref : Py.Str) (fn : Option Py.Str) (pickle : D → C) (x : D)
    (k : Unit → Spec.C16.Prog Py.Str C R) :
    prog16 mk (GenF.compute_residue_pairs_ref_save self_ref pickle false fn x) k = k () := by
  unfold prog16; rw [pairs_save_nf]; simp [toC16]
end

section
variable {P R K : Type} [DecidableEq P]

/-- `exportpdb(fname)` (append=False) when the rows can be written = the model's `writeFile`: truncate, then one append with every
    line followed by its newline -/
theorem toC16_exportpdb_w (mk : P → Py.Str → Py.Str → P) (get : Py.Str → Py.Str → K → Except Py.Err (List Py.Atom)) (fname : P)
    (t : Py.Str) (kw : K) (lines : List Py.Str) (h : GenF.sql2pdb get t kw = .ok lines)
    (k : Unit → Bufs P Py.Str → Spec.C16.Prog P Py.Str R) :
    toC16 mk (GenF.exportpdb get fname false t kw) noBufs k = writeFile fname (lines.map (· ++ ['\n'])) (k () noBufs) := by
  unfold writeFile
  rw [exportpdb_nf, h]
  simp only [Bool.false_eq_true, if_false, toC16]
  rw [toC16_writes mk _ _ _ _ [] (by simp)]
  simp only [toC16, FS.set_set, FS.set_same, List.nil_append]
  rw [FS.set_self noBufs _ none rfl]

theorem genf_exportpdb_eq_model (mk : P → Py.Str → Py.Str → P) (get : Py.Str → Py.Str → K → Except Py.Err (List Py.Atom)) (fname : P)
    (t : Py.Str) (kw : K) (lines : List Py.Str) (h : GenF.sql2pdb get t kw = .ok lines) (k : Unit → Spec.C16.Prog P Py.Str R) :
    prog16 mk (GenF.exportpdb get fname false t kw) k = writeFile fname (lines.map (· ++ ['\n'])) (k ()) :=
  toC16_exportpdb_w mk get fname t kw lines h _

/-- when a row cannot be written (`sql2pdb` raises) the file has been truncated already and nothing is written -/
theorem genf_exportpdb_raises (mk : P → Py.Str → Py.Str → P) (get : Py.Str → Py.Str → K → Except Py.Err (List Py.Atom)) (fname : P)
    (t : Py.Str) (kw : K) (e : Py.Err) (h : GenF.sql2pdb get t kw = .error e) (k : Unit → Spec.C16.Prog P Py.Str R) :
    prog16 mk (GenF.exportpdb get fname false t kw) k = .openTrunc fname (.fail (errOf e)) := by
  unfold prog16
  rw [exportpdb_nf, h]
  simp [toC16]

/-- **C02: the text `exportpdb` leaves in the file** — `Model.exportText` of the lines (every line followed by one newline), after
    whatever the file held before when `append=True` (`Model.appendText`), in place of it otherwise; a new file is created either way -/
theorem genf_exportpdb_text (mk : P → Py.Str → Py.Str → P) (get : Py.Str → Py.Str → K → Except Py.Err (List Py.Atom)) (fname : P)
    (append : Bool) (t : Py.Str) (kw : K) (lines : List Py.Str) (h : GenF.sql2pdb get t kw = .ok lines) (fs : FS P Py.Str) :
    let r := (prog16 mk (GenF.exportpdb get fname append t kw) (fun _ => (.done () : Spec.C16.Prog P Py.Str Unit))).exec fs
    (r.1 fname).map List.flatten =
        some (if append then Model.appendText ((fs fname).getD []).flatten lines else Model.exportText lines) ∧
      r.2 = .ok () ∧ ∀ q, q ≠ fname → r.1 q = fs q := by
  have hflat : (lines.map (· ++ ['\n'])).flatten = Model.exportText lines := by
    simp [Model.exportText, List.flatMap]
  unfold prog16
  rw [exportpdb_nf, h]
  cases append
  · simp only [Bool.false_eq_true, if_false, toC16]
    rw [toC16_writes mk _ _ _ _ [] (by simp)]
    simp only [toC16, FS.set_set, FS.set_same, List.nil_append, Spec.C16.Prog.exec, Option.map_some, hflat, true_and]
    intro q hq; simp [FS.set, hq]
  · simp only [if_true, toC16]
    rw [toC16_writes mk _ _ _ _ [] (by simp)]
    simp only [toC16, FS.set_set, FS.set_same, List.nil_append, Spec.C16.Prog.exec]
    cases hf : fs fname with
    | none => simp [hf, FS.set, Model.appendText, hflat]; intro q hq; simp [hq]
    | some c => simp [hf, FS.set, Model.appendText, hflat]; intro q hq; simp [hq]

/-- the export branch of `compute_lrmsd_pdb2sql` = the model's two `writeFile`s (`export2`), for callee programs that are the
    translated `exportpdb` / in-memory `_close` -/
theorem genf_lrmsd_sql_export_eq_model {O V : Type} (mk : Py.Str → Py.Str → Py.Str → Py.Str)
    (ex : O → Py.Str → Bool → Py.Str → List (Py.Str × V) → Fx.Prog Py.Str Py.Str Unit) (cl : O → Bool → Fx.Prog Py.Str Py.Str Unit)
    (lines : O → List Py.Str) (e : Py.Str) (d r : O) (k : Unit → Spec.C16.Prog Py.Str Py.Str R)
    (hex : ∀ o f (k' : Unit → Bufs Py.Str Py.Str → Spec.C16.Prog Py.Str Py.Str R),
      toC16 mk (ex o f GenF.exportpdb_append_default GenF.exportpdb_tablename_default []) noBufs k' = writeFile f (lines o) (k' () noBufs))
    (hcl : ∀ o (k' : Unit → Bufs Py.Str Py.Str → Spec.C16.Prog Py.Str Py.Str R), toC16 mk (cl o GenF._close_rmdb_default) noBufs k' = k' () noBufs) :
    prog16 mk (GenF.compute_lrmsd_pdb2sql_export ex cl (some e) d r) k =
        writeFile (e ++ "/lrmsd_decoy.pdb".toList) (lines d) (writeFile (e ++ "/lrmsd_ref.pdb".toList) (lines r) (k ())) ∧
      prog16 mk (GenF.compute_lrmsd_pdb2sql_export ex cl none d r) k = k () := by
  unfold prog16
  rw [lrmsd_sql_export_nf, lrmsd_sql_export_nf]
  simp [toC16_bind, hex, hcl]

theorem genf_irmsd_sql_export_eq_model {O V : Type} (mk : Py.Str → Py.Str → Py.Str → Py.Str)
    (ex : O → Py.Str → Bool → Py.Str → List (Py.Str × V) → Fx.Prog Py.Str Py.Str Unit) (cl : O → Bool → Fx.Prog Py.Str Py.Str Unit)
    (lines : O → V → List Py.Str) (e : Py.Str) (d r : O) (id ir : V) (k : Unit → Spec.C16.Prog Py.Str Py.Str R)
    (hex : ∀ o f v (k' : Unit → Bufs Py.Str Py.Str → Spec.C16.Prog Py.Str Py.Str R),
      toC16 mk (ex o f GenF.exportpdb_append_default GenF.exportpdb_tablename_default [(['r', 'o', 'w', 'I', 'D'], v)]) noBufs k' =
        writeFile f (lines o v) (k' () noBufs))
    (hcl : ∀ o (k' : Unit → Bufs Py.Str Py.Str → Spec.C16.Prog Py.Str Py.Str R), toC16 mk (cl o GenF._close_rmdb_default) noBufs k' = k' () noBufs) :
    prog16 mk (GenF.compute_irmsd_pdb2sql_export ex cl (some e) d r id ir) k =
        writeFile (e ++ "/irmsd_decoy.pdb".toList) (lines d id) (writeFile (e ++ "/irmsd_ref.pdb".toList) (lines r ir) (k ())) ∧
      prog16 mk (GenF.compute_irmsd_pdb2sql_export ex cl none d r id ir) k = k () := by
  unfold prog16
  rw [irmsd_sql_export_nf, irmsd_sql_export_nf]
  simp [toC16_bind, hex, hcl]

/-- `_close` of an in-memory object is no file-system action (hypothesis `hcl` above is met by the translated `_close`) -/
theorem toC16_close_memory {C : Type} (mk : P → Py.Str → Py.Str → P) (self : Fx.Self P) (rmdb : Bool) (hs : self.sqlfile = none) (hc : self.conn = some ⟨none⟩)
    (k : Fx.Self P → Bufs P C → Spec.C16.Prog P C R) (b : Bufs P C) :
    toC16 mk (GenF._close self rmdb) b k = k self b := by
  rw [close_nf, hc, hs]; rfl

/-- `pdb2sql(path)` / `interface(path)` — `__init__` with no `sqlfile` — starts with `dbMem` and then does whatever `_create_table`
    does (the model's `loadPdb p k = dbMem (readPdb p k)`) -/
theorem toC16_init_memory {C F : Type} (mk : P → Py.Str → Py.Str → P) (ct : Fx.Self P → F → Py.Str → Fx.Prog P C (Fx.Self P)) (fx : Fx.Self P → Fx.Prog P C (Fx.Self P))
    (self : Fx.Self P) (pdbfile : F) (tablename : Py.Str) (hs : self.sqlfile = none) (hf : self.fix_chainID = false)
    (hct : ∀ s, (ct s pdbfile tablename).bind (fun s2 => if s2.fix_chainID then fx s2 else .pure s2) = ct s pdbfile tablename)
    (k : Fx.Self P → Bufs P C → Spec.C16.Prog P C R) (b : Bufs P C) :
    toC16 mk (GenF.pdb2sql_init ct fx self pdbfile tablename) b k =
      .dbMem (toC16 mk (ct { self with conn := some ⟨none⟩, c := some ⟨none⟩ } pdbfile tablename) b k) := by
  rw [init_nf, create_sql_nf, hs]
  simp only [Fx.Prog.bind, toC16, hct]
end

/-! ### `_write_zone`, and the zone branch glued from translated pieces (paths and chunks are strings) -/

section
variable {R : Type}

/-- the name `mkstemp` is asked for: in the directory of the target (`.` if it has none), the target's base name + `.` … `.tmp` -/
def tmpOf (mk : Py.Str → Py.Str → Py.Str → Py.Str) (filename : Py.Str) : Py.Str :=
  mk (Fx.strOr (Fx.splitPath filename).1 ['.']) ((Fx.splitPath filename).2 ++ ['.']) ['.', 't', 'm', 'p']

theorem zone_lines_ok (data : ZoneZ) : data.map Gen.zone_line_of = (renderZone data).map Except.ok := by
  induction data with
  | nil => rfl
  | cons r rs ih =>
    have h : Gen.zone_line_of r = Gen.zone_line r.1 r.2 := rfl
    simp only [List.map_cons, renderZone, h, Proofs.Zone.zone_line_eq] at ih ⊢
    rw [ih]

/-- **`_write_zone` = the model's `writeZone`**: exclusive creation of `tmpOf mk filename`, ONE append with every line of the zone
    (`renderZone`, the translated line format), one `replace` onto exactly `filename`; nothing else, and no file is left open -/
theorem toC16_write_zone (mk : Py.Str → Py.Str → Py.Str → Py.Str) (filename : Py.Str) (data : ZoneZ)
    (k : Unit → Bufs Py.Str Py.Str → Spec.C16.Prog Py.Str Py.Str R) :
    toC16 mk (GenF._write_zone filename data) noBufs k =
      writeZone (tmpOf mk filename) filename (renderZone data) (k () noBufs) := by
  unfold writeZone
  rw [write_zone_nf, zone_lines_ok]
  simp only [writesE_ok, writes_finally, toC16, tmpOf, bind_assoc]
  rw [toC16_writes mk _ _ _ _ [] (by simp)]
  simp only [toC16, Fx.Prog.bind, FS.set_set, FS.set_same, List.nil_append]
  rw [FS.set_self noBufs _ none rfl]

theorem genf_write_zone_eq_model (mk : Py.Str → Py.Str → Py.Str → Py.Str) (filename : Py.Str) (data : ZoneZ)
    (k : Unit → Spec.C16.Prog Py.Str Py.Str R) :
    prog16 mk (GenF._write_zone filename data) k = writeZone (tmpOf mk filename) filename (renderZone data) (k ()) :=
  toC16_write_zone mk filename data _

/-- C02: `sql2pdb` = the hand model: all columns, in the order of the column table, then `Model.data2pdb` of the rows -/
theorem genf_sql2pdb_eq_model {K : Type} (get : Py.Str → Py.Str → K → Except Py.Err (List Py.Atom)) (tablename : Py.Str) (kw : K) :
    GenF.sql2pdb get tablename kw = (get sql2pdbCols tablename kw >>= Model.data2pdb) := sql2pdb_nf get tablename kw

theorem genf_data2pdb_eq_model (rows : List Py.Atom) : GenF.data2pdb rows = Model.data2pdb rows := data2pdb_nf rows

theorem sql2pdbCols_eq : sql2pdbCols = "serial,name,altLoc,resName,chainID,resSeq,iCode,x,y,z,occ,temp,element,model".toList := by
  decide
end
end Proofs.GenFx
