/-
  The translated fast Fnat route (Gen/Rmsd.lean: `GenR.compute_fnat_fast`, regenerated from StructureSimilarity.py on every run by
  py/translate_ext_rmsd.py) IS the hand model `Model.Fnat.fnatFast` (Model/Fnat.lean), for every reference table, every list of decoy
  lines and every cutoff, error branches inside the equation.

  Structure: normal forms of the two generated loop bodies (`stepG`: one decoy line; `stepA` / `stepB`: the counters), proved with the
  `except_norm` / `except_close` tactics of Proofs/GenRmsdRt.lean (no generated text is quoted); then
    * the generated reader (`line[21]` as a one-character string) is the model's `readRec` (`readRec_eq`);
    * the generated dictionaries `residue_xyz : Dict key (List (Vec3 Rat))`, `residue_name` SIMULATE the model's state (`absS`: coordinates as
      triples) — under the invariant that both dictionaries have the same keys (`SameKeys`; the code creates the two entries under the one test
      `key not in residue_xyz`), `foldlM_stepG_sim`;
    * the counting loops over the mapped dictionary are the model's `countA` / `countB` (`stepA_eq`, `stepB_eq`), `round(a / b, 6)` is `ratio`.
-/
import PdbVerif.Proofs.GenSimFnat

set_option linter.unusedVariables false
set_option linter.unusedSimpArgs false
set_option linter.unusedSectionVars false

namespace Proofs.GenSim
open Py Model Model.Fnat Proofs.GenRmsd

abbrev V3 := Vec3 Rat
abbrev DX := List (ResKey × List V3)
abbrev DN := List (ResKey × List Str)

/-- a coordinate row of the generated code as the triple of the hand model -/
def toP (v : V3) : P3 := (v.x, v.y, v.z)
/-- the generated `residue_xyz` as the model's dictionary -/
def mapD (d : DX) : Model.Dict ResKey (List P3) := d.map (fun e => (e.1, e.2.map toP))

theorem get?_mapD (d : DX) (k : ResKey) : Model.Dict.get? (mapD d) k = (Model.Dict.get? d k).map (List.map toP) := by
  induction d with
  | nil => rfl
  | cons e d ih =>
    obtain ⟨k', v'⟩ := e
    by_cases h : k' = k
    · simp [mapD, Model.Dict.get?, h]
    · simpa [mapD, Model.Dict.get?, h] using ih

theorem contains_isSome {ν : Type} (d : List (ResKey × ν)) (k : ResKey) : Model.Dict.contains d k = (Model.Dict.get? d k).isSome := by
  induction d with
  | nil => rfl
  | cons e d ih =>
    obtain ⟨k', v'⟩ := e
    by_cases h : k' = k <;> simp [Model.Dict.contains, Model.Dict.get?, h, ih]

theorem getItem_get? {ν : Type} (d : List (ResKey × ν)) (k : ResKey) :
    Py.Dict.getItem d k = match Model.Dict.get? d k with | some v => .ok v | none => .error .keyError := by
  simp only [Py.Dict.getItem, get?_eq]
  cases Model.Dict.get? d k <;> rfl

theorem minDistWithin_eq (A B : List V3) (c : Rat) : GenR.Rt2.minDistWithin A B c = minWithin c (A.map toP) (B.map toP) := by
  unfold GenR.Rt2.minDistWithin minWithin
  simp only [List.isEmpty_map, List.any_map, throw_eq_error, pure_eq_ok]
  rfl

theorem roundDiv_eq (a b : Nat) : GenR.Rt2.roundDiv a b 6 = ratio (a, b) := by
  unfold GenR.Rt2.roundDiv ratio
  by_cases h : b = 0 <;> simp [h, throw_eq_error, pure_eq_ok]

/-- body of `for resB in resB_list` -/
def stepB (dx : DX) (cutoff : Rat) (xyzA : List V3) (n : Nat × Nat) (resB : ResKey) : Except Err (Nat × Nat) :=
  if Model.Dict.contains dx resB = true then
    Py.Dict.getItem dx resB >>= fun xyzB => GenR.Rt2.minDistWithin xyzA xyzB cutoff >>= fun t =>
      Except.ok (if t = true then n.1 + 1 else n.1, n.2 + 1)
  else Except.ok (n.1, n.2 + 1)

theorem stepB_eq (dx : DX) (cutoff : Rat) (xyzA : List V3) (n : Nat × Nat) (resB : ResKey) :
    stepB dx cutoff xyzA n resB = countB cutoff (mapD dx) (xyzA.map toP) n resB := by
  unfold stepB countB
  rw [contains_isSome, getItem_get?, get?_mapD]
  cases Model.Dict.get? dx resB with
  | none => rfl
  | some xyzB =>
    simp only [Option.isSome_some, if_true, ok_bind, Option.map_some, minDistWithin_eq, pure_eq_ok]

/-- body of `for resA, resB_list in residue_pairs_ref.items()` -/
def stepA (dx : DX) (cutoff : Rat) (n : Nat × Nat) (it : ResKey × List ResKey) : Except Err (Nat × Nat) :=
  if Model.Dict.contains dx it.1 = true then
    Py.Dict.getItem dx it.1 >>= fun xyzA => List.foldlM (stepB dx cutoff xyzA) n it.2
  else Except.ok (n.1, n.2 + it.2.length)

theorem stepA_eq (dx : DX) (cutoff : Rat) (n : Nat × Nat) (it : ResKey × List ResKey) :
    stepA dx cutoff n it = countA cutoff (mapD dx) n it := by
  unfold stepA countA
  rw [contains_isSome, getItem_get?, get?_mapD]
  cases Model.Dict.get? dx it.1 with
  | none => rfl
  | some xyzA =>
    simp only [Option.isSome_some, if_true, ok_bind, Option.map_some]
    exact foldlM_congr (fun s x => stepB_eq dx cutoff xyzA s x) n it.2


/-! ### the loop over the decoy's lines -/

/-- what the loop reads from one `ATOM` line (the statements up to `key = (chainID, resSeq, resName)`) -/
def readV (line : Str) : Except Err (ResKey × Str × V3) :=
  Model.Rmsd.rawChain line >>= fun c => parseInt (slice line 22 26) >>= fun rs =>
  parseFloat (slice line 30 38) >>= fun x => parseFloat (slice line 38 46) >>= fun y => parseFloat (slice line 46 54) >>= fun z =>
  Except.ok ((c, rs, strip (slice line 17 20)), strip (slice line 12 16), (⟨x, y, z⟩ : V3))

def recOf (r : ResKey × Str × V3) : Rec := { key := r.1, name := r.2.1, xyz := toP r.2.2 }

/-- `line[21]` as a one-character string (`getItem1`) and as a character (`getItem`): the model's reader is the generated one -/
theorem readRec_eq (line : Str) : readRec line = readV line >>= fun r => Except.ok (recOf r) := by
  unfold readRec readV Model.Rmsd.rawChain
  simp only [getItem1, bind_assoc, pure_eq_ok]
  cases h21 : getItem line 21 with
  | error e => rfl
  | ok c =>
    simp only [ok_bind]
    by_cases hc : c = ' '
    · subst hc
      simp only [if_true]
      cases h72 : getItem line 72 with
      | error e => rfl
      | ok c2 => rfl
    · have : ¬ ([c] : Str) = [' '] := by simpa using hc
      simp only [hc, this, if_false, ok_bind]
      rfl

/-- the dictionary update of one heavy-atom record, as the generated code does it -/
def updV (acc : DX × DN) (r : ResKey × Str × V3) : Except Err (DX × DN) :=
  if Py.startsWith r.2.1 ['H'] = true then Except.ok acc
  else
    (if Model.Dict.contains acc.1 r.1 = true then (Except.ok acc : Except Err (DX × DN))
      else Except.ok (Py.Dict.setItem acc.1 r.1 [], Py.Dict.setItem acc.2 r.1 [])) >>= fun a =>
    Py.Dict.getItem a.1 r.1 >>= fun t13 => Py.Dict.getItem a.2 r.1 >>= fun t14 =>
    Except.ok (Py.Dict.setItem a.1 r.1 (t13 ++ [r.2.2]), Py.Dict.setItem a.2 r.1 (t14 ++ [r.2.1]))

/-- normal form of the loop body -/
def stepG (acc : DX × DN) (line : Str) : Except Err (DX × DN) :=
  if Py.startsWith line ['A', 'T', 'O', 'M'] = true then readV line >>= updV acc else Except.ok acc

/-- the two dictionaries always have the same keys -/
def SameKeys (acc : DX × DN) : Prop := ∀ k, Model.Dict.contains acc.1 k = Model.Dict.contains acc.2 k

/-- the update in the model's vocabulary -/
def addV (acc : DX × DN) (r : ResKey × Str × V3) : DX × DN :=
  if Py.startsWith r.2.1 ['H'] = true then acc
  else (Model.Dict.extend (Model.Dict.setDefault acc.1 r.1 []) r.1 [r.2.2], Model.Dict.extend (Model.Dict.setDefault acc.2 r.1 []) r.1 [r.2.1])

theorem create_append {ν : Type} (d : List (ResKey × List ν)) (k : ResKey) (x : ν) :
    (Py.Dict.getItem (Model.Dict.setDefault d k []) k) = Except.ok (Model.Dict.getD (Model.Dict.setDefault d k []) k) ∧
    Py.Dict.setItem (Model.Dict.setDefault d k []) k (Model.Dict.getD (Model.Dict.setDefault d k []) k ++ [x])
      = Model.Dict.extend (Model.Dict.setDefault d k []) k [x] :=
  ⟨getItem_getD _ _ (contains_setDefault d k []), setItem_getD_append _ _ _ (contains_setDefault d k [])⟩

theorem updV_eq (acc : DX × DN) (r : ResKey × Str × V3) (h : SameKeys acc) : updV acc r = Except.ok (addV acc r) := by
  unfold updV addV
  by_cases hH : Py.startsWith r.2.1 ['H'] = true
  · simp only [hH, if_true]
  · simp only [hH, if_false, Bool.false_eq_true]
    have h2 := h r.1
    have e1 := create_append acc.1 r.1 r.2.2
    have e2 := create_append acc.2 r.1 r.2.1
    by_cases hc : Model.Dict.contains acc.1 r.1 = true
    · have hc2 : Model.Dict.contains acc.2 r.1 = true := h2 ▸ hc
      rw [setDefault_present _ _ _ hc] at e1
      rw [setDefault_present _ _ _ hc2] at e2
      simp only [hc, if_true, ok_bind, e1.1, e1.2, e2.1, e2.2, setDefault_present _ _ _ hc, setDefault_present _ _ _ hc2]
    · have hc' : Model.Dict.contains acc.1 r.1 = false := by simpa using hc
      have hc2 : Model.Dict.contains acc.2 r.1 = false := h2 ▸ hc'
      simp only [hc', Bool.false_eq_true, if_false, ok_bind, setItem_absent _ _ _ hc', setItem_absent _ _ _ hc2, e1.1, e1.2, e2.1, e2.2]

theorem contains_upd {ν : Type} (d : List (ResKey × List ν)) (k k' : ResKey) (l : List ν) :
    Model.Dict.contains (Model.Dict.extend (Model.Dict.setDefault d k []) k l) k' = (decide (k' = k) || Model.Dict.contains d k') := by
  rw [Bool.eq_iff_iff]
  simp only [Proofs.Contacts.contains_iff, Proofs.GenContacts.mem_keys_extend, Proofs.GenContacts.mem_keys_setDefault, Bool.or_eq_true,
    decide_eq_true_eq]
  constructor
  · rintro (h | h | h) <;> simp [h]
  · rintro (h | h) <;> simp [h]

theorem sameKeys_addV (acc : DX × DN) (r : ResKey × Str × V3) (h : SameKeys acc) : SameKeys (addV acc r) := by
  unfold addV
  by_cases hH : Py.startsWith r.2.1 ['H'] = true
  · simpa only [hH, if_true] using h
  · simp only [hH, if_false, Bool.false_eq_true]
    intro k
    simp only [contains_upd, h k]


/-! ### the generated state as the model's -/

def absS (acc : DX × DN) : DecoyData := { xyz := mapD acc.1, names := acc.2 }

theorem contains_mapD (d : DX) (k : ResKey) : Model.Dict.contains (mapD d) k = Model.Dict.contains d k := by
  rw [contains_isSome, contains_isSome, get?_mapD]
  cases Model.Dict.get? d k <;> rfl

theorem mapD_setDefault (d : DX) (k : ResKey) : mapD (Model.Dict.setDefault d k []) = Model.Dict.setDefault (mapD d) k [] := by
  unfold Model.Dict.setDefault
  rw [contains_mapD]
  by_cases h : Model.Dict.contains d k = true <;> simp [h, mapD]

theorem mapD_extend (d : DX) (k : ResKey) (l : List V3) : mapD (Model.Dict.extend d k l) = Model.Dict.extend (mapD d) k (l.map toP) := by
  induction d with
  | nil => rfl
  | cons e d ih =>
    obtain ⟨k', v'⟩ := e
    by_cases h : k' = k
    · simp [mapD, Model.Dict.extend, h]
    · simp only [mapD] at ih
      simp [mapD, Model.Dict.extend, h, ih]

theorem startsWithH_eq (n : Str) : Py.startsWith n ['H'] = startsWithH n := by
  cases n with
  | nil => rfl
  | cons c cs =>
    simp only [Py.startsWith, startsWithH, List.isPrefixOf, List.head?_cons]
    by_cases h : c = 'H'
    · subst h; simp
    · have h' : ¬ ('H' = c) := fun e => h e.symm
      have e1 : ('H' == c) = false := by simpa using h'
      have e2 : (c == 'H') = false := by simpa using h
      simp [e1, e2]

theorem addRec_abs (acc : DX × DN) (r : ResKey × Str × V3) : addRec (absS acc) (recOf r) = absS (addV acc r) := by
  unfold addRec addV absS recOf
  simp only [← startsWithH_eq]
  by_cases hH : Py.startsWith r.2.1 ['H'] = true
  · simp [hH]
  · simp [hH, mapD_extend, mapD_setDefault]

theorem atom_prefix_literal : Gen.atom_prefix = ['A', 'T', 'O', 'M'] := rfl

theorem stepG_sim (acc : DX × DN) (line : Str) (h : SameKeys acc) :
    (stepG acc line >>= fun a => Except.ok (absS a)) = decoyStep (absS acc) line ∧ ∀ a, stepG acc line = Except.ok a → SameKeys a := by
  unfold stepG decoyStep
  rw [atom_prefix_literal]
  by_cases hA : Py.startsWith line ['A', 'T', 'O', 'M'] = true
  · simp only [hA, if_true, readRec_eq, bind_assoc, ok_bind, pure_eq_ok]
    cases hr : readV line with
    | error e => exact ⟨rfl, fun a ha => by cases ha⟩
    | ok r =>
      simp only [ok_bind, updV_eq acc r h, addRec_abs]
      exact ⟨trivial, fun a ha => by cases ha; exact sameKeys_addV acc r h⟩
  · simp only [hA, if_false, Bool.false_eq_true, ok_bind, pure_eq_ok]
    exact ⟨trivial, fun a ha => by cases ha; exact h⟩

theorem foldlM_stepG_sim : ∀ (lines : List Str) (acc : DX × DN), SameKeys acc →
    (List.foldlM stepG acc lines >>= fun a => Except.ok (absS a)) = List.foldlM decoyStep (absS acc) lines
  | [], acc, _ => rfl
  | x :: xs, acc, h => by
    rw [List.foldlM_cons, List.foldlM_cons]
    obtain ⟨h1, h2⟩ := stepG_sim acc x h
    rw [← h1]
    cases hs : stepG acc x with
    | error e => rfl
    | ok a =>
      simp only [ok_bind]
      exact foldlM_stepG_sim xs a (h2 a hs)


/-! ### `compute_fnat_fast` -/

/-- the model's route with the reference residue pairs as computed by a given contact routine -/
def fnatFastWith (pairs : Model.Dict ResKey (List ResKey)) (lines : List Str) (cutoff : Rat) : Except Err Rat :=
  readDecoy lines >>= fun data => pairs.foldlM (countA cutoff data.xyz) (0, 0) >>= fun n => ratio n

theorem genr_compute_fnat_fast_nf (rd : Str → Except Err (List Str)) (p2s : Str → Except Err (List Atom))
    (gcr : List Atom → Rat → Str → Str → Except Err (Model.Dict ResKey (List ResKey))) (decoy ref : Str) (cutoff : Rat) :
    GenR.compute_fnat_fast rd p2s gcr decoy ref cutoff =
      (p2s ref >>= fun t => residuePairsRefWith gcr t cutoff) >>= fun pairs => rd decoy >>= fun lines => fnatFastWith pairs lines cutoff := by
  unfold GenR.compute_fnat_fast fnatFastWith
  rw [genr_compute_residue_pairs_ref_eq_model]
  simp only [bind_assoc, pure_eq_ok, ok_bind]
  apply bind_congr'; intro t
  apply bind_congr'; intro pairs
  apply bind_congr'; intro lines
  rw [foldlM_congr (g := stepG)]
  · unfold readDecoy
    have h0 := foldlM_stepG_sim lines (Py.Dict.empty, Py.Dict.empty) (fun k => rfl)
    change _ = List.foldlM decoyStep { xyz := [], names := [] } lines at h0
    rw [← h0]
    simp only [bind_assoc, ok_bind]
    apply bind_congr'; intro r15
    rw [foldlM_congr (g := stepA r15.1 cutoff)]
    · rw [foldlM_congr (fun s x => stepA_eq r15.1 cutoff s x)]
      simp only [Py.Dict.items, absS]
      apply bind_congr'; intro n
      exact roundDiv_eq n.1 n.2
    · intro n it
      unfold stepA
      simp only [contains_eq, pure_eq_ok, ok_bind, bind_assoc]
      by_cases hc : Model.Dict.contains r15.1 it.1 = true
      · simp only [hc, if_true, bind_assoc, ok_bind]
        apply bind_congr'; intro xyzA
        rw [foldlM_congr (g := stepB r15.1 cutoff xyzA)]
        · show (List.foldlM (stepB r15.1 cutoff xyzA) (n.1, n.2) it.2 >>= fun r => Except.ok (r.1, r.2)) = _
          exact bind_ok_eq _
        · intro m resB
          unfold stepB
          except_norm
          except_close
      · simp only [hc, if_false, Bool.false_eq_true, ok_bind]
  · intro acc line
    unfold stepG readV updV Model.Rmsd.rawChain
    except_pre
    except_norm
    except_close


/-- EQUALITY with the hand model: `compute_fnat_fast(cutoff)`, translated, with the residue contact routine of the model, on a
    decoy whose lines are `lines` and a reference that parses to `t` — errors (short line, bad number, empty residue list,
    `ZeroDivisionError` for no reference contact) inside the equation -/
theorem genr_compute_fnat_fast_eq_model (rd : Str → Except Err (List Str)) (p2s : Str → Except Err (List Atom)) (decoy ref : Str)
    (cutoff : Rat) (lines : List Str) (t : List Atom) (hd : rd decoy = .ok lines) (hr : p2s ref = .ok t) :
    GenR.compute_fnat_fast rd p2s (fun t c c1 c2 => contactResiduePairs t (pairArgs c c1 c2)) decoy ref cutoff = fnatFast t lines cutoff := by
  rw [genr_compute_fnat_fast_nf, hr, ok_bind, residuePairsRefWith_model]
  unfold fnatFast fnatFastWith
  apply bind_congr'; intro pairs
  rw [hd, ok_bind]

/-- the same with the TRANSLATED contact routine (`GenC.get_contact_residues`, Gen/Contacts.lean) for any admissible set order -/
theorem genr_compute_fnat_fast_eq_model_genc (ord : ∀ {α : Type}, List α → List α) (hord : OrderOK ord)
    (rd : Str → Except Err (List Str)) (p2s : Str → Except Err (List Atom)) (decoy ref : Str)
    (cutoff : Rat) (lines : List Str) (t : List Atom) (hd : rd decoy = .ok lines) (hr : p2s ref = .ok t) :
    GenR.compute_fnat_fast rd p2s
      (fun t c c1 c2 => GenC.get_contact_residues ord t c false c1 c2 true false true >>= fun s => Py.Rt.asLeft s) decoy ref cutoff
      = fnatFast t lines cutoff := by
  have hg : (fun (t : List Atom) (c : Rat) (c1 c2 : Str) => GenC.get_contact_residues ord t c false c1 c2 true false true >>= fun s => Py.Rt.asLeft s)
      = (fun t c c1 c2 => contactResiduePairs t (pairArgs c c1 c2)) := by
    funext t c c1 c2
    have h1 := Proofs.GenContacts.genc_get_contact_residues_eq_model (@ord _) hord.setOrderOK t (pairArgs c c1 c2)
    simp only [pairArgs, Gen.fnat_ref_excludeH, Gen.fnat_ref_only_backbone, if_true] at h1
    rw [h1]
    simp only [pairArgs, Gen.fnat_ref_excludeH, Gen.fnat_ref_only_backbone]
    cases contactResiduePairs t _ <;> rfl
  rw [hg]
  exact genr_compute_fnat_fast_eq_model rd p2s decoy ref cutoff lines t hd hr

/-- a reference that does not parse / a decoy that cannot be read: the exception is the routine's -/
theorem genr_compute_fnat_fast_ref_error (rd : Str → Except Err (List Str)) (p2s : Str → Except Err (List Atom))
    (gcr : List Atom → Rat → Str → Str → Except Err (Model.Dict ResKey (List ResKey))) (decoy ref : Str) (cutoff : Rat) (e : Err)
    (hr : p2s ref = .error e) : GenR.compute_fnat_fast rd p2s gcr decoy ref cutoff = .error e := by
  rw [genr_compute_fnat_fast_nf, hr]; rfl

end Proofs.GenSim
