import PdbVerif.Proofs.GenContactsRt

set_option linter.unusedVariables false
set_option linter.unusedSimpArgs false

namespace Proofs.GenContacts
open Model Proofs.Contacts
open Spec.Contact (extension resOf)

/-! ### constants, `get_chains` -/

theorem backbone_atoms_eq_model : GenC.backbone_atoms = Model.backbone := by decide

theorem get_chains_eq_model (t : List Py.Atom) : GenC.get_chains t = Model.getChains t := by
  unfold GenC.get_chains Model.getChains
  simp only [select_all_chainID, sorted_set_str]

/-! ### `_extend_contact_to_residue` -/

/-- the rows `self.get(.., chainID=c, resName=n, resSeq=s)` selects, for the key `(c, n, s)` the code iterates over -/
def extRows (t : List Py.Atom) (key : Py.Str × Py.Str × Int) : List IRow :=
  t.zipIdx.filter (fun r => decide (r.1.chainID = key.1) && decide (r.1.resName = key.2.1) && decide (r.1.resSeq = key.2.2))

/-- what one iteration of `for resdata in resA` appends -/
def extStep (t : List Py.Atom) (bb : Bool) (key : Py.Str × Py.Str × Int) : List Nat :=
  if bb then ((extRows t key).filter (fun r => decide (r.1.name ∈ Model.backbone))).map (fun r => r.2)
  else (extRows t key).map (fun r => r.2)

theorem mem_extStep {t : List Py.Atom} {bb : Bool} {key : Py.Str × Py.Str × Int} {z : Nat} :
    z ∈ extStep t bb key ↔ ∃ x, t[z]? = some x ∧ x.chainID = key.1 ∧ x.resName = key.2.1 ∧ x.resSeq = key.2.2 ∧
      (bb = true → x.name ∈ Model.backbone) := by
  unfold extStep extRows
  cases bb
  · simp only [Bool.false_eq_true, if_false, List.mem_map, List.mem_filter, Bool.and_eq_true, decide_eq_true_eq, false_imp_iff, and_true]
    constructor
    · rintro ⟨⟨x, i⟩, ⟨hm, h⟩, rfl⟩
      exact ⟨x, List.mem_zipIdx_iff_getElem?.mp hm, h.1.1, h.1.2, h.2⟩
    · rintro ⟨x, hx, h1, h2, h3⟩
      exact ⟨(x, z), ⟨List.mem_zipIdx_iff_getElem?.mpr hx, ⟨h1, h2⟩, h3⟩, rfl⟩
  · simp only [if_true, List.mem_map, List.mem_filter, Bool.and_eq_true, decide_eq_true_eq, true_imp_iff]
    constructor
    · rintro ⟨⟨x, i⟩, ⟨⟨hm, h⟩, hb⟩, rfl⟩
      exact ⟨x, List.mem_zipIdx_iff_getElem?.mp hm, h.1.1, h.1.2, h.2, hb⟩
    · rintro ⟨x, hx, h1, h2, h3, hb⟩
      exact ⟨(x, z), ⟨⟨List.mem_zipIdx_iff_getElem?.mpr hx, ⟨h1, h2⟩, h3⟩, hb⟩, rfl⟩

/-- NORMAL FORM of the unit `contacts_extend_to_residue`: the loop appends `extStep` for every key of `setOrder(set(dataA))`,
    and the result is `sorted(set(·))` of that. -/
theorem extend_nf (ord : List (Py.Str × Py.Str × Int) → List (Py.Str × Py.Str × Int)) (t : List Py.Atom) (S : List Nat) (bb : Bool) :
    GenC._extend_contact_to_residue ord t S bb =
      .ok (sortedSet ltNat ((ord (Py.Rt.set (Py.Tbl.select t (fun r => decide (r.2 ∈ S)) (fun r => (r.1.chainID, r.1.resName, r.1.resSeq))))).flatMap
        (extStep t bb))) := by
  unfold GenC._extend_contact_to_residue
  simp only []
  refine foldlM_bind_ok (fun acc key => acc ++ extStep t bb key) (fun _ => True) trivial ?_ ?_
  · intro acc key _ _
    refine ⟨?_, trivial⟩
    cases bb <;>
      simp [extStep, extRows, pure_eq_ok, ok_bind, select_eq, List.zip_map', List.filter_map, List.map_map, backbone_atoms_eq_model,
        Function.comp_def]
  · intro _
    simp only [foldl_append_flatMap, List.nil_append, sorted_set_nat, pure_eq_ok]

/-- `_extend_contact_to_residue` = the hand model, whatever the iteration order of the set is -/
theorem extend_eq_model (ord : List (Py.Str × Py.Str × Int) → List (Py.Str × Py.Str × Int)) (hord : ∀ l x, x ∈ ord l ↔ x ∈ l)
    (t : List Py.Atom) (S : List Nat) (bb : Bool) :
    GenC._extend_contact_to_residue ord t S bb = .ok (Model.extendToResidue t S bb) := by
  rw [extend_nf, extendToResidue_eq]
  refine congrArg Except.ok (sortedSet_eq_of_asc strictTotal_ltNat (asc_positions t _) ?_)
  intro z
  rw [mem_extension]
  simp only [List.mem_flatMap, hord, set_eq, mem_distinctFirst, select_eq, List.mem_map, List.mem_filter, decide_eq_true_eq, mem_extStep]
  constructor
  · rintro ⟨key, ⟨⟨y, s⟩, ⟨hm, hs⟩, rfl⟩, x, hx, h1, h2, h3, hb⟩
    exact ⟨x, hx, ⟨s, hs, y, List.mem_zipIdx_iff_getElem?.mp hm, by simp [resOf, h1, h2, h3]⟩, hb⟩
  · rintro ⟨x, hx, ⟨s, hs, y, hy, hres⟩, hb⟩
    simp only [resOf, Prod.mk.injEq] at hres
    exact ⟨_, ⟨(y, s), ⟨List.mem_zipIdx_iff_getElem?.mpr hy, hs⟩, rfl⟩, x, hx, hres.1.symm, hres.2.2.symm, hres.2.1.symm, hb⟩

end Proofs.GenContacts
