/-
  `_fix_chainID` = "chains renamed A, B, C, … by the rank of their identifier among the sorted distinct
  identifiers; nothing else changes".
-/
import PdbVerif.Proofs.TableAssign

set_option linter.unusedVariables false
set_option linter.unusedSimpArgs false

namespace TableProofs
open Tbl Model

theorem selected_nil (xd : List ColDef) (T : Table) : Spec.selected xd T [] = T.zipIdx := by
  unfold Spec.selected
  rw [List.filter_eq_self]
  intro rp _; rfl

theorem keysOK_nil (db : Db) : KeysOK db [] := by intro k hk; simp at hk
theorem rowIDInts_nil : RowIDInts [] := by intro k hk; simp at hk

theorem zipIdx_map_fst {α : Type} (l : List α) : l.zipIdx.map (·.1) = l := by
  rw [List.zipIdx_eq_zip_range']; exact List.map_fst_zip (by simp)

/-- `get('chainID')` on the whole table -/
theorem get_chainID_all (db : Db) (hwf : WF db) (tab : Tab) (htab : findTab db defaultTable = some tab) (hnm : db.nModel = 0) :
    Model.get db "chainID".toList defaultTable [] = .ok (.data (tab.rows.map (fun r => Item.one (.text r.atom.chainID)))) := by
  have hok : ColsOK db.extraNames "chainID".toList = true := colsOK_mono _ _ (by decide)
  rw [get_full db hwf defaultTable tab htab _ hok [] (keysOK_nil db) rowIDInts_nil]
  have htable : db.table? defaultTable = some tab.rows := by rw [findTab_table?, htab]; rfl
  have hcs : Spec.colsOf db.extraNames "chainID".toList = some [Col.std .chainID] := by
    have e0 : "chainID".toList ≠ "*".toList := by decide
    have e2 : Py.splitOn ',' "chainID".toList = ["chainID".toList] := by decide
    rw [Spec.colsOf, if_neg e0, e2]
    have r1 : resolve db.extraNames (Py.strip "chainID".toList) = some (.std .chainID) := by
      have : Py.strip "chainID".toList = StdCol.chainID.pyName := by decide
      rw [this]; simp [resolve, (stdNames_facts).2.2.1, (stdNames_facts).2.2.2.1]
    simp only [List.mapM_cons, List.mapM_nil, r1]; rfl
  have hget := spec_get_eq db tab.rows "chainID".toList [] [Col.std .chainID] [] hcs rfl
  have hmany : Spec.tooMany Gen.max_sql_values Gen.SQLITE_LIMIT_VARIABLE_NUMBER [] = false := by decide
  simp only [Spec.getOn, htable, hnm, Nat.lt_irrefl, decide_false, Bool.and_false, Bool.false_eq_true, if_false,
    Spec.answerOne, hget, hmany, toResult, selected_nil]
  congr 2
  have : Spec.project [Col.std StdCol.chainID] =
      (fun r : Row => Item.one (.text r.atom.chainID)) ∘ (fun rp : Row × Nat => rp.1) := rfl
  rw [this, ← List.map_map, zipIdx_map_fst]

/-- `get('rowID', chainID=chain)`: the positions of the atoms of that chain -/
theorem get_rowID_chain (db : Db) (hwf : WF db) (tab : Tab) (htab : findTab db defaultTable = some tab) (hnm : db.nModel = 0)
    (chain : Py.Str) :
    (Model.get db rowIDName defaultTable [{ key := "chainID".toList, arg := .scalar (.text chain) }] >>= asInts) =
      .ok ((tab.rows.zipIdx.filter (fun rp => rp.1.atom.chainID == chain)).map (fun rp => (rp.2 : Int))) := by
  have hk : KeysOK db [{ key := "chainID".toList, arg := .scalar (.text chain) }] := by
    intro k hk'
    simp only [List.mem_singleton] at hk'; subst hk'
    have : stripNo "chainID".toList = (false, "chainID".toList) := by decide
    rw [this]
    simp only [Db.colnames, Tbl.colnames, List.mem_cons, List.mem_append]
    exact Or.inr (Or.inl (by decide))
  have hr : RowIDInts [{ key := "chainID".toList, arg := .scalar (.text chain) }] := by
    intro k hk' h0
    simp only [List.mem_singleton] at hk'; subst hk'
    have : stripNo "chainID".toList = (false, "chainID".toList) := by decide
    rw [this] at h0
    exact absurd h0 (by decide)
  have hq : [({ key := "chainID".toList, arg := .scalar (.text chain) } : Kw)].mapM (Spec.condOf db.extraNames) =
      some [⟨.std .chainID, false, [.text chain]⟩] := by
    have hs : Spec.splitNo "chainID".toList = (false, "chainID".toList) := by decide
    have r1 : resolve db.extraNames "chainID".toList = some (.std .chainID) := by
      have : "chainID".toList = StdCol.chainID.pyName := by decide
      rw [this]; simp [resolve, (stdNames_facts).2.2.1, (stdNames_facts).2.2.2.1]
    simp only [List.mapM_cons, List.mapM_nil, Spec.condOf, hs, r1, Option.map_some, Arg.vals]; rfl
  have hmany : Spec.tooMany Gen.max_sql_values Gen.SQLITE_LIMIT_VARIABLE_NUMBER
      [{ key := "chainID".toList, arg := .scalar (.text chain) }] = false := by
    simp [Spec.tooMany, Spec.weight, Spec.Arg.count, Gen.max_sql_values, Gen.SQLITE_LIMIT_VARIABLE_NUMBER]
  have := updIds_eq db hwf defaultTable tab htab _ hk hr hnm hmany _ hq
  unfold updIds at this
  rw [this]
  unfold posInts Spec.selected
  congr 2
  apply List.filter_congr
  intro rp _
  simp [Spec.sat, Spec.Cond.holds, Spec.isNumeric, StdCol.kind, cell, Row.std, Spec.valMatches]

/-- `for ind in index: newID[ind] = letter` -/
theorem foldl_set_get (l : Val) : ∀ (idx : List Int) (acc : List Val) (p : Nat),
    (idx.foldl (fun acc ind => if ind < 0 then acc else acc.set ind.toNat l) acc)[p]? =
      if (p : Int) ∈ idx ∧ p < acc.length then some l else acc[p]?
  | [], acc, p => by simp
  | i :: rest, acc, p => by
    simp only [List.foldl_cons]
    rw [foldl_set_get l rest _ p]
    by_cases hi : i < 0
    · have hne : (p : Int) ≠ i := by omega
      simp only [hi, if_true, List.mem_cons, hne, false_or]
    · simp only [hi, if_false, List.length_set, List.mem_cons]
      by_cases hp : (p : Int) = i
      · have hpi : i.toNat = p := by omega
        by_cases hlt : p < acc.length
        · simp [hp, hlt, hpi, List.getElem?_set_self hlt]
        · have h1 : acc[p]? = none := by rw [List.getElem?_eq_none_iff]; omega
          simp [hlt, hpi, h1]
      · have hpi : i.toNat ≠ p := by omega
        simp only [hp, false_or, List.getElem?_set_ne hpi]

theorem foldl_set_length (l : Val) : ∀ (idx : List Int) (acc : List Val),
    (idx.foldl (fun acc ind => if ind < 0 then acc else acc.set ind.toNat l) acc).length = acc.length
  | [], acc => rfl
  | i :: rest, acc => by
    simp only [List.foldl_cons]
    rw [foldl_set_length l rest]
    split_ifs <;> simp

/-- with every index inside the list the assignments cannot raise: the loop is the fold -/
theorem foldlM_setNewID_ok (l : Val) : ∀ (idx : List Int) (acc : List Val), (∀ i ∈ idx, 0 ≤ i ∧ i < (acc.length : Int)) →
    idx.foldlM (fun acc ind => setNewID acc ind l) acc =
      .ok (idx.foldl (fun acc ind => if ind < 0 then acc else acc.set ind.toNat l) acc)
  | [], acc, _ => rfl
  | i :: rest, acc, h => by
    have hi := h i (by simp)
    have h1 : ¬ i < 0 := by omega
    have h3 : ¬ (i ≥ (acc.length : Int)) := by omega
    have hset : setNewID acc i l = .ok (acc.set i.toNat l) := by
      unfold setNewID
      simp only [h1, h3, if_false, or_self]
    rw [List.foldlM_cons, hset]
    simp only [List.foldl_cons, h1, if_false]
    exact foldlM_setNewID_ok l rest _ (fun j hj => by
      have := h j (by simp [hj])
      simpa using this)

theorem mem_chain_positions (T : Table) (chain : Py.Str) (p : Nat) :
    (p : Int) ∈ (T.zipIdx.filter (fun rp => rp.1.atom.chainID == chain)).map (fun rp => (rp.2 : Int)) ↔
      ∃ r, T[p]? = some r ∧ r.atom.chainID = chain := by
  simp only [List.mem_map, List.mem_filter, beq_iff_eq]
  constructor
  · rintro ⟨rp, ⟨h1, h2⟩, h3⟩
    have := List.mem_zipIdx' (x := rp.1) (i := rp.2) h1
    have hp : rp.2 = p := by exact_mod_cast h3
    refine ⟨rp.1, ?_, h2⟩
    rw [← hp, List.getElem?_eq_getElem this.1]
    exact congrArg some this.2.symm
  · rintro ⟨r, hr, hc⟩
    obtain ⟨hlt, heq⟩ := List.getElem?_eq_some_iff.1 hr
    exact ⟨(r, p), ⟨List.mem_zipIdx_iff_getElem?.2 (by simp [hr]), hc⟩, rfl⟩

/-- the loop of `_fix_chainID` that fills `newID`: every atom of a listed chain gets that chain's letter -/
theorem fillNewID_spec (db : Db) (hwf : WF db) (tab : Tab) (htab : findTab db defaultTable = some tab) (hnm : db.nModel = 0) :
    ∀ (pairs : List (Nat × Py.Str)) (acc : List Val), (pairs.map (·.2)).Nodup → acc.length = tab.rows.length →
      ∃ res, fillNewID db pairs acc = .ok res ∧ res.length = tab.rows.length ∧
        ∀ p (hp : p < tab.rows.length), res[p]? =
          match pairs.find? (fun pc => pc.2 == tab.rows[p].atom.chainID) with
          | some pc => some (Val.text [Char.ofNat (65 + pc.1)])
          | none => acc[p]?
  | [], acc, _, hl => ⟨acc, rfl, hl, fun p hp => rfl⟩
  | (ic, chain) :: rest, acc, hnd, hl => by
    rw [List.map_cons, List.nodup_cons] at hnd
    have hget := get_rowID_chain db hwf tab htab hnm chain
    let acc' := ((tab.rows.zipIdx.filter (fun rp => rp.1.atom.chainID == chain)).map (fun rp => (rp.2 : Int))).foldl
      (fun acc ind => if ind < 0 then acc else acc.set ind.toNat (Val.text [Char.ofNat (65 + ic)])) acc
    have hl' : acc'.length = tab.rows.length := by rw [foldl_set_length]; exact hl
    obtain ⟨res, h1, h2, h3⟩ := fillNewID_spec db hwf tab htab hnm rest acc' hnd.2 hl'
    refine ⟨res, ?_, h2, ?_⟩
    · have hin : ∀ i ∈ (tab.rows.zipIdx.filter (fun rp => rp.1.atom.chainID == chain)).map (fun rp => (rp.2 : Int)),
          0 ≤ i ∧ i < (acc.length : Int) := by
        intro i hi
        simp only [List.mem_map, List.mem_filter] at hi
        obtain ⟨rp, ⟨hmem, _⟩, rfl⟩ := hi
        have := (List.mem_zipIdx' (x := rp.1) (i := rp.2) hmem).1
        omega
      simp only [fillNewID, hget, foldlM_setNewID_ok _ _ _ hin]
      exact h1
    · intro p hp
      rw [h3 p hp]
      simp only [List.find?_cons]
      by_cases hc : chain = tab.rows[p].atom.chainID
      · have hnone : rest.find? (fun pc => pc.2 == tab.rows[p].atom.chainID) = none := by
          rw [List.find?_eq_none]
          intro pc hpc hbeq
          have : pc.2 = chain := by rw [hc]; exact beq_iff_eq.1 hbeq
          exact hnd.1 (List.mem_map.2 ⟨pc, hpc, this⟩)
        have hbeq : (chain == tab.rows[p].atom.chainID) = true := by simp [hc]
        simp only [hnone, hbeq]
        show acc'[p]? = _
        rw [foldl_set_get]
        exact if_pos ⟨(mem_chain_positions tab.rows chain p).2 ⟨tab.rows[p], List.getElem?_eq_getElem hp, hc.symm⟩, by omega⟩
      · have hbeq : (chain == tab.rows[p].atom.chainID) = false := by simpa using hc
        simp only [hbeq]
        cases hf : rest.find? (fun pc => pc.2 == tab.rows[p].atom.chainID) with
        | some pc => rfl
        | none =>
          show acc'[p]? = _
          rw [foldl_set_get]
          apply if_neg
          rintro ⟨hm, _⟩
          obtain ⟨r, hr, hrc⟩ := (mem_chain_positions tab.rows chain p).1 hm
          rw [List.getElem?_eq_getElem hp] at hr
          injection hr with hr; subst hr
          exact hc hrc.symm

theorem find?_zipIdx_swap (c : Py.Str) : ∀ (ids : List Py.Str) (k : Nat), c ∈ ids →
    ((ids.zipIdx k).map (fun ci => (ci.2, ci.1))).find? (fun pc => pc.2 == c) = some (k + ids.idxOf c, c)
  | [], k, h => by simp at h
  | a :: t, k, h => by
    rw [List.zipIdx_cons, List.map_cons, List.find?_cons]
    by_cases hac : a = c
    · subst hac; simp
    · have hbeq : (a == c) = false := by simpa using hac
      have hmem : c ∈ t := by
        rcases List.mem_cons.1 h with e | e
        · exact absurd e.symm hac
        · exact e
      simp only [hbeq, Bool.false_eq_true, if_false]
      rw [find?_zipIdx_swap c t (k + 1) hmem, List.idxOf_cons_ne _ hac]
      congr 2; omega

theorem idxOf?_range (n p : Nat) (hp : p < n) : (List.range n).idxOf? p = some p := by
  unfold List.idxOf?
  rw [List.findIdx?_eq_some_iff_getElem]
  refine ⟨by simpa using hp, by simp, ?_⟩
  intro j hj
  simp only [List.getElem_range, beq_iff_eq]
  omega

theorem zipIdx_pairs (l : List Val) :
    l.zipIdx.map (fun vi => ([vi.1], (vi.2 : Int) + 1)) =
      (l.map (fun v => [v])).zip (List.map (fun (p : Nat) => (p : Int) + 1) (List.range l.length)) := by
  rw [List.zipIdx_eq_zip_range', List.range_eq_range', List.zip_map]
  rfl

/-- **`_fix_chainID` = `Spec.fixChains`** on the table `ATOM` -/
theorem fixChainID_eq (db : Db) (hwf : WF db) (hT : TabsOK db) (tab : Tab) (htab : findTab db defaultTable = some tab)
    (hnm : db.nModel = 0) (h26 : (sortDedup strLt (tab.rows.map (fun r => r.atom.chainID))).length ≤ 26) :
    Model.fixChainID db = (db.setTable defaultTable (Spec.fixChains tab.rows), .ok ()) := by
  let ids := sortDedup strLt (tab.rows.map (fun r => r.atom.chainID))
  let newID : List Val := tab.rows.map (fun r => Val.text (Spec.letterOf (ids.idxOf r.atom.chainID)))
  -- the new identifiers
  have hnew : fixChainIDNew db = .ok newID := by
    unfold fixChainIDNew
    rw [get_chainID_all db hwf tab htab hnm]
    have hm : (tab.rows.map (fun r => Item.one (.text r.atom.chainID))).mapM itemText = .ok (tab.rows.map (fun r => r.atom.chainID)) := by
      rw [List.mapM_map]; apply except_mapM_ok; intro r _; rfl
    simp only [hm]
    have hgt : ¬ (sortDedup strLt (tab.rows.map (fun r => r.atom.chainID))).length > 26 := by omega
    simp only [hgt, if_false]
    have hnd : ((ids.zipIdx.map (fun ci => (ci.2, ci.1))).map (·.2)).Nodup := by
      have e : (ids.zipIdx.map (fun ci => (ci.2, ci.1))).map (·.2) = ids := by
        rw [List.map_map]; exact zipIdx_map_fst ids
      rw [e]
      have hp := pairwise_sortDedup strLt_strict (tab.rows.map (fun r => r.atom.chainID))
      rw [List.nodup_iff_pairwise_ne]
      exact hp.imp (by intro a b hab e; subst e; simp [strLt] at hab)
    obtain ⟨res, h1, h2, h3⟩ := fillNewID_spec db hwf tab htab hnm _ (List.replicate (tab.rows.map (fun r => r.atom.chainID)).length (.text []))
      hnd (by simp)
    rw [h1]
    congr 1
    apply List.ext_getElem?
    intro p
    by_cases hp : p < tab.rows.length
    · rw [h3 p hp]
      have hmem : tab.rows[p].atom.chainID ∈ ids := by
        rw [mem_sortDedup]; exact List.mem_map.2 ⟨tab.rows[p], List.getElem_mem _, rfl⟩
      rw [find?_zipIdx_swap _ ids 0 hmem]
      simp [newID, List.getElem?_map, List.getElem?_eq_getElem hp, Spec.letterOf]
    · have e1 : res[p]? = none := by rw [List.getElem?_eq_none_iff]; omega
      have e2 : newID[p]? = none := by rw [List.getElem?_eq_none_iff]; simp [newID]; omega
      rw [e1, e2]
  -- written row by row
  have hassign : Spec.assign db.extra tab.rows (List.range newID.length) [Col.std .chainID] (newID.map (fun v => [v])) =
      some (Spec.fixChains tab.rows) := by
    rw [assign_pointwise]
    refine ⟨by simp [Spec.fixChains], ?_⟩
    intro p hp
    have hp' : p < newID.length := by simpa [newID] using hp
    simp only [assignRow, idxOf?_range _ _ hp']
    simp [Spec.fixChains, newID, List.getElem?_map, List.getElem?_eq_getElem hp, List.getD_eq_getElem?_getD,
      Spec.writeRow, Spec.writeCell, Spec.coerce, StdCol.kind, Kind.decl, setStd, ids]
  unfold Model.fixChainID
  rw [hnew]
  simp only [Model.updateColumn, htab, sqlCol_chainID]
  rw [execMany_eq [Col.std .chainID] defaultTable _ db tab hT htab, zipIdx_pairs,
    execRows_assign db [Col.std .chainID] (List.range newID.length) (newID.map (fun v => [v])) tab.rows _
      (by simpa using List.pairwise_lt_range) (by intro p hp; simpa [newID] using hp) (by simp) hassign]
  rfl

end TableProofs
