/-
  The bounded recursion never runs out: `Model.get` — hence, by `get_eq_model`, the translated `GenG.get` — never answers
  with the fuel error, for ANY database, column string, table name and keyword list.  Measure: the number of over-long lists
  (each level of the chunked branch replaces one by a chunk of at most `max_sql_values` values), one level for the per-model
  dispatch (it adds the `model` keyword), one for the query itself; `len(kwargs) + 3` is at least that.
-/
import PdbVerif.Proofs.GenGetV

set_option linter.unusedVariables false
set_option linter.unusedSimpArgs false

namespace GenGetProofs
open Tbl Model MicroSql GenSql SqlProofs GenG

/-- the number of over-long lists -/
def lc (kw : List Kw) : Nat := (kw.filter (fun k => isLong k.arg)).length

def disp (db : Db) (kw : List Kw) : Bool := !hasModelKey kw && decide (db.nModel > 0)

/-- recursion depth `get` needs -/
def need (db : Db) (kw : List Kw) : Nat := lc kw + (if disp db kw = true then 1 else 0) + 1

theorem lc_le (kw : List Kw) : lc kw ≤ kw.length := List.length_filter_le _ _

theorem need_le_fuel (db : Db) (kw : List Kw) : need db kw ≤ getFuel kw := by
  unfold need getFuel; have := lc_le kw; split <;> omega

/-! ### errors of the non-recursive parts -/

theorem mapM_err {α β : Type} (f : α → Except Model.Err β) (P : Model.Err → Prop) (hf : ∀ x e, f x = .error e → P e) :
    ∀ (l : List α) (e : Model.Err), l.mapM f = .error e → P e
  | [], e, h => by simp [List.mapM_nil, pure, Except.pure] at h
  | a :: t, e, h => by
    simp only [List.mapM_cons, bind, Except.bind, pure, Except.pure] at h
    cases h1 : f a with
    | error e1 => rw [h1] at h; simp only [] at h; injection h with h; subst h; exact hf a e1 h1
    | ok b =>
      rw [h1] at h; simp only [] at h
      cases h2 : List.mapM f t with
      | error e2 => rw [h2] at h; simp only [] at h; injection h with h; subst h; exact mapM_err f P hf t e2 h2
      | ok bs => rw [h2] at h; cases h

theorem sqlCols_err (db : Db) (columns : Py.Str) (e : Model.Err) (h : sqlCols db columns = .error e) : e ≠ .fuel := by
  unfold sqlCols at h
  by_cases hs : columns = "*".toList
  · rw [if_pos hs] at h; cases h
  · rw [if_neg hs] at h
    refine mapM_err _ (fun e => e ≠ .fuel) ?_ _ e h
    intro p e' hp
    cases hc : sqlCol db (Py.strip p) with
    | none => simp only [hc] at hp; injection hp with hp; subst hp; decide
    | some c => simp only [hc] at hp; cases hp

theorem finish_err (columns : Py.Str) (data : List (List Val)) (e : Model.Err) (h : finish columns data = .error e) : e ≠ .fuel := by
  unfold finish at h
  cases data with
  | nil => cases h
  | cons r0 rest =>
    simp only [] at h
    cases hf : fixRowID columns (r0 :: rest) with
    | error e' =>
      rw [hf] at h; simp only [] at h; injection h with h; subst h
      unfold fixRowID at hf
      split at hf
      · split at hf
        · injection hf with hf; subst hf; decide
        · cases hf
      · cases hf
    | ok d =>
      rw [hf] at h; simp only [] at h
      split at h <;> cases h

theorem runQuery_nf (db : Db) (columns tn : Py.Str) (conds : List SqlCond) (n : Nat) (e : Model.Err)
    (h : runQuery db columns tn conds n = .error e) : e ≠ .fuel := by
  unfold runQuery at h
  split at h
  · injection h with h; subst h; decide
  · cases hf : findTab db tn with
    | none => rw [hf] at h; simp only [] at h; injection h with h; subst h; decide
    | some tab =>
      rw [hf] at h; simp only [] at h
      cases hc : sqlCols db columns with
      | error e' => rw [hc] at h; simp only [] at h; injection h with h; subst h; exact sqlCols_err db columns e' hc
      | ok cols =>
        rw [hc] at h; simp only [] at h
        cases hfin : finish columns (sqlSelect db tab cols conds) with
        | error e' => rw [hfin] at h; simp only [] at h; injection h with h; subst h; exact finish_err _ _ e' hfin
        | ok items => rw [hfin] at h; cases h

theorem scan_err (db : Db) : ∀ (kw : List Kw) (e : Model.Err), scan db kw = .error e → e ≠ .fuel
  | [], e, h => by cases h
  | k :: rest, e, h => by
    unfold scan at h
    by_cases hl : isLong k.arg = true
    · rw [if_pos hl] at h; cases h
    · rw [if_neg hl] at h
      cases hv : scanVals (stripNo k.key).2 k.arg.vals with
      | error e' =>
        rw [hv] at h; simp only [] at h; injection h with h; subst h
        unfold scanVals at hv
        split at hv
        · refine mapM_err _ (fun e => e ≠ .fuel) ?_ _ e' hv
          intro v e2 hv2
          cases v <;> simp [pyIntPlus1] at hv2
          subst hv2; decide
        · cases hv
      | ok vals =>
        rw [hv] at h; simp only [] at h
        cases hm : Model.mkCond db (stripNo k.key).2 (stripNo k.key).1 vals with
        | error e' =>
          rw [hm] at h; simp only [] at h; injection h with h; subst h
          unfold Model.mkCond at hm
          split at hm
          · cases hm
          · injection hm with hm; subst hm; decide
        | ok c =>
          rw [hm] at h; simp only [] at h
          cases hs : scan db rest with
          | error e' => rw [hs] at h; simp only [] at h; injection h with h; subst h; exact scan_err db rest e' hs
          | ok s => rw [hs] at h; cases s <;> cases h

theorem scan_long_inv (db : Db) : ∀ (kw : List Kw) (idx : Nat) (key : Py.Str) (neg : Bool) (vs : List Val),
    scan db kw = .ok (.long idx key neg vs) → ∃ k, kw[idx]? = some k ∧ k.key = key ∧ isLong k.arg = true
  | [], idx, key, neg, vs, h => by cases h
  | k :: rest, idx, key, neg, vs, h => by
    unfold scan at h
    by_cases hl : isLong k.arg = true
    · rw [if_pos hl] at h
      injection h with h; injection h with h1 h2 h3 h4
      subst h1; exact ⟨k, rfl, h2, hl⟩
    · rw [if_neg hl] at h
      cases hv : scanVals (stripNo k.key).2 k.arg.vals with
      | error e' => rw [hv] at h; cases h
      | ok vals =>
        rw [hv] at h; simp only [] at h
        cases hm : Model.mkCond db (stripNo k.key).2 (stripNo k.key).1 vals with
        | error e' => rw [hm] at h; cases h
        | ok c =>
          rw [hm] at h; simp only [] at h
          cases hs : scan db rest with
          | error e' => rw [hs] at h; cases h
          | ok s =>
            rw [hs] at h
            cases s with
            | conds cs n => cases h
            | long i k' ng l =>
              simp only [] at h
              injection h with h; injection h with h1 h2 h3 h4
              subst h1 h2 h3 h4
              obtain ⟨k0, hk0, hk1, hk2⟩ := scan_long_inv db rest i k' ng l hs
              exact ⟨k0, by simpa using hk0, hk1, hk2⟩

/-! ### the measure along the recursive calls -/

theorem lc_set (a : Arg) (ha : isLong a = false) : ∀ (kw : List Kw) (idx : Nat) (k : Kw), kw[idx]? = some k → isLong k.arg = true →
    lc (kw.set idx ⟨k.key, a⟩) + 1 = lc kw
  | [], idx, k, h, _ => by simp at h
  | x :: rest, 0, k, h, hl => by
    simp only [List.getElem?_cons_zero, Option.some.injEq] at h
    subst h
    simp [lc, List.filter_cons, hl, ha]
  | x :: rest, j + 1, k, h, hl => by
    simp only [List.getElem?_cons_succ] at h
    have ih := lc_set a ha rest j k h hl
    unfold lc at ih ⊢
    simp only [List.set_cons_succ, List.filter_cons]
    by_cases hx : isLong x.arg = true <;> simp [hx] <;> omega

theorem hasModelKey_keys (kw : List Kw) : hasModelKey kw = (kw.map (·.key)).any (fun x => decide (x = modelKey)) := by
  unfold hasModelKey; rw [List.any_map]; rfl

theorem lc_append_model (kw : List Kw) (m : Nat) : lc (kw ++ [⟨modelKey, .scalar (.int m)⟩]) = lc kw := by
  simp [lc, List.filter_append, isLong]

theorem disp_append_model (db : Db) (kw : List Kw) (m : Nat) : disp db (kw ++ [⟨modelKey, .scalar (.int m)⟩]) = false := by
  simp [disp, hasModelKey]

theorem modelLoop_nf (recGet : List Kw → Except Model.Err Model.Result) (kw : List Kw)
    (hrec : ∀ (m : Nat) e, recGet (kw ++ [⟨modelKey, .scalar (.int m)⟩]) = .error e → e ≠ .fuel) :
    ∀ (ms : List Nat) (e : Model.Err), modelLoop recGet kw ms = .error e → e ≠ .fuel
  | [], e, h => by cases h
  | m :: ms, e, h => by
    simp only [modelLoop] at h
    cases h1 : recGet (kw ++ [⟨modelKey, .scalar (.int m)⟩]) with
    | error e1 => rw [h1] at h; simp only [] at h; injection h with h; subst h; exact hrec m e1 h1
    | ok r =>
      rw [h1] at h; simp only [] at h
      cases h2 : asData r with
      | error e2 =>
        rw [h2] at h; simp only [] at h; injection h with h; subst h
        cases r <;> simp [asData] at h2
        subst h2; decide
      | ok d =>
        rw [h2] at h; simp only [] at h
        cases h3 : modelLoop recGet kw ms with
        | error e3 => rw [h3] at h; simp only [] at h; injection h with h; subst h; exact modelLoop_nf recGet kw hrec ms e3 h3
        | ok ds => rw [h3] at h; cases h

theorem asInts_err (r : Model.Result) (e : Model.Err) (h : asInts r = .error e) : e ≠ .fuel := by
  cases r with
  | models p => simp [asInts] at h; subst h; decide
  | data items =>
    simp only [asInts] at h
    refine mapM_err _ (fun e => e ≠ .fuel) ?_ _ e h
    intro it e' hit
    split at hit
    · cases hit
    · injection hit with hit; subst hit; decide

theorem chunkLoop_nf (recGet : List Kw → Except Model.Err Model.Result) (kw : List Kw) (idx : Nat) (key : Py.Str) (neg : Bool) :
    ∀ (cs : List (List Val)) (acc : Option (List Int)) (e : Model.Err),
      (∀ c ∈ cs, ∀ e, recGet (Model.setKw kw idx key c) = .error e → e ≠ .fuel) →
      chunkLoop recGet kw idx key neg cs acc = .error e → e ≠ .fuel
  | [], acc, e, _, h => by cases h
  | c :: cs, acc, e, hrec, h => by
    simp only [chunkLoop] at h
    cases h1 : recGet (Model.setKw kw idx key c) with
    | error e1 => rw [h1] at h; simp only [] at h; injection h with h; subst h; exact hrec c (by simp) e1 h1
    | ok r =>
      rw [h1] at h; simp only [] at h
      cases h2 : asInts r with
      | error e2 => rw [h2] at h; simp only [] at h; injection h with h; subst h; exact asInts_err r e2 h2
      | ok index =>
        rw [h2] at h; simp only [] at h
        exact chunkLoop_nf recGet kw idx key neg cs _ e (fun c' hc' => hrec c' (List.mem_cons_of_mem _ hc')) h

/-! ### the recursion never runs out -/

/-- **with `need db kw` levels of recursion `Model.getF` never answers with the fuel error** -/
theorem modelF_no_fuel (db : Db) (tn : Py.Str) : ∀ (fuel : Nat) (columns : Py.Str) (kw : List Kw) (e : Model.Err),
    need db kw ≤ fuel → Model.getF fuel db columns tn kw = .error e → e ≠ .fuel
  | 0, columns, kw, e, hn, _ => by unfold need at hn; omega
  | fuel + 1, columns, kw, e, hn, h => by
    have ih := modelF_no_fuel db tn fuel
    unfold Model.getF at h
    by_cases hv : validCols db columns = true
    · simp only [hv, Bool.not_true, Bool.false_eq_true, if_false] at h
      by_cases hd : (!hasModelKey kw && decide (db.nModel > 0)) = true
      · simp only [hd, if_true] at h
        have hneed : ∀ m : Nat, need db (kw ++ [⟨modelKey, .scalar (.int m)⟩]) ≤ fuel := by
          intro m
          unfold need at hn ⊢
          rw [lc_append_model, disp_append_model]
          have : disp db kw = true := hd
          simp only [this, if_true] at hn
          simp; omega
        cases hm : modelLoop (fun kw' => Model.getF fuel db columns tn kw') kw (List.range db.nModel) with
        | error e' =>
          rw [hm] at h; simp only [] at h; injection h with h; subst h
          exact modelLoop_nf _ kw (fun m e2 h2 => ih columns _ e2 (hneed m) h2) _ e' hm
        | ok per => rw [hm] at h; cases h
      · simp only [hd, Bool.false_eq_true, if_false] at h
        have hd' : disp db kw = false := by simpa [disp] using hd
        by_cases hemp : kw.isEmpty = true
        · simp only [hemp, if_true] at h; exact runQuery_nf _ _ _ _ _ e h
        · simp only [hemp, Bool.false_eq_true, if_false] at h
          by_cases hkeys : kw.all (fun k => keyOK db tn (stripNo k.key).2) = true
          · simp only [hkeys, Bool.not_true, Bool.false_eq_true, if_false] at h
            cases hs : scan db kw with
            | error e' => rw [hs] at h; simp only [] at h; injection h with h; subst h; exact scan_err db kw e' hs
            | ok s =>
              rw [hs] at h
              cases s with
              | conds cs n => simp only [] at h; exact runQuery_nf _ _ _ _ _ e h
              | long idx key neg vs =>
                simp only [] at h
                obtain ⟨k, hk0, hk1, hk2⟩ := scan_long_inv db kw idx key neg vs hs
                subst hk1
                have hsub : ∀ c ∈ Model.chunks Gen.max_sql_values vs, ∀ e', Model.getF fuel db rowIDName tn (Model.setKw kw idx k.key c) = Except.error e' → e' ≠ Model.Err.fuel := by
                  intro c hc e' he'
                  have hclen := (TableProofs.chunksAux_length_le Gen.max_sql_values (by decide) _ _ c hc).1
                  have hnl : isLong (.list c) = false := by simp [isLong]; omega
                  have h1 := lc_set (.list c) hnl kw idx k hk0 hk2
                  have h2 : disp db (Model.setKw kw idx k.key c) = false := by
                    unfold disp Model.setKw
                    rw [hasModelKey_keys, keys_set _ kw idx k hk0, ← hasModelKey_keys]
                    exact hd'
                  refine ih rowIDName _ e' ?_ he'
                  unfold need at hn ⊢
                  rw [h2]; rw [hd'] at hn
                  unfold Model.setKw
                  simp at hn ⊢; omega
                cases hcl : chunkLoop (fun kw' => Model.getF fuel db rowIDName tn kw') kw idx k.key neg (Model.chunks Gen.max_sql_values vs) none with
                | error e' =>
                  rw [hcl] at h; simp only [] at h; injection h with h; subst h
                  exact chunkLoop_nf _ kw idx k.key neg _ none e' hsub hcl
                | ok rows =>
                  rw [hcl] at h; simp only [] at h
                  cases hf : findTab db tn with
                  | none => rw [hf] at h; simp only [] at h; injection h with h; subst h; decide
                  | some tab =>
                    rw [hf] at h; simp only [] at h
                    cases hc : sqlCols db columns with
                    | error e' => rw [hc] at h; simp only [] at h; injection h with h; subst h; exact sqlCols_err db columns e' hc
                    | ok cols =>
                      rw [hc] at h; simp only [] at h
                      cases hfin : finish columns (fetchRows db tab cols (sortDedup intLt (rows.getD []))) with
                      | error e' => rw [hfin] at h; simp only [] at h; injection h with h; subst h; exact finish_err _ _ e' hfin
                      | ok items => rw [hfin] at h; cases h
          · simp only [hkeys, Bool.not_false, if_true] at h; injection h with h; subst h; decide
    · simp only [hv, Bool.not_false, if_true] at h; injection h with h; subst h; decide

/-- **`Model.get` never answers with the fuel error**, for any input -/
theorem model_get_no_fuel (db : Db) (columns tn : Py.Str) (kw : List Kw) : Model.get db columns tn kw ≠ .error .fuel := by
  intro h
  exact modelF_no_fuel db tn _ columns kw .fuel (need_le_fuel db kw) h rfl

/-- **the translated `get` never runs out of fuel**: `GenG.get` (whose recursion through `self.get` is bounded by
    `len(kwargs) + 3`) never answers with the fuel error — the bound is never the reason for an answer -/
theorem get_no_fuel (db : Db) (columns tn : Py.Str) (kw : List Kw) (hp : PlainNames columns tn kw)
    (hrow : sqlCol db rowIDName = some .rowID) (hnd : (kw.map (·.key)).Nodup) :
    GenG.get db columns tn kw ≠ .error .fuel := by
  rw [get_eq_model db columns tn kw hp hrow hnd]
  exact model_get_no_fuel db columns tn kw

end GenGetProofs
