/-
  Helper lemmas about `Py.pow2` / `Py.toDouble` (IEEE binary64 round-to-nearest-even of an exact
  rational): monotone, odd, exact on 0, 1, 2, 3.  Helper lemmas only.
-/
import Mathlib.Tactic.Linarith
import Mathlib.Tactic.Ring
import Mathlib.Tactic.NormNum
import Mathlib.Tactic.Positivity
import Mathlib.Tactic.FieldSimp
import Mathlib.Algebra.Order.Floor.Ring
import Mathlib.Algebra.Order.GroupWithZero.Basic
import Mathlib.Algebra.Order.Field.Basic
import Mathlib.Data.Rat.Floor
import Mathlib.Data.Rat.Lemmas
import PdbVerif.Py.Float
import PdbVerif.Proofs.Num

namespace Py

/-! ### `pow2` -/

theorem pow2_eq_zpow (e : ℤ) : pow2 e = (2 : ℚ) ^ e := by
  unfold pow2
  split_ifs with h
  · obtain ⟨n, rfl⟩ := Int.eq_ofNat_of_zero_le h
    simp
  · have h0 : 0 ≤ -e := by omega
    obtain ⟨n, hn⟩ := Int.eq_ofNat_of_zero_le h0
    have he : e = -(n : ℤ) := by omega
    subst he
    simp

theorem pow2_pos (e : ℤ) : 0 < pow2 e := by
  rw [pow2_eq_zpow]; exact zpow_pos (by norm_num) e

theorem pow2_add (a b : ℤ) : pow2 (a + b) = pow2 a * pow2 b := by
  simp only [pow2_eq_zpow]; exact zpow_add₀ (by norm_num) a b

theorem pow2_succ (e : ℤ) : pow2 (e + 1) = 2 * pow2 e := by
  rw [pow2_add, mul_comm]; congr 1

theorem pow2_mono {a b : ℤ} (h : a ≤ b) : pow2 a ≤ pow2 b := by
  simp only [pow2_eq_zpow]; exact zpow_le_zpow_right₀ (by norm_num) h

theorem pow2_lt_iff {a b : ℤ} : pow2 a < pow2 b ↔ a < b := by
  simp only [pow2_eq_zpow]; exact zpow_lt_zpow_iff_right₀ (by norm_num)

/-- binades are disjoint: the exponent `e` with `2^e ≤ a < 2^(e+1)` is unique, and monotone in `a` -/
theorem binade_le {x y : ℚ} {ex ey : ℤ} (hx : pow2 ex ≤ x) (hy : y < pow2 (ey + 1)) (hxy : x ≤ y) :
    ex ≤ ey := by
  have : pow2 ex < pow2 (ey + 1) := lt_of_le_of_lt (le_trans hx hxy) hy
  have := pow2_lt_iff.mp this
  omega

theorem binade_unique {a : ℚ} {e e' : ℤ} (h1 : pow2 e ≤ a) (h2 : a < pow2 (e + 1))
    (h1' : pow2 e' ≤ a) (h2' : a < pow2 (e' + 1)) : e = e' :=
  le_antisymm (binade_le h1 h2' le_rfl) (binade_le h1' h2 le_rfl)

/-! ### the binade computed by `toDouble` -/

/-- the exponent `toDouble` computes for a positive `a` -/
def binExp (a : ℚ) : ℤ :=
  let e0 : Int := (Nat.log2 a.num.natAbs : Int) - (Nat.log2 a.den : Int)
  if a < pow2 e0 then e0 - 1 else if a ≥ pow2 (e0 + 1) then e0 + 1 else e0

theorem natCast_pow2 (n : ℕ) : ((2 ^ n : ℕ) : ℚ) = pow2 (n : ℤ) := by
  rw [pow2_eq_zpow]; simp

theorem binExp_spec {a : ℚ} (ha : 0 < a) : pow2 (binExp a) ≤ a ∧ a < pow2 (binExp a + 1) := by
  have hnum : 0 < a.num := Rat.num_pos.mpr ha
  have hn0 : a.num.natAbs ≠ 0 := by omega
  have hd0 : a.den ≠ 0 := a.den_nz
  have hn1 : 2 ^ a.num.natAbs.log2 ≤ a.num.natAbs := Nat.log2_self_le hn0
  have hn2 : a.num.natAbs < 2 ^ (a.num.natAbs.log2 + 1) := Nat.lt_log2_self
  have hd1 : 2 ^ a.den.log2 ≤ a.den := Nat.log2_self_le hd0
  have hd2 : a.den < 2 ^ (a.den.log2 + 1) := Nat.lt_log2_self
  have hdpos : (0 : ℚ) < (a.den : ℚ) := by exact_mod_cast Nat.pos_of_ne_zero hd0
  have hmul : a * (a.den : ℚ) = (a.num.natAbs : ℚ) := by
    rw [Rat.mul_den_eq_num, ← Int.cast_natCast, Int.natAbs_of_nonneg hnum.le]
  -- rational versions of the four log2 bounds
  have qn1 : pow2 (a.num.natAbs.log2 : ℤ) ≤ (a.num.natAbs : ℚ) := by
    rw [← natCast_pow2]; exact_mod_cast hn1
  have qn2 : (a.num.natAbs : ℚ) < pow2 ((a.num.natAbs.log2 : ℤ) + 1) := by
    have : ((a.num.natAbs.log2 : ℤ) + 1) = ((a.num.natAbs.log2 + 1 : ℕ) : ℤ) := by push_cast; ring
    rw [this, ← natCast_pow2]; exact_mod_cast hn2
  have qd1 : pow2 (a.den.log2 : ℤ) ≤ (a.den : ℚ) := by
    rw [← natCast_pow2]; exact_mod_cast hd1
  have qd2 : (a.den : ℚ) < pow2 ((a.den.log2 : ℤ) + 1) := by
    have : ((a.den.log2 : ℤ) + 1) = ((a.den.log2 + 1 : ℕ) : ℤ) := by push_cast; ring
    rw [this, ← natCast_pow2]; exact_mod_cast hd2
  set ln : ℤ := (a.num.natAbs.log2 : ℤ) with hln
  set ld : ℤ := (a.den.log2 : ℤ) with hld
  -- 2^(ln-ld-1) < a < 2^(ln-ld+1)
  have lo : pow2 (ln - ld - 1) < a := by
    have e1 : pow2 (ln - ld - 1) * pow2 (ld + 1) = pow2 ln := by
      rw [← pow2_add]; congr 1; ring
    have : pow2 (ln - ld - 1) * (a.den : ℚ) < a * (a.den : ℚ) := by
      calc pow2 (ln - ld - 1) * (a.den : ℚ) < pow2 (ln - ld - 1) * pow2 (ld + 1) :=
            mul_lt_mul_of_pos_left qd2 (pow2_pos _)
        _ = pow2 ln := e1
        _ ≤ (a.num.natAbs : ℚ) := qn1
        _ = a * (a.den : ℚ) := hmul.symm
    exact lt_of_mul_lt_mul_right this hdpos.le
  have hi : a < pow2 (ln - ld + 1) := by
    have e1 : pow2 (ln - ld + 1) * pow2 ld = pow2 (ln + 1) := by
      rw [← pow2_add]; congr 1; ring
    have : a * (a.den : ℚ) < pow2 (ln - ld + 1) * (a.den : ℚ) := by
      calc a * (a.den : ℚ) = (a.num.natAbs : ℚ) := hmul
        _ < pow2 (ln + 1) := qn2
        _ = pow2 (ln - ld + 1) * pow2 ld := e1.symm
        _ ≤ pow2 (ln - ld + 1) * (a.den : ℚ) :=
            mul_le_mul_of_nonneg_left qd1 (pow2_pos _).le
    exact lt_of_mul_lt_mul_right this hdpos.le
  have hb : binExp a =
      (if a < pow2 (ln - ld) then ln - ld - 1
       else if a ≥ pow2 (ln - ld + 1) then ln - ld + 1 else ln - ld) := rfl
  rw [hb]
  split_ifs with h1 h2
  · refine ⟨lo.le, ?_⟩
    have : ln - ld - 1 + 1 = ln - ld := by ring
    rw [this]; exact h1
  · exact absurd hi (not_lt.mpr h2)
  · exact ⟨not_lt.mp h1, hi⟩

/-! ### `toDouble` on positives -/

theorem toDouble_zero : toDouble 0 = 0 := by
  unfold toDouble; simp

theorem toDouble_of_pos {a : ℚ} (ha : 0 < a) :
    toDouble a = (roundHE (a / pow2 (binExp a - 52)) : ℚ) * pow2 (binExp a - 52) := by
  have h0 : a ≠ 0 := ha.ne'
  have h1 : ¬ a < 0 := not_lt.mpr ha.le
  unfold toDouble binExp
  simp only [h0, h1, if_false]

theorem toDouble_of_neg {q : ℚ} (hq : q < 0) : toDouble q = - toDouble (-q) := by
  have h0 : q ≠ 0 := hq.ne
  have hp : 0 < -q := by linarith
  have h0' : -q ≠ 0 := hp.ne'
  have h1' : ¬ -q < 0 := not_lt.mpr hp.le
  unfold toDouble
  simp only [h0, hq, h0', h1', if_true, if_false]

/-- `toDouble` is odd -/
theorem toDouble_neg (q : ℚ) : toDouble (-q) = - toDouble q := by
  rcases lt_trichotomy q 0 with h | h | h
  · rw [toDouble_of_neg h, neg_neg]
  · subst h; simp [toDouble_zero]
  · have : -q < 0 := by linarith
    rw [toDouble_of_neg this, neg_neg]

/-- the characterisation by any exponent of the right binade -/
theorem toDouble_of_binade {a : ℚ} {e : ℤ} (h1 : pow2 e ≤ a) (h2 : a < pow2 (e + 1)) :
    toDouble a = (roundHE (a / pow2 (e - 52)) : ℚ) * pow2 (e - 52) := by
  have ha : 0 < a := lt_of_lt_of_le (pow2_pos e) h1
  obtain ⟨s1, s2⟩ := binExp_spec ha
  rw [toDouble_of_pos ha, binade_unique s1 s2 h1 h2]

theorem pow2_52 : pow2 52 = ((4503599627370496 : ℤ) : ℚ) := by
  rw [pow2_eq_zpow]; norm_num

theorem pow2_53 : pow2 53 = ((9007199254740992 : ℤ) : ℚ) := by
  rw [pow2_eq_zpow]; norm_num

/-- the result stays in the closed binade -/
theorem toDouble_binade_bounds {a : ℚ} {e : ℤ} (h1 : pow2 e ≤ a) (h2 : a < pow2 (e + 1)) :
    pow2 e ≤ toDouble a ∧ toDouble a ≤ pow2 (e + 1) := by
  rw [toDouble_of_binade h1 h2]
  have hp := pow2_pos (e - 52)
  have e52 : pow2 52 * pow2 (e - 52) = pow2 e := by rw [← pow2_add]; congr 1; ring
  have e53 : pow2 53 * pow2 (e - 52) = pow2 (e + 1) := by rw [← pow2_add]; congr 1; ring
  have lo : pow2 52 ≤ a / pow2 (e - 52) := by
    rw [le_div_iff₀ hp, e52]; exact h1
  have hi : a / pow2 (e - 52) ≤ pow2 53 := by
    rw [div_le_iff₀ hp, e53]; exact h2.le
  rw [pow2_52] at lo
  rw [pow2_53] at hi
  have rlo := roundHE_ge_of_ge _ _ lo
  have rhi := roundHE_le_of_le _ _ hi
  have rlo' : pow2 52 ≤ (roundHE (a / pow2 (e - 52)) : ℚ) := by
    rw [pow2_52]; exact_mod_cast rlo
  have rhi' : (roundHE (a / pow2 (e - 52)) : ℚ) ≤ pow2 53 := by
    rw [pow2_53]; exact_mod_cast rhi
  constructor
  · rw [← e52]; exact mul_le_mul_of_nonneg_right rlo' hp.le
  · rw [← e53]; exact mul_le_mul_of_nonneg_right rhi' hp.le

theorem toDouble_pos {a : ℚ} (ha : 0 < a) : 0 < toDouble a := by
  obtain ⟨s1, s2⟩ := binExp_spec ha
  exact lt_of_lt_of_le (pow2_pos _) (toDouble_binade_bounds s1 s2).1

theorem toDouble_nonneg {a : ℚ} (ha : 0 ≤ a) : 0 ≤ toDouble a := by
  rcases ha.lt_or_eq with h | h
  · exact (toDouble_pos h).le
  · rw [← h, toDouble_zero]

theorem toDouble_nonpos {a : ℚ} (ha : a ≤ 0) : toDouble a ≤ 0 := by
  have := toDouble_nonneg (a := -a) (by linarith)
  rw [toDouble_neg] at this; linarith

theorem toDouble_mono_pos {x y : ℚ} (hx : 0 < x) (hxy : x ≤ y) : toDouble x ≤ toDouble y := by
  have hy : 0 < y := lt_of_lt_of_le hx hxy
  obtain ⟨x1, x2⟩ := binExp_spec hx
  obtain ⟨y1, y2⟩ := binExp_spec hy
  have hle : binExp x ≤ binExp y := binade_le x1 y2 hxy
  rcases hle.lt_or_eq with hlt | heq
  · calc toDouble x ≤ pow2 (binExp x + 1) := (toDouble_binade_bounds x1 x2).2
      _ ≤ pow2 (binExp y) := pow2_mono (by omega)
      _ ≤ toDouble y := (toDouble_binade_bounds y1 y2).1
  · rw [toDouble_of_pos hx, toDouble_of_pos hy, heq]
    have hp := pow2_pos (binExp y - 52)
    apply mul_le_mul_of_nonneg_right _ hp.le
    exact_mod_cast roundHE_mono (div_le_div_of_nonneg_right hxy hp.le)

/-- **IEEE round-to-nearest-even is monotone** (on the whole of ℚ) -/
theorem toDouble_mono {x y : ℚ} (hxy : x ≤ y) : toDouble x ≤ toDouble y := by
  rcases lt_or_ge 0 x with hx | hx
  · exact toDouble_mono_pos hx hxy
  · rcases le_or_gt 0 y with hy | hy
    · exact le_trans (toDouble_nonpos hx) (toDouble_nonneg hy)
    · have h := toDouble_mono_pos (x := -y) (y := -x) (by linarith) (by linarith)
      rw [toDouble_neg, toDouble_neg] at h
      linarith

/-- a positive rational whose scaled mantissa is an integer is a double: `toDouble` fixes it -/
theorem toDouble_fix {a : ℚ} {e : ℤ} (h1 : pow2 e ≤ a) (h2 : a < pow2 (e + 1)) (m : ℤ)
    (hm : a / pow2 (e - 52) = (m : ℚ)) : toDouble a = a := by
  rw [toDouble_of_binade h1 h2, hm, roundHE_intCast, ← hm]
  have hp := pow2_pos (e - 52)
  field_simp

theorem toDouble_one : toDouble 1 = 1 := by
  apply toDouble_fix (e := 0) _ _ 4503599627370496
  all_goals simp only [pow2_eq_zpow]; norm_num

theorem toDouble_two : toDouble 2 = 2 := by
  apply toDouble_fix (e := 1) _ _ 4503599627370496
  all_goals simp only [pow2_eq_zpow]; norm_num

theorem toDouble_three : toDouble 3 = 3 := by
  apply toDouble_fix (e := 1) _ _ 6755399441055744
  all_goals simp only [pow2_eq_zpow]; norm_num

/-- every integer of magnitude below 2^53 is a fixed point (non-negative case) -/
theorem toDouble_natCast_binade (n : ℕ) (k : ℕ) (hk : k ≤ 52) (h1 : 2 ^ k ≤ n) (h2 : n < 2 ^ (k + 1)) :
    toDouble (n : ℚ) = n := by
  have hk' : (52 - k : ℕ) + k = 52 := by omega
  apply toDouble_fix (e := (k : ℤ)) _ _ ((n * 2 ^ (52 - k) : ℕ) : ℤ)
  · have : (k : ℤ) - 52 = -((52 - k : ℕ) : ℤ) := by omega
    rw [this, pow2_eq_zpow, zpow_neg, zpow_natCast]
    push_cast
    rw [div_inv_eq_mul]
  · rw [← natCast_pow2]; exact_mod_cast h1
  · have : ((k : ℤ) + 1) = ((k + 1 : ℕ) : ℤ) := by push_cast; ring
    rw [this, ← natCast_pow2]; exact_mod_cast h2

end Py
