/-
  C19 side of the SQL tie, part 4 — THE JOIN TIE: `Model.getIntersection` (Model/TableJoin.lean: nested-loop join filtered
  by the ON clause, sliced per structure) equals "statement text of the TRANSLATED builder (Gen/Sql.lean
  `intersection_query`) → MicroSql (`execJoin`) → the TRANSLATED cutting (`intersection_split`, `intersection_ncol`)".
-/
import PdbVerif.Proofs.SqlJoinExec
import PdbVerif.Proofs.SqlChunk

set_option linter.unusedVariables false
set_option linter.unusedSimpArgs false

namespace SqlProofs
open Tbl Model MicroSql GenSql

/-! ### cutting a row made of equal-length blocks -/

theorem block_of_flatMap {α β : Type} (f : α → List β) (k : Nat) : ∀ (l : List α) (it : Nat), (∀ a ∈ l, (f a).length = k) →
    ((l.flatMap f).drop (it * k)).take k = onOpt l[it]? f
  | [], it, _ => by simp [onOpt]
  | a :: t, 0, h => by
    simp only [Nat.zero_mul, List.drop_zero, List.flatMap_cons, List.getElem?_cons_zero, onOpt]
    rw [List.take_left' (h a (by simp))]
  | a :: t, it + 1, h => by
    have ih := block_of_flatMap f k t it (fun x hx => h x (by simp [hx]))
    simp only [List.flatMap_cons, List.getElem?_cons_succ]
    rw [Nat.succ_mul, Nat.add_comm (it * k) k, ← List.drop_drop, List.drop_left' (h a (by simp))]
    exact ih

theorem cut_flat (ncol : Nat) (f : Row → List Val) (tup : List Row) (it : Nat) (h : ∀ r ∈ tup, (f r).length = ncol) :
    cut (ncol : Int) (tup.flatMap f) it = onOpt tup[it]? f := by
  unfold cut
  have e : ((it : Int) + 1) * (ncol : Int) = ((it * ncol : Nat) : Int) + (ncol : Int) := by
    rw [Int.add_mul, Int.one_mul]; push_cast; rfl
  rw [show (it : Int) * (ncol : Int) = ((it * ncol : Nat) : Int) from by push_cast; rfl, e, slice_nat]
  exact block_of_flatMap f ncol tup it h


/-! ### the columns of the statement and the model's columns -/

theorem star_ne_name (c : Py.Str) (h : isName c = true) : c ≠ ['*'] := by
  intro he; subst he; revert h; decide

/-- column pieces that are plain names: `colOf` agrees with the model's resolution `sqlCol db (strip ·)` -/
theorem cols_names (db : Db) (hx : db.extra = []) : ∀ (pieces : List Py.Str), (∀ c ∈ pieces, isName c = true ∧ NoAlias c) →
    (match pieces.mapM (colOf db) with
     | .ok colss => pieces.mapM (fun n => sqlCol db (Py.strip n)) = some colss.flatten ∧ colss.flatten.length = pieces.length ∧
         (∀ c ∈ colss.flatten, ∃ s, c = Col.std s)
     | .error e => e = Model.Err.operational ∧ pieces.mapM (fun n => sqlCol db (Py.strip n)) = none)
  | [], _ => by simp [pure, Except.pure]
  | c :: t, h => by
    have ih := cols_names db hx t (fun x hx' => h x (by simp [hx']))
    obtain ⟨hn, ha⟩ := h c (by simp)
    have hc : colOf db c = (match matchCol c with | some s => .ok [Col.std s] | none => .error .operational) := by
      unfold colOf; rw [if_neg (star_ne_name c hn)]; cases matchCol c <;> rfl
    have hs : sqlCol db (Py.strip c) = (matchCol c).map Col.std := by rw [strip_name c hn, sqlCol_std db hx c ha]
    simp only [List.mapM_cons, hc, hs, bind, Except.bind, Option.bind]
    cases hm : matchCol c with
    | none => simp
    | some s =>
      simp only [Option.map_some]
      cases ht : t.mapM (colOf db) with
      | error e => rw [ht] at ih; simp [ih.1, ih.2]
      | ok colss =>
        rw [ht] at ih
        obtain ⟨i1, i2, i3⟩ := ih
        simp only [pure, Except.pure, i1, List.flatten_cons, List.singleton_append, List.length_cons, i2]
        refine ⟨trivial, trivial, ?_⟩
        intro x hx'
        rcases List.mem_cons.1 hx' with rfl | hx'
        · exact ⟨s, rfl⟩
        · exact i3 x hx'

theorem std_sqlCol (db : Db) (s : StdCol) : sqlCol db (Py.strip s.pyName) = some (.std s) := by
  cases s <;> rfl

theorem cols_star (db : Db) : (StdCol.all.map StdCol.pyName).mapM (fun n => sqlCol db (Py.strip n)) = some (StdCol.all.map Col.std) := by
  rw [List.mapM_map]
  have : ∀ l : List StdCol, l.mapM (fun s => sqlCol db (Py.strip s.pyName)) = some (l.map Col.std) := by
    intro l; induction l with
    | nil => rfl
    | cons a t ih => rw [List.mapM_cons, std_sqlCol, ih]; rfl
  exact this _


/-! ### `get_intersection` through the translated text -/

/-- **`get_intersection` computed from the translated units**: the statement text of `GenSql.intersection_query`, evaluated by
    MicroSql, cut into one row list per structure by `GenSql.intersection_split` (with `GenSql.intersection_ncol`) -/
def intersectionViaSql (db : Db) (column : Py.Str) (mnames : List Py.Str) : Except Model.Err (List (List (List Val))) :=
  match intersection_query (db.tabs.map (·.name)) column mnames with
  | .error e => .error (errOf e)
  | .ok text =>
    match MicroSql.query db text [] with
    | .error e => .error e
    | .ok rows =>
      match intersection_split rows (Rt.len (db.tabs.map (·.name))) (intersection_ncol (db.tabs.map (·.name)) column) with
      | .error e => .error (errOf e)
      | .ok d => .ok d

/-- the requested columns: `*`, or plain names none of which is a name of the rowid -/
def JoinCols (column : Py.Str) : Prop := column = ['*'] ∨ ∀ c ∈ Py.splitOn ',' column, isName c = true ∧ NoAlias c

theorem splitFrom_rows (ncol : Nat) (n : Nat) (joined : List (List Row)) (f : Row → List Val)
    (hf : ∀ tup ∈ joined, ∀ r ∈ tup, (f r).length = ncol) :
    splitFrom (ncol : Int) 0 n (joined.map (fun tup => tup.flatMap f)) =
      (List.range n).map (fun it => joined.map (fun tup => onOpt tup[it]? f)) := by
  unfold splitFrom
  rw [List.range_eq_range']
  apply List.map_congr_left
  intro it _
  rw [List.map_map]
  apply List.map_congr_left
  intro tup htup
  exact cut_flat ncol f tup it (hf tup htup)

/-- **The join tie.**  For a `many2sql` database (no added columns, table names plain and pairwise different), `*` or plain
    column names, plain match attributes that are standard attributes: the hand model `Model.getIntersection` — nested-loop
    join filtered by the ON clause, sliced per structure — IS the translated statement text run by MicroSql and cut by the
    translated post-processing.  Row ORDER: both sides list the joined tuples in the order of the nested loops (first table
    outermost); SQLite does not promise that order, the property theorems of Props/C19 do not use it, and the
    correspondence run compares sorted tuples. -/
theorem getIntersection_eq_sql (db : Db) (hdb : JoinDb db) (hne : db.tabs ≠ []) (htn : ∀ t ∈ db.tabs, isName t.name = true)
    (column : Py.Str) (hcol : JoinCols column) (mnames : List Py.Str) (hmn : ∀ a ∈ mnames, isName a = true ∧ NoAlias a)
    (m : List StdCol) (hm : mnames.mapM matchCol = some m) :
    intersectionViaSql db column mnames = Model.getIntersection db column mnames := by
  have hx := hdb.noExtra
  have hmF := (TableProofs.option_mapM_eq_some matchCol mnames m).1 hm
  obtain ⟨names, hnames⟩ : ∃ names, names = db.tabs.map (·.name) := ⟨_, rfl⟩
  have hnne : names ≠ [] := by rw [hnames]; simpa using hne
  have hnn : ∀ n ∈ names, isName n = true := by
    intro n hn; rw [hnames] at hn; obtain ⟨t, ht, rfl⟩ := List.mem_map.1 hn; exact htn t ht
  -- the pieces of the column string
  have hpieces : ∀ c ∈ Py.splitOn ',' column, (c = ['*'] ∨ isName c = true) ∧ (c = ['*'] ∨ NoAlias c) := by
    intro c hc
    rcases hcol with h | h
    · subst h
      have : Py.splitOn ',' ['*'] = [['*']] := by decide
      rw [this] at hc; simp at hc; subst hc; exact ⟨Or.inl rfl, Or.inl rfl⟩
    · exact ⟨Or.inr (h c hc).1, Or.inr (h c hc).2⟩
  have hplain : JoinPlain names (Py.splitOn ',' column) mnames :=
    ⟨hnn, fun c hc => (hpieces c hc).1, fun a ha => (hmn a ha).1⟩
  unfold intersectionViaSql
  rw [← hnames, intersection_query_nf]
  simp only [MicroSql.query, parse_joinText names _ mnames hnne (splitOn_ne_nil' ',' column) hplain, joinStmt, List.isEmpty_nil, if_true]
  -- the model's columns
  have hmodel : ∀ colss, (Py.splitOn ',' column).mapM (colOf db) = .ok colss →
      (if column = "*".toList then StdCol.all.map StdCol.pyName else Py.splitOn ',' column).mapM (fun n => sqlCol db (Py.strip n)) =
        some colss.flatten ∧ (∀ c ∈ colss.flatten, ∃ s, c = Col.std s) ∧
        intersection_ncol names column = (colss.flatten.length : Int) := by
    intro colss hc
    rcases hcol with h | h
    · subst h
      have hsp : Py.splitOn ',' ['*'] = [['*']] := by decide
      rw [hsp] at hc
      simp only [List.mapM_cons, List.mapM_nil, colOf, if_true, bind, Except.bind, pure, Except.pure, Except.ok.injEq] at hc
      subst hc
      have hfl : [starCols []].flatten = StdCol.all.map Col.std := by simp [starCols]
      rw [hfl]
      refine ⟨by rw [if_pos (show (['*'] : Py.Str) = "*".toList from rfl)]; exact cols_star db, ?_,
        by simp [intersection_ncol, Rt.len, Gen.col, StdCol.all]⟩
      intro c hc'; obtain ⟨s, _, rfl⟩ := List.mem_map.1 hc'; exact ⟨s, rfl⟩
    · have hns : ¬ column = "*".toList := by
        intro he
        have hsp : Py.splitOn ',' column = [['*']] := by rw [he]; decide
        have := (h ['*'] (by rw [hsp]; simp)).1
        revert this; decide
      have := cols_names db hx _ h
      rw [hc] at this
      obtain ⟨i1, i2, i3⟩ := this
      refine ⟨by rw [if_neg hns]; exact i1, i3, ?_⟩
      have hns' : ¬ column = ['*'] := hns
      simp [intersection_ncol, hns', Rt.len, i2]
  have hmodelE : ∀ e, (Py.splitOn ',' column).mapM (colOf db) = .error e → e = Model.Err.operational ∧
      (if column = "*".toList then StdCol.all.map StdCol.pyName else Py.splitOn ',' column).mapM (fun n => sqlCol db (Py.strip n)) = none := by
    intro e hc
    rcases hcol with h | h
    · subst h
      have hsp : Py.splitOn ',' ['*'] = [['*']] := by decide
      rw [hsp] at hc
      simp [List.mapM_cons, colOf, bind, Except.bind, pure, Except.pure] at hc
    · have hns : ¬ column = "*".toList := by
        intro he
        have hsp : Py.splitOn ',' column = [['*']] := by rw [he]; decide
        have := (h ['*'] (by rw [hsp]; simp)).1
        revert this; decide
      have := cols_names db hx _ h
      rw [hc] at this
      exact ⟨this.1, by rw [if_neg hns]; exact this.2⟩
  have hidx1 : ∀ ni ∈ names.zipIdx, tabIdx names ni.1 = some ni.2 := by
    intro ni hni
    have := List.mem_zipIdx_iff_getElem?.1 hni
    simp only [hnames, List.getElem?_map, Nat.zero_add, Option.map_eq_some_iff] at this
    obtain ⟨t, ht, hn⟩ := this
    rw [← hn, hnames]; exact hdb.idx ni.2 t (by simpa using ht)
  unfold getIntersection
  obtain ⟨m', hm', hj⟩ := JoinProofs.matchCols_some db mnames m hm
  simp only [hx, List.isEmpty_nil, Bool.not_true, Bool.false_eq_true, if_false, hm', hj]
  cases hc : (Py.splitOn ',' column).mapM (colOf db) with
  | error e =>
    obtain ⟨he, hnone⟩ := hmodelE e hc
    subst he
    rw [hnone]
    have hfe := fields_resolve_err db hx names (Py.splitOn ',' column) hnne hidx1 (fun c hc' => (hpieces c hc').2) _ hc
    have hfind : names.mapM (findTab db) = some db.tabs := by rw [hnames]; exact hdb.find
    simp only [execJoin, hx, List.isEmpty_nil, Bool.not_true, Bool.false_eq_true, if_false, hfind, hfe, bind, Except.bind]
  | ok colss =>
    obtain ⟨hcols, hstd, hncol⟩ := hmodel colss hc
    rw [hcols]
    have hnr : colss.flatten.contains Col.rowID = false := by
      rw [Bool.eq_false_iff]; intro hcon
      obtain ⟨s, hs⟩ := hstd _ (List.contains_iff_mem.1 hcon)
      cases hs
    simp only [hnr, Bool.false_eq_true, if_false]
    have hex := execJoin_eq db hdb (Py.splitOn ',' column) mnames m colss (fun c hc' => (hpieces c hc').2) hc hmF (fun a ha => (hmn a ha).2)
    rw [← hnames] at hex
    rw [hex]
    simp only []
    rw [show Rt.len names = ((names.length : Nat) : Int) from rfl, hncol, intersection_split_nf,
      splitFrom_rows colss.flatten.length names.length _ _ (by intro tup _ r _; exact List.length_map _)]
    simp only [Except.ok.injEq]
    rw [show names.length = db.tabs.length from by rw [hnames]; simp]
    apply List.map_congr_left
    intro it _
    rw [hj]
    apply List.map_congr_left
    intro tup _
    cases tup[it]? <;> rfl

end SqlProofs
