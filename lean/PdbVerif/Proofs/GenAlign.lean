/-
  Tie #1 for the database-level glue of align.py: every definition that `py/translate_ext_align.py` generates from the current
  source (`Gen/Align.lean`, namespace `GenA`) against the hand models the C18 theorems are stated about (`Model.alignPcaVect`,
  `Model.planeAxis`, `Model.getXYZ` / `updateXYZ`, `Model.argmax`, `Model.contactAtoms`, `Model.SupDb.rstripPdb`).

  This file: the runtime operations of the unit `align_runtime` against the model's primitives, and ONE normal-form lemma per
  generated unit (`gena_<unit>_nf`).  Everything else (GenAlignMain.lean) is built on the normal forms, so a harmless rewrite of the
  source that keeps a normal form keeps every theorem, and a source edit that changes the meaning of a unit breaks its normal form.
  Helper lemmas and the equivalences only.
-/
import Mathlib.Algebra.Order.Field.Rat
import PdbVerif.Gen.Align
import PdbVerif.Model.Align
import PdbVerif.Model.SuperposeDb
import PdbVerif.Proofs.GenKernels

set_option linter.unusedSectionVars false
set_option linter.unusedVariables false
set_option linter.unusedSimpArgs false
set_option linter.unusedTactic false
set_option linter.unreachableTactic false
set_option linter.style.nameCheck false

namespace Proofs.GenAlign
open Py Model GenA

/-! ### `Except`: what a `do` block is -/

theorem bind_ok {ε α β : Type} (a : α) (f : α → Except ε β) : (Except.ok a : Except ε α) >>= f = f a := rfl
theorem bind_error {ε α β : Type} (e : ε) (f : α → Except ε β) : (Except.error e : Except ε α) >>= f = .error e := rfl
theorem pure_eq {ε α : Type} (a : α) : (pure a : Except ε α) = .ok a := rfl
theorem bind_ok_eta {ε α : Type} (x : Except ε α) : (x >>= fun a => Except.ok a) = x := by cases x <;> rfl
theorem map_eq_bind {ε α β : Type} (f : α → β) (x : Except ε α) : Except.map f x = x >>= fun a => Except.ok (f a) := by
  cases x <;> rfl
theorem bind_bind {ε α β γ : Type} (x : Except ε α) (f : α → Except ε β) (g : β → Except ε γ) :
    (x >>= f) >>= g = x >>= fun a => f a >>= g := by cases x <;> rfl
/-- two `do` blocks that start with the same action are equal when their continuations agree on what the action returns
    (the continuations are taken from the goal by unification: no proof quotes generated text) -/
theorem bind_congr_ok {ε α β : Type} {x : Except ε α} {f g : α → Except ε β} (h : ∀ a, x = .ok a → f a = g a) :
    x >>= f = x >>= g := by
  cases x with
  | error e => rfl
  | ok a => exact h a rfl

/-- a `for` loop whose body cannot raise is a `foldl` -/
theorem foldlM_pure {ε α β : Type} (f : β → α → β) (init : β) (l : List α) :
    List.foldlM (m := Except ε) (fun b a => Except.ok (f b a)) init l = .ok (l.foldl f init) := by
  induction l generalizing init with
  | nil => rfl
  | cons a l ih => simp only [List.foldlM_cons, List.foldl_cons]; exact ih (f init a)

/-- `acc += v` over the values: the concatenation -/
theorem foldl_append_flatten {α : Type} (init : List α) (l : List (List α)) :
    l.foldl (fun acc v => acc ++ v) init = init ++ l.flatten := by
  induction l generalizing init with
  | nil => simp
  | cons a l ih => simp [ih]

/-! ### the runtime unit against the model's primitives -/

/-- the selection `**kwargs` denotes, as the model's `Sel` -/
def selOf (cond : Tbl.IRow → Bool) : Sel := fun i a => cond (a, i)

/-- `np.array(sql.get('x,y,z', **kw))` = `Model.getXYZ` of the selection -/
theorem array3_select (t : List Atom) (cond : Tbl.IRow → Bool) :
    Rt.array3 (Tbl.select t (fun r => cond r) (fun r => (r.1.x, r.1.y, r.1.z))) = getXYZ (selOf cond) t := by
  unfold getXYZ
  rw [Proofs.Tr.getFrom_eq]
  simp only [Rt.array3, Tbl.select, List.map_map, selOf]
  rfl

theorem selOf_true : selOf (fun _ => true) = selAll := rfl

/-- `sql.update('x,y,z', values)` = `Model.updateXYZ` on every row -/
theorem updateXYZ_all (sql : Rt.Db) (vals : List (Vec3 Rat)) :
    Rt.updateXYZ sql (fun _ => true) vals =
      match updateXYZ selAll vals sql.atoms with
      | .error e => .error e
      | .ok t => .ok { sql with atoms := t } := rfl

/-- `np.argmax(u)` = the model's `argmax` (first maximal entry) -/
theorem argmax3_eq_model {α : Type} [LT α] [DecidableLT α] (u : Vec3 α) : Rt.argmax3 u = Model.argmax [u.x, u.y, u.z] := rfl

/-- the component `u[k]` -/
def comp {α : Type} (u : Vec3 α) (k : Nat) : α := match k with | 0 => u.x | 1 => u.y | _ => u.z

section order
variable {α : Type} [LinearOrder α]

/-- `np.argmax` selects a maximal entry -/
theorem argmax3_max (u : Vec3 α) :
    Rt.argmax3 u < 3 ∧ u.x ≤ comp u (Rt.argmax3 u) ∧ u.y ≤ comp u (Rt.argmax3 u) ∧ u.z ≤ comp u (Rt.argmax3 u) := by
  simp only [Rt.argmax3, Rt.argmaxFrom]
  split_ifs <;> simp only [comp] <;> refine ⟨by omega, ?_, ?_, ?_⟩ <;> grind

/-- `np.argmin` selects a minimal entry -/
theorem argmin3_min (u : Vec3 α) :
    Rt.argmin3 u < 3 ∧ comp u (Rt.argmin3 u) ≤ u.x ∧ comp u (Rt.argmin3 u) ≤ u.y ∧ comp u (Rt.argmin3 u) ≤ u.z := by
  simp only [Rt.argmin3, Rt.argminFrom]
  split_ifs <;> simp only [comp] <;> refine ⟨by omega, ?_, ?_, ?_⟩ <;> grind

end order

/-- `v[:, k]` for `k < 3` is the model's column -/
theorem col_lt {α : Type} (M : Mat3 α) (k : Nat) (h : k < 3) : Rt.col M k = .ok (Mat3.col M k) := by
  simp [Rt.col, h]

/-- `s.rstrip('.pdb')` = the model's `rstripPdb` (a character SET is stripped) -/
theorem rstripChars_pdb (s : Str) : Rt.rstripChars s ['.', 'p', 'd', 'b'] = Model.SupDb.rstripPdb s := by
  unfold Rt.rstripChars Model.SupDb.rstripPdb
  congr 2
  funext c
  simp [List.mem_cons, Bool.or_assoc]

/-- `np.mean(mat.T, axis=1)`: the mean point of a non-empty array; `AxisError` (a `ValueError`) for `np.array([])` -/
theorem meanAxis1_eq {α : Type} [Add α] [Sub α] [Mul α] [Neg α] [Div α] [NatCast α] [OfNat α 0] [OfNat α 1] [OfNat α 2]
    (X : List (Vec3 α)) :
    Rt.meanAxis1 (Np.T X) = if X = [] then .error .valueError else .ok (mean X) := by
  cases X with
  | nil => rfl
  | cons p X => simp [Rt.meanAxis1, Np.T, Proofs.GenKernels.np_mean0]

/-! ### normal forms, one per generated unit -/

section generic
variable {α : Type} [Add α] [Sub α] [Mul α] [Neg α] [Div α] [NatCast α] [OfNat α 0] [OfNat α 1] [OfNat α 2] [LT α] [DecidableLT α]

/-- what `pca` hands to `np.cov`: the centred coordinates, transposed -/
def scat (X : List (Vec3 α)) : Np.PointsT α := Np.T (Np.subRow X (mean X))

/-- unit `align_pca`: `pca(mat)` = `eigh(cov(scat))`; `ValueError` on the empty array -/
theorem gena_pca_nf (cov : Np.PointsT α → Except Err (Mat3 α)) (eigh : Mat3 α → Except Err (Vec3 α × Mat3 α)) (X : List (Vec3 α)) :
    GenA.pca cov eigh X = if X = [] then .error .valueError else cov (scat X) >>= eigh := by
  unfold GenA.pca
  simp only [meanAxis1_eq]
  by_cases hX : X = []
  · simp only [hX, if_true, bind_error]
  · simp only [hX, if_false, bind_ok, pure_eq, Prod.mk.eta, bind_ok_eta, scat]

/-- unit `align_get_max_pca_vect`: the column of the FIRST MAXIMAL eigenvalue -/
theorem gena_get_max_pca_vect_nf (cov : Np.PointsT α → Except Err (Mat3 α)) (eigh : Mat3 α → Except Err (Vec3 α × Mat3 α))
    (X : List (Vec3 α)) :
    GenA.get_max_pca_vect cov eigh X = GenA.pca cov eigh X >>= fun p => Rt.col p.2 (Model.argmax [p.1.x, p.1.y, p.1.z]) := by
  unfold GenA.get_max_pca_vect
  simp only [pure_eq, bind_ok_eta, argmax3_eq_model]
  try rfl

/-- unit `align_get_min_pca_vect`: the column of the FIRST MINIMAL eigenvalue -/
theorem gena_get_min_pca_vect_nf (cov : Np.PointsT α → Except Err (Mat3 α)) (eigh : Mat3 α → Except Err (Vec3 α × Mat3 α))
    (X : List (Vec3 α)) :
    GenA.get_min_pca_vect cov eigh X = GenA.pca cov eigh X >>= fun p => Rt.col p.2 (Rt.argmin3 p.1) := by
  unfold GenA.get_min_pca_vect
  simp only [pure_eq, bind_ok_eta]
  try rfl

end generic

/-- the name `export_aligned` writes to -/
def exportName : Option Str → Str
  -- sql.pdbfile.rstrip('.pdb') + '_aligned.pdb'
  | some p => Model.SupDb.rstripPdb p ++ ['_', 'a', 'l', 'i', 'g', 'n', 'e', 'd', '.', 'p', 'd', 'b']
  -- 'aligned_structure.pdb'
  | none => ['a', 'l', 'i', 'g', 'n', 'e', 'd', '_', 's', 't', 'r', 'u', 'c', 't', 'u', 'r', 'e', '.', 'p', 'd', 'b']

/-- unit `align_export_aligned`: exactly one file, named by `exportName`, holding the whole table; never raises -/
theorem gena_export_aligned_nf (sql : Rt.Db) :
    GenA.export_aligned sql = .ok ((), [(exportName sql.pdbfile, sql.atoms)]) := by
  unfold GenA.export_aligned
  cases h : sql.pdbfile <;>
    simp only [bind_ok, pure_eq, rstripChars_pdb, exportName, Rt.exportpdb, List.nil_append]

/-- the spherical angles `get_rotation_angle` extracts -/
def phiOf (arctan2 : Rat → Rat → Rat) (v : Vec3 Rat) : Rat := arctan2 v.y v.x
def thetaOf (norm : Vec3 Rat → Rat) (arccos : Rat → Rat) (v : Vec3 Rat) : Rat := arccos (v.z / norm v)

/-- the new object state -/
def withAtoms (sql : Rt.Db) (t : List Atom) : Rt.Db := { sql with atoms := t }

/-- what `_align_along_axis(xyz, axis, phi, theta)` needs of `np.cos`, `np.sin`, `np.pi` AT the angles `phi`, `theta` it is called with
    (the five angle expressions of the source).  Pointwise on purpose: over ℚ no pair of functions satisfies the global laws
    `Proofs.GenKernels.TrigContract` together with `cos² + sin² = 1` (at `π/4` they force `2 cos² = 1`), whereas finite tables —
    what the driver uses, from the values NumPy returned — satisfy this one. -/
structure TrigAt (cos sin : Rat → Rat) (pi phi theta : Rat) : Prop where
  cos_neg_phi : cos (-phi) = cos phi
  sin_neg_phi : sin (-phi) = -sin phi
  cos_half_sub_theta : cos (pi / 2 - theta) = sin theta
  sin_half_sub_theta : sin (pi / 2 - theta) = cos theta
  cos_half_sub_phi : cos (pi / 2 - phi) = sin phi
  sin_half_sub_phi : sin (pi / 2 - phi) = cos phi
  cos_theta_sub_half : cos (theta - pi / 2) = sin theta
  sin_theta_sub_half : sin (theta - pi / 2) = -cos theta
  cos_neg_theta : cos (-theta) = cos theta
  sin_neg_theta : sin (-theta) = -sin theta

/-- the global laws give the pointwise ones -/
theorem trigAt_of_contract {cos sin : Rat → Rat} {pi : Rat} (h : Proofs.GenKernels.TrigContract cos sin pi) (phi theta : Rat) :
    TrigAt cos sin pi phi theta :=
  ⟨h.cos_neg _, h.sin_neg _, h.cos_half_sub _, h.sin_half_sub _, h.cos_half_sub _, h.sin_half_sub _, h.cos_sub_half _,
   h.sin_sub_half _, h.cos_neg _, h.sin_neg _⟩

/-- `GenK._align_along_axis` (Gen/Kernels.lean) is the model's two successive rotations, under the pointwise laws -/
theorem genk__align_along_axis_at {cos sin : Rat → Rat} {pi : Rat} (X : List (Vec3 Rat)) (axis : String) (phi theta : Rat)
    (h : TrigAt cos sin pi phi theta) :
    GenK._align_along_axis cos sin pi X axis phi theta =
      Proofs.GenKernels.alignModel (cos phi) (sin phi) (cos theta) (sin theta) axis X := by
  simp only [Proofs.GenKernels.alignModel, GenK._align_along_axis, Proofs.GenKernels.genk_rot_xyz_around_axis_eq_model,
    h.cos_neg_phi, h.sin_neg_phi, h.cos_half_sub_theta, h.sin_half_sub_theta, h.cos_half_sub_phi, h.sin_half_sub_phi,
    h.cos_theta_sub_half, h.sin_theta_sub_half, h.cos_neg_theta, h.sin_neg_theta]
  by_cases hx : axis = "x"
  · subst hx; simp only [if_true, Proofs.Align.mats_x]; rfl
  by_cases hy : axis = "y"
  · subst hy; simp only [hx, if_false, if_true, Proofs.Align.mats_y]; rfl
  by_cases hz : axis = "z"
  · subst hz; simp only [hx, hy, if_false, if_true, Proofs.Align.mats_z]; rfl
  simp only [hx, hy, hz, if_false, Proofs.GenKernels.alignMats_other _ _ _ _ axis hx hy hz]

/-- unit `align_align_pca_vect` = `Model.alignPcaVect` on the table of the object, with the trig values of the angles
    `get_rotation_angle` extracts (on a non-empty structure: the model does not describe the empty one, where NumPy's
    `np.mean` of an empty array makes `rotate` raise TypeError) -/
theorem gena_align_pca_vect_nf {cos sin : Rat → Rat} {pi : Rat}
    (norm : Vec3 Rat → Rat) (arctan2 : Rat → Rat → Rat) (arccos : Rat → Rat) (sql : Rt.Db) (v : Vec3 Rat) (axis : String)
    (h : TrigAt cos sin pi (phiOf arctan2 v) (thetaOf norm arccos v)) (hne : sql.atoms ≠ []) :
    GenA.align_pca_vect norm arctan2 arccos cos sin pi sql v axis =
      (alignPcaVect (cos (phiOf arctan2 v)) (sin (phiOf arctan2 v)) (cos (thetaOf norm arccos v)) (sin (thetaOf norm arccos v))
        axis sql.atoms).map (withAtoms sql) := by
  have hlen : (getXYZ selAll sql.atoms).length ≠ 0 := by
    cases hs : sql.atoms with
    | nil => exact absurd hs hne
    | cons a t => simp [getXYZ, getFrom, selAll]
  unfold GenA.align_pca_vect
  simp only [Proofs.GenKernels.genk_get_rotation_angle_eq_model, array3_select (cond := fun _ => true), selOf_true, pure_eq,
    bind_ok_eta]
  rw [Proofs.GenKernels.alignPcaVect_eq_alignModel _ _ _ _ _ _ hlen, ← genk__align_along_axis_at _ _ _ _ h]
  simp only [phiOf, thetaOf, updateXYZ_all]
  generalize GenK._align_along_axis cos sin pi _ axis _ _ = A
  cases A with
  | error e => rfl
  | ok xyz =>
    simp only [bind_ok]
    cases updateXYZ selAll xyz sql.atoms <;> rfl

end Proofs.GenAlign
