/-
  The concrete text round trip (`Model.textRoundtrip` = parse ∘ export) on tables whose rows fit the PDB columns:
  row by row and in order it is `Proofs.Line.readBack` (cluster A's C02), in model 0, without added columns.
-/
import PdbVerif.Proofs.TableWorld
import PdbVerif.Model.TableWorldText
import PdbVerif.Proofs.FormatRoundtrip
import PdbVerif.Proofs.FormatReexport
import PdbVerif.Proofs.ParseRows

set_option linter.unusedVariables false
set_option linter.unusedSimpArgs false

namespace TableProofs
open Tbl

/-- a row the PDB columns can hold and read back: C02's `Fits`, a non-blank chain, coordinates in range -/
def RowFits (r : Row) : Prop :=
  Spec.Fits r.atom ∧ r.atom.chainID ≠ [] ∧ Spec.CoordInRange r.atom.x ∧ Spec.CoordInRange r.atom.y ∧ Spec.CoordInRange r.atom.z

/-- the row as it is read back from its exported line -/
def rbRow (r : Row) : Row := { atom := { Proofs.Line.readBack r.atom with model := 0 }, extra := [] }

theorem ofRow_toRow (a : Py.Atom) : Py.Atom.ofRow a.toRow = some a := rfl

theorem isAtomRecord_export (a : Py.Atom) : Spec.isAtomRecord (Proofs.Line.exportPieces a).line = true := by
  simp [Spec.isAtomRecord, Proofs.Line.Pieces.line, Proofs.Line.Pieces.segs]

theorem parseFrom_export : ∀ (T : Table), (∀ r ∈ T, RowFits r) →
    Spec.parseFrom (T.map (fun r => (Proofs.Line.exportPieces r.atom).line)) 0 =
      .ok (T.map (fun r => (rbRow r).atom.toRow))
  | [], _ => rfl
  | r :: t, h => by
    obtain ⟨hf, hch, hx, hy, hz⟩ := h r (by simp)
    have ih := parseFrom_export t (fun x hx' => h x (List.mem_cons_of_mem _ hx'))
    simp only [List.map_cons, Spec.parseFrom, isAtomRecord_export, if_true,
      Proofs.Line.parseRecord_export r.atom hf hch hx hy hz 0, ih, bind, Except.bind, pure, Except.pure]
    rfl

/-- **parse ∘ export = readBack**, row by row and in order -/
theorem textRoundtrip_eq (T : Table) (h : ∀ r ∈ T, RowFits r) : Model.textRoundtrip T = T.map rbRow := by
  unfold Model.textRoundtrip
  have h1 : T.mapM (fun r => Gen.data2pdb_line r.atom) = .ok (T.map (fun r => (Proofs.Line.exportPieces r.atom).line)) := by
    apply except_mapM_ok
    intro r hr
    obtain ⟨hf, _, hx, hy, hz⟩ := h r hr
    exact Proofs.Line.export_eq r.atom hf hx hy hz
  rw [h1]
  simp only
  rw [Proofs.ParseRows.parse_eq Proofs.Parse.parseAtomLine_eq, Spec.parse, parseFrom_export T h]
  simp only [List.filterMap_map]
  rw [← List.filterMap_eq_map]
  congr 1

theorem rowFits_rbRow (r : Row) (h : RowFits r) : RowFits (rbRow r) := by
  obtain ⟨hf, hch, hx, hy, hz⟩ := h
  obtain ⟨a, b, c, d⟩ := Proofs.Reexport.readBack_fits r.atom hf hx hy hz
  exact ⟨a, hch, b, c, d⟩

/-- the coordinates read back do not sit on the two values where a second export would switch precision -/
def OffThresholds (r : Row) : Prop :=
  let b := Proofs.Line.readBack r.atom
  (b.x ≠ (1999999 : ℚ) / 2 ∧ b.x ≠ -(199999 : ℚ) / 2) ∧ (b.y ≠ (1999999 : ℚ) / 2 ∧ b.y ≠ -(199999 : ℚ) / 2) ∧
  (b.z ≠ (1999999 : ℚ) / 2 ∧ b.z ≠ -(199999 : ℚ) / 2)

theorem rbRow_idem (r : Row) (h : RowFits r) (ho : OffThresholds r) : rbRow (rbRow r) = rbRow r := by
  obtain ⟨hf, hch, hx, hy, hz⟩ := h
  have := Proofs.Reexport.readBack_idem r.atom hx hy hz ho.1 ho.2.1 ho.2.2
  unfold rbRow
  have e : Proofs.Line.readBack { Proofs.Line.readBack r.atom with model := 0 } =
      { Proofs.Line.readBack (Proofs.Line.readBack r.atom) with model := 0 } := rfl
  simp only [e, this]

/-- deriving again from the derivative changes nothing further -/
theorem textRoundtrip_idem (T : Table) (h : ∀ r ∈ T, RowFits r) (ho : ∀ r ∈ T, OffThresholds r) :
    Model.textRoundtrip (Model.textRoundtrip T) = Model.textRoundtrip T := by
  rw [textRoundtrip_eq T h, textRoundtrip_eq (T.map rbRow) (by
    intro r hr
    obtain ⟨r0, hr0, rfl⟩ := List.mem_map.1 hr
    exact rowFits_rbRow r0 (h r0 hr0)), List.map_map]
  apply List.map_congr_left
  intro r hr
  exact rbRow_idem r (h r hr) (ho r hr)

end TableProofs
