/-
  C19 side of the SQL tie, part 1: normal forms of the translated units of `many2sql.get_intersection` (Gen/Sql.lean:
  `intersection_query`, `intersection_split`).  The nested loops over tables / columns / match attributes and the index
  loops `for i1 in range(n-1): for i2 in range(i1+1, n)` are rewritten once into closed forms (`joinText`, `splitFrom`).
-/
import PdbVerif.Proofs.SqlUpdate

set_option linter.unusedVariables false
set_option linter.unusedSimpArgs false

namespace SqlProofs
open Tbl Model MicroSql GenSql

/-! ### the translated `many2sql.get_intersection`: normal forms -/

/-- a loop whose every turn appends a text to the accumulator -/
theorem forM_ok_append {α β : Type} (g : α → List β) (body : α → List β → Except GErr (List β))
    (h : ∀ x st, body x st = .ok (st ++ g x)) : ∀ (xs : List α) (st : List β),
    Rt.forM xs st body = .ok (st ++ (xs.map g).flatten)
  | [], st => by simp [Rt.forM]
  | x :: xs, st => by
    simp only [Rt.forM, h x st, forM_ok_append g body h xs (st ++ g x), List.map_cons, List.flatten_cons, List.append_assoc]

theorem range2_nil (a b : Int) (h : b ≤ a) : Rt.range2 a b = [] := by
  unfold Rt.range2
  have : (b - a).toNat = 0 := by omega
  rw [this]; rfl

theorem range2_cons (a b : Int) (h : a < b) : Rt.range2 a b = a :: Rt.range2 (a + 1) b := by
  unfold Rt.range2
  have : (b - a).toNat = (b - (a + 1)).toNat + 1 := by omega
  rw [this, List.range_succ_eq_map]
  simp only [List.map_cons, List.map_map, Nat.cast_zero, add_zero, List.cons.injEq, true_and]
  apply List.map_congr_left
  intro k _
  simp only [Function.comp, Nat.cast_succ]; omega

theorem range_eq_range2 (n : Int) : Rt.range n = Rt.range2 0 n := by
  unfold Rt.range Rt.range2; simp

/-- `x = l[i]; acc += g(x)` -/
def getBody {α β : Type} (l : List α) (g : α → List β) : Int → List β → Except GErr (List β) :=
  fun i st => (Rt.getItem l i).bind (fun x => .ok (st ++ g x))

theorem forM_cons {α σ : Type} (x : α) (xs : List α) (s : σ) (body : α → σ → Except GErr σ) (s' : σ) (h : body x s = .ok s') :
    Rt.forM (x :: xs) s body = Rt.forM xs s' body := by
  rw [Rt.forM, h]

/-- `for i in range(a, b): x = l[i]; acc += g(x)` over the tail `rest` of `l = pre ++ rest` (`a = len(pre)`, `b = len(l)`) -/
theorem forM_range2_getItem {α β : Type} (g : α → List β) (l : List α) : ∀ (rest pre : List α) (st : List β) (a b : Int),
    l = pre ++ rest → a = (pre.length : Int) → b = (l.length : Int) →
    Rt.forM (Rt.range2 a b) st (getBody l g) = .ok (st ++ (rest.map g).flatten)
  | [], pre, st, a, b, hl, ha, hb => by
    rw [range2_nil _ _ (by subst hl; simp at hb; omega)]; simp [Rt.forM]
  | x :: rest, pre, st, a, b, hl, ha, hb => by
    have hlt : a < b := by subst hl; simp at hb; omega
    have hx : getBody l g a st = .ok (st ++ g x) := by
      unfold getBody; rw [hl, ha, getItem_append_length]; rfl
    rw [range2_cons _ _ hlt, forM_cons _ _ _ _ _ hx,
      forM_range2_getItem g l rest (pre ++ [x]) (st ++ g x) (a + 1) b (by simp [hl]) (by simp [ha]) hb]
    simp

/-- all pairs `(l[i1], l[i2])`, `i1 < i2`, in the order of the two nested loops -/
def pairsOf {α : Type} : List α → List (α × α)
  | [] => []
  | a :: rest => rest.map (fun b => (a, b)) ++ pairsOf rest

/-- `a = l[i1]; for i2 in range(i1 + 1, n): b = l[i2]; acc += g(a, b)` -/
def pairBody {α β : Type} (l : List α) (n : Int) (g : α × α → List β) : Int → List β → Except GErr (List β) :=
  fun i1 st => (Rt.getItem l i1).bind (fun a =>
    (Rt.forM (Rt.range2 (i1 + 1) n) st (getBody l (fun b => g (a, b)))).bind (fun st' => .ok st'))

/-- the two index loops `for i1 in range(n-1): for i2 in range(i1+1, n)` over `l = pre ++ cur`, from `i1 = len(pre)` -/
theorem forM_pairs {α β : Type} (g : α × α → List β) (l : List α) (n : Int) (hn : n = (l.length : Int)) :
    ∀ (cur pre : List α) (st : List β) (a : Int), l = pre ++ cur → a = (pre.length : Int) →
    Rt.forM (Rt.range2 a (n - 1)) st (pairBody l n g) = .ok (st ++ ((pairsOf cur).map g).flatten)
  | [], pre, st, a, hl, ha => by
    rw [range2_nil _ _ (by subst hl; simp at hn; omega)]; simp [Rt.forM, pairsOf]
  | [x], pre, st, a, hl, ha => by
    rw [range2_nil _ _ (by subst hl; simp at hn; omega)]; simp [Rt.forM, pairsOf]
  | x :: y :: rest, pre, st, a, hl, ha => by
    have hlt : a < n - 1 := by subst hl; simp at hn; omega
    have hin := forM_range2_getItem (fun b => g (x, b)) l (y :: rest) (pre ++ [x]) st (a + 1) n (by simp [hl]) (by simp [ha]) hn
    have hx : pairBody l n g a st = .ok (st ++ ((y :: rest).map (fun b => g (x, b))).flatten) := by
      unfold pairBody
      rw [show Rt.getItem l a = .ok x from by rw [hl, ha, getItem_append_length]]
      simp only [Except.bind, hin]
    rw [range2_cons _ _ hlt, forM_cons _ _ _ _ _ hx,
      forM_pairs g l n hn (y :: rest) (pre ++ [x]) _ (a + 1) (by simp [hl]) (by simp [ha])]
    simp [pairsOf, List.map_append, List.map_map, Function.comp_def]

/-- `s[:-k]` drops a suffix of length `k` -/
theorem slice_dropSuffix (a suf : Py.Str) (h0 : suf ≠ []) : Py.slice (a ++ suf) 0 (-(suf.length : Int)) = a := by
  unfold Py.slice Py.normIdx
  have hpos : 0 < suf.length := List.length_pos_of_ne_nil h0
  have h1 : (-(suf.length : Int)) < 0 := by omega
  simp only [h1, if_true, show ¬ ((0 : Int) < 0) by omega, if_false, List.length_append, Nat.cast_add]
  have : (-(suf.length : Int) + ((a.length : Int) + (suf.length : Int))).toNat = a.length := by omega
  rw [this]; simp

/-- accumulating `item + sep` and cutting the last `sep` off is `sep.join(items)` -/
theorem flatten_sep_join (sep : Py.Str) : ∀ (items : List Py.Str), items ≠ [] →
    (items.map (fun x => x ++ sep)).flatten = Rt.join sep items ++ sep
  | [], h => absurd rfl h
  | [a], _ => by simp [Rt.join]
  | a :: b :: t, _ => by
    have ih := flatten_sep_join sep (b :: t) (by simp)
    rw [List.map_cons, List.flatten_cons, ih, Rt.join]; simp


/-! #### the text -/

/-- `n.c` for every table `n` and every piece `c` of the column string -/
def fieldTexts (names pieces : List Py.Str) : List Py.Str := names.flatMap (fun n => pieces.map (fun c => n ++ ['.'] ++ c))

/-- `t1.a=t2.a` -/
def eqText (a : Py.Str) (p : Py.Str × Py.Str) : Py.Str := p.1 ++ ['.'] ++ a ++ ['='] ++ p.2 ++ ['.'] ++ a

def eqTexts (names mnames : List Py.Str) : List Py.Str := mnames.flatMap (fun a => (pairsOf names).map (eqText a))

/-- `select t.c, … from t1 INNER JOIN t2 … [on t1.a=t2.a and …];` -/
def joinText (names pieces mnames : List Py.Str) : Py.Str :=
  ['s', 'e', 'l', 'e', 'c', 't', ' '] ++ Rt.join [',', ' '] (fieldTexts names pieces) ++ [' '] ++
    (['f', 'r', 'o', 'm', ' '] ++ Rt.join [' ', 'I', 'N', 'N', 'E', 'R', ' ', 'J', 'O', 'I', 'N', ' '] names ++ [' ']) ++
    ((if eqTexts names mnames = [] then [] else ['o', 'n', ' '] ++ Rt.join [' ', 'a', 'n', 'd', ' '] (eqTexts names mnames)) ++ [';'])

def fieldsInner (pieces : List Py.Str) : Py.Str → Py.Str → Except GErr Py.Str :=
  fun n st => (Rt.forM pieces st (fun c st1 => .ok (st1 ++ (n ++ ['.'] ++ c ++ [',', ' '])))).bind (fun st' => .ok st')

def condOuter (names : List Py.Str) : Py.Str → Py.Str → Except GErr Py.Str :=
  fun attr st => (Rt.forM (Rt.range ((names.length : Int) - 1)) st
    (pairBody names (names.length : Int) (fun p => p.1 ++ ['.'] ++ attr ++ ['='] ++ p.2 ++ ['.'] ++ attr ++ [' ', 'a', 'n', 'd', ' ']))).bind
      (fun st' => .ok st')

theorem intersection_query_shape (names : List Py.Str) (column : Py.Str) (mnames : List Py.Str) :
    intersection_query names column mnames =
      (Rt.forM names [] (fieldsInner (Py.splitOn ',' column))).bind (fun fields =>
        (Rt.forM mnames ['o', 'n', ' '] (condOuter names)).bind (fun cond =>
          .ok (['s', 'e', 'l', 'e', 'c', 't', ' '] ++ (Py.slice fields 0 (-2) ++ [' ']) ++
            (['f', 'r', 'o', 'm', ' '] ++ Rt.join [' ', 'I', 'N', 'N', 'E', 'R', ' ', 'J', 'O', 'I', 'N', ' '] names ++ [' ']) ++
            (Py.slice cond 0 (-5) ++ [';'])))) := rfl


theorem flatten_flatMap_map {α : Type} (f : α → List Py.Str) (sep : Py.Str) : ∀ (l : List α),
    (l.map (fun a => ((f a).map (fun x => x ++ sep)).flatten)).flatten = ((l.flatMap f).map (fun x => x ++ sep)).flatten
  | [] => rfl
  | a :: t => by simp [List.flatMap_cons, List.map_append, List.flatten_append, flatten_flatMap_map f sep t]

theorem fieldsInner_eq (pieces : List Py.Str) (n st : Py.Str) :
    fieldsInner pieces n st = .ok (st ++ ((pieces.map (fun c => n ++ ['.'] ++ c)).map (fun x => x ++ [',', ' '])).flatten) := by
  unfold fieldsInner
  rw [forM_ok_append (fun c => n ++ ['.'] ++ c ++ [',', ' ']) _ (fun _ _ => rfl)]
  simp [Except.bind, List.map_map, Function.comp_def]

theorem condOuter_eq (names : List Py.Str) (attr st : Py.Str) :
    condOuter names attr st =
      .ok (st ++ (((pairsOf names).map (eqText attr)).map (fun x => x ++ [' ', 'a', 'n', 'd', ' '])).flatten) := by
  unfold condOuter
  rw [range_eq_range2, forM_pairs _ names _ rfl names [] st 0 rfl rfl]
  simp [Except.bind, List.map_map, Function.comp_def, eqText]

/-- **normal form of the translated query builder of `get_intersection`** -/
theorem intersection_query_nf (names : List Py.Str) (column : Py.Str) (mnames : List Py.Str) :
    intersection_query names column mnames = .ok (joinText names (Py.splitOn ',' column) mnames) := by
  rw [intersection_query_shape]
  rw [forM_ok_append _ _ (fieldsInner_eq (Py.splitOn ',' column)), forM_ok_append _ _ (condOuter_eq names)]
  simp only [Except.bind, List.nil_append]
  rw [flatten_flatMap_map, flatten_flatMap_map]
  unfold joinText
  have h1 : Py.slice (((fieldTexts names (Py.splitOn ',' column)).map (fun x => x ++ [',', ' '])).flatten) 0 (-2) =
      Rt.join [',', ' '] (fieldTexts names (Py.splitOn ',' column)) := by
    by_cases he : fieldTexts names (Py.splitOn ',' column) = []
    · rw [he]; decide
    · rw [flatten_sep_join _ _ he]; exact slice_dropSuffix _ [',', ' '] (by simp)
  have h2 : Py.slice (['o', 'n', ' '] ++ ((eqTexts names mnames).map (fun x => x ++ [' ', 'a', 'n', 'd', ' '])).flatten) 0 (-5) =
      (if eqTexts names mnames = [] then [] else ['o', 'n', ' '] ++ Rt.join [' ', 'a', 'n', 'd', ' '] (eqTexts names mnames)) := by
    by_cases he : eqTexts names mnames = []
    · rw [he]; decide
    · rw [if_neg he, flatten_sep_join _ _ he, ← List.append_assoc]
      exact slice_dropSuffix _ [' ', 'a', 'n', 'd', ' '] (by simp)
  unfold fieldTexts at h1
  unfold eqTexts at h2
  unfold fieldTexts eqTexts
  rw [h1, h2]
  simp only [List.append_assoc]


/-! #### cutting the joined rows into one row list per structure -/

/-- `x[it*ncol:(it+1)*ncol]` -/
def cut (ncol : Int) (x : List Val) (it : Nat) : List Val := Rt.slice x ((it : Int) * ncol) (((it : Int) + 1) * ncol)

/-- per structure `it = k, k+1, …, k+m-1`: the cut of every row -/
def splitFrom (ncol : Int) (k m : Nat) (rows : List (List Val)) : List (List (List Val)) :=
  (List.range' k m).map (fun it => rows.map (fun x => cut ncol x it))

/-- `data[it].append(list(x[s:e]))` -/
def cutBody (ncol : Int) (x : List Val) : Int → List (List (List Val)) → Except GErr (List (List (List Val))) :=
  fun it st => (Rt.getItem st it).bind (fun row => (Rt.setItem st it (row ++ [Rt.slice x (it * ncol) ((it + 1) * ncol)])).bind (fun st' => .ok st'))

def appendFrom (ncol : Int) (x : List Val) : Nat → List (List (List Val)) → List (List (List Val))
  | _, [] => []
  | k, row :: rest => (row ++ [cut ncol x k]) :: appendFrom ncol x (k + 1) rest

theorem cut_loop (ncol : Int) (x : List Val) : ∀ (todo done : List (List (List Val))) (a b : Int),
    a = (done.length : Int) → b = ((done ++ todo).length : Int) →
    Rt.forM (Rt.range2 a b) (done ++ todo) (cutBody ncol x) = .ok (done ++ appendFrom ncol x done.length todo)
  | [], done, a, b, ha, hb => by
    rw [range2_nil _ _ (by simp at hb; omega)]; simp [Rt.forM, appendFrom]
  | row :: rest, done, a, b, ha, hb => by
    have hlt : a < b := by simp at hb; omega
    have hx : cutBody ncol x a (done ++ row :: rest) = .ok ((done ++ [row ++ [cut ncol x done.length]]) ++ rest) := by
      unfold cutBody
      rw [ha, getItem_append_length]
      simp only [Except.bind, setItem_append_length, cut]
      simp
    rw [range2_cons _ _ hlt, forM_cons _ _ _ _ _ hx,
      cut_loop ncol x rest (done ++ [row ++ [cut ncol x done.length]]) (a + 1) b (by simp [ha]) (by simp at hb ⊢; omega)]
    simp [appendFrom]

theorem appendFrom_splitFrom (ncol : Int) (x : List Val) (acc : List (List Val)) : ∀ (m k : Nat),
    appendFrom ncol x k (splitFrom ncol k m acc) = splitFrom ncol k m (acc ++ [x])
  | 0, k => by simp [splitFrom, appendFrom]
  | m + 1, k => by
    have ih := appendFrom_splitFrom ncol x acc m (k + 1)
    unfold splitFrom at ih ⊢
    simp only [List.range'_succ, List.map_cons, appendFrom, ih, List.map_append, List.map_nil]

/-- `for x in raw_data: for it in range(ntable): data[it].append(x[s:e])` -/
def splitOuter (n : Nat) (ncol : Int) : List Val → List (List (List Val)) → Except GErr (List (List (List Val))) :=
  fun x st => (Rt.forM (Rt.range (n : Int)) st (cutBody ncol x)).bind (fun st' => .ok st')

theorem splitOuter_loop (n : Nat) (ncol : Int) : ∀ (raw acc : List (List Val)),
    Rt.forM raw (splitFrom ncol 0 n acc) (splitOuter n ncol) = .ok (splitFrom ncol 0 n (acc ++ raw))
  | [], acc => by simp [Rt.forM]
  | x :: raw, acc => by
    have hlen : (splitFrom ncol 0 n acc).length = n := by simp [splitFrom]
    have hx : splitOuter n ncol x (splitFrom ncol 0 n acc) = .ok (splitFrom ncol 0 n (acc ++ [x])) := by
      unfold splitOuter
      have := cut_loop ncol x (splitFrom ncol 0 n acc) [] 0 n rfl (by simp [hlen])
      simp only [List.nil_append, List.length_nil] at this
      rw [range_eq_range2, this, appendFrom_splitFrom]; rfl
    rw [forM_cons _ _ _ _ _ hx, splitOuter_loop n ncol raw (acc ++ [x])]
    simp

theorem intersection_split_shape (raw : List (List Val)) (n : Nat) (ncol : Int) :
    intersection_split raw (n : Int) ncol =
      (Rt.forM (Rt.range (n : Int)) [] (fun (_ : Int) (st : List (List (List Val))) => .ok (st ++ [[]]))).bind (fun data =>
        (Rt.forM raw data (splitOuter n ncol)).bind (fun d => .ok d)) := rfl

/-- **normal form of the translated post-processing of `get_intersection`**: structure `it` gets, row by row, the
    columns `[it·ncol, (it+1)·ncol)` of the joined rows -/
theorem intersection_split_nf (raw : List (List Val)) (n : Nat) (ncol : Int) :
    intersection_split raw (n : Int) ncol = .ok (splitFrom ncol 0 n raw) := by
  rw [intersection_split_shape, forM_ok_append (fun _ => [[]]) _ (fun _ _ => rfl)]
  have h0 : ([] : List (List (List Val))) ++ ((Rt.range (n : Int)).map (fun _ => [([] : List (List Val))])).flatten = splitFrom ncol 0 n [] := by
    unfold Rt.range splitFrom
    simp only [Int.toNat_natCast, List.nil_append, List.map_map, List.map_nil, List.range_eq_range']
    generalize 0 = k
    induction n generalizing k with
    | zero => rfl
    | succ m ih => simp [List.range'_succ, ih (k + 1)]
  simp only [Except.bind, h0]
  rw [splitOuter_loop n ncol raw []]; rfl

end SqlProofs
