import PdbVerif.Proofs.GenSimFnat
import PdbVerif.Model.RmsdSql
import PdbVerif.Proofs.RmsdBasic
import PdbVerif.Proofs.ContactsBasic

set_option linter.unusedVariables false
set_option linter.unusedSimpArgs false

namespace Proofs.GenSim
open Py Model Model.Rmsd Proofs.GenRmsd

/-! ### `get_identical_atoms` -/

/-- `**kwargs` of the model: the `name` list (absent = every atom) -/
def kwOK (kw : GenS.Rt3.Kw) (a : Atom) : Bool := GenS.Rt3.Kw.cond kw a

/-- the keys `db.get('chainID,resSeq,name', chainID=chain, **kwargs)` returns -/
def selKeys (t : List Atom) (chain : Str) (kw : GenS.Rt3.Kw) : List Key :=
  (t.filter (fun a => decide (a.chainID = chain) && GenS.Rt3.Kw.cond kw a)).map keyOf

/-- `set(data1).intersection(data2)` in the representation of the runtime (order of first occurrence in `data1`) -/
def sharedKeys (db1 db2 : List Atom) (chain : Str) (kw : GenS.Rt3.Kw) : List Key :=
  (distinctFirst (selKeys db1 chain kw)).filter (fun k => decide (k ∈ selKeys db2 chain kw))

/-- one iteration of the loop: both `SELECT x,y,z from ATOM WHERE chainID=? AND resSeq=? and name=?` look-ups, first row each -/
def lookupPair (db1 db2 : List Atom) (k : Key) : Except Err Pair :=
  match db1.find? (fun a => decide (keyOf a = k)), db2.find? (fun a => decide (keyOf a = k)) with
  | some d, some r => .ok (ptOf d, ptOf r)
  | _, _ => .error .indexError

/-- what the function returns: the two coordinate lists -/
def splitPairs (ps : List Pair) : List P3 × List P3 := (ps.map (·.1.2), ps.map (·.2.2))

theorem zipIdx_filter_map_fst {β : Type} (t : List Atom) (c : Atom → Bool) (p : Atom → β) :
    (t.zipIdx.filter (fun r => c r.1)).map (fun r => p r.1) = (t.filter c).map p := by
  have h2 := List.zipIdx_map_fst 0 t
  conv => rhs; rw [← h2]
  rw [List.filter_map, List.map_map]
  rfl

theorem select_fst {β : Type} (t : List Atom) (c : Atom → Bool) (p : Atom → β) :
    Py.Tbl.select t (fun r => c r.1) (fun r => p r.1) = (t.filter c).map p := zipIdx_filter_map_fst t c p

theorem getItem_zero_map_filter {β : Type} (t : List Atom) (c : Atom → Bool) (p : Atom → β) :
    Py.Rt.getItem ((t.filter c).map p) 0 = match t.find? c with | some d => .ok (p d) | none => .error .indexError := by
  induction t with
  | nil => rfl
  | cons a t ih =>
    by_cases h : c a = true
    · simp [List.filter_cons, h, List.find?_cons, Py.Rt.getItem]
    · simp only [List.filter_cons, h, List.find?_cons, if_false, Bool.false_eq_true]
      simpa using ih

theorem key_cond (k : Key) : (fun (a : Atom) => decide (a.chainID = k.1) && decide (a.resSeq = k.2.1) && decide (a.name = k.2.2))
    = (fun a => decide (keyOf a = k)) := by
  funext a
  obtain ⟨k1, k2, k3⟩ := k
  simp only [keyOf, Prod.mk.injEq, Bool.decide_and, Bool.and_assoc]

theorem first_row (t : List Atom) (k : Key) :
    Py.Rt.getItem (Py.Tbl.select t (fun r => decide (r.1.chainID = k.1) && decide (r.1.resSeq = k.2.1) && decide (r.1.name = k.2.2))
        (fun r => Vec3.mk r.1.x r.1.y r.1.z)) 0
      = match t.find? (fun a => decide (keyOf a = k)) with | some d => .ok (posOf d) | none => .error .indexError := by
  rw [select_fst t (fun a => decide (a.chainID = k.1) && decide (a.resSeq = k.2.1) && decide (a.name = k.2.2)) (fun a => Vec3.mk a.x a.y a.z),
    getItem_zero_map_filter, key_cond]
  rfl

/-- both look-ups of one iteration -/
theorem both_rows (db1 db2 : List Atom) (k : Key) :
    ((match db1.find? (fun a => decide (keyOf a = k)) with | some d => Except.ok (posOf d) | none => Except.error Err.indexError) >>= fun a =>
      (match db2.find? (fun a => decide (keyOf a = k)) with | some d => Except.ok (posOf d) | none => Except.error Err.indexError) >>= fun b =>
        (Except.ok (a, b) : Except Err (P3 × P3)))
      = (lookupPair db1 db2 k) >>= fun p => Except.ok (p.1.2, p.2.2) := by
  unfold lookupPair
  cases db1.find? (fun a => decide (keyOf a = k)) <;> cases db2.find? (fun a => decide (keyOf a = k)) <;> rfl

theorem foldlM_two_appends {κ α β : Type} (G : κ → Except Err (α × β)) :
    ∀ (keys : List κ) (acc : List α × List β),
      List.foldlM (fun (s : List α × List β) k => G k >>= fun ab => (Except.ok (s.1 ++ [ab.1], s.2 ++ [ab.2]) : Except Err _)) acc keys
        = keys.mapM G >>= fun ps => Except.ok (acc.1 ++ ps.map (·.1), acc.2 ++ ps.map (·.2))
  | [], acc => by simp [pure_eq_ok, ok_bind]
  | k :: ks, acc => by
    rw [List.foldlM_cons, List.mapM_cons]
    cases hG : G k with
    | error e => rfl
    | ok ab =>
      simp only [ok_bind, foldlM_two_appends G ks, bind_assoc, pure_eq_ok, List.map_cons, List.append_assoc, List.singleton_append]

theorem mapM_bind_ok {κ α β : Type} (f : κ → Except Err α) (g : α → β) : ∀ (l : List κ),
    l.mapM (fun k => f k >>= fun a => (Except.ok (g a) : Except Err β)) = l.mapM f >>= fun as => Except.ok (as.map g)
  | [] => rfl
  | k :: ks => by
    rw [List.mapM_cons, List.mapM_cons, mapM_bind_ok f g ks]
    cases f k with
    | error e => rfl
    | ok a =>
      simp only [ok_bind, bind_assoc, pure_eq_ok]
      cases ks.mapM f <;> rfl

/-- NORMAL FORM of the generated `get_identical_atoms`: the model's look-up (`lookupPair`) over the shared keys in the iteration
    order of the set, split into the two coordinate lists — for every table, chain, selection and order, errors included -/
theorem gens_get_identical_atoms_nf (ord : ∀ {α : Type}, List α → List α) (db1 db2 : List Atom) (chain : Str) (kw : GenS.Rt3.Kw) :
    GenS.get_identical_atoms ord db1 db2 chain kw =
      (ord (sharedKeys db1 db2 chain kw)).mapM (lookupPair db1 db2) >>= fun ps => Except.ok (splitPairs ps) := by
  unfold GenS.get_identical_atoms
  simp only [first_row, pure_eq_ok]
  have hsel : ∀ t : List Atom, Py.Tbl.select t (fun r => decide (r.1.chainID = chain) && GenS.Rt3.Kw.cond kw r.1)
      (fun r => (r.1.chainID, r.1.resSeq, r.1.name)) = selKeys t chain kw := fun t =>
    select_fst t (fun a => decide (a.chainID = chain) && GenS.Rt3.Kw.cond kw a) keyOf
  simp only [hsel, List.map_id', bind_assoc, ok_bind]
  have hshared : GenR.Rt2.setInter (Py.Rt.set (selKeys db1 chain kw)) (selKeys db2 chain kw) = sharedKeys db1 db2 chain kw := by
    simp only [GenR.Rt2.setInter, sharedKeys, Proofs.GenContacts.set_eq]
    congr 1
    funext k
    exact decide_eq_decide.mpr Iff.rfl
  rw [hshared]
  have hbody : (fun (acc_ : List P3 × List P3) (data : Key) =>
        (match db1.find? (fun a => decide (keyOf a = data)) with | some d => Except.ok (posOf d) | none => Except.error Err.indexError) >>= fun t1 =>
        (match db2.find? (fun a => decide (keyOf a = data)) with | some d => Except.ok (posOf d) | none => Except.error Err.indexError) >>= fun t2 =>
        (Except.ok (acc_.1 ++ [t1], acc_.2 ++ [t2]) : Except Err (List P3 × List P3)))
      = (fun s k => (lookupPair db1 db2 k >>= fun p => Except.ok (p.1.2, p.2.2)) >>= fun ab => Except.ok (s.1 ++ [ab.1], s.2 ++ [ab.2])) := by
    funext s k
    rw [← both_rows]
    simp only [bind_assoc, ok_bind]
  rw [hbody, foldlM_two_appends, mapM_bind_ok]
  simp only [bind_assoc, ok_bind, List.nil_append, splitPairs, List.map_map]
  rfl


/-- the key list the hand model iterates over: the shared keys in key order (`name=` selection present) -/
def modelKeys (tdec tref : List Atom) (chain : Str) (names : List Str) : List Key :=
  sortedSet keyLt ((selKeys tdec chain (some names)).filter (fun k => (selKeys tref chain (some names)).contains k))

/-- the hand model `Model.Rmsd.identicalAtoms` is the same look-up over its key list -/
theorem identicalAtoms_eq_lookup (tdec tref : List Atom) (chain : Str) (names : List Str) :
    identicalAtoms tdec tref chain names = (modelKeys tdec tref chain names).mapM (lookupPair tdec tref) := by
  unfold identicalAtoms modelKeys selKeys lookupPair
  simp only [GenS.Rt3.Kw.cond]
  rfl

/-- the two key lists have the same elements, each once: whatever the iteration order of the set, the generated loop runs over a
    PERMUTATION of the model's key list -/
theorem sharedKeys_perm (ord : ∀ {α : Type}, List α → List α) (hord : OrderOK ord) (tdec tref : List Atom) (chain : Str) (names : List Str) :
    (ord (sharedKeys tdec tref chain (some names))).Perm (modelKeys tdec tref chain names) := by
  refine (hord _ _).trans ?_
  rw [List.perm_ext_iff_of_nodup]
  · intro k
    simp only [sharedKeys, modelKeys, List.mem_filter, Proofs.Contacts.mem_distinctFirst, Proofs.Contacts.mem_sortedSet, decide_eq_true_eq,
      List.contains_eq_mem]
  · exact (Proofs.Contacts.nodup_distinctFirst _).filter _
  · exact Proofs.Contacts.asc_nodup Proofs.Rmsd.strictTotal_keyLt (Proofs.Contacts.asc_sortedSet Proofs.Rmsd.strictTotal_keyLt _)

/-- EQUALITY with the hand model: when the set happens to be iterated in key order (the representative the model chose), the
    generated function returns the model's pairs, split into the two coordinate lists; errors included -/
theorem gens_get_identical_atoms_eq_model (ord : ∀ {α : Type}, List α → List α) (tdec tref : List Atom) (chain : Str) (names : List Str)
    (hkey : ord (sharedKeys tdec tref chain (some names)) = modelKeys tdec tref chain names) :
    GenS.get_identical_atoms ord tdec tref chain (some names) =
      identicalAtoms tdec tref chain names >>= fun ps => Except.ok (splitPairs ps) := by
  rw [gens_get_identical_atoms_nf, hkey, identicalAtoms_eq_lookup]

/-- … and for EVERY admissible iteration order: the generated function is the model's look-up over a permutation of the model's keys -/
theorem gens_get_identical_atoms_perm_model (ord : ∀ {α : Type}, List α → List α) (hord : OrderOK ord) (tdec tref : List Atom) (chain : Str)
    (names : List Str) :
    ∃ keys : List Key, keys.Perm (modelKeys tdec tref chain names) ∧
      GenS.get_identical_atoms ord tdec tref chain (some names) = (keys.mapM (lookupPair tdec tref) >>= fun ps => Except.ok (splitPairs ps)) ∧
      identicalAtoms tdec tref chain names = (modelKeys tdec tref chain names).mapM (lookupPair tdec tref) :=
  ⟨_, sharedKeys_perm ord hord tdec tref chain names, gens_get_identical_atoms_nf ord tdec tref chain (some names),
    identicalAtoms_eq_lookup tdec tref chain names⟩

end Proofs.GenSim
