/-
  Helper lemmas about the number layer of the Python runtime model (`Py.roundHE`, `Py.round`,
  `Py.decDigits`).  Helper lemmas only; property theorems live in `Props/`.
-/
import Mathlib.Tactic.Linarith
import Mathlib.Tactic.Ring
import Mathlib.Tactic.NormNum
import Mathlib.Tactic.Positivity
import Mathlib.Algebra.Order.Floor.Ring
import Mathlib.Data.Rat.Floor
import PdbVerif.Py.Num

namespace Py

theorem floor_eq (q : ℚ) : q.floor = ⌊q⌋ := rfl

theorem roundHE_def (y : ℚ) : roundHE y =
    (if y - (⌊y⌋ : ℚ) < 1/2 then ⌊y⌋ else if 1/2 < y - (⌊y⌋ : ℚ) then ⌊y⌋ + 1
     else if ⌊y⌋ % 2 = 0 then ⌊y⌋ else ⌊y⌋ + 1) := by
  unfold roundHE; simp only [floor_eq]
  by_cases h1 : y - (⌊y⌋ : ℚ) < 1/2 <;> by_cases h2 : 1/2 < y - (⌊y⌋ : ℚ) <;>
    by_cases h3 : ⌊y⌋ % 2 = 0 <;> simp only [h1, h2, h3, if_true, if_false]

theorem floor_le_roundHE (y : ℚ) : ⌊y⌋ ≤ roundHE y := by
  rw [roundHE_def]; split_ifs <;> omega

theorem roundHE_le_floor_add_one (y : ℚ) : roundHE y ≤ ⌊y⌋ + 1 := by
  rw [roundHE_def]; split_ifs <;> omega

theorem roundHE_mono {x y : ℚ} (h : x ≤ y) : roundHE x ≤ roundHE y := by
  have hfl : ⌊x⌋ ≤ ⌊y⌋ := Int.floor_le_floor h
  rcases lt_or_eq_of_le hfl with hlt | heq
  · calc roundHE x ≤ ⌊x⌋ + 1 := roundHE_le_floor_add_one x
      _ ≤ ⌊y⌋ := by omega
      _ ≤ roundHE y := floor_le_roundHE y
  · -- same floor: compare the fractional parts
    have hr : x - (⌊x⌋ : ℚ) ≤ y - (⌊y⌋ : ℚ) := by rw [heq]; linarith
    rw [roundHE_def, roundHE_def]
    split_ifs <;> first | omega | (exfalso; linarith)

theorem roundHE_intCast (n : ℤ) : roundHE (n : ℚ) = n := by
  rw [roundHE_def]; simp only [Int.floor_intCast, sub_self]
  norm_num

theorem roundHE_le_of_le (y : ℚ) (N : ℤ) (h : y ≤ N) : roundHE y ≤ N := by
  have := roundHE_mono h; rwa [roundHE_intCast] at this

theorem roundHE_ge_of_ge (y : ℚ) (N : ℤ) (h : (N : ℚ) ≤ y) : N ≤ roundHE y := by
  have := roundHE_mono h; rwa [roundHE_intCast] at this

theorem pow10_pos (k : ℕ) : 0 < pow10 k := by unfold pow10; positivity

theorem pow10_cast_pos (k : ℕ) : (0 : ℚ) < ((pow10 k : ℕ) : ℚ) := by
  exact_mod_cast pow10_pos k

/-- `Py.round x k` as a quotient in Mathlib's vocabulary -/
theorem round_eq (x : ℚ) (k : ℕ) :
    Py.round x k = (roundHE (x * ((pow10 k : ℕ) : ℚ)) : ℚ) / ((pow10 k : ℕ) : ℚ) := by
  unfold Py.round
  rw [Rat.mkRat_eq_div]

theorem round_mono {x y : ℚ} (k : ℕ) (h : x ≤ y) : Py.round x k ≤ Py.round y k := by
  rw [round_eq, round_eq]
  have hp := pow10_cast_pos k
  apply div_le_div_of_nonneg_right _ hp.le
  exact_mod_cast roundHE_mono (mul_le_mul_of_nonneg_right h hp.le)

theorem round_intCast (n : ℤ) (k : ℕ) : Py.round (n : ℚ) k = n := by
  rw [round_eq]
  have hp := pow10_cast_pos k
  have : (n : ℚ) * ((pow10 k : ℕ) : ℚ) = ((n * (pow10 k : ℕ) : ℤ) : ℚ) := by push_cast; ring
  rw [this, roundHE_intCast]
  push_cast
  field_simp

theorem decDigits_length_le (d : ℕ) : ∀ n, n < 10 ^ (d+1) → (decDigits n).length ≤ d + 1 := by
  induction d with
  | zero => intro n h; unfold decDigits; simp at h; simp [h]
  | succ d ih =>
    intro n h
    unfold decDigits
    split
    · simp
    · have : n / 10 < 10 ^ (d+1) := by
        have : 10 ^ (d+1+1) = 10 ^ (d+1) * 10 := by rw [Nat.pow_succ]
        omega
      have := ih _ this
      simp; omega

theorem decDigits_length_ge (d : ℕ) : ∀ n, 10 ^ d ≤ n → d + 1 ≤ (decDigits n).length := by
  induction d with
  | zero => intro n _; unfold decDigits; split <;> simp
  | succ d ih =>
    intro n h
    unfold decDigits
    have h10 : 10 ^ (d+1) = 10 ^ d * 10 := by rw [Nat.pow_succ]
    split
    · have : 1 ≤ 10 ^ d := Nat.one_le_pow _ _ (by omega)
      omega
    · have : 10 ^ d ≤ n / 10 := by omega
      have := ih _ this
      simp; omega

theorem decDigits_length_pos (n : ℕ) : 1 ≤ (decDigits n).length := by
  unfold decDigits; split <;> simp

end Py
