/-
  `superpose.get_intersection` / `superpose()` with the many2sql world closed by the TRANSLATED many2sql functions (Gen/Many.lean, `GenM`).
  1. `Closed.many2sqlT / many2sqlCallT / many2sqlGetIntersectionT`: the three world parameters of `GenSup.get_intersection` instantiated by
     `GenM.many2sql_init`, `GenM.many2sql_call` (on `GenM.Ext.text`: lines written by the translated `data2pdb` body, parsed by the record loop)
     and `GenM.Rt.get_intersection` (translated statement text -> MicroSql -> translated cutting), with the exception classes and keyword /
     value types of the table layer mapped to those of Gen/Sup.lean.  The types line up and the functions run (Props/C13K2: `decide +kernel`).
  2. `Simulates`: what a world has to satisfy so that the generated code cannot tell it from the hand model's own many2sql steps, and
     `gensup_get_intersection_eq_model_world` / `gensup_superpose_eq_model_world`: in EVERY such world the generated functions are the hand
     models `Model.SupDb.getIntersection` / `Model.SupDb.superpose` (`superpose()` sees the world only through `get_intersection`).
  NOT proved here (what is missing for the unconditional closed form): `Simulates many2sqlT many2sqlCallT many2sqlGetIntersectionT R kw` for the
  translated world.  Its three obligations are (a) `GenM.Ext.textTable` on exported lines = `Model.SupDb.readTable` and `_nModel = 0` (no ENDMDL
  line is ever exported), names `ATOM`, `ATOM1` accepted by the CREATE TABLE check; (b) `Model.exportRows db tn (kwOf kw)` = the rows passing
  `Rt.kwTest kw` — true only for keyword values of the column's own type (SQLite compares with column affinity, `kwTest` by equality), so the
  closed form needs that side condition; (c) translated text -> MicroSql on the two tables = `Model.SupDb.join` (from `GenMany.get_intersection_eq`
  and `Props.C19K.getIntersection_eq_sql` plus the identification of `Model.getIntersection` with `SupDb.join` on x,y,z).
-/
import PdbVerif.Proofs.GenSup
import PdbVerif.Gen.Many

set_option linter.unusedSectionVars false
set_option linter.unusedVariables false
set_option linter.unusedSimpArgs false

namespace Proofs.SupTie
open Py Model Proofs.GenSupWorld GenSup

namespace Closed
open Tbl

/-- exception classes of the table layer as the string runtime names them -/
def errOf : Model.Err → Py.Err
  | .valueError => .valueError | .typeError => .typeError | .indexError => .indexError | .tooManyVars => .tooManyVars
  | e => .unmodelled e.tag

def liftE {α : Type} : Except Model.Err α → Except Py.Err α
  | .ok a => .ok a
  | .error e => .error (errOf e)

/-- `**kwargs` of Gen/Sup.lean as the keyword list of the table layer -/
def valOf : Py.Val → Tbl.Val
  | .int i => .int i | .real q => .real q | .text s => .text s

def kwOf (kw : Rt.Kwargs) : List Kw := kw.map (fun kv => ({ key := kv.1, arg := .list (kv.2.map valOf) } : Kw))

/-- `many2sql(pdbdata)`: the TRANSLATED `many2sql.__init__` (Gen/Many.lean) on the text side, default table names -/
def many2sqlT (pdbdata : List (List Str)) : Except Py.Err Db :=
  liftE (GenM.many2sql_init GenM.Ext.text (.list (pdbdata.map .data)) .none)

/-- `manydb(**kwargs)`: the TRANSLATED `many2sql.__call__` on the text side -/
def many2sqlCallT (db : Db) (kw : Rt.Kwargs) : Except Py.Err Db :=
  liftE (GenM.many2sql_call GenM.Ext.text db (kwOf kw))

def tripleOfVals : List Tbl.Val → Except Py.Err (Rat × Rat × Rat)
  | [.real x, .real y, .real z] => .ok (x, y, z)
  | _ => .error (.unmodelled "get_intersection: a row that is not three reals")

/-- `manydb.get_intersection(cols)`: the TRANSLATED statement text, MicroSql, the TRANSLATED cutting (`GenM.Rt.get_intersection`) -/
def many2sqlGetIntersectionT (db : Db) (cols : String) : Except Py.Err (List (List (Rat × Rat × Rat))) :=
  match liftE (GenM.Rt.get_intersection db cols.toList GenM.get_intersection_match) with
  | .error e => .error e
  | .ok per => per.mapM (fun rows => rows.mapM tripleOfVals)

end Closed

/-! ### the world only matters through what the two functions observe -/

section world
variable {ω : Type}

/-- same value or same exception, up to `R` on the values -/
def RelE {α β : Type} (R : α → β → Prop) : Except Py.Err α → Except Py.Err β → Prop
  | .ok a, .ok b => R a b
  | .error e, .error e' => e = e'
  | _, _ => False

/-- a world `(m2, mc, mg)` SIMULATES the hand model's many2sql steps through `R`: `many2sql(.)` builds related objects (or raises the same),
    `obj(**kwargs)` keeps them related, and related objects answer `get_intersection` alike -/
structure Simulates (m2 : List (List Str) → Except Py.Err ω) (mc : ω → Rt.Kwargs → Except Py.Err ω)
    (mg : ω → String → Except Py.Err (List (List (Rat × Rat × Rat)))) (R : ω → Many → Prop) (kw : Rt.Kwargs) : Prop where
  /-- on the exported text of two tables (all `get_intersection` ever passes) -/
  init : ∀ (t1 t2 : List Atom) (l1 l2 : List Str), SupDb.sql2pdb t1 = .ok l1 → SupDb.sql2pdb t2 = .ok l2 →
    RelE R (m2 [l1, l2]) (many2sql [l1, l2])
  call : ∀ w m, R w m → RelE R (mc w kw) (many2sqlCall m kw)
  inter : ∀ w m c, R w m → mg w c = many2sqlGetIntersection m c

/-- `get_intersection` in ANY world that simulates the hand model's steps is `get_intersection` in the hand model's world … -/
theorem get_intersection_world {m2 : List (List Str) → Except Py.Err ω} {mc : ω → Rt.Kwargs → Except Py.Err ω}
    {mg : ω → String → Except Py.Err (List (List (Rat × Rat × Rat)))} {R : ω → Many → Prop} {kw : Rt.Kwargs} (h : Simulates m2 mc mg R kw)
    (db1 db2 : Rt.Db) :
    GenSup.get_intersection m2 mc mg db1 db2 kw =
      GenSup.get_intersection many2sql many2sqlCall many2sqlGetIntersection db1 db2 kw := by
  simp only [GenSup.get_intersection, bind_assoc, pure_bind, ok_bind]
  cases hs1 : Rt.sql2pdb db1 with
  | error e => rfl
  | ok l1 =>
    cases hs2 : Rt.sql2pdb db2 with
    | error e => rfl
    | ok l2 =>
      simp only [ok_bind]
      have hi := h.init db1.rows db2.rows l1 l2 hs1 hs2
      cases h1 : m2 [l1, l2] with
      | error e =>
        cases h2 : many2sql [l1, l2] with
        | error e' => rw [h1, h2] at hi; cases hi; rfl
        | ok m => rw [h1, h2] at hi; exact hi.elim
      | ok w =>
        cases h2 : many2sql [l1, l2] with
        | error e' => rw [h1, h2] at hi; exact hi.elim
        | ok m =>
          rw [h1, h2] at hi
          simp only [ok_bind]
          have hc := h.call w m hi
          cases h3 : mc w kw with
          | error e =>
            cases h4 : many2sqlCall m kw with
            | error e' => rw [h3, h4] at hc; cases hc; rfl
            | ok m' => rw [h3, h4] at hc; exact hc.elim
          | ok w' =>
            cases h4 : many2sqlCall m kw with
            | error e' => rw [h3, h4] at hc; exact hc.elim
            | ok m' =>
              rw [h3, h4] at hc
              simp only [ok_bind, h.inter w' m' _ hc]

/-- … hence IS `Model.SupDb.getIntersection` -/
theorem gensup_get_intersection_eq_model_world {m2 : List (List Str) → Except Py.Err ω} {mc : ω → Rt.Kwargs → Except Py.Err ω}
    {mg : ω → String → Except Py.Err (List (List (Rat × Rat × Rat)))} {R : ω → Many → Prop} {kw : Rt.Kwargs} (h : Simulates m2 mc mg R kw)
    (db1 db2 : Rt.Db) :
    GenSup.get_intersection m2 mc mg db1 db2 kw =
      (SupDb.getIntersection db1.rows db2.rows (Rt.kwTest kw)).map (fun pairs => (pairs.map (·.1), pairs.map (·.2))) := by
  rw [get_intersection_world h, gensup_get_intersection_eq_model]

variable {σ μ : Type}

/-- `superpose()` looks at the many2sql world only through `get_intersection` -/
theorem superpose_world {m2 : List (List Str) → Except Py.Err ω} {mc : ω → Rt.Kwargs → Except Py.Err ω}
    {mg : ω → String → Except Py.Err (List (List (Rat × Rat × Rat)))} {R : ω → Many → Prop} (h : ∀ kw, Simulates m2 mc mg R kw)
    (pdb2sql : σ → Except Py.Err Rt.Db) (grm : List V → List V → μ → Except Py.Err (Mat3 Rat)) (mobile target : Sum σ Rt.Db) (method : μ)
    (ob ex : Bool) (kw : Rt.Kwargs) :
    GenSup.superpose pdb2sql m2 mc mg grm mobile target method ob ex kw =
      GenSup.superpose pdb2sql many2sql many2sqlCall many2sqlGetIntersection grm mobile target method ob ex kw := by
  simp only [GenSup.superpose, fun kw => get_intersection_world (h kw)]

/-- **`superpose()` = the hand model in every world that simulates the model's many2sql steps** -/
theorem gensup_superpose_eq_model_world {m2 : List (List Str) → Except Py.Err ω} {mc : ω → Rt.Kwargs → Except Py.Err ω}
    {mg : ω → String → Except Py.Err (List (List (Rat × Rat × Rat)))} {R : ω → Many → Prop} (h : ∀ kw, Simulates m2 mc mg R kw)
    (pdb2sql : σ → Except Py.Err Rt.Db) (grm : List V → List V → μ → Except Py.Err (Mat3 Rat)) (mobile target : Sum σ Rt.Db) (method : μ)
    (ob ex : Bool) (kw : Rt.Kwargs) (hkw : Rt.kwCheck kw = .ok ()) (hempty : ∀ R, grm [] [] method ≠ .ok R) :
    GenSup.superpose pdb2sql m2 mc mg grm mobile target method ob ex kw =
      (do let mob ← wrap pdb2sql mobile
          let tar ← wrap pdb2sql target
          (SupDb.superpose (fun P Q => grm P Q method) (ofGen mob) (ofGen tar) (argsOf ob ex kw)).map (outOf (ofGen mob))) := by
  rw [superpose_world h, gensup_superpose_eq_model pdb2sql grm mobile target method ob ex kw hkw hempty]

/-- non-vacuity: the hand model's world simulates itself -/
theorem simulates_self (kw : Rt.Kwargs) : Simulates many2sql many2sqlCall many2sqlGetIntersection (fun a b => a = b) kw where
  init := fun _ _ l1 l2 _ _ => by cases many2sql [l1, l2] <;> simp [RelE]
  call := fun w m hr => by subst hr; cases many2sqlCall w kw <;> simp [RelE]
  inter := fun w m c hr => by subst hr; rfl

end world

end Proofs.SupTie
