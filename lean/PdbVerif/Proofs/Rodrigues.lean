/-
  The translated rotation matrices of `transform.py`: Rodrigues' matrix is the right-handed rotation in
  vector form, is a proper rotation, fixes its axis; the Euler matrix is Rz·Ry·Rx with each factor the
  Rodrigues matrix about a coordinate axis; point maps `c₀ + M(p − c₀)` are rigid.  Helper lemmas only.
  (The `linear_combination` certificates were computed by polynomial reduction modulo `c²+s²=1`, `‖u‖²=1`.)
-/
import PdbVerif.Proofs.SO3
import PdbVerif.Gen.Mat
import PdbVerif.Spec.C10
import PdbVerif.Model.Transform

set_option linter.unusedSectionVars false
set_option linter.unusedVariables false

namespace Proofs.Rod
open Py Py.Mat3 Spec Proofs.M3

variable {α : Type} [Field α]

/-- the translated matrix acts as the vector form of the right-handed rotation (no hypothesis needed) -/
theorem rodrigues_mulVec (c s : α) (u p : Vec3 α) :
    (Gen.rodrigues c s u.x u.y u.z).mulVec p = axisRotate c s u p := by
  ext <;> simp only [Gen.rodrigues, mulVec, axisRotate, Vec3.add, Vec3.smul, Vec3.cross, Vec3.dot] <;> ring

theorem rodrigues_rot (c s : α) (u : Vec3 α) (hcs : c * c + s * s = 1) (hu : Vec3.normSq u = 1) :
    IsRotation (Gen.rodrigues c s u.x u.y u.z) := by
  simp only [Vec3.normSq, Vec3.dot] at hu
  obtain ⟨ux, uy, uz⟩ := u
  simp only at hu
  refine ⟨⟨?_, ?_⟩, ?_⟩
  · ext <;> simp only [Gen.rodrigues, mul, T, one]
    · linear_combination (1*uy*uy + 1*uz*uz) * hcs + (1 + (-1)*c*c + 1*c*c*ux*ux + (-2)*c*ux*ux + 1*ux*ux) * hu
    · linear_combination ((-1)*ux*uy) * hcs + (1*c*c*ux*uy + (-2)*c*ux*uy + 1*ux*uy) * hu
    · linear_combination ((-1)*ux*uz) * hcs + (1*c*c*ux*uz + (-2)*c*ux*uz + 1*ux*uz) * hu
    · linear_combination ((-1)*ux*uy) * hcs + (1*c*c*ux*uy + (-2)*c*ux*uy + 1*ux*uy) * hu
    · linear_combination (1*ux*ux + 1*uz*uz) * hcs + (1 + (-1)*c*c + 1*c*c*uy*uy + (-2)*c*uy*uy + 1*uy*uy) * hu
    · linear_combination ((-1)*uy*uz) * hcs + (1*c*c*uy*uz + (-2)*c*uy*uz + 1*uy*uz) * hu
    · linear_combination ((-1)*ux*uz) * hcs + (1*c*c*ux*uz + (-2)*c*ux*uz + 1*ux*uz) * hu
    · linear_combination ((-1)*uy*uz) * hcs + (1*c*c*uy*uz + (-2)*c*uy*uz + 1*uy*uz) * hu
    · linear_combination (1*ux*ux + 1*uy*uy) * hcs + (1 + (-1)*c*c + 1*c*c*uz*uz + (-2)*c*uz*uz + 1*uz*uz) * hu
  · ext <;> simp only [Gen.rodrigues, mul, T, one]
    · linear_combination (1*uy*uy + 1*uz*uz) * hcs + (1 + (-1)*c*c + 1*c*c*ux*ux + (-2)*c*ux*ux + 1*ux*ux) * hu
    · linear_combination ((-1)*ux*uy) * hcs + (1*c*c*ux*uy + (-2)*c*ux*uy + 1*ux*uy) * hu
    · linear_combination ((-1)*ux*uz) * hcs + (1*c*c*ux*uz + (-2)*c*ux*uz + 1*ux*uz) * hu
    · linear_combination ((-1)*ux*uy) * hcs + (1*c*c*ux*uy + (-2)*c*ux*uy + 1*ux*uy) * hu
    · linear_combination (1*ux*ux + 1*uz*uz) * hcs + (1 + (-1)*c*c + 1*c*c*uy*uy + (-2)*c*uy*uy + 1*uy*uy) * hu
    · linear_combination ((-1)*uy*uz) * hcs + (1*c*c*uy*uz + (-2)*c*uy*uz + 1*uy*uz) * hu
    · linear_combination ((-1)*ux*uz) * hcs + (1*c*c*ux*uz + (-2)*c*ux*uz + 1*ux*uz) * hu
    · linear_combination ((-1)*uy*uz) * hcs + (1*c*c*uy*uz + (-2)*c*uy*uz + 1*uy*uz) * hu
    · linear_combination (1*ux*ux + 1*uy*uy) * hcs + (1 + (-1)*c*c + 1*c*c*uz*uz + (-2)*c*uz*uz + 1*uz*uz) * hu
  · simp only [Gen.rodrigues, det]
    linear_combination (1*c*ux*ux + (-1)*c*ux*ux*ux*ux + (-2)*c*ux*ux*uy*uy + (-2)*c*ux*ux*uz*uz + 1*c*uy*uy + (-1)*c*uy*uy*uy*uy + (-2)*c*uy*uy*uz*uz + 1*c*uz*uz + (-1)*c*uz*uz*uz*uz + 1*ux*ux*ux*ux + 2*ux*ux*uy*uy + 2*ux*ux*uz*uz + 1*uy*uy*uy*uy + 2*uy*uy*uz*uz + 1*uz*uz*uz*uz) * hcs + (1 + (-1)*c*c*c + 1*c*c*c*ux*ux + 1*c*c*c*uy*uy + 1*c*c*c*uz*uz + (-1)*c*c*ux*ux + (-1)*c*c*uy*uy + (-1)*c*c*uz*uz + (-1)*c*ux*ux + (-1)*c*uy*uy + (-1)*c*uz*uz + 1*ux*ux + 1*uy*uy + 1*uz*uz) * hu

theorem axisRotate_axis (c s : α) (u : Vec3 α) (hu : Vec3.normSq u = 1) : axisRotate c s u u = u := by
  simp only [Vec3.normSq] at hu
  ext <;> simp only [axisRotate, Vec3.add, Vec3.smul, Vec3.cross, hu] <;> ring

theorem axisRotate_perp (c s : α) (u v : Vec3 α) (hv : Vec3.dot u v = 0) :
    axisRotate c s u v = Vec3.add (Vec3.smul c v) (Vec3.smul s (Vec3.cross u v)) := by
  ext <;> simp only [axisRotate, Vec3.add, Vec3.smul, Vec3.cross, hv] <;> ring

/-! ### Euler -/

theorem euler_rx_eq (c s : α) : Gen.euler_rx c s = Gen.rodrigues c s 1 0 0 := by
  ext <;> simp [Gen.euler_rx, Gen.rodrigues]
theorem euler_ry_eq (c s : α) : Gen.euler_ry c s = Gen.rodrigues c s 0 1 0 := by
  ext <;> simp [Gen.euler_ry, Gen.rodrigues]
theorem euler_rz_eq (c s : α) : Gen.euler_rz c s = Gen.rodrigues c s 0 0 1 := by
  ext <;> simp [Gen.euler_rz, Gen.rodrigues]

theorem euler_mulVec (ca sa cb sb cg sg : α) (p : Vec3 α) :
    (Gen.euler_mat ca sa cb sb cg sg).mulVec p = eulerRotate ca sa cb sb cg sg p := by
  unfold Gen.euler_mat eulerRotate
  rw [mulVec_mul, mulVec_mul, euler_rx_eq, euler_ry_eq, euler_rz_eq]
  have h1 := rodrigues_mulVec ca sa (e1 : Vec3 α); have h2 := rodrigues_mulVec cb sb (e2 : Vec3 α)
  have h3 := rodrigues_mulVec cg sg (e3 : Vec3 α)
  simp only [e1, e2, e3] at h1 h2 h3
  rw [h1, h2, h3]; rfl

theorem euler_rot (ca sa cb sb cg sg : α) (ha : ca * ca + sa * sa = 1) (hb : cb * cb + sb * sb = 1)
    (hg : cg * cg + sg * sg = 1) : IsRotation (Gen.euler_mat ca sa cb sb cg sg) := by
  unfold Gen.euler_mat
  rw [euler_rx_eq, euler_ry_eq, euler_rz_eq]
  have h1 := rodrigues_rot ca sa (⟨1, 0, 0⟩ : Vec3 α) ha (by simp [Vec3.normSq, Vec3.dot])
  have h2 := rodrigues_rot cb sb (⟨0, 1, 0⟩ : Vec3 α) hb (by simp [Vec3.normSq, Vec3.dot])
  have h3 := rodrigues_rot cg sg (⟨0, 0, 1⟩ : Vec3 α) hg (by simp [Vec3.normSq, Vec3.dot])
  exact rot_mul h3 (rot_mul h2 h1)

/-! ### rigid point maps -/

/-- distances and handedness are preserved -/
def Rigid (g : Vec3 α → Vec3 α) : Prop :=
  (∀ p q, dist2 (g p) (g q) = dist2 p q) ∧ (∀ o p q r, orient (g o) (g p) (g q) (g r) = orient o p q r)

theorem rigid_id : Rigid (id : Vec3 α → Vec3 α) := ⟨fun _ _ => rfl, fun _ _ _ _ => rfl⟩

theorem rigid_comp {g h : Vec3 α → Vec3 α} (hg : Rigid g) (hh : Rigid h) : Rigid (g ∘ h) :=
  ⟨fun p q => by simp only [Function.comp]; rw [hg.1, hh.1],
   fun o p q r => by simp only [Function.comp]; rw [hg.2, hh.2]⟩

theorem rigid_translate (v : Vec3 α) : Rigid (fun p => Vec3.add p v) := by
  refine ⟨fun p q => ?_, fun o p q r => ?_⟩
  · simp only [dist2, Vec3.normSq, Vec3.dot, Vec3.sub, Vec3.add]; ring
  · simp only [orient, Vec3.dot, Vec3.cross, Vec3.sub, Vec3.add]; ring

theorem sub_about (M : Mat3 α) (c p q : Vec3 α) :
    Vec3.sub (Vec3.add (M.mulVec (Vec3.sub p c)) c) (Vec3.add (M.mulVec (Vec3.sub q c)) c) = M.mulVec (Vec3.sub p q) := by
  ext <;> simp only [Vec3.sub, Vec3.add, mulVec] <;> ring

theorem rigid_about {M : Mat3 α} (hM : IsRotation M) (c : Vec3 α) :
    Rigid (fun p => Vec3.add (M.mulVec (Vec3.sub p c)) c) := by
  refine ⟨fun p q => ?_, fun o p q r => ?_⟩
  · simp only [dist2]; rw [sub_about, orth_normSq hM.1]
  · simp only [orient]; rw [sub_about, sub_about, sub_about, dot_cross_mulVec, hM.2, _root_.one_mul]

end Proofs.Rod
