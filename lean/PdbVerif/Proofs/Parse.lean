/-
  Helper lemmas for C01: the generated string kernels (`Gen._format_pdb_linelength`, `Gen._get_chainID`,
  `Gen._get_element`) and the hand model of one record (`Model.parseField`, `Model.parseAtomLine`)
  against the property-level reading (`Spec.parseRecord`).  Helper lemmas only.
-/
import Mathlib.Tactic.Linarith
import PdbVerif.Model.Parse
import PdbVerif.Spec.C01
import PdbVerif.Proofs.Str

set_option linter.unusedSimpArgs false
set_option linter.unusedVariables false

namespace Proofs.Parse
open Py

/-! ### the 80-column guard -/

theorem pad80_length (t : Str) (h : t.length ≤ 80) : (Spec.pad80 t).length = 80 := by
  simp [Spec.pad80]; omega

theorem linelength_ok (t : Str) (h : t.length ≤ 80) :
    Gen._format_pdb_linelength t = .ok (Spec.pad80 t) := by
  unfold Gen._format_pdb_linelength Spec.pad80 Py.len
  by_cases h1 : t.length < 80
  · have : ((t.length : Int) < 80) := by omega
    simp only [this, if_true, rep_space, pure, Except.pure, spaces]
    congr 3; omega
  · have e : t.length = 80 := by omega
    have h2 : ¬ ((t.length : Int) < 80) := by omega
    have h3 : ¬ ((t.length : Int) > 80) := by omega
    simp [h2, h3, pure, Except.pure, e]

theorem linelength_err (t : Str) (h : t.length > 80) :
    Gen._format_pdb_linelength t = .error .valueError := by
  unfold Gen._format_pdb_linelength Py.len
  have h2 : ¬ ((t.length : Int) < 80) := by omega
  have h3 : ((t.length : Int) > 80) := by omega
  simp [h2, h3, throw, throwThe, MonadExceptOf.throw]

/-! ### slices are columns -/

theorem slice_cols (l : Str) (a b : Nat) : Py.slice l (a : Int) (b : Int) = Spec.rawCols l (a + 1) b := by
  rw [slice_nat]; simp [Spec.rawCols]

theorem strip_slice_cols (l : Str) (a b : Nat) :
    Py.strip (Py.slice l (a : Int) (b : Int)) = Spec.cols l (a + 1) b := by
  rw [slice_cols]; rfl

/-! ### the chain and element fallbacks -/

theorem get_chainID_eq (l : Str) :
    Gen._get_chainID l = if Spec.cols l 73 76 = [] then .error .valueError else .ok (Spec.cols l 73 76) := by
  unfold Gen._get_chainID
  have : Py.strip (Py.slice l (72 : Int) (76 : Int)) = Spec.cols l 73 76 := strip_slice_cols l 72 76
  rw [this]
  by_cases h : Spec.cols l 73 76 = [] <;> simp [h, pure, Except.pure, throw, throwThe, MonadExceptOf.throw]

/-- a line of at least 16 columns, cut around the atom-name columns 13–16 -/
theorem split16 (l : Str) (h : 16 ≤ l.length) :
    ∃ p c1 c2 c3 c4 q, p.length = 12 ∧ l = p ++ c1 :: c2 :: c3 :: c4 :: q := by
  have hl : l = l.take 12 ++ l.drop 12 := (List.take_append_drop 12 l).symm
  have hd : 4 ≤ (l.drop 12).length := by simp; omega
  match hq : l.drop 12, hd with
  | c1 :: c2 :: c3 :: c4 :: q, _ =>
    refine ⟨l.take 12, c1, c2, c3, c4, q, ?_, ?_⟩
    · simp; omega
    · rw [← hq]; exact hl

theorem strIn_digit (c : Char) :
    Py.strIn [c] ['0', '1', '2', '3', '4', '5', '6', '7', '8', '9'] = Spec.isDigitChar c := by
  have e : Spec.isDigitChar c = Py.isDigit c := rfl
  rw [e]
  by_cases h : Py.isDigit c = true
  · rw [h]
    have := digit_cases c h
    simp only [List.mem_cons, List.not_mem_nil, or_false] at this
    rcases this with h | h | h | h | h | h | h | h | h | h <;> subst h <;> decide
  · have hf : Py.isDigit c = false := by simpa using h
    rw [hf]
    have hne : ∀ d ∈ ['0', '1', '2', '3', '4', '5', '6', '7', '8', '9'], c ≠ d := by
      intro d hd hcd; subst hcd; exact h (isDigit_of_mem c hd)
    simp only [List.mem_cons, List.not_mem_nil, or_false, forall_eq_or_imp, forall_eq] at hne
    simp [Py.strIn, hne, List.isPrefixOf]

theorem getItem1_mid (p : Str) (r : Str) (c : Char) (k : Nat) (i : Int) (hi : i = k) (hp : p.length ≤ k)
    (hk : (p ++ r)[k]? = some c) : Py.getItem1 (p ++ r) i = .ok [c] := by
  subst hi
  unfold Py.getItem1 Py.getItem
  have : ¬ ((k : Int) < 0) := by omega
  simp [this, hk]

theorem get_element_eq (l : Str) (h : 16 ≤ l.length) :
    Gen._get_element l = .ok (Spec.elementOfName (Spec.rawCols l 13 16)) := by
  obtain ⟨p, c1, c2, c3, c4, q, hp, rfl⟩ := split16 l h
  have hraw : Spec.rawCols (p ++ c1 :: c2 :: c3 :: c4 :: q) 13 16 = [c1, c2, c3, c4] := by
    simp [Spec.rawCols, List.take_append, List.drop_append, hp]
  have g12 : Py.getItem1 (p ++ c1 :: c2 :: c3 :: c4 :: q) (12 : Int) = .ok [c1] :=
    getItem1_mid _ _ _ 12 _ rfl (by omega) (by simp [List.getElem?_append_right, hp])
  have g13 : Py.getItem1 (p ++ c1 :: c2 :: c3 :: c4 :: q) (13 : Int) = .ok [c2] :=
    getItem1_mid _ _ _ 13 _ rfl (by omega) (by simp [List.getElem?_append_right, hp])
  have g15 : Py.getItem1 (p ++ c1 :: c2 :: c3 :: c4 :: q) (15 : Int) = .ok [c4] :=
    getItem1_mid _ _ _ 15 _ rfl (by omega) (by simp [List.getElem?_append_right, hp])
  have hsl : Py.slice (p ++ c1 :: c2 :: c3 :: c4 :: q) (12 : Int) (14 : Int) = [c1, c2] := by
    have := slice_nat (p ++ c1 :: c2 :: c3 :: c4 :: q) 12 14
    simp only [Nat.cast_ofNat] at this
    rw [this]; simp [List.take_append, List.drop_append, hp]
  rw [hraw]
  unfold Gen._get_element Spec.elementOfName
  simp only [g12, g13, g15, hsl, bind, Except.bind, pure, Except.pure, strip_single, strIn_digit]
  by_cases s1 : isSpace c1 = true
  · simp [s1]
  · have s1' : isSpace c1 = false := by simpa using s1
    simp only [s1', Bool.false_eq_true, if_false]
    by_cases d1 : Spec.isDigitChar c1 = true
    · simp [d1, strIn_digit]
    · have d1' : Spec.isDigitChar c1 = false := by simpa using d1
      by_cases s4 : isSpace c4 = true
      · simp [d1', s4, strIn_digit]
      · have s4' : isSpace c4 = false := by simpa using s4
        by_cases hH : c1 = 'H'
        · subst hH; simp [d1', s4', strIn_digit]
        · simp [d1', s4', strIn_digit, hH]

/-! ### one column of one record -/

section fields
variable (l : Str)

theorem field_int (cn : String) (a b : Nat)
    (hd : Model.lookup cn Gen.delimiter = some (a, b)) (hb : Model.lookup cn Gen.blank_defaults = none) :
    Model.parseField l cn "INT" =
      (match parseInt (Spec.cols l (a + 1) b) with | .ok i => .ok (some (.int i)) | .error e => .error e) := by
  unfold Model.parseField
  simp only [hd, hb, strip_slice_cols]
  have hc : ∀ d, Model.convert "INT" (Model.Data.str d) =
      (match parseInt d with | .ok i => .ok (.int i) | .error e => .error e) := by
    intro d; unfold Model.convert; simp only [if_true, bind, Except.bind, pure, Except.pure]
    cases parseInt d <;> rfl
  by_cases h : Spec.cols l (a + 1) b = [] <;>
    simp only [h, if_true, if_false, bind, Except.bind, pure, Except.pure, hc] <;>
    cases parseInt _ <;> rfl

theorem field_text (cn : String) (a b : Nat)
    (hd : Model.lookup cn Gen.delimiter = some (a, b)) (hb : Model.lookup cn Gen.blank_defaults = none) :
    Model.parseField l cn "TEXT" = .ok (some (.text (Spec.cols l (a + 1) b))) := by
  unfold Model.parseField
  simp only [hd, hb, strip_slice_cols]
  have hc : ∀ d, Model.convert "TEXT" (Model.Data.str d) = .ok (.text d) := by
    intro d; unfold Model.convert
    have h1 : ¬ ("TEXT" = "INT") := by decide
    have h2 : ¬ ("TEXT" = "REAL") := by decide
    simp only [h1, h2, if_false, pure, Except.pure]
  by_cases h : Spec.cols l (a + 1) b = [] <;>
    simp only [h, if_true, if_false, bind, Except.bind, pure, Except.pure, hc]

theorem convert_real_str (d : Str) : Model.convert "REAL" (Model.Data.str d) =
    (match parseFloat d with | .ok r => .ok (.real r) | .error e => .error e) := by
  unfold Model.convert
  have h1 : ¬ ("REAL" = "INT") := by decide
  simp only [h1, if_false, if_true, bind, Except.bind, pure, Except.pure]
  cases parseFloat d <;> rfl

theorem field_real (cn : String) (a b : Nat)
    (hd : Model.lookup cn Gen.delimiter = some (a, b)) (hb : Model.lookup cn Gen.blank_defaults = none) :
    Model.parseField l cn "REAL" =
      (match parseFloat (Spec.cols l (a + 1) b) with | .ok r => .ok (some (.real r)) | .error e => .error e) := by
  unfold Model.parseField
  simp only [hd, hb, strip_slice_cols]
  by_cases h : Spec.cols l (a + 1) b = [] <;>
    simp only [h, if_true, if_false, bind, Except.bind, pure, Except.pure, convert_real_str] <;>
    cases parseFloat _ <;> rfl

theorem field_real_default (cn : String) (a b : Nat) (v : Rat)
    (hd : Model.lookup cn Gen.delimiter = some (a, b))
    (hb : Model.lookup cn Gen.blank_defaults = some (.num v)) :
    Model.parseField l cn "REAL" =
      (if Spec.cols l (a + 1) b = [] then .ok (some (.real v)) else
        match parseFloat (Spec.cols l (a + 1) b) with | .ok r => .ok (some (.real r)) | .error e => .error e) := by
  unfold Model.parseField
  simp only [hd, hb, strip_slice_cols]
  have hc : Model.convert "REAL" (Model.Data.num v) = .ok (.real v) := by
    unfold Model.convert
    have h1 : ¬ ("REAL" = "INT") := by decide
    simp only [h1, if_false, if_true, pure, Except.pure]
  by_cases h : Spec.cols l (a + 1) b = []
  · simp only [h, if_true, bind, Except.bind, pure, Except.pure, hc]
  · simp only [h, if_false, bind, Except.bind, pure, Except.pure, convert_real_str]
    cases parseFloat _ <;> rfl

theorem field_chain :
    Model.parseField l "chainID" "TEXT" =
      (if Spec.cols l 22 22 = [] then
        (if Spec.cols l 73 76 = [] then .error .valueError else .ok (some (.text (Spec.cols l 73 76))))
       else .ok (some (.text (Spec.cols l 22 22)))) := by
  have hd : Model.lookup "chainID" Gen.delimiter = some (21, 22) := by decide
  have hb : Model.lookup "chainID" Gen.blank_defaults = some .chainFromSegID := by decide
  unfold Model.parseField
  simp only [hd, hb, strip_slice_cols]
  have hc : ∀ d, Model.convert "TEXT" (Model.Data.str d) = .ok (.text d) := by
    intro d; unfold Model.convert
    have h1 : ¬ ("TEXT" = "INT") := by decide
    have h2 : ¬ ("TEXT" = "REAL") := by decide
    simp only [h1, h2, if_false, pure, Except.pure]
  by_cases h : Spec.cols l 22 22 = []
  · simp only [h, if_true, get_chainID_eq]
    by_cases h2 : Spec.cols l 73 76 = [] <;>
      simp only [h2, if_true, if_false, bind, Except.bind, pure, Except.pure, hc]
  · simp only [h, if_false, bind, Except.bind, pure, Except.pure, hc]

theorem field_element (h16 : 16 ≤ l.length) :
    Model.parseField l "element" "TEXT" =
      .ok (some (.text (if Spec.cols l 77 78 = [] then Spec.elementOfName (Spec.rawCols l 13 16)
                        else Spec.cols l 77 78))) := by
  have hd : Model.lookup "element" Gen.delimiter = some (76, 78) := by decide
  have hb : Model.lookup "element" Gen.blank_defaults = some .elementFromName := by decide
  unfold Model.parseField
  simp only [hd, hb, strip_slice_cols]
  have hc : ∀ d, Model.convert "TEXT" (Model.Data.str d) = .ok (.text d) := by
    intro d; unfold Model.convert
    have h1 : ¬ ("TEXT" = "INT") := by decide
    have h2 : ¬ ("TEXT" = "REAL") := by decide
    simp only [h1, h2, if_false, pure, Except.pure]
  by_cases h : Spec.cols l 77 78 = []
  · simp only [h, if_true, get_element_eq l h16, bind, Except.bind, pure, Except.pure, hc]
  · simp only [h, if_false, bind, Except.bind, pure, Except.pure, hc]

theorem field_model (ct : String) : Model.parseField l "model" ct = .ok none := by
  have hd : Model.lookup "model" Gen.delimiter = none := by decide
  unfold Model.parseField
  simp only [hd, pure, Except.pure]

end fields

/-! ### the whole record -/

theorem parseFields_eq (l : Str) (h16 : 16 ≤ l.length) (n : Int) :
    (match Model.parseFields l Gen.col with | .ok vs => Except.ok (vs ++ [Val.int n]) | .error e => .error e) =
    (do
      let serial ← parseInt (Spec.cols l 7 11)
      let name := Spec.cols l 13 16
      let altLoc := Spec.cols l 17 17
      let resName := Spec.cols l 18 20
      let chain ←
        if Spec.cols l 22 22 = [] then
          (if Spec.cols l 73 76 = [] then Except.error Err.valueError else pure (Spec.cols l 73 76))
        else pure (Spec.cols l 22 22)
      let resSeq ← parseInt (Spec.cols l 23 26)
      let iCode := Spec.cols l 27 27
      let x ← parseFloat (Spec.cols l 31 38)
      let y ← parseFloat (Spec.cols l 39 46)
      let z ← parseFloat (Spec.cols l 47 54)
      let occ ← if Spec.cols l 55 60 = [] then pure (1 : Rat) else parseFloat (Spec.cols l 55 60)
      let temp ← if Spec.cols l 61 66 = [] then pure (10 : Rat) else parseFloat (Spec.cols l 61 66)
      let element := if Spec.cols l 77 78 = [] then Spec.elementOfName (Spec.rawCols l 13 16) else Spec.cols l 77 78
      pure [.int serial, .text name, .text altLoc, .text resName, .text chain, .int resSeq, .text iCode,
            .real x, .real y, .real z, .real occ, .real temp, .text element, .int n]) := by
  have f1 := field_int l "serial" 6 11 (by decide) (by decide)
  have f2 := field_text l "name" 12 16 (by decide) (by decide)
  have f3 := field_text l "altLoc" 16 17 (by decide) (by decide)
  have f4 := field_text l "resName" 17 20 (by decide) (by decide)
  have f5 := field_chain l
  have f6 := field_int l "resSeq" 22 26 (by decide) (by decide)
  have f7 := field_text l "iCode" 26 27 (by decide) (by decide)
  have f8 := field_real l "x" 30 38 (by decide) (by decide)
  have f9 := field_real l "y" 38 46 (by decide) (by decide)
  have f10 := field_real l "z" 46 54 (by decide) (by decide)
  have f11 := field_real_default l "occ" 54 60 1 (by decide) (by decide)
  have f12 := field_real_default l "temp" 60 66 10 (by decide) (by decide)
  have f13 := field_element l h16
  have f14 := field_model l "INT"
  simp only [Gen.col, Model.parseFields, f1, f2, f3, f4, f5, f6, f7, f8, f9, f10, f11, f12, f13, f14]
  simp only [bind, Except.bind, pure, Except.pure]
  cases parseInt (Spec.cols l 7 11) with
  | error e => rfl
  | ok serial =>
  simp only []
  by_cases hc : Spec.cols l 22 22 = []
  · by_cases hs : Spec.cols l 73 76 = []
    · simp only [hc, hs, if_true]
    · simp only [hc, hs, if_true, if_false]
      cases parseInt (Spec.cols l 23 26) with
      | error e => rfl
      | ok resSeq =>
      cases parseFloat (Spec.cols l 31 38) with
      | error e => rfl
      | ok x =>
      cases parseFloat (Spec.cols l 39 46) with
      | error e => rfl
      | ok y =>
      cases parseFloat (Spec.cols l 47 54) with
      | error e => rfl
      | ok z =>
      by_cases ho : Spec.cols l 55 60 = [] <;> by_cases ht : Spec.cols l 61 66 = [] <;>
        simp only [ho, ht, if_true, if_false] <;>
        (try cases parseFloat (Spec.cols l 55 60)) <;> (try cases parseFloat (Spec.cols l 61 66)) <;> rfl
  · simp only [hc, if_false]
    cases parseInt (Spec.cols l 23 26) with
    | error e => rfl
    | ok resSeq =>
    cases parseFloat (Spec.cols l 31 38) with
    | error e => rfl
    | ok x =>
    cases parseFloat (Spec.cols l 39 46) with
    | error e => rfl
    | ok y =>
    cases parseFloat (Spec.cols l 47 54) with
    | error e => rfl
    | ok z =>
    by_cases ho : Spec.cols l 55 60 = [] <;> by_cases ht : Spec.cols l 61 66 = [] <;>
      simp only [ho, ht, if_true, if_false] <;>
      (try cases parseFloat (Spec.cols l 55 60)) <;> (try cases parseFloat (Spec.cols l 61 66)) <;> rfl

/-- the record loop's treatment of one ATOM record is the property's reading of that record -/
theorem parseAtomLine_eq (raw : Str) (n : Int) : Model.parseAtomLine raw n = Spec.parseRecord raw n := by
  unfold Model.parseAtomLine Spec.parseRecord
  have hfl : Model.firstLine raw = Spec.recordText raw := rfl
  rw [hfl]
  by_cases hlen : (Spec.recordText raw).length > 80
  · simp only [hlen, if_true, linelength_err _ hlen, bind, Except.bind]
  · have hle : (Spec.recordText raw).length ≤ 80 := by omega
    simp only [hlen, if_false, linelength_ok _ hle]
    have h16 : 16 ≤ (Spec.pad80 (Spec.recordText raw)).length := by rw [pad80_length _ hle]; omega
    have := parseFields_eq (Spec.pad80 (Spec.recordText raw)) h16 n
    rw [← this]
    simp only [bind, Except.bind, pure, Except.pure]
    cases Model.parseFields (Spec.pad80 (Spec.recordText raw)) Gen.col <;> rfl

/-! ### when a record is accepted -/

/-- some numeric field of the (padded) record text `l` is not a number -/
def NonNumeric (l : Str) : Prop :=
  (∃ e, parseInt (Spec.cols l 7 11) = .error e) ∨ (∃ e, parseInt (Spec.cols l 23 26) = .error e) ∨
  (∃ e, parseFloat (Spec.cols l 31 38) = .error e) ∨ (∃ e, parseFloat (Spec.cols l 39 46) = .error e) ∨
  (∃ e, parseFloat (Spec.cols l 47 54) = .error e) ∨
  (Spec.cols l 55 60 ≠ [] ∧ ∃ e, parseFloat (Spec.cols l 55 60) = .error e) ∨
  (Spec.cols l 61 66 ≠ [] ∧ ∃ e, parseFloat (Spec.cols l 61 66) = .error e)

/-- a record that yields a row is at most 80 columns, all its numeric fields are numbers, and it names a chain -/
theorem parseRecord_ok_inv (raw : Str) (n : Int) (r : Row) (h : Spec.parseRecord raw n = .ok r) :
    (Spec.recordText raw).length ≤ 80 ∧ ¬ NonNumeric (Spec.pad80 (Spec.recordText raw)) ∧
    ¬ (Spec.cols (Spec.pad80 (Spec.recordText raw)) 22 22 = [] ∧ Spec.cols (Spec.pad80 (Spec.recordText raw)) 73 76 = []) := by
  unfold Spec.parseRecord at h
  by_cases hlen : (Spec.recordText raw).length > 80
  · simp [hlen] at h
  · simp only [hlen, if_false] at h
    refine ⟨by omega, ?_⟩
    generalize Spec.pad80 (Spec.recordText raw) = l at h ⊢
    unfold NonNumeric
    cases h1 : parseInt (Spec.cols l 7 11) with
    | error e => simp [h1, bind, Except.bind] at h
    | ok serial =>
    by_cases a : Spec.cols l 22 22 = []
    · by_cases b : Spec.cols l 73 76 = []
      · simp [h1, a, b, bind, Except.bind] at h
      · simp only [h1, a, b, if_true, if_false, bind, Except.bind, pure, Except.pure] at h
        cases h2 : parseInt (Spec.cols l 23 26) with
        | error e => simp [h2] at h
        | ok resSeq =>
        cases h3 : parseFloat (Spec.cols l 31 38) with
        | error e => simp [h2, h3] at h
        | ok x =>
        cases h4 : parseFloat (Spec.cols l 39 46) with
        | error e => simp [h2, h3, h4] at h
        | ok y =>
        cases h5 : parseFloat (Spec.cols l 47 54) with
        | error e => simp [h2, h3, h4, h5] at h
        | ok z =>
        simp only [h2, h3, h4, h5] at h
        have h6 : ¬ (Spec.cols l 55 60 ≠ [] ∧ ∃ e, parseFloat (Spec.cols l 55 60) = .error e) := by
          rintro ⟨hne, e, he⟩
          simp [hne, he] at h
        have h7 : ¬ (Spec.cols l 61 66 ≠ [] ∧ ∃ e, parseFloat (Spec.cols l 61 66) = .error e) := by
          rintro ⟨hne, e, he⟩
          by_cases ho : Spec.cols l 55 60 = []
          · simp [hne, he, ho] at h
          · cases ho2 : parseFloat (Spec.cols l 55 60) <;> simp [hne, he, ho, ho2] at h
        refine ⟨?_, fun hh => b hh.2⟩
        rintro (⟨e, he⟩ | ⟨e, he⟩ | ⟨e, he⟩ | ⟨e, he⟩ | ⟨e, he⟩ | h' | h')
        · simp [h1] at he
        · simp [h2] at he
        · simp [h3] at he
        · simp [h4] at he
        · simp [h5] at he
        · exact h6 h'
        · exact h7 h'
    · simp only [h1, a, if_false, bind, Except.bind, pure, Except.pure] at h
      cases h2 : parseInt (Spec.cols l 23 26) with
      | error e => simp [h2] at h
      | ok resSeq =>
      cases h3 : parseFloat (Spec.cols l 31 38) with
      | error e => simp [h2, h3] at h
      | ok x =>
      cases h4 : parseFloat (Spec.cols l 39 46) with
      | error e => simp [h2, h3, h4] at h
      | ok y =>
      cases h5 : parseFloat (Spec.cols l 47 54) with
      | error e => simp [h2, h3, h4, h5] at h
      | ok z =>
      simp only [h2, h3, h4, h5] at h
      have h6 : ¬ (Spec.cols l 55 60 ≠ [] ∧ ∃ e, parseFloat (Spec.cols l 55 60) = .error e) := by
        rintro ⟨hne, e, he⟩
        simp [hne, he] at h
      have h7 : ¬ (Spec.cols l 61 66 ≠ [] ∧ ∃ e, parseFloat (Spec.cols l 61 66) = .error e) := by
        rintro ⟨hne, e, he⟩
        by_cases ho : Spec.cols l 55 60 = []
        · simp [hne, he, ho] at h
        · cases ho2 : parseFloat (Spec.cols l 55 60) <;> simp [hne, he, ho, ho2] at h
      refine ⟨?_, fun hh => a hh.1⟩
      rintro (⟨e, he⟩ | ⟨e, he⟩ | ⟨e, he⟩ | ⟨e, he⟩ | ⟨e, he⟩ | h' | h')
      · simp [h1] at he
      · simp [h2] at he
      · simp [h3] at he
      · simp [h4] at he
      · simp [h5] at he
      · exact h6 h'
      · exact h7 h'

theorem parseRecord_error_of (raw : Str) (n : Int)
    (h : (Spec.recordText raw).length > 80 ∨ NonNumeric (Spec.pad80 (Spec.recordText raw)) ∨
      (Spec.cols (Spec.pad80 (Spec.recordText raw)) 22 22 = [] ∧ Spec.cols (Spec.pad80 (Spec.recordText raw)) 73 76 = [])) :
    ∃ e, Spec.parseRecord raw n = .error e := by
  cases hr : Spec.parseRecord raw n with
  | error e => exact ⟨e, rfl⟩
  | ok r =>
    obtain ⟨a, b, c⟩ := parseRecord_ok_inv raw n r hr
    rcases h with h | h | h
    · omega
    · exact absurd h b
    · exact absurd h c

theorem parseRecord_too_long (raw : Str) (n : Int) (h : (Spec.recordText raw).length > 80) :
    Spec.parseRecord raw n = .error .valueError := by
  unfold Spec.parseRecord; simp only [h, if_true]

end Proofs.Parse
