/-
  The statement texts the translated builders produce, tokenized and parsed by MicroSql: the text of the generic SELECT
  (`selectText`) parses to `SELECT cols FROM t WHERE conds` with the conditions of the keyword list (helper lemmas).
-/
import PdbVerif.Proofs.SqlParse
import PdbVerif.Proofs.SqlGen

set_option linter.unusedVariables false
set_option linter.unusedSimpArgs false

namespace SqlProofs
open Tbl Model MicroSql GenSql

/-! ### `join` and `split` -/

theorem splitOn_ne_nil' (c : Char) : ∀ (s : Py.Str), Py.splitOn c s ≠ []
  | [] => by simp [Py.splitOn]
  | x :: xs => by
    unfold Py.splitOn
    by_cases h : (x == c) = true
    · simp [h]
    · simp only [h, if_false, Bool.false_eq_true]
      cases Py.splitOn c xs <;> simp

theorem join_cons_head (sep : Py.Str) (x : Char) (h : Py.Str) (t : List Py.Str) :
    Rt.join sep ((x :: h) :: t) = x :: Rt.join sep (h :: t) := by
  cases t <;> simp [Rt.join]

theorem join_splitOn (c : Char) : ∀ (s : Py.Str), Rt.join [c] (Py.splitOn c s) = s
  | [] => by simp [Py.splitOn, Rt.join]
  | x :: xs => by
    have ih := join_splitOn c xs
    have hne := splitOn_ne_nil' c xs
    unfold Py.splitOn
    by_cases h : (x == c) = true
    · simp only [h, if_true]
      cases hs : Py.splitOn c xs with
      | nil => exact absurd hs hne
      | cons a t =>
        rw [hs] at ih
        simp only [Rt.join, List.nil_append, List.singleton_append, ih]
        simp only [beq_iff_eq] at h; rw [h]
    · simp only [h, if_false, Bool.false_eq_true]
      cases hs : Py.splitOn c xs with
      | nil => exact absurd hs hne
      | cons a t =>
        rw [hs] at ih
        simp only [join_cons_head, ih]

/-! ### the question marks -/

theorem chars_rep (n : Nat) : Rt.chars (Py.rep ['?'] (n : Int)) = List.replicate n ['?'] := by
  unfold Rt.chars Py.rep
  simp only [Int.toNat_natCast]
  induction n with
  | zero => rfl
  | succ n ih => simp [List.replicate_succ, ih]

theorem tokenize_qs_succ : ∀ (n : Nat), tokenize (Rt.join [','] (List.replicate (n + 1) ['?']) ++ [')']) = .qmark :: qtail n
  | 0 => by decide
  | n + 1 => by
    have ih := tokenize_qs_succ n
    rw [List.replicate_succ, List.replicate_succ, Rt.join, ← List.replicate_succ]
    simp only [List.singleton_append, List.cons_append, List.nil_append, List.append_assoc]
    rw [tokenize_punct '?' .qmark _ (by decide), tokenize_punct ',' .comma _ (by decide), ih]
    rfl

theorem tokenize_qmarks (n : Nat) : tokenize (qmarks n ++ [')']) = qtoks n := by
  unfold qmarks; rw [chars_rep]
  cases n with
  | zero => decide
  | succ n => rw [tokenize_qs_succ]; rfl

theorem mem_join_replicate (c : Char) : ∀ (n : Nat), c ∈ Rt.join [','] (List.replicate n ['?']) → c = '?' ∨ c = ','
  | 0, h => by simp [Rt.join] at h
  | 1, h => by simp only [List.replicate, Rt.join, List.mem_singleton] at h; exact Or.inl h
  | n + 2, h => by
    rw [List.replicate_succ, List.replicate_succ, Rt.join, ← List.replicate_succ] at h
    simp only [List.singleton_append, List.nil_append, List.cons_append, List.mem_cons] at h
    cases h with
    | inl h1 => exact Or.inl h1
    | inr h2 =>
      cases h2 with
      | inl h3 => exact Or.inr h3
      | inr h4 => exact mem_join_replicate c (n + 1) h4

theorem qmarks_noQuote (n : Nat) : NoQuote (qmarks n) := by
  intro c hc
  unfold qmarks at hc; rw [chars_rep] at hc
  rcases mem_join_replicate c n hc with h | h <;> subst h <;> decide


/-! ### one condition -/

def CondSpec.cond (c : CondSpec) : Cond := { name := c.name, neg := c.neg, nparams := c.vals.length }

theorem noQuote_append {a b : Py.Str} (ha : NoQuote a) (hb : NoQuote b) : NoQuote (a ++ b) := by
  intro c hc; rcases List.mem_append.1 hc with h | h
  · exact ha c h
  · exact hb c h

theorem name_noQuote (k : Py.Str) (hk : isName k = true) : NoQuote k := wordChars_noQuote (isName_word k hk).2

theorem condText_noQuote (k : Py.Str) (neg : Bool) (n : Nat) (hk : isName k = true) : NoQuote (condText k neg n) := by
  unfold condText
  refine noQuote_append (noQuote_append (noQuote_append (noQuote_append (name_noQuote k hk) ?_) ?_) (qmarks_noQuote n)) ?_
  · cases neg <;> intro c hc <;> simp at hc
    rcases hc with h | h | h | h <;> subst h <;> decide
  · intro c hc; simp at hc; rcases hc with h | h | h | h | h <;> subst h <;> decide
  · intro c hc; simp at hc; subst hc; decide

instance (s : Py.Str) : Decidable (NoQuote s) := by unfold NoQuote; infer_instance

theorem tokenize_condText (k : Py.Str) (neg : Bool) (n : Nat) (hk : isName k = true) :
    tokenize (condText k neg n) = condToks { name := k, neg := neg, nparams := n } := by
  have hin : tokenize (' ' :: 'i' :: 'n' :: ' ' :: '(' :: (qmarks n ++ [')'])) = .word kIN :: .lparen :: qtoks n := by
    rw [tokenize_space]
    show tokenize (['i', 'n'] ++ ' ' :: ('(' :: (qmarks n ++ [')']))) = _
    rw [tokenize_append_space ['i', 'n'] _ (by decide), tokenize_punct '(' .lparen _ (by decide), tokenize_qmarks]
    rfl
  unfold condText condToks
  cases neg with
  | false =>
    show tokenize (k ++ [] ++ [' ', 'i', 'n', ' ', '('] ++ qmarks n ++ [')']) = _
    simp only [List.append_nil, List.append_assoc, List.cons_append, List.nil_append]
    rw [tokenize_append k _ (name_noQuote k hk) (Or.inr ⟨' ', _, rfl, by decide⟩), tokenize_name k hk, hin]
    rfl
  | true =>
    show tokenize (k ++ [' ', 'N', 'O', 'T'] ++ [' ', 'i', 'n', ' ', '('] ++ qmarks n ++ [')']) = _
    simp only [List.append_assoc, List.cons_append, List.nil_append]
    rw [tokenize_append k _ (name_noQuote k hk) (Or.inr ⟨' ', _, rfl, by decide⟩), tokenize_name k hk, tokenize_space]
    show [Tok.word k] ++ tokenize (['N', 'O', 'T'] ++ ' ' :: 'i' :: 'n' :: ' ' :: '(' :: (qmarks n ++ [')'])) = _
    rw [tokenize_append ['N', 'O', 'T'] _ (by decide) (Or.inr ⟨' ', _, rfl, by decide⟩), hin]
    rfl

/-! ### the conjunction -/

theorem join_noQuote (sep : Py.Str) (hs : NoQuote sep) : ∀ (l : List Py.Str), (∀ x ∈ l, NoQuote x) → NoQuote (Rt.join sep l)
  | [], _ => by intro c hc; simp [Rt.join] at hc
  | [a], h => by simpa [Rt.join] using h a (by simp)
  | a :: b :: t, h => by
    rw [Rt.join]
    exact noQuote_append (noQuote_append (h a (by simp)) hs) (join_noQuote sep hs (b :: t) (fun x hx => h x (by simp [hx])))

theorem tokenize_and : ∀ (ss : List CondSpec), (∀ s ∈ ss, isName s.name = true) →
    tokenize (Rt.join [' ', 'A', 'N', 'D', ' '] (ss.map CondSpec.text)) = andToks (ss.map CondSpec.cond)
  | [], _ => by decide
  | [s], h => by
    simp only [List.map_cons, List.map_nil, Rt.join, andToks]
    exact tokenize_condText _ _ _ (h s (by simp))
  | s :: s' :: t, h => by
    have ih := tokenize_and (s' :: t) (fun x hx => h x (by simp [hx]))
    simp only [List.map_cons] at ih ⊢
    rw [Rt.join, andToks, List.append_assoc]
    show tokenize (s.text ++ ' ' :: (['A', 'N', 'D'] ++ ' ' :: Rt.join [' ', 'A', 'N', 'D', ' '] (s'.text :: List.map CondSpec.text t))) = _
    have hq : NoQuote s.text := condText_noQuote _ _ _ (h s (by simp))
    rw [tokenize_append_space s.text _ hq, tokenize_append_space ['A', 'N', 'D'] _ (by decide), ih]
    unfold CondSpec.text
    rw [tokenize_condText _ _ _ (h s (by simp))]
    rfl

/-! ### the column list -/

/-- the column string is `*`, or names with SQL blanks around them separated by commas (decidable) -/
def colsPlain (columns : Py.Str) : Bool :=
  columns == ['*'] || (Py.splitOn ',' columns).all (fun p => isName (trimSql p))

/-- the column list MicroSql reads from such a string -/
def colsAst (columns : Py.Str) : Cols :=
  if columns = ['*'] then .star else .names ((Py.splitOn ',' columns).map trimSql)

theorem tokenize_join_names : ∀ (ps : List Py.Str), (∀ p ∈ ps, isName (trimSql p) = true) →
    tokenize (Rt.join [','] ps) = nameToks (ps.map trimSql) ∧ NoQuote (Rt.join [','] ps)
  | [], _ => ⟨by decide, by intro c hc; simp [Rt.join] at hc⟩
  | [p], h => by
    simp only [Rt.join, List.map_cons, List.map_nil, nameToks]
    exact ⟨tokenize_padded p _ (padded_trim p) (h p (by simp)), padded_noQuote p _ (padded_trim p) (h p (by simp))⟩
  | p :: q :: t, h => by
    obtain ⟨ih1, ih2⟩ := tokenize_join_names (q :: t) (fun x hx => h x (by simp [hx]))
    have hq := padded_noQuote p _ (padded_trim p) (h p (by simp))
    constructor
    · rw [Rt.join, List.append_assoc]
      show tokenize (p ++ ',' :: Rt.join [','] (q :: t)) = _
      rw [tokenize_append_punct p ',' .comma _ hq (by decide), tokenize_padded p _ (padded_trim p) (h p (by simp)), ih1]
      rfl
    · rw [Rt.join]
      exact noQuote_append (noQuote_append hq (by decide)) ih2

theorem tokenize_columns (columns : Py.Str) (h : colsPlain columns = true) :
    tokenize columns = colToks (colsAst columns) ∧ ColsNames (colsAst columns) ∧ NoQuote columns := by
  unfold colsAst
  by_cases hs : columns = ['*']
  · subst hs; exact ⟨by decide, trivial, by decide⟩
  · have hp : ∀ p ∈ Py.splitOn ',' columns, isName (trimSql p) = true := by
      simp only [colsPlain, Bool.or_eq_true, beq_iff_eq, hs, false_or, List.all_eq_true] at h
      exact h
    obtain ⟨h1, h2⟩ := tokenize_join_names _ hp
    rw [join_splitOn] at h1 h2
    simp only [hs, if_false]
    refine ⟨h1, ⟨?_, ?_⟩, h2⟩
    · intro he; exact splitOn_ne_nil' ',' columns (List.map_eq_nil_iff.1 he)
    · intro n hn
      obtain ⟨p, hp1, rfl⟩ := List.mem_map.1 hn
      exact hp p hp1

/-! ### the whole SELECT text -/

/-- the text of the generic query: head, ` WHERE `, the conditions joined by ` AND ` -/
def selectText (columns tn : Py.Str) (ss : List CondSpec) : Py.Str :=
  selectHead columns tn ++ [' ', 'W', 'H', 'E', 'R', 'E', ' '] ++ Rt.join [' ', 'A', 'N', 'D', ' '] (ss.map CondSpec.text)

theorem tokenize_selectHead_append (columns tn : Py.Str) (hc : colsPlain columns = true) (ht : isName tn = true) (rest : Py.Str)
    (hr : StartsDelim rest) :
    tokenize (selectHead columns tn ++ rest) =
      .word kSELECT :: (colToks (colsAst columns) ++ .word kFROM :: .word tn :: tokenize rest) := by
  obtain ⟨h1, _, h3⟩ := tokenize_columns columns hc
  unfold selectHead
  show tokenize (['S', 'E', 'L', 'E', 'C', 'T', ' '] ++ columns ++ [' ', 'F', 'R', 'O', 'M', ' '] ++ tn ++ rest) = _
  simp only [List.append_assoc]
  show tokenize (['S', 'E', 'L', 'E', 'C', 'T'] ++ ' ' :: (columns ++ ' ' :: (['F', 'R', 'O', 'M'] ++ ' ' :: (tn ++ rest)))) = _
  rw [tokenize_append_space _ _ (by decide), tokenize_append_space columns _ h3, tokenize_append_space _ _ (by decide),
    tokenize_append tn rest (name_noQuote tn ht) hr, tokenize_name tn ht, h1]
  rfl

theorem parse_selectHead (columns tn : Py.Str) (hc : colsPlain columns = true) (ht : isName tn = true) :
    parse (selectHead columns tn) = .ok (.select (colsAst columns) tn []) := by
  have h := tokenize_selectHead_append columns tn hc ht [] (Or.inl rfl)
  rw [List.append_nil] at h
  unfold parse
  rw [h]
  simp only [show isKw "select" kSELECT = true from by decide, if_true]
  have := parseSelect_ok (colsAst columns) tn [] (tokenize_columns columns hc).2.1 ht (by simp)
  simp only [if_true] at this
  show (match parseSelect (colToks (colsAst columns) ++ [Tok.word kFROM, Tok.word tn]) with
    | Except.ok st => Except.ok st
    | Except.error _ => parseJoin (colToks (colsAst columns) ++ [Tok.word kFROM, Tok.word tn])) = _
  rw [this]

theorem parse_selectText (columns tn : Py.Str) (ss : List CondSpec) (hc : colsPlain columns = true) (ht : isName tn = true)
    (hne : ss ≠ []) (hs : ∀ s ∈ ss, isName s.name = true) :
    parse (selectText columns tn ss) = .ok (.select (colsAst columns) tn (ss.map CondSpec.cond)) := by
  unfold selectText
  rw [List.append_assoc]
  have h := tokenize_selectHead_append columns tn hc ht
    ([' ', 'W', 'H', 'E', 'R', 'E', ' '] ++ Rt.join [' ', 'A', 'N', 'D', ' '] (List.map CondSpec.text ss))
    (Or.inr ⟨' ', _, rfl, by decide⟩)
  have hw : tokenize ([' ', 'W', 'H', 'E', 'R', 'E', ' '] ++ Rt.join [' ', 'A', 'N', 'D', ' '] (List.map CondSpec.text ss)) =
      .word kWHERE :: andToks (ss.map CondSpec.cond) := by
    show tokenize (' ' :: (['W', 'H', 'E', 'R', 'E'] ++ ' ' :: Rt.join [' ', 'A', 'N', 'D', ' '] (List.map CondSpec.text ss))) = _
    rw [tokenize_space, tokenize_append_space _ _ (by decide), tokenize_and ss hs]
    rfl
  rw [hw] at h
  unfold parse
  rw [h]
  simp only [show isKw "select" kSELECT = true from by decide, if_true]
  have hne' : ss.map CondSpec.cond ≠ [] := by simpa using hne
  have := parseSelect_ok (colsAst columns) tn (ss.map CondSpec.cond) (tokenize_columns columns hc).2.1 ht
    (by intro c hc'; obtain ⟨s, hs1, rfl⟩ := List.mem_map.1 hc'; exact hs s hs1)
  simp only [hne', if_false] at this
  rw [this]

end SqlProofs
