/-
  C19 side of the SQL tie, part 5: the unknown-match-attribute error on both sides, what `intersect` receives per structure,
  a decidable check of the database hypotheses, and non-vacuity examples with a concrete join statement.
-/
import PdbVerif.Proofs.SqlJoin

set_option linter.unusedVariables false
set_option linter.unusedSimpArgs false

namespace SqlProofs
open Tbl Model MicroSql GenSql

/-! ### an unknown match attribute -/

theorem mapM_err_of {α β : Type} (f : α → Except Model.Err β) : ∀ (l : List α),
    (∀ x ∈ l, (∃ y, f x = .ok y) ∨ f x = .error .operational) → (∃ x ∈ l, f x = .error .operational) →
    l.mapM f = .error .operational
  | [], _, ⟨x, hx, _⟩ => by simp at hx
  | a :: t, h, ⟨x, hx, hfx⟩ => by
    simp only [List.mapM_cons, bind, Except.bind]
    rcases h a (by simp) with ⟨y, hy⟩ | he
    · rw [hy]
      have hx' : x ∈ t := by
        rcases List.mem_cons.1 hx with rfl | h'
        · rw [hy] at hfx; cases hfx
        · exact h'
      rw [mapM_err_of f t (fun z hz => h z (by simp [hz])) ⟨x, hx', hfx⟩]
    · rw [he]

theorem pairsOf_ne_nil {α : Type} : ∀ (l : List α), 2 ≤ l.length → pairsOf l ≠ []
  | [], h => by simp at h
  | [a], h => by simp at h
  | a :: b :: t, _ => by simp [pairsOf]

/-- **an unknown match attribute is an error on both sides** (with at least two structures: for a single structure the
    source emits no ON clause and the attribute names never reach SQLite) -/
theorem getIntersection_bad_match (db : Db) (hdb : JoinDb db) (h2 : 2 ≤ db.tabs.length) (htn : ∀ t ∈ db.tabs, isName t.name = true)
    (column : Py.Str) (hcol : JoinCols column) (mnames : List Py.Str) (hmn : ∀ a ∈ mnames, isName a = true ∧ NoAlias a)
    (hm : mnames.mapM matchCol = none) :
    intersectionViaSql db column mnames = .error .operational ∧ Model.getIntersection db column mnames = .error .operational := by
  have hx := hdb.noExtra
  constructor
  · obtain ⟨names, hnames⟩ : ∃ names, names = db.tabs.map (·.name) := ⟨_, rfl⟩
    have hlen : names.length = db.tabs.length := by rw [hnames]; simp
    have hnne : names ≠ [] := by intro h; rw [h] at hlen; simp at hlen; omega
    have hnn : ∀ n ∈ names, isName n = true := by
      intro n hn; rw [hnames] at hn; obtain ⟨t, ht, rfl⟩ := List.mem_map.1 hn; exact htn t ht
    have hpieces : ∀ c ∈ Py.splitOn ',' column, (c = ['*'] ∨ isName c = true) ∧ (c = ['*'] ∨ NoAlias c) := by
      intro c hc
      rcases hcol with h | h
      · subst h
        have : Py.splitOn ',' ['*'] = [['*']] := by decide
        rw [this] at hc; simp at hc; subst hc; exact ⟨Or.inl rfl, Or.inl rfl⟩
      · exact ⟨Or.inr (h c hc).1, Or.inr (h c hc).2⟩
    have hplain : JoinPlain names (Py.splitOn ',' column) mnames :=
      ⟨hnn, fun c hc => (hpieces c hc).1, fun a ha => (hmn a ha).1⟩
    have hidx1 : ∀ ni ∈ names.zipIdx, tabIdx names ni.1 = some ni.2 := by
      intro ni hni
      have := List.mem_zipIdx_iff_getElem?.1 hni
      simp only [hnames, List.getElem?_map, Nat.zero_add, Option.map_eq_some_iff] at this
      obtain ⟨t, ht, hn⟩ := this
      rw [← hn, hnames]; exact hdb.idx ni.2 t (by simpa using ht)
    have hfind : names.mapM (findTab db) = some db.tabs := by rw [hnames]; exact hdb.find
    unfold intersectionViaSql
    rw [← hnames, intersection_query_nf]
    simp only [MicroSql.query, parse_joinText names _ mnames hnne (splitOn_ne_nil' ',' column) hplain, joinStmt, List.isEmpty_nil, if_true]
    -- a match attribute that is no standard attribute
    obtain ⟨a, ha, hnone⟩ : ∃ a ∈ mnames, matchCol a = none := by
      by_contra hcon
      push Not at hcon
      have : ∃ m, mnames.mapM matchCol = some m := by
        clear hm hmn hplain
        induction mnames with
        | nil => exact ⟨[], rfl⟩
        | cons b t ih =>
          obtain ⟨m', hm'⟩ := ih (fun x hx' => hcon x (by simp [hx']))
          obtain ⟨s, hs⟩ := Option.ne_none_iff_exists'.1 (hcon b (by simp))
          exact ⟨s :: m', by simp [List.mapM_cons, hs, hm']⟩
      obtain ⟨m, hm'⟩ := this
      rw [hm'] at hm; cases hm
    have heqs : ((mnames.flatMap (fun a => (pairsOf names).map (fun p => (a, p)))).map eqOf).mapM (resolveEq db names) =
        .error .operational := by
      apply mapM_err_of
      · intro e he
        obtain ⟨ap, hap, rfl⟩ := List.mem_map.1 he
        simp only [List.mem_flatMap, List.mem_map] at hap
        obtain ⟨b, hb, p, hp, rfl⟩ := hap
        obtain ⟨m1, m2⟩ := mem_pairsOf names p hp
        obtain ⟨i1, hi1⟩ : ∃ i, tabIdx names p.1 = some i := by
          obtain ⟨i, hi⟩ := List.getElem_of_mem m1
          obtain ⟨hlt, hi⟩ := hi
          exact ⟨i, by rw [← hi]; exact hidx1 (names[i], i) (List.mem_zipIdx_iff_getElem?.2 (by simp [List.getElem?_eq_getElem hlt]))⟩
        obtain ⟨i2, hi2⟩ : ∃ i, tabIdx names p.2 = some i := by
          obtain ⟨i, hi⟩ := List.getElem_of_mem m2
          obtain ⟨hlt, hi⟩ := hi
          exact ⟨i, by rw [← hi]; exact hidx1 (names[i], i) (List.mem_zipIdx_iff_getElem?.2 (by simp [List.getElem?_eq_getElem hlt]))⟩
        cases hmb : matchCol b with
        | some s => exact Or.inl ⟨_, resolveEq_ok db hx names b s (hmn b hb).2 hmb p.1 p.2 i1 i2 hi1 hi2⟩
        | none =>
          right
          simp [resolveEq, eqOf, hi1, hi2, sqlCol_std db hx b (hmn b hb).2, hmb]
      · have hpn := pairsOf_ne_nil names (by omega)
        obtain ⟨p, hp⟩ := List.exists_mem_of_ne_nil _ hpn
        refine ⟨eqOf (a, p), List.mem_map.2 ⟨(a, p), ?_, rfl⟩, ?_⟩
        · simp only [List.mem_flatMap, List.mem_map]; exact ⟨a, ha, p, hp, rfl⟩
        · simp [resolveEq, eqOf, sqlCol_std db hx a (hmn a ha).2, hnone]
    unfold execJoin
    simp only [hx, List.isEmpty_nil, Bool.not_true, Bool.false_eq_true, if_false, hfind, bind, Except.bind, heqs]
    cases hc : (Py.splitOn ',' column).mapM (colOf db) with
    | error e =>
      rw [fields_resolve_err db hx names _ hnne hidx1 (fun c hc' => (hpieces c hc').2) e hc]
      rcases hcol with h | h
      · subst h
        have hsp : Py.splitOn ',' ['*'] = [['*']] := by decide
        rw [hsp] at hc
        simp [List.mapM_cons, colOf, bind, Except.bind, pure, Except.pure] at hc
      · have := cols_names db hx _ h
        rw [hc] at this
        rw [this.1]
    | ok colss =>
      rw [fields_resolve_ok db hx names _ hidx1 (fun c hc' => (hpieces c hc').2) colss hc]
  · unfold getIntersection
    simp only [hx, List.isEmpty_nil, Bool.not_true, Bool.false_eq_true, if_false, JoinProofs.matchCols_ge2 db mnames h2, hm]


/-! ### `intersect`: what it hands to `data2pdb` per structure -/

/-- `intersect(match)` builds no statement of its own: it calls `get_intersection('*', match)` and writes, per structure,
    the rows it gets back.  Those rows are — value by value — the rows of `Model.component (joinRows …) k` that
    `Model.intersect` round-trips: the `*` query through the translated text and MicroSql returns, for structure `k`, the
    fourteen attribute values of component `k` of every joined tuple. -/
theorem intersect_data_via_sql (db : Db) (hdb : JoinDb db) (hne : db.tabs ≠ []) (htn : ∀ t ∈ db.tabs, isName t.name = true)
    (mnames : List Py.Str) (hmn : ∀ a ∈ mnames, isName a = true ∧ NoAlias a) (m : List StdCol) (hm : mnames.mapM matchCol = some m) :
    intersectionViaSql db ['*'] mnames =
      .ok ((List.range db.tabs.length).map (fun k =>
        (component (joinRows m (db.tabs.map (·.rows))) k).map (fun r => StdCol.all.map (fun s => r.std s)))) := by
  rw [getIntersection_eq_sql db hdb hne htn ['*'] (Or.inl rfl) mnames hmn m hm]
  have hx := hdb.noExtra
  unfold getIntersection
  obtain ⟨m', hm', hj⟩ := JoinProofs.matchCols_some db mnames m hm
  simp only [hx, List.isEmpty_nil, Bool.not_true, Bool.false_eq_true, if_false, hm',
    show (['*'] : Py.Str) = "*".toList from rfl, if_true, cols_star db]
  have hnr : (StdCol.all.map Col.std).contains Col.rowID = false := by decide
  simp only [hnr, Bool.false_eq_true, if_false, Except.ok.injEq, hj]
  apply List.map_congr_left
  intro k hk
  have hk' : k < db.tabs.length := List.mem_range.1 hk
  have hT : (db.tabs.map (·.rows))[k]? = some (db.tabs[k]).rows := by simp [List.getElem?_eq_getElem hk']
  rw [JoinProofs.component_eq_map m _ k _ hT, List.map_map]
  apply List.map_congr_left
  intro tup htup
  obtain ⟨r, hr, _⟩ := JoinProofs.component_mem m _ k _ hT tup htup
  simp [hr, List.getD_eq_getElem?_getD, cell, Function.comp_def]

/-! ### checking the hypotheses on a concrete database -/

def joinDbCheck (db : Db) : Bool :=
  db.extra.isEmpty && ((db.tabs.map (·.name)).mapM (findTab db) == some db.tabs) &&
    db.tabs.zipIdx.all (fun ti => tabIdx (db.tabs.map (·.name)) ti.1.name == some ti.2)

theorem joinDb_of_check (db : Db) (h : joinDbCheck db = true) : JoinDb db := by
  simp only [joinDbCheck, Bool.and_eq_true, List.isEmpty_iff, beq_iff_eq, List.all_eq_true] at h
  obtain ⟨⟨h1, h2⟩, h3⟩ := h
  refine ⟨h1, h2, ?_⟩
  intro i t hit
  exact h3 (t, i) (List.mem_zipIdx_iff_getElem?.2 (by simpa using hit))

/-! ### non-vacuity: two structures, a concrete statement text -/

def jAtom : Py.Atom :=
  { serial := 1, name := "CA".toList, altLoc := [], resName := "ALA".toList, chainID := "A".toList
    resSeq := 5, iCode := [], x := 1, y := 0, z := 0, occ := 1, temp := 0, element := "C".toList, model := 0 }
def jT1 : Table := [⟨jAtom, []⟩, ⟨{ jAtom with serial := 2, name := "N".toList }, []⟩]
def jT2 : Table := [⟨{ jAtom with serial := 7, name := "N".toList, x := 9 }, []⟩, ⟨{ jAtom with serial := 8 }, []⟩,
  ⟨{ jAtom with serial := 9, resSeq := 6 }, []⟩]
def jDb : Db := { tabs := [⟨"wildtype".toList, jT1⟩, ⟨"b2".toList, jT2⟩] }
def jMatch : List Py.Str := ["name".toList, "resSeq".toList]

instance (k : Py.Str) : Decidable (NoAlias k) := by unfold NoAlias; infer_instance

/-- the hypotheses of `getIntersection_eq_sql` hold for two structures under user-chosen table names -/
example : JoinDb jDb ∧ jDb.tabs ≠ [] ∧ (∀ t ∈ jDb.tabs, isName t.name = true) ∧ JoinCols "serial,x".toList ∧
    (∀ a ∈ jMatch, isName a = true ∧ NoAlias a) ∧ jMatch.mapM matchCol = some [.name, .resSeq] :=
  ⟨joinDb_of_check _ (by decide), by decide, by decide, Or.inr (by decide), by decide, by decide⟩

/-- the statement the translated builder emits for it -/
example : intersection_query ["wildtype".toList, "b2".toList] "serial,x".toList jMatch =
    .ok "select wildtype.serial, wildtype.x, b2.serial, b2.x from wildtype INNER JOIN b2 on wildtype.name=b2.name and wildtype.resSeq=b2.resSeq;".toList := by
  decide +kernel

/-- … and what MicroSql and the translated cutting make of it: CA-5 and N-5 are common, per structure its own serial and x -/
example : intersectionViaSql jDb "serial,x".toList jMatch =
    .ok [[[.int 1, .real 1], [.int 2, .real 1]], [[.int 8, .real 1], [.int 7, .real 9]]] := by decide +kernel

/-- one structure: no ON clause at all -/
example : intersection_query ["ATOM".toList] "*".toList jMatch = .ok "select ATOM.* from ATOM ;".toList := by decide +kernel

/-- an unknown column is sqlite3's OperationalError, in the model and through the text -/
example : intersectionViaSql jDb "serial,foo".toList jMatch = .error .operational ∧
    Model.getIntersection jDb "serial,foo".toList jMatch = .error .operational := by decide +kernel

end SqlProofs
