/-
  The export variants of the two translated SQL RMSD routes (Gen/Sim.lean: `GenS.compute_lrmsd_pdb2sql_export`,
  `GenS.compute_irmsd_pdb2sql_export` — `exportpath` a directory name, the branch `if exportpath is not None:` taken, the files written by
  `exportpdb` returned as values) compute the SAME SCORE as the routes translated with `exportpath=None` (whose ties to the hand models are
  Proofs/GenSimRmsd.lean, GenSimIrmsd.lean, GenSimIrmsdPair.lean): exporting never changes the returned value.
  For the interface route the export can additionally FAIL (`update_xyz(xyz, rowID=index)` raises when the selected rows and the coordinate
  list differ in number, e.g. a decoy that repeats an atom): then the route with export raises where the route without returns a value.
-/
import PdbVerif.Proofs.GenSimRmsd

set_option linter.unusedVariables false
set_option linter.unusedSimpArgs false

namespace Proofs.GenSim
open Py Model Model.Rmsd Proofs.GenRmsd

theorem map_fst_bind {α β γ : Type} (x : Except Err α) (f : α → β) (g : α → γ) :
    ((x >>= fun a => (Except.ok (f a, g a) : Except Err (β × γ))) >>= fun r => Except.ok r.1) = x >>= fun a => Except.ok (f a) := by
  cases x <;> rfl

/-- `compute_lrmsd_pdb2sql(exportpath=dir, …)` returns the value of `compute_lrmsd_pdb2sql(exportpath=None, …)` — for every world -/
theorem gens_lrmsd_export_value {μ : Type} (ord : ∀ {α : Type}, List α → List α) (p2s : Str → Except Err (List Atom))
    (grm : List P3 → List P3 → μ → Except Err (Mat3 Rat)) (decoy ref : Str) (enforce : Bool) (origin : P3) (exportpath : Str) (method : μ)
    (kw : GenS.Rt3.Kw) :
    (GenS.compute_lrmsd_pdb2sql_export ord p2s grm decoy ref enforce origin exportpath method kw >>= fun r => Except.ok r.1) =
      GenS.compute_lrmsd_pdb2sql ord p2s grm decoy ref enforce origin method kw := by
  unfold GenS.compute_lrmsd_pdb2sql_export GenS.compute_lrmsd_pdb2sql
  simp only [pure_eq_ok, bind_assoc, ok_bind, throw_eq_error]
  apply bind_congr'; intro kw'
  split
  · rfl
  · simp only [bind_assoc]
    apply bind_congr'; intro td
    apply bind_congr'; intro tr
    split
    · rfl
    · simp only [bind_assoc, ok_bind]
      repeat (apply bind_congr'; intro _)


theorem bind_imp {α β γ : Type} {x : Except Err α} {f : α → Except Err (β × γ)} {g : α → Except Err β} {v : β} {fl : γ}
    (h : (x >>= f) = Except.ok (v, fl)) (hfg : ∀ a, f a = Except.ok (v, fl) → g a = Except.ok v) : (x >>= g) = Except.ok v := by
  cases x with
  | error e => cases h
  | ok a => exact hfg a h

/-- whenever `compute_irmsd_pdb2sql(exportpath=dir, …)` returns, it returns the value of `compute_irmsd_pdb2sql(exportpath=None, …)` -/
theorem gens_irmsd_export_value {μ : Type} (ord : ∀ {α : Type}, List α → List α) (isfile : Str → Bool)
    (readlines : Str → Except Err (List Str)) (p2s : Str → Except Err (List Atom))
    (grm : List P3 → List P3 → μ → Except Err (Mat3 Rat)) (decoy ref : Str) (origin : P3) (cutoff : Rat) (method : μ)
    (izone : Option Str) (exportpath : Str) (v : Rat) (files : List GenS.Rt3.Export)
    (h : GenS.compute_irmsd_pdb2sql_export ord isfile readlines p2s grm decoy ref origin cutoff method izone exportpath = .ok (v, files)) :
    GenS.compute_irmsd_pdb2sql ord isfile readlines p2s grm decoy ref origin cutoff method izone = .ok v := by
  unfold GenS.compute_irmsd_pdb2sql_export at h
  unfold GenS.compute_irmsd_pdb2sql
  simp only [pure_eq_ok, bind_assoc, ok_bind, throw_eq_error] at h ⊢
  refine bind_imp h ?_; clear h; intro td h
  refine bind_imp h ?_; clear h; intro tr h
  split at h
  · cases h
  · rename_i hc
    simp only [hc, if_false, Bool.false_eq_true] at h ⊢
    try simp only [bind_assoc] at h ⊢
    refine bind_imp h ?_; clear h; intro j3 h
    refine bind_imp h ?_; clear h; intro r17 h
    refine bind_imp h ?_; clear h; intro j18 h
    split at h
    · cases h
    · rename_i hc2
      simp only [hc2, if_false, Bool.false_eq_true] at h ⊢
      try simp only [bind_assoc] at h ⊢
      refine bind_imp h ?_; clear h; intro t21 h
      cases h1 : GenS.Rt3.updateXyzAt td (GenK.rotate (Np.addRow r17.2.1 (GenK.get_trans_vect r17.2.1)) t21 (some origin)) r17.1 with
      | error e => simp [h1, error_bind] at h
      | ok t22 =>
        simp only [h1, ok_bind] at h
        cases h2 : GenS.Rt3.updateXyzAt tr (Np.addRow j18.1 (GenK.get_trans_vect j18.1)) j18.2 with
        | error e => simp [h2, error_bind] at h
        | ok t23 =>
          simp only [h2, ok_bind, Except.ok.injEq, Prod.mk.injEq] at h
          rw [h.1]

end Proofs.GenSim
