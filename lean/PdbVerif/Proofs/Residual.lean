/-
  The residual `Σ‖U pₖ − qₖ‖²` of an orthogonal `U` in terms of `tr(U · Σ pₖqₖᵀ)` (induction over the
  point list), and the bridge between the model's `np.dot(P.T, Q) / npts` and the Spec's vocabulary.
  Helper lemmas only.
-/
import PdbVerif.Proofs.SO3
import PdbVerif.Model.Superpose

set_option linter.unusedSectionVars false
set_option linter.unusedVariables false

namespace Proofs.Residual
open Py Py.Mat3 Spec Proofs.M3

variable {α : Type} [Field α] [LinearOrder α] [IsStrictOrderedRing α]

theorem dotPtQ_eq (P Q : List (Vec3 α)) : Model.dotPtQ P Q = Spec.crossCov P Q := by
  induction P generalizing Q with
  | nil => simp [Model.dotPtQ, Spec.crossCov]
  | cons p P ih =>
    cases Q with
    | nil => simp [Model.dotPtQ, Spec.crossCov]
    | cons q Q => simp [Model.dotPtQ, Spec.crossCov, ih]

theorem vsum_eq (P : List (Vec3 α)) : Model.vsum P = Spec.vsum P := by
  induction P with
  | nil => rfl
  | cons p P ih => simp [Model.vsum, Spec.vsum, ih]

theorem mean_eq (P : List (Vec3 α)) : Model.mean P = Spec.centroid P := by
  simp [Model.mean, Spec.centroid, vsum_eq]

theorem tr_mul_add (U A B : Mat3 α) : tr (U.mul (Mat3.add A B)) = tr (U.mul A) + tr (U.mul B) := by
  simp only [tr, mul, Mat3.add]; ring

theorem tr_mul_outer (U : Mat3 α) (p q : Vec3 α) : tr (U.mul (outer p q)) = Vec3.dot q (U.mulVec p) := by
  simp only [tr, mul, outer, Vec3.dot, mulVec]; ring

theorem tr_mul_zero (U : Mat3 α) : tr (U.mul (Mat3.zero)) = 0 := by
  simp [tr, mul, Mat3.zero]

theorem tr_mul_divScalar (U B : Mat3 α) (n : α) : tr (U.mul (Model.divScalar B n)) = tr (U.mul B) / n := by
  simp only [tr, mul, Model.divScalar]; ring

/-- `Σ‖U pₖ − qₖ‖² = Σ‖pₖ‖² + Σ‖qₖ‖² − 2·tr(U · Σ pₖqₖᵀ)` for orthogonal `U` -/
theorem residual_expand {U : Mat3 α} (hU : Orthogonal U) :
    ∀ (P Q : List (Vec3 α)), P.length = Q.length →
      sqResidual U P Q = sumSq P + sumSq Q - 2 * tr (U.mul (crossCov P Q))
  | [], [], _ => by simp [sqResidual, sumSq, crossCov, tr_mul_zero]
  | [], _ :: _, h => by simp at h
  | _ :: _, [], h => by simp at h
  | p :: P, q :: Q, h => by
    have ih := residual_expand hU P Q (by simpa using h)
    have hn := orth_normSq hU p
    simp only [sqResidual, sumSq, crossCov, tr_mul_add, tr_mul_outer, ih]
    simp only [Vec3.normSq, Vec3.dot, Vec3.sub] at hn ⊢
    linear_combination hn

/-- maximal trace ⇒ minimal residual -/
theorem optimal_of_trace_max {U : Mat3 α} (hU : IsRotation U) (P Q : List (Vec3 α)) (hlen : P.length = Q.length)
    (hmax : ∀ R : Mat3 α, IsRotation R → tr (R.mul (crossCov P Q)) ≤ tr (U.mul (crossCov P Q))) :
    OptimalRotation U P Q := by
  refine ⟨hU, fun R hR => ?_⟩
  rw [residual_expand hU.1 P Q hlen, residual_expand hR.1 P Q hlen]
  have := hmax R hR
  linarith

end Proofs.Residual
