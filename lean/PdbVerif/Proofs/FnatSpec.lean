/-
  C08, step 2: the Spec's contact list (membership, no duplicates) and the bridge between a duplicate-free list of
  residue-key pairs characterised by `Touch` and the Spec's list of contacts (a permutation after dropping the residue
  names), which turns the model's counters into the Spec's cardinalities.  Helper lemmas only.
-/
import PdbVerif.Proofs.FnatRef

set_option linter.unusedSectionVars false
set_option linter.unusedVariables false

namespace Proofs.Fnat
open Py Model Model.Fnat Proofs.Contacts
open Spec.C08 (Res resOf inContact contacts residues preserved NamesConsistent within isHydrogen heavyAtoms chainLt)

/-! ### the Spec's lists -/

theorem distinct_eq08 {α : Type} [DecidableEq α] (l : List α) : Spec.C08.distinct l = distinctFirst l := by
  induction l with
  | nil => rfl
  | cons x xs ih => simp [Spec.C08.distinct, distinctFirst, ih]

theorem mem_residues {s : List Atom} {r : Res} : r ∈ residues s ↔ ∃ a ∈ s, resOf a = r := by
  unfold residues
  rw [distinct_eq08, mem_distinctFirst, List.mem_map]

theorem nodup_residues (s : List Atom) : (residues s).Nodup := by
  unfold residues; rw [distinct_eq08]; exact nodup_distinctFirst _

theorem inContact_iff {c : Rat} {s : List Atom} {r₁ r₂ : Res} :
    inContact c s r₁ r₂ = true ↔
      r₁.1 ≠ r₂.1 ∧ ∃ a ∈ s, ∃ b ∈ s, resOf a = r₁ ∧ resOf b = r₂ ∧ heavy a = true ∧ heavy b = true ∧ within c a b = true := by
  simp only [inContact, heavyAtoms, Bool.and_eq_true, decide_eq_true_eq, List.any_eq_true, List.mem_filter, heavy_eq,
    Bool.not_eq_true', ne_eq]
  constructor
  · rintro ⟨h1, a, ⟨ha, hra, hha⟩, b, ⟨hb, hrb, hhb⟩, hw⟩
    exact ⟨h1, a, ha, b, hb, hra, hrb, by simp [hha], by simp [hhb], hw⟩
  · rintro ⟨h1, a, ha, b, hb, hra, hrb, hha, hhb, hw⟩
    exact ⟨h1, a, ⟨ha, hra, by simpa using hha⟩, b, ⟨hb, hrb, by simpa using hhb⟩, hw⟩

theorem mem_contacts {c : Rat} {s : List Atom} {r₁ r₂ : Res} :
    (r₁, r₂) ∈ contacts c s ↔ r₁.1 < r₂.1 ∧ inContact c s r₁ r₂ = true := by
  simp only [contacts, List.mem_flatMap, List.mem_map, List.mem_filter, Prod.mk.injEq, Bool.and_eq_true, chainLt, decide_eq_true_eq]
  constructor
  · rintro ⟨r, _, r', ⟨_, hlt, hc⟩, rfl, rfl⟩; exact ⟨hlt, hc⟩
  · rintro ⟨hlt, hc⟩
    obtain ⟨_, a, ha, b, hb, hra, hrb, _⟩ := inContact_iff.1 hc
    exact ⟨r₁, mem_residues.2 ⟨a, ha, hra⟩, r₂, ⟨mem_residues.2 ⟨b, hb, hrb⟩, hlt, hc⟩, rfl, rfl⟩

theorem nodup_contacts (c : Rat) (s : List Atom) : (contacts c s).Nodup := by
  unfold contacts
  have key : ∀ (l : List Res), l.Nodup →
      (l.flatMap (fun r₁ => ((residues s).filter (fun r₂ => chainLt r₁.1 r₂.1 && inContact c s r₁ r₂)).map (fun r₂ => (r₁, r₂)))).Nodup := by
    intro l hl
    induction l with
    | nil => simp
    | cons r l ih =>
      simp only [List.nodup_cons] at hl
      simp only [List.flatMap_cons]
      rw [List.nodup_append]
      refine ⟨?_, ih hl.2, ?_⟩
      · exact List.Nodup.map (fun a b hab => by injection hab) ((nodup_residues s).filter _)
      · intro p hp q hq hpq
        subst hpq
        obtain ⟨b, _, rfl⟩ := List.mem_map.1 hp
        obtain ⟨r', hr', hq'⟩ := List.mem_flatMap.1 hq
        obtain ⟨b', _, hb'⟩ := List.mem_map.1 hq'
        injection hb' with h1 _
        subst h1
        exact hl.1 hr'
  exact key _ (nodup_residues s)

/-! ### dropping the residue names -/

def proj (K : ResKey) : Res := (K.1, K.2.1)
def projPair (p : ResKey × ResKey) : Res × Res := (proj p.1, proj p.2)

theorem resOf_eq (x : Atom) : resOf x = proj (resKey x) := rfl

theorem str_lt_iff (a b : Str) : ltStr a b = true ↔ a < b := by simp [ltStr]

/-- with chains `[X, Y]`, an ordered pair of atoms of different chains, first chain first, is a pair (atom of `X`, atom of `Y`) -/
theorem chains_of_lt {s : List Atom} {X Y : Str} (h : getChains s = [X, Y]) {a b : Atom} (ha : a ∈ s) (hb : b ∈ s)
    (hlt : a.chainID < b.chainID) : a.chainID = X ∧ b.chainID = Y := by
  obtain ⟨_, hXY, _, _⟩ := two_of_getChains h
  have hca : a.chainID ∈ getChains s := mem_getChains.2 ⟨a, ha, rfl⟩
  have hcb : b.chainID ∈ getChains s := mem_getChains.2 ⟨b, hb, rfl⟩
  rw [h] at hca hcb
  simp only [List.mem_cons, List.mem_nil_iff, or_false] at hca hcb
  have hab : ltStr a.chainID b.chainID = true := (str_lt_iff _ _).2 hlt
  rcases hca with hca | hca <;> rcases hcb with hcb | hcb
  · rw [hca, hcb, strictTotal_ltStr.irrefl] at hab; cases hab
  · exact ⟨hca, hcb⟩
  · rw [hca, hcb, strictTotal_ltStr.asymm hXY] at hab; cases hab
  · rw [hca, hcb, strictTotal_ltStr.irrefl] at hab; cases hab

/-- the atom-level relation behind a listed pair, for residue keys formed by `key` -/
def TouchK (c : Rat) (s : List Atom) (X Y : Str) (key : Atom → ResKey) (K K' : ResKey) : Prop :=
  ∃ x ∈ s, ∃ y ∈ s, x.chainID = X ∧ y.chainID = Y ∧ heavy x = true ∧ heavy y = true ∧ within c x y = true ∧
    key x = K ∧ key y = K'

/-- the same in a decoy, where the code does not look at chains -/
def TouchD (c : Rat) (s : List Atom) (key : Atom → ResKey) (K K' : ResKey) : Prop :=
  ∃ a ∈ s, ∃ b ∈ s, heavy a = true ∧ heavy b = true ∧ within c a b = true ∧ key a = K ∧ key b = K'

theorem touch_eq_touchK (c : Rat) (s : List Atom) (X Y : Str) (K K' : ResKey) :
    Touch c s X Y K K' ↔ TouchK c s X Y resKey K K' := Iff.rfl

/-- what the proofs need of a key function on a set of atoms: it determines the residue `(chain, number)` (through `un`) and
    is determined by residue and residue name -/
structure KeyOK (s : List Atom) (key : Atom → ResKey) (un : ResKey → Res) : Prop where
  un_key : ∀ x ∈ s, un (key x) = resOf x
  key_eq : ∀ x ∈ s, ∀ x' ∈ s, resOf x = resOf x' → x.resName = x'.resName → key x = key x'

theorem keyOK_resKey (s : List Atom) : KeyOK s resKey proj where
  un_key _ _ := rfl
  key_eq x _ x' _ h hn := by
    simp only [resOf, Prod.mk.injEq] at h
    simp only [resKey, Prod.mk.injEq]
    exact ⟨h.1, h.2, hn⟩

theorem KeyOK.mono {s s' : List Atom} {key : Atom → ResKey} {un : ResKey → Res} (h : KeyOK s key un) (hs : ∀ x ∈ s', x ∈ s) :
    KeyOK s' key un :=
  ⟨fun x hx => h.un_key x (hs x hx), fun x hx x' hx' => h.key_eq x (hs x hx) x' (hs x' hx')⟩

/-- **bridge.**  A duplicate-free list of residue-key pairs that consists exactly of the touching pairs of `s` is, after
    mapping keys back to residues, a permutation of the Spec's contact list — provided a residue carries one name in `s`. -/
theorem perm_contacts {s : List Atom} {X Y : Str} (h : getChains s = [X, Y]) (hn : NamesConsistent s) {c : Rat}
    {key : Atom → ResKey} {un : ResKey → Res} (hk : KeyOK s key un)
    {L : List (ResKey × ResKey)} (hL : L.Nodup) (hmem : ∀ K K', (K, K') ∈ L ↔ TouchK c s X Y key K K') :
    (L.map (fun p => (un p.1, un p.2))).Perm (contacts c s) := by
  obtain ⟨hne, hXY, _, _⟩ := two_of_getChains h
  have hXY' : X < Y := (str_lt_iff _ _).1 hXY
  rw [List.perm_ext_iff_of_nodup _ (nodup_contacts c s)]
  · rintro ⟨r₁, r₂⟩
    rw [mem_contacts, List.mem_map]
    constructor
    · rintro ⟨⟨K, K'⟩, hp, hpr⟩
      obtain ⟨x, hx, y, hy, hcx, hcy, hhx, hhy, hw, hrx, hry⟩ := (hmem K K').1 hp
      simp only [Prod.mk.injEq] at hpr
      obtain ⟨e1, e2⟩ := hpr
      have hr1 : resOf x = r₁ := by rw [← hk.un_key x hx, hrx]; exact e1
      have hr2 : resOf y = r₂ := by rw [← hk.un_key y hy, hry]; exact e2
      have c1 : r₁.1 = X := by rw [← hr1]; exact hcx
      have c2 : r₂.1 = Y := by rw [← hr2]; exact hcy
      refine ⟨by rw [c1, c2]; exact hXY', inContact_iff.2 ⟨by rw [c1, c2]; exact hne, x, hx, y, hy, hr1, hr2, hhx, hhy, hw⟩⟩
    · rintro ⟨hlt, hc⟩
      obtain ⟨_, a, ha, b, hb, hra, hrb, hha, hhb, hw⟩ := inContact_iff.1 hc
      have hlt' : a.chainID < b.chainID := by
        have e1 : a.chainID = r₁.1 := by rw [← hra]; rfl
        have e2 : b.chainID = r₂.1 := by rw [← hrb]; rfl
        rw [e1, e2]; exact hlt
      obtain ⟨hca, hcb⟩ := chains_of_lt h ha hb hlt'
      refine ⟨(key a, key b), (hmem _ _).2 ⟨a, ha, b, hb, hca, hcb, hha, hhb, hw, rfl, rfl⟩, ?_⟩
      simp only [hk.un_key a ha, hk.un_key b hb, hra, hrb]
  · -- no two listed pairs collapse when keys are mapped back to residues
    refine List.Nodup.map_on ?_ hL
    rintro ⟨K₁, K₁'⟩ h1 ⟨K₂, K₂'⟩ h2 heq
    obtain ⟨x₁, hx₁, y₁, hy₁, _, _, _, _, _, rfl, rfl⟩ := (hmem _ _).1 h1
    obtain ⟨x₂, hx₂, y₂, hy₂, _, _, _, _, _, rfl, rfl⟩ := (hmem _ _).1 h2
    simp only [Prod.mk.injEq, hk.un_key x₁ hx₁, hk.un_key x₂ hx₂, hk.un_key y₁ hy₁, hk.un_key y₂ hy₂] at heq
    simp only [Prod.mk.injEq]
    exact ⟨hk.key_eq x₁ hx₁ x₂ hx₂ heq.1 (hn x₁ hx₁ x₂ hx₂ heq.1), hk.key_eq y₁ hy₁ y₂ hy₂ heq.2 (hn y₁ hy₁ y₂ hy₂ heq.2)⟩

/-- a listed reference pair touches in the decoy iff the two residues are in contact in the decoy (Spec) -/
theorem touchD_iff {ref dec : List Atom} {X Y : Str} (hne : X ≠ Y) (hn : NamesConsistent (ref ++ dec)) {c : Rat}
    {key : Atom → ResKey} {un : ResKey → Res} (hk : KeyOK (ref ++ dec) key un)
    {x y : Atom} (hx : x ∈ ref) (hy : y ∈ ref) (hcx : x.chainID = X) (hcy : y.chainID = Y) :
    TouchD c dec key (key x) (key y) ↔ inContact c dec (resOf x) (resOf y) = true := by
  have mr : ∀ z ∈ ref, z ∈ ref ++ dec := fun z hz => List.mem_append_left _ hz
  have md : ∀ z ∈ dec, z ∈ ref ++ dec := fun z hz => List.mem_append_right _ hz
  rw [inContact_iff]
  constructor
  · rintro ⟨a, ha, b, hb, hha, hhb, hw, hka, hkb⟩
    have ra : resOf a = resOf x := by rw [← hk.un_key a (md a ha), hka, hk.un_key x (mr x hx)]
    have rb : resOf b = resOf y := by rw [← hk.un_key b (md b hb), hkb, hk.un_key y (mr y hy)]
    refine ⟨?_, a, ha, b, hb, ra, rb, hha, hhb, hw⟩
    show x.chainID ≠ y.chainID
    rw [hcx, hcy]; exact hne
  · rintro ⟨_, a, ha, b, hb, ra, rb, hha, hhb, hw⟩
    exact ⟨a, ha, b, hb, hha, hhb, hw,
      hk.key_eq a (md a ha) x (mr x hx) ra (hn a (md a ha) x (mr x hx) ra),
      hk.key_eq b (md b hb) y (mr y hy) rb (hn b (md b hb) y (mr y hy) rb)⟩

/-- **counting.**  With a Boolean test on listed pairs that decides "the pair touches in the decoy", the two counters of the
    code are the two cardinalities of the definition. -/
theorem counts_eq {ref dec : List Atom} {X Y : Str} (h : getChains ref = [X, Y]) (hn : NamesConsistent (ref ++ dec)) {c : Rat}
    {key : Atom → ResKey} {un : ResKey → Res} (hk : KeyOK (ref ++ dec) key un)
    {L : List (ResKey × ResKey)} (hL : L.Nodup) (hmem : ∀ K K', (K, K') ∈ L ↔ TouchK c ref X Y key K K')
    (pres : ResKey × ResKey → Bool) (hp : ∀ K K', (K, K') ∈ L → (pres (K, K') = true ↔ TouchD c dec key K K')) :
    L.length = (contacts c ref).length ∧ (L.filter pres).length = (preserved c ref dec).length := by
  obtain ⟨hne, _, _, _⟩ := two_of_getChains h
  have mr : ∀ z ∈ ref, z ∈ ref ++ dec := fun z hz => List.mem_append_left _ hz
  have hnr : NamesConsistent ref := fun a ha b hb => hn a (mr a ha) b (mr b hb)
  have hperm := perm_contacts h hnr (hk.mono mr) hL hmem
  refine ⟨by rw [← hperm.length_eq, List.length_map], ?_⟩
  unfold preserved
  rw [← (hperm.filter _).length_eq, List.filter_map, List.length_map]
  congr 1
  apply List.filter_congr
  rintro ⟨K, K'⟩ hp'
  obtain ⟨x, hx, y, hy, hcx, hcy, _, _, _, rfl, rfl⟩ := (hmem _ _).1 hp'
  have e := touchD_iff hne hn hk (c := c) hx hy hcx hcy
  simp only [Function.comp, hk.un_key x (mr x hx), hk.un_key y (mr y hy)]
  rw [Bool.eq_iff_iff, hp _ _ hp', e]

end Proofs.Fnat
