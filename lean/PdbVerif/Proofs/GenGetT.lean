/-
  `pdb2sql_base._get_table_names` (Gen/Get.lean, unit `get_get_table_names`): the text of the catalogue query is translated; what it
  means is the contract clause `E.connExecute` (exactly `SELECT name from sqlite_master WHERE type='table';` answers the table
  names in creation order; any other text over `sqlite_master` is unmodelled).  Theorem: the names, in the order of `db.tabs`.
-/
import PdbVerif.Proofs.GenGetH

set_option linter.unusedVariables false
set_option linter.unusedSimpArgs false

namespace GenGetProofs
open Tbl Model MicroSql GenSql SqlProofs GenG

theorem getItem0 : ∀ (l : List Tab),
    List.mapM (fun n => (Rt.getItem n (0 : Int) : Except GenSql.Err Val)) (l.map (fun t => [Val.text t.name])) =
      .ok (l.map (fun t => Val.text t.name))
  | [] => rfl
  | t :: rest => by
    have ih := getItem0 rest
    have h0 : Rt.getItem [Val.text t.name] (0 : Int) = (.ok (Val.text t.name) : Except GenSql.Err Val) := rfl
    simp only [List.map_cons, List.mapM_cons, h0, ih, bind, Except.bind, pure, Except.pure]

theorem strs_text : ∀ (l : List Tab), E.strs (l.map (fun t => Val.text t.name)) = .ok (l.map (·.name))
  | [] => rfl
  | t :: rest => by
    have ih := strs_text rest
    unfold E.strs at ih ⊢
    simp only [List.map_cons, List.mapM_cons, ih, bind, Except.bind, pure, Except.pure]

/-- the contract clause at the text the library emits -/
theorem connExecute_master (db : Db) : E.connExecute db E.masterText [] = .ok (db.tabs.map (fun t => [Val.text t.name])) := by
  simp [E.connExecute]

/-- **`_get_table_names` answers the names of the tables in creation order** -/
theorem get_table_names_eq (db : Db) : GenG._get_table_names db = .ok (db.tabs.map (·.name)) := by
  unfold GenG._get_table_names _get_table_names_body
  have hm : (['S', 'E', 'L', 'E', 'C', 'T', ' ', 'n', 'a', 'm', 'e', ' ', 'f', 'r', 'o', 'm', ' ', 's', 'q', 'l', 'i', 't', 'e', '_', 'm', 'a', 's', 't', 'e', 'r', ' ', 'W', 'H', 'E', 'R', 'E', ' ', 't', 'y', 'p', 'e', '=', '\'', 't', 'a', 'b', 'l', 'e', '\'', ';'] : Py.Str) = E.masterText := rfl
  simp only [hm, connExecute_master, bind, Except.bind, getItem0, E.py, strs_text, pure, Except.pure]
end GenGetProofs
