/-
  "A rigidly displaced copy lands back" over an arbitrary ordered field: if the mobile selection is the image of
  the target selection under a rigid motion `d`, an optimal kernel rotation has residual 0, hence undoes `d.R` on
  every centred selected point; when two of these are linearly independent it is `d.Rᵀ` and the motion applied by
  `superpose_selection` is the inverse of `d` on ALL points.  Helper lemmas only.
-/
import PdbVerif.Proofs.SuperposeDbCore

set_option linter.unusedSectionVars false
set_option linter.unusedVariables false

namespace Proofs.SupBack
open Py Py.Mat3 Spec Spec.C13 Model Proofs.SupCore Proofs.M3

variable {α : Type} [Field α] [LinearOrder α] [IsStrictOrderedRing α]

theorem vsum_map_apply (d : Motion α) (Q : List (Vec3 α)) :
    Model.vsum (Q.map d.apply) = Vec3.add (d.R.mulVec (Model.vsum Q)) (Vec3.smul ((Q.length : Nat) : α) d.t) := by
  induction Q with
  | nil => ext <;> simp [Model.vsum, Vec3.zero, Vec3.add, Vec3.smul, mulVec]
  | cons q Q ih =>
    simp only [List.map_cons, Model.vsum, ih, List.length_cons, Nat.cast_succ]
    ext <;> simp only [Motion.apply, Vec3.add, Vec3.smul, mulVec] <;> ring

theorem mean_map_apply (d : Motion α) (Q : List (Vec3 α)) (hQ : Q ≠ []) :
    Model.mean (Q.map d.apply) = d.apply (Model.mean Q) := by
  have hn : ((Q.length : Nat) : α) ≠ 0 := natCast_ne_zero (by simpa using hQ)
  have h := vsum_map_apply d Q
  have hx := congrArg Vec3.x h; have hy := congrArg Vec3.y h; have hz := congrArg Vec3.z h
  simp only [Vec3.add, Vec3.smul, mulVec] at hx hy hz
  ext <;> simp only [Model.mean, List.length_map, Motion.apply, Vec3.add, mulVec, hx, hy, hz] <;> field_simp

theorem centred_map_apply (d : Motion α) (Q : List (Vec3 α)) (hQ : Q ≠ []) :
    centred (Q.map d.apply) = (centred Q).map d.R.mulVec := by
  simp only [centred, List.map_map, mean_map_apply d Q hQ]
  apply List.map_congr_left
  intro q _
  ext <;> simp only [Function.comp, Motion.apply, Vec3.add, Vec3.neg, mulVec] <;> ring

theorem normSq_eq_zero {v : Vec3 α} (h : Vec3.normSq v = 0) : v = Vec3.zero := by
  have h' : v.x ^ 2 + v.y ^ 2 + v.z ^ 2 = 0 := by
    simp only [Vec3.normSq, Vec3.dot] at h; linear_combination h
  obtain ⟨h1, h2, h3⟩ := Proofs.SO3.sq3_zero h'
  ext <;> simp [Vec3.zero, h1, h2, h3]

theorem sub_eq_zero_vec {a b : Vec3 α} (h : Vec3.sub a b = Vec3.zero) : a = b := by
  have hx := congrArg Vec3.x h; have hy := congrArg Vec3.y h; have hz := congrArg Vec3.z h
  simp only [Vec3.sub, Vec3.zero] at hx hy hz
  ext <;> linarith

/-- residual 0 ⇒ every point is mapped onto its partner -/
theorem resid_zero {f g : Vec3 α → Vec3 α} : ∀ (C : List (Vec3 α)), resid f (C.map g) C = 0 → ∀ u ∈ C, f (g u) = u
  | [], _ => by simp
  | c :: C, h => by
    simp only [List.map_cons, resid] at h
    have h1 := normSq_nonneg (Vec3.sub (f (g c)) c)
    have h2 := resid_nonneg f (C.map g) C
    have h3 : Vec3.normSq (Vec3.sub (f (g c)) c) = 0 := by linarith
    have h4 : resid f (C.map g) C = 0 := by linarith
    intro u hu
    rcases List.mem_cons.1 hu with rfl | hu
    · exact sub_eq_zero_vec (normSq_eq_zero h3)
    · exact resid_zero C h4 u hu

theorem resid_inverse {M : Mat3 α} (hM : Orthogonal M) : ∀ (C : List (Vec3 α)), resid M.T.mulVec (C.map M.mulVec) C = 0
  | [] => by simp [resid]
  | c :: C => by
    simp only [List.map_cons, resid, resid_inverse hM C, add_zero]
    have : M.T.mulVec (M.mulVec c) = c := by rw [← mulVec_mul, hM.2, one_mulVec]
    rw [this]
    simp [Vec3.normSq, Vec3.dot, Vec3.sub]

/-- `det[a,b,c]·x = (x·a)(b×c) + (x·b)(c×a) + (x·c)(a×b)` -/
theorem reciprocal_basis (x a b c : Vec3 α) :
    Vec3.smul (Vec3.dot a (Vec3.cross b c)) x =
      Vec3.add (Vec3.add (Vec3.smul (Vec3.dot x a) (Vec3.cross b c)) (Vec3.smul (Vec3.dot x b) (Vec3.cross c a)))
        (Vec3.smul (Vec3.dot x c) (Vec3.cross a b)) := by
  ext <;> simp only [Vec3.smul, Vec3.dot, Vec3.cross, Vec3.add] <;> ring

theorem eq_zero_of_dots {x a b c : Vec3 α} (hdet : Vec3.dot a (Vec3.cross b c) ≠ 0)
    (ha : Vec3.dot x a = 0) (hb : Vec3.dot x b = 0) (hc : Vec3.dot x c = 0) : x = Vec3.zero := by
  have h := reciprocal_basis x a b c
  rw [ha, hb, hc] at h
  have hx := congrArg Vec3.x h; have hy := congrArg Vec3.y h; have hz := congrArg Vec3.z h
  simp only [Vec3.smul, Vec3.add, zero_mul, add_zero] at hx hy hz
  ext
  · exact (mul_eq_zero.1 hx).resolve_left hdet
  · exact (mul_eq_zero.1 hy).resolve_left hdet
  · exact (mul_eq_zero.1 hz).resolve_left hdet

/-- a matrix fixing three linearly independent vectors is the identity -/
theorem eq_one_of_fixes {M : Mat3 α} {a b c : Vec3 α} (hdet : Vec3.dot a (Vec3.cross b c) ≠ 0)
    (ha : M.mulVec a = a) (hb : M.mulVec b = b) (hc : M.mulVec c = c) : M = Mat3.one := by
  have e (v : Vec3 α) (hv : M.mulVec v = v) :
      Vec3.dot ⟨M.a - 1, M.b, M.c⟩ v = 0 ∧ Vec3.dot ⟨M.d, M.e - 1, M.f⟩ v = 0 ∧ Vec3.dot ⟨M.g, M.h, M.i - 1⟩ v = 0 := by
    have hx := congrArg Vec3.x hv; have hy := congrArg Vec3.y hv; have hz := congrArg Vec3.z hv
    simp only [mulVec] at hx hy hz
    simp only [Vec3.dot]
    refine ⟨by linarith, by linarith, by linarith⟩
  obtain ⟨a1, a2, a3⟩ := e a ha; obtain ⟨b1, b2, b3⟩ := e b hb; obtain ⟨c1, c2, c3⟩ := e c hc
  have r1 := eq_zero_of_dots hdet a1 b1 c1
  have r2 := eq_zero_of_dots hdet a2 b2 c2
  have r3 := eq_zero_of_dots hdet a3 b3 c3
  have r1x := congrArg Vec3.x r1; have r1y := congrArg Vec3.y r1; have r1z := congrArg Vec3.z r1
  have r2x := congrArg Vec3.x r2; have r2y := congrArg Vec3.y r2; have r2z := congrArg Vec3.z r2
  have r3x := congrArg Vec3.x r3; have r3y := congrArg Vec3.y r3; have r3z := congrArg Vec3.z r3
  simp only [Vec3.zero] at r1x r1y r1z r2x r2y r2z r3x r3y r3z
  ext <;> simp only [Mat3.one] <;> linarith

theorem dot_cross_self (u v : Vec3 α) : Vec3.dot u (Vec3.cross v (Vec3.cross u v)) = Vec3.normSq (Vec3.cross u v) := by
  simp only [Vec3.dot, Vec3.cross, Vec3.normSq]; ring

/-- a proper rotation fixing two linearly independent vectors is the identity -/
theorem rot_eq_one_of_fixes_two {G : Mat3 α} (hG : IsRotation G) {u v : Vec3 α} (hind : Vec3.cross u v ≠ Vec3.zero)
    (hu : G.mulVec u = u) (hv : G.mulVec v = v) : G = Mat3.one := by
  have hc : G.mulVec (Vec3.cross u v) = Vec3.cross u v := by
    have := Proofs.SO3.cross_mulVec hG u v
    rw [hu, hv] at this
    exact this.symm
  have hdet : Vec3.dot u (Vec3.cross v (Vec3.cross u v)) ≠ 0 := by
    rw [dot_cross_self]
    intro h0
    exact hind (normSq_eq_zero h0)
  exact eq_one_of_fixes hdet hu hv hc

/-- three points of `Q` that are not collinear ("rank ≥ 2") -/
def NonCollinear (Q : List (Vec3 α)) : Prop :=
  ∃ p ∈ Q, ∃ q ∈ Q, ∃ r ∈ Q, Vec3.cross (Vec3.sub q p) (Vec3.sub r p) ≠ Vec3.zero

/-- **lands back (core).**  `P = d(Q)`, kernel rotation optimal on the centred sets, three target points not
    collinear ⇒ the motion of `superpose_selection` undoes `d` on every point. -/
theorem lands_back {d : Motion α} (hd : d.IsRigid) {Q : List (Vec3 α)} (hQ : Q ≠ []) {R : Mat3 α}
    (hopt : OptimalRotation R (centred (Q.map d.apply)) (centred Q)) (hrank : NonCollinear Q) (x : Vec3 α) :
    (motionOf R (Q.map d.apply) Q).apply (d.apply x) = x := by
  obtain ⟨p, hp, q, hq, r, hr, hind⟩ := hrank
  rw [centred_map_apply d Q hQ] at hopt
  have h0 : resid R.mulVec ((centred Q).map d.R.mulVec) (centred Q) = 0 := by
    have h1 := hopt.2 d.R.T (rot_T hd)
    rw [sqResidual_eq_resid, sqResidual_eq_resid, resid_inverse hd.1] at h1
    exact le_antisymm h1 (resid_nonneg _ _ _)
  have hfix := resid_zero (f := R.mulVec) (g := d.R.mulVec) (centred Q) h0
  have hG : IsRotation (R.mul d.R) := rot_mul hopt.1 hd
  have hc (y : Vec3 α) (hy : y ∈ Q) : (R.mul d.R).mulVec (Vec3.add y (Vec3.neg (Model.mean Q))) = Vec3.add y (Vec3.neg (Model.mean Q)) := by
    rw [mulVec_mul]
    exact hfix _ (List.mem_map.2 ⟨y, hy, rfl⟩)
  have hdiff (y z : Vec3 α) (hy : y ∈ Q) (hz : z ∈ Q) : (R.mul d.R).mulVec (Vec3.sub y z) = Vec3.sub y z := by
    have e : Vec3.sub y z = Vec3.sub (Vec3.add y (Vec3.neg (Model.mean Q))) (Vec3.add z (Vec3.neg (Model.mean Q))) := by
      ext <;> simp only [Vec3.sub, Vec3.add, Vec3.neg] <;> ring
    rw [e, mulVec_sub, hc y hy, hc z hz]
  have hone : R.mul d.R = Mat3.one := rot_eq_one_of_fixes_two hG hind (hdiff q p hq hp) (hdiff r p hr hp)
  have key (y : Vec3 α) : R.mulVec (d.R.mulVec y) = y := by rw [← mulVec_mul, hone, one_mulVec]
  have k1 := key x; have k2 := key (Model.mean Q)
  have k1x := congrArg Vec3.x k1; have k1y := congrArg Vec3.y k1; have k1z := congrArg Vec3.z k1
  have k2x := congrArg Vec3.x k2; have k2y := congrArg Vec3.y k2; have k2z := congrArg Vec3.z k2
  simp only [mulVec] at k1x k1y k1z k2x k2y k2z
  rw [show motionOf R (Q.map d.apply) Q = ⟨R, Vec3.sub (Model.mean Q) (R.mulVec (d.apply (Model.mean Q)))⟩ by
    simp [motionOf, mean_map_apply d Q hQ]]
  ext <;> simp only [Motion.apply, Vec3.add, Vec3.sub, mulVec]
  · linear_combination k1x - k2x
  · linear_combination k1y - k2y
  · linear_combination k1z - k2z

/-- without any rank assumption the selected points themselves land back -/
theorem selected_land_back {d : Motion α} (hd : d.IsRigid) {Q : List (Vec3 α)} (hQ : Q ≠ []) {R : Mat3 α}
    (hopt : OptimalRotation R (centred (Q.map d.apply)) (centred Q)) (y : Vec3 α) (hy : y ∈ Q) :
    (motionOf R (Q.map d.apply) Q).apply (d.apply y) = y := by
  rw [centred_map_apply d Q hQ] at hopt
  have h0 : resid R.mulVec ((centred Q).map d.R.mulVec) (centred Q) = 0 := by
    have h1 := hopt.2 d.R.T (rot_T hd)
    rw [sqResidual_eq_resid, sqResidual_eq_resid, resid_inverse hd.1] at h1
    exact le_antisymm h1 (resid_nonneg _ _ _)
  have hfix := resid_zero (f := R.mulVec) (g := d.R.mulVec) (centred Q) h0
  have k := hfix _ (List.mem_map.2 ⟨y, hy, rfl⟩)
  have kx := congrArg Vec3.x k; have ky := congrArg Vec3.y k; have kz := congrArg Vec3.z k
  simp only [mulVec, Vec3.add, Vec3.neg] at kx ky kz
  rw [show motionOf R (Q.map d.apply) Q = ⟨R, Vec3.sub (Model.mean Q) (R.mulVec (d.apply (Model.mean Q)))⟩ by
    simp [motionOf, mean_map_apply d Q hQ]]
  ext <;> simp only [Motion.apply, Vec3.add, Vec3.sub, mulVec]
  · linear_combination kx
  · linear_combination ky
  · linear_combination kz

end Proofs.SupBack
