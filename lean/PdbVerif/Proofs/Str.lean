/-
  Helper lemmas about the string layer of the Python runtime model (`Py.strip`, `Py.slice`, `Py.rjust` …).
  Helper lemmas only; property theorems live in `Props/`.
-/
import Mathlib.Tactic.Linarith
import Mathlib.Tactic.IntervalCases
import PdbVerif.Py.Str

set_option linter.unusedSimpArgs false
set_option linter.unnecessarySeqFocus false

namespace Py

@[simp] theorem spaces_length (n : Nat) : (spaces n).length = n := by simp [spaces]

theorem isSpace_space : isSpace ' ' = true := by decide

theorem rjust_length (w : Nat) (s : Str) : (rjust w s).length = max w s.length := by
  simp [rjust]; omega

theorem ljust_length (w : Nat) (s : Str) : (ljust w s).length = max w s.length := by
  simp [ljust]; omega

theorem center_length (w : Nat) (s : Str) : (center w s).length = max w s.length := by
  simp [center]; omega

theorem rep_space (n : Int) : rep [' '] n = spaces n.toNat := by
  simp [rep, spaces]

theorem normIdx_natCast (n a : Nat) : normIdx n (a : Int) = min a n := by
  unfold normIdx
  have : ¬ ((a : Int) < 0) := by omega
  simp [this]

/-- `s[a:b]` with non-negative literal bounds is "take b, then drop a" -/
theorem slice_nat (s : Str) (a b : Nat) : slice s (a : Int) (b : Int) = (s.take b).drop a := by
  unfold slice
  rw [normIdx_natCast, normIdx_natCast]
  have h1 : s.take (min b s.length) = s.take b := by
    rw [List.take_eq_take_iff]; omega
  rw [h1]
  by_cases h : a ≤ s.length
  · rw [Nat.min_eq_left h]
  · have h2 : min a s.length = s.length := by omega
    rw [h2]
    rw [List.drop_eq_nil_of_le, List.drop_eq_nil_of_le] <;> simp <;> omega

theorem sliceFrom_nat (s : Str) (a : Nat) : sliceFrom s (a : Int) = s.drop a := by
  unfold sliceFrom
  rw [normIdx_natCast]
  by_cases h : a ≤ s.length
  · rw [Nat.min_eq_left h]
  · have h2 : min a s.length = s.length := by omega
    rw [h2, List.drop_eq_nil_of_le, List.drop_eq_nil_of_le] <;> omega

/-! ### strip -/

theorem lstrip_spaces_append (n : Nat) (s : Str) : lstrip (spaces n ++ s) = lstrip s := by
  unfold lstrip spaces
  rw [List.dropWhile_append_of_pos]
  intro a ha
  rw [List.eq_of_mem_replicate ha]; decide

theorem rstrip_append_spaces (s : Str) (n : Nat) : rstrip (s ++ spaces n) = rstrip s := by
  unfold rstrip spaces
  rw [List.reverse_append, List.reverse_replicate, List.dropWhile_append_of_pos]
  intro a ha
  rw [List.eq_of_mem_replicate ha]; decide

theorem len_dropWhile_le {α} (p : α → Bool) (l : List α) : (l.dropWhile p).length ≤ l.length := (List.dropWhile_sublist _).length_le

theorem rstrip_nil : rstrip [] = [] := rfl
theorem lstrip_nil : lstrip [] = [] := rfl
theorem strip_nil : strip [] = [] := rfl

theorem rstrip_spaces (n : Nat) : rstrip (spaces n) = [] := by
  have := rstrip_append_spaces [] n
  simpa [rstrip_nil] using this

theorem strip_spaces_append (n : Nat) (s : Str) : strip (spaces n ++ s) = strip s := by
  unfold strip; rw [lstrip_spaces_append]

theorem strip_append_spaces (s : Str) (n : Nat) : strip (s ++ spaces n) = strip s := by
  unfold strip
  have : lstrip (s ++ spaces n) = if (lstrip s).isEmpty then lstrip (spaces n) else lstrip s ++ spaces n := by
    unfold lstrip; exact List.dropWhile_append
  rw [this]
  split
  · rename_i h
    have h' : lstrip s = [] := by simpa using h
    rw [h']
    have : lstrip (spaces n) = [] := by
      have := lstrip_spaces_append n []
      simpa [lstrip_nil] using this
    rw [this]
  · rw [rstrip_append_spaces]

theorem strip_spaces (n : Nat) : strip (spaces n) = [] := by
  have := strip_spaces_append n []
  simpa [strip_nil] using this

theorem strip_rjust (w : Nat) (s : Str) : strip (rjust w s) = strip s := by
  unfold rjust; exact strip_spaces_append _ _

theorem strip_ljust (w : Nat) (s : Str) : strip (ljust w s) = strip s := by
  unfold ljust; exact strip_append_spaces _ _

theorem strip_center (w : Nat) (s : Str) : strip (center w s) = strip s := by
  unfold center; simp only []
  rw [strip_append_spaces, strip_spaces_append]

/-- a string with a non-blank first and last character is its own `strip` -/
theorem lstrip_cons_of_not_space (c : Char) (s : Str) (h : isSpace c = false) : lstrip (c :: s) = c :: s := by
  unfold lstrip; simp [List.dropWhile_cons, h]

theorem rstrip_concat_of_not_space (s : Str) (c : Char) (h : isSpace c = false) :
    rstrip (s ++ [c]) = s ++ [c] := by
  unfold rstrip; simp [List.dropWhile_cons, h]

theorem strip_single (c : Char) : strip [c] = if isSpace c then [] else [c] := by
  unfold strip lstrip rstrip
  by_cases h : isSpace c = true <;> simp [List.dropWhile_cons, h]

/-- `strip` of a string that starts and ends with a non-blank is the identity -/
theorem strip_of_edges (c : Char) (m : Str) (d : Char) (hc : isSpace c = false) (hd : isSpace d = false) :
    strip (c :: (m ++ [d])) = c :: (m ++ [d]) := by
  unfold strip
  rw [lstrip_cons_of_not_space _ _ hc]
  have : c :: (m ++ [d]) = (c :: m) ++ [d] := by simp
  rw [this, rstrip_concat_of_not_space _ _ hd]

theorem strip_eq_self_of (s : Str) (hne : s ≠ [])
    (hh : ∀ c, s.head? = some c → isSpace c = false)
    (hl : ∀ c, s.getLast? = some c → isSpace c = false) : strip s = s := by
  match s, hne with
  | [c], _ =>
    rw [strip_single]; simp [hh c rfl]
  | c :: d :: t, _ =>
    have hc := hh c rfl
    obtain ⟨m, e, hme⟩ : ∃ m e, d :: t = m ++ [e] := by
      refine ⟨(d :: t).dropLast, (d :: t).getLast (by simp), ?_⟩
      exact (List.dropLast_concat_getLast (by simp)).symm
    rw [hme]
    apply strip_of_edges _ _ _ hc
    apply hl
    rw [hme, ← List.cons_append, List.getLast?_concat]

/-- what `strip s = s` says: empty, or non-blank at both ends -/
theorem edges_of_strip_eq_self (s : Str) (h : strip s = s) :
    (∀ c, s.head? = some c → isSpace c = false) ∧ (∀ c, s.getLast? = some c → isSpace c = false) := by
  constructor
  · intro c hc
    match s, hc with
    | c' :: t, hc =>
      simp at hc; subst hc
      by_contra hsp
      have hsp : isSpace c' = true := by simpa using hsp
      -- strip drops the first char, so its length is smaller
      have hlen : (strip (c' :: t)).length ≤ t.length := by
        unfold strip rstrip lstrip
        simp only [List.dropWhile_cons, hsp, if_true, List.length_reverse]
        calc _ ≤ (List.dropWhile isSpace t).reverse.length := (List.dropWhile_sublist _).length_le
          _ = (List.dropWhile isSpace t).length := by simp
          _ ≤ t.length := (List.dropWhile_sublist _).length_le
      rw [h] at hlen; simp at hlen
  · intro c hc
    by_contra hsp
    have hsp : isSpace c = true := by simpa using hsp
    obtain ⟨m, rfl⟩ : ∃ m, s = m ++ [c] := by
      rw [List.getLast?_eq_some_iff] at hc
      obtain ⟨ys, rfl⟩ := hc; exact ⟨ys, rfl⟩
    have hlen : (strip (m ++ [c])).length ≤ m.length := by
      unfold strip rstrip
      simp only [List.length_reverse]
      have h1 : lstrip (m ++ [c]) = if (lstrip m).isEmpty then lstrip [c] else lstrip m ++ [c] := by
        unfold lstrip; exact List.dropWhile_append
      rw [h1]
      split
      · have : lstrip [c] = [] := by unfold lstrip; simp [List.dropWhile_cons, hsp]
        rw [this]; simp
      · simp only [List.reverse_append, List.reverse_cons, List.reverse_nil, List.nil_append,
          List.singleton_append, List.dropWhile_cons, hsp, if_true]
        calc _ ≤ (lstrip m).reverse.length := (List.dropWhile_sublist _).length_le
          _ = (lstrip m).length := by simp
          _ ≤ m.length := (List.dropWhile_sublist _).length_le
    rw [h] at hlen; simp at hlen


/-! ### characters -/

theorem char_le_iff (a b : Char) : a ≤ b ↔ a.toNat ≤ b.toNat := by
  rw [Char.le_def, UInt32.le_iff_toNat_le]; rfl

theorem isDigit_iff (c : Char) : isDigit c = true ↔ 48 ≤ c.toNat ∧ c.toNat ≤ 57 := by
  unfold isDigit
  simp only [Bool.and_eq_true, decide_eq_true_eq, char_le_iff]
  rfl

/-- a character in `'0'..'9'` is one of the ten digit characters -/
theorem digit_cases (c : Char) (h : isDigit c = true) : c ∈ ['0','1','2','3','4','5','6','7','8','9'] := by
  rw [isDigit_iff] at h
  obtain ⟨h1', h2'⟩ := h
  have e : c = Char.ofNat c.toNat := (Char.ofNat_toNat c).symm
  rw [e]
  generalize c.toNat = n at *
  interval_cases n <;> decide

theorem isDigit_of_mem (c : Char) (h : c ∈ ['0','1','2','3','4','5','6','7','8','9']) : isDigit c = true := by
  simp only [List.mem_cons, List.not_mem_nil, or_false] at h
  rcases h with h | h | h | h | h | h | h | h | h | h <;> subst h <;> decide

theorem isDigit_not_space (c : Char) (h : isDigit c = true) : isSpace c = false := by
  have := digit_cases c h
  simp only [List.mem_cons, List.not_mem_nil, or_false] at this
  rcases this with h | h | h | h | h | h | h | h | h | h <;> subst h <;> decide


theorem strip_pair_of_not_space (c1 c2 : Char) (h : isSpace c1 = false) :
    strip [c1, c2] = if isSpace c2 then [c1] else [c1, c2] := by
  unfold strip lstrip rstrip
  by_cases h2 : isSpace c2 = true <;> simp [List.dropWhile_cons, h, h2]

end Py
