/-
  C20 — the store model refines the abstract course of a scenario (`Spec.C20.spec`): invariant carried through
  induction on the operation list; frame and action-shape lemmas for "file names are data".   Core Lean only.
-/
import PdbVerif.Model.Store

set_option linter.unusedVariables false
set_option linter.unusedSectionVars false

namespace Proofs.Store
open Spec.C20 Model.C20

variable {P Row : Type} [DecidableEq P]

theorem World.set_same (w : World P Row) (p : P) (v : Option (File Row)) : w.set p v p = v := by
  simp [World.set]

theorem World.set_other (w : World P Row) (p q : P) (v : Option (File Row)) (h : q ≠ p) : w.set p v q = w q := by
  simp [World.set, h]

theorem applyAll_append (cs : List (Change Row)) (c : Change Row) (t : Option (List Row)) :
    applyAll (cs ++ [c]) t = c.apply (applyAll cs t) := by
  simp [applyAll, List.foldl_append]

/-- the link between the store and the abstract course -/
def Inv (p : P) (r₀ : Read Row) (st : St P Row) (sp : Sp Row) : Prop :=
  st.phase = sp.phase ∧
  (sp.phase = .fresh → readBack st.world p = r₀ ∧ sp.seen = r₀) ∧
  (sp.phase = .live → ∃ d, st.world p = some (.db d) ∧ sp.seen = heldRead d ∧ applyAll st.pending d = sp.held ∧
      st.pending.isEmpty = !sp.dirty) ∧
  (sp.phase = .closed → readBack st.world p = sp.seen)

theorem diskTable_db (w : World P Row) (p : P) (d : Option (List Row)) (h : w p = some (.db d)) : diskTable w p = d := by
  simp [diskTable, h]

theorem readBack_db (w : World P Row) (p : P) (d : Option (List Row)) (h : w p = some (.db d)) :
    readBack w p = heldRead d := by
  cases d <;> simp [readBack, h, heldRead]

/-- in the live phase the object's view is the table it holds -/
theorem view_live (p : P) (st : St P Row) (d : Option (List Row)) (hw : st.world p = some (.db d)) :
    view st p = applyAll st.pending d := by
  simp [view, diskTable_db _ _ _ hw]

theorem inv_live_intro (p : P) (r₀ : Read Row) (st : St P Row) (sp : Sp Row) (h1 : st.phase = .live) (h2 : sp.phase = .live)
    (d : Option (List Row)) (hw : st.world p = some (.db d)) (hs : sp.seen = heldRead d)
    (ha : applyAll st.pending d = sp.held) (he : st.pending.isEmpty = !sp.dirty) : Inv p r₀ st sp :=
  ⟨by rw [h1, h2], by simp [h2], fun _ => ⟨d, hw, hs, ha, he⟩, by simp [h2]⟩

theorem inv_closed_intro (p : P) (r₀ : Read Row) (st : St P Row) (sp : Sp Row) (h1 : st.phase = .closed) (h2 : sp.phase = .closed)
    (hr : readBack st.world p = sp.seen) : Inv p r₀ st sp :=
  ⟨by rw [h1, h2], by simp [h2], by simp [h2], fun _ => hr⟩

theorem step_inv (journal : P → P) (p : P) (hj : journal p ≠ p) (r₀ : Read Row) (st : St P Row) (sp : Sp Row)
    (h : Inv p r₀ st sp) (op : Op Row) : Inv p r₀ (step journal p st op) (sp.step op) := by
  obtain ⟨hph, hfresh, hlive, hclosed⟩ := h
  cases hsp : sp.phase with
  | fresh =>
    have hst : st.phase = .fresh := by rw [hph, hsp]
    cases op <;> simp only [step, Sp.step, hst, hsp]
    case openDb =>
      refine inv_live_intro p r₀ _ _ rfl rfl none ?_ rfl rfl ?_
      · simp [World.set_same]
      · simp
    all_goals exact ⟨hph, hfresh, hlive, hclosed⟩
  | closed =>
    have hst : st.phase = .closed := by rw [hph, hsp]
    cases op <;> simp only [step, Sp.step, hst, hsp]
    case closeRemove =>
      refine inv_closed_intro p r₀ _ _ ?_ (by first | rfl | exact hsp) ?_
      · simp only [removeIfFile]; split <;> simp [hst]
      · simp only [removeIfFile]; split <;> simp_all [readBack, World.set_same]
    all_goals exact ⟨hph, hfresh, hlive, hclosed⟩
  | live =>
    have hst : st.phase = .live := by rw [hph, hsp]
    obtain ⟨d, hw, hseen, happ, hemp⟩ := hlive hsp
    have hview : view st p = sp.held := by rw [view_live p st d hw, happ]
    have hjw : ∀ (w : World P Row) v, (w.set (journal p) v) p = w p := fun w v => World.set_other w _ _ v (Ne.symm hj)
    cases op with
    | openDb => simp only [step, Sp.step, hst, hsp]; exact ⟨hph, hfresh, hlive, hclosed⟩
    | createTable =>
      simp only [step, Sp.step, hst, hsp, hview]
      cases hh : sp.held with
      | some rows => simp only []; exact ⟨hph, hfresh, hlive, hclosed⟩
      | none =>
        simp only [ddl]
        cases hd : sp.dirty with
        | false =>
          have he : st.pending.isEmpty = true := by rw [hemp, hd]; rfl
          have hp : st.pending = [] := List.isEmpty_iff.mp he
          have hdn : d = none := by rw [hp] at happ; simpa [applyAll, hh] using happ
          simp only [he, if_true, Bool.false_eq_true, if_false]
          refine inv_live_intro p r₀ _ _ (by first | rfl | exact hst) rfl (some []) ?_ rfl ?_ ?_
          · simp [World.set_same, diskTable_db _ _ _ hw, hdn, Change.apply]
          · simp [hp, applyAll]
          · simp [he]
        | true =>
          have he : st.pending.isEmpty = false := by rw [hemp, hd]; rfl
          simp only [he, Bool.false_eq_true, if_false, if_true]
          refine inv_live_intro p r₀ _ _ (by first | rfl | exact hst) rfl d hw hseen ?_ ?_
          · simp [applyAll_append, happ, hh, Change.apply]
          · simp
    | insertRow r =>
      simp only [step, Sp.step, hst, hsp, dml, hview]
      cases hh : sp.held with
      | none => simp only []; exact ⟨hph, hfresh, hlive, hclosed⟩
      | some rows =>
        simp only []
        cases he : st.pending.isEmpty with
        | true =>
          have hp : st.pending = [] := List.isEmpty_iff.mp he
          have hdn : d = some rows := by rw [hp] at happ; simpa [applyAll, hh] using happ
          simp only [if_true]
          refine inv_live_intro p r₀ _ _ rfl rfl d ?_ hseen ?_ ?_
          · simp [hjw, hw]
          · simp [applyAll, hdn, Change.apply]
          · simp
        | false =>
          simp only [Bool.false_eq_true, if_false]
          refine inv_live_intro p r₀ _ _ rfl rfl d hw hseen ?_ ?_
          · simp [applyAll_append, happ, hh, Change.apply]
          · simp
    | update f =>
      simp only [step, Sp.step, hst, hsp, dml, hview]
      cases hh : sp.held with
      | none => simp only []; exact ⟨hph, hfresh, hlive, hclosed⟩
      | some rows =>
        simp only []
        cases he : st.pending.isEmpty with
        | true =>
          have hp : st.pending = [] := List.isEmpty_iff.mp he
          have hdn : d = some rows := by rw [hp] at happ; simpa [applyAll, hh] using happ
          simp only [if_true]
          refine inv_live_intro p r₀ _ _ rfl rfl d ?_ hseen ?_ ?_
          · simp [hjw, hw]
          · simp [applyAll, hdn, Change.apply]
          · simp
        | false =>
          simp only [Bool.false_eq_true, if_false]
          refine inv_live_intro p r₀ _ _ rfl rfl d hw hseen ?_ ?_
          · simp [applyAll_append, happ, hh, Change.apply]
          · simp
    | addColumn f =>
      simp only [step, Sp.step, hst, hsp, hview]
      cases hh : sp.held with
      | none => simp only []; exact ⟨hph, hfresh, hlive, hclosed⟩
      | some rows =>
        simp only [ddl]
        cases hd : sp.dirty with
        | false =>
          have he : st.pending.isEmpty = true := by rw [hemp, hd]; rfl
          have hp : st.pending = [] := List.isEmpty_iff.mp he
          have hdn : d = some rows := by rw [hp] at happ; simpa [applyAll, hh] using happ
          simp only [he, if_true, Bool.false_eq_true, if_false]
          refine inv_live_intro p r₀ _ _ (by first | rfl | exact hst) rfl (some (rows.map f)) ?_ rfl ?_ ?_
          · simp [World.set_same, diskTable_db _ _ _ hw, hdn, Change.apply]
          · simp [hp, applyAll]
          · simp [he]
        | true =>
          have he : st.pending.isEmpty = false := by rw [hemp, hd]; rfl
          simp only [he, Bool.false_eq_true, if_false, if_true]
          refine inv_live_intro p r₀ _ _ (by first | rfl | exact hst) rfl d hw hseen ?_ ?_
          · simp [applyAll_append, happ, hh, Change.apply]
          · simp
    | commit =>
      simp only [step, Sp.step, hst, hsp, Model.C20.commit]
      cases he : st.pending.isEmpty with
      | true =>
        have hp : st.pending = [] := List.isEmpty_iff.mp he
        have hdn : d = sp.held := by rw [hp] at happ; simpa [applyAll] using happ
        simp only [if_true]
        refine inv_live_intro p r₀ _ _ (by first | rfl | exact hst) rfl d hw ?_ happ ?_
        · simp [hdn]
        · simp [he]
      | false =>
        simp only [Bool.false_eq_true, if_false]
        refine inv_live_intro p r₀ _ _ (by first | rfl | exact hst) rfl sp.held ?_ rfl ?_ ?_
        · simp [hjw, World.set_same, hview]
        · simp [applyAll]
        · simp
    | closeKeep =>
      simp only [step, Sp.step, hst, hsp, Model.C20.commit]
      cases he : st.pending.isEmpty with
      | true =>
        have hp : st.pending = [] := List.isEmpty_iff.mp he
        have hdn : d = sp.held := by rw [hp] at happ; simpa [applyAll] using happ
        simp only [if_true]
        refine inv_closed_intro p r₀ _ _ rfl rfl ?_
        simp [readBack_db _ _ _ hw, hdn]
      | false =>
        simp only [Bool.false_eq_true, if_false]
        refine inv_closed_intro p r₀ _ _ rfl rfl ?_
        have : ((st.world.set p (some (File.db (view st p)))).set (journal p) none) p = some (.db sp.held) := by
          simp [hjw, World.set_same, hview]
        simp [readBack_db _ _ _ this]
    | closeRemove =>
      simp only [step, Sp.step, hst, hsp]
      refine inv_closed_intro p r₀ _ _ ?_ rfl ?_
      · simp only [removeIfFile, rollbackClose]
        cases he : st.pending.isEmpty <;> simp [hjw, hw]
      · simp only [removeIfFile, rollbackClose]
        cases he : st.pending.isEmpty <;> simp [hjw, hw, readBack, World.set_same]

theorem run_inv (journal : P → P) (p : P) (hj : journal p ≠ p) (w : World P Row) (ops : List (Op Row)) :
    Inv p (readBack w p) (run journal p w ops) (spec (readBack w p) ops) := by
  unfold run spec
  have h0 : Inv p (readBack w p) (⟨w, .fresh, [], []⟩ : St P Row) ⟨.fresh, none, false, readBack w p⟩ :=
    ⟨rfl, fun _ => ⟨rfl, rfl⟩, by simp, by simp⟩
  generalize (⟨w, .fresh, [], []⟩ : St P Row) = st at h0
  generalize (⟨.fresh, none, false, readBack w p⟩ : Sp Row) = sp at h0
  induction ops generalizing st sp with
  | nil => exact h0
  | cons op ops ih => exact ih _ _ (step_inv journal p hj _ st sp h0 op)

/-- what a reader finds after a crash at any point = the abstract "last committed" table -/
theorem readBack_eq_seen (journal : P → P) (p : P) (hj : journal p ≠ p) (w : World P Row) (ops : List (Op Row)) :
    readBack (crash (run journal p w ops)) p = lastCommitted (readBack w p) ops := by
  obtain ⟨hph, hfresh, hlive, hclosed⟩ := run_inv journal p hj w ops
  unfold lastCommitted crash
  cases hsp : (spec (readBack w p) ops).phase with
  | fresh => obtain ⟨h1, h2⟩ := hfresh hsp; rw [h1, h2]
  | live => obtain ⟨d, hw, hs, _, _⟩ := hlive hsp; rw [readBack_db _ _ _ hw, hs]
  | closed => exact hclosed hsp

/-! ### the abstract course: what a reader sees is always a complete table of the scenario -/

theorem spec_append (r₀ : Read Row) (pre : List (Op Row)) (op : Op Row) :
    spec r₀ (pre ++ [op]) = (spec r₀ pre).step op := by
  simp [spec, List.foldl_append]

/-- what a reader can see: the old content, nothing, or the whole table held at a moment without pending changes -/
def SeenOk (r₀ : Read Row) (pre : List (Op Row)) : Prop :=
  ((spec r₀ pre).phase = .fresh ∧ (spec r₀ pre).seen = r₀) ∨ (spec r₀ pre).seen = .noFile ∨ (spec r₀ pre).seen = .noTable ∨
    ∃ T, (spec r₀ pre).seen = .table T ∧ CompleteTable r₀ pre T

theorem complete_mono (r₀ : Read Row) (pre : List (Op Row)) (op : Op Row) (T : List Row)
    (h : CompleteTable r₀ pre T) : CompleteTable r₀ (pre ++ [op]) T := by
  obtain ⟨j, hj, h1, h2⟩ := h
  refine ⟨j, by simp; omega, ?_, ?_⟩
  · rw [List.take_append_of_le_length hj]; exact h1
  · rw [List.take_append_of_le_length hj]; exact h2

theorem seenOk_mono (r₀ : Read Row) (pre : List (Op Row)) (op : Op Row) (h : SeenOk r₀ pre)
    (hs : (spec r₀ (pre ++ [op])).seen = (spec r₀ pre).seen ∧ (spec r₀ (pre ++ [op])).phase = (spec r₀ pre).phase) :
    SeenOk r₀ (pre ++ [op]) := by
  unfold SeenOk; rw [hs.1, hs.2]
  rcases h with h | h | h | ⟨T, hT, hc⟩
  · exact Or.inl h
  · exact Or.inr (Or.inl h)
  · exact Or.inr (Or.inr (Or.inl h))
  · exact Or.inr (Or.inr (Or.inr ⟨T, hT, complete_mono r₀ pre op T hc⟩))

/-- a commit point: the reader sees exactly the table now held, and nothing is pending -/
theorem seenOk_commit (r₀ : Read Row) (pre : List (Op Row)) (op : Op Row)
    (hs : (spec r₀ (pre ++ [op])).seen = heldRead (spec r₀ (pre ++ [op])).held)
    (hd : (spec r₀ (pre ++ [op])).dirty = false) : SeenOk r₀ (pre ++ [op]) := by
  unfold SeenOk
  cases hh : (spec r₀ (pre ++ [op])).held with
  | none => rw [hs, hh]; exact Or.inr (Or.inr (Or.inl rfl))
  | some T =>
    rw [hs, hh]
    refine Or.inr (Or.inr (Or.inr ⟨T, rfl, (pre ++ [op]).length, Nat.le_refl _, ?_, ?_⟩))
    · rw [List.take_length]; exact hh
    · rw [List.take_length]; exact hd

theorem seenOk_step (r₀ : Read Row) (pre : List (Op Row)) (op : Op Row) (h : SeenOk r₀ pre) : SeenOk r₀ (pre ++ [op]) := by
  have e := spec_append r₀ pre op
  cases op with
  | openDb =>
    cases hp : (spec r₀ pre).phase with
    | fresh =>
      refine Or.inr (Or.inr (Or.inl ?_)); rw [e]; simp [Sp.step, hp]
    | live => exact seenOk_mono r₀ pre _ h (by rw [e]; simp [Sp.step, hp])
    | closed => exact seenOk_mono r₀ pre _ h (by rw [e]; simp [Sp.step, hp])
  | createTable =>
    cases hp : (spec r₀ pre).phase <;> cases hh : (spec r₀ pre).held <;> cases hd : (spec r₀ pre).dirty <;>
      first
      | (refine seenOk_mono r₀ pre _ h ?_; rw [e]; simp [Sp.step, hp, hh, hd]; done)
      | (refine seenOk_commit r₀ pre _ ?_ ?_ <;> (rw [e]; simp [Sp.step, hp, hh, hd, heldRead]))
  | insertRow r =>
    cases hp : (spec r₀ pre).phase <;> cases hh : (spec r₀ pre).held <;>
      exact seenOk_mono r₀ pre _ h (by rw [e]; simp [Sp.step, hp, hh])
  | update f =>
    cases hp : (spec r₀ pre).phase <;> cases hh : (spec r₀ pre).held <;>
      exact seenOk_mono r₀ pre _ h (by rw [e]; simp [Sp.step, hp, hh])
  | addColumn f =>
    cases hp : (spec r₀ pre).phase <;> cases hh : (spec r₀ pre).held <;> cases hd : (spec r₀ pre).dirty <;>
      first
      | (refine seenOk_mono r₀ pre _ h ?_; rw [e]; simp [Sp.step, hp, hh, hd]; done)
      | (refine seenOk_commit r₀ pre _ ?_ ?_ <;> (rw [e]; simp [Sp.step, hp, hh, hd, heldRead]))
  | commit =>
    cases hp : (spec r₀ pre).phase
    · exact seenOk_mono r₀ pre _ h (by rw [e]; simp [Sp.step, hp])
    · exact seenOk_commit r₀ pre _ (by rw [e]; simp [Sp.step, hp]) (by rw [e]; simp [Sp.step, hp])
    · exact seenOk_mono r₀ pre _ h (by rw [e]; simp [Sp.step, hp])
  | closeKeep =>
    cases hp : (spec r₀ pre).phase
    · exact seenOk_mono r₀ pre _ h (by rw [e]; simp [Sp.step, hp])
    · exact seenOk_commit r₀ pre _ (by rw [e]; simp [Sp.step, hp]) (by rw [e]; simp [Sp.step, hp])
    · exact seenOk_mono r₀ pre _ h (by rw [e]; simp [Sp.step, hp])
  | closeRemove =>
    cases hp : (spec r₀ pre).phase
    · exact seenOk_mono r₀ pre _ h (by rw [e]; simp [Sp.step, hp])
    · refine Or.inr (Or.inl ?_); rw [e]; simp [Sp.step, hp]
    · refine Or.inr (Or.inl ?_); rw [e]; simp [Sp.step, hp]

theorem step_not_fresh (sp : Sp Row) (op : Op Row) (h : sp.phase ≠ .fresh) : (sp.step op).phase ≠ .fresh := by
  cases op <;> simp only [Sp.step] <;> (repeat' split) <;> simp_all

theorem not_fresh_after_open (r₀ : Read Row) (ops : List (Op Row)) : (spec r₀ (Op.openDb :: ops)).phase ≠ .fresh := by
  unfold spec
  simp only [List.foldl_cons]
  have h0 : (Sp.step (⟨.fresh, none, false, r₀⟩ : Sp Row) .openDb).phase ≠ .fresh := by simp [Sp.step]
  generalize Sp.step (⟨.fresh, none, false, r₀⟩ : Sp Row) .openDb = sp at h0
  induction ops generalizing sp with
  | nil => exact h0
  | cons op ops ih => exact ih _ (step_not_fresh sp op h0)

theorem seenOk_extend (r₀ : Read Row) (rest pre : List (Op Row)) (h : SeenOk r₀ pre) : SeenOk r₀ (pre ++ rest) := by
  induction rest generalizing pre with
  | nil => simpa using h
  | cons op rest ih =>
    have := ih (pre ++ [op]) (seenOk_step r₀ pre op h)
    simpa using this

theorem seenOk_all (r₀ : Read Row) (ops : List (Op Row)) : SeenOk r₀ ops := by
  have := seenOk_extend r₀ ops [] (Or.inl ⟨rfl, rfl⟩)
  simpa using this

/-! ### frame and action shapes -/

def GoodAct (journal : P → P) (p : P) (e : FAct P) : Prop :=
  e.isShell = false ∧ ∀ q ∈ e.paths journal, q = p ∨ q = journal p

theorem step_frame (journal : P → P) (p : P) (st : St P Row) (op : Op Row) (q : P) (h1 : q ≠ p) (h2 : q ≠ journal p) :
    (step journal p st op).world q = st.world q := by
  cases op <;> simp only [step] <;> cases st.phase <;> simp only [] <;>
    (try simp only [dml, ddl, Model.C20.commit, removeIfFile, rollbackClose]) <;>
    (repeat' split) <;> simp [World.set_other _ _ _ _ h1, World.set_other _ _ _ _ h2]

theorem step_trace (journal : P → P) (p : P) (st : St P Row) (op : Op Row)
    (h : ∀ e ∈ st.trace, GoodAct journal p e) : ∀ e ∈ (step journal p st op).trace, GoodAct journal p e := by
  have good : ∀ (l : List (FAct P)), (∀ e ∈ l, GoodAct journal p e) → ∀ e ∈ st.trace ++ l, GoodAct journal p e := by
    intro l hl e he
    rcases List.mem_append.mp he with h' | h'
    · exact h e h'
    · exact hl e h'
  cases op <;> simp only [step] <;> cases st.phase <;> simp only [] <;>
    (try simp only [dml, ddl, Model.C20.commit, removeIfFile, rollbackClose]) <;>
    (repeat' split) <;> (try exact h) <;>
    (intro e he
     try simp only [List.append_assoc] at he
     refine good _ ?_ e he
     intro e' he'
     simp only [List.mem_cons, List.not_mem_nil, or_false, List.cons_append, List.nil_append] at he'
     rcases he' with rfl | rfl | rfl | rfl <;> simp [GoodAct, FAct.isShell, FAct.paths])

theorem run_frame (journal : P → P) (p : P) (w : World P Row) (ops : List (Op Row)) (q : P) (h1 : q ≠ p) (h2 : q ≠ journal p) :
    (run journal p w ops).world q = w q := by
  unfold run
  have h0 : (⟨w, .fresh, [], []⟩ : St P Row).world q = w q := rfl
  generalize (⟨w, .fresh, [], []⟩ : St P Row) = st at h0
  induction ops generalizing st with
  | nil => exact h0
  | cons op ops ih => exact ih _ (by rw [step_frame journal p st op q h1 h2]; exact h0)

theorem run_trace (journal : P → P) (p : P) (w : World P Row) (ops : List (Op Row)) :
    ∀ e ∈ (run journal p w ops).trace, GoodAct journal p e := by
  unfold run
  have h0 : ∀ e ∈ (⟨w, .fresh, [], []⟩ : St P Row).trace, GoodAct journal p e := by simp
  generalize (⟨w, .fresh, [], []⟩ : St P Row) = st at h0
  induction ops generalizing st with
  | nil => exact h0
  | cons op ops ih => exact ih _ (step_trace journal p st op h0)

end Proofs.Store
