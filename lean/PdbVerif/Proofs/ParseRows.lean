/-
  C01 — the record loop: helper lemmas about `Spec.parseFrom` / `Model.parseLines` (one row per ATOM record,
  in order; model number = number of ENDMDL records before; other records ignored; errors propagate) and the
  container-independence of `Model.readTable`.  Helper lemmas only; the property theorems live in `Props/C01.lean`.
  The field theorem `Model.parseAtomLine raw n = Spec.parseRecord raw n` is proved in `Proofs/Parse.lean`; where
  it is needed here it is an explicit hypothesis `hPF`.
-/
import Mathlib.Tactic.Linarith
import PdbVerif.Model.Parse
import PdbVerif.Spec.C01
import PdbVerif.Proofs.Str

set_option linter.unusedSimpArgs false
set_option linter.unnecessarySeqFocus false
set_option linter.unusedVariables false

namespace Proofs.ParseRows
open Py

/-! ### 1. the record tests of the model are those of the spec -/

theorem startsWith_atom (l : Str) : Py.startsWith l Gen.atom_prefix = Spec.isAtomRecord l := rfl

theorem startsWith_endmdl (l : Str) : Py.startsWith l Gen.endmdl_prefix = Spec.isEndmdl l := rfl

/-! ### 2. the record loop -/

theorem parseLines_eq (hPF : ∀ raw n, Model.parseAtomLine raw n = Spec.parseRecord raw n) :
    ∀ ls n, Model.parseLines ls n = Spec.parseFrom ls n := by
  intro ls
  induction ls with
  | nil => intro n; rfl
  | cons l rest ih =>
    intro n
    simp only [Model.parseLines, Spec.parseFrom, startsWith_atom, startsWith_endmdl, hPF, ih]

theorem parse_eq (hPF : ∀ raw n, Model.parseAtomLine raw n = Spec.parseRecord raw n)
    (ls : List Str) : Model.parse ls = Spec.parse ls :=
  parseLines_eq hPF ls 0

/-! ### 3. -/

theorem atom_not_endmdl {l : Str} (h : Spec.isAtomRecord l = true) : Spec.isEndmdl l = false := by
  unfold Spec.isAtomRecord at h
  unfold Spec.isEndmdl
  match l, h with
  | c :: _, h =>
    have hc : c = 'A' := by
      simp [List.isPrefixOf] at h
      exact h.1.symm
    subst hc
    simp [List.isPrefixOf]

/-! ### 4. the ATOM records with their model numbers -/

/-- the ATOM records of a file, each with its model number -/
def atomsFrom : List Str → Int → List (Str × Int)
  | [], _ => []
  | l :: rest, n =>
    if Spec.isAtomRecord l then (l, n) :: atomsFrom rest n
    else if Spec.isEndmdl l then atomsFrom rest (n + 1)
    else atomsFrom rest n

theorem parseFrom_eq_mapM (ls : List Str) (n : Int) :
    Spec.parseFrom ls n = (atomsFrom ls n).mapM (fun p => Spec.parseRecord p.1 p.2) := by
  induction ls generalizing n with
  | nil => rfl
  | cons l rest ih =>
    unfold Spec.parseFrom atomsFrom
    by_cases ha : Spec.isAtomRecord l = true
    · simp only [ha, if_true, List.mapM_cons, ih]
    · by_cases he : Spec.isEndmdl l = true
      · simp only [ha, he, if_true, if_false, ih, Bool.false_eq_true]
      · simp only [ha, he, if_false, ih, Bool.false_eq_true]

theorem atomsFrom_map_fst (ls : List Str) (n : Int) :
    (atomsFrom ls n).map (·.1) = ls.filter Spec.isAtomRecord := by
  induction ls generalizing n with
  | nil => rfl
  | cons l rest ih =>
    unfold atomsFrom
    by_cases ha : Spec.isAtomRecord l = true
    · simp [ha, ih]
    · by_cases he : Spec.isEndmdl l = true
      · simp [ha, he, ih]
      · simp [ha, he, ih]

theorem atomsFrom_append (pre post : List Str) (n : Int) :
    atomsFrom (pre ++ post) n
      = atomsFrom pre n ++ atomsFrom post (n + (pre.countP Spec.isEndmdl : Nat)) := by
  induction pre generalizing n with
  | nil => simp [atomsFrom]
  | cons l rest ih =>
    by_cases ha : Spec.isAtomRecord l = true
    · have he := atom_not_endmdl ha
      simp [atomsFrom, ha, he, ih, List.countP_cons]
    · by_cases he : Spec.isEndmdl l = true
      · simp [atomsFrom, ha, he, ih, List.countP_cons]
        congr 1; omega
      · simp [atomsFrom, ha, he, ih, List.countP_cons]

theorem atomsFrom_model {l : Str} (pre post : List Str) (n : Int) (h : Spec.isAtomRecord l = true) :
    atomsFrom (pre ++ l :: post) n
      = atomsFrom pre n ++ (l, n + (pre.countP Spec.isEndmdl : Nat))
          :: atomsFrom post (n + (pre.countP Spec.isEndmdl : Nat)) := by
  rw [atomsFrom_append]
  simp [atomsFrom, h]

/-! ### 7. (before 5) -/

theorem forall₂_of_mapM_ok {α β : Type} (f : α → Except Err β) :
    ∀ (l : List α) (t : List β), l.mapM f = .ok t → List.Forall₂ (fun a b => f a = .ok b) l t := by
  intro l
  induction l with
  | nil =>
    intro t h
    simp [List.mapM_nil, pure, Except.pure] at h
    subst h; exact List.Forall₂.nil
  | cons a l ih =>
    intro t h
    rw [List.mapM_cons] at h
    cases ha : f a with
    | error e => simp [ha, bind, Except.bind] at h
    | ok b =>
      cases hl : l.mapM f with
      | error e => simp [ha, hl, bind, Except.bind] at h
      | ok bs =>
        simp [ha, hl, bind, Except.bind, pure, Except.pure] at h
        subst h
        exact List.Forall₂.cons ha (ih bs hl)

theorem no_silent_alteration {ls : List Str} {n : Int} {t : List Row}
    (h : Spec.parseFrom ls n = .ok t) :
    List.Forall₂ (fun p r => Spec.parseRecord p.1 p.2 = .ok r) (atomsFrom ls n) t := by
  rw [parseFrom_eq_mapM] at h
  exact forall₂_of_mapM_ok _ _ _ h

/-! ### 5. -/

theorem forall₂_length {α β : Type} {R : α → β → Prop} {l : List α} {t : List β}
    (h : List.Forall₂ R l t) : l.length = t.length := by
  induction h with
  | nil => rfl
  | cons _ _ ih => simp [ih]


theorem rows_count {ls : List Str} {n : Int} {t : List Row}
    (h : Spec.parseFrom ls n = .ok t) : t.length = (ls.filter Spec.isAtomRecord).length := by
  have := forall₂_length (no_silent_alteration h)
  rw [← atomsFrom_map_fst ls n, List.length_map, this]

/-! ### 6. -/

theorem atomsFrom_other_ignored {x : Str} (pre post : List Str) (n : Int)
    (ha : Spec.isAtomRecord x = false) (he : Spec.isEndmdl x = false) :
    atomsFrom (pre ++ x :: post) n = atomsFrom (pre ++ post) n := by
  rw [atomsFrom_append, atomsFrom_append]
  simp [atomsFrom, ha, he]

theorem other_records_ignored {x : Str} (pre post : List Str) (n : Int)
    (ha : Spec.isAtomRecord x = false) (he : Spec.isEndmdl x = false) :
    Spec.parseFrom (pre ++ x :: post) n = Spec.parseFrom (pre ++ post) n := by
  rw [parseFrom_eq_mapM, parseFrom_eq_mapM, atomsFrom_other_ignored pre post n ha he]

/-! ### 8. -/

theorem mapM_error_of_mem {α β : Type} (f : α → Except Err β) :
    ∀ (l : List α) (a : α), a ∈ l → (∃ e, f a = .error e) → ∃ e, l.mapM f = .error e := by
  intro l
  induction l with
  | nil => intro a h; simp at h
  | cons x l ih =>
    intro a hmem herr
    rw [List.mapM_cons]
    cases hx : f x with
    | error e => exact ⟨e, by simp [bind, Except.bind]⟩
    | ok b =>
      have hal : a ∈ l := by
        rcases List.mem_cons.mp hmem with rfl | h
        · obtain ⟨e, he⟩ := herr; rw [hx] at he; cases he
        · exact h
      obtain ⟨e, he⟩ := ih a hal herr
      exact ⟨e, by simp [he, bind, Except.bind]⟩

theorem mem_atomsFrom {l : Str} {ls : List Str} (hm : l ∈ ls) (ha : Spec.isAtomRecord l = true)
    (n : Int) : ∃ m, (l, m) ∈ atomsFrom ls n := by
  have : l ∈ (atomsFrom ls n).map (·.1) := by
    rw [atomsFrom_map_fst]; exact List.mem_filter.mpr ⟨hm, ha⟩
  obtain ⟨⟨l', m⟩, hp, rfl⟩ := List.mem_map.mp this
  exact ⟨m, hp⟩

theorem error_propagates {l : Str} {ls : List Str} (hm : l ∈ ls) (ha : Spec.isAtomRecord l = true)
    (herr : ∀ m, ∃ e, Spec.parseRecord l m = .error e) :
    ∀ n, ∃ e, Spec.parseFrom ls n = .error e := by
  intro n
  rw [parseFrom_eq_mapM]
  obtain ⟨m, hp⟩ := mem_atomsFrom hm ha n
  exact mapM_error_of_mem _ _ (l, m) hp (herr m)

theorem parseRecord_too_long {l : Str} (h : (Spec.recordText l).length > 80) (m : Int) :
    Spec.parseRecord l m = .error .valueError := by
  unfold Spec.parseRecord
  simp only [h, if_true]

theorem too_long_raises_rows {l : Str} {ls : List Str} (hm : l ∈ ls)
    (ha : Spec.isAtomRecord l = true) (h : (Spec.recordText l).length > 80) :
    ∀ n, ∃ e, Spec.parseFrom ls n = .error e :=
  error_propagates hm ha (fun m => ⟨_, parseRecord_too_long h m⟩)

/-! ### 9. container independence (about the model; no field theorem needed) -/

theorem isPrefixOf_takeWhile_gen (q : Char → Bool) (p l : Str) (hp : ∀ a ∈ p, q a = true) :
    p.isPrefixOf (l.takeWhile q) = p.isPrefixOf l := by
  induction p generalizing l with
  | nil => simp
  | cons a p ih =>
    have ha : q a = true := hp a (by simp)
    have hp' : ∀ x ∈ p, q x = true := fun x hx => hp x (by simp [hx])
    cases l with
    | nil => simp
    | cons b l =>
      by_cases hb : q b = true
      · simp [List.takeWhile_cons, hb, List.isPrefixOf, ih l hp']
      · have hab : a ≠ b := fun h => hb (h ▸ ha)
        simp [List.takeWhile_cons, hb, List.isPrefixOf, hab]

theorem all_ne_of_not_mem {p : Str} (hp : '\n' ∉ p) :
    ∀ a ∈ p, (fun x : Char => decide (x ≠ '\n')) a = true := by
  intro a ha
  have : a ≠ '\n' := fun h => hp (h ▸ ha)
  simp [this]

theorem isPrefixOf_takeWhile (p l : Str) (hp : '\n' ∉ p) :
    p.isPrefixOf (l.takeWhile (· ≠ '\n')) = p.isPrefixOf l :=
  isPrefixOf_takeWhile_gen _ p l (all_ne_of_not_mem hp)

theorem takeWhile_idem (q : Char → Bool) (s : Str) :
    (s.takeWhile q).takeWhile q = s.takeWhile q := by
  induction s with
  | nil => rfl
  | cons c s ih =>
    by_cases hc : q c = true
    · simp [List.takeWhile_cons, hc, ih]
    · simp [List.takeWhile_cons, hc]

theorem firstLine_idem (s : Str) : Model.firstLine (Model.firstLine s) = Model.firstLine s :=
  takeWhile_idem _ s

theorem takeWhile_append_stop (q : Char → Bool) (s : Str) (x : Char)
    (hs : ∀ a ∈ s, q a = true) (hx : q x = false) :
    (s ++ [x]).takeWhile q = s.takeWhile q := by
  induction s with
  | nil => simp [List.takeWhile_cons, hx]
  | cons c s ih =>
    have hc : q c = true := hs c (by simp)
    have hs' : ∀ a ∈ s, q a = true := fun a ha => hs a (by simp [ha])
    simp [List.takeWhile_cons, hc, ih hs']

theorem atom_prefix_no_nl : '\n' ∉ Gen.atom_prefix := by decide
theorem endmdl_prefix_no_nl : '\n' ∉ Gen.endmdl_prefix := by decide

theorem startsWith_firstLine_atom (l : Str) :
    startsWith (Model.firstLine l) Gen.atom_prefix = startsWith l Gen.atom_prefix :=
  isPrefixOf_takeWhile _ _ atom_prefix_no_nl

theorem startsWith_firstLine_endmdl (l : Str) :
    startsWith (Model.firstLine l) Gen.endmdl_prefix = startsWith l Gen.endmdl_prefix :=
  isPrefixOf_takeWhile _ _ endmdl_prefix_no_nl

theorem parseAtomLine_congr {a b : Str} (h : Model.firstLine a = Model.firstLine b) (n : Int) :
    Model.parseAtomLine a n = Model.parseAtomLine b n := by
  unfold Model.parseAtomLine; rw [h]

/-- the record loop looks at a line only through its `firstLine` -/
theorem parseLines_cons_congr {a b : Str} {ra rb : List Str}
    (h : Model.firstLine a = Model.firstLine b)
    (hr : ∀ m, Model.parseLines ra m = Model.parseLines rb m) (n : Int) :
    Model.parseLines (a :: ra) n = Model.parseLines (b :: rb) n := by
  have h1 : startsWith a Gen.atom_prefix = startsWith b Gen.atom_prefix := by
    rw [← startsWith_firstLine_atom a, ← startsWith_firstLine_atom b, h]
  have h2 : startsWith a Gen.endmdl_prefix = startsWith b Gen.endmdl_prefix := by
    rw [← startsWith_firstLine_endmdl a, ← startsWith_firstLine_endmdl b, h]
  simp only [Model.parseLines, h1, h2, hr, parseAtomLine_congr h]

theorem parseLines_congr_firstLine :
    ∀ ls n, Model.parseLines (ls.map Model.firstLine) n = Model.parseLines ls n := by
  intro ls
  induction ls with
  | nil => intro n; rfl
  | cons l rest ih =>
    intro n
    rw [List.map_cons]
    exact parseLines_cons_congr (firstLine_idem l) ih n

/-- apply `f` to the first element only -/
def mapHead {α : Type} (f : α → α) : List α → List α
  | [] => []
  | h :: r => f h :: r

theorem mapHead_nil_append (l : List Str) : mapHead (([] : Str) ++ ·) l = l := by
  cases l <;> simp [mapHead]

theorem splitOn_ne_nil (c : Char) (s : Str) : splitOn c s ≠ [] := by
  induction s with
  | nil => simp [splitOn]
  | cons x xs ih =>
    unfold splitOn
    by_cases hx : (x == c) = true
    · simp [hx]
    · simp only [hx, if_false, Bool.false_eq_true]
      split <;> simp

theorem firstLine_append_nl (s : Str) (hs : '\n' ∉ s) :
    Model.firstLine (s ++ ['\n']) = Model.firstLine s :=
  takeWhile_append_stop _ s '\n' (all_ne_of_not_mem hs) (by decide)

/-- the empty line is skipped by the record loop -/
theorem parseLines_nil_cons (ls : List Str) (n : Int) :
    Model.parseLines ([] :: ls) n = Model.parseLines ls n := by
  simp [Model.parseLines, startsWith, Gen.atom_prefix, Gen.endmdl_prefix]

theorem parseLines_readlinesAux : ∀ (t cur : Str) (n : Int), '\n' ∉ cur →
    Model.parseLines (Model.readlinesAux t cur) n
      = Model.parseLines (mapHead (cur.reverse ++ ·) (Py.splitOn '\n' t)) n := by
  intro t
  induction t with
  | nil =>
    intro cur n _
    cases cur with
    | nil => simp [Model.readlinesAux, splitOn, mapHead, parseLines_nil_cons]
    | cons c cur => simp [Model.readlinesAux, splitOn, mapHead]
  | cons c cs ih =>
    intro cur n hcur
    by_cases hc : c = '\n'
    · subst hc
      have hsplit : splitOn '\n' ('\n' :: cs) = [] :: splitOn '\n' cs := by
        simp [splitOn]
      rw [hsplit]
      simp only [Model.readlinesAux, if_true, mapHead, List.append_nil, List.reverse_cons]
      apply parseLines_cons_congr
      · exact firstLine_append_nl _ (by simpa using hcur)
      · intro m
        rw [ih [] m (by simp)]
        simp only [List.reverse_nil]
        rw [mapHead_nil_append]
    · have hcur' : '\n' ∉ c :: cur := by
        intro h
        rcases List.mem_cons.mp h with h | h
        · exact hc h.symm
        · exact hcur h
      have hR : Model.readlinesAux (c :: cs) cur = Model.readlinesAux cs (c :: cur) := by
        simp [Model.readlinesAux, hc]
      rw [hR, ih (c :: cur) n hcur']
      have hne := splitOn_ne_nil '\n' cs
      cases hs : splitOn '\n' cs with
      | nil => exact absurd hs hne
      | cons h r => simp [splitOn, hc, hs, mapHead]

theorem parse_readlines_eq_splitOn (t : Str) :
    Model.parse (Model.readlines t) = Model.parse (Py.splitOn '\n' t) := by
  unfold Model.parse Model.readlines
  rw [parseLines_readlinesAux t [] 0 (by simp)]
  simp only [List.reverse_nil]
  rw [mapHead_nil_append]

/-- the list `l` carries the lines of text `t`, each with or without its line terminator -/
def SameLines (l : List Py.Str) (t : Py.Str) : Prop :=
  l.map Model.firstLine = (Model.readlines t).map Model.firstLine
    ∨ l.map Model.firstLine = Py.splitOn '\n' t

/-- input `i` is an accepted container (under file system `fs`) of the text `t` -/
def Carries (fs : Model.FS) : Model.Input → Py.Str → Prop
  | .str s, t => fs s = some (.file t) ∨ (fs s = none ∧ s = t ∧ Model.countSub Model.atomNeedle t > 3)
  | .bytes s, t => fs s = some (.file t) ∨ (fs s = none ∧ s = t ∧ Model.countSub Model.atomNeedle t > 3)
  | .path p, t => fs p = some (.file t)
  | .listStr l, t | .listBytes l, t | .ndarrayStr l, t | .ndarrayBytes l, t => l ≠ [] ∧ SameLines l t

theorem parse_of_sameLines {l : List Str} {t : Str} (h : SameLines l t) :
    Model.parse l = Model.parse (Py.splitOn '\n' t) := by
  have h0 : Model.parse l = Model.parseLines (l.map Model.firstLine) 0 :=
    (parseLines_congr_firstLine l 0).symm
  rcases h with h | h
  · rw [h0, h, parseLines_congr_firstLine]
    exact parse_readlines_eq_splitOn t
  · rw [h0, h]; rfl

theorem readStr_of_carries {fs : Model.FS} {s t : Str}
    (h : fs s = some (.file t) ∨ (fs s = none ∧ s = t ∧ Model.countSub Model.atomNeedle t > 3)) :
    (Model.readStr fs s >>= Model.parse) = Model.parse (Py.splitOn '\n' t) := by
  unfold Model.readStr
  rcases h with h | ⟨h, rfl, hc⟩
  · simp only [h, pure, Except.pure, bind, Except.bind]
    exact parse_readlines_eq_splitOn t
  · simp only [h, hc, if_true, pure, Except.pure, bind, Except.bind]

theorem readTable_of_carries {fs : Model.FS} {i : Model.Input} {t : Str} (h : Carries fs i t) :
    Model.readTable fs i = Model.parse (Py.splitOn '\n' t) := by
  unfold Model.readTable
  cases i with
  | str s => exact readStr_of_carries h
  | bytes s => exact readStr_of_carries h
  | path p =>
    have h' : fs p = some (.file t) := h
    simp only [Model.readPdb, h', pure, Except.pure, bind, Except.bind]
    exact parse_readlines_eq_splitOn t
  | listStr l | listBytes l | ndarrayStr l | ndarrayBytes l =>
    obtain ⟨hne, hs⟩ : l ≠ [] ∧ SameLines l t := h
    have he : l.isEmpty = false := by cases l <;> simp_all
    simp only [Model.readPdb, he, pure, Except.pure, bind, Except.bind, if_false, Bool.false_eq_true]
    exact parse_of_sameLines hs

theorem container_independent {fs : Model.FS} {i₁ i₂ : Model.Input} {t : Str}
    (h₁ : Carries fs i₁ t) (h₂ : Carries fs i₂ t) :
    Model.readTable fs i₁ = Model.readTable fs i₂ := by
  rw [readTable_of_carries h₁, readTable_of_carries h₂]

/-! ### non-vacuity: concrete inputs satisfying the hypotheses of the lemmas above

(`parseLines_eq` / `parse_eq` have the field theorem as only hypothesis; it is proved in `Proofs/Parse.lean`.) -/

namespace Demo

def a1 : Str := "ATOM      1  N   MET A   1      27.340  24.430   2.614  1.00  9.67           N  ".toList
def a2 : Str := "ATOM      2  CA  MET A   1      26.266  25.413   2.842  1.00 10.38           C  \n".toList
def het : Str := "HETATM    3  O   HOH A   2       1.000   2.000   3.000  1.00  0.00           O  ".toList
def endmdl : Str := "ENDMDL".toList
/-- an ATOM record of 84 columns -/
def long : Str := "ATOM".toList ++ List.replicate 80 ' '
def file : List Str := [a1, endmdl, het, a2]

/-- a 5-line text with 4 ATOM lines (short fake lines: only the record tests matter here) -/
def text : Str := "HEADER x\nATOM a\nATOM b\nENDMDL\nATOM c\nATOM d\n".toList
def path : Str := "1abc.pdb".toList
def noFS : Model.FS := fun _ => none
def oneFile : Model.FS := fun p => if p = path then some (.file text) else none

-- 3.
example : Spec.isAtomRecord a1 = true := by decide
-- 4. `atomsFrom` on a two-model file; the decomposition used by `atomsFrom_model`
example : atomsFrom file 0 = [(a1, 0), (a2, 1)] := by decide
example : file = [a1, endmdl, het] ++ a2 :: [] ∧ Spec.isAtomRecord a2 = true
    ∧ [a1, endmdl, het].countP Spec.isEndmdl = 1 := by decide
-- 5., 7. the hypothesis `parseFrom ls n = .ok t` holds for a real two-record file
theorem file_ok : ∃ t, Spec.parseFrom file 0 = .ok t := ⟨_, rfl⟩
example : ∃ t, Spec.parseFrom file 0 = .ok t ∧ t.length = 2 := by
  obtain ⟨t, h⟩ := file_ok
  exact ⟨t, h, by rw [rows_count h]; decide⟩
example : ∃ t, List.Forall₂ (fun p r => Spec.parseRecord p.1 p.2 = .ok r) [(a1, 0), (a2, 1)] t := by
  obtain ⟨t, h⟩ := file_ok
  exact ⟨t, no_silent_alteration h⟩
-- 6.
example : Spec.isAtomRecord het = false ∧ Spec.isEndmdl het = false := by decide
example : Spec.parseFrom [a1, endmdl, het, a2] 0 = Spec.parseFrom [a1, endmdl, a2] 0 :=
  other_records_ignored [a1, endmdl] [a2] 0 (by decide) (by decide)
-- 8.
example : long ∈ [a1, long, a2] ∧ Spec.isAtomRecord long = true ∧ (Spec.recordText long).length > 80 := by
  decide
example : ∃ e, Spec.parseFrom [a1, long, a2] 0 = .error e :=
  too_long_raises_rows (l := long) (by decide) (by decide) (by decide) 0
-- 9a.–9d.
example : '\n' ∉ ['M', 'O', 'T', 'A'] := by decide
example : Model.parseLines (Model.readlinesAux text ['M', 'O', 'T', 'A']) 0
    = Model.parseLines (("ATOMHEADER x".toList) :: (Py.splitOn '\n' text).tail) 0 :=
  parseLines_readlinesAux text _ 0 (by decide)
example : Model.readlines text ≠ Py.splitOn '\n' text := by decide
-- 9e. the same text in five containers
theorem carries_listStr : Carries noFS (.listStr (Model.readlines text)) text :=
  ⟨by decide, Or.inl rfl⟩
theorem carries_ndarrayBytes : Carries noFS (.ndarrayBytes (Py.splitOn '\n' text)) text :=
  ⟨by decide, Or.inr (by decide)⟩
theorem carries_str : Carries noFS (.str text) text :=
  Or.inr ⟨rfl, rfl, by decide⟩
theorem carries_bytes_path : Carries oneFile (.bytes path) text :=
  Or.inl (if_pos rfl)
theorem carries_path : Carries oneFile (.path path) text :=
  show oneFile path = some (.file text) from if_pos rfl
example : Model.readTable noFS (.listStr (Model.readlines text)) = Model.readTable noFS (.str text) :=
  container_independent carries_listStr carries_str
example : Model.readTable noFS (.ndarrayBytes (Py.splitOn '\n' text)) = Model.readTable noFS (.str text) :=
  container_independent carries_ndarrayBytes carries_str
example : Model.readTable oneFile (.path path) = Model.readTable oneFile (.bytes path) :=
  container_independent carries_path carries_bytes_path

end Demo

end Proofs.ParseRows
