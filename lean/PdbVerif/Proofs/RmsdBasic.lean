/-
  Helper lemmas for C07 / C11 (cluster E), part 1: Python's order on strings and key tuples is a strict total order,
  the stable sort by key, reading all records of a file, uniqueness of keys.  Helper lemmas only.
-/
import PdbVerif.Proofs.ContactsRes
import PdbVerif.Model.RmsdCommon
import PdbVerif.Spec.C07

set_option linter.unusedVariables false
set_option linter.unusedSimpArgs false
set_option linter.unusedSectionVars false

namespace Proofs.Rmsd
open Model Model.Rmsd Py Proofs.Contacts

theorem char_tri (a b : Char) : a < b ∨ a = b ∨ b < a := by
  by_cases h1 : a < b
  · exact Or.inl h1
  · by_cases h2 : b < a
    · exact Or.inr (Or.inr h2)
    · exact Or.inr (Or.inl (Char.le_antisymm (Char.not_lt.mp h2) (Char.not_lt.mp h1)))

theorem strLt_irrefl : ∀ a : Str, strLt a a = false
  | [] => rfl
  | c :: cs => by simp [strLt, Char.lt_irrefl, strLt_irrefl cs]

theorem strLt_trans : ∀ a b c : Str, strLt a b = true → strLt b c = true → strLt a c = true
  | [], [], _, h, _ => by simp [strLt] at h
  | [], _ :: _, [], _, h => by simp [strLt] at h
  | [], _ :: _, _ :: _, _, _ => by simp [strLt]
  | _ :: _, [], _, h, _ => by simp [strLt] at h
  | _ :: _, _ :: _, [], _, h => by simp [strLt] at h
  | x :: xs, y :: ys, z :: zs, h1, h2 => by
    simp only [strLt, Bool.or_eq_true, Bool.and_eq_true, decide_eq_true_eq] at *
    rcases h1 with h1 | ⟨rfl, h1⟩ <;> rcases h2 with h2 | ⟨rfl, h2⟩
    · exact Or.inl (Char.lt_trans h1 h2)
    · exact Or.inl h1
    · exact Or.inl h2
    · exact Or.inr ⟨rfl, strLt_trans xs ys zs h1 h2⟩

theorem strLt_tri : ∀ a b : Str, strLt a b = true ∨ a = b ∨ strLt b a = true
  | [], [] => by simp
  | [], _ :: _ => by simp [strLt]
  | _ :: _, [] => by simp [strLt]
  | x :: xs, y :: ys => by
    simp only [strLt, Bool.or_eq_true, Bool.and_eq_true, decide_eq_true_eq, List.cons.injEq]
    rcases char_tri x y with h | rfl | h
    · exact Or.inl (Or.inl h)
    · rcases strLt_tri xs ys with h | rfl | h
      · exact Or.inl (Or.inr ⟨rfl, h⟩)
      · exact Or.inr (Or.inl ⟨rfl, rfl⟩)
      · exact Or.inr (Or.inr (Or.inr ⟨rfl, h⟩))
    · exact Or.inr (Or.inr (Or.inl h))

theorem strictTotal_strLt : StrictTotal strLt := ⟨strLt_irrefl, strLt_trans, strLt_tri⟩

theorem strictTotal_keyLt : StrictTotal keyLt where
  irrefl a := by simp [keyLt, strLt_irrefl]
  trans a b c := by
    obtain ⟨a1, a2, a3⟩ := a; obtain ⟨b1, b2, b3⟩ := b; obtain ⟨c1, c2, c3⟩ := c
    have T := strLt_trans
    simp only [keyLt, Bool.or_eq_true, Bool.and_eq_true, decide_eq_true_eq]
    intro h1 h2
    rcases h1 with h1 | ⟨rfl, h1⟩ <;> rcases h2 with h2 | ⟨rfl, h2⟩
    · exact Or.inl (T _ _ _ h1 h2)
    · exact Or.inl h1
    · exact Or.inl h2
    · refine Or.inr ⟨rfl, ?_⟩
      rcases h1 with h1 | ⟨rfl, h1⟩ <;> rcases h2 with h2 | ⟨rfl, h2⟩
      · exact Or.inl (by omega)
      · exact Or.inl h1
      · exact Or.inl h2
      · exact Or.inr ⟨rfl, T _ _ _ h1 h2⟩
  tri a b := by
    obtain ⟨a1, a2, a3⟩ := a; obtain ⟨b1, b2, b3⟩ := b
    simp only [keyLt, Bool.or_eq_true, Bool.and_eq_true, decide_eq_true_eq, Prod.mk.injEq]
    rcases strLt_tri a1 b1 with h | rfl | h
    · exact Or.inl (Or.inl h)
    · rcases Int.lt_trichotomy a2 b2 with h | rfl | h
      · exact Or.inl (Or.inr ⟨rfl, Or.inl h⟩)
      · rcases strLt_tri a3 b3 with h | rfl | h
        · exact Or.inl (Or.inr ⟨rfl, Or.inr ⟨rfl, h⟩⟩)
        · exact Or.inr (Or.inl ⟨rfl, rfl, rfl⟩)
        · exact Or.inr (Or.inr (Or.inr ⟨rfl, Or.inr ⟨rfl, h⟩⟩))
      · exact Or.inr (Or.inr (Or.inr ⟨rfl, Or.inl h⟩))
    · exact Or.inr (Or.inr (Or.inl h))

theorem strictTotal_crLt : StrictTotal crLt where
  irrefl a := by simp [crLt, strLt_irrefl]
  trans a b c := by
    obtain ⟨a1, a2⟩ := a; obtain ⟨b1, b2⟩ := b; obtain ⟨c1, c2⟩ := c
    simp only [crLt, Bool.or_eq_true, Bool.and_eq_true, decide_eq_true_eq]
    intro h1 h2
    rcases h1 with h1 | ⟨rfl, h1⟩ <;> rcases h2 with h2 | ⟨rfl, h2⟩
    · exact Or.inl (strLt_trans _ _ _ h1 h2)
    · exact Or.inl h1
    · exact Or.inl h2
    · exact Or.inr ⟨rfl, by omega⟩
  tri a b := by
    obtain ⟨a1, a2⟩ := a; obtain ⟨b1, b2⟩ := b
    simp only [crLt, Bool.or_eq_true, Bool.and_eq_true, decide_eq_true_eq, Prod.mk.injEq]
    rcases strLt_tri a1 b1 with h | rfl | h
    · exact Or.inl (Or.inl h)
    · rcases Int.lt_trichotomy a2 b2 with h | rfl | h
      · exact Or.inl (Or.inr ⟨rfl, h⟩)
      · exact Or.inr (Or.inl ⟨rfl, rfl⟩)
      · exact Or.inr (Or.inr (Or.inr ⟨rfl, h⟩))
    · exact Or.inr (Or.inr (Or.inl h))

section sort
variable {β : Type}

theorem perm_insertByKey (x : Key × β) (l : List (Key × β)) : (insertByKey x l).Perm (x :: l) := by
  induction l with
  | nil => simp [insertByKey]
  | cons y ys ih =>
    unfold insertByKey
    split
    · exact (List.Perm.cons y ih).trans (List.Perm.swap x y ys)
    · exact List.Perm.refl _

theorem perm_sortByKey (l : List (Key × β)) : (sortByKey l).Perm l := by
  induction l with
  | nil => simp [sortByKey]
  | cons x xs ih => exact (perm_insertByKey x _).trans (List.Perm.cons x ih)

theorem mem_sortByKey {l : List (Key × β)} {z : Key × β} : z ∈ sortByKey l ↔ z ∈ l :=
  (perm_sortByKey l).mem_iff

theorem asc_insertByKey {x : Key × β} {l : List (Key × β)} (hl : Asc keyLt (l.map (·.1))) (hx : x.1 ∉ l.map (·.1)) :
    Asc keyLt ((insertByKey x l).map (·.1)) := by
  induction l with
  | nil => simp [insertByKey]
  | cons y ys ih =>
    have hl' : Asc keyLt (y.1 :: ys.map (·.1)) := hl
    have hy := List.pairwise_cons.mp hl'
    have hxy : x.1 ≠ y.1 := by intro h; apply hx; simp [h]
    have hxs : x.1 ∉ ys.map (·.1) := by intro h; apply hx; simp only [List.map_cons, List.mem_cons]; exact Or.inr h
    unfold insertByKey
    split
    · rename_i hyx
      simp only [List.map_cons]
      refine List.pairwise_cons.mpr ⟨?_, ih hy.2 hxs⟩
      intro z hz
      have hz' : z ∈ (x :: ys).map (·.1) := ((perm_insertByKey x ys).map _).mem_iff.mp hz
      rcases List.mem_cons.mp hz' with rfl | hz'
      · exact hyx
      · exact hy.1 z hz'
    · rename_i hyx
      have hlt : keyLt x.1 y.1 = true := by
        rcases strictTotal_keyLt.tri x.1 y.1 with h | h | h
        · exact h
        · exact absurd h hxy
        · exact absurd h hyx
      simp only [List.map_cons]
      refine List.pairwise_cons.mpr ⟨?_, hl'⟩
      intro z hz
      rcases List.mem_cons.mp hz with rfl | hz
      · exact hlt
      · exact strictTotal_keyLt.trans _ _ _ hlt (hy.1 z hz)

theorem asc_sortByKey {l : List (Key × β)} (hl : (l.map (·.1)).Nodup) : Asc keyLt ((sortByKey l).map (·.1)) := by
  induction l with
  | nil => simp [sortByKey]
  | cons x xs ih =>
    have hl' : (x.1 :: xs.map (·.1)).Nodup := hl
    have h := List.nodup_cons.mp hl'
    apply asc_insertByKey (ih h.2)
    intro hx
    exact h.1 (((perm_sortByKey xs).map _).mem_iff.mp hx)
end sort

/-! ### reading every record of a file -/

theorem mapM_rawPt_keys : ∀ (l : List Str) (L : List Pt), l.mapM rawPt = .ok L → l.mapM rawKey = .ok (L.map (·.1))
  | [], L, h => by
    simp only [List.mapM_nil, pure, Except.pure] at h
    cases h; rfl
  | x :: xs, L, h => by
    rw [List.mapM_cons] at h ⊢
    simp only [rawPt, bind, Except.bind, pure, Except.pure] at h ⊢
    cases hk : rawKey x with
    | error e => simp [hk] at h
    | ok k =>
      cases hp : rawXyz x with
      | error e => simp [hk, hp] at h
      | ok p =>
        cases hr : xs.mapM rawPt with
        | error e => simp [hk, hp, hr] at h
        | ok R =>
          simp only [hk, hp, hr, Except.ok.injEq] at h
          subst h
          simp [mapM_rawPt_keys xs R hr]

theorem rawKeys_of_rawPts {lines : List Str} {L : List Pt} (h : rawPts lines = .ok L) : rawKeys lines = .ok (L.map (·.1)) :=
  mapM_rawPt_keys _ _ h

end Proofs.Rmsd
