/-
  `pdb2sql.__call__` with NO parameter left: the translated `__call__` (Gen/ParseLoop.lean, `GenP.call`) over the translated
  `sql2pdb` / `data2pdb` (Gen/Fx.lean, `GenF.sql2pdb`, fxTie) over the table model's `get` (`Model.get`, whose SQL text tie is
  Props/C03K), with the translated `__init__` / `_create_table` / `read_pdb` inside, IS `Model.derive Model.textRoundtrip w (.deriveSub k kw)`
  as database objects.  `modelGet` is `Model.get` at the type `GenF.sql2pdb` expects of `self.get` (rows of the 14 standard
  attributes as atoms; exception classes mapped).
-/
import PdbVerif.Proofs.GenParseCall
import PdbVerif.Proofs.GenFxFiles
import PdbVerif.Props.C15

set_option linter.unusedVariables false
set_option linter.unusedSimpArgs false

namespace Proofs.GenParse
open Py Tbl

/-- the exception classes of the table layer seen by the string layer -/
def pyErrOf : Model.Err → Err
  | .valueError => .valueError
  | .typeError => .typeError
  | .indexError => .indexError
  | .tooManyVars => .tooManyVars
  | e => .unmodelled e.tag

/-- a row of the 14 standard attributes, in column order, as an atom -/
def atomOfVals : List Tbl.Val → Option Py.Atom
  | [.int serial, .text name, .text altLoc, .text resName, .text chainID, .int resSeq, .text iCode,
     .real x, .real y, .real z, .real occ, .real temp, .text element, .int model] =>
    some { serial, name, altLoc, resName, chainID, resSeq, iCode, x, y, z, occ, temp, element, model }
  | _ => none

def atomOfItem : Tbl.Item → Except Err Py.Atom
  | .many vs => (match atomOfVals vs with | some a => .ok a | none => .error (.unmodelled "row shape"))
  | .one _ => .error (.unmodelled "row shape")

/-- `self.get(columns, tablename=tn, **kw)` of the table model (`Model.get`) at the type the translated `sql2pdb` expects -/
def modelGet (db : Db) (cols tn : Str) (kw : List Kw) : Except Err (List Py.Atom) :=
  match Model.get db cols tn kw with
  | .error e => .error (pyErrOf e)
  | .ok (.models _) => .error (.unmodelled "per-model answer")
  | .ok (.data items) => items.mapM atomOfItem

/-- **`db(**kw)` = `Model.derive Model.textRoundtrip w (.deriveSub k kw)`, nothing left as a parameter**: translated `__call__`, translated
    `sql2pdb` / `data2pdb`, `self.get` = `Model.get`.  `hget` says that `get` of all columns returns the atoms `Model.exportRows`
    selects (the reading of `sql2pdb` that Model/TableWorld.lean states; discharged by `modelGet_all_columns` below on well-formed
    single-model databases); export and parse succeed as in `genp_call_eq_derive` -/
theorem genp_call_closed (fs : GenP.Rt.FS) (w : Model.World) (k : Nat) (o : Tbl.Obj) (hw : w[k]? = some o) (hk : o.kind = .single)
    (t0 : Tbl.Tab) (rest : List Tbl.Tab) (ht : o.db.tabs = t0 :: rest) (hc : clean t0.name = t0.name) (kw : List Tbl.Kw)
    (T : Tbl.Table) (lines : List Str) (prows : List Py.Row)
    (hexp : Model.exportRows o.db t0.name kw = Except.ok T)
    (hget : modelGet o.db Proofs.GenFx.sql2pdbCols t0.name kw = Except.ok (T.map (·.atom)))
    (hl : T.mapM (fun r => Gen.data2pdb_line r.atom) = Except.ok lines)
    (hp : Model.parse lines = Except.ok prows) :
    asObj (GenP.call fs (o.db.tabs.map (·.name)) (fun tn => GenF.sql2pdb (modelGet o.db) tn kw)) =
      Model.derive Model.textRoundtrip w (.deriveSub k kw) := by
  apply genp_call_eq_derive fs w k o hw hk t0 rest ht hc kw _ T lines prows hexp _ hl hp
  show GenF.sql2pdb (modelGet o.db) t0.name kw = _
  rw [Proofs.GenFx.genf_sql2pdb_eq_model, hget, ok_bind, Model.data2pdb, List.mapM_map]
  rfl


/-! ### `hget` on well-formed single-model databases -/

theorem resolve_std (extra : List Str) (c : StdCol) : resolve extra (Py.strip c.pyName) = some (.std c) := by
  have hs : Py.strip c.pyName = c.pyName := by cases c <;> decide
  rw [hs]
  unfold resolve
  rw [if_neg (TableProofs.stdNames_facts.2.2.2.1 c), TableProofs.stdNames_facts.2.2.1 c]

theorem colsOf_all (extra : List Str) : Spec.colsOf extra Proofs.GenFx.sql2pdbCols = some (StdCol.all.map Col.std) := by
  rw [Proofs.GenFx.sql2pdbCols_eq]
  have e0 : "serial,name,altLoc,resName,chainID,resSeq,iCode,x,y,z,occ,temp,element,model".toList ≠ "*".toList := by decide
  have e2 : Py.splitOn ',' "serial,name,altLoc,resName,chainID,resSeq,iCode,x,y,z,occ,temp,element,model".toList =
      StdCol.all.map StdCol.pyName := by decide
  rw [Spec.colsOf, if_neg e0, e2]
  simp [StdCol.all, resolve_std]

theorem atomOfItem_project (rp : Tbl.Row × Nat) : atomOfItem (Spec.project (StdCol.all.map Col.std) rp) = Except.ok rp.1.atom := by
  obtain ⟨r, i⟩ := rp
  rfl

/-- on a well-formed single-model database, for keywords that name columns and without over-long lists: `get` of all columns
    returns exactly the atoms `Model.exportRows` selects -/
theorem modelGet_all_columns (db : Db) (hwf : TableProofs.WF db) (tn : Str) (tab : Tab) (htab : Model.findTab db tn = some tab)
    (kw : List Kw) (hk : TableProofs.KeysOK db kw) (hr : TableProofs.RowIDInts kw) (hnm : db.nModel = 0)
    (hmany : Spec.tooMany Gen.max_sql_values Gen.SQLITE_LIMIT_VARIABLE_NUMBER kw = false) :
    ∃ T, Model.exportRows db tn kw = Except.ok T ∧
      modelGet db Proofs.GenFx.sql2pdbCols tn kw = Except.ok (T.map (·.atom)) := by
  obtain ⟨q, hq⟩ := TableProofs.mapM_condOf_ok db kw hk
  obtain ⟨rows, hs, he⟩ := Props.C15.export_is_selection db hwf tn tab htab kw hk hr hnm hmany
  have hrows : rows = (Spec.selected db.extra tab.rows q).map (·.1) := by
    unfold Spec.snapshotRows at hs
    have : (kw.mapM (Spec.condOf (db.extra.map (·.name)))) = some q := hq
    rw [this] at hs
    injection hs with hs; exact hs.symm
  refine ⟨rows, he, ?_⟩
  have hok : TableProofs.ColsOK db.extraNames Proofs.GenFx.sql2pdbCols = true :=
    TableProofs.colsOK_mono _ _ (by rw [Proofs.GenFx.sql2pdbCols_eq]; decide)
  have htable : db.table? tn = some tab.rows := by rw [TableProofs.findTab_table?, htab]; rfl
  have hget := TableProofs.spec_get_eq db tab.rows Proofs.GenFx.sql2pdbCols kw _ q (colsOf_all db.extraNames) hq
  unfold modelGet
  rw [TableProofs.get_full db hwf tn tab htab _ hok kw hk hr]
  simp only [Spec.getOn, htable, hnm, Nat.lt_irrefl, decide_false, Bool.and_false, Bool.false_eq_true, if_false,
    Spec.answerOne, hget, hmany, TableProofs.toResult]
  rw [List.mapM_map, hrows, List.map_map]
  apply TableProofs.except_mapM_ok
  intro rp _
  exact atomOfItem_project rp

/-- **`db(**kw)` = `Model.derive Model.textRoundtrip w (.deriveSub k kw)`** with nothing left as a parameter and `hget` discharged:
    for every world, object `k` (single-structure, well-formed, single-model, first table named by the library), keyword
    dictionary that names columns without over-long lists — when the export and the parse of the exported lines succeed -/
theorem genp_call_closed_wf (fs : GenP.Rt.FS) (w : Model.World) (k : Nat) (o : Tbl.Obj) (hw : w[k]? = some o) (hk : o.kind = .single)
    (t0 : Tbl.Tab) (rest : List Tbl.Tab) (ht : o.db.tabs = t0 :: rest) (hc : clean t0.name = t0.name) (kw : List Tbl.Kw)
    (hwf : TableProofs.WF o.db) (hkeys : TableProofs.KeysOK o.db kw) (hr : TableProofs.RowIDInts kw) (hnm : o.db.nModel = 0)
    (hmany : Spec.tooMany Gen.max_sql_values Gen.SQLITE_LIMIT_VARIABLE_NUMBER kw = false)
    (T : Tbl.Table) (lines : List Str) (prows : List Py.Row)
    (hexp : Model.exportRows o.db t0.name kw = Except.ok T)
    (hl : T.mapM (fun r => Gen.data2pdb_line r.atom) = Except.ok lines)
    (hp : Model.parse lines = Except.ok prows) :
    asObj (GenP.call fs (o.db.tabs.map (·.name)) (fun tn => GenF.sql2pdb (modelGet o.db) tn kw)) =
      Model.derive Model.textRoundtrip w (.deriveSub k kw) := by
  have htab : Model.findTab o.db t0.name = some t0 := by
    unfold Model.findTab
    rw [ht]
    simp [Model.ciEq]
  obtain ⟨T', he, hg⟩ := modelGet_all_columns o.db hwf t0.name t0 htab kw hkeys hr hnm hmany
  rw [hexp] at he
  injection he with he
  subst he
  exact genp_call_closed fs w k o hw hk t0 rest ht hc kw T lines prows hexp hg hl hp

end Proofs.GenParse
