/-
  The translated zone computations (Gen/Rmsd.lean: `GenR.compute_lzone`, `GenR.compute_izone`, regenerated from
  StructureSimilarity.py on every run) ARE the hand models `Model.Rmsd.computeLzone` / `computeIzone` + `zoneOfResidues`
  (Model/RmsdCommon.lean), and the file they write is the model's `zoneText`, for every table, cutoff, `save_file` flag and file
  name.  `pdb2sql(self.ref)` / `interface(self.ref)` (the parser) and `get_contact_atoms(cutoff, extend_to_residue=True, chain1,
  chain2)` are parameters; the returned effect is the list of files written.
-/
import PdbVerif.Proofs.GenRmsdLines
import PdbVerif.Proofs.GenContacts
import PdbVerif.Proofs.RmsdBasic

set_option linter.unusedVariables false
set_option linter.unusedSimpArgs false
set_option linter.unusedSectionVars false
set_option linter.unusedTactic false

namespace Proofs.GenRmsd
open Py Model Model.Rmsd

/-! ### pieces -/

theorem rtMapM_eq {α β : Type} (f : α → Except Err β) : ∀ l : List α, Py.Rt.mapM f l = l.mapM f
  | [] => rfl
  | x :: xs => by
    rw [List.mapM_cons]
    simp only [Py.Rt.mapM, rtMapM_eq f xs]
    cases f x with
    | error e => rfl
    | ok y => cases xs.mapM f <;> rfl

theorem zone_lines_eq (d : List (Str × Int)) : Py.Rt.mapM Gen.zone_line_of d = zoneText d := by
  rw [rtMapM_eq]; rfl

theorem sorted_set_cr (l : List (Str × Int)) : Py.Rt.sorted (Py.Rt.set l) = sortedResidues l := by
  have h : (Py.Rt.PyOrd.lt : Str × Int → Str × Int → Bool) = crLt := by funext a b; exact pyLt_cr a b
  rw [Proofs.GenContacts.sorted_set (by rw [h]; exact Proofs.Rmsd.strictTotal_crLt), h]
  rfl

/-- the file name `_write_zone` is given: the argument, or `self.ref.split('.')[0] + ext` -/
def zoneFileName (ref ext : Str) (filename : Option Str) : Except Err Str :=
  match filename with
  | some f => .ok f
  | none => Py.Rt.getItem (Py.splitOn '.' ref) 0 >>= fun s => .ok (s ++ ext)

/-- the files written: none, or one with the model's text -/
def zoneWrites (save : Bool) (ref ext : Str) (filename : Option Str) (d : List (Str × Int)) : Except Err (List GenR.Rt2.Write) :=
  if save = true then zoneFileName ref ext filename >>= fun fn => zoneText d >>= fun ls => .ok [(fn, ls)] else .ok []

/-- one turn of `for res in data_test: … resData[chain].append(num)` with the effect log carried along -/
theorem create_append_pair {ω : Type} (d : Zone) (k : Str) (x : Int) (w : ω) :
    ((if (!Py.Dict.contains d k) = true then (Except.ok (Py.Dict.setItem d k [], w) : Except Err _) else Except.ok (d, w)) >>= fun j =>
        Py.Dict.getItem j.1 k >>= fun t => Except.ok (Py.Dict.setItem j.1 k (t ++ [x]), j.2))
      = Except.ok ((Model.Dict.setDefault d k []).extend k [x], w) := by
  rw [contains_eq]
  cases h : Model.Dict.contains d k
  · simp only [Bool.not_false, if_true, ok_bind, setItem_absent d k [] h]
    rw [getItem_getD _ _ (contains_setDefault d k []), ok_bind, setItem_getD_append _ _ _ (contains_setDefault d k [])]
  · simp only [Bool.not_true, Bool.false_eq_true, if_false, ok_bind, setDefault_present d k [] h]
    rw [getItem_getD _ _ h, ok_bind, setItem_getD_append _ _ _ h]

/-- the same turn written `resData.setdefault(chain, []).append(num)` -/
theorem setdefault_append_pair {ω : Type} (d : Zone) (k : Str) (x : Int) (w : ω) :
    (Py.Dict.getItem (Py.Dict.setdefault d k []) k >>= fun t =>
        (Except.ok (Py.Dict.setItem (Py.Dict.setdefault d k []) k (t ++ [x]), w) : Except Err _))
      = Except.ok ((Model.Dict.setDefault d k []).extend k [x], w) := by
  rw [setdefault_eq, getItem_getD _ _ (contains_setDefault d k []), ok_bind, setItem_getD_append _ _ _ (contains_setDefault d k [])]

/-- one turn of the dictionary loop, in either spelling -/
macro "zone_step" : tactic =>
  `(tactic| first | exact create_append_pair _ _ _ _ | exact setdefault_append_pair _ _ _ _)

theorem foldl_zone_pair {ω : Type} (w : ω) : ∀ (l : List (Str × Int)) (d : Zone),
    l.foldl (fun (acc : Zone × ω) res => ((Model.Dict.setDefault acc.1 res.1 []).extend res.1 [res.2], acc.2)) (d, w)
      = (l.foldl (fun (d : Zone) res => (d.setDefault res.1 []).extend res.1 [res.2]) d, w)
  | [], d => rfl
  | r :: l, d => by simp only [List.foldl_cons]; exact foldl_zone_pair w l _

/-- the dictionary loop of both zone computations -/
theorem zone_loop {ω : Type} (step : Zone × ω → Str × Int → Except Err (Zone × ω))
    (hstep : ∀ acc res, step acc res = Except.ok ((Model.Dict.setDefault acc.1 res.1 []).extend res.1 [res.2], acc.2))
    (d : List (Str × Int)) (w : ω) :
    List.foldlM step (([] : Zone), w) d = Except.ok (zoneOfResidues d, w) := by
  rw [foldlM_congr hstep, foldlM_pure, foldl_zone_pair]
  rfl

theorem getItem_two {α : Type} (a b : α) : Py.Rt.getItem [a, b] 0 = .ok a ∧ Py.Rt.getItem [a, b] 1 = .ok b := ⟨rfl, rfl⟩

/-! ### `compute_lzone` -/

theorem genr_compute_lzone_eq_model (p2s : Str → Except Err (List Atom)) (ref : Str) (save : Bool) (filename : Option Str) :
    GenR.compute_lzone p2s ref save filename =
      p2s ref >>= fun t => computeLzone t >>= fun d =>
        zoneWrites save ref ".lzone".toList filename d >>= fun w => Except.ok (zoneOfResidues d, w) := by
  unfold GenR.compute_lzone
  apply bind_congr'; intro t
  simp only [Proofs.GenContacts.get_chains_eq_model, computeLzone]
  rcases hch : getChains t with _ | ⟨c0, _ | ⟨c1, _ | ⟨c2, rest⟩⟩⟩
  · simp [throw_eq_error, error_bind]
  · simp [throw_eq_error, error_bind]
  · simp only [List.length_cons, List.length_nil, ne_eq, decide_not, Nat.reduceAdd, decide_true, Bool.not_true,
      Bool.false_eq_true, if_false, (getItem_two c0 c1).1, (getItem_two c0 c1).2, ok_bind, pure_eq_ok, sorted_set_cr,
      zone_lines_eq, Py.Tbl.select, List.length_map, List.map_map, List.map_id', Py.Dict.empty, Function.comp_def]
    have hsel : ∀ c, (List.filter (fun r : Py.Tbl.IRow => decide (r.1.chainID = c)) t.zipIdx) = chainRows t c := fun c => rfl
    simp only [hsel]
    by_cases hlt : (chainRows t c0).length < (chainRows t c1).length
    · simp only [hlt, decide_true, if_true, ok_bind]
      cases save
      · simp only [Bool.false_eq_true, if_false, ok_bind, zoneWrites]
        rw [zone_loop _ (fun acc res => by zone_step)]
        rfl
      · simp only [if_true, zoneWrites, zoneFileName]
        cases filename <;> (try simp only [bind_assoc, ok_bind]) <;> (repeat (apply bind_congr'; intro _)) <;>
          ((try simp only [ok_bind]); rw [zone_loop _ (fun acc res => by zone_step)]; rfl)
    · simp only [hlt, decide_false, Bool.false_eq_true, if_false, ok_bind]
      cases save
      · simp only [Bool.false_eq_true, if_false, ok_bind, zoneWrites]
        rw [zone_loop _ (fun acc res => by zone_step)]
        rfl
      · simp only [if_true, zoneWrites, zoneFileName]
        cases filename <;> (try simp only [bind_assoc, ok_bind]) <;> (repeat (apply bind_congr'; intro _)) <;>
          ((try simp only [ok_bind]); rw [zone_loop _ (fun acc res => by zone_step)]; rfl)
  · simp [throw_eq_error, error_bind]

/-! ### `compute_izone` -/

theorem foldl_concat_pair {ω κ : Type} (w : ω) : ∀ (l : List (κ × List Nat)) (acc : List Nat),
    l.foldl (fun (a : List Nat × ω) it => (a.1 ++ it.2, a.2)) (acc, w) = (acc ++ l.flatMap (·.2), w)
  | [], acc => by simp
  | x :: l, acc => by simp only [List.foldl_cons, List.flatMap_cons, foldl_concat_pair w l, List.append_assoc]

theorem foldl_concat_pair_values {ω κ : Type} (w : ω) : ∀ (l : List (κ × List Nat)) (acc : List Nat),
    (l.map (·.2)).foldl (fun (a : List Nat × ω) v => (a.1 ++ v, a.2)) (acc, w) = (acc ++ l.flatMap (·.2), w)
  | [], acc => by simp
  | x :: l, acc => by simp only [List.map_cons, List.foldl_cons, List.flatMap_cons, foldl_concat_pair_values w l, List.append_assoc]

/-- `compute_izone` on a table, with the contact routine as a parameter -/
def computeIzoneWith (gca : List Atom → Rat → Str → Str → Except Err (Model.Dict Str (List Nat))) (tref : List Atom) (cutoff : Rat) :
    Except Err (List (Str × Int)) :=
  match getChains tref with
  | [c0, c1] => gca tref cutoff c0 c1 >>= fun contact =>
      Except.ok (sortedResidues ((backboneRowsAt tref (flattenContacts contact)).map (fun r => (r.1.chainID, r.1.resSeq))))
  | _ => .error .valueError

/-- the model's `computeIzone` is the instance "contact routine = the contact model with the arguments of `compute_izone`" -/
theorem computeIzoneWith_model (tref : List Atom) (cutoff : Rat) :
    computeIzoneWith (fun t c c0 c1 => contactSets t (izoneArgs c c0 c1)) tref cutoff = computeIzone tref cutoff := by
  unfold computeIzoneWith computeIzone
  rcases getChains tref with _ | ⟨c0, _ | ⟨c1, _ | ⟨c2, rest⟩⟩⟩ <;> rfl

theorem genr_compute_izone_eq_model (p2s : Str → Except Err (List Atom))
    (gca : List Atom → Rat → Str → Str → Except Err (Model.Dict Str (List Nat)))
    (ref : Str) (cutoff : Rat) (save : Bool) (filename : Option Str) :
    GenR.compute_izone p2s gca ref cutoff save filename =
      p2s ref >>= fun t => computeIzoneWith gca t cutoff >>= fun d =>
        zoneWrites save ref ".izone".toList filename d >>= fun w => Except.ok (zoneOfResidues d, w) := by
  unfold GenR.compute_izone
  apply bind_congr'; intro t
  simp only [Proofs.GenContacts.get_chains_eq_model, computeIzoneWith]
  rcases hch : getChains t with _ | ⟨c0, _ | ⟨c1, _ | ⟨c2, rest⟩⟩⟩
  · simp [throw_eq_error, error_bind]
  · simp [throw_eq_error, error_bind]
  · simp only [List.length_cons, List.length_nil, ne_eq, decide_not, Nat.reduceAdd, decide_true, Bool.not_true,
      Bool.false_eq_true, if_false, (getItem_two c0 c1).1, (getItem_two c0 c1).2, ok_bind, pure_eq_ok, bind_assoc]
    apply bind_congr'; intro contact
    -- `for _, v in contact_ref.items()` or `for v in contact_ref.values()`
    first
      | rw [foldlM_congr (g := fun (a : List Nat × List GenR.Rt2.Write) (it : Str × List Nat) => Except.ok (a.1 ++ it.2, a.2)) (fun a it => rfl),
          foldlM_pure, Py.Dict.items, foldl_concat_pair]
      | rw [foldlM_congr (g := fun (a : List Nat × List GenR.Rt2.Write) (v : List Nat) => Except.ok (a.1 ++ v, a.2)) (fun a v => rfl),
          foldlM_pure, Py.Dict.values, foldl_concat_pair_values]
    simp only [ok_bind, List.nil_append, sorted_set_cr, zone_lines_eq, Py.Tbl.select, List.map_map, List.map_id',
      Py.Dict.empty, Function.comp_def]
    have hsel : List.filter (fun r : Py.Tbl.IRow => decide (r.2 ∈ List.flatMap (fun x => x.2) contact) &&
        decide (r.1.name ∈ GenC.backbone_atoms)) t.zipIdx = backboneRowsAt t (flattenContacts contact) := by
      unfold backboneRowsAt rowsAt flattenContacts
      rw [List.filter_filter]
      apply List.filter_congr
      intro r _
      simp only [List.contains_eq_mem, Proofs.GenContacts.backbone_atoms_eq_model, Bool.and_comm]
    simp only [hsel]
    cases save
    · simp only [Bool.false_eq_true, if_false, ok_bind, zoneWrites]
      rw [zone_loop _ (fun acc res => by zone_step)]
      rfl
    · simp only [if_true, zoneWrites, zoneFileName]
      cases filename <;> (try simp only [bind_assoc, ok_bind]) <;> (repeat (apply bind_congr'; intro _)) <;>
        ((try simp only [ok_bind]); rw [zone_loop _ (fun acc res => by zone_step)]; rfl)
  · simp [throw_eq_error, error_bind]

end Proofs.GenRmsd
