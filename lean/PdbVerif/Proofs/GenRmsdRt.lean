/-
  Runtime lemmas for the translated raw-line readers and fast routes (Gen/Rmsd.lean, namespace `GenR`): the `Except`
  monad, `List.foldlM` loops in "read, then update" form, the runtime dictionary (`Py.Dict`) against the hand model's
  (`Model.Dict`), Python's order on keys, and the two tactics every normal-form lemma of `Proofs/GenRmsd*.lean` is proved
  with (`except_norm` pushes binds inwards, `except_close` splits what is left).  Helper lemmas only.
-/
import PdbVerif.Gen.Rmsd
import PdbVerif.Model.RmsdFast

set_option linter.unusedVariables false
set_option linter.unusedSimpArgs false
set_option linter.unusedSectionVars false

namespace Proofs.GenRmsd
open Py Model Model.Rmsd

/-! ### the `Except` monad -/

theorem ok_bind {ε α β : Type} (a : α) (f : α → Except ε β) : (Except.ok a >>= f) = f a := rfl
theorem error_bind {ε α β : Type} (e : ε) (f : α → Except ε β) : ((Except.error e : Except ε α) >>= f) = Except.error e := rfl
theorem pure_eq_ok {ε α : Type} (a : α) : (pure a : Except ε α) = Except.ok a := rfl
theorem throw_eq_error {ε α : Type} (e : ε) : (throw e : Except ε α) = Except.error e := rfl
theorem bind_ok_eq {ε α : Type} (x : Except ε α) : (x >>= fun a => Except.ok a) = x := by cases x <;> rfl
theorem map_eq_bind {ε α β : Type} (f : α → β) (x : Except ε α) : f <$> x = x >>= fun a => Except.ok (f a) := by
  cases x <;> rfl
theorem exceptMap_eq_bind {ε α β : Type} (f : α → β) (x : Except ε α) : Except.map f x = x >>= fun a => Except.ok (f a) := by
  cases x <;> rfl

theorem ite_bind {ε α β : Type} (c : Prop) [Decidable c] (x y : Except ε α) (f : α → Except ε β) :
    ((if c then x else y) >>= f) = if c then x >>= f else y >>= f := by
  by_cases h : c <;> simp [h]

theorem ite_ok {ε α : Type} (c : Prop) [Decidable c] (a b : α) :
    (if c then (Except.ok a : Except ε α) else Except.ok b) = Except.ok (if c then a else b) := by
  by_cases h : c <;> simp [h]

theorem bind_congr' {ε α β : Type} {x : Except ε α} {f g : α → Except ε β} (h : ∀ a, f a = g a) : (x >>= f) = (x >>= g) := by
  have : f = g := funext h
  rw [this]

theorem foldlM_congr {σ α : Type} {f g : σ → α → Except Err σ} (h : ∀ s x, f s x = g s x) (init : σ) (l : List α) :
    List.foldlM f init l = List.foldlM g init l := by
  have : f = g := by funext s x; exact h s x
  rw [this]

/-- a loop that reads the selected elements and updates the accumulator with what was read =
    read all selected elements first (the first failure decides), then update -/
theorem foldlM_read {σ α β : Type} (p : α → Bool) (g : α → Except Err β) (upd : σ → β → σ) :
    ∀ (l : List α) (init : σ),
      List.foldlM (fun s x => if p x = true then (g x) >>= (fun b => Except.ok (upd s b)) else Except.ok s) init l
        = ((l.filter p).mapM g) >>= (fun bs => Except.ok (bs.foldl upd init))
  | [], init => by simp [pure_eq_ok, ok_bind]
  | x :: xs, init => by
    rw [List.foldlM_cons]
    by_cases hp : p x = true
    · simp only [hp, if_true, List.filter_cons_of_pos, List.mapM_cons]
      cases hg : g x with
      | error e => simp [error_bind]
      | ok b =>
        simp only [ok_bind, foldlM_read p g upd xs, bind_assoc, pure_eq_ok, List.foldl_cons]
    · simp only [hp, if_false, Bool.false_eq_true, ok_bind, foldlM_read p g upd xs]
      rw [List.filter_cons_of_neg hp]

/-- a loop whose body cannot fail is a `foldl` -/
theorem foldlM_pure {σ α : Type} (g : σ → α → σ) : ∀ (l : List α) (init : σ),
    List.foldlM (fun s x => (Except.ok (g s x) : Except Err σ)) init l = Except.ok (l.foldl g init)
  | [], init => rfl
  | x :: xs, init => by rw [List.foldlM_cons, ok_bind, foldlM_pure g xs]; rfl

/-! ### dictionaries: the runtime's operations are the model's -/

section dict
variable {κ ν : Type} [DecidableEq κ]

theorem contains_eq (d : List (κ × ν)) (k : κ) : Py.Dict.contains d k = Model.Dict.contains d k := by
  induction d with
  | nil => rfl
  | cons a d ih => simp only [Py.Dict.contains, Model.Dict.contains, ih]

theorem get?_eq (d : List (κ × ν)) (k : κ) : Py.Dict.get? d k = Model.Dict.get? d k := by
  induction d with
  | nil => rfl
  | cons a d ih => simp only [Py.Dict.get?, Model.Dict.get?, ih]

theorem setdefault_eq (d : List (κ × ν)) (k : κ) (v : ν) : Py.Dict.setdefault d k v = Model.Dict.setDefault d k v := by
  simp only [Py.Dict.setdefault, Model.Dict.setDefault, contains_eq]

/-- `d[k]` for a key that is present -/
theorem getItem_getD (d : List (κ × List ν)) (k : κ) (h : Model.Dict.contains d k = true) :
    Py.Dict.getItem d k = .ok (Model.Dict.getD d k) := by
  induction d with
  | nil => simp [Model.Dict.contains] at h
  | cons a d ih =>
    obtain ⟨k', v'⟩ := a
    by_cases hk : k' = k
    · simp [Py.Dict.getItem, Py.Dict.get?, Model.Dict.getD, hk]
    · simp only [Model.Dict.contains, hk, if_false] at h
      have := ih h
      simp only [Py.Dict.getItem, Py.Dict.get?, Model.Dict.getD, hk, if_false] at this ⊢
      exact this

/-- `if k not in d: d[k] = v` -/
theorem setItem_absent (d : List (κ × ν)) (k : κ) (v : ν) (h : Model.Dict.contains d k = false) :
    Py.Dict.setItem d k v = Model.Dict.setDefault d k v := by
  induction d with
  | nil => simp [Py.Dict.setItem, Model.Dict.setDefault, Model.Dict.contains]
  | cons a d ih =>
    obtain ⟨k', v'⟩ := a
    by_cases hk : k' = k
    · simp [Model.Dict.contains, hk] at h
    · simp only [Model.Dict.contains, hk, if_false] at h
      have := ih h
      simp only [Model.Dict.setDefault, h, Bool.false_eq_true, if_false] at this
      simp [Py.Dict.setItem, Model.Dict.setDefault, Model.Dict.contains, hk, h, this]

theorem setDefault_present (d : List (κ × ν)) (k : κ) (v : ν) (h : Model.Dict.contains d k = true) :
    Model.Dict.setDefault d k v = d := by
  simp [Model.Dict.setDefault, h]

theorem contains_append (d e : List (κ × ν)) (k : κ) :
    Model.Dict.contains (d ++ e) k = (Model.Dict.contains d k || Model.Dict.contains e k) := by
  induction d with
  | nil => simp [Model.Dict.contains]
  | cons a d ih =>
    obtain ⟨k', v'⟩ := a
    by_cases hk : k' = k <;> simp [Model.Dict.contains, hk, ih]

theorem contains_setDefault (d : List (κ × ν)) (k : κ) (v : ν) : Model.Dict.contains (Model.Dict.setDefault d k v) k = true := by
  by_cases h : Model.Dict.contains d k = true
  · simp [Model.Dict.setDefault, h]
  · simp [Model.Dict.setDefault, h, contains_append, Model.Dict.contains]

/-- `d[k].append(..)` for a key that is present: `d[k] = d[k] ++ l` -/
theorem setItem_getD_append (d : List (κ × List ν)) (k : κ) (l : List ν) (h : Model.Dict.contains d k = true) :
    Py.Dict.setItem d k (Model.Dict.getD d k ++ l) = Model.Dict.extend d k l := by
  induction d with
  | nil => simp [Model.Dict.contains] at h
  | cons a d ih =>
    obtain ⟨k', v'⟩ := a
    by_cases hk : k' = k
    · simp [Py.Dict.setItem, Model.Dict.getD, Model.Dict.extend, hk]
    · simp only [Model.Dict.contains, hk, if_false] at h
      simp [Py.Dict.setItem, Model.Dict.getD, Model.Dict.extend, hk, ih h]

/-- the create-if-missing-then-append idiom, in either spelling, is the model's `setDefault` + `extend` -/
theorem create_then_append (d : List (κ × List ν)) (k : κ) (x : ν) :
    (Py.Dict.getItem (Model.Dict.setDefault d k []) k >>= fun t =>
        (Except.ok (Py.Dict.setItem (Model.Dict.setDefault d k []) k (t ++ [x])) : Except Err _))
      = Except.ok (Model.Dict.extend (Model.Dict.setDefault d k []) k [x]) := by
  rw [getItem_getD _ _ (contains_setDefault d k []), ok_bind, setItem_getD_append _ _ _ (contains_setDefault d k [])]

theorem ite_not_contains_setItem (d : List (κ × ν)) (k : κ) (v : ν) :
    (if (!Py.Dict.contains d k) = true then Py.Dict.setItem d k v else d) = Model.Dict.setDefault d k v := by
  rw [contains_eq]
  cases h : Model.Dict.contains d k
  · simp [setItem_absent d k v h]
  · simp [setDefault_present d k v h]

end dict

/-! ### the two tactics of the normal-form lemmas -/

/-- push binds through `if`s and `ok`s: afterwards a generated body is a tree of `if`s whose leaves are `Except.ok _`,
    `Except.error _` or `atom >>= fun x => tree` -/
macro "except_norm" : tactic =>
  `(tactic| simp only [bind_assoc, ok_bind, error_bind, pure_eq_ok, throw_eq_error, ite_bind, decide_eq_true_eq, id,
      contains_eq, setdefault_eq, Bool.not_eq_true', Bool.and_eq_true, Bool.or_eq_true, bind_ok_eq])

/-- strip the common prefix of two `do` blocks (same atoms in the same order) before any `if` is pushed through a bind -/
macro "except_pre" : tactic =>
  `(tactic| (simp only [bind_assoc, ok_bind, error_bind, pure_eq_ok, throw_eq_error, decide_eq_true_eq, bind_ok_eq, id,
      contains_eq, setdefault_eq]
             repeat (first | (with_reducible rfl) | (with_reducible apply bind_congr'; intro _))))

/-- close an equation between two such trees: same atoms in the same order, conditions decided branch by branch -/
macro "except_close" : tactic =>
  `(tactic| repeat' (first
      | (with_reducible rfl)
      | (with_reducible apply bind_congr'; intro _)
      | (split <;> try simp_all only [getItem_getD, ok_bind, error_bind, if_true, if_false, Bool.false_eq_true, reduceCtorEq])))

/-! ### the zone split as a loop -/

/-- what one selected record does to the two lists of the zone readers:
    ```
    if atname in name:
        if chainID in resData.keys():
            if resSeq in resData[chainID]: in_zone.append(·)
        else: not_in_zone.append(·)
    ``` -/
def splitUpd {β : Type} (keyOfB : β → Key) (zone : Zone) (names : List Str) (acc : List β × List β) (b : β) :
    List β × List β :=
  if (keyOfB b).2.2 ∈ names then
    if Model.Dict.contains zone (keyOfB b).1 = true then
      if (keyOfB b).2.1 ∈ Model.Dict.getD zone (keyOfB b).1 then (acc.1 ++ [b], acc.2) else acc
    else (acc.1, acc.2 ++ [b])
  else acc

theorem foldl_splitUpd {β : Type} (keyOfB : β → Key) (zone : Zone) (names : List Str) :
    ∀ (l : List β) (acc : List β × List β),
      l.foldl (splitUpd keyOfB zone names) acc
        = (acc.1 ++ (zoneSplit keyOfB zone names l).1, acc.2 ++ (zoneSplit keyOfB zone names l).2)
  | [], acc => by simp [zoneSplit]
  | b :: l, acc => by
    rw [List.foldl_cons, foldl_splitUpd keyOfB zone names l]
    simp only [zoneSplit, splitUpd, Zone.has, List.filter_cons]
    by_cases h1 : (keyOfB b).2.2 ∈ names
    · by_cases h2 : Model.Dict.contains zone (keyOfB b).1 = true
      · by_cases h3 : (keyOfB b).2.1 ∈ Model.Dict.getD zone (keyOfB b).1
        · simp [h1, h2, h3]
        · simp [h1, h2, h3]
      · simp [h1, h2]
    · simp [h1]

theorem foldl_splitUpd_nil {β : Type} (keyOfB : β → Key) (zone : Zone) (names : List Str) (l : List β) :
    l.foldl (splitUpd keyOfB zone names) ([], []) = zoneSplit keyOfB zone names l := by
  rw [foldl_splitUpd]; simp

/-! ### Python's order on strings and key tuples -/

theorem strLt_eq_decide : ∀ a b : Str, strLt a b = decide (a < b)
  | [], [] => by simp [strLt]
  | [], _ :: _ => by simp [strLt]
  | _ :: _, [] => by simp [strLt]
  | a :: as, b :: bs => by
    simp only [strLt, strLt_eq_decide as bs, List.cons_lt_cons_iff]
    by_cases h1 : a < b <;> by_cases h2 : a = b <;> simp [h1, h2]

theorem pyLt_key (a b : Key) : Py.Rt.PyOrd.lt a b = keyLt a b := by
  simp only [Py.Rt.PyOrd.lt, keyLt, strLt_eq_decide]

theorem pyLt_cr (a b : Str × Int) : Py.Rt.PyOrd.lt a b = crLt a b := by
  simp only [Py.Rt.PyOrd.lt, crLt, strLt_eq_decide]

theorem insertBy_eq {β : Type} (x : Key × β) (l : List (Key × β)) :
    GenR.Rt2.insertBy Py.Rt.PyOrd.lt x l = insertByKey x l := by
  induction l with
  | nil => rfl
  | cons y ys ih => simp only [GenR.Rt2.insertBy, insertByKey, pyLt_key, ih]

theorem sortByFst_eq {β : Type} (l : List (Key × β)) : GenR.Rt2.sortByFst l = sortByKey l := by
  induction l with
  | nil => rfl
  | cons x xs ih => simp only [GenR.Rt2.sortByFst, sortByKey, ih, insertBy_eq]

end Proofs.GenRmsd
