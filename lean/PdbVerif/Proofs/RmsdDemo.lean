/-
  A concrete two-chain complex and an incomplete, displaced decoy (exact rationals) used by the non-vacuity examples of
  Props/C07.lean and Props/C11.lean: the hypotheses of the theorems hold on it and the routines return values.
-/
import PdbVerif.Proofs.RmsdInv

namespace Proofs.Rmsd.Demo
open Py Model Model.Rmsd

def refLines : List Str := [
  "ATOM      1  N   ALA A   1       0.000   0.000   0.000  1.00  0.00           N  ".toList,
  "ATOM      2  CA  ALA A   1       1.500   0.500   0.000  1.00  0.00           C  ".toList,
  "ATOM      3  CB  ALA A   1       1.500   2.000   0.000  1.00  0.00           C  ".toList,
  "ATOM      4  N   GLY B   7       3.000   4.000   0.000  1.00  0.00           N  ".toList,
  "ATOM      5  CA  GLY B   7       4.500   4.500   0.000  1.00  0.00           C  ".toList]

/-- the reference's records in another order, one atom (CB) missing, coordinates displaced -/
def decLines : List Str := [
  "ATOM      9  CA  GLY B   7       4.500   4.500   1.000  0.50 20.00           C  ".toList,
  "ATOM      8  N   GLY B   7       3.000   4.250   1.000  0.50 20.00           N  ".toList,
  "ATOM      2  CA  ALA A   1       1.500   0.500   1.000  1.00  0.00           C  ".toList,
  "ATOM      1  N   ALA A   1       0.000   0.000   1.500  1.00  0.00           N  ".toList]

def mkAtom (serial : Int) (name resName chain : String) (resSeq : Int) (x y z occ temp : Rat) (el : String) : Atom :=
  { serial := serial, name := name.toList, altLoc := [], resName := resName.toList, chainID := chain.toList, resSeq := resSeq,
    iCode := [], x := x, y := y, z := z, occ := occ, temp := temp, element := el.toList, model := 0 }

def ref : List Atom := [
  mkAtom 1 "N" "ALA" "A" 1 0 0 0 1 0 "N", mkAtom 2 "CA" "ALA" "A" 1 (3/2) (1/2) 0 1 0 "C", mkAtom 3 "CB" "ALA" "A" 1 (3/2) 2 0 1 0 "C",
  mkAtom 4 "N" "GLY" "B" 7 3 4 0 1 0 "N", mkAtom 5 "CA" "GLY" "B" 7 (9/2) (9/2) 0 1 0 "C"]

def dec : List Atom := [
  mkAtom 9 "CA" "GLY" "B" 7 (9/2) (9/2) 1 (1/2) 20 "C", mkAtom 8 "N" "GLY" "B" 7 3 (17/4) 1 (1/2) 20 "N",
  mkAtom 2 "CA" "ALA" "A" 1 (3/2) (1/2) 1 1 0 "C", mkAtom 1 "N" "ALA" "A" 1 0 0 (3/2) 1 0 "N"]

end Proofs.Rmsd.Demo
