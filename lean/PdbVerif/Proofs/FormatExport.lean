/-
  Helper lemmas for C02: the text written by `exportpdb` (`Model.exportText`) read back line by line, appended
  exports, and a whole table through a file.  Helper lemmas only.
-/
import Mathlib.Tactic.Linarith
import PdbVerif.Model.Export
import PdbVerif.Proofs.ParseRows
import PdbVerif.Proofs.Parse
import PdbVerif.Proofs.FormatRoundtrip

set_option linter.unusedSimpArgs false
set_option linter.unusedVariables false

namespace Proofs.Export
open Py Proofs.ParseRows

theorem readlinesAux_line (l rest cur : Str) (h : '\n' ∉ l) :
    Model.readlinesAux (l ++ '\n' :: rest) cur = (cur.reverse ++ l ++ ['\n']) :: Model.readlinesAux rest [] := by
  induction l generalizing cur with
  | nil => simp [Model.readlinesAux]
  | cons c r ih =>
    have hc : c ≠ '\n' := fun e => h (by simp [e])
    have hr : '\n' ∉ r := fun e => h (by simp [e])
    rw [List.cons_append, Model.readlinesAux]
    simp only [hc, if_false]
    rw [ih _ hr]; simp

theorem exportText_cons (l : Str) (ls : List Str) : Model.exportText (l :: ls) = l ++ '\n' :: Model.exportText ls := by
  simp [Model.exportText]

theorem exportText_append (a b : List Str) : Model.exportText (a ++ b) = Model.exportText a ++ Model.exportText b := by
  simp [Model.exportText]

/-- reading the written text line by line gives back the lines, each with its terminator -/
theorem readlines_exportText (ls : List Str) (h : ∀ l ∈ ls, '\n' ∉ l) :
    Model.readlines (Model.exportText ls) = ls.map (· ++ ['\n']) := by
  unfold Model.readlines
  induction ls with
  | nil => rfl
  | cons l rest ih =>
    rw [exportText_cons, readlinesAux_line _ _ _ (h l (by simp)), ih (fun x hx => h x (by simp [hx]))]
    simp

theorem firstLine_terminated (l : Str) (h : '\n' ∉ l) : Model.firstLine (l ++ ['\n']) = Model.firstLine l :=
  firstLine_append_nl l h

theorem parse_terminated (ls : List Str) (h : ∀ l ∈ ls, '\n' ∉ l) :
    Model.parse (ls.map (· ++ ['\n'])) = Model.parse ls := by
  unfold Model.parse
  rw [← parseLines_congr_firstLine (ls.map (· ++ ['\n'])), ← parseLines_congr_firstLine ls, List.map_map]
  congr 1
  apply List.map_congr_left
  intro l hl
  exact firstLine_terminated l (h l hl)

/-- the table read from the written file is the table of the lines -/
theorem parse_readlines_exportText (ls : List Str) (h : ∀ l ∈ ls, '\n' ∉ l) :
    Model.parse (Model.readlines (Model.exportText ls)) = Model.parse ls := by
  rw [readlines_exportText ls h, parse_terminated ls h]

/-- an appended export never glues records -/
theorem parse_append_export (ls₁ ls₂ : List Str) (h₁ : ∀ l ∈ ls₁, '\n' ∉ l) (h₂ : ∀ l ∈ ls₂, '\n' ∉ l) :
    Model.parse (Model.readlines (Model.appendText (Model.exportText ls₁) ls₂)) = Model.parse (ls₁ ++ ls₂) := by
  unfold Model.appendText
  rw [← exportText_append]
  apply parse_readlines_exportText
  intro l hl
  rcases List.mem_append.mp hl with hl | hl
  · exact h₁ l hl
  · exact h₂ l hl

/-! ### a whole table through a file -/

/-- lines that all are ATOM records which read back to known rows, with no ENDMDL line: the rows in order -/
theorem parseLines_all_atoms (ls : List Str) (rows : List Row) (n : Int)
    (h : List.Forall₂ (fun l r => Py.startsWith l Gen.atom_prefix = true ∧ Model.parseAtomLine l n = .ok r) ls rows) :
    Model.parseLines ls n = .ok rows := by
  induction h with
  | nil => rfl
  | cons hd _ ih =>
    simp only [Model.parseLines, hd.1, if_true, hd.2, ih, bind, Except.bind, pure, Except.pure]

theorem export_isAtom (a : Atom) : Py.startsWith (Proofs.Line.exportPieces a).line Gen.atom_prefix = true := by
  simp [Py.startsWith, Proofs.Line.Pieces.line, Proofs.Line.Pieces.segs, Gen.atom_prefix, List.isPrefixOf]

/-- every row of a table that fits is written, and the lines read back (model number `n`) to the rounded rows -/
theorem data2pdb_lines (rows : List Atom)
    (h : ∀ a ∈ rows, Spec.Fits a ∧ a.chainID ≠ [] ∧ Spec.CoordInRange a.x ∧ Spec.CoordInRange a.y ∧ Spec.CoordInRange a.z)
    (n : Int) :
    ∃ ls, Model.data2pdb rows = .ok ls ∧ ls.length = rows.length ∧ (∀ l ∈ ls, l.length = 80 ∧ '\n' ∉ l) ∧
      List.Forall₂ (fun l r => Py.startsWith l Gen.atom_prefix = true ∧ Model.parseAtomLine l n = .ok r) ls
        (rows.map fun a => ({ Proofs.Line.readBack a with model := n }).toRow) := by
  unfold Model.data2pdb
  induction rows with
  | nil => exact ⟨[], rfl, rfl, by simp, List.Forall₂.nil⟩
  | cons a rest ih =>
    obtain ⟨hf, hch, hx, hy, hz⟩ := h a (by simp)
    obtain ⟨ls, hls, hlen, hall, hfa⟩ := ih (fun b hb => h b (by simp [hb]))
    refine ⟨(Proofs.Line.exportPieces a).line :: ls, ?_, by simp [hlen], ?_, ?_⟩
    · rw [List.mapM_cons, Proofs.Line.export_eq a hf hx hy hz, hls]; rfl
    · intro l hl
      rcases List.mem_cons.mp hl with hl | hl
      · subst hl
        exact ⟨Proofs.Line.line_length (Proofs.Line.export_wf a hf hx hy hz), Proofs.Line.export_no_nl a hf⟩
      · exact hall l hl
    · rw [List.map_cons]
      refine List.Forall₂.cons ⟨export_isAtom a, ?_⟩ hfa
      rw [Proofs.Parse.parseAtomLine_eq, Proofs.Line.parseRecord_export a hf hch hx hy hz]

end Proofs.Export
