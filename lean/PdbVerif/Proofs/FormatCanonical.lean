/-
  Helper lemmas for C02: canonical ATOM records (`Spec.Canonical`, Spec/C02Canonical.lean) are parsed and written back
  unchanged.  Helper lemmas only.
-/
import Mathlib.Tactic.Linarith
import Mathlib.Tactic.NormNum
import Mathlib.Tactic.FieldSimp
import Mathlib.Tactic.Ring
import Mathlib.Tactic.Positivity
import PdbVerif.Gen.Str
import PdbVerif.Model.Parse
import PdbVerif.Spec.C02Canonical
import PdbVerif.Proofs.Str
import PdbVerif.Proofs.Digits
import PdbVerif.Proofs.Format
import PdbVerif.Proofs.FormatXyz
import PdbVerif.Proofs.FormatLine
import PdbVerif.Proofs.FormatRoundtrip
import PdbVerif.Proofs.FormatReexport
import PdbVerif.Proofs.Parse

set_option linter.unusedSimpArgs false
set_option linter.unusedVariables false
set_option linter.unnecessarySeqFocus false

namespace Proofs.Canon
open Py

/-! ### digit strings are the digits of their value -/

theorem digitChar_digitVal (c : Char) (h : isDigit c = true) : digitChar (digitVal c) = c := by
  have := digit_cases c h
  simp only [List.mem_cons, List.not_mem_nil, or_false] at this
  rcases this with h | h | h | h | h | h | h | h | h | h <;> subst h <;> decide

theorem digitVal_lt (c : Char) (h : isDigit c = true) : digitVal c < 10 := by
  have := digit_cases c h
  simp only [List.mem_cons, List.not_mem_nil, or_false] at this
  rcases this with h | h | h | h | h | h | h | h | h | h <;> subst h <;> decide

theorem decDigits_zero : decDigits 0 = ['0'] := by rw [decDigits_lt 0 (by omega)]; rfl

theorem replicate_zero_snoc (n : Nat) : List.replicate n '0' ++ ['0'] = List.replicate (n + 1) '0' := by
  rw [List.replicate_succ']

/-- a digit string, zero-padded to its own length, is the digits of its value -/
theorem zeroPad_digits (fp : Str) (h : AllDigits fp) (hne : fp ≠ []) :
    zeroPad fp.length (decDigits (digitsVal fp)) = fp := by
  induction fp using List.reverseRecOn with
  | nil => exact absurd rfl hne
  | append_singleton s c ih =>
    have hc : isDigit c = true := h c (by simp)
    have hs : AllDigits s := fun d hd => h d (by simp [hd])
    have hd := digitVal_lt c hc
    rw [digitsVal_append_single]
    by_cases hse : s = []
    · subst hse
      have : digitsVal [] = 0 := rfl
      simp only [this, List.nil_append, List.length_singleton]
      rw [decDigits_lt _ (by omega)]
      simp [zeroPad, digitChar_digitVal c hc]
    · have ih' := ih hs hse
      by_cases hV : digitsVal s = 0
      · rw [hV] at ih' ⊢
        have hsz : s = List.replicate s.length '0' := by
          rw [decDigits_zero] at ih'
          unfold zeroPad at ih'
          simp only [List.length_singleton] at ih'
          have hl : 1 ≤ s.length := by cases s <;> simp_all
          rw [replicate_zero_snoc] at ih'
          have : s.length - 1 + 1 = s.length := by omega
          rw [this] at ih'
          exact ih'.symm
        rw [decDigits_lt _ (by omega)]
        simp only [Nat.zero_mul, Nat.zero_add, digitChar_digitVal c hc]
        unfold zeroPad
        simp only [List.length_append, List.length_singleton, Nat.add_sub_cancel]
        rw [← hsz]
      · have hge : ¬ (digitsVal s * 10 + digitVal c < 10) := by omega
        rw [decDigits_ge _ hge]
        have e1 : (digitsVal s * 10 + digitVal c) / 10 = digitsVal s := by omega
        have e2 : (digitsVal s * 10 + digitVal c) % 10 = digitVal c := by omega
        rw [e1, e2, digitChar_digitVal c hc]
        unfold zeroPad at ih' ⊢
        simp only [List.length_append, List.length_singleton, Nat.add_sub_add_right]
        rw [← List.append_assoc, ih']

theorem digitsVal_lt_pow (s : Str) (h : AllDigits s) (hne : s ≠ []) : digitsVal s < 10 ^ s.length := by
  by_contra hc
  push Not at hc
  have h1 := decDigits_length_ge s.length _ hc
  have h2 := zeroPad_digits s h hne
  have : (zeroPad s.length (decDigits (digitsVal s))).length = s.length := by rw [h2]
  unfold zeroPad at this
  simp at this
  omega

/-! ### canonical naturals and integers -/

theorem canonNat_facts (s : Str) (h : Spec.isCanonNat s = true) :
    AllDigits s ∧ s ≠ [] ∧ (s.length = 1 ∨ s.head? ≠ some '0') := by
  match s, h with
  | [c], h =>
    simp only [Spec.isCanonNat] at h
    exact ⟨fun d hd => by simp at hd; subst hd; exact h, by simp, Or.inl rfl⟩
  | c :: d :: r, h =>
    simp only [Spec.isCanonNat, Bool.and_eq_true, bne_iff_ne, ne_eq, List.all_eq_true] at h
    refine ⟨?_, by simp, Or.inr (by simp [h.1.2])⟩
    intro x hx
    rcases List.mem_cons.mp hx with hx | hx
    · subst hx; exact h.1.1
    · exact h.2 x hx

theorem decDigits_digitsVal (s : Str) (h : Spec.isCanonNat s = true) : decDigits (digitsVal s) = s := by
  obtain ⟨hd, hne, hhead⟩ := canonNat_facts s h
  have hz := zeroPad_digits s hd hne
  unfold zeroPad at hz
  have hpos := decDigits_length_pos (digitsVal s)
  by_cases hj : s.length - (decDigits (digitsVal s)).length = 0
  · rw [hj] at hz; simpa using hz
  · exfalso
    rcases hhead with h1 | h1
    · omega
    · apply h1
      obtain ⟨j, hj'⟩ := Nat.exists_eq_succ_of_ne_zero hj
      rw [hj', List.replicate_succ] at hz
      rw [← hz]; rfl

theorem canonInt_spec (t : Str) (h : Spec.isCanonInt t = true) : ∃ v, parseInt t = .ok v ∧ intStr v = t := by
  unfold Spec.isCanonInt at h
  split at h
  · rename_i r
    simp only [Bool.and_eq_true, bne_iff_ne, ne_eq] at h
    obtain ⟨hd, hne, _⟩ := canonNat_facts r h.1
    refine ⟨-(digitsVal r : Int), parseInt_neg_digits r hd hne, ?_⟩
    have hpos : digitsVal r ≠ 0 := by
      intro h0
      have := decDigits_digitsVal r h.1
      rw [h0, decDigits_zero] at this
      exact h.2 this.symm
    unfold intStr
    have : (-(digitsVal r : Int)) < 0 := by omega
    simp only [this, if_true]
    have : (-(digitsVal r : Int)).natAbs = digitsVal r := by omega
    rw [this, decDigits_digitsVal r h.1]
  · obtain ⟨hd, hne, _⟩ := canonNat_facts t h
    refine ⟨(digitsVal t : Int), parseInt_digits t hd hne, ?_⟩
    unfold intStr
    have : ¬ ((digitsVal t : Int) < 0) := by omega
    simp only [this, if_false]
    have : ((digitsVal t : Int)).natAbs = digitsVal t := by omega
    rw [this, decDigits_digitsVal t h]

/-! ### canonical fixed-point texts -/

theorem canonFixed_shape (k : Nat) (t : Str) (h : Spec.isCanonFixed k t = true) :
    ∃ (neg : Bool) (ip fp : Str), t = (if neg then ['-'] else []) ++ (ip ++ '.' :: fp) ∧ Spec.isCanonNat ip = true ∧
      fp.length = k ∧ AllDigits fp ∧ ¬ (neg = true ∧ ip = ['0'] ∧ ∀ c ∈ fp, c = '0') := by
  unfold Spec.isCanonFixed at h
  simp only [] at h
  generalize hneg : (t.head? == some '-') = neg at h
  generalize hbody : (if neg = true then t.drop 1 else t) = body at h
  have hsplit : body = body.takeWhile (· != '.') ++ body.dropWhile (· != '.') :=
    (List.takeWhile_append_dropWhile).symm
  split at h
  · rename_i fp hdw
    simp only [Bool.and_eq_true, beq_iff_eq, List.all_eq_true, Bool.not_eq_true', Bool.and_eq_false_iff,
      Bool.not_eq_eq_eq_not, Bool.not_true] at h
    obtain ⟨⟨⟨h1, h2⟩, h3⟩, h4⟩ := h
    refine ⟨neg, body.takeWhile (· != '.'), fp, ?_, h1, h2, h3, ?_⟩
    · rw [← hdw, ← hsplit, ← hbody]
      cases neg
      · simp
      · simp only [if_true]
        match t, hneg with
        | c :: r, hneg =>
          simp at hneg; subst hneg; simp
    · rintro ⟨a, b, c⟩
      subst a
      simp only [Bool.true_eq_false, false_or] at h4
      rcases h4 with h4 | h4
      · simp [b] at h4
      · rw [List.all_eq_false] at h4
        obtain ⟨x, hx, hx'⟩ := h4
        simp [c x hx] at hx'
  · simp at h

theorem canonFixed_spec (k : Nat) (hk : k ≠ 0) (t : Str) (h : Spec.isCanonFixed k t = true) :
    ∃ v, parseFloat t = .ok v ∧ fmtFixed v k = t ∧ t ≠ [] := by
  obtain ⟨neg, ip, fp, rfl, hip, hlen, hfp, hnz⟩ := canonFixed_shape k t h
  obtain ⟨hipd, hipne, _⟩ := canonNat_facts ip hip
  have hfpne : fp ≠ [] := by intro e; rw [e] at hlen; simp at hlen; omega
  have hp := pow10_cast_pos k
  -- the value
  have hm := parseMantissa_frac ip fp hipd hipne hfp hfpne
  rw [hlen, Rat.mkRat_eq_div] at hm
  obtain ⟨d, r0, hdr⟩ : ∃ d r0, ip = d :: r0 := by
    cases ip with
    | nil => exact absurd rfl hipne
    | cons d r => exact ⟨d, r, rfl⟩
  have hd : isDigit d = true := hipd d (by rw [hdr]; simp)
  have hb : ∀ c ∈ ip ++ '.' :: fp, c = '.' ∨ isDigit c = true := by
    intro c hc
    rcases List.mem_append.mp hc with hc | hc
    · exact Or.inr (hipd c hc)
    · rcases List.mem_cons.mp hc with hc | hc
      · exact Or.inl hc
      · exact Or.inr (hfp c hc)
  set I := digitsVal ip with hI
  set F := digitsVal fp with hF
  have hFlt : F < pow10 k := by
    have := digitsVal_lt_pow fp hfp hfpne
    rw [hlen] at this; exact this
  set q : ℚ := ((I : ℕ) : ℚ) + (((F : ℕ) : ℤ) : ℚ) / ((pow10 k : ℕ) : ℚ) with hq
  have hpf : parseFloat ((if neg then ['-'] else []) ++ (ip ++ '.' :: fp)) = .ok (if neg then -q else q) := by
    have := parseFloat_signed neg d (r0 ++ '.' :: fp) q hd (by rw [← List.cons_append, ← hdr]; exact hb)
      (by rw [← List.cons_append, ← hdr]; exact hm)
    rw [← List.cons_append, ← hdr] at this
    exact this
  refine ⟨_, hpf, ?_, by cases neg <;> simp [hdr]⟩
  -- printing it again
  have hqP : q * ((pow10 k : ℕ) : ℚ) = (((I * pow10 k + F : ℕ) : ℤ) : ℚ) := by
    rw [hq]; push_cast; field_simp
  have hq0 : 0 ≤ q := by rw [hq]; positivity
  have hqpos : (I ≠ 0 ∨ F ≠ 0) → 0 < q := by
    intro hor
    have : (0 : ℚ) < q * ((pow10 k : ℕ) : ℚ) := by
      rw [hqP]
      have : 0 < I * pow10 k + F := by
        rcases hor with h | h
        · have := pow10_pos k; positivity
        · omega
      exact_mod_cast this
    exact (mul_pos_iff_of_pos_right hp).mp this
  have hmk : ∀ v : ℚ, (v * ((pow10 k : ℕ) : ℚ) = (((I * pow10 k + F : ℕ) : ℤ) : ℚ) ∨
      v * ((pow10 k : ℕ) : ℚ) = ((-((I * pow10 k + F : ℕ) : ℤ) : ℤ) : ℚ)) →
      decDigits (fxI v k) ++ (if k = 0 then [] else '.' :: zeroPad k (decDigits (fxF v k))) = ip ++ '.' :: fp := by
    intro v hv
    have hM : fxM v k = I * pow10 k + F := by
      unfold fxM fxN
      rcases hv with hv | hv <;> rw [hv, roundHE_intCast] <;> omega
    have hIv : fxI v k = I := by
      unfold fxI; rw [hM, Nat.mul_comm, Nat.mul_add_div (pow10_pos k), Nat.div_eq_of_lt hFlt]; rfl
    have hFv : fxF v k = F := by
      unfold fxF; rw [hM, Nat.mul_comm, Nat.mul_add_mod, Nat.mod_eq_of_lt hFlt]
    have hz := zeroPad_digits fp hfp hfpne
    rw [hlen] at hz
    rw [hIv, hFv, hI, decDigits_digitsVal ip hip, hF, hz]
    simp only [hk, if_false]
  rw [fmtFixed_eq]
  cases neg
  · simp only [Bool.false_eq_true, if_false, List.nil_append]
    have : ¬ q < 0 := not_lt.mpr hq0
    simp only [this, if_false, List.nil_append]
    exact hmk q (Or.inl hqP)
  · simp only [if_true]
    have hor : I ≠ 0 ∨ F ≠ 0 := by
      by_contra hc
      push Not at hc
      apply hnz
      refine ⟨rfl, ?_, ?_⟩
      · have := decDigits_digitsVal ip hip
        rw [← hI, hc.1, decDigits_zero] at this; exact this.symm
      · have hz := zeroPad_digits fp hfp hfpne
        rw [← hF, hc.2, decDigits_zero] at hz
        intro c hc'
        rw [← hz] at hc'
        unfold zeroPad at hc'
        rcases List.mem_append.mp hc' with h | h
        · exact List.eq_of_mem_replicate h
        · simpa using h
    have hneg : -q < 0 := by linarith [hqpos hor]
    simp only [hneg, if_true]
    congr 1
    apply hmk
    right
    rw [neg_mul, hqP]; push_cast; ring

/-! ### fields of a canonical record -/

theorem rawCols_length (l : Str) (a b : Nat) (ha : 1 ≤ a) (hab : a ≤ b + 1) (hb : b ≤ l.length) :
    (Spec.rawCols l a b).length = b + 1 - a := by
  unfold Spec.rawCols; simp; omega

theorem rawCols_split (l : Str) (a b c : Nat) (ha : 1 ≤ a) (hab : a ≤ b + 1) (hbc : b ≤ c) (hc : c ≤ l.length) :
    Spec.rawCols l a c = Spec.rawCols l a b ++ Spec.rawCols l (b + 1) c := by
  unfold Spec.rawCols
  have h1 : l.take c = l.take b ++ (l.take c).drop b := by
    have := (List.take_append_drop b (l.take c)).symm
    rwa [List.take_take, Nat.min_eq_left hbc] at this
  rw [h1, List.drop_append_of_le_length (by simp; omega)]
  simp only [Nat.add_sub_cancel]
  congr 1
  rw [← h1]

theorem rightAligned_eq (f : Str) (h : Spec.rightAligned f = true) : rjust f.length (strip f) = f := by
  unfold Spec.rightAligned at h
  simp only [beq_iff_eq] at h
  unfold rjust spaces
  exact h.symm

theorem intField_spec (f : Str) (h : Spec.canonIntField f = true) :
    ∃ v, parseInt (strip f) = .ok v ∧ rjust f.length (intStr v) = f := by
  unfold Spec.canonIntField at h
  simp only [Bool.and_eq_true] at h
  obtain ⟨v, hv, hs⟩ := canonInt_spec _ h.2
  exact ⟨v, hv, by rw [hs]; exact rightAligned_eq f h.1⟩

theorem textField_spec (f : Str) (h : Spec.canonTextField f = true) :
    rjust f.length (strip f) = f ∧ strip f ≠ [] := by
  unfold Spec.canonTextField at h
  simp only [Bool.and_eq_true, bne_iff_ne, ne_eq] at h
  exact ⟨rightAligned_eq f h.1, h.2⟩

theorem fixed2Field_spec (f : Str) (h : Spec.canonFixed2Field f = true) :
    ∃ v, parseFloat (strip f) = .ok v ∧ fmtFloatR f.length 2 v = f ∧ strip f ≠ [] := by
  unfold Spec.canonFixed2Field at h
  simp only [Bool.and_eq_true] at h
  obtain ⟨v, hv, hs, hne⟩ := canonFixed_spec 2 (by omega) _ h.2
  exact ⟨v, hv, by unfold fmtFloatR; rw [hs]; exact rightAligned_eq f h.1, hne⟩

theorem coordField_spec (f : Str) (h : Spec.canonCoordField f = true) :
    ∃ v, parseFloat (strip f) = .ok v ∧ fmtFloatR f.length 3 v = f ∧ strip f ≠ [] ∧
      -(1999 : ℚ) / 2 < v ∧ v < (19999 : ℚ) / 2 := by
  unfold Spec.canonCoordField at h
  simp only [Bool.and_eq_true] at h
  obtain ⟨v, hv, hs, hne⟩ := canonFixed_spec 3 (by omega) _ h.1.2
  have hu := h.2
  unfold Spec.usualRange at hu
  rw [hv] at hu
  simp only [decide_eq_true_eq] at hu
  exact ⟨v, hv, by unfold fmtFloatR; rw [hs]; exact rightAligned_eq f h.1.1, hne, hu.1, hu.2⟩

theorem oneCharOrBlank_spec (f : Str) (h : Spec.oneCharOrBlank f = true) : rjust 1 (strip f) = f := by
  unfold Spec.oneCharOrBlank at h
  split at h
  · rename_i c
    simp only [Bool.or_eq_true, beq_iff_eq, Bool.not_eq_true'] at h
    rcases h with h | h
    · subst h; decide
    · rw [strip_single]; simp [h, rjust, spaces]
  · simp at h

theorem oneChar_spec (f : Str) (h : Spec.oneChar f = true) : rjust 1 (strip f) = f ∧ strip f ≠ [] := by
  unfold Spec.oneChar at h
  split at h
  · rename_i c
    simp only [Bool.not_eq_true'] at h
    rw [strip_single]; simp [h, rjust, spaces]
  · simp at h

theorem blank_spec (f : Str) (h : Spec.blank f = true) : f = spaces f.length := by
  unfold Spec.blank at h
  simp only [List.all_eq_true, decide_eq_true_eq] at h
  unfold spaces
  exact List.eq_replicate_iff.mpr ⟨rfl, h⟩

theorem cols_1_66 (l : Str) (h : 66 ≤ l.length) :
    Spec.rawCols l 1 66 = [Spec.rawCols l 1 6, Spec.rawCols l 7 11, Spec.rawCols l 12 12, Spec.rawCols l 13 16,
      Spec.rawCols l 17 17, Spec.rawCols l 18 20, Spec.rawCols l 21 21, Spec.rawCols l 22 22, Spec.rawCols l 23 26,
      Spec.rawCols l 27 27, Spec.rawCols l 28 30, Spec.rawCols l 31 38, Spec.rawCols l 39 46, Spec.rawCols l 47 54,
      Spec.rawCols l 55 60, Spec.rawCols l 61 66].flatten := by
  rw [rawCols_split l 1 6 66 (by omega) (by omega) (by omega) h,
    rawCols_split l 7 11 66 (by omega) (by omega) (by omega) h,
    rawCols_split l 12 12 66 (by omega) (by omega) (by omega) h,
    rawCols_split l 13 16 66 (by omega) (by omega) (by omega) h,
    rawCols_split l 17 17 66 (by omega) (by omega) (by omega) h,
    rawCols_split l 18 20 66 (by omega) (by omega) (by omega) h,
    rawCols_split l 21 21 66 (by omega) (by omega) (by omega) h,
    rawCols_split l 22 22 66 (by omega) (by omega) (by omega) h,
    rawCols_split l 23 26 66 (by omega) (by omega) (by omega) h,
    rawCols_split l 27 27 66 (by omega) (by omega) (by omega) h,
    rawCols_split l 28 30 66 (by omega) (by omega) (by omega) h,
    rawCols_split l 31 38 66 (by omega) (by omega) (by omega) h,
    rawCols_split l 39 46 66 (by omega) (by omega) (by omega) h,
    rawCols_split l 47 54 66 (by omega) (by omega) (by omega) h,
    rawCols_split l 55 60 66 (by omega) (by omega) (by omega) h]
  simp only [List.flatten_cons, List.flatten_nil, List.append_nil, List.append_assoc]

theorem c_1_66 {p : Proofs.Line.Pieces} (w : p.WF) : Spec.rawCols p.line 1 66 = (p.segs.take 16).flatten :=
  Proofs.Reexport.rawCols_flatten' [] (p.segs.take 16) (p.segs.drop 16) 1 66 (by simp)
    (by simp [Proofs.Line.Pieces.segs, w.serial, w.name, w.alt, w.resn, w.chain, w.resseq, w.icode, w.x, w.y, w.z,
      w.occ, w.temp])

theorem canonical_unpack (l : Str) (h : Spec.Canonical l) :
    l.length = 80 ∧ '\n' ∉ l ∧ Spec.rawCols l 1 6 = "ATOM  ".toList ∧ Spec.canonIntField (Spec.rawCols l 7 11) = true ∧
    Spec.blank (Spec.rawCols l 12 12) = true ∧
    Spec.rawCols l 13 16 = Spec.nameField (Spec.cols l 13 16) (Spec.cols l 77 78) ∧
    Spec.oneCharOrBlank (Spec.rawCols l 17 17) = true ∧ Spec.canonTextField (Spec.rawCols l 18 20) = true ∧
    Spec.blank (Spec.rawCols l 21 21) = true ∧ Spec.oneChar (Spec.rawCols l 22 22) = true ∧
    Spec.canonIntField (Spec.rawCols l 23 26) = true ∧ Spec.oneCharOrBlank (Spec.rawCols l 27 27) = true ∧
    Spec.blank (Spec.rawCols l 28 30) = true ∧ Spec.canonCoordField (Spec.rawCols l 31 38) = true ∧
    Spec.canonCoordField (Spec.rawCols l 39 46) = true ∧ Spec.canonCoordField (Spec.rawCols l 47 54) = true ∧
    Spec.canonFixed2Field (Spec.rawCols l 55 60) = true ∧ Spec.canonFixed2Field (Spec.rawCols l 61 66) = true ∧
    Spec.canonTextField (Spec.rawCols l 77 78) = true := by
  unfold Spec.Canonical Spec.isCanonical at h
  simp only [Bool.and_eq_true, beq_iff_eq, Bool.not_eq_true', List.contains_eq_mem, decide_eq_false_iff_not] at h
  obtain ⟨⟨⟨⟨⟨⟨⟨⟨⟨⟨⟨⟨⟨⟨⟨⟨⟨⟨hlen, hnl⟩, hrec⟩, hser⟩, h12⟩, hname⟩, halt⟩, hresn⟩, h21⟩, hchain⟩, hrseq⟩, hicode⟩, h28⟩, hx⟩, hy⟩, hz⟩, hocc⟩, htemp⟩, helem⟩ := h
  exact ⟨hlen, hnl, hrec, hser, h12, hname, halt, hresn, h21, hchain, hrseq, hicode, h28, hx, hy, hz, hocc, htemp, helem⟩

/-! ### a canonical record is reproduced -/

theorem canonical_reproduced (l : Str) (m : Int) (h : Spec.Canonical l) :
    ∃ (a : Atom) (l' : Str), Spec.parseRecord l m = .ok a.toRow ∧ Gen.data2pdb_line a = .ok l' ∧ l'.length = 80 ∧
      Spec.rawCols l' 1 66 = Spec.rawCols l 1 66 ∧ Spec.rawCols l' 77 78 = Spec.rawCols l 77 78 ∧
      Spec.rawCols l' 67 76 = spaces 10 ∧ Spec.rawCols l' 79 80 = spaces 2 := by
  obtain ⟨hlen, hnl, hrec, hser, h12, hname, halt, hresn, h21, hchain, hrseq, hicode, h28, hx, hy, hz, hocc, htemp,
    helem⟩ := canonical_unpack l h
  have L := fun a b (ha : 1 ≤ a) (hab : a ≤ b + 1) (hb : b ≤ 80) =>
    rawCols_length l a b ha hab (by omega)
  obtain ⟨vs, ps, fs⟩ := intField_spec _ hser
  obtain ⟨vr, pr, fr⟩ := intField_spec _ hrseq
  obtain ⟨vx, px, fx, nx, x1, x2⟩ := coordField_spec _ hx
  obtain ⟨vy, py, fy, ny, y1, y2⟩ := coordField_spec _ hy
  obtain ⟨vz, pz, fz, nz, z1, z2⟩ := coordField_spec _ hz
  obtain ⟨vo, po, fo, no⟩ := fixed2Field_spec _ hocc
  obtain ⟨vt, pt, ft, nt⟩ := fixed2Field_spec _ htemp
  obtain ⟨fresn, nresn⟩ := textField_spec _ hresn
  obtain ⟨felem, nelem⟩ := textField_spec _ helem
  obtain ⟨fchain, nchain⟩ := oneChar_spec _ hchain
  have falt := oneCharOrBlank_spec _ halt
  have ficode := oneCharOrBlank_spec _ hicode
  rw [L 7 11 (by omega) (by omega) (by omega)] at fs
  rw [L 23 26 (by omega) (by omega) (by omega)] at fr
  rw [L 31 38 (by omega) (by omega) (by omega)] at fx
  rw [L 39 46 (by omega) (by omega) (by omega)] at fy
  rw [L 47 54 (by omega) (by omega) (by omega)] at fz
  rw [L 55 60 (by omega) (by omega) (by omega)] at fo
  rw [L 61 66 (by omega) (by omega) (by omega)] at ft
  rw [L 18 20 (by omega) (by omega) (by omega)] at fresn
  rw [L 77 78 (by omega) (by omega) (by omega)] at felem
  have b12 := blank_spec _ h12
  have b21 := blank_spec _ h21
  have b28 := blank_spec _ h28
  rw [L 12 12 (by omega) (by omega) (by omega)] at b12
  rw [L 21 21 (by omega) (by omega) (by omega)] at b21
  rw [L 28 30 (by omega) (by omega) (by omega)] at b28
  -- the row
  let a : Atom :=
    { serial := vs, name := Spec.cols l 13 16, altLoc := Spec.cols l 17 17, resName := Spec.cols l 18 20,
      chainID := Spec.cols l 22 22, resSeq := vr, iCode := Spec.cols l 27 27, x := vx, y := vy, z := vz,
      occ := vo, temp := vt, element := Spec.cols l 77 78, model := m }
  have hparse : Spec.parseRecord l m = .ok a.toRow := by
    unfold Spec.parseRecord
    rw [Proofs.Line.recordText_of_no_nl _ hnl]
    have : ¬ (l.length > 80) := by omega
    simp only [this, if_false, Proofs.Line.pad80_of_length _ hlen]
    have e : ∀ a b, Spec.cols l a b = strip (Spec.rawCols l a b) := fun _ _ => rfl
    simp only [e] at *
    simp only [ps, pr, px, py, pz, po, pt, nchain, no, nt, nelem, if_false, bind, Except.bind, pure, Except.pure]
    rfl
  -- the name field
  have hnamelen : (Spec.rawCols l 13 16).length = 4 := L 13 16 (by omega) (by omega) (by omega)
  have hn1 : 1 ≤ a.name.length := by
    by_contra hc
    have h0 : Spec.cols l 13 16 = [] := by
      have : (Spec.cols l 13 16).length = 0 := by
        have : a.name = Spec.cols l 13 16 := rfl
        rw [← this]; omega
      exact List.eq_nil_of_length_eq_zero this
    rw [h0] at hname
    have : Spec.nameField [] (Spec.cols l 77 78) = [] := rfl
    rw [this] at hname
    rw [hname] at hnamelen; simp at hnamelen
  have hn4 : a.name.length ≤ 4 := by
    have h1 : (strip (Spec.rawCols l 13 16)).length ≤ (Spec.rawCols l 13 16).length := by
      unfold strip rstrip lstrip
      simp only [List.length_reverse]
      exact le_trans (len_dropWhile_le _ _) (by simpa using len_dropWhile_le isSpace (Spec.rawCols l 13 16))
    have : a.name = strip (Spec.rawCols l 13 16) := rfl
    rw [this]; omega
  have hnm : Gen._format_atomname a = .ok (Spec.rawCols l 13 16) := by
    rw [Proofs.Line.atomname_nameField a hn1 hn4, hname]
  have rx : Spec.CoordInRange vx := by constructor <;> linarith
  have ry : Spec.CoordInRange vy := by constructor <;> linarith
  have rz : Spec.CoordInRange vz := by constructor <;> linarith
  have hfx : Gen._format_xyz a.x = .ok (Spec.rawCols l 31 38) := by
    have := Proofs.Xyz.format_xyz_eq vx rx
    rw [Proofs.Xyz.class_usual vx x1 x2, fx] at this; exact this
  have hfy : Gen._format_xyz a.y = .ok (Spec.rawCols l 39 46) := by
    have := Proofs.Xyz.format_xyz_eq vy ry
    rw [Proofs.Xyz.class_usual vy y1 y2, fy] at this; exact this
  have hfz : Gen._format_xyz a.z = .ok (Spec.rawCols l 47 54) := by
    have := Proofs.Xyz.format_xyz_eq vz rz
    rw [Proofs.Xyz.class_usual vz z1 z2, fz] at this; exact this
  have hline := Proofs.Line.data2pdb_line_eq a _ _ _ _ hnm hfx hfy hfz
  -- the pieces are the fields of `l`
  set P := Proofs.Line.pieces a (Spec.rawCols l 13 16) (Spec.rawCols l 31 38) (Spec.rawCols l 39 46)
    (Spec.rawCols l 47 54) with hP
  have e : ∀ a b, Spec.cols l a b = strip (Spec.rawCols l a b) := fun _ _ => rfl
  have q1 : P.serial = Spec.rawCols l 7 11 := fs
  have q2 : P.name = Spec.rawCols l 13 16 := rfl
  have q3 : P.alt = Spec.rawCols l 17 17 := falt
  have q4 : P.resn = Spec.rawCols l 18 20 := fresn
  have q5 : P.chain = Spec.rawCols l 22 22 := fchain
  have q6 : P.resseq = Spec.rawCols l 23 26 := fr
  have q7 : P.icode = Spec.rawCols l 27 27 := ficode
  have q8 : P.x = Spec.rawCols l 31 38 := rfl
  have q9 : P.y = Spec.rawCols l 39 46 := rfl
  have q10 : P.z = Spec.rawCols l 47 54 := rfl
  have q11 : P.occ = Spec.rawCols l 55 60 := fo
  have q12 : P.temp = Spec.rawCols l 61 66 := ft
  have q13 : P.elem = Spec.rawCols l 77 78 := felem
  have w : P.WF := by
    constructor
    · rw [q1]; exact L 7 11 (by omega) (by omega) (by omega)
    · rw [q2]; exact L 13 16 (by omega) (by omega) (by omega)
    · rw [q3]; exact L 17 17 (by omega) (by omega) (by omega)
    · rw [q4]; exact L 18 20 (by omega) (by omega) (by omega)
    · rw [q5]; exact L 22 22 (by omega) (by omega) (by omega)
    · rw [q6]; exact L 23 26 (by omega) (by omega) (by omega)
    · rw [q7]; exact L 27 27 (by omega) (by omega) (by omega)
    · rw [q8]; exact L 31 38 (by omega) (by omega) (by omega)
    · rw [q9]; exact L 39 46 (by omega) (by omega) (by omega)
    · rw [q10]; exact L 47 54 (by omega) (by omega) (by omega)
    · rw [q11]; exact L 55 60 (by omega) (by omega) (by omega)
    · rw [q12]; exact L 61 66 (by omega) (by omega) (by omega)
    · rw [q13]; exact L 77 78 (by omega) (by omega) (by omega)
  refine ⟨a, P.line, hparse, hline, Proofs.Line.line_length w, ?_, ?_, Proofs.Line.c_67 w, Proofs.Line.c_79 w⟩
  · rw [c_1_66 w, cols_1_66 l (by omega), b12, b21, b28, hrec]
    simp only [Proofs.Line.Pieces.segs, List.take_succ_cons, List.take_zero, q1, q2, q3, q4, q5, q6, q7, q8, q9, q10,
      q11, q12]
    rfl
  · rw [Proofs.Line.c_elem w, q13]

end Proofs.Canon
