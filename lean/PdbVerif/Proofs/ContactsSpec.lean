/-
  Helper lemmas for C05 / C14, part 6: what the Spec lists mean in terms of `t[i]?`; the evaluation form of the all-chains
  pair map; the single-chain all-chains call.
-/
import PdbVerif.Proofs.ContactsRes
set_option linter.unusedVariables false
set_option linter.unusedSimpArgs false
set_option linter.unusedSectionVars false
namespace Proofs.Contacts
open Model Py
open Spec.Contact (Params passes near touches isHydrogen chainAtoms partners atoms residuesAt resOf)

/-! ### what the Spec's lists mean, in terms of `t[i]?` -/

theorem mem_chainAtoms_iff {t : List Atom} {X : Str} {x : Atom} {i : Nat} :
    (x, i) ∈ chainAtoms t X ↔ t[i]? = some x ∧ x.chainID = X := by
  rw [mem_chainAtoms, List.mem_zipIdx_iff_getElem?]

theorem spec_contactAtoms_iff {P : Params} {t : List Atom} {X Y : Str} {i : Nat} :
    i ∈ Spec.Contact.contactAtoms P t X Y ↔
      ∃ x, t[i]? = some x ∧ x.chainID = X ∧ passes P x = true ∧
        ∃ (j : Nat) (y : Atom), t[j]? = some y ∧ y.chainID = Y ∧ passes P y = true ∧ near P x y = true := by
  rw [mem_contactAtoms]
  constructor
  · rintro ⟨⟨x, i'⟩, hp, rfl, ⟨y, j⟩, hq, hpq⟩
    obtain ⟨h1, h2⟩ := mem_chainAtoms_iff.mp hp
    obtain ⟨h3, h4⟩ := mem_chainAtoms_iff.mp hq
    simp only [touches, Bool.and_eq_true] at hpq
    exact ⟨x, h1, h2, hpq.1.1, j, y, h3, h4, hpq.1.2, hpq.2⟩
  · rintro ⟨x, h1, h2, h3, j, y, h4, h5, h6, h7⟩
    refine ⟨(x, i), mem_chainAtoms_iff.mpr ⟨h1, h2⟩, rfl, (y, j), mem_chainAtoms_iff.mpr ⟨h4, h5⟩, ?_⟩
    simp [touches, h3, h6, h7]

theorem spec_pairMap_values {P : Params} {t : List Atom} {X Y : Str} {i : Nat} {js : List Nat}
    (h : (i, js) ∈ Spec.Contact.pairMap P t X Y) :
    Asc ltNat js ∧ ∀ j, j ∈ js ↔
      ∃ x y, t[i]? = some x ∧ t[j]? = some y ∧ x.chainID = X ∧ y.chainID = Y ∧ passes P x = true ∧ passes P y = true ∧
        near P x y = true := by
  simp only [Spec.Contact.pairMap, List.mem_map, List.mem_filter, Prod.mk.injEq] at h
  obtain ⟨⟨x, i'⟩, ⟨hp, _⟩, rfl, rfl⟩ := h
  obtain ⟨h1, h2⟩ := mem_chainAtoms_iff.mp hp
  constructor
  · unfold partners chainAtoms atoms
    rw [List.filter_filter]
    exact asc_positions t _
  · intro j
    rw [mem_partners]
    constructor
    · rintro ⟨⟨y, j'⟩, hq, hpq, rfl⟩
      obtain ⟨h3, h4⟩ := mem_chainAtoms_iff.mp hq
      simp only [touches, Bool.and_eq_true] at hpq
      exact ⟨x, y, h1, h3, h2, h4, hpq.1.1, hpq.1.2, hpq.2⟩
    · rintro ⟨x', y, h1', h3, _, h4, h5, h6, h7⟩
      have : x' = x := by rw [h1] at h1'; exact (Option.some.inj h1').symm
      subst this
      exact ⟨(y, j), mem_chainAtoms_iff.mpr ⟨h3, h4⟩, by simp [touches, h5, h6, h7], rfl⟩

theorem spec_contactAtomsAll_iff {P : Params} {t : List Atom} {X : Str} {i : Nat} :
    i ∈ Spec.Contact.contactAtomsAll P t X ↔
      ∃ x, t[i]? = some x ∧ x.chainID = X ∧ passes P x = true ∧
        ∃ (j : Nat) (y : Atom), t[j]? = some y ∧ y.chainID ≠ X ∧ passes P y = true ∧ near P x y = true := by
  rw [mem_contactAtomsAll]
  constructor
  · rintro ⟨Y, _, hne, h⟩
    obtain ⟨x, h1, h2, h3, j, y, h4, h5, h6, h7⟩ := spec_contactAtoms_iff.mp h
    exact ⟨x, h1, h2, h3, j, y, h4, by rw [h5]; exact hne, h6, h7⟩
  · rintro ⟨x, h1, h2, h3, j, y, h4, h5, h6, h7⟩
    refine ⟨y.chainID, ?_, h5, spec_contactAtoms_iff.mpr ⟨x, h1, h2, h3, j, y, h4, rfl, h6, h7⟩⟩
    exact mem_getChains.mpr ⟨y, List.mem_of_getElem? h4, rfl⟩

/-! ### the evaluation form of the all-chains pair map satisfies its characterisation -/

theorem pairMapAll_eq (P : Params) (t : List Atom) :
    Spec.Contact.pairMapAll P t =
      ((atoms t).filter (fun p => (atoms t).any (Spec.Contact.contactFirst P p))).map
        (fun p => (p.2, ((atoms t).filter (Spec.Contact.contactFirst P p)).map (·.2))) := by
  unfold Spec.Contact.pairMapAll
  generalize atoms t = l
  have : ∀ l' : List Spec.Contact.Pos,
      l'.filterMap (fun p => if ((l.filter (Spec.Contact.contactFirst P p)).map (·.2)).isEmpty then none
                               else some (p.2, (l.filter (Spec.Contact.contactFirst P p)).map (·.2))) =
        (l'.filter (fun p => l.any (Spec.Contact.contactFirst P p))).map
          (fun p => (p.2, (l.filter (Spec.Contact.contactFirst P p)).map (·.2))) := by
    intro l'
    induction l' with
    | nil => rfl
    | cons p ps ih =>
      rw [List.filterMap_cons, ih]
      by_cases h : l.any (Spec.Contact.contactFirst P p) = true
      · have hne : ((l.filter (Spec.Contact.contactFirst P p)).map (·.2)).isEmpty = false := by
          rw [List.any_eq_true] at h
          obtain ⟨q, hq, hq2⟩ := h
          have : q.2 ∈ (l.filter (Spec.Contact.contactFirst P p)).map (·.2) := List.mem_map.mpr ⟨q, List.mem_filter.mpr ⟨hq, hq2⟩, rfl⟩
          cases hl : (l.filter (Spec.Contact.contactFirst P p)).map (·.2) with
          | nil => rw [hl] at this; simp at this
          | cons _ _ => rfl
        simp [hne, h, List.filter_cons]
      · have he : (l.filter (Spec.Contact.contactFirst P p)) = [] := by
          rw [List.filter_eq_nil_iff]
          intro q hq hq2
          exact h (List.any_eq_true.mpr ⟨q, hq, hq2⟩)
        simp [he, h, List.filter_cons]
  exact this l

theorem pairMapAll_spec (P : Params) (t : List Atom) : Spec.Contact.IsAllChainsPairMap P t (Spec.Contact.pairMapAll P t) := by
  rw [pairMapAll_eq]
  refine ⟨?_, ?_, ?_, ?_⟩
  · rw [List.map_map]
    exact asc_nodup strictTotal_ltNat (asc_positions t _)
  · intro e he
    obtain ⟨p, _, rfl⟩ := List.mem_map.mp he
    exact asc_nodup strictTotal_ltNat (asc_positions t _)
  · intro e he
    obtain ⟨p, hp, rfl⟩ := List.mem_map.mp he
    obtain ⟨_, hany⟩ := List.mem_filter.mp hp
    rw [List.any_eq_true] at hany
    obtain ⟨q, hq, hq2⟩ := hany
    intro h0
    have : q.2 ∈ ((atoms t).filter (Spec.Contact.contactFirst P p)).map (·.2) := List.mem_map.mpr ⟨q, List.mem_filter.mpr ⟨hq, hq2⟩, rfl⟩
    have h0' : ((atoms t).filter (Spec.Contact.contactFirst P p)).map (·.2) = [] := h0
    rw [h0'] at this
    simp at this
  · intro i j
    simp only [List.mem_map, List.mem_filter, Prod.mk.injEq, List.any_eq_true]
    constructor
    · rintro ⟨js, ⟨⟨x, i'⟩, ⟨hp, _⟩, rfl, rfl⟩, hj⟩
      obtain ⟨⟨y, j'⟩, hq, rfl⟩ := List.mem_map.mp hj
      obtain ⟨hq, hc⟩ := List.mem_filter.mp hq
      exact ⟨x, y, List.mem_zipIdx_iff_getElem?.mp hp, List.mem_zipIdx_iff_getElem?.mp hq, hc⟩
    · rintro ⟨x, y, hx, hy, hc⟩
      have hp : (x, i) ∈ atoms t := List.mem_zipIdx_iff_getElem?.mpr hx
      have hq : (y, j) ∈ atoms t := List.mem_zipIdx_iff_getElem?.mpr hy
      exact ⟨_, ⟨(x, i), ⟨hp, (y, j), hq, hc⟩, rfl, rfl⟩, List.mem_map.mpr ⟨(y, j), List.mem_filter.mpr ⟨hq, hc⟩, rfl⟩⟩

/-! ### all chains of a structure with a single chain: `index_contact` never gets the key -/

theorem contactRun_single_chain (t : List Atom) (a : ContactArgs) (hall : a.allchains = true) {X : Str} (h1 : getChains t = [X]) :
    contactRun t a = .error Err.keyError := by
  rw [contactRun_eq, callChains_known t a (Or.inl hall)]
  simp only [Bool.false_eq_true, if_false]
  have hic : icAfterLoop t a = [] := by
    unfold icAfterLoop
    rw [callChains_all hall, h1]
    rfl
  rw [mapChains_err _ (nodup_keys_icAfterLoop t a) (by rw [callChains_all hall, h1, hic]; exact ⟨X, by simp, by simp [Dict.keys]⟩)]
  rfl

/-! ### what the Spec's residue lists mean -/

theorem mem_residuesAt_iff {t : List Atom} {S : List Nat} {k : ResKey} :
    k ∈ residuesAt t S ↔ ∃ s ∈ S, ∃ x, t[s]? = some x ∧ resOf x = k := by
  rw [mem_residuesAt]
  constructor
  · rintro ⟨⟨x, s⟩, hp, hs, hr⟩
    exact ⟨s, hs, x, List.mem_zipIdx_iff_getElem?.mp hp, hr⟩
  · rintro ⟨s, hs, x, hx, hr⟩
    exact ⟨(x, s), List.mem_zipIdx_iff_getElem?.mpr hx, hs, hr⟩

theorem spec_residuesOf (t : List Atom) (S : List Nat) :
    Asc ltRes (Spec.Contact.residuesOf t S) ∧
    ∀ k, k ∈ Spec.Contact.residuesOf t S ↔ ∃ s ∈ S, ∃ x, t[s]? = some x ∧ resOf x = k := by
  unfold Spec.Contact.residuesOf
  rw [sortDistinct_eq, resLt_eq]
  exact ⟨asc_sortedSet strictTotal_ltRes _, fun k => by rw [mem_sortedSet, mem_residuesAt_iff]⟩

theorem spec_residuePairMap (t : List Atom) (m : List (Nat × List Nat)) :
    ((Spec.Contact.residuePairMap t m).map (fun e => e.1)).Nodup ∧
    (∀ K, K ∈ (Spec.Contact.residuePairMap t m).map (fun e => e.1) ↔ ∃ e ∈ m, ∃ x, t[e.1]? = some x ∧ resOf x = K) ∧
    ∀ K L, (K, L) ∈ Spec.Contact.residuePairMap t m →
      Asc ltRes L ∧ ∀ K', K' ∈ L ↔
        ∃ e ∈ m, (∃ x, t[e.1]? = some x ∧ resOf x = K) ∧ ∃ j ∈ e.2, ∃ y, t[j]? = some y ∧ resOf y = K' := by
  have hkeys : (Spec.Contact.residuePairMap t m).map (fun e => e.1) =
      distinctFirst ((resEvents t m).map (fun e => e.1)) := by
    simp only [Spec.Contact.residuePairMap, List.map_map, distinct_eq, resEvents]
    exact List.map_id' _
  have hev : ∀ K, (∃ ev ∈ resEvents t m, ev.1 = K) ↔ ∃ e ∈ m, ∃ x, t[e.1]? = some x ∧ resOf x = K := by
    intro K
    simp only [resEvents, List.mem_flatMap, List.mem_map]
    constructor
    · rintro ⟨ev, ⟨e, he, K0, hK0, rfl⟩, rfl⟩
      obtain ⟨s, hs, x, hx, hr⟩ := mem_residuesAt_iff.mp hK0
      simp only [List.mem_singleton] at hs
      subst hs
      exact ⟨e, he, x, hx, hr⟩
    · rintro ⟨e, he, x, hx, hr⟩
      exact ⟨(K, residuesAt t e.2), ⟨e, he, K, mem_residuesAt_iff.mpr ⟨e.1, by simp, x, hx, hr⟩, rfl⟩, rfl⟩
  refine ⟨?_, ?_, ?_⟩
  · rw [hkeys]; exact nodup_distinctFirst _
  · intro K
    rw [hkeys, mem_distinctFirst, List.mem_map, ← hev]
  · intro K L hKL
    simp only [Spec.Contact.residuePairMap, List.mem_map, Prod.mk.injEq] at hKL
    obtain ⟨K0, _, rfl, rfl⟩ := hKL
    rw [sortDistinct_eq, resLt_eq]
    refine ⟨asc_sortedSet strictTotal_ltRes _, ?_⟩
    intro K'
    rw [mem_sortedSet]
    simp only [List.mem_flatMap, List.mem_filter, List.mem_map, decide_eq_true_eq]
    constructor
    · rintro ⟨ev, ⟨⟨e, he, K1, hK1, rfl⟩, hk⟩, hK'⟩
      simp only at hk hK'
      subst hk
      obtain ⟨s, hs, x, hx, hr⟩ := mem_residuesAt_iff.mp hK1
      simp only [List.mem_singleton] at hs
      subst hs
      obtain ⟨j, hj, y, hy, hr'⟩ := mem_residuesAt_iff.mp hK'
      exact ⟨e, he, ⟨x, hx, hr⟩, j, hj, y, hy, hr'⟩
    · rintro ⟨e, he, ⟨x, hx, hr⟩, j, hj, y, hy, hr'⟩
      exact ⟨(K0, residuesAt t e.2), ⟨⟨e, he, K0, mem_residuesAt_iff.mpr ⟨e.1, by simp, x, hx, hr⟩, rfl⟩, rfl⟩,
        mem_residuesAt_iff.mpr ⟨j, hj, y, hy, hr'⟩⟩

end Proofs.Contacts
