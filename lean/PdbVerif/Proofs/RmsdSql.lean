/-
  Helper lemmas for C07 / C11 (cluster E), part 5: the SQL routines (`compute_irmsd_pdb2sql`, `compute_lrmsd_pdb2sql`,
  `get_identical_atoms`).  Under the hypotheses of the property the pairs handed to the kernel are the definition's
  pairs up to order.  Helper lemmas only.
-/
import PdbVerif.Proofs.RmsdFast

set_option linter.unusedVariables false
set_option linter.unusedSimpArgs false
set_option linter.unusedSectionVars false
set_option linter.unnecessarySeqFocus false

namespace Proofs.Rmsd
open Model Model.Rmsd Py Proofs.Contacts

/-! ### i-RMSD, SQL routine -/

theorem mem_rowsAt_map_snd {t : List Atom} {L : List IRow} (hL : ∀ r ∈ L, r ∈ t.zipIdx) (r : IRow) :
    r ∈ rowsAt t (L.map (·.2)) ↔ r ∈ L := by
  simp only [rowsAt, List.mem_filter, List.contains_eq_mem, decide_eq_true_eq, List.mem_map]
  constructor
  · rintro ⟨hr, r', hr', h2⟩
    rw [← pos_inj (hL r' hr') hr h2]; exact hr'
  · intro hr
    exact ⟨hL r hr, r, hr, rfl⟩

theorem rowsAt_fst_sublist (t : List Atom) (idx : List Nat) : ((rowsAt t idx).map (·.1)).Sublist t := by
  have : ((rowsAt t idx).map (·.1)).Sublist (t.zipIdx.map (·.1)) := List.Sublist.map _ List.filter_sublist
  rw [List.zipIdx_map_fst] at this
  exact this

theorem pairByIndex_keys_sublist (dec : List Atom) (rows : List IRow) :
    ((pairByIndex dec rows).map (·.2.1)).Sublist (rows.map (fun r => keyOf r.1)) := by
  unfold pairByIndex
  induction rows with
  | nil => simp
  | cons r rs ih =>
    rw [List.filterMap_cons]
    cases hf : dec.find? (fun d => decide (labelOf d = labelOf r.1)) with
    | none => simp only [hf]; exact List.Sublist.cons _ ih
    | some d => simp only [hf, List.map_cons]; exact List.Sublist.cons_cons _ ih

theorem label_key {a b : Atom} (h : labelOf a = labelOf b) : keyOf a = keyOf b := by
  simp only [labelOf, Prod.mk.injEq] at h
  simp only [keyOf, Prod.mk.injEq]
  exact ⟨h.1, h.2.1, h.2.2.2⟩

theorem atInterface_row {ref : List Atom} {c : Rat}
    (hnames : ∀ a ∈ ref, ∀ b ∈ ref, a.chainID = b.chainID → a.resSeq = b.resSeq → a.resName = b.resName)
    {r : Atom} (hr : r ∈ ref) :
    (∃ y ∈ ref, resKey y = resKey r ∧ ∃ q ∈ ref, q.chainID ≠ y.chainID ∧ withinCutoff c q y = true) ↔
      Spec.Rmsd.atInterface ref c r.chainID r.resSeq = true := by
  simp only [Spec.Rmsd.atInterface, List.any_eq_true, Bool.and_eq_true, decide_eq_true_eq, within_eq, ne_eq]
  constructor
  · rintro ⟨y, hy, hres, q, hq, hqc, hw⟩
    simp only [resKey, Prod.mk.injEq] at hres
    exact ⟨y, hy, ⟨hres.1, hres.2.1⟩, q, hq, by rw [← hres.1]; exact hqc, hw⟩
  · rintro ⟨a, ha, ⟨hac, hars⟩, b, hb, hbc, hw⟩
    refine ⟨a, ha, ?_, b, hb, by rw [hac]; exact hbc, hw⟩
    simp only [resKey, Prod.mk.injEq]
    exact ⟨hac, hars, hnames a ha r hr hac hars⟩

theorem spec_backbone_iff (n : Str) : n ∈ Spec.Rmsd.backboneNames ↔ n ∈ backbone := by
  rw [backbone_names_iff, model_backbone_iff]

/-- **i-RMSD, SQL routine** (zone computed in memory). -/
theorem irmsdSql_pairs {dec ref : List Atom} (hc : Cons dec ref) (c : Rat) :
    match irmsdSql (.ok dec) (.ok ref) none c with
    | .value fit ev => fit ≠ [] ∧ ev = fit ∧ (∀ p ∈ fit, p.1.1 = p.2.1) ∧ (fit.map idPair).Perm (Spec.Rmsd.interfacePairs dec ref c)
    | .err e => e = .valueError ∧ Spec.Rmsd.interfacePairs dec ref c = [] := by
  obtain ⟨c0, c1, hch, hchd⟩ := hc.two
  obtain ⟨d, hd, hrows⟩ := izone_rows (c := c) hch
  have hnR : ∀ a ∈ ref, ∀ b ∈ ref, a.chainID = b.chainID → a.resSeq = b.resSeq → a.resName = b.resName :=
    fun a ha b hb => hc.names a (List.mem_append_right _ ha) b (List.mem_append_right _ hb)
  have hL : ∀ r ∈ backboneRowsAt ref (flattenContacts d), r ∈ ref.zipIdx := fun r hr => ((hrows r).mp hr).1
  -- the run
  have hrun : irmsdSql (.ok dec) (.ok ref) none c =
      let pairs := pairByIndex dec (rowsAt ref ((backboneRowsAt ref (flattenContacts d)).map (·.2)))
      if pairs.length = 0 then .err .valueError else .value pairs pairs := by
    unfold irmsdSql
    simp only [hch, hchd, bind, Except.bind, pure, Except.pure, chainAt, hd, ne_eq, not_true_eq_false, if_false,
      List.getElem?_cons_zero, List.getElem?_cons_succ, Outcome.ofExcept]
    split_ifs <;> rfl
  rw [hrun]
  simp only
  -- the three facts about the pairs
  have hmemRows : ∀ r : IRow, r ∈ rowsAt ref ((backboneRowsAt ref (flattenContacts d)).map (·.2)) ↔
      r ∈ ref.zipIdx ∧ r.1.name ∈ backbone ∧ Spec.Rmsd.atInterface ref c r.1.chainID r.1.resSeq = true := by
    intro r
    rw [mem_rowsAt_map_snd hL, hrows]
    constructor
    · rintro ⟨h1, h2, h3⟩
      exact ⟨h1, h2, (atInterface_row hnR (List.mem_of_getElem? (List.mem_zipIdx_iff_getElem?.mp h1))).mp h3⟩
    · rintro ⟨h1, h2, h3⟩
      exact ⟨h1, h2, (atInterface_row hnR (List.mem_of_getElem? (List.mem_zipIdx_iff_getElem?.mp h1))).mpr h3⟩
  have hfind : ∀ r ∈ ref, ∀ d', dec.find? (fun x => decide (labelOf x = labelOf r)) = some d' ↔ d' ∈ dec ∧ keyOf d' = keyOf r := by
    intro r hr d'
    constructor
    · intro hf
      have hlab : labelOf d' = labelOf r := by have := List.find?_some hf; simpa using this
      exact ⟨List.mem_of_find?_eq_some hf, label_key hlab⟩
    · rintro ⟨hd', hk⟩
      have hlab : labelOf d' = labelOf r := by
        simp only [keyOf, Prod.mk.injEq] at hk
        simp only [labelOf, Prod.mk.injEq]
        exact ⟨hk.1, hk.2.1, hc.names d' (List.mem_append_left _ hd') r (List.mem_append_right _ hr) hk.1 hk.2.1, hk.2.2⟩
      cases hf : dec.find? (fun x => decide (labelOf x = labelOf r)) with
      | none => have := List.find?_eq_none.mp hf d' hd'; simp [hlab] at this
      | some d2 =>
        have h2 := List.mem_of_find?_eq_some hf
        have hlab2 : labelOf d2 = labelOf r := by have := List.find?_some hf; simpa using this
        have hk2 := label_key hlab2
        rw [eq_of_key_eq hc.nodupD h2 hd' (hk2.trans hk.symm)]
  have hperm := pairs_perm_spec hc.nodupD hc.nodupR (fun r => Spec.Rmsd.atInterface ref c r.chainID r.resSeq)
    (fun k => decide (k.2.2 ∈ Spec.Rmsd.backboneNames) && Spec.Rmsd.atInterface ref c k.1 k.2.1)
    (fun r _ => rfl)
    (pairByIndex dec (rowsAt ref ((backboneRowsAt ref (flattenContacts d)).map (·.2))))
    (by
      intro p hp
      simp only [pairByIndex, List.mem_filterMap] at hp
      obtain ⟨r, hr, hsome⟩ := hp
      have hrr : r.1 ∈ ref := List.mem_of_getElem? (List.mem_zipIdx_iff_getElem?.mp ((hmemRows r).mp hr).1)
      cases hf : dec.find? (fun x => decide (labelOf x = labelOf r.1)) with
      | none => simp [hf] at hsome
      | some d' =>
        simp only [hf, Option.some.injEq] at hsome
        subst hsome
        obtain ⟨hd', hk⟩ := (hfind r.1 hrr d').mp hf
        exact ⟨List.mem_map.mpr ⟨d', hd', rfl⟩, List.mem_map.mpr ⟨r.1, hrr, rfl⟩, hk⟩)
    (by
      refine (pairByIndex_keys_sublist dec _).nodup ?_
      have := (List.Sublist.map keyOf (rowsAt_fst_sublist ref ((backboneRowsAt ref (flattenContacts d)).map (·.2)))).nodup hc.nodupR
      rw [List.map_map] at this
      exact this)
    (by
      intro k
      simp only [pairByIndex, List.mem_map, List.mem_filterMap, Bool.and_eq_true, decide_eq_true_eq]
      constructor
      · rintro ⟨p, ⟨r, hr, hsome⟩, rfl⟩
        obtain ⟨hz, hbb, hint⟩ := (hmemRows r).mp hr
        have hrr : r.1 ∈ ref := List.mem_of_getElem? (List.mem_zipIdx_iff_getElem?.mp hz)
        cases hf : dec.find? (fun x => decide (labelOf x = labelOf r.1)) with
        | none => simp [hf] at hsome
        | some d' =>
          simp only [hf, Option.some.injEq] at hsome
          subst hsome
          obtain ⟨hd', hk⟩ := (hfind r.1 hrr d').mp hf
          refine ⟨⟨(spec_backbone_iff _).mpr hbb, hint⟩, ⟨d', hd', hk⟩, ⟨r.1, hrr, rfl⟩⟩
      · rintro ⟨⟨hbb, hint⟩, ⟨d', hd', hk⟩, ⟨r, hrr, rfl⟩⟩
        obtain ⟨i, hi⟩ := List.mem_iff_getElem?.mp hrr
        refine ⟨(ptOf d', ptOf r), ⟨(r, i), (hmemRows (r, i)).mpr ⟨List.mem_zipIdx_iff_getElem?.mpr hi, (spec_backbone_iff _).mp hbb, hint⟩, ?_⟩, rfl⟩
        rw [(hfind r hrr d').mpr ⟨hd', hk⟩])
  split_ifs with h0
  · simp only
    refine ⟨trivial, ?_⟩
    rw [List.length_eq_zero_iff.mp h0] at hperm
    exact (List.Perm.nil_eq hperm).symm
  · simp only
    refine ⟨fun hz => h0 (by rw [hz]; rfl), trivial, ?_, hperm⟩
    intro p hp
    simp only [pairByIndex, List.mem_filterMap] at hp
    obtain ⟨r, hr, hsome⟩ := hp
    have hrr : r.1 ∈ ref := List.mem_of_getElem? (List.mem_zipIdx_iff_getElem?.mp ((hmemRows r).mp hr).1)
    cases hf : dec.find? (fun x => decide (labelOf x = labelOf r.1)) with
    | none => simp [hf] at hsome
    | some d' =>
      simp only [hf, Option.some.injEq] at hsome
      subst hsome
      exact ((hfind r.1 hrr d').mp hf).2


/-! ### L-RMSD, SQL routine -/

theorem mapM_ok_exists {α β : Type} {f : α → Except Err β} {P : α → β → Prop} :
    ∀ (l : List α), (∀ a ∈ l, ∃ b, f a = .ok b ∧ P a b) →
      ∃ L, l.mapM f = .ok L ∧ L.length = l.length ∧ ∀ ab ∈ l.zip L, P ab.1 ab.2
  | [], _ => ⟨[], rfl, rfl, by simp⟩
  | a :: l, h => by
    obtain ⟨b, hb, hP⟩ := h a (by simp)
    obtain ⟨L, hL, hlen, hall⟩ := mapM_ok_exists l (fun x hx => h x (List.mem_cons_of_mem _ hx))
    refine ⟨b :: L, ?_, by simp [hlen], ?_⟩
    · rw [List.mapM_cons]; simp [hb, hL, bind, Except.bind, pure, Except.pure]
    · intro ab hab
      simp only [List.zip_cons_cons, List.mem_cons] at hab
      rcases hab with rfl | hab
      · exact hP
      · exact hall ab hab

theorem map_eq_of_zip {α β : Type} (f : β → α) : ∀ (l : List α) (L : List β), L.length = l.length →
    (∀ ab ∈ l.zip L, f ab.2 = ab.1) → L.map f = l
  | [], [], _, _ => rfl
  | [], _ :: _, h, _ => by simp at h
  | _ :: _, [], h, _ => by simp at h
  | a :: l, b :: L, h, hz => by
    simp only [List.map_cons, List.cons.injEq]
    refine ⟨hz (a, b) (by simp), map_eq_of_zip f l L (by simpa using h) (fun ab hab => hz ab ?_)⟩
    simp only [List.zip_cons_cons, List.mem_cons]; exact Or.inr hab

theorem exists_zip_of_mem {α β : Type} : ∀ (l : List α) (L : List β), L.length = l.length → ∀ p ∈ L, ∃ a, (a, p) ∈ l.zip L
  | _, [], _, p, hp => by simp at hp
  | [], _ :: _, h, _, _ => by simp at h
  | a :: l, b :: L, h, p, hp => by
    simp only [List.mem_cons] at hp
    rcases hp with rfl | hp
    · exact ⟨a, by simp⟩
    · obtain ⟨a', ha'⟩ := exists_zip_of_mem l L (by simpa using h) p hp
      exact ⟨a', by simp only [List.zip_cons_cons, List.mem_cons]; exact Or.inr ha'⟩

/-- the selection `sql.get('chainID,resSeq,name', chainID=chain, name=names)` as keys -/
def selKeys (t : List Atom) (chain : Str) (names : List Str) : List Key :=
  (t.filter (fun a => decide (a.chainID = chain) && decide (a.name ∈ names))).map keyOf

theorem mem_selKeys {t : List Atom} {chain : Str} {names : List Str} {k : Key} :
    k ∈ selKeys t chain names ↔ k ∈ t.map keyOf ∧ k.1 = chain ∧ k.2.2 ∈ names := by
  simp only [selKeys, List.mem_map, List.mem_filter, Bool.and_eq_true, decide_eq_true_eq]
  constructor
  · rintro ⟨a, ⟨ha, hc, hn⟩, rfl⟩; exact ⟨⟨a, ha, rfl⟩, hc, hn⟩
  · rintro ⟨⟨a, ha, rfl⟩, hc, hn⟩; exact ⟨a, ⟨ha, hc, hn⟩, rfl⟩

/-- `get_identical_atoms` returns, for exactly the selected identities present in both tables, the pair of records
    with that identity -/
theorem identicalAtoms_spec {dec ref : List Atom} (hD : (dec.map keyOf).Nodup) (hR : (ref.map keyOf).Nodup)
    (chain : Str) (names : List Str) :
    ∃ L, identicalAtoms dec ref chain names = .ok L ∧
      (∀ p ∈ L, p.1 ∈ dec.map ptOf ∧ p.2 ∈ ref.map ptOf ∧ p.1.1 = p.2.1) ∧
      (L.map (·.2.1)).Nodup ∧
      (∀ k, k ∈ L.map (·.2.1) ↔ ((k.1 = chain ∧ k.2.2 ∈ names) ∧ k ∈ dec.map keyOf ∧ k ∈ ref.map keyOf)) := by
  unfold identicalAtoms
  simp only
  obtain ⟨L, hL, hlen, hall⟩ := mapM_ok_exists
    (f := fun k => match dec.find? (fun a => decide (keyOf a = k)), ref.find? (fun a => decide (keyOf a = k)) with
      | some d, some r => Except.ok (ptOf d, ptOf r)
      | _, _ => Except.error Err.indexError)
    (P := fun k p => p.1 ∈ dec.map ptOf ∧ p.2 ∈ ref.map ptOf ∧ p.1.1 = k ∧ p.2.1 = k)
    (sortedSet keyLt ((selKeys dec chain names).filter (fun k => (selKeys ref chain names).contains k)))
    (by
      intro k hk
      simp only [mem_sortedSet, List.mem_filter, List.contains_eq_mem, decide_eq_true_eq, mem_selKeys] at hk
      obtain ⟨⟨hkd, _, _⟩, hkr, _, _⟩ := hk
      obtain ⟨d, hd, hdk⟩ := List.mem_map.mp hkd
      obtain ⟨r, hr, hrk⟩ := List.mem_map.mp hkr
      refine ⟨(ptOf d, ptOf r), ?_, List.mem_map.mpr ⟨d, hd, rfl⟩, List.mem_map.mpr ⟨r, hr, rfl⟩, hdk, hrk⟩
      rw [(find_key_eq_some hD).mpr ⟨hd, hdk⟩, (find_key_eq_some hR).mpr ⟨hr, hrk⟩])
  have hkeys : L.map (·.2.1) = sortedSet keyLt ((selKeys dec chain names).filter (fun k => (selKeys ref chain names).contains k)) :=
    map_eq_of_zip _ _ _ hlen (fun ab hab => (hall ab hab).2.2.2)
  refine ⟨L, hL, ?_, ?_, ?_⟩
  · intro p hp
    obtain ⟨a, ha⟩ := exists_zip_of_mem _ _ hlen p hp
    have := hall _ ha
    exact ⟨this.1, this.2.1, this.2.2.1.trans this.2.2.2.symm⟩
  · rw [hkeys]; exact asc_nodup strictTotal_keyLt (asc_sortedSet strictTotal_keyLt _)
  · intro k
    rw [hkeys]
    simp only [mem_sortedSet, List.mem_filter, List.contains_eq_mem, decide_eq_true_eq, mem_selKeys]
    tauto

theorem zip_map_fst_snd {α β : Type} (l : List (α × β)) : (l.map (·.1)).zip (l.map (·.2)) = l := by
  induction l with
  | nil => rfl
  | cons a l ih => simp [ih]

theorem kernelSql_pairs (L S : List Pair) :
    kernelSql (L.map (·.1)) (L.map (·.2)) (S.map (·.1)) (S.map (·.2)) =
      if L.length = 0 then .err .typeError else if S.length = 0 then .err .valueError else .value L S := by
  unfold kernelSql
  simp only [List.length_map, and_self, or_self, ne_eq, not_true_eq_false, if_false, if_true, zip_map_fst_snd]
  by_cases h : L.length = 0 <;> simp [h]

theorem sql_names_iff (n : Str) : n ∈ Spec.Rmsd.backboneNames ↔ n ∈ lrmsdSqlNames := by
  simp [Spec.Rmsd.backboneNames, lrmsdSqlNames, Gen.lrmsd_sql_backbone]

/-- **L-RMSD, SQL routine.** -/
theorem lrmsdSql_pairs {dec ref : List Atom} (hc : Cons dec ref) (enforce : Bool) :
    match lrmsdSql (.ok dec) (.ok ref) enforce with
    | .value fit ev => fit ≠ [] ∧ ev ≠ [] ∧ (∀ p ∈ fit ++ ev, p.1.1 = p.2.1) ∧
        (fit.map idPair).Perm (Spec.Rmsd.ligandFitPairs dec ref) ∧ (ev.map idPair).Perm (Spec.Rmsd.ligandEvalPairs dec ref)
    | .err e => (e = .valueError ∧ enforce = true ∧ checkResidues dec ref (some lrmsdSqlNames) true = .error .valueError) ∨
        (e = .typeError ∧ Spec.Rmsd.ligandFitPairs dec ref = []) ∨ (e = .valueError ∧ Spec.Rmsd.ligandEvalPairs dec ref = []) := by
  obtain ⟨c0, c1, hch, hchd⟩ := hc.two
  obtain ⟨hne, hin0, hin1, hall⟩ := getChains_two hch
  obtain ⟨A, hA, hA1, hA2, hA3⟩ := identicalAtoms_spec hc.nodupD hc.nodupR c0 lrmsdSqlNames
  obtain ⟨B, hB, hB1, hB2, hB3⟩ := identicalAtoms_spec hc.nodupD hc.nodupR c1 lrmsdSqlNames
  have hrun : lrmsdSql (.ok dec) (.ok ref) enforce =
      match checkResidues dec ref (some lrmsdSqlNames) enforce with
      | .error e => .err e
      | .ok _ =>
        if (chainRows ref c0).length ≥ (chainRows ref c1).length
        then kernelSql (A.map (·.1)) (A.map (·.2)) (B.map (·.1)) (B.map (·.2))
        else kernelSql (B.map (·.1)) (B.map (·.2)) (A.map (·.1)) (A.map (·.2)) := by
    unfold lrmsdSql
    simp only [hch, hchd, bind, Except.bind, pure, Except.pure, chainAt, ne_eq, not_true_eq_false, if_false,
      List.getElem?_cons_zero, List.getElem?_cons_succ, Outcome.ofExcept]
    cases hck : checkResidues dec ref (some lrmsdSqlNames) enforce with
    | error e => rfl
    | ok b =>
      simp only [hA, hB]
      split_ifs <;> rfl
  rw [hrun]
  cases hck : checkResidues dec ref (some lrmsdSqlNames) enforce with
  | error e => simp only; exact Or.inl (checkResidues_error hck)
  | ok b =>
    simp only
    have hls := longShort_eq hch
    -- the pairs of chain `ch` are the definition's common backbone atoms of that chain
    have hP : ∀ (ch : Str) (L : List Pair),
        (∀ p ∈ L, p.1 ∈ dec.map ptOf ∧ p.2 ∈ ref.map ptOf ∧ p.1.1 = p.2.1) → (L.map (·.2.1)).Nodup →
        (∀ k, k ∈ L.map (·.2.1) ↔ ((k.1 = ch ∧ k.2.2 ∈ lrmsdSqlNames) ∧ k ∈ dec.map keyOf ∧ k ∈ ref.map keyOf)) →
        (L.map idPair).Perm (Spec.Rmsd.commonBackbone dec ref (fun r => decide (r.chainID = ch))) := by
      intro ch L h1 h2 h3
      refine pairs_perm_spec hc.nodupD hc.nodupR _ (fun k => decide (k.2.2 ∈ lrmsdSqlNames) && decide (k.1 = ch)) ?_ L h1 h2 ?_
      · intro r _
        rw [Bool.eq_iff_iff]
        simp only [Spec.Rmsd.isBackbone, keyOf, sql_names_iff, Bool.and_eq_true, decide_eq_true_eq]
        exact ⟨fun h => ⟨decide_eq_true h.1, decide_eq_true h.2⟩, fun h => ⟨of_decide_eq_true h.1, of_decide_eq_true h.2⟩⟩
      · intro k
        rw [h3]
        simp only [Bool.and_eq_true, decide_eq_true_eq]
        tauto
    have hlong : longOf ref c0 c1 = if (chainRows ref c0).length ≥ (chainRows ref c1).length then c0 else c1 := by
      unfold longOf; split_ifs <;> first | rfl | omega
    by_cases hge : (chainRows ref c0).length ≥ (chainRows ref c1).length
    · have hl : longOf ref c0 c1 = c0 := by rw [hlong, if_pos hge]
      have hF : Spec.Rmsd.ligandFitPairs dec ref = Spec.Rmsd.commonBackbone dec ref (fun r => decide (r.chainID = c0)) := by
        unfold Spec.Rmsd.ligandFitPairs; rw [hls, hl]
      have hE : Spec.Rmsd.ligandEvalPairs dec ref = Spec.Rmsd.commonBackbone dec ref (fun r => decide (r.chainID = c1)) := by
        unfold Spec.Rmsd.ligandEvalPairs; rw [hls, hl]; simp
      rw [if_pos hge, kernelSql_pairs, hF, hE]
      have pA := hP c0 A hA1 hA2 hA3
      have pB := hP c1 B hB1 hB2 hB3
      split_ifs with h0 h0'
      · simp only
        refine Or.inr (Or.inl ⟨trivial, ?_⟩)
        rw [List.length_eq_zero_iff.mp h0] at pA; exact (List.Perm.nil_eq pA).symm
      · simp only
        refine Or.inr (Or.inr ⟨trivial, ?_⟩)
        rw [List.length_eq_zero_iff.mp h0'] at pB; exact (List.Perm.nil_eq pB).symm
      · simp only
        refine ⟨fun hz => h0 (by rw [hz]; rfl), fun hz => h0' (by rw [hz]; rfl), ?_, pA, pB⟩
        intro p hp
        rcases List.mem_append.mp hp with hp | hp
        · exact (hA1 p hp).2.2
        · exact (hB1 p hp).2.2
    · have hl : longOf ref c0 c1 = c1 := by rw [hlong, if_neg hge]
      have hF : Spec.Rmsd.ligandFitPairs dec ref = Spec.Rmsd.commonBackbone dec ref (fun r => decide (r.chainID = c1)) := by
        unfold Spec.Rmsd.ligandFitPairs; rw [hls, hl]
      have hE : Spec.Rmsd.ligandEvalPairs dec ref = Spec.Rmsd.commonBackbone dec ref (fun r => decide (r.chainID = c0)) := by
        unfold Spec.Rmsd.ligandEvalPairs; rw [hls, hl]; simp [Ne.symm hne]
      rw [if_neg hge, kernelSql_pairs, hF, hE]
      have pA := hP c0 A hA1 hA2 hA3
      have pB := hP c1 B hB1 hB2 hB3
      split_ifs with h0 h0'
      · simp only
        refine Or.inr (Or.inl ⟨trivial, ?_⟩)
        rw [List.length_eq_zero_iff.mp h0] at pB; exact (List.Perm.nil_eq pB).symm
      · simp only
        refine Or.inr (Or.inr ⟨trivial, ?_⟩)
        rw [List.length_eq_zero_iff.mp h0'] at pA; exact (List.Perm.nil_eq pA).symm
      · simp only
        refine ⟨fun hz => h0 (by rw [hz]; rfl), fun hz => h0' (by rw [hz]; rfl), ?_, pB, pA⟩
        intro p hp
        rcases List.mem_append.mp hp with hp | hp
        · exact (hB1 p hp).2.2
        · exact (hA1 p hp).2.2

end Proofs.Rmsd
