/-
  The translated contact code of interface.py IS the hand model (tie #1 for C05 / C14; the same code serves C08 and C11).

  `GenC.*` (Gen/Contacts.lean) is regenerated from the source on every run by py/translate_ext_contacts.py; the theorems below
  say that each regenerated definition equals the hand-written model of Model/Contacts.lean that Props/C05.lean and Props/C14.lean
  are stated about — for every table, every cutoff, every option combination, errors included — and transfer two of those
  property theorems to the generated code.  Proof structure (DESIGN 12.7): one normal-form lemma per generated unit
  (`get_chains_eq_model`, `extend_nf`, the loop-by-loop walk of `get_contact_atoms_eq_model` / `get_contact_residues_eq_model`
  with the continuation-passing loop lemmas of GenContactsRt, which take the loop bodies from the goal by unification), everything
  else on top of those.  Files: GenContactsRt (runtime = model's containers, loop lemmas), GenContactsA (constants, get_chains,
  _extend_contact_to_residue), GenContactsAtoms (get_contact_atoms), GenContactsRes (get_contact_residues), GenContactsTbl (the table
  accessor `Py.Tbl.select` = the C03 selection `Spec.selected` for the three keyword shapes interface.py uses), this file (summary, transfers).
-/
import PdbVerif.Proofs.GenContactsRes
import PdbVerif.Proofs.GenContactsTbl

set_option linter.unusedVariables false

namespace Proofs.GenContacts
open Model Proofs.Contacts

/-- an admissible iteration order of Python sets: `list(s)` has exactly the elements of `s` (every permutation qualifies) -/
def SetOrderOK (ord : List (Py.Str × Py.Str × Int) → List (Py.Str × Py.Str × Int)) : Prop := ∀ l x, x ∈ ord l ↔ x ∈ l

theorem setOrderOK_id : SetOrderOK id := fun _ _ => Iff.rfl
theorem setOrderOK_reverse : SetOrderOK List.reverse := fun _ _ => List.mem_reverse
theorem setOrderOK_of_perm (ord : List (Py.Str × Py.Str × Int) → List (Py.Str × Py.Str × Int)) (h : ∀ l, (ord l).Perm l) : SetOrderOK ord :=
  fun l _ => (h l).mem_iff

/-- `self.backbone_atoms` as the source has it = the names the model uses -/
theorem genc_backbone_atoms_eq_model : GenC.backbone_atoms = Model.backbone := backbone_atoms_eq_model

/-- the column types the translator read from `pdb2sql_base.col` are those of `Py.Atom` -/
theorem genc_col_types : GenC.col_types = Gen.col := by decide

/-- `get_chains()` -/
theorem genc_get_chains_eq_model (t : List Py.Atom) : GenC.get_chains t = Model.getChains t := get_chains_eq_model t

/-- `_extend_contact_to_residue(index1, only_backbone_atoms)` = `Model.extendToResidue`, whatever the iteration order of
    `list(set(dataA))` -/
theorem genc_extend_contact_to_residue_eq_model (ord : List (Py.Str × Py.Str × Int) → List (Py.Str × Py.Str × Int)) (hord : SetOrderOK ord)
    (t : List Py.Atom) (S : List Nat) (bb : Bool) :
    GenC._extend_contact_to_residue ord t S bb = .ok (Model.extendToResidue t S bb) := extend_eq_model ord hord t S bb

/-- the result does not depend on the iteration order of the set -/
theorem genc_extend_order_irrelevant (ord ord' : List (Py.Str × Py.Str × Int) → List (Py.Str × Py.Str × Int))
    (h : SetOrderOK ord) (h' : SetOrderOK ord') (t : List Py.Atom) (S : List Nat) (bb : Bool) :
    GenC._extend_contact_to_residue ord t S bb = GenC._extend_contact_to_residue ord' t S bb := by
  rw [extend_eq_model ord h, extend_eq_model ord' h']

/-- … and it is the Spec's closure (C14 `extension_is_closure`, transferred to the generated code) -/
theorem genc_extend_is_closure (ord : List (Py.Str × Py.Str × Int) → List (Py.Str × Py.Str × Int)) (hord : SetOrderOK ord)
    (t : List Py.Atom) (S : List Nat) (bb : Bool) :
    GenC._extend_contact_to_residue ord t S bb = .ok (Spec.Contact.extension Model.backbone t S bb) := by
  rw [extend_eq_model ord hord, extendToResidue_eq]

/-- `get_contact_atoms(cutoff, allchains, chain1, chain2, extend_to_residue, only_backbone_atoms, excludeH, return_contact_pairs)` =
    `Model.contactAtoms`: same dictionary, same key order, same lists, same exception (`outSum`: `Sum.inl` = the pair map,
    `Sum.inr` = the per-chain dictionary) -/
theorem genc_get_contact_atoms_eq_model (ord : List (Py.Str × Py.Str × Int) → List (Py.Str × Py.Str × Int)) (hord : SetOrderOK ord)
    (t : List Py.Atom) (a : ContactArgs) :
    GenC.get_contact_atoms ord t a.cutoff a.allchains a.chain1 a.chain2 a.extend a.bb a.noH a.retPairs =
      (Model.contactAtoms t a).map outSum := get_contact_atoms_eq_model ord hord t a

/-- `get_contact_residues(cutoff, allchains, chain1, chain2, excludeH, only_backbone_atoms, return_contact_pairs)` =
    `Model.contactResiduePairs` / `Model.contactResidueSets` (equality of the returned values) -/
theorem genc_get_contact_residues_eq_model (ord : List (Py.Str × Py.Str × Int) → List (Py.Str × Py.Str × Int)) (hord : SetOrderOK ord)
    (t : List Py.Atom) (a : ContactArgs) :
    GenC.get_contact_residues ord t a.cutoff a.allchains a.chain1 a.chain2 a.noH a.bb a.retPairs =
      if a.retPairs then (Model.contactResiduePairs t a).map Sum.inl else (Model.contactResidueSets t a).map Sum.inr :=
  get_contact_residues_eq_model ord hord t a

/-- C05 `contacts_two_chain_returned`, transferred: for two different chains of the structure the GENERATED function returns the
    Spec's per-chain lists / pair map -/
theorem genc_contact_atoms_two_chain (ord : List (Py.Str × Py.Str × Int) → List (Py.Str × Py.Str × Int)) (hord : SetOrderOK ord)
    (t : List Py.Atom) (a : ContactArgs) (hall : a.allchains = false) (hne : a.chain1 ≠ a.chain2)
    (h1 : a.chain1 ∈ getChains t) (h2 : a.chain2 ∈ getChains t) (hext : a.extend = false) :
    GenC.get_contact_atoms ord t a.cutoff a.allchains a.chain1 a.chain2 a.extend a.bb a.noH a.retPairs =
      .ok (if a.retPairs then Sum.inl (Spec.Contact.pairMap (params a) t a.chain1 a.chain2)
           else Sum.inr (Spec.Contact.twoChains (params a) t a.chain1 a.chain2)) := by
  rw [get_contact_atoms_eq_model ord hord, Model.contactAtoms, contactRun_two_chain t a hall hne h1 h2 hext]
  cases a.retPairs <;> rfl

/-- an unknown chain is rejected with ValueError by the generated function too -/
theorem genc_unknown_chain_rejected (ord : List (Py.Str × Py.Str × Int) → List (Py.Str × Py.Str × Int)) (hord : SetOrderOK ord)
    (t : List Py.Atom) (a : ContactArgs) (hall : a.allchains = false) (h : a.chain1 ∉ getChains t ∨ a.chain2 ∉ getChains t) :
    GenC.get_contact_atoms ord t a.cutoff a.allchains a.chain1 a.chain2 a.extend a.bb a.noH a.retPairs = .error Py.Err.valueError := by
  rw [get_contact_atoms_eq_model ord hord, Model.contactAtoms, contactRun_unknown t a hall h]
  rfl

end Proofs.GenContacts
