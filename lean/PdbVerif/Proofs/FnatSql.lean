/-
  C08, step 4 (SQL route): `_fix_chainID` on a two-chain table in closed form (chains renamed A, B), the pair lists of the
  renamed tables, and `Model.Fnat.fnatSql = Spec.C08.fnat`.  Helper lemmas only.
-/
import PdbVerif.Proofs.FnatFast

set_option linter.unusedSectionVars false
set_option linter.unusedVariables false

namespace Proofs.Fnat
open Py Model Model.Fnat Proofs.Contacts
open Spec.C08 (Res resOf inContact contacts residues preserved NamesConsistent within)

def chA : Str := ['A']
def chB : Str := ['B']

/-- what `_fix_chainID` does to an atom of a table whose chains are `[X, Y]` -/
def ren (X Y : Str) (a : Atom) : Atom :=
  { a with chainID := if a.chainID = Y then chB else if a.chainID = X then chA else [] }

theorem zip_map_self' {β γ δ : Type} (l : List β) (f : β → γ) (g : β × γ → δ) :
    (l.zip (l.map f)).map g = l.map (fun x => g (x, f x)) := by
  induction l with
  | nil => rfl
  | cons x l ih => simp [ih]

theorem fixStep_map (t : List Atom) (f : Atom → Str) (ch : Str) (k : Nat) :
    fixStep t (t.map f) (ch, k) = t.map (fun a => if a.chainID = ch then [asciiUppercase.getD k ' '] else f a) := by
  unfold fixStep
  exact zip_map_self' t f _

theorem fixChainID_two {t : List Atom} {X Y : Str} (h : getChains t = [X, Y]) : fixChainID t = .ok (t.map (ren X Y)) := by
  unfold fixChainID
  simp only [h, List.length_cons, List.length_nil]
  have e0 : List.replicate t.length ([] : Str) = t.map (fun _ => ([] : Str)) := by
    induction t with
    | nil => rfl
    | cons a t ih => simp [List.replicate_succ]
  have ez : ([X, Y] : List Str).zipIdx = [(X, 0), (Y, 1)] := rfl
  simp only [ez, List.foldl_cons, List.foldl_nil, e0, fixStep_map]
  have : ¬ (0 + 1 + 1 > 26) := by omega
  simp only [this, if_false, pure, Except.pure]
  congr 1
  rw [zip_map_self']
  apply List.map_congr_left
  intro a _
  simp only [ren]
  have eA : asciiUppercase.getD 0 ' ' = 'A' := rfl
  have eB : asciiUppercase.getD 1 ' ' = 'B' := rfl
  rw [eA, eB]
  rfl

theorem chain_cases {t : List Atom} {X Y : Str} (h : getChains t = [X, Y]) {a : Atom} (ha : a ∈ t) :
    a.chainID = X ∨ a.chainID = Y := by
  have := mem_getChains.2 ⟨a, ha, rfl⟩
  rw [h] at this
  simpa using this

theorem ren_chain_X {X Y : Str} (hne : X ≠ Y) {a : Atom} (h : a.chainID = X) : (ren X Y a).chainID = chA := by
  simp [ren, h, hne]
theorem ren_chain_Y {X Y : Str} {a : Atom} (h : a.chainID = Y) : (ren X Y a).chainID = chB := by
  simp [ren, h]

theorem chA_ne_chB : chA ≠ chB := by decide

theorem getChains_ren {t : List Atom} {X Y : Str} (h : getChains t = [X, Y]) : getChains (t.map (ren X Y)) = [chA, chB] := by
  obtain ⟨hne, _, h1, h2⟩ := two_of_getChains h
  unfold getChains
  apply sortedSet_eq_of_asc strictTotal_ltStr
  · show List.Pairwise _ [chA, chB]
    simp only [List.pairwise_cons, List.mem_cons, List.mem_nil_iff, or_false, forall_eq, List.not_mem_nil, false_imp_iff,
      implies_true, List.Pairwise.nil, and_true]
    decide
  · intro z
    simp only [List.map_map, List.mem_map, Function.comp, List.mem_cons, List.mem_nil_iff, or_false]
    constructor
    · rintro ⟨a, ha, rfl⟩
      rcases chain_cases h ha with hc | hc
      · exact Or.inl (ren_chain_X hne hc)
      · exact Or.inr (ren_chain_Y hc)
    · rintro (rfl | rfl)
      · obtain ⟨a, ha, hc⟩ := mem_getChains.1 h1
        exact ⟨a, ha, ren_chain_X hne hc⟩
      · obtain ⟨a, ha, hc⟩ := mem_getChains.1 h2
        exact ⟨a, ha, ren_chain_Y hc⟩

/-- the residue key after renaming, and the way back to the residue -/
def keyR (X Y : Str) (a : Atom) : ResKey := resKey (ren X Y a)
def unR (X Y : Str) (K : ResKey) : Res := (if K.1 = chA then X else Y, K.2.1)

theorem keyOK_ren {s : List Atom} {X Y : Str} (hne : X ≠ Y) (hs : ∀ a ∈ s, a.chainID = X ∨ a.chainID = Y) :
    KeyOK s (keyR X Y) (unR X Y) where
  un_key a ha := by
    rcases hs a ha with hc | hc
    · simp [unR, keyR, resKey, ren_chain_X hne hc, resOf, hc]; rfl
    · simp [unR, keyR, resKey, ren_chain_Y hc, resOf, hc, chA_ne_chB.symm]; rfl
  key_eq a _ a' _ h hn := by
    simp only [resOf, Prod.mk.injEq] at h
    simp only [keyR, resKey, ren, Prod.mk.injEq, h.1, h.2, hn, and_self]

theorem heavy_ren (X Y : Str) (a : Atom) : heavy (ren X Y a) = heavy a := rfl
theorem within_ren (X Y : Str) (c : Rat) (a b : Atom) : within c (ren X Y a) (ren X Y b) = within c a b := rfl

theorem ren_chain_A_inv {t : List Atom} {X Y : Str} (h : getChains t = [X, Y]) {a : Atom} (ha : a ∈ t)
    (hc : (ren X Y a).chainID = chA) : a.chainID = X := by
  rcases chain_cases h ha with h1 | h1
  · exact h1
  · rw [ren_chain_Y h1] at hc; exact absurd hc.symm chA_ne_chB

theorem ren_chain_B_inv {t : List Atom} {X Y : Str} (h : getChains t = [X, Y]) {a : Atom} (ha : a ∈ t)
    (hc : (ren X Y a).chainID = chB) : a.chainID = Y := by
  obtain ⟨hne, _, _, _⟩ := two_of_getChains h
  rcases chain_cases h ha with h1 | h1
  · rw [ren_chain_X hne h1] at hc; exact absurd hc chA_ne_chB
  · exact h1

theorem touch_ren {t : List Atom} {X Y : Str} (h : getChains t = [X, Y]) (c : Rat) (K K' : ResKey) :
    Touch c (t.map (ren X Y)) chA chB K K' ↔ TouchK c t X Y (keyR X Y) K K' := by
  obtain ⟨hne, _, _, _⟩ := two_of_getChains h
  constructor
  · rintro ⟨x', hx', y', hy', hcx, hcy, hhx, hhy, hw, hkx, hky⟩
    obtain ⟨x, hx, rfl⟩ := List.mem_map.1 hx'
    obtain ⟨y, hy, rfl⟩ := List.mem_map.1 hy'
    exact ⟨x, hx, y, hy, ren_chain_A_inv h hx hcx, ren_chain_B_inv h hy hcy, hhx, hhy, hw, hkx, hky⟩
  · rintro ⟨x, hx, y, hy, hcx, hcy, hhx, hhy, hw, hkx, hky⟩
    exact ⟨ren X Y x, List.mem_map.2 ⟨x, hx, rfl⟩, ren X Y y, List.mem_map.2 ⟨y, hy, rfl⟩,
      ren_chain_X hne hcx, ren_chain_Y hcy, hhx, hhy, hw, hkx, hky⟩

theorem distinctFirst_of_nodup {α : Type} [DecidableEq α] : ∀ {l : List α}, l.Nodup → distinctFirst l = l
  | [], _ => rfl
  | x :: xs, h => by
    simp only [List.nodup_cons] at h
    simp only [distinctFirst, distinctFirst_of_nodup h.2, List.cons.injEq, true_and]
    rw [List.filter_eq_self]
    intro y hy
    simp only [decide_eq_true_eq]
    intro hyx; subst hyx; exact h.1 hy

/-- **the SQL route equals the definition** -/
theorem fnatSql_eq {ref dec : List Atom} {X Y : Str} (c : Rat)
    (hr : getChains ref = [X, Y]) (hd : getChains dec = [X, Y]) (hn : NamesConsistent (ref ++ dec)) :
    fnatSql ref dec c =
      orZeroDiv (Spec.C08.fnat c ref dec) := by
  obtain ⟨hne, _, _, _⟩ := two_of_getChains hr
  obtain ⟨Dr, hDr, hndr, hmr⟩ := pairs_char (getChains_ren hr) c
  obtain ⟨Dd, hDd, _, hmd⟩ := pairs_char (getChains_ren hd) c
  have hchains : ∀ a ∈ ref ++ dec, a.chainID = X ∨ a.chainID = Y := by
    intro a ha
    rcases List.mem_append.1 ha with ha | ha
    · exact chain_cases hr ha
    · exact chain_cases hd ha
  have hk := keyOK_ren hne hchains
  have hcnt := counts_eq hr hn hk hndr (fun K K' => (hmr K K').trans (touch_ren hr c K K'))
    (fun p => (flattenPairs Dd).contains p) (by
      intro K K' hKK'
      rw [List.contains_iff_mem, hmd K K', touch_ren hd c K K']
      constructor
      · rintro ⟨a, ha, b, hb, _, _, hha, hhb, hw, hka, hkb⟩; exact ⟨a, ha, b, hb, hha, hhb, hw, hka, hkb⟩
      · rintro ⟨a, ha, b, hb, hha, hhb, hw, hka, hkb⟩
        obtain ⟨x, hx, y, hy, hcx, hcy, _, _, _, hkx, hky⟩ := ((hmr K K').trans (touch_ren hr c K K')).1 hKK'
        have ra : resOf a = resOf x := by
          rw [← hk.un_key a (List.mem_append_right _ ha), hka, ← hkx, hk.un_key x (List.mem_append_left _ hx)]
        have rb : resOf b = resOf y := by
          rw [← hk.un_key b (List.mem_append_right _ hb), hkb, ← hky, hk.un_key y (List.mem_append_left _ hy)]
        have ca : a.chainID = X := by
          have := congrArg Prod.fst ra; simp only [resOf] at this; rw [this]; exact hcx
        have cb : b.chainID = Y := by
          have := congrArg Prod.fst rb; simp only [resOf] at this; rw [this]; exact hcy
        exact ⟨a, ha, b, hb, ca, cb, hha, hhb, hw, hka, hkb⟩)
  rw [spec_fnat_eq, ← hcnt.1, ← hcnt.2]
  unfold fnatSql
  simp only [fixChainID_two hr, fixChainID_two hd, getChains_ren hr, hDr, hDd, bind, Except.bind, nCommonSql,
    distinctFirst_of_nodup hndr]

end Proofs.Fnat
