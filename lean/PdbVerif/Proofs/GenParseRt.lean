/-
  Runtime lemmas for the translated parsing code (Gen/ParseLoop.lean, namespace `GenP`): the `Except` monad, `List.foldlM`
  loops, the dictionary look-ups of the runtime against `Model.lookup`, `line.split('\n')[0]`, `str.count` on the needle of
  `read_pdb`, `str.replace` of one character.  Helper lemmas only (re-exported theorems live in Proofs/GenParse{Loop,Read,Chain}.lean).
-/
import PdbVerif.Gen.ParseLoop
import PdbVerif.Model.Parse

set_option linter.unusedVariables false
set_option linter.unusedSimpArgs false
set_option linter.unusedSectionVars false

namespace Proofs.GenParse
open Py

/-! ### the `Except` monad -/

theorem ok_bind {ε α β : Type} (a : α) (f : α → Except ε β) : (Except.ok a >>= f) = f a := rfl
theorem error_bind {ε α β : Type} (e : ε) (f : α → Except ε β) : ((Except.error e : Except ε α) >>= f) = Except.error e := rfl
theorem pure_eq_ok {ε α : Type} (a : α) : (pure a : Except ε α) = Except.ok a := rfl
theorem throw_eq_error {ε α : Type} (e : ε) : (throw e : Except ε α) = Except.error e := rfl
theorem bind_ok_eq {ε α : Type} (x : Except ε α) : (x >>= fun a => Except.ok a) = x := by cases x <;> rfl
theorem map_eq_bind {ε α β : Type} (f : α → β) (x : Except ε α) : f <$> x = x >>= fun a => Except.ok (f a) := by
  cases x <;> rfl
theorem exceptMap_eq_bind {ε α β : Type} (f : α → β) (x : Except ε α) : Except.map f x = x >>= fun a => Except.ok (f a) := by
  cases x <;> rfl

theorem ite_bind {ε α β : Type} (c : Prop) [Decidable c] (x y : Except ε α) (f : α → Except ε β) :
    ((if c then x else y) >>= f) = if c then x >>= f else y >>= f := by
  by_cases h : c <;> simp [h]

theorem bind_congr' {ε α β : Type} {x : Except ε α} {f g : α → Except ε β} (h : ∀ a, f a = g a) : (x >>= f) = (x >>= g) := by
  have : f = g := funext h
  rw [this]

theorem foldlM_congr {ε σ α : Type} {f g : σ → α → Except ε σ} (h : ∀ s x, f s x = g s x) (init : σ) (l : List α) :
    List.foldlM f init l = List.foldlM g init l := by
  have : f = g := by funext s x; exact h s x
  rw [this]

/-- a loop whose body cannot fail is a `foldl` -/
theorem foldlM_pure {ε σ α : Type} (g : σ → α → σ) : ∀ (l : List α) (init : σ),
    List.foldlM (fun s x => (Except.ok (g s x) : Except ε σ)) init l = Except.ok (l.foldl g init)
  | [], init => rfl
  | x :: xs, init => by rw [List.foldlM_cons, ok_bind, foldlM_pure g xs]; rfl

/-- push binds through `if`s and `ok`s -/
macro "except_norm" : tactic =>
  `(tactic| simp only [bind_assoc, ok_bind, error_bind, pure_eq_ok, throw_eq_error, ite_bind, decide_eq_true_eq, id,
      Bool.not_eq_true', Bool.and_eq_true, Bool.or_eq_true, bind_ok_eq, Bool.not_not])

/-! ### dictionaries of the class: the runtime's look-up is the model's -/

theorem dictGet?_eq_lookup {ν : Type} (d : List (String × ν)) (k : String) : GenP.Rt.dictGet? d k = Model.lookup k d := by
  induction d with
  | nil => rfl
  | cons a d ih => obtain ⟨k', v⟩ := a; simp only [GenP.Rt.dictGet?, Model.lookup, ih]

theorem dictHas_eq {ν : Type} (d : List (String × ν)) (k : String) : GenP.Rt.dictHas d k = (Model.lookup k d).isSome := by
  simp only [GenP.Rt.dictHas, dictGet?_eq_lookup]

theorem dictGet_eq {ν : Type} (d : List (String × ν)) (k : String) :
    GenP.Rt.dictGet d k = (match Model.lookup k d with | some v => Except.ok v | none => Except.error Err.keyError) := by
  unfold GenP.Rt.dictGet
  rw [dictGet?_eq_lookup]
  cases Model.lookup k d <;> rfl

/-! ### `line.split('\n')[0]` -/

theorem splitOn_head (c : Char) : ∀ s : Str, ∃ t, Py.splitOn c s = s.takeWhile (· ≠ c) :: t
  | [] => ⟨[], rfl⟩
  | x :: xs => by
    obtain ⟨t, ht⟩ := splitOn_head c xs
    by_cases hx : x = c
    · exact ⟨Py.splitOn c xs, by simp [Py.splitOn, hx]⟩
    · exact ⟨t, by simp [Py.splitOn, hx, ht]⟩

theorem listGet_splitOn_zero (s : Str) : Py.listGet (Py.splitOn '\n' s) (0 : Int) = Except.ok (Model.firstLine s) := by
  obtain ⟨t, ht⟩ := splitOn_head '\n' s
  rw [ht]
  rfl

end Proofs.GenParse
