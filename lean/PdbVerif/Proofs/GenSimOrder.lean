/-
  The 'arbitrary set order' gap, closed at the level of the VALUE.
    * `sqlKernel_eq_radicand`: the translated kernel glue of the two SQL routes (`self.origin = 0`) IS `Model.Rmsd.radicand` (the radicand of
      `superpose_selection` + `get_rmsd` Props/C07 is stated about) on the pair lists;
    * `gens_lrmsd_pairs_any_order`: for EVERY admissible iteration order of Python sets (`OrderOK`), whenever the hand model returns the pair lists
      `fit`, `ev`, the generated `compute_lrmsd_pdb2sql` hands the kernel a SIMULTANEOUS PERMUTATION of them (`mapM_perm`: the look-ups over a
      permutation of the shared keys succeed together with permuted results; `lrmsdPairs_perm`);
    * `gens_lrmsd_value_any_order` / `gens_lrmsd_value_is_definition`: composed with the permutation invariance of Proofs/RmsdMsd.lean
      (`isFitThenEval_perm`, the theorem behind `Props.C07.rmsd_perm_invariant`) and the kernel contract `KernelOptimalAt` of Props/C07: the value
      returned is a fit-then-evaluate value of the MODEL's pairs, and on a consistent pair of the DEFINITION's pairs (Spec/C07);
    * `gens_irmsd_radicand_any_order` / `gens_irmsd_value_any_order`: the i-RMSD pairing does not depend on a set order at all (the contact
      routine and the `len(list(set(…)))` tests are order-free): generated = the model's radicand on the model's pairs, the minimum over rigid motions.
  The kernel is the rational parameter of the generated code (`grm`); the statements are over `Rat`, where Proofs/RmsdMsd.lean applies as well.
-/
import PdbVerif.Proofs.GenSimIrmsdPair
import PdbVerif.Proofs.GenKernels
import PdbVerif.Proofs.RmsdMsd
import PdbVerif.Proofs.GenSimRoutes

set_option linter.unusedVariables false
set_option linter.unusedSimpArgs false

namespace Proofs.GenSim
open Py Model Model.Rmsd Proofs.GenRmsd

/-! ### the translated kernel glue of the SQL routes is the model's radicand -/

/-- coordinates of a list of (decoy, reference) pairs -/
def pairCoords (l : List Pair) : List (Vec3 Rat × Vec3 Rat) := l.map (fun p => (p.1.2, p.2.2))

theorem sumSq_shift (t : Vec3 Rat) : ∀ (X Y : List (Vec3 Rat)),
    sumSq (X.map (fun p => Vec3.sub p t)) Y = sumSq X (Y.map (fun p => Vec3.add p t))
  | [], _ => by simp [sumSq]
  | _ :: _, [] => by simp [sumSq]
  | x :: X, y :: Y => by
    simp only [List.map_cons, sumSq, sumSq_shift t X Y]
    congr 1
    simp only [Vec3.normSq, Vec3.dot, Vec3.sub, Vec3.add]
    ring

/-- the tail of `compute_lrmsd_pdb2sql` / `compute_irmsd_pdb2sql` (translate both sides by their fitting centroids, rotate the decoy side
    about the origin, compare with the TRANSLATED reference side) computes the radicand of `superpose_selection` + `get_rmsd` (which
    translates the decoy side back and compares with the untranslated reference side) -/
theorem sqlKernel_eq_radicand {μ : Type} (grm : List (Vec3 Rat) → List (Vec3 Rat) → μ → Except Err (Mat3 Rat)) (method : μ)
    (fit ev : List Pair) :
    sqlKernel grm ⟨0, 0, 0⟩ method (fit.map (·.1.2), fit.map (·.2.2), ev.map (·.1.2), ev.map (·.2.2)) =
      Model.Rmsd.radicand (fun P Q => grm P Q method) (pairCoords fit) (pairCoords ev) := by
  unfold sqlKernel Model.Rmsd.radicand superposeSelection pairCoords
  simp only [Proofs.GenKernels.genk_get_trans_vect_eq_model, Proofs.GenKernels.genk_rotate_eq_model,
    Proofs.GenKernels.genk_get_rmsd_radicand_eq_model, Np.addRow, List.map_map, Function.comp_def, Model.rotate]
  cases grm _ _ method with
  | error e => rfl
  | ok U =>
    simp only [ok_bind, meanSq]
    congr 2
    · simp [rotateAbout]
    · rw [sumSq_shift]
      simp only [List.map_map, Function.comp_def]
      rfl


/-! ### a loop of look-ups over a permuted key list -/

theorem mapM_ok_iff {κ β : Type} (f : κ → Except Err β) : ∀ (l : List κ) (r : List β),
    l.mapM f = .ok r ↔ List.Forall₂ (fun k b => f k = .ok b) l r
  | [], r => by
    constructor
    · intro h; cases h; exact List.Forall₂.nil
    · intro h; cases h; rfl
  | k :: ks, r => by
    rw [List.mapM_cons]
    constructor
    · intro h
      cases hk : f k with
      | error e => simp [hk, error_bind] at h
      | ok b =>
        simp only [hk, ok_bind] at h
        cases hks : ks.mapM f with
        | error e => simp [hks, error_bind] at h
        | ok bs =>
          simp only [hks, ok_bind, pure_eq_ok, Except.ok.injEq] at h
          subst h
          exact List.Forall₂.cons hk ((mapM_ok_iff f ks bs).mp hks)
    · intro h
      cases h with
      | cons hk hks =>
        rw [hk, ok_bind, (mapM_ok_iff f ks _).mpr hks]
        rfl

theorem forall₂_perm {κ β : Type} {R : κ → β → Prop} {l₁ l₂ : List κ} (hp : l₁.Perm l₂) :
    ∀ {r₁ : List β}, List.Forall₂ R l₁ r₁ → ∃ r₂, List.Forall₂ R l₂ r₂ ∧ r₁.Perm r₂ := by
  induction hp with
  | nil => intro r₁ h; cases h; exact ⟨[], List.Forall₂.nil, List.Perm.nil⟩
  | cons x _ ih =>
    intro r₁ h
    cases h with
    | cons hx ht =>
      obtain ⟨r₂, h2, hp2⟩ := ih ht
      exact ⟨_ :: r₂, List.Forall₂.cons hx h2, hp2.cons _⟩
  | swap x y l =>
    intro r₁ h
    cases h with
    | cons hy ht =>
      cases ht with
      | cons hx ht' => exact ⟨_ :: _ :: _, List.Forall₂.cons hx (List.Forall₂.cons hy ht'), List.Perm.swap _ _ _⟩
  | trans _ _ ih1 ih2 =>
    intro r₁ h
    obtain ⟨r₂, h2, hp2⟩ := ih1 h
    obtain ⟨r₃, h3, hp3⟩ := ih2 h2
    exact ⟨r₃, h3, hp2.trans hp3⟩

/-- the look-ups over a permutation of the keys succeed together, with the results permuted the same way -/
theorem mapM_perm {κ β : Type} (f : κ → Except Err β) {l₁ l₂ : List κ} (hp : l₁.Perm l₂) {r₁ : List β} (h : l₁.mapM f = .ok r₁) :
    ∃ r₂, l₂.mapM f = .ok r₂ ∧ r₁.Perm r₂ := by
  obtain ⟨r₂, h2, hp2⟩ := forall₂_perm hp ((mapM_ok_iff f l₁ r₁).mp h)
  exact ⟨r₂, (mapM_ok_iff f l₂ r₂).mpr h2, hp2⟩


/-! ### stage A of the L-RMSD SQL route on pair lists -/

/-- stage A with the shared atoms of a chain as a list of (decoy, reference) pairs: (fitting pairs, evaluation pairs) -/
def lrmsdPairs (identP : Str → Except Err (List Pair)) (td tr : List Atom) (cr : Except Err Bool) : Except Err (List Pair × List Pair) :=
  if getChains td ≠ getChains tr then .error .valueError
  else chainAt (getChains td) 0 >>= fun c1 => chainAt (getChains td) 1 >>= fun c2 =>
    cr >>= fun _ => identP c1 >>= fun A => identP c2 >>= fun B =>
      if (chainRows tr c1).length ≥ (chainRows tr c2).length then .ok (A, B) else .ok (B, A)

theorem lists_of_pairs {β : Type} (f g : Pair → β) (identP : Str → Except Err (List Pair)) (td tr : List Atom) (cr : Except Err Bool) :
    lrmsdSqlLists (fun c => identP c >>= fun ps => Except.ok (ps.map f, ps.map g)) td tr cr =
      lrmsdPairs identP td tr cr >>= fun FE => Except.ok (FE.1.map f, FE.1.map g, FE.2.map f, FE.2.map g) := by
  unfold lrmsdSqlLists lrmsdPairs
  by_cases hch : getChains td ≠ getChains tr
  · simp [hch, error_bind]
  · simp only [hch, if_false, bind_assoc]
    apply bind_congr'; intro c1
    apply bind_congr'; intro c2
    apply bind_congr'; intro _
    cases identP c1 with
    | error e => rfl
    | ok A =>
      simp only [ok_bind]
      cases identP c2 with
      | error e => rfl
      | ok B =>
        simp only [ok_bind]
        by_cases hn : (chainRows tr c1).length ≥ (chainRows tr c2).length
        · simp only [hn, if_true, ok_bind]
        · simp only [hn, if_false, ok_bind]

/-- stage A does not depend on the order in which the shared atoms of a chain are listed — up to that order -/
theorem lrmsdPairs_perm (id1 id2 : Str → Except Err (List Pair))
    (h : ∀ c A, id2 c = .ok A → ∃ A', id1 c = .ok A' ∧ A'.Perm A) (td tr : List Atom) (cr : Except Err Bool) (F E : List Pair)
    (hm : lrmsdPairs id2 td tr cr = .ok (F, E)) :
    ∃ F' E', lrmsdPairs id1 td tr cr = .ok (F', E') ∧ F'.Perm F ∧ E'.Perm E := by
  unfold lrmsdPairs at hm ⊢
  by_cases hch : getChains td ≠ getChains tr
  · simp [hch] at hm
  · simp only [hch, if_false] at hm ⊢
    cases h0 : chainAt (getChains td) 0 with
    | error e => simp [h0, error_bind] at hm
    | ok c1 =>
    cases h1 : chainAt (getChains td) 1 with
    | error e => simp [h0, h1, ok_bind, error_bind] at hm
    | ok c2 =>
    cases hcr : cr with
    | error e => simp [h0, h1, hcr, ok_bind, error_bind] at hm
    | ok b =>
    cases hA : id2 c1 with
    | error e => simp [h0, h1, hcr, hA, ok_bind, error_bind] at hm
    | ok A =>
    cases hB : id2 c2 with
    | error e => simp [h0, h1, hcr, hA, hB, ok_bind, error_bind] at hm
    | ok B =>
      obtain ⟨A', hA', pA⟩ := h c1 A hA
      obtain ⟨B', hB', pB⟩ := h c2 B hB
      simp only [h0, h1, hcr, hA, hB, ok_bind] at hm
      simp only [ok_bind, hA', hB']
      by_cases hn : (chainRows tr c1).length ≥ (chainRows tr c2).length
      · simp only [hn, if_true, Except.ok.injEq, Prod.mk.injEq] at hm ⊢
        exact ⟨A', B', ⟨rfl, rfl⟩, hm.1 ▸ pA, hm.2 ▸ pB⟩
      · simp only [hn, if_false, Except.ok.injEq, Prod.mk.injEq] at hm ⊢
        exact ⟨B', A', ⟨rfl, rfl⟩, hm.1 ▸ pB, hm.2 ▸ pA⟩


/-! ### `compute_lrmsd_pdb2sql` for an arbitrary iteration order of Python sets: the value -/

/-- the generated route through the pair lists: stage A on pairs (look-ups over the shared keys in set order), then the model's radicand -/
theorem gens_lrmsd_via_pairs {μ : Type} (ord : ∀ {α : Type}, List α → List α) (p2s : Str → Except Err (List Atom))
    (grm : List (Vec3 Rat) → List (Vec3 Rat) → μ → Except Err (Mat3 Rat)) (decoy ref : Str) (enforce : Bool) (method : μ)
    (kw : GenS.Rt3.Kw) (td tr : List Atom) (hd : p2s decoy = .ok td) (hr : p2s ref = .ok tr) :
    GenS.compute_lrmsd_pdb2sql ord p2s grm decoy ref enforce ⟨0, 0, 0⟩ method kw =
      lrmsdPairs (fun c => (ord (sharedKeys td tr c (lrmsdKw kw))).mapM (lookupPair td tr)) td tr
          (GenS.check_residues p2s decoy ref enforce (lrmsdKw kw)) >>= fun FE =>
        Model.Rmsd.radicand (fun P Q => grm P Q method) (pairCoords FE.1) (pairCoords FE.2) := by
  rw [gens_compute_lrmsd_pdb2sql_stages ord p2s grm decoy ref enforce ⟨0, 0, 0⟩ method kw td tr hd hr]
  have hid : (fun c => GenS.get_identical_atoms ord td tr c (lrmsdKw kw)) =
      (fun c => (ord (sharedKeys td tr c (lrmsdKw kw))).mapM (lookupPair td tr) >>= fun ps =>
        Except.ok (ps.map (fun (p : Pair) => p.1.2), ps.map (fun (p : Pair) => p.2.2))) := by
    funext c
    rw [gens_get_identical_atoms_nf]
    rfl
  rw [hid, lists_of_pairs, bind_assoc]
  apply bind_congr'; intro FE
  rw [ok_bind]
  exact sqlKernel_eq_radicand grm method FE.1 FE.2

/-- the hand model through the pair lists -/
theorem lrmsdSql_via_pairs (td tr : List Atom) (enforce : Bool) :
    lrmsdSql (.ok td) (.ok tr) enforce =
      Outcome.ofExcept (lrmsdPairs (fun c => identicalAtoms td tr c lrmsdSqlNames) td tr (checkResidues td tr (some lrmsdSqlNames) enforce) >>= fun FE =>
        Except.ok (kernelSql (FE.1.map (·.1)) (FE.1.map (·.2)) (FE.2.map (·.1)) (FE.2.map (·.2)))) := by
  rw [lrmsdSql_model_stages, lists_of_pairs, bind_assoc]
  rfl

theorem zip_fst_snd {α β : Type} : ∀ (l : List (α × β)), (l.map (·.1)).zip (l.map (·.2)) = l
  | [] => rfl
  | x :: xs => by simp [zip_fst_snd xs]

theorem kernelSql_value (F E fit ev : List Pair)
    (h : kernelSql (F.map (·.1)) (F.map (·.2)) (E.map (·.1)) (E.map (·.2)) = .value fit ev) : fit = F ∧ ev = E ∧ F ≠ [] := by
  unfold kernelSql at h
  simp only [List.length_map, and_self, or_self, ne_eq, not_true_eq_false, if_false, if_true, zip_fst_snd] at h
  by_cases hF : F.length = 0
  · simp [hF] at h
  · simp only [hF, if_false] at h
    by_cases hE : E.length = 0
    · simp [hE] at h
    · simp only [hE, if_false, Outcome.value.injEq] at h
      exact ⟨h.1.symm, h.2.symm, fun h0 => hF (by simp [h0])⟩

/-- **ANY ADMISSIBLE SET ORDER, L-RMSD.**  Whenever the hand model returns the pair lists `fit`, `ev`, the generated
    `compute_lrmsd_pdb2sql` — for EVERY admissible iteration order of Python sets — hands the kernel a simultaneous permutation `fit'`,
    `ev'` of them (decoy and reference coordinates permuted together) and returns the model's radicand on those lists. -/
theorem gens_lrmsd_pairs_any_order {μ : Type} (ord : ∀ {α : Type}, List α → List α) (hord : OrderOK ord)
    (p2s : Str → Except Err (List Atom)) (grm : List (Vec3 Rat) → List (Vec3 Rat) → μ → Except Err (Mat3 Rat)) (decoy ref : Str)
    (enforce : Bool) (method : μ) (td tr : List Atom) (hd : p2s decoy = .ok td) (hr : p2s ref = .ok tr)
    (fit ev : List Pair) (hm : lrmsdSql (.ok td) (.ok tr) enforce = .value fit ev) :
    ∃ fit' ev', fit'.Perm fit ∧ ev'.Perm ev ∧ fit ≠ [] ∧
      GenS.compute_lrmsd_pdb2sql ord p2s grm decoy ref enforce ⟨0, 0, 0⟩ method none =
        Model.Rmsd.radicand (fun P Q => grm P Q method) (pairCoords fit') (pairCoords ev') := by
  rw [lrmsdSql_via_pairs] at hm
  cases hP : lrmsdPairs (fun c => identicalAtoms td tr c lrmsdSqlNames) td tr (checkResidues td tr (some lrmsdSqlNames) enforce) with
  | error e => simp [hP, error_bind, Outcome.ofExcept] at hm
  | ok FE =>
    obtain ⟨F, E⟩ := FE
    simp only [hP, ok_bind, Outcome.ofExcept] at hm
    obtain ⟨hf, he, hne⟩ := kernelSql_value F E fit ev hm
    subst hf; subst he
    have hcr : GenS.check_residues p2s decoy ref enforce (lrmsdKw none) = checkResidues td tr (some lrmsdSqlNames) enforce := by
      rw [gens_check_residues_eq_model, hr, hd]; rfl
    have hrel : ∀ c A, identicalAtoms td tr c lrmsdSqlNames = .ok A →
        ∃ A', (ord (sharedKeys td tr c (lrmsdKw none))).mapM (lookupPair td tr) = .ok A' ∧ A'.Perm A := by
      intro c A hA
      rw [identicalAtoms_eq_lookup] at hA
      obtain ⟨A', hA', hp⟩ := mapM_perm (lookupPair td tr) (sharedKeys_perm ord hord td tr c lrmsdSqlNames).symm hA
      exact ⟨A', hA', hp.symm⟩
    obtain ⟨F', E', hG, pF, pE⟩ := lrmsdPairs_perm _ _ hrel td tr _ fit ev hP
    refine ⟨F', E', pF, pE, hne, ?_⟩
    rw [gens_lrmsd_via_pairs ord p2s grm decoy ref enforce method none td tr hd hr, hcr, hG]
    rfl


/-! ### the VALUE, for a kernel that is optimal on the lists it is called with -/

theorem pairCoords_perm {l₁ l₂ : List Pair} (h : l₁.Perm l₂) : (pairCoords l₁).Perm (pairCoords l₂) := h.map _

theorem pairCoords_eq_coordsOf (l : List Pair) : pairCoords l = Proofs.Rmsd.coordsOf l := rfl

/-- **L-RMSD value under any admissible set order.**  If the rotation kernel is optimal on every simultaneous permutation of the model's
    fitting pairs (the contract of Props/C07, `KernelOptimalAt`; C06 proves it of the library's kernels), the generated
    `compute_lrmsd_pdb2sql` returns, whatever the iteration order of the sets, a radicand `m` that is a fit-then-evaluate value of the
    MODEL's pair lists: the mean squared deviation of `ev` under a rigid motion that superposes `fit` optimally. -/
theorem gens_lrmsd_value_any_order {μ : Type} (ord : ∀ {α : Type}, List α → List α) (hord : OrderOK ord)
    (p2s : Str → Except Err (List Atom)) (grm : List (Vec3 Rat) → List (Vec3 Rat) → μ → Except Err (Mat3 Rat)) (decoy ref : Str)
    (enforce : Bool) (method : μ) (td tr : List Atom) (hd : p2s decoy = .ok td) (hr : p2s ref = .ok tr)
    (fit ev : List Pair) (hm : lrmsdSql (.ok td) (.ok tr) enforce = .value fit ev)
    (hk : ∀ fit' : List Pair, fit'.Perm fit → Proofs.Msd.KernelOptimalAt (fun P Q => grm P Q method) (pairCoords fit')) :
    ∃ m : Rat, GenS.compute_lrmsd_pdb2sql ord p2s grm decoy ref enforce ⟨0, 0, 0⟩ method none = .ok m ∧
      Spec.Rmsd.IsFitThenEval m (pairCoords fit) (pairCoords ev) := by
  obtain ⟨fit', ev', pF, pE, hne, hG⟩ := gens_lrmsd_pairs_any_order ord hord p2s grm decoy ref enforce method td tr hd hr fit ev hm
  have hne' : pairCoords fit' ≠ [] := by
    intro h0
    have : fit' = [] := by simpa [pairCoords] using h0
    exact hne (List.Perm.eq_nil (this ▸ pF.symm))
  obtain ⟨m, hrad, hfe⟩ := Proofs.Msd.radicand_isFitThenEval (pairCoords fit') (pairCoords ev') hne' (hk fit' pF)
  exact ⟨m, hG.trans hrad, Proofs.Msd.isFitThenEval_perm (pairCoords_perm pF) (pairCoords_perm pE) hfe⟩

/-- … and on a consistent pair these are the pairs of the DEFINITION (Spec/C07: common backbone atoms of the longer / shorter chain,
    paired by identity): the generated route, under any admissible set order, returns a fit-then-evaluate value of the definition -/
theorem gens_lrmsd_value_is_definition {μ : Type} (ord : ∀ {α : Type}, List α → List α) (hord : OrderOK ord)
    (p2s : Str → Except Err (List Atom)) (grm : List (Vec3 Rat) → List (Vec3 Rat) → μ → Except Err (Mat3 Rat)) (decoy ref : Str)
    (enforce : Bool) (method : μ) (td tr : List Atom) (hd : p2s decoy = .ok td) (hr : p2s ref = .ok tr)
    (hc : Spec.Rmsd.Consistent td tr)
    (fit ev : List Pair) (hm : lrmsdSql (.ok td) (.ok tr) enforce = .value fit ev)
    (hk : ∀ fit' : List Pair, fit'.Perm fit → Proofs.Msd.KernelOptimalAt (fun P Q => grm P Q method) (pairCoords fit')) :
    ∃ m : Rat, GenS.compute_lrmsd_pdb2sql ord p2s grm decoy ref enforce ⟨0, 0, 0⟩ method none = .ok m ∧
      Spec.Rmsd.IsFitThenEval m (Spec.Rmsd.coords (Spec.Rmsd.ligandFitPairs td tr)) (Spec.Rmsd.coords (Spec.Rmsd.ligandEvalPairs td tr)) := by
  obtain ⟨m, hG, hfe⟩ := gens_lrmsd_value_any_order ord hord p2s grm decoy ref enforce method td tr hd hr fit ev hm hk
  have hp := Proofs.Rmsd.lrmsdSql_pairs (Proofs.Rmsd.cons_of_consistent hc) enforce
  rw [hm] at hp
  obtain ⟨_, _, _, pf, pe⟩ := hp
  refine ⟨m, hG, Proofs.Msd.isFitThenEval_perm ?_ ?_ hfe⟩
  · rw [pairCoords_eq_coordsOf, ← Proofs.Rmsd.coords_idPair]; exact pf.map _
  · rw [pairCoords_eq_coordsOf, ← Proofs.Rmsd.coords_idPair]; exact pe.map _

/-! ### i-RMSD: the pairing does not depend on a set order (the contact routine and the two `len(list(set(…)))` tests are order-free) -/

/-- the generated `compute_irmsd_pdb2sql`, any admissible set order, = the model's radicand on the model's pairs -/
theorem gens_irmsd_radicand_any_order {μ : Type} (ord : ∀ {α : Type}, List α → List α) (hord : OrderOK ord)
    (isfile : Str → Bool) (readlines : Str → Except Err (List Str)) (p2s : Str → Except Err (List Atom))
    (grm : List (Vec3 Rat) → List (Vec3 Rat) → μ → Except Err (Mat3 Rat)) (decoy ref : Str) (cutoff : Rat) (method : μ)
    (td tr : List Atom) (hd : p2s decoy = .ok td) (hr : p2s ref = .ok tr) (fit ev : List Pair)
    (hm : irmsdSql (.ok td) (.ok tr) none cutoff = .value fit ev) :
    ev = fit ∧ fit ≠ [] ∧ GenS.compute_irmsd_pdb2sql ord isfile readlines p2s grm decoy ref ⟨0, 0, 0⟩ cutoff method none =
      Model.Rmsd.radicand (fun P Q => grm P Q method) (pairCoords fit) (pairCoords fit) := by
  rw [irmsdSql_eq_pairs] at hm
  rw [gens_irmsd_via_pairs ord hord isfile readlines p2s grm decoy ref ⟨0, 0, 0⟩ cutoff method td tr hd hr none none
    (irmsdIndex_eq_model_none isfile readlines tr cutoff)]
  cases hP : irmsdPairsM td tr none cutoff with
  | error e => simp [hP, outcomeOfPairs] at hm
  | ok pairs =>
    simp only [hP, outcomeOfPairs, Outcome.value.injEq] at hm
    obtain ⟨h1, h2⟩ := hm
    subst h1
    refine ⟨h2.symm, ?_, ?_⟩
    · intro h0
      subst h0
      unfold irmsdPairsM at hP
      by_cases hch : getChains td ≠ getChains tr
      · simp [hch] at hP
      · simp only [hch, if_false] at hP
        cases hI : irmsdIndexM tr cutoff none with
        | error e => simp [hI, error_bind] at hP
        | ok idx =>
          simp only [hI, ok_bind] at hP
          by_cases hp : (pairByIndex td (rowsAt tr idx)).length = 0
          · simp [hp] at hP
          · simp only [hp, if_false, Except.ok.injEq] at hP
            exact hp (by rw [hP]; rfl)
    · rw [ok_bind]
      exact sqlKernel_eq_radicand grm method pairs pairs

/-- … hence, with a kernel optimal on those pairs, the minimum of the mean squared deviation over rigid motions -/
theorem gens_irmsd_value_any_order {μ : Type} (ord : ∀ {α : Type}, List α → List α) (hord : OrderOK ord)
    (isfile : Str → Bool) (readlines : Str → Except Err (List Str)) (p2s : Str → Except Err (List Atom))
    (grm : List (Vec3 Rat) → List (Vec3 Rat) → μ → Except Err (Mat3 Rat)) (decoy ref : Str) (cutoff : Rat) (method : μ)
    (td tr : List Atom) (hd : p2s decoy = .ok td) (hr : p2s ref = .ok tr) (fit ev : List Pair)
    (hm : irmsdSql (.ok td) (.ok tr) none cutoff = .value fit ev)
    (hk : Proofs.Msd.KernelOptimalAt (fun P Q => grm P Q method) (pairCoords fit)) :
    ∃ m : Rat, GenS.compute_irmsd_pdb2sql ord isfile readlines p2s grm decoy ref ⟨0, 0, 0⟩ cutoff method none = .ok m ∧
      Spec.Rmsd.IsMinMsd m (pairCoords fit) := by
  obtain ⟨_, hne, hG⟩ := gens_irmsd_radicand_any_order ord hord isfile readlines p2s grm decoy ref cutoff method td tr hd hr fit ev hm
  have hne' : pairCoords fit ≠ [] := by
    intro h0; exact hne (by simpa [pairCoords] using h0)
  obtain ⟨m, hrad, hmin⟩ := Proofs.Msd.radicand_isMin (pairCoords fit) hne' hk
  exact ⟨m, hG.trans hrad, hmin⟩

end Proofs.GenSim
