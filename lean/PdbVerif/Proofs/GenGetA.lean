/-
  Normal forms of the translated units of Gen/Get.lean (the whole `pdb2sqlcore.get`): each generated definition is rewritten
  once into a closed form; everything else (Proofs/GenGetB, GenGet) is built on the closed forms, not on the generated text.
-/
import PdbVerif.Proofs.SqlMain
import PdbVerif.Gen.Get

set_option linter.unusedVariables false
set_option linter.unusedSimpArgs false

namespace GenGetProofs
open Tbl Model MicroSql GenSql SqlProofs GenG

abbrev SelfGet := Py.Str → Py.Str → List Kw → Except Model.Err Model.Result

/-! ### runtime -/

theorem liftErr_eq (e : GErr) : E.liftErr e = errOf e := by cases e <;> rfl

theorem py_eq {α : Type} (x : Except GErr α) : E.py x = x.mapError errOf := by
  cases x <;> simp [E.py, Except.mapError, liftErr_eq]

theorem raise_value {α : Type} : (E.raise (GenSql.Err.valueError "") : Except Model.Err α) = .error .valueError := rfl

theorem bind_ok {α β : Type} (a : α) (f : α → Except Model.Err β) : Except.bind (.ok a) f = f a := rfl
theorem bind_error {α β : Type} (e : Model.Err) (f : α → Except Model.Err β) : Except.bind (.error e) f = .error e := rfl

/-- a loop without loop-carried variables whose body can only raise -/
theorem forM_guard {α : Type} (p : α → Bool) (e : Model.Err) : ∀ (l : List α),
    E.forM l () (fun it _ => if p it = true then .ok () else .error e) = if l.all p = true then .ok () else .error e
  | [] => rfl
  | a :: t => by
    simp only [E.forM, List.all_cons, Bool.and_eq_true]
    by_cases h : p a = true
    · simp only [h, if_true, true_and]; exact forM_guard p e t
    · simp [h]

/-! ### the column validation -/

theorem get_for_i_nf (sg : SelfGet) (db : Db) (valid : List Py.Str) (i : Py.Str) (st : Unit) :
    get_for_i sg db valid i st = if valid.contains (Py.strip i) = true then .ok () else .error .valueError := by
  unfold get_for_i
  by_cases h : Py.strip i ∈ valid
  · simp [h, pure, Except.pure]
  · simp [h, raise_value]

/-! ### the probe of the keys -/

def existsText (k tn : Py.Str) : Py.Str := E.existsHead ++ selectHead k tn ++ [')']

/-- the body of `for k in keys` -/
def probe (db : Db) (tn k : Py.Str) : Except Model.Err Unit :=
  match E.execute db (existsText (stripNo k).2 tn) [] with
  | .error _ => .error .valueError
  | .ok _ => .ok ()

theorem existsText_eq (k tn : Py.Str) :
    (['S', 'E', 'L', 'E', 'C', 'T', ' ', 'E', 'X', 'I', 'S', 'T', 'S', '(', 'S', 'E', 'L', 'E', 'C', 'T', ' '] : Py.Str) ++ k ++
      ([' ', 'F', 'R', 'O', 'M', ' '] : Py.Str) ++ tn ++ ([')'] : Py.Str) = existsText k tn := by
  simp [existsText, selectHead, E.existsHead]

theorem get_for_k_nf (sg : SelfGet) (db : Db) (tn k : Py.Str) (st : Unit) : get_for_k sg db tn k st = probe db tn k := by
  unfold get_for_k probe
  by_cases hp : Py.startsWith k ['n', 'o', '_'] = true
  · have hs : stripNo k = (true, k.drop 3) := by
      unfold stripNo; rw [if_pos (by simpa [Py.startsWith] using hp)]
    simp only [hp, if_true, hs, sliceFrom3, existsText_eq]
    cases E.execute db _ [] <;> rfl
  · have hs : stripNo k = (false, k) := by
      unfold stripNo; rw [if_neg (by simpa [Py.startsWith] using hp)]
    simp only [hp, if_false, hs, existsText_eq, Bool.false_eq_true]
    cases E.execute db _ [] <;> rfl

/-! ### the per-model loop -/

def modelLit : Py.Str := ['m', 'o', 'd', 'e', 'l']

theorem get_if_model_data_for_iModel_nf (sg : SelfGet) (db : Db) (columns tn : Py.Str) (m : Int) (st : List Kw × List (List Item)) :
    get_if_model_data_for_iModel sg db columns tn m st =
      (match sg columns tn (E.setKw st.1 modelLit (.scalar (.int m))) with
       | .error e => .error e
       | .ok r => match E.asData r with
         | .error e => .error e
         | .ok d => .ok (E.setKw st.1 modelLit (.scalar (.int m)), st.2 ++ [d])) := by
  unfold get_if_model_data_for_iModel
  simp only [bind, Except.bind, modelLit]
  cases sg columns tn _ with
  | error e => rfl
  | ok r => simp only []; cases E.asData r <;> rfl

theorem get_if_model_data_nf (sg : SelfGet) (db : Db) (columns tn : Py.Str) (kw : List Kw) :
    get_if_model_data sg db columns tn kw =
      (match E.forM (Rt.range (E.nModel db)) (kw, ([] : List (List Item)))
          (fun it_ st_ => get_if_model_data_for_iModel sg db columns tn it_ st_) with
       | .error e => .error e
       | .ok st => .ok (.models st.2)) := by
  unfold get_if_model_data
  simp only [bind, Except.bind]
  cases E.forM _ _ _ <;> rfl

/-! ### the chunked branch -/

/-- one turn of `for vc in vchunck` -/
theorem get_for_vc_nf (sg : SelfGet) (db : Db) (tn : Py.Str) (kw : List Kw) (key neg : Py.Str) (vc : List Val) (st : Option (List Int)) :
    get_for_k_v_if_chunck_size_for_vc sg db tn kw key neg vc st =
      (match sg rowIDName tn (E.setKw kw key (.list vc)) with
       | .error e => .error e
       | .ok r => match E.rowIDs r with
         | .error e => .error e
         | .ok index => .ok (match st with
            | none => some index
            | some rs => some (if neg ≠ [] then E.setAnd rs index else E.setOr rs index))) := by
  unfold get_for_k_v_if_chunck_size_for_vc
  simp only [bind, Except.bind, rowID_lit]
  cases sg rowIDName tn _ with
  | error e => rfl
  | ok r =>
    simp only []
    cases E.rowIDs r with
    | error e => rfl
    | ok index =>
      simp only []
      cases st with
      | none => rfl
      | some rs => by_cases h : neg = [] <;> simp [h, pure, Except.pure]

/-- one turn of `for i in range(0, len(rows), chunck_size)` -/
theorem get_for_rows_nf (sg : SelfGet) (db : Db) (columns tn : Py.Str) (size : Int) (rows : List Int) (i : Int) (st : Py.Str × List (List Val)) :
    get_for_k_v_if_chunck_size_for_i sg db columns tn size rows i st =
      (match E.execute db (get_rows_step columns tn rows i size).1 ((get_rows_step columns tn rows i size).2.map Val.int) with
       | .error e => .error e
       | .ok d => .ok ((get_rows_step columns tn rows i size).1, st.2 ++ d)) := by
  unfold get_for_k_v_if_chunck_size_for_i get_rows_step
  simp only [bind, Except.bind, List.map_id']
  cases E.execute db _ _ <;> rfl

/-- the chunked branch in closed form: the loop over the chunks, `sorted`, the loop over the slices of the rows, `_format_get_output` -/
theorem get_chunked_nf (sg : SelfGet) (db : Db) (columns tn : Py.Str) (kw : List Kw) (v : List Val) (query key neg : Py.Str) (nv : Int) :
    get_for_k_v_if_chunck_size sg db columns tn kw v query key neg nv =
      (match E.forM ((E.range3 0 nv Gen.max_sql_values).map (fun i => Rt.slice v i (i + Gen.max_sql_values))) none
          (fun it_ st_ => get_for_k_v_if_chunck_size_for_vc sg db tn kw key neg it_ st_) with
       | .error e => .error e
       | .ok rows => match E.sortedOpt rows with
         | .error e => .error e
         | .ok sorted => match E.forM (E.range3 0 (Rt.len sorted) Gen.max_sql_values) (query, ([] : List (List Val)))
              (fun it_ st_ => get_for_k_v_if_chunck_size_for_i sg db columns tn Gen.max_sql_values sorted it_ st_) with
           | .error e => .error e
           | .ok st => match format_get_output st.2 columns with
             | .error e => .error (errOf e)
             | .ok items => .ok (.data items)) := by
  unfold get_for_k_v_if_chunck_size
  simp only [bind, Except.bind]
  cases E.forM _ none _ with
  | error e => rfl
  | ok rows =>
    simp only []
    cases E.sortedOpt rows with
    | error e => rfl
    | ok sorted =>
      simp only []
      cases E.forM _ (query, ([] : List (List Val))) _ with
      | error e => rfl
      | ok st =>
        simp only [py_eq]
        cases format_get_output st.2 columns <;> rfl

end GenGetProofs
