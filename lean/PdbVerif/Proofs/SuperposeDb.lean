/-
  Database-level lemmas for C13: what a successful `Model.SupDb.superpose` consists of, the two pairing routes
  (positional / through the exported text) in terms of the shared selected atoms, the export effect.
  Helper lemmas only.
-/
import PdbVerif.Proofs.SuperposeDbBack
import PdbVerif.Model.SuperposeDb

set_option linter.unusedSectionVars false
set_option linter.unusedVariables false

namespace Proofs.SupDb
open Py Py.Mat3 Spec Model Model.SupDb Proofs.SupCore
open Spec.C13 (Motion ident shared sharedPos UniqueIdent)

theorem pos_eq (a : Atom) : Model.SupDb.pos a = Spec.C13.pos a := rfl
theorem setPos_eq (a : Atom) (v : Vec3 Rat) : Model.SupDb.setPos a v = Spec.C13.moveTo a v := rfl

/-- the pieces of a successful call -/
structure Run (kernel : List V → List V → Except Err (Mat3 Rat)) (mob tar : Db) (a : Args) (out : Out) where
  sel : Atom → Bool
  P : List V
  Q : List V
  R : Mat3 Rat
  hsel : selection a = .ok sel
  hmatch : matched mob.rows tar.rows sel = .ok (P, Q)
  hne : P ≠ []
  hkernel : kernel (centred P) (centred Q) = .ok R
  hmobile : out.mobile = mob.rows.map (fun x => setPos x ((motionOf R P Q).apply (pos x)))
  htarget : out.target = tar.rows
  hfiles : exportFiles mob tar a.doExport out.mobile = .ok out.files

theorem zip_map_self {β γ δ : Type} (l : List β) (f : β → γ) (g : β × γ → δ) :
    (l.zip (l.map f)).map g = l.map (fun x => g (x, f x)) := by
  induction l with
  | nil => rfl
  | cons x l ih => simp [ih]

theorem superpose_ok {kernel : List V → List V → Except Err (Mat3 Rat)} {mob tar : Db} {a : Args} {out : Out}
    (h : superpose kernel mob tar a = .ok out) : Nonempty (Run kernel mob tar a out) := by
  unfold superpose at h
  cases hs : selection a with
  | error e => simp [hs, bind, Except.bind] at h
  | ok sel =>
    cases hm : matched mob.rows tar.rows sel with
    | error e => simp [hs, hm, bind, Except.bind] at h
    | ok m =>
      obtain ⟨P, Q⟩ := m
      by_cases hP : P.isEmpty = true
      · cases hx : superposeSelection kernel (mob.rows.map pos) P Q <;>
          simp [hs, hm, hP, hx, bind, Except.bind, throw, throwThe, MonadExceptOf.throw] at h
      · cases hx : superposeSelection kernel (mob.rows.map pos) P Q with
        | error e => simp [hs, hm, hP, hx, bind, Except.bind] at h
        | ok xyz =>
          obtain ⟨R, hk, hxyz⟩ := superposeSelection_ok hx
          cases hf : exportFiles mob tar a.doExport ((mob.rows.zip xyz).map (fun p => setPos p.1 p.2)) with
          | error e => simp [hs, hm, hP, hx, hf, bind, Except.bind] at h
          | ok files =>
            simp [hs, hm, hP, hx, hf, bind, Except.bind, pure, Except.pure] at h
            have hmob : out.mobile = mob.rows.map (fun x => setPos x ((motionOf R P Q).apply (pos x))) := by
              rw [← h, hxyz]
              simp only [List.map_map]
              rw [show (mob.rows.map ((motionOf R P Q).apply ∘ pos)) = mob.rows.map (fun x => (motionOf R P Q).apply (pos x)) from rfl]
              exact zip_map_self mob.rows _ (fun p => setPos p.1 p.2)
            refine ⟨{ sel := sel, P := P, Q := Q, R := R, hsel := hs, hmatch := hm, hne := ?_, hkernel := hk,
                      hmobile := hmob, htarget := by rw [← h], hfiles := ?_ }⟩
            · intro h0; apply hP; simp [h0]
            · rw [← h]; exact hf

/-! ### pairing -/

theorem atomId_eq_iff (a b : Atom) : atomId a = atomId b ↔ ident a = ident b := by
  simp only [atomId, ident, Prod.mk.injEq]; tauto

theorem keyEq_name (a b : Atom) : keyEq "name" a b = (a.name == b.name) := by simp [keyEq]
theorem keyEq_resname (a b : Atom) : keyEq "resname" a b = (a.resName == b.resName) := by simp [keyEq]
theorem keyEq_resSeq (a b : Atom) : keyEq "resSeq" a b = (a.resSeq == b.resSeq) := by simp [keyEq]
theorem keyEq_chainID (a b : Atom) : keyEq "chainID" a b = (a.chainID == b.chainID) := by simp [keyEq]

theorem matchKeys_eq (a b : Atom) : matchKeys a b = decide (ident b = ident a) := by
  simp only [matchKeys, Gen.match_default, List.all_cons, List.all_nil, keyEq_name, keyEq_resname, keyEq_resSeq, keyEq_chainID,
    ident, Prod.mk.injEq]
  rw [Bool.eq_iff_iff]
  simp only [Bool.and_eq_true, beq_iff_eq, Bool.and_true, decide_eq_true_eq]
  constructor
  · rintro ⟨h1, h2, h3, h4⟩; exact ⟨h4.symm, h3.symm, h2.symm, h1.symm⟩
  · rintro ⟨h1, h2, h3, h4⟩; exact ⟨h4.symm, h3.symm, h2.symm, h1.symm⟩

/-- positions paired by identity when the identity lists coincide and are duplicate-free -/
theorem flatMap_filter_eq_zip {β γ κ : Type} [DecidableEq κ] (f : β → κ) (g : γ → κ) :
    ∀ (l₁ : List β) (l₂ : List γ), l₁.map f = l₂.map g → (l₁.map f).Nodup →
      l₁.flatMap (fun a => (l₂.filter (fun b => decide (g b = f a))).map (fun b => (a, b))) = l₁.zip l₂
  | [], _, _, _ => by simp
  | a :: l₁, [], h, _ => by simp at h
  | a :: l₁, b :: l₂, h, hn => by
    simp only [List.map_cons, List.cons.injEq] at h
    obtain ⟨hab, hrest⟩ := h
    simp only [List.map_cons, List.nodup_cons] at hn
    obtain ⟨hnot, hn'⟩ := hn
    have hnot2 : f a ∉ l₂.map g := by rw [← hrest]; exact hnot
    have e1 : l₂.filter (fun b' => decide (g b' = f a)) = [] := by
      rw [List.filter_eq_nil_iff]
      intro b' hb'
      simp only [decide_eq_true_eq]
      intro hgb
      exact hnot2 (List.mem_map.2 ⟨b', hb', hgb⟩)
    have e2 : l₁.flatMap (fun a' => ((b :: l₂).filter (fun b' => decide (g b' = f a'))).map (fun b' => (a', b'))) =
        l₁.flatMap (fun a' => (l₂.filter (fun b' => decide (g b' = f a'))).map (fun b' => (a', b'))) := by
      apply List.flatMap_congr
      intro a' ha'
      have : g b ≠ f a' := by
        intro hgb
        apply hnot
        rw [hab, hgb]
        exact List.mem_map.2 ⟨a', ha', rfl⟩
      simp [this]
    simp only [List.flatMap_cons, List.zip_cons_cons]
    rw [e2, flatMap_filter_eq_zip f g l₁ l₂ hrest hn']
    simp [hab.symm, e1]

theorem zip_map_map {β γ δ ε : Type} (f : β → δ) (g : γ → ε) (l₁ : List β) (l₂ : List γ) :
    (l₁.map f).zip (l₂.map g) = (l₁.zip l₂).map (fun p => (f p.1, g p.2)) := by
  induction l₁ generalizing l₂ with
  | nil => simp
  | cons a l₁ ih =>
    cases l₂ with
    | nil => simp
    | cons b l₂ => simp [ih]

/-- **positional route**: equal identity lists, unique identities ⇒ the pairs are the shared selected atoms -/
theorem matched_positional {mob tar : List Atom} {sel : Atom → Bool}
    (hid : (mob.filter sel).map atomId = (tar.filter sel).map atomId) (hu : UniqueIdent sel mob) :
    matched mob tar sel = .ok ((mob.filter sel).map pos, (tar.filter sel).map pos) ∧
      ((mob.filter sel).map pos).zip ((tar.filter sel).map pos) = sharedPos sel mob tar ∧
      ((mob.filter sel).map pos).length = ((tar.filter sel).map pos).length := by
  refine ⟨?_, ?_, ?_⟩
  · unfold matched; simp [hid, pure, Except.pure]
  · have hid' : (mob.filter sel).map ident = (tar.filter sel).map ident := by
      have h1 := congrArg (List.map (fun (k : Str × Str × Int × Str) => (k.2.2.2, k.2.2.1, k.2.1, k.1))) hid
      rw [List.map_map, List.map_map] at h1
      exact h1
    have := flatMap_filter_eq_zip ident ident (mob.filter sel) (tar.filter sel) hid' hu
    unfold sharedPos shared
    rw [this, zip_map_map]
    rfl
  · have := congrArg List.length hid
    simpa using this

theorem getIntersection_ok {mob tar : List Atom} {sel : Atom → Bool} {u1 u2 : List Atom}
    (h1 : reexportSel sel mob = .ok u1) (h2 : reexportSel sel tar = .ok u2) :
    getIntersection mob tar sel = .ok (join u1 u2) := by
  unfold reexportSel at h1 h2
  unfold getIntersection
  cases e1 : sql2pdb mob with
  | error e => simp [e1, bind, Except.bind] at h1
  | ok l1 =>
    cases e2 : sql2pdb tar with
    | error e => simp [e2, bind, Except.bind] at h2
    | ok l2 =>
      cases e3 : readTable l1 with
      | error e => simp [e1, e3, bind, Except.bind] at h1
      | ok t1 =>
        cases e4 : readTable l2 with
        | error e => simp [e2, e4, bind, Except.bind] at h2
        | ok t2 =>
          cases e5 : sql2pdb (t1.filter sel) with
          | error e => simp [e1, e3, e5, bind, Except.bind] at h1
          | ok s1 =>
            cases e6 : sql2pdb (t2.filter sel) with
            | error e => simp [e2, e4, e6, bind, Except.bind] at h2
            | ok s2 =>
              simp [e1, e3, e5, bind, Except.bind] at h1
              simp [e2, e4, e6, bind, Except.bind] at h2
              simp [e3, e4, e5, e6, h1, h2, bind, Except.bind, pure, Except.pure]

theorem join_eq_sharedPos (u1 u2 : List Atom) : join u1 u2 = sharedPos (fun _ => true) u1 u2 := by
  unfold join sharedPos shared
  simp only [List.filter_true, List.map_flatMap, List.map_map]
  apply List.flatMap_congr
  intro a _
  simp only [matchKeys_eq]
  rfl

theorem unzip_zip_eq {β γ : Type} (l : List (β × γ)) : (l.map (·.1)).zip (l.map (·.2)) = l := by
  induction l with
  | nil => rfl
  | cons x l ih => simp [ih]

/-- **intersection route**: the pairs are the identity-matched atoms of the two re-exported, re-read selections -/
theorem matched_intersection {mob tar : List Atom} {sel : Atom → Bool} {u1 u2 : List Atom}
    (hid : (mob.filter sel).map atomId ≠ (tar.filter sel).map atomId)
    (h1 : reexportSel sel mob = .ok u1) (h2 : reexportSel sel tar = .ok u2) :
    ∃ P Q, matched mob tar sel = .ok (P, Q) ∧ P.zip Q = sharedPos (fun _ => true) u1 u2 ∧ P.length = Q.length := by
  refine ⟨(join u1 u2).map (·.1), (join u1 u2).map (·.2), ?_, ?_, by simp⟩
  · unfold matched
    simp [hid, getIntersection_ok h1 h2, bind, Except.bind, pure, Except.pure]
  · rw [unzip_zip_eq, join_eq_sharedPos]

/-! ### export -/

theorem exportFiles_off (mob tar : Db) (m : List Atom) : exportFiles mob tar false m = .ok [] := rfl

theorem exportFiles_on {mob tar : Db} {m : List Atom} {fs : List FileEffect} (h : exportFiles mob tar true m = .ok fs) :
    ∃ mn tn lines, mob.pdbfile = some mn ∧ tar.pdbfile = some tn ∧ sql2pdb m = .ok lines ∧ fs = [(exportName mn tn, lines)] := by
  unfold exportFiles at h
  cases ht : tar.pdbfile with
  | none => simp [ht, throw, throwThe, MonadExceptOf.throw] at h
  | some tn =>
    cases hm : mob.pdbfile with
    | none => simp [ht, hm, throw, throwThe, MonadExceptOf.throw] at h
    | some mn =>
      cases hl : sql2pdb m with
      | error e => simp [ht, hm, hl, bind, Except.bind] at h
      | ok lines =>
        simp [ht, hm, hl, bind, Except.bind, pure, Except.pure] at h
        exact ⟨mn, tn, lines, rfl, rfl, rfl, h.symm⟩

/-! ### lengths, text images, displaced copies -/

theorem matched_lengths {mob tar : List Atom} {sel : Atom → Bool} {P Q : List V}
    (h : matched mob tar sel = .ok (P, Q)) : P.length = Q.length := by
  unfold matched at h
  by_cases hid : (mob.filter sel).map atomId ≠ (tar.filter sel).map atomId
  · simp only [hid, ne_eq, not_false_eq_true, if_true] at h
    cases hg : getIntersection mob tar sel with
    | error e => simp [hg, bind, Except.bind] at h
    | ok pairs =>
      simp [hg, bind, Except.bind, pure, Except.pure] at h
      rw [← h.1, ← h.2]; simp
  · have hid' := not_not.1 hid
    simp only [hid, if_false, pure, Except.pure] at h
    injection h with h
    injection h with h1 h2
    rw [← h1, ← h2]
    have := congrArg List.length hid'
    simpa using this

/-- `a'` is a text image of `a`: same identity (its coordinates are those printed for `a`) -/
def SameIdent (a a' : Atom) : Prop := ident a' = ident a

theorem forall2_filter_ident {l l' : List Atom} (h : List.Forall₂ SameIdent l l') (k : Str × Int × Str × Str) :
    List.Forall₂ SameIdent (l.filter (fun b => decide (ident b = k))) (l'.filter (fun b => decide (ident b = k))) := by
  induction h with
  | nil => exact List.Forall₂.nil
  | @cons a a' l l' ha _ ih =>
    unfold SameIdent at ha
    by_cases hk : ident a = k
    · have hk' : ident a' = k := by rw [ha]; exact hk
      simp only [List.filter_cons, hk, hk', decide_true, if_true]
      exact List.Forall₂.cons ha ih
    · have hk' : ¬ ident a' = k := by rw [ha]; exact hk
      simp only [List.filter_cons, hk, hk', decide_false]
      exact ih

theorem forall2_map_pair {l l' : List Atom} (h : List.Forall₂ SameIdent l l') {a a' : Atom} (ha : SameIdent a a') :
    List.Forall₂ (fun p p' : Atom × Atom => SameIdent p.1 p'.1 ∧ SameIdent p.2 p'.2)
      (l.map (fun b => (a, b))) (l'.map (fun b => (a', b))) := by
  induction h with
  | nil => exact List.Forall₂.nil
  | cons hb _ ih => exact List.Forall₂.cons ⟨ha, hb⟩ ih

theorem forall2_append {β γ : Type} {R : β → γ → Prop} {l₁ l₂ : List β} {m₁ m₂ : List γ}
    (h₁ : List.Forall₂ R l₁ m₁) (h₂ : List.Forall₂ R l₂ m₂) : List.Forall₂ R (l₁ ++ l₂) (m₁ ++ m₂) := by
  induction h₁ with
  | nil => exact h₂
  | cons h _ ih => exact List.Forall₂.cons h ih

/-- the identity-matched pairs of two lists of text images are the text images of the identity-matched pairs -/
theorem forall2_shared {l₁ l₁' l₂ l₂' : List Atom} (h₁ : List.Forall₂ SameIdent l₁ l₁') (h₂ : List.Forall₂ SameIdent l₂ l₂') :
    List.Forall₂ (fun p p' : Atom × Atom => SameIdent p.1 p'.1 ∧ SameIdent p.2 p'.2)
      (l₁.flatMap (fun a => (l₂.filter (fun b => decide (ident b = ident a))).map (fun b => (a, b))))
      (l₁'.flatMap (fun a => (l₂'.filter (fun b => decide (ident b = ident a))).map (fun b => (a, b)))) := by
  induction h₁ with
  | nil => exact List.Forall₂.nil
  | @cons a a' l l' ha _ ih =>
    simp only [List.flatMap_cons]
    refine forall2_append ?_ ih
    have hf := forall2_filter_ident h₂ (ident a)
    have ha' : ident a' = ident a := ha
    rw [ha']
    exact forall2_map_pair hf ha

theorem shared_text_images {mob tar u1 u2 : List Atom} {sel : Atom → Bool}
    (h₁ : List.Forall₂ SameIdent (mob.filter sel) u1) (h₂ : List.Forall₂ SameIdent (tar.filter sel) u2) :
    List.Forall₂ (fun p p' : Atom × Atom => SameIdent p.1 p'.1 ∧ SameIdent p.2 p'.2)
      (shared sel mob tar) (shared (fun _ => true) u1 u2) := by
  unfold shared
  simp only [List.filter_true]
  exact forall2_shared h₁ h₂

/-- the selection does not look at the coordinates -/
def SelIgnoresPosition (sel : Atom → Bool) : Prop := ∀ (a : Atom) (v : Vec3 Rat), sel (Spec.C13.moveTo a v) = sel a

theorem selection_ignores {a : Args} {sel : Atom → Bool} (hs : selection a = .ok sel) (h : SelIgnoresPosition a.sel) :
    SelIgnoresPosition sel := by
  unfold selection at hs
  by_cases hob : a.onlyBackbone = true
  · by_cases hn : a.nameGiven = true
    · simp [hob, hn, throw, throwThe, MonadExceptOf.throw] at hs
    · simp only [hob, hn, if_true, if_false, pure, Except.pure, Bool.false_eq_true] at hs
      injection hs with hs
      intro x v
      rw [← hs]
      simp only [h x v]
      rfl
  · simp only [hob, if_false, pure, Except.pure, Bool.false_eq_true] at hs
    injection hs with hs
    rw [← hs]; exact h

theorem filter_map_moveTo (sel : Atom → Bool) (hsel : SelIgnoresPosition sel) (f : Atom → Vec3 Rat) (l : List Atom) :
    (l.map (fun a => Spec.C13.moveTo a (f a))).filter sel = (l.filter sel).map (fun a => Spec.C13.moveTo a (f a)) := by
  induction l with
  | nil => rfl
  | cons a l ih =>
    simp only [List.map_cons, List.filter_cons, hsel a (f a), ih]
    by_cases h : sel a = true <;> simp [h]

theorem moveTo_pos (a : Atom) : Spec.C13.moveTo a (Spec.C13.pos a) = a := by cases a; rfl
theorem moveTo_moveTo (a : Atom) (v w : Vec3 Rat) : Spec.C13.moveTo (Spec.C13.moveTo a v) w = Spec.C13.moveTo a w := by cases a; rfl
theorem pos_moveTo (a : Atom) (v : Vec3 Rat) : Spec.C13.pos (Spec.C13.moveTo a v) = v := by cases a; cases v; rfl
theorem atomId_moveTo (a : Atom) (v : Vec3 Rat) : atomId (Spec.C13.moveTo a v) = atomId a := by cases a; rfl

/-! ### evaluation of concrete runs (non-vacuity examples) -/

instance exceptDecEq {ε β : Type} [DecidableEq ε] [DecidableEq β] : DecidableEq (Except ε β) := fun a b =>
  match a, b with
  | .ok x, .ok y => if h : x = y then isTrue (by rw [h]) else isFalse (by intro h'; injection h' with h''; exact h h'')
  | .error x, .error y => if h : x = y then isTrue (by rw [h]) else isFalse (by intro h'; injection h' with h''; exact h h'')
  | .ok _, .error _ => isFalse (by intro h; cases h)
  | .error _, .ok _ => isFalse (by intro h; cases h)

/-- a kernel that answers (with the identity) only when the two centred sets coincide: it is optimal -/
def idKernel : List V → List V → Except Err (Mat3 Rat) := fun P Q => if P = Q then .ok Mat3.one else .error Err.valueError

theorem resid_self (P : List V) : resid (Mat3.one : Mat3 Rat).mulVec P P = 0 := by
  induction P with
  | nil => rfl
  | cons p P ih =>
    simp only [resid, ih, Proofs.M3.one_mulVec, add_zero]
    simp [Vec3.normSq, Vec3.dot, Vec3.sub]

theorem idKernel_optimal : ∀ P Q U, idKernel P Q = .ok U → OptimalRotation U P Q := by
  intro P Q U h
  unfold idKernel at h
  by_cases hPQ : P = Q
  · simp only [hPQ, if_true] at h
    injection h with h
    subst h; subst hPQ
    refine ⟨Proofs.M3.rot_one, fun R _ => ?_⟩
    rw [sqResidual_eq_resid, sqResidual_eq_resid, resid_self]
    exact resid_nonneg _ _ _
  · simp [hPQ] at h

end Proofs.SupDb
