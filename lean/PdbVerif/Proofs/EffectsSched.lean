/-
  C16 — interleavings.  A rely/guarantee argument over effect programs, carried through induction on the schedule
  (port and extension of design_spikes/sched.lean: there tasks were a five-state machine over an abstract cache,
  here they are arbitrary effect programs over the whole file system, at single-action granularity).

  World shared by the tasks: the inputs never change; the cache path holds what it held initially, or — if it was
  absent — the one complete content `pub` that a publisher moves there with a single `replace`; each task has its own
  temp name and its own outputs.  `RG w l tc seen t` says: whatever the other tasks do *within those rules*,
  program `t` (whose temp file currently holds `tc`, and which has / has not yet seen the cache present) keeps the
  rules itself and can only finish with the outcome `l.solo`.
-/
import PdbVerif.Model.Effects
import PdbVerif.Proofs.EffectsRoutines

set_option linter.unusedVariables false
set_option linter.unusedSectionVars false

namespace Proofs.Effects
open Spec.C16 Model.C16

variable {P L Z R : Type} [DecidableEq P]

/-- what all tasks share -/
structure World (P L : Type) where
  fs₀ : FS P L                -- the initial directory
  isInput : P → Prop          -- paths nobody writes
  cache : P                   -- the shared zone file
  pub : Option (List L)       -- the one content that may be published (none: nobody may publish)

/-- the cache holds what it held initially, or (if it was absent) the published content -/
def World.CacheOk (w : World P L) (v : Option (List L)) : Prop :=
  v = w.fs₀ w.cache ∨ (w.fs₀ w.cache = none ∧ w.pub ≠ none ∧ v = w.pub)

/-- what is private to one task -/
structure Loc (P R : Type) where
  outs : P → Prop             -- its requested outputs
  tmp : P                     -- the name mkstemp gives it
  solo : Outcome R            -- what it returns when run alone

def RG (w : World P L) (l : Loc P R) : Option (List L) → Bool → Prog P L R → Prop
  | _, _, .done r => l.solo = .ok r
  | _, _, .fail e => l.solo = .error e
  | tc, seen, .pathExists p k =>
      (w.isInput p ∧ RG w l tc seen (k (w.fs₀ p).isSome)) ∨
      (p = w.cache ∧ ∀ v, w.CacheOk v → (seen = true → v ≠ none) → RG w l tc (seen || v.isSome) (k v.isSome))
  | tc, seen, .isFile p k =>
      (w.isInput p ∧ RG w l tc seen (k (w.fs₀ p).isSome)) ∨
      (p = w.cache ∧ ∀ v, w.CacheOk v → (seen = true → v ≠ none) → RG w l tc (seen || v.isSome) (k v.isSome))
  | tc, seen, .readAll p k =>
      (w.isInput p ∧ match w.fs₀ p with
        | some c => RG w l tc seen (k c)
        | none => l.solo = .error .fileNotFound) ∨
      (p = w.cache ∧ ∀ v, w.CacheOk v → (seen = true → v ≠ none) → match v with
        | some c => RG w l tc true (k c)
        | none => l.solo = .error .fileNotFound)
  | tc, seen, .createTemp p k => p = l.tmp ∧ tc = none ∧ RG w l (some []) seen k
  | tc, seen, .append p ch k =>
      (p = l.tmp ∧ ∃ c, tc = some c ∧ RG w l (some (c ++ ch)) seen k) ∨ (l.outs p ∧ RG w l tc seen k)
  | tc, seen, .openTrunc p k => l.outs p ∧ RG w l tc seen k
  | tc, seen, .replace s d k =>
      s = l.tmp ∧ d = w.cache ∧ tc ≠ none ∧ tc = w.pub ∧ w.fs₀ w.cache = none ∧ RG w l none true k
  | _, _, .remove _ _ => False
  | _, _, .dbOpen _ _ => False
  | tc, seen, .dbMem k => RG w l tc seen k
  | _, _, .shell _ _ => False

/-- the paths of different kinds are different paths -/
structure Sep (w : World P L) (l : Loc P R) : Prop where
  cache_not_input : ¬ w.isInput w.cache
  tmp_not_input : ¬ w.isInput l.tmp
  tmp_not_cache : l.tmp ≠ w.cache
  tmp_not_out : ¬ l.outs l.tmp
  out_not_input : ∀ p, l.outs p → ¬ w.isInput p
  out_not_cache : ¬ l.outs w.cache

def WInv (w : World P L) (fs : FS P L) : Prop :=
  (∀ p, w.isInput p → fs p = w.fs₀ p) ∧ w.CacheOk (fs w.cache)

def TaskOk (w : World P L) (l : Loc P R) (fs : FS P L) (t : Prog P L R) : Prop :=
  ∃ seen : Bool, (seen = true → fs w.cache ≠ none) ∧ RG w l (fs l.tmp) seen t

/-- one action of a task that is `RG`: the world stays within the rules, the task stays `RG`, the cache never
    disappears, and nothing but the task's own temp, its outputs and the cache is touched -/
theorem step_rg (w : World P L) (l : Loc P R) (hs : Sep w l) (fs : FS P L) (t : Prog P L R)
    (hw : WInv w fs) (ht : TaskOk w l fs t) :
    WInv w (t.step fs).1 ∧ TaskOk w l (t.step fs).1 (t.step fs).2 ∧
      (fs w.cache ≠ none → (t.step fs).1 w.cache ≠ none) ∧
      (∀ q, q ≠ l.tmp → q ≠ w.cache → ¬ l.outs q → (t.step fs).1 q = fs q) := by
  obtain ⟨seen, hseen, hrg⟩ := ht
  obtain ⟨hin, hc⟩ := hw
  have winv_set : ∀ (q : P) (v : Option (List L)), ¬ w.isInput q → q ≠ w.cache → WInv w (fs.set q v) := by
    intro q v h1 h2
    refine ⟨fun p hp => ?_, ?_⟩
    · have : p ≠ q := by intro e; subst e; exact h1 hp
      rw [FS.set_other _ _ _ _ this]; exact hin p hp
    · rw [FS.set_other _ _ _ _ (Ne.symm h2)]; exact hc
  cases t with
  | done r => exact ⟨⟨hin, hc⟩, ⟨seen, hseen, hrg⟩, id, (by intros; first | rfl | trivial)⟩
  | fail e => exact ⟨⟨hin, hc⟩, ⟨seen, hseen, hrg⟩, id, (by intros; first | rfl | trivial)⟩
  | pathExists p k =>
    simp only [Prog.step]
    refine ⟨⟨hin, hc⟩, ?_, id, (by intros; first | rfl | trivial)⟩
    simp only [RG] at hrg
    rcases hrg with ⟨hp, h⟩ | ⟨hp, h⟩
    · exact ⟨seen, hseen, by rw [hin p hp]; exact h⟩
    · subst hp
      refine ⟨seen || (fs w.cache).isSome, ?_, h _ hc hseen⟩
      intro hb; cases hsn : seen
      · simp [hsn] at hb; intro e; simp [e] at hb
      · exact hseen hsn
  | isFile p k =>
    simp only [Prog.step]
    refine ⟨⟨hin, hc⟩, ?_, id, (by intros; first | rfl | trivial)⟩
    simp only [RG] at hrg
    rcases hrg with ⟨hp, h⟩ | ⟨hp, h⟩
    · exact ⟨seen, hseen, by rw [hin p hp]; exact h⟩
    · subst hp
      refine ⟨seen || (fs w.cache).isSome, ?_, h _ hc hseen⟩
      intro hb; cases hsn : seen
      · simp [hsn] at hb; intro e; simp [e] at hb
      · exact hseen hsn
  | readAll p k =>
    simp only [RG] at hrg
    rcases hrg with ⟨hp, h⟩ | ⟨hp, h⟩
    · have hfp := hin p hp
      cases hv : fs p with
      | none =>
        simp only [Prog.step, hv]
        rw [← hfp, hv] at h
        exact ⟨⟨hin, hc⟩, ⟨seen, hseen, by simpa [RG] using h⟩, id, (by intros; first | rfl | trivial)⟩
      | some c =>
        simp only [Prog.step, hv]
        rw [← hfp, hv] at h
        exact ⟨⟨hin, hc⟩, ⟨seen, hseen, h⟩, id, (by intros; first | rfl | trivial)⟩
    · subst hp
      have h' := h _ hc hseen
      cases hv : fs w.cache with
      | none =>
        simp only [Prog.step, hv]
        rw [hv] at h'
        exact ⟨⟨hin, hc⟩, ⟨seen, hseen, by simpa [RG] using h'⟩, id, (by intros; first | rfl | trivial)⟩
      | some c =>
        simp only [Prog.step, hv]
        rw [hv] at h'
        exact ⟨⟨hin, hc⟩, ⟨true, fun _ => by simp [hv], h'⟩, id, (by intros; first | rfl | trivial)⟩
  | createTemp p k =>
    simp only [RG] at hrg
    obtain ⟨hp, htc, h⟩ := hrg
    subst hp
    simp only [Prog.step, htc]
    refine ⟨winv_set _ _ hs.tmp_not_input hs.tmp_not_cache, ⟨seen, ?_, by simpa using h⟩, ?_, ?_⟩
    · rw [FS.set_other _ _ _ _ (Ne.symm hs.tmp_not_cache)]; exact hseen
    · rw [FS.set_other _ _ _ _ (Ne.symm hs.tmp_not_cache)]; exact id
    · intro q h1 _ _; exact FS.set_other _ _ _ _ h1
  | append p ch k =>
    simp only [RG] at hrg
    rcases hrg with ⟨hp, c, htc, h⟩ | ⟨hp, h⟩
    · subst hp
      simp only [Prog.step, htc]
      refine ⟨winv_set _ _ hs.tmp_not_input hs.tmp_not_cache, ⟨seen, ?_, by simpa using h⟩, ?_, ?_⟩
      · rw [FS.set_other _ _ _ _ (Ne.symm hs.tmp_not_cache)]; exact hseen
      · rw [FS.set_other _ _ _ _ (Ne.symm hs.tmp_not_cache)]; exact id
      · intro q h1 _ _; exact FS.set_other _ _ _ _ h1
    · have hpt : l.tmp ≠ p := by intro e; subst e; exact hs.tmp_not_out hp
      have hpc : p ≠ w.cache := by intro e; subst e; exact hs.out_not_cache hp
      cases hv : fs p with
      | none =>
        simp only [Prog.step, hv]
        exact ⟨⟨hin, hc⟩, ⟨seen, hseen, h⟩, id, (by intros; first | rfl | trivial)⟩
      | some c =>
        simp only [Prog.step, hv]
        refine ⟨winv_set _ _ (hs.out_not_input p hp) hpc, ⟨seen, ?_, ?_⟩, ?_, ?_⟩
        · rw [FS.set_other _ _ _ _ (Ne.symm hpc)]; exact hseen
        · rw [FS.set_other _ _ _ _ hpt]; exact h
        · rw [FS.set_other _ _ _ _ (Ne.symm hpc)]; exact id
        · intro q _ _ h3
          have : q ≠ p := by intro e; subst e; exact h3 hp
          exact FS.set_other _ _ _ _ this
  | openTrunc p k =>
    simp only [RG] at hrg
    obtain ⟨hp, h⟩ := hrg
    have hpt : l.tmp ≠ p := by intro e; subst e; exact hs.tmp_not_out hp
    have hpc : p ≠ w.cache := by intro e; subst e; exact hs.out_not_cache hp
    simp only [Prog.step]
    refine ⟨winv_set _ _ (hs.out_not_input p hp) hpc, ⟨seen, ?_, ?_⟩, ?_, ?_⟩
    · rw [FS.set_other _ _ _ _ (Ne.symm hpc)]; exact hseen
    · rw [FS.set_other _ _ _ _ hpt]; exact h
    · rw [FS.set_other _ _ _ _ (Ne.symm hpc)]; exact id
    · intro q _ _ h3
      have : q ≠ p := by intro e; subst e; exact h3 hp
      exact FS.set_other _ _ _ _ this
  | replace s d k =>
    simp only [RG] at hrg
    obtain ⟨h1, h2, htc, hpub, hc0, h⟩ := hrg
    subst h1; subst h2
    cases hv : fs l.tmp with
    | none => exact absurd hv htc
    | some c =>
      simp only [Prog.step, hv]
      refine ⟨⟨fun p hp => ?_, ?_⟩, ⟨true, ?_, ?_⟩, ?_, ?_⟩
      · have e1 : p ≠ w.cache := by intro e; subst e; exact hs.cache_not_input hp
        have e2 : p ≠ l.tmp := by intro e; subst e; exact hs.tmp_not_input hp
        rw [FS.set_other _ _ _ _ e1, FS.set_other _ _ _ _ e2]; exact hin p hp
      · simp only [FS.set_same]
        refine Or.inr ⟨hc0, ?_, ?_⟩
        · rw [← hpub, hv]; simp
        · rw [← hpub, hv]
      · intro _; simp
      · rw [FS.set_other _ _ _ _ hs.tmp_not_cache]; simpa using h
      · intro _; simp
      · intro q h1 h2 _
        rw [FS.set_other _ _ _ _ h2, FS.set_other _ _ _ _ h1]
  | remove p k => simp only [RG] at hrg
  | dbOpen p k => simp only [RG] at hrg
  | dbMem k =>
    simp only [RG] at hrg
    exact ⟨⟨hin, hc⟩, ⟨seen, hseen, hrg⟩, id, (by intros; first | rfl | trivial)⟩
  | shell f k => simp only [RG] at hrg

/-- a task that has finished under `RG` finished with its solo outcome -/
theorem rg_outcome (w : World P L) (l : Loc P R) (tc : Option (List L)) (seen : Bool) (t : Prog P L R) (o : Outcome R)
    (h : RG w l tc seen t) (ho : t.outcome = some o) : o = l.solo := by
  cases t <;> simp_all [Prog.outcome, RG]

/-- different tasks have different temp names, and nobody's output is somebody's temp -/
structure SepAll (w : World P L) (locs : List (Loc P R)) : Prop where
  each : ∀ l ∈ locs, Sep w l
  tmps : ∀ (i j : Nat) (li lj : Loc P R), locs[i]? = some li → locs[j]? = some lj → i ≠ j → li.tmp ≠ lj.tmp
  outs : ∀ li ∈ locs, ∀ lj ∈ locs, ¬ li.outs lj.tmp

def SysInv (w : World P L) (locs : List (Loc P R)) (s : Sys P L R) : Prop :=
  WInv w s.fs ∧ s.tasks.length = locs.length ∧
    ∀ (i : Nat) (l : Loc P R) (t : Prog P L R), locs[i]? = some l → s.tasks[i]? = some t → TaskOk w l s.fs t

theorem sys_step_inv (w : World P L) (locs : List (Loc P R)) (hsep : SepAll w locs) (s : Sys P L R) (k : Nat)
    (h : SysInv w locs s) : SysInv w locs (s.step k) := by
  obtain ⟨hw, hlen, htasks⟩ := h
  unfold Sys.step
  cases hk : s.tasks[k]? with
  | none => exact ⟨hw, hlen, htasks⟩
  | some t =>
    simp only []
    have hklt : k < s.tasks.length := by
      rcases List.getElem?_eq_some_iff.mp hk with ⟨h1, _⟩; exact h1
    have hl : locs[k]? = some locs[k] := by
      apply List.getElem?_eq_getElem
    have hlmem : locs[k] ∈ locs := List.mem_of_getElem? hl
    obtain ⟨hw', ht', hmono, hframe⟩ :=
      step_rg w locs[k] (hsep.each _ hlmem) s.fs t hw (htasks k _ t hl hk)
    refine ⟨hw', by simp [hlen], ?_⟩
    intro i li ti hli hti
    by_cases hik : i = k
    · subst hik
      rw [hl] at hli; cases hli
      rw [List.getElem?_set_self hklt] at hti; cases hti
      exact ht'
    · rw [List.getElem?_set_ne (Ne.symm hik)] at hti
      obtain ⟨seen, hseen, hrg⟩ := htasks i li ti hli hti
      have hlimem : li ∈ locs := List.mem_of_getElem? hli
      refine ⟨seen, fun hs => hmono (hseen hs), ?_⟩
      show RG w li ((Prog.step s.fs t).fst li.tmp) seen ti
      rw [hframe li.tmp (hsep.tmps i k li _ hli hl hik) (hsep.each li hlimem).tmp_not_cache
        (hsep.outs _ hlmem li hlimem)]
      exact hrg

theorem sys_run_inv (w : World P L) (locs : List (Loc P R)) (hsep : SepAll w locs) (s : Sys P L R) (sched : List Nat)
    (h : SysInv w locs s) : SysInv w locs (s.run sched) := by
  induction sched generalizing s with
  | nil => exact h
  | cons k ks ih => exact ih _ (sys_step_inv w locs hsep s k h)

/-- **every schedule**: if each task is `RG` for its solo outcome at the start, then whatever the interleaving,
    a task that has finished has its solo outcome -/
theorem noninterference_rg (w : World P L) (locs : List (Loc P R)) (hsep : SepAll w locs) (tasks : List (Prog P L R))
    (hlen : tasks.length = locs.length)
    (hinit : ∀ (i : Nat) (l : Loc P R) (t : Prog P L R), locs[i]? = some l → tasks[i]? = some t → RG w l (w.fs₀ l.tmp) false t)
    (hcache : ¬ w.isInput w.cache)
    (sched : List Nat) (i : Nat) (o : Outcome R)
    (ho : (Sys.run ⟨w.fs₀, tasks⟩ sched).outcome i = some o) :
    ∃ l, locs[i]? = some l ∧ o = l.solo := by
  have h0 : SysInv w locs ⟨w.fs₀, tasks⟩ :=
    ⟨⟨fun _ _ => rfl, Or.inl rfl⟩, hlen, fun i l t hl ht => ⟨false, by simp, hinit i l t hl ht⟩⟩
  obtain ⟨_, hlen', hts⟩ := sys_run_inv w locs hsep _ sched h0
  unfold Sys.outcome at ho
  cases ht : (Sys.run ⟨w.fs₀, tasks⟩ sched).tasks[i]? with
  | none => simp [ht] at ho
  | some t =>
    simp only [ht, Option.bind] at ho
    have hilt : i < (Sys.run ⟨w.fs₀, tasks⟩ sched).tasks.length := by
      rcases List.getElem?_eq_some_iff.mp ht with ⟨h1, _⟩; exact h1
    have hl : locs[i]? = some (locs[i]'(hlen' ▸ hilt)) := List.getElem?_eq_getElem _
    obtain ⟨seen, _, hrg⟩ := hts i _ t hl ht
    exact ⟨_, hl, rg_outcome w _ _ seen t o hrg ho⟩

end Proofs.Effects
