/-
  WHAT `compute_lrmsd_pdb2sql(exportpath=dir)` EXPORTS (Gen/Sim.lean: `GenS.compute_lrmsd_pdb2sql_export`): stage A of the route
  (`lrmsdSqlLists`, Proofs/GenSimRmsd.lean), the rotation kernel, then — besides the radicand — two files: `dir/lrmsd_decoy.pdb` = the whole decoy
  table with every row's coordinates replaced by the superposed ones (translated by the decoy's long-chain centroid, rotated about the origin),
  `dir/lrmsd_ref.pdb` = the whole reference table translated by its long-chain centroid.
-/
import PdbVerif.Proofs.GenSimExport
import PdbVerif.Proofs.GenSimIrmsd

set_option linter.unusedVariables false
set_option linter.unusedSimpArgs false

namespace Proofs.GenSim
open Py Model Model.Rmsd Proofs.GenRmsd

/-- all coordinates of a table, in row order (`np.array(sql.get('x,y,z'))`) -/
def allXyz (t : List Atom) : List P3 := t.map posOf

/-- the three `update_column('x' | 'y' | 'z', xyz[:, k])` calls -/
def setXyz (t : List Atom) (X : List P3) : List Atom :=
  GenS.Rt3.updateColumn (fun a v => { a with z := v })
    (GenS.Rt3.updateColumn (fun a v => { a with y := v })
      (GenS.Rt3.updateColumn (fun a v => { a with x := v }) t (X.map (·.x))) (X.map (·.y))) (X.map (·.z))

/-- STAGE B of the export variant: kernel glue, radicand, and the two exported tables -/
def sqlKernelExport {μ : Type} (grm : List P3 → List P3 → μ → Except Err (Mat3 Rat)) (origin : P3) (method : μ) (exportpath : Str)
    (td tr : List Atom) (q : List P3 × List P3 × List P3 × List P3) : Except Err (Rat × List GenS.Rt3.Export) :=
  grm (Np.addRow q.1 (GenK.get_trans_vect q.1)) (Np.addRow q.2.1 (GenK.get_trans_vect q.2.1)) method >>= fun U =>
    .ok (GenK.get_rmsd_radicand (GenK.rotate (Np.addRow q.2.2.1 (GenK.get_trans_vect q.1)) U (some origin))
        (Np.addRow q.2.2.2 (GenK.get_trans_vect q.2.1)),
      [(exportpath ++ "/lrmsd_decoy.pdb".toList, setXyz td (GenK.rotate (Np.addRow (allXyz td) (GenK.get_trans_vect q.1)) U (some origin))),
       (exportpath ++ "/lrmsd_ref.pdb".toList, setXyz tr (Np.addRow (allXyz tr) (GenK.get_trans_vect q.2.1)))])

theorem gens_lrmsd_export_stages {μ : Type} (ord : ∀ {α : Type}, List α → List α) (p2s : Str → Except Err (List Atom))
    (grm : List P3 → List P3 → μ → Except Err (Mat3 Rat)) (decoy ref : Str) (enforce : Bool) (origin : P3) (exportpath : Str) (method : μ)
    (kw : GenS.Rt3.Kw) (td tr : List Atom) (hd : p2s decoy = .ok td) (hr : p2s ref = .ok tr) :
    GenS.compute_lrmsd_pdb2sql_export ord p2s grm decoy ref enforce origin exportpath method kw =
      lrmsdSqlLists (fun c => GenS.get_identical_atoms ord td tr c (lrmsdKw kw)) td tr
          (GenS.check_residues p2s decoy ref enforce (lrmsdKw kw)) >>= fun q => sqlKernelExport grm origin method exportpath td tr q := by
  unfold GenS.compute_lrmsd_pdb2sql_export lrmsdSqlLists sqlKernelExport setXyz allXyz
  have hkw : (if (!GenS.Rt3.Kw.has kw "name") = true then (Except.ok (GenS.Rt3.Kw.setName kw [['C', 'A'], ['C'], ['N'], ['O']]) : Except Err GenS.Rt3.Kw)
      else Except.ok kw) = Except.ok (lrmsdKw kw) := by
    cases kw <;> simp [GenS.Rt3.Kw.has, GenS.Rt3.Kw.setName, lrmsdKw, lrmsdSqlNames_literal]
  have hno : GenS.Rt3.Kw.has (lrmsdKw kw) "chainID" = false := by
    cases kw <;> simp [GenS.Rt3.Kw.has, lrmsdKw]
  have e1 : Py.Tbl.select td (fun _ => true) (fun r => Vec3.mk r.1.x r.1.y r.1.z) = td.map posOf := select_all td posOf
  have e2 : Py.Tbl.select tr (fun _ => true) (fun r => Vec3.mk r.1.x r.1.y r.1.z) = tr.map posOf := select_all tr posOf
  simp only [pure_eq_ok, ok_bind, bind_assoc, hkw, hno, Bool.false_eq_true, if_false, hd, hr, throw_eq_error,
    Proofs.GenContacts.get_chains_eq_model, nrows_eq, e1, e2, List.nil_append, List.cons_append]
  by_cases hch : getChains td ≠ getChains tr
  · simp [hch, error_bind]
  · simp only [hch, decide_false, Bool.false_eq_true, if_false, chainAt, Py.Rt.getItem, bind_assoc]
    cases (getChains td)[0]? with
    | none => rfl
    | some c1 =>
      cases (getChains td)[1]? with
      | none => rfl
      | some c2 =>
        simp only [ok_bind]
        cases GenS.check_residues p2s decoy ref enforce (lrmsdKw kw) with
        | error e => rfl
        | ok _ =>
          simp only [ok_bind]
          cases GenS.get_identical_atoms ord td tr c1 (lrmsdKw kw) with
          | error e => rfl
          | ok a =>
            simp only [ok_bind]
            cases GenS.get_identical_atoms ord td tr c2 (lrmsdKw kw) with
            | error e => rfl
            | ok b =>
              simp only [ok_bind]
              by_cases hn : (chainRows tr c1).length ≥ (chainRows tr c2).length
              · simp only [hn, decide_true, if_true, ok_bind, bind_assoc]; rfl
              · simp only [hn, decide_false, Bool.false_eq_true, if_false, ok_bind, bind_assoc]; rfl


/-! ### what the three column updates do to the rows -/

def upd1 (set : Atom → Rat → Atom) (vals : List Rat) (r : Atom × Nat) : Atom :=
  match vals[r.2]? with
  | some v => set r.1 v
  | none => r.1

theorem updateColumn_def (set : Atom → Rat → Atom) (t : List Atom) (vals : List Rat) :
    GenS.Rt3.updateColumn set t vals = t.zipIdx.map (upd1 set vals) := rfl

theorem updateColumn_aux (set : Atom → Rat → Atom) : ∀ (t : List Atom) (k : Nat) (pre vals : List Rat), pre.length = k →
    (t.zipIdx k).map (upd1 set (pre ++ vals)) = List.zipWith set (t.take vals.length) vals ++ t.drop vals.length
  | [], k, pre, vals, _ => by simp
  | a :: t, k, pre, [], h => by
    simp only [List.append_nil, List.length_nil, List.take_zero, List.drop_zero, List.zipWith_nil_right, List.nil_append]
    have hid : ∀ r ∈ (a :: t).zipIdx k, upd1 set pre r = r.1 := by
      intro r hr
      have : k ≤ r.2 := (List.mem_zipIdx hr).1
      simp [upd1, List.getElem?_eq_none (show pre.length ≤ r.2 by omega)]
    rw [List.map_congr_left hid]
    exact List.zipIdx_map_fst k (a :: t)
  | a :: t, k, pre, v :: vals, h => by
    have ih := updateColumn_aux set t (k + 1) (pre ++ [v]) vals (by simp [h])
    simp only [List.append_assoc, List.singleton_append] at ih
    rw [List.zipIdx_cons, List.map_cons, ih]
    have : (pre ++ v :: vals)[k]? = some v := by
      rw [List.getElem?_append_right (by omega)]; simp [h]
    simp [upd1, this]

/-- with one value per row, `update_column` replaces the column row by row -/
theorem updateColumn_zipWith (set : Atom → Rat → Atom) (t : List Atom) (vals : List Rat) (h : vals.length = t.length) :
    GenS.Rt3.updateColumn set t vals = List.zipWith set t vals := by
  have := updateColumn_aux set t 0 [] vals rfl
  simp only [List.nil_append] at this
  rw [updateColumn_def, this, h]
  simp

end Proofs.GenSim
