/-
  `many2sql.__init__` with USER-GIVEN table names: the generated constructor (Gen/Many.lean), on the hand model's side of the PDB text
  methods with the `_create_table` name handling (`GenM.Ext.modelN rt`), IS the hand model `Model.manyNamed` (Model/TableWorld.lean):
  names as given, cleaned by the clean-up loop of `_create_table` — tied to parseTie's translation of that loop
  (`GenP._create_table_for_c`, Proofs/GenParseLoop.lean) —, an existing name is sqlite3.OperationalError, fewer names than
  structures IndexError.
-/
import PdbVerif.Proofs.GenMany
import PdbVerif.Proofs.GenParseLoop

set_option linter.unusedVariables false
set_option linter.unusedSimpArgs false

namespace Proofs.GenMany
open Tbl GenM Model

/-- the hand model's clean-up of a table name IS the closed form of the TRANSLATED clean-up loop of `_create_table`
    (`GenP._create_table_for_c`, Proofs/GenParseLoop.lean `create_table_for_c_nf` + `cleanName_chars`) -/
theorem cleanTableName_eq_clean (tn : Py.Str) : Model.cleanTableName tn = Proofs.GenParse.clean tn := rfl

/-- …and so is the one of the runtime of Gen/Many.lean -/
theorem rt_cleanName_eq (tn : Py.Str) : Rt.cleanName tn = Model.cleanTableName tn := by
  unfold Rt.cleanName Model.cleanTableName
  apply List.map_congr_left
  intro c _
  have hl : "!@#$%^&*()[]{};:,./<>?\\|`~-=_+".toList = Model.tablePunct := by decide
  rw [hl]
  by_cases h : c ∈ Model.tablePunct
  · simp [h]
  · simp [h]

/-- the translated clean-up loop itself, on the punctuation string of the source -/
theorem create_table_for_c_is_clean (tn : Py.Str) :
    GenP._create_table_for_c tn (GenP.Rt.chars Proofs.GenParse.punct) = .ok (Model.cleanTableName tn) := by
  rw [Proofs.GenParse.create_table_for_c_nf, Proofs.GenParse.cleanName_chars]
  rfl

/-- **the order inside `_create_table`**: the CREATE TABLE statement comes before `read_pdb` — when it fails (an existing name:
    OperationalError) that is the exception of the call, whatever the input is (unreadable, of an invalid type, without lines) -/
theorem create_table_stmt_first (X : Ext) (db : Db) (pdb : Elem X.Data) (n : Py.Str) (e : Model.Err)
    (h : X.create_stmt db n = .error e) : Rt.create_table X db pdb (.str n) = .error e := by
  simp only [Rt.create_table, Rt.asName, ok_bind, h]
  rfl

theorem modelN_create (rt : Table → Table) (db : Db) (rows : Table) (n : Py.Str) :
    Rt.create_table (Ext.modelN rt) db (Elem.data (D := (Ext.modelN rt).Data) rows) (Elem.str (D := (Ext.modelN rt).Data) n) =
      Model.addNamedTable rt db n rows := by
  simp only [Rt.create_table, Rt.asName, Rt.readable, ok_bind]
  unfold addNamedTable
  by_cases h1 : (!MicroSql.isName (cleanTableName n)) = true
  · simp only [h1, if_true]; rfl
  · by_cases h2 : (findTab db (cleanTableName n)).isSome = true
    · simp only [h1, h2, if_true, if_false]; rfl
    · simp only [h1, h2, if_false, Bool.false_eq_true]
      cases newTable rt (cleanTableName n) rows <;> rfl

theorem modelN_init (rt : Table → Table) (rows : Table) (n : Py.Str) :
    Rt.pdb2sql_init (Ext.modelN rt) pdb2sql_init_tablename (Elem.data (D := (Ext.modelN rt).Data) rows)
        (some (Elem.str (D := (Ext.modelN rt).Data) n)) = Model.addNamedTable rt { tabs := [] } n rows := by
  simp only [Rt.pdb2sql_init, Option.getD_some, Rt.asName, Rt.readable, ok_bind]
  unfold addNamedTable
  by_cases h1 : (!MicroSql.isName (cleanTableName n)) = true
  · simp only [h1, if_true]; rfl
  · have h2 : (findTab { tabs := [] } (cleanTableName n)).isSome = false := rfl
    simp only [h1, h2, if_false, Bool.false_eq_true]
    cases newTable rt (cleanTableName n) rows <;> rfl

theorem modelN_convert (rt : Table → Table) (src : Db) :
    convert_input (Ext.modelN rt) (Elem.obj (D := (Ext.modelN rt).Data) src) =
      (match exportRows src atomName [] with | .ok rows => .ok (Elem.data (D := (Ext.modelN rt).Data) rows) | .error e => .error e) := by
  rw [convert_input_nf]
  simp only [atomName_eq]
  cases exportRows src atomName [] <;> rfl

/-- the tables after the first -/
theorem createRest_named (rt : Table → Table) : ∀ (srcs : List Db) (names : List Py.Str) (db : Db),
    createRest (Ext.modelN rt) db (srcs.map (fun s => Elem.obj s)) (names.map (fun n => Elem.str n)) = manyNamedRest rt db srcs names
  | [], names, db => rfl
  | src :: rest, names, db => by
    simp only [List.map_cons, createRest, manyNamedRest]
    rw [modelN_convert]
    cases exportRows src atomName [] with
    | error e => rfl
    | ok rows =>
      simp only [ok_bind]
      cases names with
      | nil => rfl
      | cons n ns =>
        simp only [List.map_cons]
        rw [modelN_create]
        cases addNamedTable rt db n rows with
        | error e => rfl
        | ok db' => simp only [ok_bind]; exact createRest_named rt rest ns db'

/-- **`many2sql([db₁, …], tablenames=[n₁, …])`** (database objects, `str` names) = the hand model `Model.manyNamed`: the tables in input
    order under the names as given, cleaned by the `_create_table` clean-up; a name that exists already (also after the clean-up, also in
    another letter case): OperationalError; fewer names than structures: IndexError, after the structure was exported; surplus names are
    ignored; no structure: IndexError — for every round trip, every list of sources and every list of names -/
theorem init_named_eq_model (rt : Table → Table) (srcs : List Db) (names : List Py.Str) :
    many2sql_init (Ext.modelN rt) (.list (srcs.map (fun s => Elem.obj s))) (.list (names.map (fun n => Elem.str n))) =
      Model.manyNamed rt srcs names := by
  rw [init_nf]
  have hall : (names.map (fun n => (Elem.str n : Elem (Ext.modelN rt).Data))).all Rt.isStr = true := by
    simp [List.all_map, Rt.isStr]
  simp only [hall, if_true, ok_bind]
  cases srcs with
  | nil => rfl
  | cons src rest =>
    simp only [List.map_cons, createAll, manyNamed, manyNamedRest]
    rw [modelN_convert]
    cases exportRows src atomName [] with
    | error e => rfl
    | ok rows =>
      simp only [ok_bind]
      cases names with
      | nil => rfl
      | cons n ns =>
        simp only [List.map_cons]
        rw [modelN_init]
        cases addNamedTable rt { tabs := [] } n rows with
        | error e => rfl
        | ok db' => simp only [ok_bind]; exact createRest_named rt rest ns db'

/-- a name that is not a `str`, or `tablenames` that is not a list: TypeError, whatever the sources -/
theorem init_named_type_errors (X : Ext) (ps : List (Elem X.Data)) (ts : List (Elem X.Data)) (h : ts.all Rt.isStr = false) :
    many2sql_init X (.list ps) (.list ts) = .error .typeError ∧ many2sql_init X (.list ps) .other = .error .typeError ∧
    many2sql_init X .other (.list ts) = .error .typeError := by
  refine ⟨?_, ?_, ?_⟩ <;> rw [init_nf] <;> simp [h] <;> rfl

end Proofs.GenMany
