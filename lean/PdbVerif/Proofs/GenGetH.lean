/-
  When the side conditions of `get_eq_model` hold.  For a database as the library's parser builds it (the standard column table,
  no added column: `db.extra = []`):
  * `rowID` is the rowid (`rowid_of_no_extra`; after `add_column`: `SqlProofs.rowid_of_wf`);
  * a column string that passes the validation of `get` is plain unless a piece starts or ends with one of the four characters
    `\x1c … \x1f`, which Python's `strip` removes and SQLite does not treat as blanks (`colsPlain_of_valid`); a column string that
    fails the validation needs no side condition at all (`get_eq_model_invalid`);
  * the standard attribute names, `rowID`, with or without `no_`, are plain keys (`std_keys_plain`);
  * distinct keys: the keyword list is a Python dict.
  `get_eq_model_std` puts them together.
-/
import PdbVerif.Proofs.GenGetF

set_option linter.unusedVariables false
set_option linter.unusedSimpArgs false

namespace GenGetProofs
open Tbl Model MicroSql GenSql SqlProofs GenG

/-- on a database without added columns `rowID` is the rowid -/
theorem rowid_of_no_extra (db : Db) (hx : db.extra = []) : sqlCol db rowIDName = some .rowID := by
  unfold sqlCol Db.extraNames
  rw [hx]
  decide

/-- the names of the standard column table (and `rowID`) are plain identifiers, also behind `no_` -/
theorem std_keys_plain : ∀ n ∈ Tbl.colnames [], isName n = true ∧ isName (stripNo n).2 = true ∧ isName (stripNo ("no_".toList ++ n)).2 = true := by
  decide

theorem dropWhile_congr_mem {α : Type} (q r : α → Bool) : ∀ (l : List α), (∀ c ∈ l, q c = r c) → l.dropWhile q = l.dropWhile r
  | [], _ => rfl
  | a :: t, h => by
    have ha := h a (by simp)
    simp only [List.dropWhile_cons, ha]
    by_cases hr : r a = true
    · simp only [hr, if_true]; exact dropWhile_congr_mem q r t (fun c hc => h c (by simp [hc]))
    · simp [hr]

theorem mem_dropWhile {α : Type} (q : α → Bool) (l : List α) (c : α) (h : c ∈ l.dropWhile q) : c ∈ l :=
  (List.dropWhile_suffix q).subset h

/-- Python's `strip` and SQLite's trimming agree on a string in which the two notions of blank agree
    (they differ only on `\x1c`, `\x1d`, `\x1e`, `\x1f`) -/
theorem trim_eq_strip (p : Py.Str) (h : ∀ c ∈ p, sqlSpace c = Py.isSpace c) : trimSql p = Py.strip p := by
  unfold trimSql Py.strip Py.rstrip Py.lstrip
  rw [dropWhile_congr_mem sqlSpace Py.isSpace p h]
  congr 1
  apply dropWhile_congr_mem
  intro c hc
  exact h c (mem_dropWhile _ _ _ (List.mem_reverse.1 hc))

/-- **a column string that passes the validation of `get` is plain** (parser-built database; blanks as SQLite sees them) -/
theorem colsPlain_of_valid (db : Db) (columns : Py.Str) (hx : db.extra = []) (hv : validCols db columns = true)
    (hsp : ∀ p ∈ Py.splitOn ',' columns, ∀ c ∈ p, sqlSpace c = Py.isSpace c) : colsPlain columns = true := by
  unfold validCols at hv
  unfold colsPlain
  by_cases hs : columns = "*".toList
  · subst hs; rfl
  · have hs' : (columns == ['*']) = false := by
      cases hb : columns == ['*'] with
      | false => rfl
      | true => exact absurd (beq_iff_eq.1 hb) hs
    simp only [hs, decide_false, Bool.false_or, List.all_eq_true] at hv
    simp only [hs', Bool.false_or, List.all_eq_true]
    intro p hp
    rw [trim_eq_strip p (hsp p hp)]
    have hmem : Py.strip p ∈ Tbl.colnames [] := by
      have := hv p hp
      simp only [Db.colnames, Db.extraNames, hx, List.map_nil] at this
      simpa using this
    exact (std_keys_plain _ hmem).1

/-- **a column string that fails the validation**: `GenG.get = Model.get` (ValueError) with no side condition at all -/
theorem get_eq_model_invalid (db : Db) (columns tn : Py.Str) (kw : List Kw) (h : validCols db columns = false) :
    GenG.get db columns tn kw = Model.get db columns tn kw :=
  getF_invalid_columns _ db columns tn kw h

/-- **`GenG.get = Model.get` on a parser-built database** for any column string, any keyword dictionary over the standard
    attribute names (with or without `no_`) and a plain table name (`ATOM`, `atom`, the `ATOM<k>` of many2sql …) -/
theorem get_eq_model_std (db : Db) (columns tn : Py.Str) (kw : List Kw) (hx : db.extra = []) (ht : isName tn = true)
    (hsp : ∀ p ∈ Py.splitOn ',' columns, ∀ c ∈ p, sqlSpace c = Py.isSpace c)
    (hkeys : ∀ k ∈ kw, (stripNo k.key).2 ∈ Tbl.colnames []) (hnd : (kw.map (·.key)).Nodup) :
    GenG.get db columns tn kw = Model.get db columns tn kw := by
  by_cases hv : validCols db columns = true
  · exact get_eq_model db columns tn kw ⟨colsPlain_of_valid db columns hx hv hsp, ht, fun k hk => (std_keys_plain _ (hkeys k hk)).1⟩
      (rowid_of_no_extra db hx) hnd
  · exact get_eq_model_invalid db columns tn kw (by simpa using hv)

/-- non-vacuity / the boundary of the side conditions:
    the table names the library uses are plain; a reserved word or an expression as a key, a quoted or padded-with-`\x1f` column
    are not (for these the real code sends text MicroSql gives no meaning: SQLite answers with a syntax error — the ValueError of
    the key probe, an OperationalError of the query — or evaluates an expression) -/
example : isName "ATOM".toList = true ∧ isName "atom".toList = true ∧ isName "ATOM1".toList = true ∧
    isName "order".toList = false ∧ isName "x+1".toList = false ∧ isName "1".toList = false ∧
    colsPlain "x, y ,rowID".toList = true ∧ colsPlain "x\x1f".toList = false ∧ colsPlain "count(*)".toList = false ∧
    (Py.strip "x\x1f".toList = "x".toList ∧ trimSql "x\x1f".toList ≠ "x".toList) := by decide

example : (SqlProofs.exDb.extra = []) ∧ (∀ k ∈ SqlProofs.exKw, (stripNo k.key).2 ∈ Tbl.colnames []) ∧ (SqlProofs.exKw.map (·.key)).Nodup ∧
    (∀ p ∈ Py.splitOn ',' "serial ,rowID".toList, ∀ c ∈ p, sqlSpace c = Py.isSpace c) := by decide

end GenGetProofs
