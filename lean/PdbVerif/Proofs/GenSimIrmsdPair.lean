/-
  The pairing stage of the translated `compute_irmsd_pdb2sql` IS the hand model's `Model.Rmsd.pairByIndex`, and with it the whole route has the
  model's stage A (`gens_compute_irmsd_pdb2sql_eq_model_stages`).
    * `fold_pair`: the `try / except` loop over `enumerate(data_contact_ref)`, by induction with the positional invariant of the `None` marking
      (`xyz_contact_ref[iat] = None`, `index_contact_ref[iat] = None` strike POSITIONS; processed prefix ++ untouched suffix);
    * the clean-up (`if clean_ref:` filter / checked conversion) gives the matched coordinates in both branches;
    * the two tests `len(chain_decoy) < 1 or len(chain_ref) < 1` are `pairs = []`: the decoy positions are rows of the decoy; for the reference a
      counting argument (`clean_length`, `unmatched_count`, `rowsAt_length_le`): fewer positions are struck out than the index list has entries, and
      every entry is a rowID of the reference (`irmsdIndex_valid`) — also when a zone file lists residues out of table order or twice.
-/
import PdbVerif.Proofs.GenSimIrmsd
import Mathlib.Data.List.Perm.Subperm

set_option linter.unusedVariables false
set_option linter.unusedSimpArgs false

namespace Proofs.GenSim
open Py Model Model.Rmsd Proofs.GenRmsd

/-! ### the pairing loop as a whole -/

/-- the first decoy record with the label of a reference row (`data_decoy.index(atom)` / the model's `find?`) -/
def lookD (td : List Atom) (r : IRow) : Option Atom := td.find? (fun d => decide (labelOf d = labelOf r.1))

def decI (td : List Atom) (suf : List IRow) : List Nat :=
  suf.filterMap (fun r => (lookD td r).map (fun _ => idxOfD (td.map labelOf) (labelOf r.1)))
def decX (td : List Atom) (suf : List IRow) : List P3 := suf.filterMap (fun r => (lookD td r).map posOf)
def markX (td : List Atom) (r : IRow) : Option P3 := if (lookD td r).isSome = true then some (posOf r.1) else none
/-- `index_contact_ref[iat] = None` for the rows without a match (positions, not values) -/
def markI (td : List Atom) : List IRow → List (Option Nat) → List (Option Nat)
  | [], post => post
  | _ :: _, [] => []
  | r :: suf, p :: post => (if (lookD td r).isSome = true then p else none) :: markI td suf post

theorem setNone_at {α : Type} (pre : List (Option α)) (x : Option α) (rest : List (Option α)) (k : Nat) (hk : pre.length = k) :
    GenS.Rt3.setNone (pre ++ x :: rest) k = .ok (pre ++ none :: rest) := by
  subst hk
  unfold GenS.Rt3.setNone
  have : pre.length < (pre ++ x :: rest).length := by simp
  simp only [this, if_true]
  congr 1
  induction pre with
  | nil => rfl
  | cons y ys ih => simp [List.set, ih]

theorem fold_pair (td : List Atom) : ∀ (suf : List IRow) (k : Nat) (a : List Nat) (b : List P3) (pre : List (Option P3))
    (preI post : List (Option Nat)) (cl : Bool), pre.length = k → preI.length = k → suf.length ≤ post.length →
    List.foldlM (pairStep (td.map labelOf) (td.map posOf)) (a, b, pre ++ suf.map (fun r => some (posOf r.1)), preI ++ post, cl)
        (((suf.map (fun r => labelOf r.1)).zipIdx k).map (fun p => (p.2, p.1)))
      = .ok (a ++ decI td suf, b ++ decX td suf, pre ++ suf.map (markX td), preI ++ markI td suf post,
          cl || suf.any (fun r => !(lookD td r).isSome))
  | [], k, a, b, pre, preI, post, cl, _, _, _ => by simp [decI, decX, markI, pure_eq_ok]
  | r :: suf, k, a, b, pre, preI, [], cl, _, _, h => by simp at h
  | r :: suf, k, a, b, pre, preI, p :: post, cl, h1, h2, h3 => by
    have h3' : suf.length ≤ post.length := by simpa using h3
    simp only [List.map_cons, List.zipIdx_cons, List.foldlM_cons, pairStep_eq_find]
    cases hl : lookD td r with
    | none =>
      have hl' : td.find? (fun d => decide (labelOf d = labelOf r.1)) = none := hl
      simp only [hl', unmatched, setNone_at pre _ _ k h1, setNone_at preI _ _ k h2, ok_bind]
      have ih := fold_pair td suf (k + 1) a b (pre ++ [none]) (preI ++ [none]) post true (by simp [h1]) (by simp [h2]) h3'
      simp only [List.append_assoc, List.singleton_append] at ih
      rw [ih]
      simp [decI, decX, markX, markI, hl]
    | some d =>
      have hl' : td.find? (fun d => decide (labelOf d = labelOf r.1)) = some d := hl
      simp only [hl', ok_bind]
      have ih := fold_pair td suf (k + 1) (a ++ [idxOfD (td.map labelOf) (labelOf r.1)]) (b ++ [posOf d]) (pre ++ [some (posOf r.1)])
        (preI ++ [p]) post cl (by simp [h1]) (by simp [h2]) h3'
      simp only [List.append_assoc, List.singleton_append] at ih
      rw [ih]
      simp [decI, decX, markX, markI, hl]


/-! ### the results of the loop in terms of `Model.Rmsd.pairByIndex` -/

theorem pairByIndex_eq (td : List Atom) (rows : List IRow) :
    pairByIndex td rows = rows.filterMap (fun r => (lookD td r).map (fun d => (ptOf d, ptOf r.1))) := by
  unfold pairByIndex lookD
  congr 1
  funext r
  cases td.find? (fun d => decide (labelOf d = labelOf r.1)) <;> rfl

theorem decX_eq (td : List Atom) (rows : List IRow) : decX td rows = (pairByIndex td rows).map (·.1.2) := by
  rw [pairByIndex_eq, decX, List.map_filterMap]
  congr 1; funext r
  cases lookD td r <;> rfl

theorem refX_eq (td : List Atom) (rows : List IRow) :
    (rows.map (markX td)).filterMap id = (pairByIndex td rows).map (·.2.2) := by
  rw [pairByIndex_eq, List.filterMap_map, List.map_filterMap]
  congr 1; funext r
  simp only [markX, Function.comp]
  cases lookD td r <;> rfl

theorem decI_length (td : List Atom) (rows : List IRow) : (decI td rows).length = (pairByIndex td rows).length := by
  rw [pairByIndex_eq, decI]
  induction rows with
  | nil => rfl
  | cons r rows ih =>
    simp only [List.filterMap_cons]
    cases lookD td r <;> simp [ih]

theorem unmatched_count (td : List Atom) (rows : List IRow) :
    (rows.filter (fun r => !(lookD td r).isSome)).length + (pairByIndex td rows).length = rows.length := by
  rw [pairByIndex_eq]
  induction rows with
  | nil => rfl
  | cons r rows ih =>
    simp only [List.filter_cons, List.filterMap_cons]
    cases lookD td r <;> simp at ih ⊢ <;> omega

theorem any_unmatched_false (td : List Atom) : ∀ (rows : List IRow) (post : List (Option Nat)),
    rows.any (fun r => !(lookD td r).isSome) = false → (rows.map (markX td)).all Option.isSome = true ∧ markI td rows post = post
  | [], post, _ => ⟨rfl, rfl⟩
  | r :: rows, [], h => by
    simp only [List.any_cons, Bool.or_eq_false_iff] at h
    have := (any_unmatched_false td rows [] h.2).1
    have hr : (lookD td r).isSome = true := by simpa using h.1
    simp [markX, hr, this, markI]
  | r :: rows, p :: post, h => by
    simp only [List.any_cons, Bool.or_eq_false_iff] at h
    have ih := any_unmatched_false td rows post h.2
    have hr : (lookD td r).isSome = true := by simpa using h.1
    simp [markX, hr, ih.1, markI, ih.2]

theorem noNone_all {α : Type} (l : List (Option α)) (h : l.all Option.isSome = true) : GenS.Rt3.noNone l = .ok (l.filterMap id) := by
  simp [GenS.Rt3.noNone, h]

/-- what is left of `index_contact_ref` after the clean-up: the entries of the list, minus one per reference row without a match -/
theorem clean_length (td : List Atom) : ∀ (suf : List IRow) (l : List Nat), suf.length ≤ l.length →
    ((markI td suf (l.map some)).filterMap id).length + (suf.filter (fun r => !(lookD td r).isSome)).length = l.length
  | [], l, _ => by simp [markI, List.filterMap_map]
  | r :: suf, [], h => by simp at h
  | r :: suf, x :: l, h => by
    have h' : suf.length ≤ l.length := by simpa using h
    have ih := clean_length td suf l h'
    simp only [List.map_cons, markI, List.filter_cons]
    cases hl : (lookD td r).isSome <;> simp [hl] at ih ⊢ <;> omega

theorem clean_subset (td : List Atom) : ∀ (suf : List IRow) (l : List Nat) (x : Nat),
    x ∈ (markI td suf (l.map some)).filterMap id → x ∈ l
  | [], l, x, h => by simpa [markI, List.filterMap_map] using h
  | r :: suf, [], x, h => by simp [markI] at h
  | r :: suf, y :: l, x, h => by
    simp only [List.map_cons, markI, List.filterMap_cons] at h
    cases hl : (lookD td r).isSome
    · simp only [hl, Bool.false_eq_true, if_false, id] at h
      exact List.mem_cons_of_mem _ (clean_subset td suf l x h)
    · simp only [hl, if_true, id, List.mem_cons] at h
      rcases h with h | h
      · exact h ▸ List.mem_cons_self
      · exact List.mem_cons_of_mem _ (clean_subset td suf l x h)

/-! ### rows of a table by rowID -/

theorem rowsAt_isEmpty_iff (t : List Atom) (S : List Nat) : (rowsAt t S).isEmpty = true ↔ ∀ i ∈ S, ¬ i < t.length := by
  unfold rowsAt
  rw [List.isEmpty_iff, List.filter_eq_nil_iff]
  constructor
  · intro h i hi hlt
    have hm : (t[i], i) ∈ t.zipIdx := by
      rw [List.mem_zipIdx_iff_getElem?]; simp [hlt]
    exact h _ hm (by simpa using hi)
  · intro h x hx hc
    rw [List.mem_zipIdx_iff_getElem?] at hx
    have hlt : x.2 < t.length := by
      by_contra hge
      rw [List.getElem?_eq_none (by omega)] at hx
      cases hx
    exact h x.2 (by simpa using hc) hlt

theorem rowsAt_length_le (t : List Atom) (S : List Nat) : (rowsAt t S).length ≤ S.length := by
  have hsub : ((rowsAt t S).map Prod.snd).Sublist (t.zipIdx.map Prod.snd) := List.Sublist.map _ List.filter_sublist
  have hnd : ((rowsAt t S).map Prod.snd).Nodup := by
    apply List.Nodup.sublist hsub
    rw [List.zipIdx_map_snd]
    exact List.nodup_range' 1
  have hss : (rowsAt t S).map Prod.snd ⊆ S := by
    intro i hi
    rw [List.mem_map] at hi
    obtain ⟨x, hx, rfl⟩ := hi
    have := (List.mem_filter.mp hx).2
    simpa using this
  have := (List.subperm_of_subset hnd hss).length_le
  simpa using this


theorem decI_lt (td : List Atom) (rows : List IRow) : ∀ i ∈ decI td rows, i < td.length := by
  intro i hi
  simp only [decI, List.mem_filterMap, Option.map_eq_some_iff] at hi
  obtain ⟨r, _, d, hd, rfl⟩ := hi
  have hm : labelOf r.1 ∈ td.map labelOf := (mem_labels_iff (labelOf r.1) td).mpr (by unfold lookD at hd; rw [hd]; rfl)
  have := (@List.idxOf_lt_length_iff Label instBEqOfDecidableEq _ (td.map labelOf) (labelOf r.1)).mpr hm
  simpa [idxOfD] using this

/-- STAGE A2 = THE MODEL'S PAIRING: for an index list made of rowIDs of the reference, the loop, the clean-up and the two tests of the
    generated code return the coordinates of `Model.Rmsd.pairByIndex` (decoy side, reference side), `ValueError` when no pair is left -/
theorem irmsdPairing_eq_model (td tr : List Atom) (idx : List Nat) (hv : ∀ i ∈ idx, i < tr.length) :
    irmsdPairing td tr idx =
      if (pairByIndex td (rowsAt tr idx)).length = 0 then .error .valueError
      else .ok ((pairByIndex td (rowsAt tr idx)).map (·.1.2), (pairByIndex td (rowsAt tr idx)).map (·.2.2)) := by
  unfold irmsdPairing
  have hlen := rowsAt_length_le tr idx
  have hf := fold_pair td (rowsAt tr idx) 0 [] [] [] [] (idx.map some) false rfl rfl (by simpa using hlen)
  simp only [List.nil_append, Bool.false_or] at hf
  have he : Py.Rt.enumerate ((rowsAt tr idx).map (fun r => labelOf r.1))
      = (((rowsAt tr idx).map (fun r => labelOf r.1)).zipIdx 0).map (fun p => (p.2, p.1)) := rfl
  rw [he, hf]
  simp only [ok_bind]
  have hc : (if (rowsAt tr idx).any (fun r => !(lookD td r).isSome) = true then
        (Except.ok (((rowsAt tr idx).map (markX td)).filterMap id, (markI td (rowsAt tr idx) (idx.map some)).filterMap id) : Except Err (List P3 × List Nat))
      else GenS.Rt3.noNone ((rowsAt tr idx).map (markX td)) >>= fun a => GenS.Rt3.noNone (markI td (rowsAt tr idx) (idx.map some)) >>= fun b => Except.ok (a, b))
      = Except.ok (((rowsAt tr idx).map (markX td)).filterMap id, (markI td (rowsAt tr idx) (idx.map some)).filterMap id) := by
    cases hany : (rowsAt tr idx).any (fun r => !(lookD td r).isSome)
    · obtain ⟨h1, h2⟩ := any_unmatched_false td (rowsAt tr idx) (idx.map some) hany
      have h3 : (markI td (rowsAt tr idx) (idx.map some)).all Option.isSome = true := by rw [h2]; simp
      simp only [Bool.false_eq_true, if_false, noNone_all _ h1, noNone_all _ h3, ok_bind]
    · simp only [if_true]
  rw [hc]
  simp only [ok_bind, decX_eq, refX_eq]
  by_cases hp : (pairByIndex td (rowsAt tr idx)).length = 0
  · have hd : decI td (rowsAt tr idx) = [] := List.eq_nil_of_length_eq_zero (by rw [decI_length]; exact hp)
    have hE : (rowsAt td (decI td (rowsAt tr idx))).isEmpty = true := by rw [hd]; simp [rowsAt]
    simp only [hE, Bool.true_or, if_true, hp]
  · have hA : (rowsAt td (decI td (rowsAt tr idx))).isEmpty = false := by
      cases hE : (rowsAt td (decI td (rowsAt tr idx))).isEmpty
      · rfl
      · exfalso
        have hne : decI td (rowsAt tr idx) ≠ [] := by
          intro h0; rw [← decI_length, h0] at hp; exact hp rfl
        obtain ⟨i, hi⟩ := List.exists_mem_of_ne_nil _ hne
        exact (rowsAt_isEmpty_iff td _).mp hE i hi (decI_lt td _ i hi)
    have hB : (rowsAt tr ((markI td (rowsAt tr idx) (idx.map some)).filterMap id)).isEmpty = false := by
      cases hE : (rowsAt tr ((markI td (rowsAt tr idx) (idx.map some)).filterMap id)).isEmpty
      · rfl
      · exfalso
        have h1 := clean_length td (rowsAt tr idx) idx hlen
        have h2 := unmatched_count td (rowsAt tr idx)
        have hpos : 0 < ((markI td (rowsAt tr idx) (idx.map some)).filterMap id).length := by omega
        obtain ⟨x, hx⟩ := List.exists_mem_of_length_pos hpos
        exact (rowsAt_isEmpty_iff tr _).mp hE x hx (hv x (clean_subset td _ idx x hx))
    simp only [hA, hB, Bool.or_self, Bool.false_eq_true, if_false, hp]


/-! ### the index lists are made of rowIDs of the reference -/

theorem zipIdx_snd_lt (t : List Atom) (x : IRow) (hx : x ∈ t.zipIdx) : x.2 < t.length := by
  rw [List.mem_zipIdx_iff_getElem?] at hx
  by_contra hge
  rw [List.getElem?_eq_none (by omega)] at hx
  cases hx

theorem irmsdIndex_valid (isfile : Str → Bool) (readlines : Str → Except Err (List Str)) (tr : List Atom) (cutoff : Rat)
    (izone : Option Str) (idx : List Nat) (h : irmsdIndex isfile readlines tr cutoff izone = .ok idx) : ∀ i ∈ idx, i < tr.length := by
  unfold irmsdIndex at h
  cases izone with
  | none =>
    simp only at h
    cases h0 : chainAt (getChains tr) 0 with
    | error e => simp [h0, error_bind] at h
    | ok c0 =>
    cases h1 : chainAt (getChains tr) 1 with
    | error e => simp [h0, h1, ok_bind, error_bind] at h
    | ok c1 =>
    cases h2 : contactSets tr (izoneArgs cutoff c0 c1) with
    | error e => simp [h0, h1, h2, ok_bind, error_bind] at h
    | ok contact =>
      simp only [h0, h1, h2, ok_bind, Except.ok.injEq] at h
      subst h
      intro i hi
      rw [List.mem_map] at hi
      obtain ⟨x, hx, rfl⟩ := hi
      unfold backboneRowsAt rowsAt at hx
      exact zipIdx_snd_lt tr x (List.mem_filter.mp (List.mem_filter.mp hx).1).1
  | some z =>
    simp only at h
    by_cases hf : isfile z = true
    · simp only [hf, if_true] at h
      cases hz : GenR.read_zone isfile readlines z with
      | error e => simp [hz, error_bind] at h
      | ok zone =>
        simp only [hz, ok_bind, Except.ok.injEq] at h
        subst h
        intro i hi
        simp only [izoneRowID, List.mem_flatMap, List.mem_map] at hi
        obtain ⟨e, _, x, hx, rfl⟩ := hi
        exact zipIdx_snd_lt tr x (List.mem_filter.mp hx).1
    · simp [hf] at h

/-- GENERATED ROUTE = the hand model's stage A followed by the translated kernel glue: chains compared, the index stage (= the model's,
    `irmsdIndex_eq_model_none / _file`), the model's pairing `pairByIndex` (`ValueError` when no pair is left), then `sqlKernel` on the
    coordinates of the pairs (decoy side, reference side; the same lists for fitting and evaluation).  Both files parse; any admissible
    iteration order of Python sets. -/
theorem gens_compute_irmsd_pdb2sql_eq_model_stages {μ : Type} (ord : ∀ {α : Type}, List α → List α) (hord : OrderOK ord)
    (isfile : Str → Bool) (readlines : Str → Except Err (List Str)) (p2s : Str → Except Err (List Atom))
    (grm : List P3 → List P3 → μ → Except Err (Mat3 Rat)) (decoy ref : Str) (origin : P3) (cutoff : Rat) (method : μ)
    (izone : Option Str) (td tr : List Atom) (hd : p2s decoy = .ok td) (hr : p2s ref = .ok tr) :
    GenS.compute_irmsd_pdb2sql ord isfile readlines p2s grm decoy ref origin cutoff method izone =
      (if getChains td ≠ getChains tr then (Except.error Err.valueError : Except Err (List Pair))
        else irmsdIndex isfile readlines tr cutoff izone >>= fun idx =>
          if (pairByIndex td (rowsAt tr idx)).length = 0 then .error .valueError else .ok (pairByIndex td (rowsAt tr idx))) >>= fun pairs =>
        sqlKernel grm origin method (pairs.map (·.1.2), pairs.map (·.2.2), pairs.map (·.1.2), pairs.map (·.2.2)) := by
  rw [gens_compute_irmsd_pdb2sql_stages ord hord isfile readlines p2s grm decoy ref origin cutoff method izone td tr hd hr]
  unfold irmsdSqlLists
  by_cases hch : getChains td ≠ getChains tr
  · simp [hch, error_bind]
  · simp only [hch, if_false, bind_assoc]
    cases hI : irmsdIndex isfile readlines tr cutoff izone with
    | error e => rfl
    | ok idx =>
      simp only [ok_bind]
      rw [irmsdPairing_eq_model td tr idx (irmsdIndex_valid isfile readlines tr cutoff izone idx hI)]
      by_cases hp : (pairByIndex td (rowsAt tr idx)).length = 0
      · simp [hp, error_bind]
      · simp only [hp, if_false, ok_bind]

end Proofs.GenSim
