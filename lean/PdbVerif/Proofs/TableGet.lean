/-
  `Model.get` = the row-by-row evaluation (`Spec.get`) for value lists of every length: the plain query, the
  chunking lemma (union / intersection over the chunks = the whole list), the fetch in table order, and the
  induction on the number of over-long lists that shows that the bounded recursion never runs out of fuel.
-/
import PdbVerif.Proofs.TableCols
import PdbVerif.Spec.C17

set_option linter.unusedVariables false
set_option linter.unusedSimpArgs false

namespace TableProofs
open Tbl Model

/-- what `get` must answer on table `T` when the names are known: the selected atoms, or the documented error -/
def expected (db : Db) (T : Table) (columns : Py.Str) (kw : List Kw) : Except Err Result :=
  match Spec.get db.extra T columns kw with
  | none => .error .valueError
  | some items =>
    if Spec.tooMany Gen.max_sql_values Gen.SQLITE_LIMIT_VARIABLE_NUMBER kw then .error .tooManyVars
    else .ok (.data items)

/-! ### positions in `zipIdx` -/

theorem zipIdx_pairwise {α : Type} (l : List α) (k : Nat) : (l.zipIdx k).Pairwise (fun x y => (x.2 : Int) < (y.2 : Int)) := by
  induction l generalizing k with
  | nil => simp
  | cons a t ih =>
    rw [List.zipIdx_cons, List.pairwise_cons]
    refine ⟨?_, ih (k + 1)⟩
    intro y hy
    have := List.mem_zipIdx hy
    simp only
    omega

theorem zipIdx_index_inj {α : Type} (l : List α) (x y : α × Nat) (hx : x ∈ l.zipIdx) (hy : y ∈ l.zipIdx) (h : x.2 = y.2) : x = y := by
  have hx' := List.mem_zipIdx' (x := x.1) (i := x.2) hx
  have hy' := List.mem_zipIdx' (x := y.1) (i := y.2) hy
  obtain ⟨x1, x2⟩ := x
  obtain ⟨y1, y2⟩ := y
  simp only at h hx' hy'
  subst h
  rw [hx'.2, hy'.2]

theorem mem_of_mem_zipIdx {α : Type} (l : List α) (x : α × Nat) (hx : x ∈ l.zipIdx) : x.1 ∈ l := by
  have := List.mem_zipIdx' (x := x.1) (i := x.2) hx
  rw [this.2]; exact List.getElem_mem _

/-! ### the plain query -/

theorem count_eq (a : Arg) : Spec.Arg.count a = a.vals.length := by cases a <;> rfl

theorem isLong_iff (a : Arg) : isLong a = true → Gen.max_sql_values < a.vals.length := by
  cases a <;> simp [isLong, Arg.vals]

theorem weight_short (kw : List Kw) (hs : ∀ k ∈ kw, isLong k.arg = false) :
    Spec.weight Gen.max_sql_values kw = plainCount kw := by
  unfold Spec.weight plainCount
  congr 1
  apply List.map_congr_left
  intro k hk
  rw [count_eq]
  have := hs k hk
  cases hka : k.arg with
  | scalar v => simp [Arg.vals, Gen.max_sql_values]
  | list vs =>
    rw [hka] at this
    simp only [isLong, decide_eq_false_iff_not, not_lt] at this
    simp only [Arg.vals]
    omega

theorem sqlSelect_eq (db : Db) (tab : Tab) (hmem : tab ∈ db.tabs) (h : WF db) (cols : List Col)
    (kw : List Kw) (conds : List SqlCond) (q : List Spec.Cond) (hint : RowIDInts kw)
    (hrel : List.Forall₂ (fun k (sq : SqlCond × Spec.Cond) => CondRel db k sq.1 sq.2) kw (conds.zip q))
    (h1 : conds.length = kw.length) (h2 : q.length = kw.length) :
    sqlSelect db tab cols conds = (Spec.selected db.extra tab.rows q).map (sqlRow cols) := by
  unfold sqlSelect Spec.selected
  congr 1
  apply List.filter_congr
  intro rp hrp
  have hr : RowOK db rp.1 := h.rowOK hmem (mem_of_mem_zipIdx _ _ hrp)
  exact where_eq_sat db rp.1 hr rp.2 kw conds q hint hrel h1 h2

theorem findTab_mem (db : Db) (tn : Py.Str) (tab : Tab) (h : findTab db tn = some tab) : tab ∈ db.tabs :=
  List.mem_of_find?_eq_some h

theorem findTab_table? (db : Db) (tn : Py.Str) : db.table? tn = (findTab db tn).map (·.rows) := rfl

theorem spec_get_eq (db : Db) (T : Table) (columns : Py.Str) (kw : List Kw) (cols : List Col) (q : List Spec.Cond)
    (c1 : Spec.colsOf db.extraNames columns = some cols) (s2 : kw.mapM (Spec.condOf db.extraNames) = some q) :
    Spec.get db.extra T columns kw = some ((Spec.selected db.extra T q).map (Spec.project cols)) := by
  show (match Spec.colsOf db.extraNames columns, kw.mapM (Spec.condOf db.extraNames) with
    | some cs, some q => some ((Spec.selected db.extra T q).map (Spec.project cs))
    | _, _ => none) = _
  rw [c1, s2]

/-- the query without over-long lists: combined-limit error or the selected atoms -/
theorem plain_query (db : Db) (h : WF db) (tn : Py.Str) (tab : Tab) (htab : findTab db tn = some tab)
    (columns : Py.Str) (hok : ColsOK db.extraNames columns = true) (kw : List Kw)
    (hk : KeysOK db kw) (hr : RowIDInts kw) (hs : ∀ k ∈ kw, isLong k.arg = false) :
    ∃ conds, scan db kw = .ok (.conds conds (plainCount kw)) ∧
      runQuery db columns tn conds (plainCount kw) = expected db tab.rows columns kw := by
  obtain ⟨conds, q, s1, s2, s3, s4, s5⟩ := scan_short db h kw hk hr hs
  obtain ⟨_, cols, c1, c2⟩ := cols_ok db h columns hok
  refine ⟨conds, s1, ?_⟩
  unfold runQuery expected
  rw [spec_get_eq db tab.rows columns kw cols q c1 s2]
  simp only [htab, c2]
  rw [Spec.tooMany, weight_short kw hs]
  by_cases hmany : plainCount kw > Gen.SQLITE_LIMIT_VARIABLE_NUMBER
  · simp [hmany]
  · simp only [hmany, if_false, decide_false, Bool.false_eq_true]
    rw [sqlSelect_eq db tab (findTab_mem db tn tab htab) h cols kw conds q hr s3 s4 s5,
      finish_correct db.extraNames columns hok cols c1]

/-! ### the chunking lemma -/

/-- positions of the selected atoms, as the ints `get('rowID', …)` returns -/
def posInts (db : Db) (T : Table) (q : List Spec.Cond) : List Int :=
  (Spec.selected db.extra T q).map (fun rp => (rp.2 : Int))

theorem posInts_pairwise (db : Db) (T : Table) (q : List Spec.Cond) : (posInts db T q).Pairwise (fun a b => intLt a b = true) := by
  unfold posInts Spec.selected
  rw [List.pairwise_map]
  have := (zipIdx_pairwise T 0).sublist (List.filter_sublist (p := Spec.sat db.extra q) (l := T.zipIdx))
  exact this.imp (by intro a b hab; simpa [intLt] using hab)

theorem mem_posInts (db : Db) (T : Table) (q : List Spec.Cond) (i : Int) :
    i ∈ posInts db T q ↔ ∃ rp ∈ T.zipIdx, Spec.sat db.extra q rp = true ∧ (rp.2 : Int) = i := by
  simp only [posInts, Spec.selected, List.mem_map, List.mem_filter]
  constructor
  · rintro ⟨rp, ⟨h1, h2⟩, h3⟩; exact ⟨rp, h1, h2, h3⟩
  · rintro ⟨rp, h1, h2, h3⟩; exact ⟨rp, ⟨h1, h2⟩, h3⟩

theorem sat_append_cons (xd : List ColDef) (q1 : List Spec.Cond) (c : Spec.Cond) (q2 : List Spec.Cond) (rp : Row × Nat) :
    Spec.sat xd (q1 ++ c :: q2) rp = (Spec.sat xd q1 rp && (c.holds xd rp.2 rp.1 && Spec.sat xd q2 rp)) := by
  simp [Spec.sat, List.all_append]

theorem holds_vals (xd : List ColDef) (col : Col) (neg : Bool) (vals : List Val) (p : Nat) (r : Row) :
    (Spec.Cond.holds xd ⟨col, neg, vals⟩ p r) =
      ((vals.any (fun v => Spec.valMatches (Spec.isNumeric xd col) (cell col p r) v)) != neg) := rfl

/-- **chunking lemma (positive)**: a row matches some value of the whole list iff it matches a value of some chunk -/
theorem any_flatten_chunks {α : Type} (m : α → Bool) (cs : List (List α)) :
    cs.flatten.any m = cs.any (fun c => c.any m) := by
  induction cs with
  | nil => rfl
  | cons c t ih => simp [List.any_append, ih]

/-- accumulated rowID set after the chunks `Ps` -/
def foldChunks (neg : Bool) (Ps : List (List Int)) (acc : Option (List Int)) : Option (List Int) :=
  Ps.foldl (combine neg) acc

theorem mem_fold_pos (i : Int) : ∀ (Ps : List (List Int)) (acc : Option (List Int)),
    i ∈ (foldChunks false Ps acc).getD [] ↔ i ∈ acc.getD [] ∨ ∃ P ∈ Ps, i ∈ P
  | [], acc => by simp [foldChunks]
  | P :: rest, acc => by
    have ih := mem_fold_pos i rest (combine false acc P)
    simp only [foldChunks, List.foldl_cons] at ih ⊢
    rw [ih]
    cases acc with
    | none => simp [combine]
    | some a => simp [combine, or_assoc]

theorem mem_fold_neg_some (i : Int) : ∀ (Ps : List (List Int)) (a : List Int),
    i ∈ (foldChunks true Ps (some a)).getD [] ↔ i ∈ a ∧ ∀ P ∈ Ps, i ∈ P
  | [], a => by simp [foldChunks]
  | P :: rest, a => by
    have ih := mem_fold_neg_some i rest (a.filter (fun j => P.contains j))
    simp only [foldChunks, List.foldl_cons, combine] at ih ⊢
    simp only [if_true] at ih ⊢
    rw [ih]
    simp [List.mem_filter, and_assoc]

theorem mem_fold_neg (i : Int) (P0 : List Int) (rest : List (List Int)) :
    i ∈ (foldChunks true (P0 :: rest) none).getD [] ↔ ∀ P ∈ P0 :: rest, i ∈ P := by
  have := mem_fold_neg_some i rest P0
  simp only [foldChunks, List.foldl_cons, combine] at this ⊢
  rw [this]; simp

theorem asInts_positions (l : List (Row × Nat)) :
    asInts (.data (l.map (Spec.project [Col.rowID]))) = .ok (l.map (fun rp => (rp.2 : Int))) := by
  unfold asInts
  simp only [List.mapM_map]
  apply except_mapM_ok
  intro rp _
  simp [Spec.project, cell]

/-- the loop over the chunks when every chunk query answers its positions -/
theorem chunkLoop_ok (recGet : List Kw → Except Err Result) (kw : List Kw) (idx : Nat) (key : Py.Str) (neg : Bool)
    (P : List Val → List Int) : ∀ (cs : List (List Val)) (acc : Option (List Int)),
      (∀ c ∈ cs, ∃ r, recGet (setKw kw idx key c) = .ok r ∧ asInts r = .ok (P c)) →
      chunkLoop recGet kw idx key neg cs acc = .ok (foldChunks neg (cs.map P) acc)
  | [], acc, _ => rfl
  | c :: rest, acc, h => by
    obtain ⟨r, h1, h2⟩ := h c (by simp)
    simp only [chunkLoop, h1, h2, List.map_cons, foldChunks, List.foldl_cons]
    exact chunkLoop_ok recGet kw idx key neg P rest _ (fun c' hc' => h c' (List.mem_cons_of_mem _ hc'))

/-- the loop stops with the error of the first chunk query that fails -/
theorem chunkLoop_err (recGet : List Kw → Except Err Result) (kw : List Kw) (idx : Nat) (key : Py.Str) (neg : Bool)
    (c : List Val) (rest : List (List Val)) (e : Err) (h : recGet (setKw kw idx key c) = .error e) :
    chunkLoop recGet kw idx key neg (c :: rest) none = .error e := by
  simp [chunkLoop, h]

/-! ### fetching the selected rows in table order -/

def rowidCond (c : List Int) : SqlCond := { col := .rowID, neg := false, vals := c.map (fun r => Val.int (r + 1)) }

theorem any_rowid (p : Int) : ∀ (c : List Int),
    ((c.map (fun r => Val.int (r + 1))).map (applyAff Decl.integer)).any (fun b => cmpEq (Val.int (p + 1)) b) = c.contains p
  | [] => rfl
  | a :: t => by
    simp only [List.map_cons, List.any_cons, any_rowid p t, List.contains_cons]
    congr 1
    simp only [applyAff, cmpEq]
    rw [Bool.eq_iff_iff]
    simp only [beq_iff_eq]
    constructor <;> intro h <;> omega

theorem where_rowid (db : Db) (c : List Int) (rp : Row × Nat) :
    sqlWhere db [rowidCond c] rp = c.contains (rp.2 : Int) := by
  simp only [sqlWhere, List.map_cons, List.map_nil, List.all_cons, List.all_nil, Bool.and_true, SqlCond.holds,
    SqlCond.bound, rowidCond, affOf, sqlCell]
  rw [any_rowid]
  cases (c.contains (rp.2 : Int)) <;> rfl

theorem map_flatten_map {α β γ : Type} (F : α → List β) (g : β → γ) (cs : List α) :
    cs.flatMap (fun c => (F c).map g) = ((cs.map F).flatten).map g := by
  induction cs with
  | nil => rfl
  | cons c t ih => simp [List.flatMap_cons, ih]

theorem fetchRows_eq (db : Db) (tab : Tab) (cols : List Col) (q : List Spec.Cond) :
    fetchRows db tab cols (posInts db tab.rows q) = (Spec.selected db.extra tab.rows q).map (sqlRow cols) := by
  have hmax : 0 < Gen.max_sql_values := by decide
  unfold fetchRows
  have h1 : ∀ c : List Int, sqlSelect db tab cols [rowidCond c] =
      (tab.rows.zipIdx.filter (fun rp => c.contains (rp.2 : Int))).map (sqlRow cols) := by
    intro c
    unfold sqlSelect
    congr 1
    apply List.filter_congr
    intro rp _
    exact where_rowid db c rp
  have h2 : (chunks Gen.max_sql_values (posInts db tab.rows q)).flatMap (fun c =>
      sqlSelect db tab cols [{ col := .rowID, neg := false, vals := c.map (fun r => Val.int (r + 1)) }]) =
      (chunks Gen.max_sql_values (posInts db tab.rows q)).flatMap (fun c =>
        (tab.rows.zipIdx.filter (fun rp => c.contains (rp.2 : Int))).map (sqlRow cols)) := by
    congr 1
    funext c
    exact h1 c
  rw [h2, map_flatten_map]
  congr 1
  have hfl := chunks_flatten Gen.max_sql_values hmax (posInts db tab.rows q)
  have hp : (chunks Gen.max_sql_values (posInts db tab.rows q)).flatten.Pairwise (· < ·) := by
    rw [hfl]
    exact (posInts_pairwise db tab.rows q).imp (by intro a b hab; simpa [intLt] using hab)
  rw [filter_pieces (fun rp : Row × Nat => (rp.2 : Int)) tab.rows.zipIdx (zipIdx_pairwise _ 0) _ hp, hfl]
  unfold Spec.selected
  apply List.filter_congr
  intro rp hrp
  rw [Bool.eq_iff_iff, List.contains_iff_mem, mem_posInts]
  constructor
  · rintro ⟨rp', h1', h2', h3'⟩
    have : rp' = rp := zipIdx_index_inj _ _ _ h1' hrp (by exact_mod_cast h3')
    rw [← this]; exact h2'
  · intro hs; exact ⟨rp, hrp, hs, rfl⟩

/-! ### bookkeeping for the induction -/

def longCount (kw : List Kw) : Nat := (kw.filter (fun k => isLong k.arg)).length

theorem longCount_split (l1 : List Kw) (x : Kw) (l2 : List Kw) :
    longCount (l1 ++ x :: l2) = longCount l1 + (if isLong x.arg then 1 else 0) + longCount l2 := by
  unfold longCount
  rw [List.filter_append, List.filter_cons]
  split_ifs <;> simp <;> omega

theorem longCount_zero (l : List Kw) (h : ∀ x ∈ l, isLong x.arg = false) : longCount l = 0 := by
  unfold longCount
  rw [List.length_eq_zero_iff, List.filter_eq_nil_iff]
  intro x hx; simp [h x hx]

theorem all_short_of_longCount (kw : List Kw) (h : longCount kw = 0) : ∀ k ∈ kw, isLong k.arg = false := by
  unfold longCount at h
  rw [List.length_eq_zero_iff, List.filter_eq_nil_iff] at h
  intro k hk; simpa using h k hk

theorem exists_first_long : ∀ (kw : List Kw), ¬ (∀ k ∈ kw, isLong k.arg = false) →
    ∃ l1 k l2, kw = l1 ++ k :: l2 ∧ (∀ x ∈ l1, isLong x.arg = false) ∧ isLong k.arg = true
  | [], h => absurd (by simp) h
  | a :: t, h => by
    by_cases ha : isLong a.arg = true
    · exact ⟨[], a, t, rfl, by simp, ha⟩
    · have ha' : isLong a.arg = false := by simpa using ha
      have : ¬ (∀ k ∈ t, isLong k.arg = false) := by
        intro ht; apply h; intro k hk
        rcases List.mem_cons.1 hk with rfl | hk
        · exact ha'
        · exact ht k hk
      obtain ⟨l1, k, l2, e, h1, h2⟩ := exists_first_long t this
      refine ⟨a :: l1, k, l2, by simp [e], ?_, h2⟩
      intro x hx
      rcases List.mem_cons.1 hx with rfl | hx
      · exact ha'
      · exact h1 x hx

theorem set_length_append {α : Type} (l1 : List α) (a b : α) (l2 : List α) :
    (l1 ++ a :: l2).set l1.length b = l1 ++ b :: l2 := by
  induction l1 with
  | nil => rfl
  | cons x t ih => simp [ih]

theorem weight_split (n : Nat) (l1 : List Kw) (x : Kw) (l2 : List Kw) :
    Spec.weight n (l1 ++ x :: l2) = Spec.weight n l1 + min (Spec.Arg.count x.arg) n + Spec.weight n l2 := by
  simp [Spec.weight, List.sum_append, Nat.add_assoc]

theorem hasModelKey_split (l1 : List Kw) (x y : Kw) (l2 : List Kw) (hxy : x.key = y.key) :
    hasModelKey (l1 ++ x :: l2) = hasModelKey (l1 ++ y :: l2) := by
  simp [hasModelKey, List.any_append, hxy]

theorem condOf_ok (db : Db) (k : Kw) (hk : (stripNo k.key).2 ∈ db.colnames) :
    ∃ col, resolve db.extraNames (stripNo k.key).2 = some col ∧
      ∀ arg, Spec.condOf db.extraNames ⟨k.key, arg⟩ = some ⟨col, (stripNo k.key).1, arg.vals⟩ := by
  obtain ⟨col, hcol⟩ := resolve_of_mem db.extraNames _ hk
  refine ⟨col, hcol, ?_⟩
  intro arg
  simp only [Spec.condOf, ← stripNo_eq_splitNo, hcol, Option.map_some]

theorem mapM_condOf_ok (db : Db) : ∀ (l : List Kw), KeysOK db l → ∃ q, l.mapM (Spec.condOf db.extraNames) = some q
  | [], _ => ⟨[], rfl⟩
  | k :: t, hk => by
    obtain ⟨q, hq⟩ := mapM_condOf_ok db t (fun x hx => hk x (List.mem_cons_of_mem _ hx))
    obtain ⟨col, _, hc⟩ := condOf_ok db k (hk k (by simp))
    refine ⟨⟨col, (stripNo k.key).1, k.arg.vals⟩ :: q, ?_⟩
    have hc' := hc k.arg
    rw [List.mapM_cons, show (⟨k.key, k.arg⟩ : Kw) = k from rfl] at *
    rw [hc', hq]; rfl

theorem mapM_split (db : Db) (l1 : List Kw) (x : Kw) (l2 : List Kw) (q1 : List Spec.Cond) (c : Spec.Cond) (q2 : List Spec.Cond)
    (h1 : l1.mapM (Spec.condOf db.extraNames) = some q1) (hx : Spec.condOf db.extraNames x = some c)
    (h2 : l2.mapM (Spec.condOf db.extraNames) = some q2) :
    (l1 ++ x :: l2).mapM (Spec.condOf db.extraNames) = some (q1 ++ c :: q2) := by
  rw [List.mapM_append, h1, List.mapM_cons, hx, h2]; rfl

theorem colsOK_rowID (names : List Py.Str) : ColsOK names rowIDName = true := by
  have e1 : (rowIDName == "*".toList) = false := by decide
  have e2 : Py.splitOn ',' rowIDName = [rowIDName] := by decide
  have e3 : Py.strIn rowIDName rowIDName = true := by decide
  have e4 : (Tbl.colnames names).contains rowIDName = true := by simp [Tbl.colnames]
  have e5 : rowIDName ∈ Tbl.colnames names := by simp [Tbl.colnames]
  simp [ColsOK, e1, e2, e3, e4, e5, strip_rowID]

theorem colsOf_rowID (names : List Py.Str) : Spec.colsOf names rowIDName = some [Col.rowID] := by
  have e1 : rowIDName ≠ "*".toList := by decide
  have e2 : Py.splitOn ',' rowIDName = [rowIDName] := by decide
  rw [Spec.colsOf, if_neg e1, e2]
  simp [strip_rowID, resolve]

theorem keyOK_all (db : Db) (h : WF db) (tn : Py.Str) (tab : Tab) (htab : findTab db tn = some tab) (kw : List Kw)
    (hk : KeysOK db kw) : kw.all (fun k => keyOK db tn (stripNo k.key).2) = true := by
  rw [List.all_eq_true]
  intro k hkm
  obtain ⟨c, hc⟩ := resolve_of_mem db.extraNames _ (hk k hkm)
  have := sqlCol_eq_resolve db h _ (hk k hkm)
  simp [keyOK, htab, this, hc]

/-- the query without over-long lists, through `getF` -/
theorem getF_short (db : Db) (h : WF db) (tn : Py.Str) (tab : Tab) (htab : findTab db tn = some tab)
    (columns : Py.Str) (hok : ColsOK db.extraNames columns = true) (kw : List Kw)
    (hk : KeysOK db kw) (hr : RowIDInts kw) (hs : ∀ k ∈ kw, isLong k.arg = false)
    (hm : hasModelKey kw = true ∨ db.nModel = 0) (fuel : Nat) :
    getF (fuel + 1) db columns tn kw = expected db tab.rows columns kw := by
  obtain ⟨conds, s1, s2⟩ := plain_query db h tn tab htab columns hok kw hk hr hs
  obtain ⟨v1, _⟩ := cols_ok db h columns hok
  have hdisp : (!hasModelKey kw && decide (db.nModel > 0)) = false := by
    rcases hm with hm | hm <;> simp [hm]
  unfold getF
  simp only [v1, hdisp, Bool.not_true, Bool.false_eq_true, if_false]
  cases kw with
  | nil =>
    simp only [scan] at s1
    injection s1 with s1; injection s1 with s1a s1b
    subst s1a
    simpa [plainCount] using s2
  | cons k t =>
    have hkeys := keyOK_all db h tn tab htab (k :: t) hk
    simp only [List.isEmpty_cons, Bool.false_eq_true, if_false, hkeys, Bool.not_true, s1]
    exact s2

/-! ### the chunked path -/

/-- membership in the positions of `q1 ++ ⟨col, neg, vals⟩ :: q2`, for the row at that position -/
theorem mem_posInts_split (db : Db) (T : Table) (q1 q2 : List Spec.Cond) (col : Col) (neg : Bool) (vals : List Val)
    (rp : Row × Nat) (hrp : rp ∈ T.zipIdx) :
    (rp.2 : Int) ∈ posInts db T (q1 ++ ⟨col, neg, vals⟩ :: q2) ↔
      (Spec.sat db.extra q1 rp = true ∧ Spec.sat db.extra q2 rp = true) ∧
      ((vals.any (fun v => Spec.valMatches (Spec.isNumeric db.extra col) (cell col rp.2 rp.1) v)) != neg) = true := by
  rw [mem_posInts]
  constructor
  · rintro ⟨rp', h1, h2, h3⟩
    have : rp' = rp := zipIdx_index_inj _ _ _ h1 hrp (by exact_mod_cast h3)
    subst this
    rw [sat_append_cons, holds_vals] at h2
    simp only [Bool.and_eq_true] at h2
    exact ⟨⟨h2.1, h2.2.2⟩, h2.2.1⟩
  · rintro ⟨⟨h1, h2⟩, h3⟩
    refine ⟨rp, hrp, ?_, rfl⟩
    rw [sat_append_cons, holds_vals]
    simp [h1, h2, h3]

theorem not_mem_posInts_of_no_row (db : Db) (T : Table) (q : List Spec.Cond) (i : Int)
    (h : ¬ ∃ rp ∈ T.zipIdx, (rp.2 : Int) = i) : i ∉ posInts db T q := by
  rw [mem_posInts]
  rintro ⟨rp, h1, _, h3⟩
  exact h ⟨rp, h1, h3⟩

theorem forall_mem_map_cons {α β : Type} (f : α → List β) (i : β) (a : α) (l : List α) :
    (∀ P ∈ f a :: l.map f, i ∈ P) ↔ ∀ c ∈ a :: l, i ∈ f c := by simp

/-- **chunking lemma**: the rowID sets of the chunks, combined by union (intersection for a negated list) and
    sorted, are the positions selected by the whole list -/
theorem chunks_combine (db : Db) (T : Table) (q1 q2 : List Spec.Cond) (col : Col) (neg : Bool)
    (c0 : List Val) (rest : List (List Val)) :
    sortDedup intLt ((foldChunks neg ((c0 :: rest).map (fun c => posInts db T (q1 ++ ⟨col, neg, c⟩ :: q2))) none).getD []) =
      posInts db T (q1 ++ ⟨col, neg, (c0 :: rest).flatten⟩ :: q2) := by
  apply eq_of_pairwise_of_mem_iff intLt_strict _ _ (pairwise_sortDedup intLt_strict _) (posInts_pairwise _ _ _)
  intro i
  rw [mem_sortDedup]
  by_cases hex : ∃ rp ∈ T.zipIdx, (rp.2 : Int) = i
  · obtain ⟨rp, hrp, rfl⟩ := hex
    rw [mem_posInts_split db T q1 q2 col neg _ rp hrp, any_flatten_chunks]
    cases neg with
    | false =>
      rw [mem_fold_pos]
      simp only [Option.getD_none, List.not_mem_nil, false_or, List.mem_map, exists_exists_and_eq_and]
      constructor
      · rintro ⟨c, hc, hm⟩
        rw [mem_posInts_split db T q1 q2 col false c rp hrp] at hm
        refine ⟨hm.1, ?_⟩
        simp only [Bool.bne_false, List.any_eq_true] at hm ⊢
        exact ⟨c, hc, hm.2⟩
      · rintro ⟨hA, hm⟩
        simp only [Bool.bne_false, List.any_eq_true] at hm
        obtain ⟨c, hc, hm⟩ := hm
        refine ⟨c, hc, ?_⟩
        rw [mem_posInts_split db T q1 q2 col false c rp hrp]
        exact ⟨hA, by simpa using hm⟩
    | true =>
      rw [List.map_cons, mem_fold_neg,
        forall_mem_map_cons (fun c => posInts db T (q1 ++ ⟨col, true, c⟩ :: q2)) (rp.2 : Int) c0 rest]
      constructor
      · intro hall
        have h0 := hall c0 (by simp)
        rw [mem_posInts_split db T q1 q2 col true c0 rp hrp] at h0
        refine ⟨h0.1, ?_⟩
        simp only [bne_iff_ne, ne_eq, Bool.not_eq_true, List.any_eq_false]
        intro c hc
        have := hall c hc
        rw [mem_posInts_split db T q1 q2 col true c rp hrp] at this
        simpa using this.2
      · rintro ⟨hA, hm⟩ c hc
        rw [mem_posInts_split db T q1 q2 col true c rp hrp]
        refine ⟨hA, ?_⟩
        simp only [bne_iff_ne, ne_eq, Bool.not_eq_true, List.any_eq_false] at hm ⊢
        simpa using hm c hc
  · have hr := not_mem_posInts_of_no_row db T (q1 ++ ⟨col, neg, (c0 :: rest).flatten⟩ :: q2) i hex
    simp only [hr, iff_false]
    cases neg with
    | false =>
      rw [mem_fold_pos]
      simp only [Option.getD_none, List.not_mem_nil, false_or, List.mem_map, exists_exists_and_eq_and, not_exists, not_and]
      intro c _
      exact not_mem_posInts_of_no_row db T _ i hex
    | true =>
      rw [List.map_cons, mem_fold_neg,
        forall_mem_map_cons (fun c => posInts db T (q1 ++ ⟨col, true, c⟩ :: q2)) i c0 rest]
      intro hall
      exact not_mem_posInts_of_no_row db T _ i hex (hall c0 (by simp))

/-- **`get` for every list length** (no per-model dispatch): by induction on the number of over-long lists;
    `fuel` beyond that number is never used up -/
theorem getF_core (db : Db) (h : WF db) (tn : Py.Str) (tab : Tab) (htab : findTab db tn = some tab) :
    ∀ (n : Nat) (columns : Py.Str) (kw : List Kw), longCount kw ≤ n → ColsOK db.extraNames columns = true →
      KeysOK db kw → RowIDInts kw → (hasModelKey kw = true ∨ db.nModel = 0) →
      ∀ fuel, n < fuel → getF fuel db columns tn kw = expected db tab.rows columns kw := by
  intro n
  induction n with
  | zero =>
    intro columns kw hn hok hk hr hm fuel hf
    obtain ⟨f, rfl⟩ : ∃ f, fuel = f + 1 := ⟨fuel - 1, by omega⟩
    exact getF_short db h tn tab htab columns hok kw hk hr (all_short_of_longCount kw (by omega)) hm f
  | succ n ih =>
    intro columns kw hn hok hk hr hm fuel hf
    obtain ⟨f, rfl⟩ : ∃ f, fuel = f + 1 := ⟨fuel - 1, by omega⟩
    by_cases hshort : ∀ k ∈ kw, isLong k.arg = false
    · exact getF_short db h tn tab htab columns hok kw hk hr hshort hm f
    · -- the first over-long list
      obtain ⟨l1, k, l2, rfl, hl1, hlong⟩ := exists_first_long kw hshort
      have hmax : 0 < Gen.max_sql_values := by decide
      have hk1 : KeysOK db l1 := fun x hx => hk x (by simp [hx])
      have hk2 : KeysOK db l2 := fun x hx => hk x (by simp [hx])
      have hkk : (stripNo k.key).2 ∈ db.colnames := hk k (by simp)
      have hr1 : RowIDInts l1 := fun x hx => hr x (by simp [hx])
      obtain ⟨q1, hq1⟩ := mapM_condOf_ok db l1 hk1
      obtain ⟨q2, hq2⟩ := mapM_condOf_ok db l2 hk2
      obtain ⟨col, hcol, hcond⟩ := condOf_ok db k hkk
      obtain ⟨vcols, cols, c1, c2⟩ := cols_ok db h columns hok
      have hvs : Gen.max_sql_values < k.arg.vals.length := isLong_iff _ hlong
      -- the conditions of the whole query and of the query with one chunk
      have hqk : (l1 ++ k :: l2).mapM (Spec.condOf db.extraNames) = some (q1 ++ ⟨col, (stripNo k.key).1, k.arg.vals⟩ :: q2) :=
        mapM_split db l1 k l2 q1 _ q2 hq1 (hcond k.arg) hq2
      have hqc : ∀ c : List Val, (l1 ++ (⟨k.key, .list c⟩ : Kw) :: l2).mapM (Spec.condOf db.extraNames) =
          some (q1 ++ ⟨col, (stripNo k.key).1, c⟩ :: q2) :=
        fun c => mapM_split db l1 _ l2 q1 _ q2 hq1 (hcond (.list c)) hq2
      have hset : ∀ c : List Val, setKw (l1 ++ k :: l2) l1.length k.key c = l1 ++ (⟨k.key, .list c⟩ : Kw) :: l2 :=
        fun c => set_length_append l1 k _ l2
      -- weights
      have hwk : Spec.weight Gen.max_sql_values (l1 ++ k :: l2) =
          Spec.weight Gen.max_sql_values l1 + Gen.max_sql_values + Spec.weight Gen.max_sql_values l2 := by
        rw [weight_split, count_eq]; congr 2; omega
      have hwc : ∀ c : List Val, c.length ≤ Gen.max_sql_values →
          Spec.weight Gen.max_sql_values (l1 ++ (⟨k.key, .list c⟩ : Kw) :: l2) =
          Spec.weight Gen.max_sql_values l1 + c.length + Spec.weight Gen.max_sql_values l2 := by
        intro c hc; rw [weight_split, count_eq]; simp only [Arg.vals]; congr 2; omega
      -- every chunk query is answered by the induction hypothesis
      have hchunk : ∀ c : List Val, c.length ≤ Gen.max_sql_values → (∀ v ∈ c, v ∈ k.arg.vals) →
          getF f db rowIDName tn (setKw (l1 ++ k :: l2) l1.length k.key c) =
            expected db tab.rows rowIDName (l1 ++ (⟨k.key, .list c⟩ : Kw) :: l2) := by
        intro c hc hsub
        rw [hset c]
        apply ih rowIDName _ _ (colsOK_rowID _) _ _ _ f (by omega)
        · rw [longCount_split] at hn ⊢
          have : isLong (Arg.list c) = false := by simp [isLong]; omega
          simp only [this, hlong, if_true] at hn ⊢
          simp; omega
        · intro x hx
          simp only [List.mem_append, List.mem_cons] at hx
          rcases hx with hx | rfl | hx
          · exact hk1 x hx
          · exact hkk
          · exact hk2 x hx
        · intro x hx
          simp only [List.mem_append, List.mem_cons] at hx
          rcases hx with hx | rfl | hx
          · exact hr1 x hx
          · intro h0 v hv
            exact hr k (by simp) h0 v (hsub v hv)
          · exact hr x (by simp [hx])
        · rw [hasModelKey_split l1 (⟨k.key, .list c⟩ : Kw) k l2 rfl]; exact hm
      have hexp : ∀ c : List Val, expected db tab.rows rowIDName (l1 ++ (⟨k.key, .list c⟩ : Kw) :: l2) =
          if Spec.tooMany Gen.max_sql_values Gen.SQLITE_LIMIT_VARIABLE_NUMBER (l1 ++ (⟨k.key, .list c⟩ : Kw) :: l2) then .error .tooManyVars
          else .ok (.data ((Spec.selected db.extra tab.rows (q1 ++ ⟨col, (stripNo k.key).1, c⟩ :: q2)).map (Spec.project [Col.rowID]))) := by
        intro c
        unfold expected
        rw [spec_get_eq db tab.rows rowIDName _ [Col.rowID] _ (colsOf_rowID _) (hqc c)]
      -- unfold one level of `get`
      have hdisp : (!hasModelKey (l1 ++ k :: l2) && decide (db.nModel > 0)) = false := by
        rcases hm with hm | hm <;> simp [hm]
      have hkeys := keyOK_all db h tn tab htab (l1 ++ k :: l2) hk
      have hscan := scan_long db h l1 k l2 hk1 hr1 hl1 hlong
      have hne : (l1 ++ k :: l2).isEmpty = false := by simp
      unfold getF
      simp only [vcols, hdisp, hne, hkeys, hscan, Bool.not_true, Bool.false_eq_true, if_false]
      -- the chunks
      obtain ⟨hflat, hcs⟩ := chunks_spec Gen.max_sql_values hmax k.arg.vals
      obtain ⟨rest, hhead⟩ := chunks_head Gen.max_sql_values hmax k.arg.vals (by omega)
      have hc0len : (k.arg.vals.take Gen.max_sql_values).length = Gen.max_sql_values := by
        rw [List.length_take]; omega
      have hsubs : ∀ c ∈ chunks Gen.max_sql_values k.arg.vals, ∀ v ∈ c, v ∈ k.arg.vals := by
        intro c hc v hv
        rw [← hflat]; exact List.mem_flatten.2 ⟨c, hc, hv⟩
      unfold expected
      rw [spec_get_eq db tab.rows columns _ cols _ c1 hqk]
      by_cases hmany : Spec.tooMany Gen.max_sql_values Gen.SQLITE_LIMIT_VARIABLE_NUMBER (l1 ++ k :: l2) = true
      · -- the first chunk carries `max_sql_values` values: the combined-limit error shows up there
        have hm0 : Spec.tooMany Gen.max_sql_values Gen.SQLITE_LIMIT_VARIABLE_NUMBER
            (l1 ++ (⟨k.key, .list (k.arg.vals.take Gen.max_sql_values)⟩ : Kw) :: l2) = true := by
          unfold Spec.tooMany at hmany ⊢
          rw [hwc _ (by omega), hc0len]; rw [hwk] at hmany; exact hmany
        have e0 := hchunk (k.arg.vals.take Gen.max_sql_values) (by omega)
          (fun v hv => List.mem_of_mem_take hv)
        rw [hexp, hm0] at e0
        simp only [if_true] at e0
        rw [hhead, chunkLoop_err _ _ _ _ _ _ rest _ e0]
        simp [hmany]
      · have hmany' : Spec.tooMany Gen.max_sql_values Gen.SQLITE_LIMIT_VARIABLE_NUMBER (l1 ++ k :: l2) = false := by
          simpa using hmany
        have hloop := chunkLoop_ok (fun kw' => getF f db rowIDName tn kw') (l1 ++ k :: l2) l1.length k.key (stripNo k.key).1
          (fun c => posInts db tab.rows (q1 ++ ⟨col, (stripNo k.key).1, c⟩ :: q2))
          (chunks Gen.max_sql_values k.arg.vals) none (by
            intro c hc
            have hlen := (hcs c hc).1
            have hnm : Spec.tooMany Gen.max_sql_values Gen.SQLITE_LIMIT_VARIABLE_NUMBER
                (l1 ++ (⟨k.key, .list c⟩ : Kw) :: l2) = false := by
              unfold Spec.tooMany at hmany' ⊢
              rw [hwk] at hmany'
              rw [hwc c hlen]
              simp only [decide_eq_false_iff_not, not_lt] at hmany' ⊢
              omega
            refine ⟨_, ?_, asInts_positions _⟩
            have := hchunk c hlen (hsubs c hc)
            rw [hexp, hnm] at this
            simpa using this)
        simp only [hloop, hmany', Bool.false_eq_true, if_false]
        rw [hhead] at hflat ⊢
        rw [chunks_combine db tab.rows q1 q2 col (stripNo k.key).1 _ rest, hflat]
        simp only [htab, c2]
        rw [fetchRows_eq, finish_correct db.extraNames columns hok cols c1]

/-! ### the top level: per-model dispatch, fuel -/

/-- the property's answer as a result / exception of the code -/
def toResult : Spec.Answer → Except Err Result
  | .rejected => .error .valueError
  | .tooManyVariables => .error .tooManyVars
  | .rows items => .ok (.data items)
  | .perModel per => .ok (.models per)

theorem toResult_answerOne (db : Db) (T : Table) (columns : Py.Str) (kw : List Kw) :
    toResult (Spec.answerOne Gen.max_sql_values Gen.SQLITE_LIMIT_VARIABLE_NUMBER db T columns kw) = expected db T columns kw := by
  unfold Spec.answerOne expected
  cases Spec.get db.extra T columns kw with
  | none => rfl
  | some items => by_cases hm : Spec.tooMany Gen.max_sql_values Gen.SQLITE_LIMIT_VARIABLE_NUMBER kw = true <;> simp [hm, toResult]

theorem longCount_le (kw : List Kw) : longCount kw ≤ kw.length := List.length_filter_le _ _

theorem model_key_facts : stripNo modelKey = (false, modelKey) ∧ modelKey ≠ rowIDName ∧
    modelKey ∈ StdCol.all.map StdCol.pyName := by decide

theorem withModel_ok (db : Db) (kw : List Kw) (hk : KeysOK db kw) (hr : RowIDInts kw) (m : Nat) :
    KeysOK db (kw ++ [Spec.modelKw m]) ∧ RowIDInts (kw ++ [Spec.modelKw m]) ∧
    hasModelKey (kw ++ [Spec.modelKw m]) = true ∧ longCount (kw ++ [Spec.modelKw m]) = longCount kw := by
  obtain ⟨f1, f2, f3⟩ := model_key_facts
  have hkey : (Spec.modelKw m).key = modelKey := rfl
  refine ⟨?_, ?_, ?_, ?_⟩
  · intro x hx
    rcases List.mem_append.1 hx with hx | hx
    · exact hk x hx
    · simp only [List.mem_singleton] at hx; subst hx
      rw [hkey, f1]
      simp only [Db.colnames, Tbl.colnames, List.mem_cons, List.mem_append]
      exact Or.inr (Or.inl f3)
  · intro x hx
    rcases List.mem_append.1 hx with hx | hx
    · exact hr x hx
    · simp only [List.mem_singleton] at hx; subst hx
      rw [hkey, f1]; intro h0; exact absurd h0 f2
  · simp [hasModelKey, hkey]
  · rw [longCount_split kw (Spec.modelKw m) []]
    simp [Spec.modelKw, isLong, longCount]

theorem modelKw_eq (m : Nat) : Spec.modelKw m = ({ key := modelKey, arg := .scalar (.int m) } : Kw) := rfl

/-- the per-model loop when every model answers -/
theorem modelLoop_ok (recGet : List Kw → Except Err Result) (kw : List Kw) (ans : Nat → List Item) :
    ∀ (ms : List Nat), (∀ m ∈ ms, recGet (kw ++ [Spec.modelKw m]) = .ok (.data (ans m))) →
      modelLoop recGet kw ms = .ok (ms.map ans)
  | [], _ => rfl
  | m :: ms, h => by
    have h0 := h m (by simp)
    rw [modelKw_eq] at h0
    have ih := modelLoop_ok recGet kw ans ms (fun x hx => h x (List.mem_cons_of_mem _ hx))
    simp only [modelLoop, h0, asData, ih, List.map_cons]

theorem modelLoop_err (recGet : List Kw → Except Err Result) (kw : List Kw) (m : Nat) (ms : List Nat) (e : Err)
    (h : recGet (kw ++ [Spec.modelKw m]) = .error e) : modelLoop recGet kw (m :: ms) = .error e := by
  rw [modelKw_eq] at h
  simp only [modelLoop, h]

/-- **Model.get = the property**, for every list length, on the addressed table of a well-formed database -/
theorem get_full (db : Db) (h : WF db) (tn : Py.Str) (tab : Tab) (htab : findTab db tn = some tab)
    (columns : Py.Str) (hok : ColsOK db.extraNames columns = true) (kw : List Kw)
    (hk : KeysOK db kw) (hr : RowIDInts kw) :
    Model.get db columns tn kw =
      toResult (Spec.getOn Gen.max_sql_values Gen.SQLITE_LIMIT_VARIABLE_NUMBER db columns tn kw) := by
  have htable : db.table? tn = some tab.rows := by rw [findTab_table?, htab]; rfl
  have hasks : Spec.asksModel kw = hasModelKey kw := rfl
  unfold Model.get getFuel Spec.getOn
  rw [htable]
  by_cases hdisp : (!hasModelKey kw && decide (db.nModel > 0)) = true
  · -- one answer per model
    simp only [hasks, hdisp, if_true]
    obtain ⟨vcols, _⟩ := cols_ok db h columns hok
    have hcall : ∀ m, getF (kw.length + 2) db columns tn (kw ++ [Spec.modelKw m]) =
        expected db tab.rows columns (kw ++ [Spec.modelKw m]) := by
      intro m
      obtain ⟨w1, w2, w3, w4⟩ := withModel_ok db kw hk hr m
      exact getF_core db h tn tab htab (longCount kw) columns _ (by omega) hok w1 w2 (Or.inl w3) _
        (by have := longCount_le kw; omega)
    show getF (kw.length + 2 + 1) db columns tn kw = _
    unfold getF
    simp only [vcols, hdisp, Bool.not_true, Bool.false_eq_true, if_false, if_true]
    -- the weight, hence the combined-limit verdict, is the same for every model
    have hw : ∀ m, Spec.tooMany Gen.max_sql_values Gen.SQLITE_LIMIT_VARIABLE_NUMBER (kw ++ [Spec.modelKw m]) =
        Spec.tooMany Gen.max_sql_values Gen.SQLITE_LIMIT_VARIABLE_NUMBER (kw ++ [Spec.modelKw 0]) := by
      intro m; simp [Spec.tooMany, Spec.weight, Spec.modelKw, Spec.Arg.count]
    obtain ⟨cols, c1, _⟩ := (cols_ok db h columns hok).2
    have hget : ∀ m, ∃ items, Spec.get db.extra tab.rows columns (kw ++ [Spec.modelKw m]) = some items := by
      intro m
      obtain ⟨w1, _, _, _⟩ := withModel_ok db kw hk hr m
      obtain ⟨q, hq⟩ := mapM_condOf_ok db _ w1
      exact ⟨_, spec_get_eq db tab.rows columns _ cols q c1 hq⟩
    have hpos : 0 < db.nModel := by
      simp only [Bool.and_eq_true, decide_eq_true_eq] at hdisp; exact hdisp.2
    by_cases hmany : Spec.tooMany Gen.max_sql_values Gen.SQLITE_LIMIT_VARIABLE_NUMBER (kw ++ [Spec.modelKw 0]) = true
    · -- the first model already raises the documented error
      obtain ⟨n', hn'⟩ : ∃ n', db.nModel = n' + 1 := ⟨db.nModel - 1, by omega⟩
      have hrange : List.range db.nModel = 0 :: (List.range n').map (· + 1) := by
        rw [hn', List.range_succ_eq_map]
      obtain ⟨items0, hi0⟩ := hget 0
      have e0 : getF (kw.length + 2) db columns tn (kw ++ [Spec.modelKw 0]) = .error .tooManyVars := by
        rw [hcall 0]; unfold expected; rw [hi0]; simp [hmany]
      rw [hrange, modelLoop_err _ kw 0 _ _ e0]
      have hany : ∀ m, Spec.answerOne Gen.max_sql_values Gen.SQLITE_LIMIT_VARIABLE_NUMBER db tab.rows columns
          (kw ++ [Spec.modelKw m]) = .tooManyVariables := by
        intro m
        obtain ⟨items, hi⟩ := hget m
        unfold Spec.answerOne; rw [hi]; simp [hw m, hmany]
      have h1 : (List.map (fun m => Spec.answerOne Gen.max_sql_values Gen.SQLITE_LIMIT_VARIABLE_NUMBER db tab.rows columns
          (kw ++ [Spec.modelKw m])) (0 :: (List.range n').map (· + 1))) =
          (0 :: (List.range n').map (· + 1)).map (fun _ => Spec.Answer.tooManyVariables) := by
        apply List.map_congr_left; intro m _; exact hany m
      rw [h1]
      simp [toResult]
    · have hmany' : ∀ m, Spec.tooMany Gen.max_sql_values Gen.SQLITE_LIMIT_VARIABLE_NUMBER (kw ++ [Spec.modelKw m]) = false := by
        intro m; rw [hw m]; simpa using hmany
      -- every model answers its rows
      have hans : ∀ m, ∃ items, Spec.get db.extra tab.rows columns (kw ++ [Spec.modelKw m]) = some items ∧
          getF (kw.length + 2) db columns tn (kw ++ [Spec.modelKw m]) = .ok (.data items) ∧
          Spec.answerOne Gen.max_sql_values Gen.SQLITE_LIMIT_VARIABLE_NUMBER db tab.rows columns (kw ++ [Spec.modelKw m]) = .rows items := by
        intro m
        obtain ⟨items, hi⟩ := hget m
        refine ⟨items, hi, ?_, ?_⟩
        · rw [hcall m]; unfold expected; rw [hi]; simp [hmany' m]
        · unfold Spec.answerOne; rw [hi]; simp [hmany' m]
      let ans : Nat → List Item := fun m => (Spec.get db.extra tab.rows columns (kw ++ [Spec.modelKw m])).getD []
      have hloop := modelLoop_ok (fun kw' => getF (kw.length + 2) db columns tn kw') kw ans (List.range db.nModel) (by
        intro m _
        obtain ⟨items, hi, hg, _⟩ := hans m
        simp only [ans, hi, Option.getD_some]; exact hg)
      rw [hloop]
      have h1 : (List.map (fun m => Spec.answerOne Gen.max_sql_values Gen.SQLITE_LIMIT_VARIABLE_NUMBER db tab.rows columns
          (kw ++ [Spec.modelKw m])) (List.range db.nModel)) = (List.range db.nModel).map (fun m => Spec.Answer.rows (ans m)) := by
        apply List.map_congr_left; intro m _
        obtain ⟨items, hi, _, ha⟩ := hans m
        simp only [ans, hi, Option.getD_some]; exact ha
      rw [h1]
      simp [toResult, List.filterMap_map, Function.comp]
  · have hdisp' : (!hasModelKey kw && decide (db.nModel > 0)) = false := by simpa using hdisp
    simp only [hasks, hdisp', Bool.false_eq_true, if_false]
    rw [toResult_answerOne]
    have hm : hasModelKey kw = true ∨ db.nModel = 0 := by
      simp only [Bool.and_eq_false_iff, Bool.not_eq_false', decide_eq_false_iff_not, not_lt, Nat.le_zero] at hdisp'
      exact hdisp'
    exact getF_core db h tn tab htab (longCount kw) columns kw (Nat.le_refl _) hok hk hr hm _
      (by have := longCount_le kw; omega)

end TableProofs
