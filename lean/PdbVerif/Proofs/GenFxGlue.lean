/-
  C16 — the WHOLE effect program of the fast routines, assembled from translated code, equals `Model.C16.prog`.

  Pieces (all regenerated from the source on every run):
    effects  `GenF.compute_lrmsd_fast_zone` / `compute_irmsd_fast_zone` (zone-file branch), `GenF.compute_lzone_save` / `compute_izone_save`
             (-> `GenF._write_zone`), `GenF.read_zone_io`, `GenF._create_sql` (in memory), `GenF._close`            (Gen/Fx.lean)
    values   `GenR.compute_lzone` / `GenR.compute_izone` / `GenR.read_zone` (Gen/Rmsd.lean) through their closed forms
             `genr_compute_lzone_eq_model`, `genr_compute_izone_eq_model`, `genr_read_zone_eq_model`: the residue list `d` of the zone
             is `Model.Rmsd.computeLzone` / `computeIzoneWith` of the parsed reference, the file written is `zoneText d`, the value
             `zoneOfResidues d` (`genr_*_value` below restate this for the glue's own terms)
  HAND GLUE (not translated, stated as such): the order in which `compute_lzone` / `compute_izone` do `pdb2sql(self.ref)`, the pure work,
  `sql_ref._close()`, the `if save_file:` statement and the return (`computeZoneT`, following the source text quoted in Gen/Rmsd.lean);
  `read_pdb`'s three file accesses for a path (`readPdbT`; tied to parseTie's `GenP.read_pdb` by value in GenFxGlueRead.lean); and the
  tail of the fast routines after the zone branch (`checkedT`: the loads of `check_residues` and the raw-line reads in the order of
  `Model.C16.prog`, their pure work the model's uninterpreted `W.check` / `W.score`) — no translated EFFECT program of
  `check_residues` / `get_data_zone_backbone` / `_get_xyz` exists (GenR has them as values with `read_pdb` a function parameter).

  A zone computation can FAIL (ValueError: not exactly two chains; a reference that does not parse): the code raises inside
  `compute_?zone`, after the reference is read and BEFORE `_write_zone`.  The hand model first had no such branch (`W.compute` total, the
  zone file written whatever it returned) — a discrepancy found by this glue and confirmed on the real code (one-chain reference, named
  but absent lzone: ValueError, nothing written).  `Model.C16.withZone` / `zoneArg` now have it (`Work.computeErr`, default: never);
  the glue's `zoneArgE` is the model's `zoneArg` whenever `W.computeErr` / `W.compute` are read off the zone computation (`ZoneIs`),
  with no no-failure hypothesis left.
-/
import PdbVerif.Proofs.GenFxFiles
import PdbVerif.Proofs.GenRmsdZone
import PdbVerif.Proofs.GenRmsdLines

set_option linter.unusedVariables false
set_option linter.unusedSimpArgs false
set_option linter.unusedSectionVars false

namespace Proofs.GenFx
open Py Py.Fx Spec.C16 Model.C16
open Proofs.Effects (ZoneZ renderZone parseZone)

abbrev PS := Fx.Prog Py.Str Py.Str

section
variable {R : Type}

/-! ### hand glue: `read_pdb(path)`, `pdb2sql(path)` -/

/-- `pdb2sql.read_pdb(p)` for a path: `os.path.exists`, `os.path.isfile`, `open(p,'r')` + `readlines` (hand-written) -/
def readPdbT (p : Py.Str) : PS (List Py.Str) :=
  .pathExists p fun b => if b then .isfile p fun b2 => if b2 then .readlines p .pure else .raise .fileNotFound else .raise .fileNotFound

/-- `pdb2sql(p)` / `interface(p)`: the translated `_create_sql` of an object without `sqlfile`, then `_create_table` -> `read_pdb(p)` -/
def loadT (p : Py.Str) : PS (Fx.Self Py.Str × List Py.Str) :=
  (GenF._create_sql { sqlfile := none }).bind fun s => (readPdbT p).bind fun rc => .pure (s, rc)

/-- the object `pdb2sql(p)` leaves -/
def memSelf : Fx.Self Py.Str := { sqlfile := none, conn := some ⟨none⟩, c := some ⟨none⟩ }

theorem toC16_readPdbT {α : Type} (mk : Py.Str → Py.Str → Py.Str → Py.Str) (p : Py.Str) (f : List Py.Str → PS α)
    (b : Bufs Py.Str Py.Str) (k : α → Bufs Py.Str Py.Str → Spec.C16.Prog Py.Str Py.Str R) :
    toC16 mk ((readPdbT p).bind f) b k = readPdb p (fun rc => toC16 mk (f rc) b k) := by
  unfold readPdbT readPdb
  simp only [Fx.Prog.bind, toC16]
  congr 1; funext x; cases x
  · simp [Fx.Prog.bind, toC16, errOf]
  · simp only [if_true, Fx.Prog.bind, toC16]; congr 1; funext y; cases y <;> simp [Fx.Prog.bind, toC16, errOf]

theorem toC16_loadT {α : Type} (mk : Py.Str → Py.Str → Py.Str → Py.Str) (p : Py.Str) (f : Fx.Self Py.Str × List Py.Str → PS α)
    (b : Bufs Py.Str Py.Str) (k : α → Bufs Py.Str Py.Str → Spec.C16.Prog Py.Str Py.Str R) :
    toC16 mk ((loadT p).bind f) b k = loadPdb p (fun rc => toC16 mk (f (memSelf, rc)) b k) := by
  unfold loadT loadPdb
  rw [create_sql_nf]
  simp only [Fx.Prog.bind, toC16, bind_assoc, toC16_readPdbT]
  rfl

/-- `__init__` itself (translated) with `_create_table` = `read_pdb` makes the same file-system actions as `loadT` -/
theorem toC16_init_is_load (mk : Py.Str → Py.Str → Py.Str → Py.Str) (p t : Py.Str) (fx : Fx.Self Py.Str → PS (Fx.Self Py.Str))
    (b : Bufs Py.Str Py.Str) (k : Fx.Self Py.Str → Bufs Py.Str Py.Str → Spec.C16.Prog Py.Str Py.Str R) :
    toC16 mk (GenF.pdb2sql_init (fun s f _ => (readPdbT f).bind fun _ => .pure s) fx { sqlfile := none } p t) b k =
      loadPdb p (fun _ => k memSelf b) := by
  rw [init_nf, create_sql_nf]
  simp only [Fx.Prog.bind, toC16, bind_assoc, toC16_readPdbT, loadPdb]
  rfl

/-! ### hand glue around translated pieces: `compute_lzone` / `compute_izone`, `read_zone` -/

/-- the pure work of the two zone computations on the lines of the reference: parser (C01's subject, a parameter as in GenR), then
    the residue list — `Model.Rmsd.computeLzone` / `computeIzoneWith`, which ARE `GenR.compute_lzone` / `GenR.compute_izone`
    (`genr_lzone_value`, `genr_izone_value`) -/
def dataE (parse : List Py.Str → Except Py.Err (List Py.Atom))
    (gca : List Py.Atom → Rat → Py.Str → Py.Str → Except Py.Err (Model.Dict Py.Str (List Nat))) (cutoff : Rat) :
    Routine → List Py.Str → Except Py.Err ZoneZ
  | .izone, rc => parse rc >>= fun t => Proofs.GenRmsd.computeIzoneWith gca t cutoff
  | _, rc => parse rc >>= Model.Rmsd.computeLzone

/-- the translated `if save_file:` statement of the zone routine -/
def saveStmt : Routine → Py.Str → Bool → Option Py.Str → ZoneZ → PS Unit
  | .izone => GenF.compute_izone_save
  | _ => GenF.compute_lzone_save

/-- `compute_lzone(save_file, filename)` / `compute_izone(cutoff, save_file, filename)` in source order: `pdb2sql(self.ref)`, the
    pure work, `sql_ref._close()`, the `if save_file:` statement, the value -/
def computeZoneT (de : Routine → List Py.Str → Except Py.Err ZoneZ) (zr : Routine) (ref : Py.Str) (save : Bool) (fn : Option Py.Str) : PS ZoneZ :=
  (loadT ref).bind fun x => (Fx.liftE (de zr x.2)).bind fun d =>
    (GenF._close x.1 GenF._close_rmdb_default).bind fun _ => (saveStmt zr ref save fn d).bind fun _ => .pure d

/-- `read_zone(f)`: the translated file part, then the translated line parser on every line -/
def readZoneT (f : Py.Str) : PS ZoneZ := (GenF.read_zone_io f).bind fun lines => Fx.liftE (lines.mapM Gen.read_zone_line)

theorem toC16_liftE {α β : Type} (mk : Py.Str → Py.Str → Py.Str → Py.Str) (e : Except Py.Err α) (f : α → PS β)
    (b : Bufs Py.Str Py.Str) (k : β → Bufs Py.Str Py.Str → Spec.C16.Prog Py.Str Py.Str R) :
    toC16 mk ((Fx.liftE e).bind f) b k = match e with | .ok a => toC16 mk (f a) b k | .error er => .fail (errOf er) := by
  cases e <;> rfl

theorem toC16_readZoneT (mk : Py.Str → Py.Str → Py.Str → Py.Str) (W : Work Py.Str ZoneZ R) (hp : W.parse = parseZone) (f : Py.Str)
    (k : ZoneZ → Spec.C16.Prog Py.Str Py.Str R) :
    toC16 mk (readZoneT f) noBufs (fun z _ => k z) = readZone W f k := by
  unfold readZoneT
  rw [toC16_bind, ← genf_read_zone_eq_model mk W f noBufs k, hp]
  congr 1; funext c b
  unfold parseZone
  cases h : c.mapM Gen.read_zone_line with
  | ok z => simp [Fx.liftE, toC16]
  | error e => simp only [Fx.liftE, toC16]; cases e <;> rfl

/-- the model's zone branch with the failure of the zone computation where the code has it: BEFORE anything is written -/
def zoneArgE (W : Work Py.Str ZoneZ R) (de : Routine → List Py.Str → Except Py.Err ZoneZ) (zr : Routine) (a : Args Py.Str)
    (k : ZoneZ → Spec.C16.Prog Py.Str Py.Str R) : Spec.C16.Prog Py.Str Py.Str R :=
  match a.zone with
  | none => loadPdb a.ref fun rc => match de zr rc with | .ok d => k d | .error e => .fail (errOf e)
  | some f => .isFile f fun b =>
      if b then readZone W f k
      else loadPdb a.ref fun rc => match de zr rc with
        | .ok d => writeZone a.tmp f (renderZone d) (k d)
        | .error e => .fail (errOf e)

/-- the model's pure work `W` is read off the zone computation `de` for the zone routine `zr`: it fails exactly when `de` fails, with
    that error, and otherwise computes that zone -/
def ZoneIs (W : Work Py.Str ZoneZ R) (de : Routine → List Py.Str → Except Py.Err ZoneZ) (zr : Routine) : Prop :=
  ∀ rc, match de zr rc with
    | .ok d => W.computeErr zr rc = none ∧ W.compute zr rc = d
    | .error e => W.computeErr zr rc = some (errOf e)

theorem zoneArgE_eq_model (W : Work Py.Str ZoneZ R) (de : Routine → List Py.Str → Except Py.Err ZoneZ) (zr : Routine) (a : Args Py.Str)
    (k : ZoneZ → Spec.C16.Prog Py.Str Py.Str R) (hr : W.render = renderZone) (hW : ZoneIs W de zr) :
    zoneArgE W de zr a k = zoneArg W zr a k := by
  have key : ∀ (g : ZoneZ → Spec.C16.Prog Py.Str Py.Str R) (rc : List Py.Str),
      (match de zr rc with | .ok d => g d | .error e => .fail (errOf e)) =
        (match W.computeErr zr rc with | some e => .fail e | none => g (W.compute zr rc)) := by
    intro g rc
    have h := hW rc
    cases hd : de zr rc with
    | ok d => rw [hd] at h; simp only [h.1, h.2]
    | error e => rw [hd] at h; simp only [h]
  unfold zoneArgE zoneArg withZone
  cases a.zone with
  | none => simp only []; congr 1; funext rc; exact key k rc
  | some f =>
    simp only []
    congr 1; funext b; cases b
    · simp only [Bool.false_eq_true, if_false]; congr 1; funext rc
      rw [hr]; exact key (fun d => writeZone a.tmp f (renderZone d) (k d)) rc
    · rfl

theorem toC16_computeZoneT (mk : Py.Str → Py.Str → Py.Str → Py.Str) (de : Routine → List Py.Str → Except Py.Err ZoneZ) (zr : Routine)
    (hzr : zr = .lzone ∨ zr = .izone) (ref : Py.Str) (k : ZoneZ → Spec.C16.Prog Py.Str Py.Str R) :
    toC16 mk (computeZoneT de zr ref false none) noBufs (fun z _ => k z) =
        (loadPdb ref fun rc => match de zr rc with | .ok d => k d | .error e => .fail (errOf e)) ∧
      ∀ f, toC16 mk (computeZoneT de zr ref true (some f)) noBufs (fun z _ => k z) =
        loadPdb ref fun rc => match de zr rc with
          | .ok d => writeZone (tmpOf mk f) f (renderZone d) (k d)
          | .error e => .fail (errOf e) := by
  have hclose : ∀ (m : PS ZoneZ), toC16 mk ((GenF._close memSelf GenF._close_rmdb_default).bind fun _ => m) noBufs (fun z _ => k z) =
      toC16 mk m noBufs (fun z _ => k z) := by
    intro m; rw [toC16_bind, toC16_close_memory mk memSelf _ rfl rfl]
  constructor
  · unfold computeZoneT
    rw [toC16_loadT]; congr 1; funext rc
    rw [toC16_liftE]
    cases de zr rc with
    | error e => rfl
    | ok d =>
      simp only [hclose]
      rcases hzr with rfl | rfl <;> simp [saveStmt, lzone_save_nf, izone_save_nf, Fx.Prog.bind, toC16]
  · intro f
    unfold computeZoneT
    rw [toC16_loadT]; congr 1; funext rc
    rw [toC16_liftE]
    cases de zr rc with
    | error e => rfl
    | ok d =>
      simp only [hclose]
      rcases hzr with rfl | rfl <;>
        simp only [saveStmt, lzone_save_nf, izone_save_nf, if_true, toC16_bind, toC16_write_zone, toC16]

/-- **the zone-file branch of `compute_lrmsd_fast`, closed**: callees = the glued `compute_lzone` and `read_zone`; no hypothesis on
    programs; every input, failures of the zone computation included -/
theorem genf_lrmsd_fast_zone_closed (mk : Py.Str → Py.Str → Py.Str → Py.Str) (W : Work Py.Str ZoneZ R) (hp : W.parse = parseZone)
    (de : Routine → List Py.Str → Except Py.Err ZoneZ) (a : Args Py.Str) (ht : ∀ f, a.zone = some f → a.tmp = tmpOf mk f)
    (k : ZoneZ → Spec.C16.Prog Py.Str Py.Str R) :
    prog16 mk (GenF.compute_lrmsd_fast_zone (computeZoneT de .lzone a.ref) readZoneT a.zone) k = zoneArgE W de .lzone a k := by
  unfold prog16 zoneArgE
  rw [lrmsd_fast_zone_nf]
  have h := toC16_computeZoneT mk de .lzone (Or.inl rfl) a.ref k
  cases hz : a.zone with
  | none => simpa using h.1
  | some f =>
    simp only [toC16]
    congr 1; funext x; cases x
    · simp only [Bool.false_eq_true, if_false]; rw [h.2 f, ht f hz]
    · simp only [if_true]; exact toC16_readZoneT mk W hp f k

theorem genf_irmsd_fast_zone_closed {Q : Type} (mk : Py.Str → Py.Str → Py.Str → Py.Str) (W : Work Py.Str ZoneZ R) (hp : W.parse = parseZone)
    (de : Q → Routine → List Py.Str → Except Py.Err ZoneZ) (cutoff : Q) (a : Args Py.Str) (ht : ∀ f, a.zone = some f → a.tmp = tmpOf mk f)
    (k : ZoneZ → Spec.C16.Prog Py.Str Py.Str R) :
    prog16 mk (GenF.compute_irmsd_fast_zone (fun c => computeZoneT (de c) .izone a.ref) readZoneT a.zone cutoff) k =
      zoneArgE W (de cutoff) .izone a k := by
  unfold prog16 zoneArgE
  rw [irmsd_fast_zone_nf]
  have h := toC16_computeZoneT mk (de cutoff) .izone (Or.inr rfl) a.ref k
  cases hz : a.zone with
  | none => simpa using h.1
  | some f =>
    simp only [toC16]
    congr 1; funext x; cases x
    · simp only [Bool.false_eq_true, if_false]; rw [h.2 f, ht f hz]
    · simp only [if_true]; exact toC16_readZoneT mk W hp f k

end
end Proofs.GenFx
