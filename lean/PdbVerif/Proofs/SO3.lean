/-
  Polynomial facts about proper rotations (9 entries, 7 relations) over an ordered field:
  rows are cross products of each other, trace ≥ −1, Horn's inequality `R₁₁ + R₂₂ − R₃₃ ≤ 1`, and the
  two scalar bounds behind Kabsch's theorem.  Sum-of-squares + `linear_combination` certificates
  (ported from design_spikes/so3.lean).  Helper lemmas only.
-/
import Mathlib.Tactic.Linarith
import Mathlib.Tactic.Ring
import Mathlib.Tactic.LinearCombination
import Mathlib.Algebra.Order.Field.Basic
import PdbVerif.Proofs.Mat3

set_option linter.unusedSectionVars false
set_option linter.unusedVariables false

namespace Proofs.SO3
open Py Py.Mat3 Spec

variable {α : Type} [Field α] [LinearOrder α] [IsStrictOrderedRing α]

structure Rel (a b c d e f g h i : α) : Prop where
  r1 : a*a + b*b + c*c = 1
  r2 : d*d + e*e + f*f = 1
  r3 : g*g + h*h + i*i = 1
  r12 : a*d + b*e + c*f = 0
  r13 : a*g + b*h + c*i = 0
  r23 : d*g + e*h + f*i = 0
  det : a*(e*i - f*h) - b*(d*i - f*g) + c*(d*h - e*g) = 1

theorem rel_of {M : Mat3 α} (h : M.mul M.T = one) (hd : det M = 1) :
    Rel M.a M.b M.c M.d M.e M.f M.g M.h M.i := by
  have ha := congrArg Mat3.a h; have hb := congrArg Mat3.b h; have hc := congrArg Mat3.c h
  have he := congrArg Mat3.e h; have hf := congrArg Mat3.f h; have hi := congrArg Mat3.i h
  simp only [mul, T, one] at ha hb hc he hf hi
  exact ⟨ha, he, hi, hb, hc, hf, hd⟩

theorem rel_of_rot {M : Mat3 α} (h : IsRotation M) : Rel M.a M.b M.c M.d M.e M.f M.g M.h M.i :=
  rel_of h.1.1 h.2

theorem sq3_zero {x y z : α} (h : x^2 + y^2 + z^2 = 0) : x = 0 ∧ y = 0 ∧ z = 0 := by
  refine ⟨?_, ?_, ?_⟩ <;> nlinarith [sq_nonneg x, sq_nonneg y, sq_nonneg z]

theorem cross12 {a b c d e f g h i : α} (H : Rel a b c d e f g h i) :
    g = b*f - c*e ∧ h = c*d - a*f ∧ i = a*e - b*d := by
  obtain ⟨r1,r2,r3,r12,r13,r23,det⟩ := H
  have hw : (b*f - c*e - g)^2 + (c*d - a*f - h)^2 + (a*e - b*d - i)^2 = 0 := by
    linear_combination (d*d+e*e+f*f) * r1 + r2 - (a*d+b*e+c*f) * r12 - 2 * det + r3
  obtain ⟨h1,h2,h3⟩ := sq3_zero hw
  exact ⟨by linarith, by linarith, by linarith⟩

theorem cross23 {a b c d e f g h i : α} (H : Rel a b c d e f g h i) :
    a = e*i - f*h ∧ b = f*g - d*i ∧ c = d*h - e*g := by
  obtain ⟨r1,r2,r3,r12,r13,r23,det⟩ := H
  have hw : (e*i - f*h - a)^2 + (f*g - d*i - b)^2 + (d*h - e*g - c)^2 = 0 := by
    linear_combination (g*g+h*h+i*i) * r2 + r3 - (d*g+e*h+f*i) * r23 - 2 * det + r1
  obtain ⟨h1,h2,h3⟩ := sq3_zero hw
  exact ⟨by linarith, by linarith, by linarith⟩

theorem cross31 {a b c d e f g h i : α} (H : Rel a b c d e f g h i) :
    d = h*c - i*b ∧ e = i*a - g*c ∧ f = g*b - h*a := by
  obtain ⟨r1,r2,r3,r12,r13,r23,det⟩ := H
  have hw : (h*c - i*b - d)^2 + (i*a - g*c - e)^2 + (g*b - h*a - f)^2 = 0 := by
    linear_combination (a*a+b*b+c*c) * r3 + r1 - (a*g+b*h+c*i) * r13 - 2 * det + r2
  obtain ⟨h1,h2,h3⟩ := sq3_zero hw
  exact ⟨by linarith, by linarith, by linarith⟩

theorem trace_ge_neg_one {a b c d e f g h i : α} (H : Rel a b c d e f g h i) : -1 ≤ a + e + i := by
  obtain ⟨_,_,hi⟩ := cross12 H
  obtain ⟨ha,_,_⟩ := cross23 H
  obtain ⟨_,he,_⟩ := cross31 H
  obtain ⟨r1,r2,r3,r12,r13,r23,det⟩ := H
  have key : (1 + (a+e+i)) * (3 - (a+e+i)) = (h-f)^2 + (c-g)^2 + (d-b)^2 := by
    linear_combination 2*hi + 2*he + 2*ha - r1 - r2 - r3
  have ha1 : a ≤ 1 := by nlinarith [sq_nonneg b, sq_nonneg c, sq_nonneg (a-1)]
  have he1 : e ≤ 1 := by nlinarith [sq_nonneg d, sq_nonneg f, sq_nonneg (e-1)]
  have hi1 : i ≤ 1 := by nlinarith [sq_nonneg g, sq_nonneg h, sq_nonneg (i-1)]
  by_contra hlt
  push Not at hlt
  have h3 : 0 < 3 - (a+e+i) := by linarith
  have hneg : (1 + (a+e+i)) * (3 - (a+e+i)) < 0 := by
    apply mul_neg_of_neg_of_pos <;> linarith
  have hpos : 0 ≤ (h-f)^2 + (c-g)^2 + (d-b)^2 := by positivity
  rw [key] at hneg
  exact absurd hpos (not_le.2 hneg)

theorem horn {a b c d e f g h i : α} (H : Rel a b c d e f g h i) : a + e - i ≤ 1 := by
  have H' : Rel (-a) (-b) c (-d) (-e) f (-g) (-h) i := by
    obtain ⟨r1,r2,r3,r12,r13,r23,det⟩ := H
    constructor <;> nlinarith
  have := trace_ge_neg_one H'
  linarith

theorem diag_le_one {a b c d e f g h i : α} (H : Rel a b c d e f g h i) :
    a ≤ 1 ∧ e ≤ 1 ∧ i ≤ 1 ∧ -1 ≤ i := by
  obtain ⟨r1,r2,r3,_,_,_,_⟩ := H
  refine ⟨?_, ?_, ?_, ?_⟩
  · nlinarith [sq_nonneg b, sq_nonneg c, sq_nonneg (a-1)]
  · nlinarith [sq_nonneg d, sq_nonneg f, sq_nonneg (e-1)]
  · nlinarith [sq_nonneg g, sq_nonneg h, sq_nonneg (i-1)]
  · nlinarith [sq_nonneg g, sq_nonneg h, sq_nonneg (i+1)]

theorem bound_pos {a b c d e f g h i s1 s2 s3 : α} (H : Rel a b c d e f g h i)
    (h1 : 0 ≤ s1) (h2 : 0 ≤ s2) (h3 : 0 ≤ s3) : a*s1 + e*s2 + i*s3 ≤ s1 + s2 + s3 := by
  obtain ⟨ha, he, hi, _⟩ := diag_le_one H
  nlinarith [mul_nonneg h1 (sub_nonneg.2 ha), mul_nonneg h2 (sub_nonneg.2 he), mul_nonneg h3 (sub_nonneg.2 hi)]

theorem bound_neg {a b c d e f g h i s1 s2 s3 : α} (H : Rel a b c d e f g h i)
    (h12 : s2 ≤ s1) (h23 : s3 ≤ s2) (h3 : 0 ≤ s3) : a*s1 + e*s2 - i*s3 ≤ s1 + s2 - s3 := by
  obtain ⟨ha, he, hi, _⟩ := diag_le_one H
  have hh := horn H
  have h2 : 0 ≤ s2 := le_trans h3 h23
  nlinarith [mul_nonneg (sub_nonneg.2 h12) (sub_nonneg.2 ha),
             mul_nonneg h2 (sub_nonneg.2 hh),
             mul_nonneg (sub_nonneg.2 h23) (sub_nonneg.2 hi)]

/-- a proper rotation maps cross products to cross products (orientation is preserved) -/
theorem cross_mulVec {M : Mat3 α} (hM : IsRotation M) (u v : Vec3 α) :
    Vec3.cross (M.mulVec u) (M.mulVec v) = M.mulVec (Vec3.cross u v) := by
  have H := rel_of_rot hM
  obtain ⟨h1, h2, h3⟩ := cross12 H
  obtain ⟨h4, h5, h6⟩ := cross23 H
  obtain ⟨h7, h8, h9⟩ := cross31 H
  ext <;> simp only [Vec3.cross, mulVec]
  · linear_combination (-(u.y*v.z - u.z*v.y)) * h4 - (u.z*v.x - u.x*v.z) * h5 - (u.x*v.y - u.y*v.x) * h6
  · linear_combination (-(u.y*v.z - u.z*v.y)) * h7 - (u.z*v.x - u.x*v.z) * h8 - (u.x*v.y - u.y*v.x) * h9
  · linear_combination (-(u.y*v.z - u.z*v.y)) * h1 - (u.z*v.x - u.x*v.z) * h2 - (u.x*v.y - u.y*v.x) * h3

end Proofs.SO3
