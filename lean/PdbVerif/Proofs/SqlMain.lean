/-
  Entry point of the SQL tie: everything of Proofs/Sql*.lean, the link to well-formed databases, decidability of the
  hypotheses, and non-vacuity examples with a concrete table and concrete statement texts.
-/
import PdbVerif.Proofs.SqlChunk
import PdbVerif.Proofs.SqlAlter
import PdbVerif.Proofs.TableSql

set_option linter.unusedVariables false
set_option linter.unusedSimpArgs false

namespace SqlProofs
open Tbl Model MicroSql GenSql

/-- on a well-formed database (`TableProofs.WF`: no added column is called like the rowid) `rowID` is the rowid -/
theorem rowid_of_wf (db : Db) (h : TableProofs.WF db) : sqlCol db rowIDName = some .rowID := by
  have hmem : rowIDName ∈ db.colnames := by simp [Db.colnames, Tbl.colnames]
  rw [TableProofs.sqlCol_eq_resolve db h rowIDName hmem]
  simp [resolve]

instance (kw : List Kw) : Decidable (NoLong kw) := by unfold NoLong; infer_instance
instance (columns tn : Py.Str) (kw : List Kw) : Decidable (PlainNames columns tn kw) := by unfold PlainNames; infer_instance

/-! ### non-vacuity: a concrete table, a concrete query text -/

def exAtom : Py.Atom :=
  { serial := 1, name := "CA".toList, altLoc := [], resName := "ALA".toList, chainID := "A".toList
    resSeq := 5, iCode := [], x := 1/2, y := 0, z := 0, occ := 1, temp := 0, element := "C".toList, model := 0 }
def exTable : Table := [⟨exAtom, []⟩, ⟨{ exAtom with serial := 2, name := "N".toList, x := 3/2 }, []⟩, ⟨{ exAtom with serial := 3, resSeq := 6 }, []⟩]
def exDb : Db := { tabs := [⟨"ATOM".toList, exTable⟩] }
def exKw : List Kw :=
  [⟨"name".toList, .list [.text "CA".toList, .text "N".toList]⟩, ⟨"no_resSeq".toList, .scalar (.int 6)⟩,
   ⟨"rowID".toList, .list [.int 1, .int 0, .int 7]⟩]

/-- the hypotheses of `get_eq_sql` hold for a three-atom table, the column string `serial ,rowID` (a blank inside),
    table name in another letter case and a conjunction of a text list, a negated numeric condition and a
    rowID list -/
example : validCols exDb "serial ,rowID".toList = true ∧ (hasModelKey exKw = true ∨ exDb.nModel = 0) ∧
    exKw.all (fun k => keyOK exDb "atom".toList (stripNo k.key).2) = true ∧ NoLong exKw ∧
    PlainNames "serial ,rowID".toList "atom".toList exKw ∧ sqlCol exDb rowIDName = some .rowID := by
  refine ⟨by decide, Or.inr rfl, by decide, by decide, by decide, by decide⟩

/-- the text and the values the translated builder produces for it -/
example : get_query "serial ,rowID".toList "atom".toList exKw =
    .ok (.cont ("SELECT serial ,rowID FROM atom WHERE name in (?,?) AND resSeq NOT in (?) AND rowID in (?,?,?)".toList,
      [.text "CA".toList, .text "N".toList, .int 6, .int 2, .int 1, .int 8])) := by decide +kernel

/-- … and what MicroSql + the translated `_format_get_output` make of it: atoms 0 and 1 (atom 2 has resSeq 6) -/
example : getViaSql exDb "serial ,rowID".toList "atom".toList exKw = .ok (.data [.many [.int 1, .int 0], .many [.int 2, .int 1]]) := by
  decide +kernel

/-- a blank before `rowID` in the column string is the source's ValueError (`.index('rowID')`), in the model and in the translation -/
example : getViaSql exDb "serial, rowID".toList "atom".toList exKw = .error .valueError ∧
    Model.get exDb "serial, rowID".toList "atom".toList exKw = .error .valueError := by decide +kernel

/-- error branches are reached, not assumed away: a text rowID value is Python's TypeError, 1000 values the documented error -/
example : getViaSql exDb "x".toList "ATOM".toList [⟨"rowID".toList, .scalar (.text "1".toList)⟩] = .error .typeError := by decide +kernel
example : getViaSql exDb "x".toList "ATOM".toList [⟨"serial".toList, .list (List.replicate 500 (.int 1))⟩, ⟨"resSeq".toList, .list (List.replicate 500 (.int 1))⟩] =
    .error .tooManyVars := by decide +kernel
example : getViaSql exDb "x".toList "nosuch".toList [] = .error .operational := by decide +kernel

/-- the chunked path's final query for rows 0 and 2 -/
example : get_rows_step "name".toList "ATOM".toList [0, 2, 5] 0 2 = ("SELECT name FROM ATOM WHERE rowID in (?,?)".toList, [1, 3]) := by decide +kernel
example : MicroSql.query exDb "SELECT name FROM ATOM WHERE rowID in (?,?)".toList [.int 1, .int 3] = .ok [[.text "CA".toList], [.text "CA".toList]] := by
  decide +kernel

/-- `update`: text, data rows, effect -/
example : update_exec "ATOM".toList ["x".toList, "name".toList] [[.int 7, .text "Q".toList]] [1] =
    .ok ("UPDATE ATOM SET x=?, name=? WHERE rowID=?".toList, [[.int 7, .text "Q".toList, .int 2]]) := by decide +kernel
example : ((MicroSql.executemany exDb "UPDATE ATOM SET x=?, name=? WHERE rowID=?".toList [[.int 7, .text "Q".toList, .int 2]]).1.tabs.map
    (fun t => t.rows.map (fun r => (r.atom.x, r.atom.name)))) = [[(1/2, "CA".toList), (7, "Q".toList), (1/2, "CA".toList)]] := by decide +kernel

/-- `add_column`: text and effect (`str(0.5) = '0.5'`) -/
example : add_column_exec (fun _ => "0.5".toList) "score".toList "FLOAT".toList (.real (1/2)) "ATOM".toList =
    "ALTER TABLE ATOM ADD COLUMN 'score' FLOAT DEFAULT 0.5".toList := by decide +kernel
example : litVal "0.5".toList = some (.real (1/2)) ∧ litVal "-3".toList = some (.int (-3)) ∧ litVal "positive".toList = some (.text "positive".toList) := by
  decide +kernel

end SqlProofs
