/-
  The translated `check_residues` / `get_residues` (Gen/Sim.lean) ARE the hand model `Model.Rmsd.checkResidues` / `getResidues`, and the
  translated `compute_lrmsd_pdb2sql` has the data flow of the hand model `Model.Rmsd.lrmsdSql` (Model/RmsdSql.lean): the same STAGE A
  (`lrmsdSqlLists`: chains compared, `check_residues`, shared atoms of both chains by identity, long chain by atom count of the
  reference) followed by the kernel — the generated code runs the translated glue `sqlKernel` (rotation kernel a parameter, exact
  radicand), the model classifies NumPy's shape errors (`kernelSql`) and returns the pair lists.  As in Proofs/GenRmsdFast.lean.
  The components of stage A are tied to the model by `gens_check_residues_eq_model` (here) and the `get_identical_atoms` theorems of
  Proofs/GenSimIdent.lean.  `compute_irmsd_pdb2sql` / `get_izone_rowID` are translated and compared with the real code on every run
  (driver op `sim_sql`); their stage decomposition is NOT proved here.
-/
import PdbVerif.Proofs.GenSimIdent
import PdbVerif.Proofs.GenContactsA

set_option linter.unusedVariables false
set_option linter.unusedSimpArgs false

namespace Proofs.GenSim
open Py Model Model.Rmsd Proofs.GenRmsd

/-! ### `get_residues`, `check_residues` -/

theorem nameOK_eq (kw : GenS.Rt3.Kw) (a : Atom) : GenS.Rt3.Kw.cond kw a = nameOK kw a := by
  cases kw <;> rfl

theorem gens_get_residues_eq_model (t : List Atom) (kw : GenS.Rt3.Kw) : GenS.get_residues t kw = .ok (getResidues t kw) := by
  unfold GenS.get_residues getResidues
  have h := select_fst t (fun a => GenS.Rt3.Kw.cond kw a) res3
  simp only [res3] at h
  have hh : (fun a => GenS.Rt3.Kw.cond kw a) = nameOK kw := funext (nameOK_eq kw)
  simp only [h, List.map_id', pure_eq_ok, GenS.Rt3.distinctInOrder, Proofs.GenContacts.set_eq]
  rw [hh]

/-- a loop whose body either returns `False` / raises (condition `c`) or goes on -/
theorem firstM_any {α : Type} (c : α → Bool) (e : Bool) : ∀ (l : List α),
    GenS.Rt3.firstM (fun x => if c x = true then (if e = true then (Except.error Err.valueError : Except Err (Option Bool)) else Except.ok (some false))
        else Except.ok none) l
      = if l.any c = true then (if e = true then Except.error Err.valueError else Except.ok (some false)) else Except.ok none
  | [] => rfl
  | x :: xs => by
    unfold GenS.Rt3.firstM
    by_cases hc : c x = true
    · cases e <;> simp [hc]
    · simp only [hc, Bool.false_eq_true, if_false, List.any_cons, Bool.false_or]
      exact firstM_any c e xs

theorem residueNames_select (t : List Atom) (kw : GenS.Rt3.Kw) (r : Res3) :
    Py.Tbl.select t (fun r_ => decide (r_.1.chainID = r.1) && decide (r_.1.resName = r.2.1) && decide (r_.1.resSeq = r.2.2) && GenS.Rt3.Kw.cond kw r_.1)
      (fun r_ => r_.1.name) = residueNames t kw r := by
  rw [select_fst t (fun a => decide (a.chainID = r.1) && decide (a.resName = r.2.1) && decide (a.resSeq = r.2.2) && GenS.Rt3.Kw.cond kw a) (·.name)]
  unfold residueNames
  rw [List.filter_filter]
  congr 2
  funext a
  obtain ⟨r1, r2, r3⟩ := r
  simp only [res3, Prod.mk.injEq, nameOK_eq, Bool.decide_and, Bool.and_assoc, Bool.and_comm]

/-- `check_residues(**kwargs)`, translated = `Model.Rmsd.checkResidues` on the two parsed tables (reference parsed first) -/
theorem gens_check_residues_eq_model (p2s : Str → Except Err (List Atom)) (decoy ref : Str) (enforce : Bool) (kw : GenS.Rt3.Kw) :
    GenS.check_residues p2s decoy ref enforce kw =
      p2s ref >>= fun tr => p2s decoy >>= fun td => checkResidues td tr kw enforce := by
  unfold GenS.check_residues checkResidues
  apply bind_congr'; intro tr
  apply bind_congr'; intro td
  simp only [gens_get_residues_eq_model, ok_bind, residueNames_select, pure_eq_ok, throw_eq_error]
  by_cases h : getResidues tr kw ≠ getResidues td kw
  · cases enforce <;> simp [h]
  · simp only [h, decide_false, Bool.false_eq_true, if_false]
    have := firstM_any (fun (it : Res3 × Res3) => decide (residueNames tr kw it.2 ≠ residueNames td kw it.1)) enforce
      (List.zip (getResidues td kw) (getResidues tr kw))
    simp only [decide_eq_true_eq] at this ⊢
    rw [this]
    cases hany : (List.zip (getResidues td kw) (getResidues tr kw)).any _ <;> cases enforce <;> simp [hany] <;> rfl


/-! ### `compute_lrmsd_pdb2sql`: stage decomposition around the rotation kernel -/

/-- the selection after `if 'name' not in kwargs: kwargs['name'] = backbone` -/
def lrmsdKw (kw : GenS.Rt3.Kw) : GenS.Rt3.Kw :=
  match kw with
  | none => some lrmsdSqlNames
  | some ns => some ns

theorem lrmsdSqlNames_literal : lrmsdSqlNames = [['C', 'A'], ['C'], ['N'], ['O']] := by
  simp [lrmsdSqlNames, Gen.lrmsd_sql_backbone]

/-- STAGE A of `compute_lrmsd_pdb2sql` (everything before the kernel): chains compared, `check_residues` (`cr`), the shared atoms of
    the two chains (`ident`), long chain = more atoms in the reference (first chain when equal).  Result: fitting points (decoy,
    reference) and evaluation points (decoy, reference).  Polymorphic in the point type: the hand model keeps the identity keys. -/
def lrmsdSqlLists {β : Type} (ident : Str → Except Err (List β × List β)) (td tr : List Atom) (cr : Except Err Bool) :
    Except Err (List β × List β × List β × List β) :=
  if getChains td ≠ getChains tr then .error .valueError
  else chainAt (getChains td) 0 >>= fun c1 => chainAt (getChains td) 1 >>= fun c2 =>
    cr >>= fun _ => ident c1 >>= fun a => ident c2 >>= fun b =>
      if (chainRows tr c1).length ≥ (chainRows tr c2).length then .ok (a.1, a.2, b.1, b.2) else .ok (b.1, b.2, a.1, a.2)

/-- STAGE B: the translated kernel glue (`get_trans_vect`, `+=`, the rotation kernel — a parameter —, `transform.rotate` about
    `self.origin`, the radicand of `get_rmsd`) on the four lists -/
def sqlKernel {μ : Type} (grm : List P3 → List P3 → μ → Except Err (Mat3 Rat)) (origin : P3) (method : μ)
    (q : List P3 × List P3 × List P3 × List P3) : Except Err Rat :=
  grm (Np.addRow q.1 (GenK.get_trans_vect q.1)) (Np.addRow q.2.1 (GenK.get_trans_vect q.2.1)) method >>= fun U =>
    .ok (GenK.get_rmsd_radicand (GenK.rotate (Np.addRow q.2.2.1 (GenK.get_trans_vect q.1)) U (some origin))
      (Np.addRow q.2.2.2 (GenK.get_trans_vect q.2.1)))

theorem nrows_eq (t : List Atom) (c : Str) :
    (Py.Tbl.select t (fun r => decide (r.1.chainID = c)) (fun r => Vec3.mk r.1.x r.1.y r.1.z)).length = (chainRows t c).length := by
  simp [Py.Tbl.select, chainRows]

/-- NORMAL FORM of the generated route: stage A (with the generated `check_residues` / `get_identical_atoms`), then stage B -/
theorem gens_compute_lrmsd_pdb2sql_stages {μ : Type} (ord : ∀ {α : Type}, List α → List α) (p2s : Str → Except Err (List Atom))
    (grm : List P3 → List P3 → μ → Except Err (Mat3 Rat)) (decoy ref : Str) (enforce : Bool) (origin : P3) (method : μ)
    (kw : GenS.Rt3.Kw) (td tr : List Atom) (hd : p2s decoy = .ok td) (hr : p2s ref = .ok tr) :
    GenS.compute_lrmsd_pdb2sql ord p2s grm decoy ref enforce origin method kw =
      lrmsdSqlLists (fun c => GenS.get_identical_atoms ord td tr c (lrmsdKw kw)) td tr
          (GenS.check_residues p2s decoy ref enforce (lrmsdKw kw)) >>= fun q => sqlKernel grm origin method q := by
  unfold GenS.compute_lrmsd_pdb2sql lrmsdSqlLists sqlKernel
  have hkw : (if (!GenS.Rt3.Kw.has kw "name") = true then (Except.ok (GenS.Rt3.Kw.setName kw [['C', 'A'], ['C'], ['N'], ['O']]) : Except Err GenS.Rt3.Kw)
      else Except.ok kw) = Except.ok (lrmsdKw kw) := by
    cases kw <;> simp [GenS.Rt3.Kw.has, GenS.Rt3.Kw.setName, lrmsdKw, lrmsdSqlNames_literal]
  have hno : GenS.Rt3.Kw.has (lrmsdKw kw) "chainID" = false := by
    cases kw <;> simp [GenS.Rt3.Kw.has, lrmsdKw]
  simp only [pure_eq_ok, ok_bind, bind_assoc, hkw, hno, Bool.false_eq_true, if_false, hd, hr, throw_eq_error,
    Proofs.GenContacts.get_chains_eq_model, nrows_eq]
  by_cases hch : getChains td ≠ getChains tr
  · simp [hch, error_bind]
  · simp only [hch, decide_false, Bool.false_eq_true, if_false, chainAt, Py.Rt.getItem, bind_assoc]
    cases (getChains td)[0]? with
    | none => rfl
    | some c1 =>
      cases (getChains td)[1]? with
      | none => rfl
      | some c2 =>
        simp only [ok_bind]
        cases GenS.check_residues p2s decoy ref enforce (lrmsdKw kw) with
        | error e => rfl
        | ok _ =>
          simp only [ok_bind]
          cases GenS.get_identical_atoms ord td tr c1 (lrmsdKw kw) with
          | error e => rfl
          | ok a =>
            simp only [ok_bind]
            cases GenS.get_identical_atoms ord td tr c2 (lrmsdKw kw) with
            | error e => rfl
            | ok b =>
              simp only [ok_bind]
              by_cases hn : (chainRows tr c1).length ≥ (chainRows tr c2).length
              · simp only [hn, decide_true, if_true, ok_bind, bind_assoc]
              · simp only [hn, decide_false, Bool.false_eq_true, if_false, ok_bind, bind_assoc]

/-- the hand model has the same stage A (its own `checkResidues` / `identicalAtoms`, keys kept) followed by the shape classification
    `kernelSql` -/
theorem lrmsdSql_model_stages (td tr : List Atom) (enforce : Bool) :
    lrmsdSql (.ok td) (.ok tr) enforce =
      Outcome.ofExcept (lrmsdSqlLists (fun c => identicalAtoms td tr c lrmsdSqlNames >>= fun ps => Except.ok (ps.map (·.1), ps.map (·.2)))
        td tr (checkResidues td tr (some lrmsdSqlNames) enforce) >>= fun q => Except.ok (kernelSql q.1 q.2.1 q.2.2.1 q.2.2.2)) := by
  unfold lrmsdSql lrmsdSqlLists
  congr 1
  simp only [ok_bind, pure_eq_ok, throw_eq_error, bind_assoc]
  by_cases hch : getChains td ≠ getChains tr
  · simp [hch, error_bind]
  · simp only [hch, if_false, bind_assoc]
    apply bind_congr'; intro c1
    apply bind_congr'; intro c2
    apply bind_congr'; intro _
    apply bind_congr'; intro a
    apply bind_congr'; intro b
    by_cases hn : (chainRows tr c1).length ≥ (chainRows tr c2).length
    · simp only [hn, if_true, ok_bind]
    · simp only [hn, if_false, ok_bind]

/-! ### generated route = the model's stage A, then the translated kernel -/

/-- the keys dropped -/
def coordsOf (l : List Pt) : List P3 := l.map (·.2)

/-- GENERATED ROUTE = the hand model's stage A (its own `checkResidues` / `identicalAtoms`, keys dropped) followed by the translated
    kernel glue — when the shared-atom sets are iterated in key order (the representative the model chose; for other orders the lists
    are permuted consistently, `gens_get_identical_atoms_perm_model`).  Both files parse; default selection (`kwargs = {}`). -/
theorem gens_compute_lrmsd_pdb2sql_eq_model_stages {μ : Type} (ord : ∀ {α : Type}, List α → List α) (p2s : Str → Except Err (List Atom))
    (grm : List P3 → List P3 → μ → Except Err (Mat3 Rat)) (decoy ref : Str) (enforce : Bool) (origin : P3) (method : μ)
    (td tr : List Atom) (hd : p2s decoy = .ok td) (hr : p2s ref = .ok tr)
    (hkey : ∀ c, ord (sharedKeys td tr c (some lrmsdSqlNames)) = modelKeys td tr c lrmsdSqlNames) :
    GenS.compute_lrmsd_pdb2sql ord p2s grm decoy ref enforce origin method none =
      lrmsdSqlLists (fun c => identicalAtoms td tr c lrmsdSqlNames >>= fun ps => Except.ok (ps.map (·.1), ps.map (·.2)))
          td tr (checkResidues td tr (some lrmsdSqlNames) enforce) >>= fun q =>
        sqlKernel grm origin method (coordsOf q.1, coordsOf q.2.1, coordsOf q.2.2.1, coordsOf q.2.2.2) := by
  rw [gens_compute_lrmsd_pdb2sql_stages ord p2s grm decoy ref enforce origin method none td tr hd hr]
  have hcr : GenS.check_residues p2s decoy ref enforce (lrmsdKw none) = checkResidues td tr (some lrmsdSqlNames) enforce := by
    rw [gens_check_residues_eq_model, hr, hd]; rfl
  have hid : (fun c => GenS.get_identical_atoms ord td tr c (lrmsdKw none)) =
      (fun c => identicalAtoms td tr c lrmsdSqlNames >>= fun ps => Except.ok (splitPairs ps)) := by
    funext c
    exact gens_get_identical_atoms_eq_model ord td tr c lrmsdSqlNames (hkey c)
  rw [hcr, hid]
  unfold lrmsdSqlLists
  by_cases hch : getChains td ≠ getChains tr
  · simp [hch, error_bind]
  · simp only [hch, if_false, bind_assoc]
    apply bind_congr'; intro c1
    apply bind_congr'; intro c2
    apply bind_congr'; intro _
    cases identicalAtoms td tr c1 lrmsdSqlNames with
    | error e => rfl
    | ok a =>
      simp only [ok_bind]
      cases identicalAtoms td tr c2 lrmsdSqlNames with
      | error e => rfl
      | ok b =>
        simp only [ok_bind]
        by_cases hn : (chainRows tr c1).length ≥ (chainRows tr c2).length
        · simp only [hn, if_true, ok_bind, splitPairs, coordsOf, List.map_map]; rfl
        · simp only [hn, if_false, ok_bind, splitPairs, coordsOf, List.map_map]; rfl

end Proofs.GenSim
