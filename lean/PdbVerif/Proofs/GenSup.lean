/-
  Tie #1 for the body of `superpose.superpose` (C13): the definition py/translate_ext_sup.py generates from the current source
  (`GenSup.superpose`, Gen/Sup.lean), run in the world of the hand model's own many2sql steps (Proofs/GenSupWorld.lean), with
  `pdb2sql(.)` and the rotation kernel as parameters, IS `Model.SupDb.superpose` (Model/SuperposeDb.lean) — the model the theorems
  of Props/C13 are about — for every pair of arguments (sources or databases), every method, `only_backbone`, `export` and every
  keyword dictionary whose keys are columns: the same updated table, the same exception, the same files written.
  Hypotheses: `Rt.kwCheck kw = ok` (a keyword that is not a column raises ValueError in `get`; `rowID` is outside the model) and
  `∀ R, grm [] [] method ≠ ok R` (the kernel REJECTS the empty selection, with whatever exception: the real dispatch raises ValueError
  for an unknown method, the real kernels TypeError from `any(np.abs(np.mean(.)) > eps)` of a scalar nan; model and generated code
  both raise what the kernel raises — a kernel that returned a matrix there is outside the model).
  Structure: the generated text is brought, by `simp only` with the monad laws, to the hand-written normal forms `restNF` /
  `tailNF` / `exportNF` (statement order and names do not matter), and everything else is proved about those.
-/
import Mathlib.Tactic.SplitIfs
import PdbVerif.Proofs.GenSupDb

set_option linter.unusedSectionVars false
set_option linter.unusedVariables false
set_option linter.unusedSimpArgs false
set_option linter.unusedTactic false
set_option linter.unreachableTactic false

namespace Proofs.SupTie
open Py Model Proofs.GenSupWorld Proofs.GenKernels GenSup

abbrev nameKey : Str := ['n', 'a', 'm', 'e']
abbrev V := Vec3 Rat
abbrev Files := List (Str × List Str)

/-! ### the accessors the generated code uses, against the model's `filter` / `map` -/

theorem select_atomId (t : List Atom) (p : Atom → Bool) :
    Tbl.select t (fun r => p r.1) (fun r_ => (r_.1.name, r_.1.resName, r_.1.resSeq, r_.1.chainID)) = (t.filter p).map SupDb.atomId := by
  rw [← zipIdx_filter_fst p t 0, List.map_map]; rfl

theorem select_xyz (t : List Atom) (p : Atom → Bool) :
    Rt.npArrayXYZ (Tbl.select t (fun r => p r.1) (fun r_ => (r_.1.x, r_.1.y, r_.1.z))) = (t.filter p).map SupDb.pos := by
  rw [← zipIdx_filter_fst p t 0, List.map_map]
  simp only [Rt.npArrayXYZ, Tbl.select, List.map_map]; rfl

theorem select_all_xyz (t : List Atom) :
    Rt.npArrayXYZ (Tbl.select t (fun _ => true) (fun r_ => (r_.1.x, r_.1.y, r_.1.z))) = t.map SupDb.pos := by
  conv_rhs => rw [← zipIdx_map_fst' t 0, List.map_map]
  simp only [Rt.npArrayXYZ, Tbl.select, List.map_map, List.filter_true]; rfl

/-! ### the model, cut where the generated code is cut -/

/-- `Model.SupDb.superpose` after the selection predicate is known -/
def modelRest (kernel : List V → List V → Except Err (Mat3 Rat)) (mob tar : SupDb.Db) (ex : Bool) (sel : Atom → Bool) :
    Except Err SupDb.Out := do
  let m ← SupDb.matched mob.rows tar.rows sel
  if m.1.isEmpty then
    match superposeSelection kernel (mob.rows.map SupDb.pos) m.1 m.2 with
    | .error e => throw e
    | .ok _ => throw (Err.unmodelled "the rotation kernel accepted an empty selection")
  let xyzMobile ← superposeSelection kernel (mob.rows.map SupDb.pos) m.1 m.2
  let mobile' := (mob.rows.zip xyzMobile).map (fun p => SupDb.setPos p.1 p.2)
  let files ← SupDb.exportFiles mob tar ex mobile'
  pure { mobile := mobile', target := tar.rows, files := files }

theorem model_unfold (kernel : List V → List V → Except Err (Mat3 Rat)) (mob tar : SupDb.Db) (a : SupDb.Args) :
    SupDb.superpose kernel mob tar a = SupDb.selection a >>= modelRest kernel mob tar a.doExport := rfl

/-- the model after the two coordinate lists are known -/
def modelTail (kernel : List V → List V → Except Err (Mat3 Rat)) (mob tar : SupDb.Db) (ex : Bool) (P Q : List V) :
    Except Err SupDb.Out := do
  if P.isEmpty then
    match superposeSelection kernel (mob.rows.map SupDb.pos) P Q with
    | .error e => throw e
    | .ok _ => throw (Err.unmodelled "the rotation kernel accepted an empty selection")
  let xyzMobile ← superposeSelection kernel (mob.rows.map SupDb.pos) P Q
  let mobile' := (mob.rows.zip xyzMobile).map (fun p => SupDb.setPos p.1 p.2)
  let files ← SupDb.exportFiles mob tar ex mobile'
  pure { mobile := mobile', target := tar.rows, files := files }

/-! ### normal form of the generated `superpose` after the keyword dictionary is known -/

variable {μ : Type}

/-- `if export: ...` -/
def exportNF (m3 : Rt.Db) (tar : SupDb.Db) (ex : Bool) : Except Err Files :=
  if ex = true then do
    let t14 ← Rt.basename tar.pdbfile
    let t15 ← Rt.basename m3.pdbfile
    let t16 ← Rt.exportpdb m3 (Rt.rstripChars t15 ['.', 'p', 'd', 'b'] ++
      ['_', 's', 'u', 'p', 'e', 'r', 'p', 'o', 's', 'e', 'd', '_', 'o', 'n', '_'] ++ Rt.rstripChars t14 ['.', 'p', 'd', 'b'] ++ ['.', 'p', 'd', 'b'])
    pure [t16]
  else pure []

/-- from `superpose_selection` on -/
def tailNF (grm : List V → List V → μ → Except Err (Mat3 Rat)) (mob tar : SupDb.Db) (method : μ) (ex : Bool) (P Q : List V) :
    Except Err (Rt.Db × Files) := do
  let t13 ← GenK.superpose_selection grm (Rt.npArrayXYZ (Tbl.select mob.rows (fun _ => true) (fun r_ => (r_.1.x, r_.1.y, r_.1.z)))) P Q method
  let m3 ← Rt.updateXYZ { rows := mob.rows, pdbfile := mob.pdbfile } t13
  let files ← exportNF m3 tar ex
  pure (m3, files)

theorem export_eq (mob tar : SupDb.Db) (ex : Bool) (rows : List Atom) :
    exportNF { rows := rows, pdbfile := mob.pdbfile } tar ex = SupDb.exportFiles mob tar ex rows := by
  cases ex
  · rfl
  · simp only [exportNF, if_true, SupDb.exportFiles]
    cases ht : tar.pdbfile <;> cases hm : mob.pdbfile <;> simp only [Rt.basename, ok_bind, error_bind] <;> try rfl
    simp only [Rt.exportpdb, Rt.sql2pdb, SupDb.sql2pdb, rstripChars_pdb, SupDb.exportName, SupDb.basename]
    have : "_superposed_on_".toList = (['_', 's', 'u', 'p', 'e', 'r', 'p', 'o', 's', 'e', 'd', '_', 'o', 'n', '_'] : Str) := by decide
    have h2 : ".pdb".toList = (['.', 'p', 'd', 'b'] : Str) := by decide
    rw [this, h2]
    cases List.mapM Gen.data2pdb_line rows <;> simp [List.append_assoc]

theorem tail_eq (grm : List V → List V → μ → Except Err (Mat3 Rat)) (mob tar : SupDb.Db) (method : μ) (ex : Bool) (P Q : List V)
    (hempty : ∀ R, grm [] [] method ≠ .ok R) (hlen : P.length = Q.length) (hrows : P ≠ [] → mob.rows ≠ []) :
    tailNF grm mob tar method ex P Q = (modelTail (fun P Q => grm P Q method) mob tar ex P Q).map (outOf mob) := by
  simp only [tailNF, modelTail, genk_superpose_selection_eq_model, select_all_xyz]
  cases P with
  | nil =>
    have : Q = [] := List.length_eq_zero_iff.mp hlen.symm
    subst this
    cases hk : grm [] [] method with
    | ok R => exact absurd hk (hempty R)
    | error e => simp [superposeSelection, hk]; rfl
  | cons p P =>
    have hr := hrows (by simp)
    simp only [List.isEmpty_cons, Bool.false_eq_true, if_false]
    cases h : superposeSelection (fun P Q => grm P Q method) (mob.rows.map SupDb.pos) (p :: P) Q with
    | error e => rfl
    | ok Y =>
      have hY : Y.length = mob.rows.length := by rw [superposeSelection_length h, List.length_map]
      simp only [ok_bind, Rt.updateXYZ, updateXYZ_all mob.rows Y hY hr, export_eq]
      cases SupDb.exportFiles mob tar ex (List.map (fun p => SupDb.setPos p.1 p.2) (mob.rows.zip Y)) <;> rfl


/-- from the identity comparison on -/
def restNF (grm : List V → List V → μ → Except Err (Mat3 Rat)) (mob tar : SupDb.Db) (method : μ) (ex : Bool) (kw : Rt.Kwargs) :
    Except Err (Rt.Db × Files) := do
  let j ←
    (if decide (Tbl.select mob.rows (fun r => Rt.kwTest kw r.1) (fun r_ => (r_.1.name, r_.1.resName, r_.1.resSeq, r_.1.chainID)) ≠
        Tbl.select tar.rows (fun r => Rt.kwTest kw r.1) (fun r_ => (r_.1.name, r_.1.resName, r_.1.resSeq, r_.1.chainID))) = true then do
      let t ← GenSup.get_intersection many2sql many2sqlCall many2sqlGetIntersection
        { rows := mob.rows, pdbfile := mob.pdbfile } { rows := tar.rows, pdbfile := tar.pdbfile } kw
      pure (t.1, t.2)
    else
      pure (Rt.npArrayXYZ (Tbl.select mob.rows (fun r => Rt.kwTest kw r.1) (fun r_ => (r_.1.x, r_.1.y, r_.1.z))),
            Rt.npArrayXYZ (Tbl.select tar.rows (fun r => Rt.kwTest kw r.1) (fun r_ => (r_.1.x, r_.1.y, r_.1.z)))))
  tailNF grm mob tar method ex j.1 j.2

theorem getIntersection_nil (tar : List Atom) (sel : Atom → Bool) (pairs : List (V × V)) :
    SupDb.getIntersection [] tar sel ≠ .ok pairs := by
  simp only [SupDb.getIntersection, SupDb.sql2pdb, List.mapM_nil, pure_bind]
  cases List.mapM Gen.data2pdb_line tar with
  | error e => simp [bind, Except.bind]
  | ok l2 => simp [bind, Except.bind, SupDb.readTable, throw, throwThe, MonadExceptOf.throw]

theorem modelRest_eq_tail (kernel : List V → List V → Except Err (Mat3 Rat)) (mob tar : SupDb.Db) (ex : Bool) (sel : Atom → Bool) :
    modelRest kernel mob tar ex sel = SupDb.matched mob.rows tar.rows sel >>= fun m => modelTail kernel mob tar ex m.1 m.2 := rfl

theorem rest_eq (grm : List V → List V → μ → Except Err (Mat3 Rat)) (mob tar : SupDb.Db) (method : μ) (ex : Bool) (kw : Rt.Kwargs)
    (hempty : ∀ R, grm [] [] method ≠ .ok R) :
    restNF grm mob tar method ex kw = (modelRest (fun P Q => grm P Q method) mob tar ex (Rt.kwTest kw)).map (outOf mob) := by
  rw [modelRest_eq_tail]
  simp only [restNF, select_atomId, select_xyz, gensup_get_intersection_eq_model]
  cases hm : SupDb.matched mob.rows tar.rows (Rt.kwTest kw) with
  | error e =>
    unfold SupDb.matched at hm
    by_cases hid : (mob.rows.filter (Rt.kwTest kw)).map SupDb.atomId ≠ (tar.rows.filter (Rt.kwTest kw)).map SupDb.atomId
    · simp only [hid, ne_eq, not_false_eq_true, if_true, decide_true] at hm ⊢
      cases hg : SupDb.getIntersection mob.rows tar.rows (Rt.kwTest kw) with
      | error e' => simp [hg, bind, Except.bind] at hm; subst hm; rfl
      | ok pairs => simp [hg, bind, Except.bind, pure, Except.pure] at hm
    · simp [hid, pure, Except.pure] at hm
  | ok m =>
    obtain ⟨P, Q⟩ := m
    have hlen := Proofs.SupDb.matched_lengths hm
    unfold SupDb.matched at hm
    by_cases hid : (mob.rows.filter (Rt.kwTest kw)).map SupDb.atomId ≠ (tar.rows.filter (Rt.kwTest kw)).map SupDb.atomId
    · simp only [hid, ne_eq, not_false_eq_true, if_true, decide_true] at hm ⊢
      cases hg : SupDb.getIntersection mob.rows tar.rows (Rt.kwTest kw) with
      | error e' => simp [hg, bind, Except.bind] at hm
      | ok pairs =>
        simp [hg, bind, Except.bind, pure, Except.pure] at hm
        obtain ⟨h1, h2⟩ := hm
        subst h1; subst h2
        simp only [Except.map, ok_bind, pure_bind]
        have := tail_eq grm mob tar method ex (pairs.map (·.1)) (pairs.map (·.2)) hempty hlen (by
          intro hne hr
          rw [hr] at hg
          exact getIntersection_nil _ _ _ hg)
        simpa [Except.map] using this
    · have hid' := not_not.1 hid
      simp only [hid, if_false, pure, Except.pure] at hm
      injection hm with hm
      injection hm with h1 h2
      subst h1; subst h2
      simp only [hid, decide_false, Bool.false_eq_true, if_false, pure_bind, ok_bind]
      exact tail_eq grm mob tar method ex _ _ hempty hlen (by
        intro hne hr
        rw [hr] at hne
        exact hne rfl)


variable {σ : Type}

/-- both arguments are databases -/
theorem superpose_core (pdb2sql : σ → Except Err Rt.Db)
    (grm : List V → List V → μ → Except Err (Mat3 Rat)) (mob tar : SupDb.Db) (method : μ)
    (ob ex : Bool) (kw : Rt.Kwargs) (hkw : Rt.kwCheck kw = .ok ()) (hempty : ∀ R, grm [] [] method ≠ .ok R) :
    GenSup.superpose pdb2sql many2sql many2sqlCall many2sqlGetIntersection grm (.inr (toGen mob)) (.inr (toGen tar)) method ob ex kw =
      (SupDb.superpose (fun P Q => grm P Q method) mob tar (argsOf ob ex kw)).map (outOf mob) := by
  have hk2 : ∀ v, Rt.kwCheck (Py.Dict.setItem kw nameKey v) = .ok () :=
    fun v => kwCheck_setItem kw nameKey v hkw (kwCheck_name v)
  have hrest := fun kw3 => rest_eq grm mob tar method ex kw3 hempty
  simp only [restNF, tailNF, exportNF, bind_assoc, pure_bind, ok_bind] at hrest
  rw [model_unfold]
  simp only [GenSup.superpose, bind_assoc, pure_bind, ok_bind, toGen, List.nil_append]
  cases ob <;> cases hc : Py.Dict.contains kw nameKey <;>
    simp only [hc, Bool.not_false, Bool.not_true, if_true, if_false, Bool.false_eq_true, pure_bind, bind_assoc, ok_bind,
      Rt.get, hkw, hk2, SupDb.selection, argsOf]
  · exact hrest kw
  · exact hrest kw
  · rw [hrest]
    congr 2
    funext x
    rw [kwTest_setItem _ _ _ _ hc, kwHolds_name]
    first | rfl | (congr 2 <;> decide)
  · rfl

/-- `pdb2sql(x)` unless `x` is a database already -/
def wrap (pdb2sql : σ → Except Err Rt.Db) : Sum σ Rt.Db → Except Err Rt.Db
  | .inl s => pdb2sql s
  | .inr d => .ok d

theorem toGen_ofGen (d : Rt.Db) : toGen (ofGen d) = d := rfl

/-- **`superpose()` = the hand model**, for every pair of arguments (file names / sources opened by `pdb2sql`, or databases), every
    method, option combination and keyword dictionary whose keys are columns: same updated table, same error, same files. -/
theorem gensup_superpose_eq_model (pdb2sql : σ → Except Err Rt.Db)
    (grm : List V → List V → μ → Except Err (Mat3 Rat)) (mobile target : Sum σ Rt.Db) (method : μ)
    (ob ex : Bool) (kw : Rt.Kwargs) (hkw : Rt.kwCheck kw = .ok ()) (hempty : ∀ R, grm [] [] method ≠ .ok R) :
    GenSup.superpose pdb2sql many2sql many2sqlCall many2sqlGetIntersection grm mobile target method ob ex kw =
      (do let mob ← wrap pdb2sql mobile
          let tar ← wrap pdb2sql target
          (SupDb.superpose (fun P Q => grm P Q method) (ofGen mob) (ofGen tar) (argsOf ob ex kw)).map (outOf (ofGen mob))) := by
  have core := fun (m t : Rt.Db) => superpose_core pdb2sql grm (ofGen m) (ofGen t) method ob ex kw hkw hempty
  simp only [toGen_ofGen] at core
  cases mobile with
  | inl s =>
    cases target with
    | inl s' =>
      simp only [wrap]
      cases h1 : pdb2sql s with
      | error e => simp only [GenSup.superpose, h1, bind_assoc, error_bind]
      | ok m =>
        cases h2 : pdb2sql s' with
        | error e => simp only [GenSup.superpose, h1, h2, bind_assoc, error_bind, ok_bind, pure_bind]
        | ok t =>
          rw [ok_bind, ok_bind, ← core]
          simp only [GenSup.superpose, h1, h2, bind_assoc, error_bind, ok_bind, pure_bind]
    | inr t =>
      simp only [wrap]
      cases h1 : pdb2sql s with
      | error e => simp only [GenSup.superpose, h1, bind_assoc, error_bind]
      | ok m =>
        rw [ok_bind, ok_bind, ← core]
        simp only [GenSup.superpose, h1, bind_assoc, error_bind, ok_bind, pure_bind]
  | inr m =>
    cases target with
    | inl s' =>
      simp only [wrap]
      cases h2 : pdb2sql s' with
      | error e => simp only [GenSup.superpose, h2, bind_assoc, error_bind, ok_bind, pure_bind]
      | ok t =>
        rw [ok_bind, ok_bind, ← core]
        simp only [GenSup.superpose, h2, bind_assoc, error_bind, ok_bind, pure_bind]
    | inr t =>
      simp only [wrap, ok_bind]
      exact core m t

end Proofs.SupTie
