/-
  Round trip `StructureSimilarity._write_zone` → `read_zone` on one line (units `zone_line`, `read_zone_line`).
-/
import Mathlib.Tactic.Linarith
import PdbVerif.Gen.Str
import PdbVerif.Proofs.Str
import PdbVerif.Proofs.Digits

set_option linter.unusedSimpArgs false
set_option linter.unusedVariables false

namespace Proofs.Zone
open Py

/-! ### `str.split()` on blank-free words -/

theorem splitWsAux_word (w rest cur : Str) (h : ∀ c ∈ w, isSpace c = false) :
    splitWsAux (w ++ rest) cur = splitWsAux rest (w.reverse ++ cur) := by
  induction w generalizing cur with
  | nil => rfl
  | cons x xs ih =>
    have hx : isSpace x = false := h x (by simp)
    have hxs : ∀ c ∈ xs, isSpace c = false := fun c hc => h c (by simp [hc])
    rw [List.cons_append, splitWsAux]
    simp only [hx, Bool.false_eq_true, if_false]
    rw [ih _ hxs]; simp

theorem splitWsAux_space (x : Char) (rest cur : Str) (hx : isSpace x = true) (hcur : cur ≠ []) :
    splitWsAux (x :: rest) cur = cur.reverse :: splitWsAux rest [] := by
  rw [splitWsAux]
  have : cur.isEmpty = false := by cases cur <;> simp_all
  simp [hx, this]

/-- two blank-free non-empty words separated by one blank and followed by one blank -/
theorem splitWs_two (w1 w2 : Str) (s1 s2 : Char)
    (h1 : ∀ c ∈ w1, isSpace c = false) (h2 : ∀ c ∈ w2, isSpace c = false)
    (n1 : w1 ≠ []) (n2 : w2 ≠ []) (hs1 : isSpace s1 = true) (hs2 : isSpace s2 = true) :
    splitWs (w1 ++ s1 :: (w2 ++ [s2])) = [w1, w2] := by
  unfold splitWs
  rw [splitWsAux_word _ _ _ h1, splitWsAux_space _ _ _ hs1 (by simpa using n1),
    splitWsAux_word _ _ _ h2, splitWsAux_space _ _ _ hs2 (by simpa using n2)]
  simp [splitWsAux]

/-! ### the token `c<num>-c<num>` -/

theorem allDigits_no_dash (s : Str) (h : AllDigits s) : '-' ∉ s := fun hc =>
  (digitFacts _ (h _ hc)).ne_minus rfl

theorem allDigits_no_space (s : Str) (h : AllDigits s) : ∀ c ∈ s, isSpace c = false := fun c hc =>
  (digitFacts _ (h _ hc)).notSpace

theorem intStr_no_space (n : Int) : ∀ c ∈ intStr n, isSpace c = false := by
  have hd := allDigits_no_space _ (decDigits_allDigits n.natAbs)
  unfold intStr
  split
  · intro c hc
    rcases List.mem_cons.mp hc with rfl | hc
    · decide
    · exact hd c hc
  · exact hd

/-- what `read_zone_line` does once the second whitespace-separated field is known (two pieces) -/
theorem read_two (line : Str) (w0 : Str) (c : Char) (ds : Str)
    (hline : splitWs line = [w0, c :: ds ++ '-' :: c :: ds])
    (hc : c ≠ '-') (hds : AllDigits ds) (hne : ds ≠ []) :
    Gen.read_zone_line line = .ok ([c], (digitsVal ds : Int)) := by
  have hnd := allDigits_no_dash ds hds
  have hsplit : splitOn '-' (c :: ds ++ '-' :: c :: ds) = [c :: ds, c :: ds] := by
    rw [splitOn_append_sep _ _ _ (by simp [hnd, Ne.symm hc]),
      splitOn_not_mem _ _ (by simp [hnd, Ne.symm hc])]
  have hsl : sliceFrom (c :: ds) (1 : Int) = ds := by
    have := sliceFrom_nat (c :: ds) 1
    simpa using this
  have hget : ∀ a b : Str, listGet [a, b] (1 : Int) = .ok b := fun _ _ => rfl
  have hget0 : ∀ a b : Str, listGet [a, b] (0 : Int) = .ok a := fun _ _ => rfl
  have hitem : getItem1 (c :: ds) (0 : Int) = .ok [c] := rfl
  unfold Gen.read_zone_line
  rw [hline, hget]
  simp only [bind, Except.bind, pure, Except.pure]
  rw [hsplit, hget0]
  simp only [hitem, hsl, parseInt_digits ds hds hne]
  simp [lenL]

/-- … and with four pieces (negative residue number) -/
theorem read_four (line : Str) (w0 : Str) (c : Char) (ds : Str)
    (hline : splitWs line = [w0, c :: '-' :: ds ++ '-' :: c :: '-' :: ds])
    (hc : c ≠ '-') (hds : AllDigits ds) (hne : ds ≠ []) :
    Gen.read_zone_line line = .ok ([c], -(digitsVal ds : Int)) := by
  have hnd := allDigits_no_dash ds hds
  have hsplit : splitOn '-' (c :: '-' :: ds ++ '-' :: c :: '-' :: ds) = [[c], ds, [c], ds] := by
    have e : c :: '-' :: ds ++ '-' :: c :: '-' :: ds = [c] ++ '-' :: (ds ++ '-' :: ([c] ++ '-' :: ds)) := by
      simp
    rw [e, splitOn_append_sep _ _ _ (by simp [Ne.symm hc]), splitOn_append_sep _ _ _ hnd,
      splitOn_append_sep _ _ _ (by simp [Ne.symm hc]), splitOn_not_mem _ _ hnd]
  have hget : ∀ a b : Str, listGet [a, b] (1 : Int) = .ok b := fun _ _ => rfl
  have hget0 : ∀ a b d e : Str, listGet [a, b, d, e] (0 : Int) = .ok a := fun _ _ _ _ => rfl
  have hget1 : ∀ a b d e : Str, listGet [a, b, d, e] (1 : Int) = .ok b := fun _ _ _ _ => rfl
  unfold Gen.read_zone_line
  rw [hline, hget]
  simp only [bind, Except.bind, pure, Except.pure]
  rw [hsplit, hget0, hget1]
  simp only [parseInt_digits ds hds hne]
  simp [lenL]

/-! ### round trip -/

/-- the line `_write_zone` writes, whatever the shape of the translated loop body (the proof is by normalisation, so
an equivalent rewrite of the source - a label built once and used twice, say - still satisfies it) -/
theorem zone_line_eq (ch : Str) (n : Int) :
    Gen.zone_line ch n
      = .ok (['z', 'o', 'n', 'e', ' '] ++ ch ++ intStr n ++ ['-'] ++ ch ++ intStr n ++ ['\n']) := by
  simp [Gen.zone_line, Gen.zone_line_of, bind, Except.bind, pure, Except.pure]

/-- `read_zone` reads back the chain and residue number `_write_zone` wrote, for every one-character
chain identifier other than `-` and blanks, and every integer residue number. -/
theorem read_write_zone (c : Char) (n : Int) (hdash : c ≠ '-') (hsp : Py.isSpace c = false) :
    (Gen.zone_line [c] n >>= Gen.read_zone_line) = .ok ([c], n) := by
  have hds := decDigits_allDigits n.natAbs
  have hne := decDigits_ne_nil n.natAbs
  have hval := digitsVal_decDigits n.natAbs
  have hline : ∀ tok : Str, (∀ x ∈ tok, isSpace x = false) → tok ≠ [] →
      splitWs (['z', 'o', 'n', 'e'] ++ ' ' :: (tok ++ ['\n'])) = [['z', 'o', 'n', 'e'], tok] := by
    intro tok h1 h2
    exact splitWs_two _ _ _ _ (by decide) h1 (by simp) h2 (by decide) (by decide)
  have hsd := allDigits_no_space _ hds
  rw [zone_line_eq]
  simp only [bind, Except.bind]
  by_cases hn : n < 0
  · have hi : intStr n = '-' :: decDigits n.natAbs := by simp [intStr, hn]
    rw [hi]
    have e : ['z', 'o', 'n', 'e', ' '] ++ [c] ++ '-' :: decDigits n.natAbs ++ ['-'] ++ [c]
          ++ '-' :: decDigits n.natAbs ++ ['\n']
        = ['z', 'o', 'n', 'e'] ++ ' ' ::
          ((c :: '-' :: decDigits n.natAbs ++ '-' :: c :: '-' :: decDigits n.natAbs) ++ ['\n']) := by
      simp
    rw [e, read_four _ _ c _ (hline _ ?_ (by simp)) hdash hds hne, hval]
    · congr 2; omega
    · intro x hx
      simp only [List.cons_append, List.mem_cons, List.mem_append] at hx
      rcases hx with rfl | rfl | hx | rfl | rfl | rfl | hx
      · exact hsp
      · decide
      · exact hsd x hx
      · decide
      · exact hsp
      · decide
      · exact hsd x hx
  · have hi : intStr n = decDigits n.natAbs := by simp [intStr, hn]
    rw [hi]
    have e : ['z', 'o', 'n', 'e', ' '] ++ [c] ++ decDigits n.natAbs ++ ['-'] ++ [c]
          ++ decDigits n.natAbs ++ ['\n']
        = ['z', 'o', 'n', 'e'] ++ ' ' ::
          ((c :: decDigits n.natAbs ++ '-' :: c :: decDigits n.natAbs) ++ ['\n']) := by
      simp
    rw [e, read_two _ _ c _ (hline _ ?_ (by simp)) hdash hds hne, hval]
    · congr 2; omega
    · intro x hx
      simp only [List.cons_append, List.mem_cons, List.mem_append] at hx
      rcases hx with rfl | hx | rfl | rfl | hx
      · exact hsp
      · exact hsd x hx
      · decide
      · exact hsp
      · exact hsd x hx

/-- non-vacuity: chain `A`, residue numbers 0, -12, 9999 -/
example : (Gen.zone_line ['A'] 0 >>= Gen.read_zone_line) = .ok (['A'], 0) :=
  read_write_zone 'A' 0 (by decide) (by decide)
example : (Gen.zone_line ['A'] (-12) >>= Gen.read_zone_line) = .ok (['A'], -12) :=
  read_write_zone 'A' (-12) (by decide) (by decide)
example : (Gen.zone_line ['A'] 9999 >>= Gen.read_zone_line) = .ok (['A'], 9999) :=
  read_write_zone 'A' 9999 (by decide) (by decide)

/-- The hypothesis `c ≠ '-'` is needed: the line written for chain `-`, residue 5 is `zone -5--5`, which
`read_zone` splits into four pieces and reads back as chain `''`, residue `-5`. -/
theorem read_write_zone_dash_returns :
    (Gen.zone_line ['-'] 5 >>= Gen.read_zone_line) = .ok ([], -5) := by
  decide +kernel

theorem read_write_zone_dash_counterexample :
    (Gen.zone_line ['-'] 5 >>= Gen.read_zone_line) ≠ .ok (['-'], 5) := by
  rw [read_write_zone_dash_returns]; decide

end Proofs.Zone
