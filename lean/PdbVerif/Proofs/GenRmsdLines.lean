/-
  The translated raw-line readers and the zone reader (Gen/Rmsd.lean: `GenR.get_data_zone_backbone`,
  `GenR.get_xyz_zone_backbone`, `GenR._get_xyz`, `GenR.read_zone`, regenerated from StructureSimilarity.py on every run)
  ARE the hand models of Model/RmsdCommon.lean / RmsdFast.lean, for every list of lines, zone, name list and flag, error
  branches included (short line → IndexError, blank number → ValueError, the first failing ATOM line decides).

  One normal-form lemma per generated unit (`*_nf`, proved by `except_norm` / `except_close` only — insensitive to the SSA
  names and to the nesting of the generated text); everything else is stated on the normal forms.

  The hand models are organised differently: they read every ATOM line into a key (and coordinates) first
  (`rawKeys` / `rawPts`) and filter afterwards (`zoneSplit`), and they keep the identity key beside each coordinate; the code
  tests line by line and returns bare coordinates / Python sets.  The theorems equate the RETURNED values: the model's lists
  with the keys dropped (`map (·.2)`), resp. turned into sets (`Rt.set`, the model uses its lists only through membership).
-/
import PdbVerif.Proofs.GenRmsdRt

set_option linter.unusedVariables false
set_option linter.unusedSimpArgs false
set_option linter.unusedSectionVars false

namespace Proofs.GenRmsd
open Py Model Model.Rmsd

/-! ### `get_data_zone_backbone` -/

/-- normal form of the loop body of `get_data_zone_backbone` -/
def dataStep (zone : Zone) (names : List Str) (acc : List Key × List Key) (line : Str) : Except Err (List Key × List Key) :=
  if isAtomLine line = true then rawKey line >>= (fun k => Except.ok (splitUpd id zone names acc k)) else Except.ok acc

/-- the two return forms -/
def dataRet (b : Bool) (r : List Key × List Key) : Sum (List Key × List Key) (List Key) :=
  if b = true then Sum.inl (Rt.set r.1, Rt.set r.2) else Sum.inr (Rt.set r.1)

theorem get_data_zone_backbone_nf (rd : Str → Except Err (List Str)) (f : Str) (zone : Zone) (b : Bool) (names : List Str) :
    GenR.get_data_zone_backbone rd f zone b names =
      rd f >>= fun data => List.foldlM (dataStep zone names) ([], []) data >>= fun r => Except.ok (dataRet b r) := by
  unfold GenR.get_data_zone_backbone
  apply bind_congr'; intro data
  simp only [ok_bind, pure_eq_ok]
  rw [foldlM_congr (g := dataStep zone names)]
  · apply bind_congr'; intro r
    cases b <;> rfl
  · intro acc line
    unfold dataStep rawKey rawChain isAtomLine splitUpd
    except_pre
    except_norm
    except_close

/-- `GenR.get_data_zone_backbone` = `Model.Rmsd.dataZoneBackbone` (returned lists as sets) -/
theorem genr_get_data_zone_backbone_eq_model (rd : Str → Except Err (List Str)) (f : Str) (zone : Zone) (b : Bool)
    (names : List Str) :
    GenR.get_data_zone_backbone rd f zone b names =
      rd f >>= fun lines => dataZoneBackbone lines zone names >>= fun p => Except.ok (dataRet b p) := by
  rw [get_data_zone_backbone_nf]
  apply bind_congr'; intro lines
  unfold dataStep dataZoneBackbone rawKeys
  rw [foldlM_read isAtomLine rawKey (splitUpd id zone names)]
  simp only [bind_assoc, ok_bind, pure_eq_ok, foldl_splitUpd_nil]

/-! ### `get_xyz_zone_backbone` -/

def xyzStep (zone : Zone) (names : List Str) (acc : List Pt × List Pt) (line : Str) : Except Err (List Pt × List Pt) :=
  if isAtomLine line = true then rawPt line >>= (fun p => Except.ok (splitUpd (·.1) zone names acc p)) else Except.ok acc

def xyzRet (b : Bool) (r : List P3 × List P3) : Sum (List P3 × List P3) (List P3) :=
  if b = true then Sum.inl r else Sum.inr r.1

/-- the loop of the code carries bare coordinates, the model's carries (key, coordinates): the same loop seen through `map (·.2)` -/
def xyzStepC (zone : Zone) (names : List Str) (acc : List P3 × List P3) (line : Str) : Except Err (List P3 × List P3) :=
  if isAtomLine line = true then
    rawPt line >>= (fun p => Except.ok
      (if p.1.2.2 ∈ names then
        if Model.Dict.contains zone p.1.1 = true then
          if p.1.2.1 ∈ Model.Dict.getD zone p.1.1 then (acc.1 ++ [p.2], acc.2) else acc
        else (acc.1, acc.2 ++ [p.2])
      else acc))
  else Except.ok acc

theorem get_xyz_zone_backbone_nf (rd : Str → Except Err (List Str)) (f : Str) (zone : Zone) (b : Bool) (names : List Str) :
    GenR.get_xyz_zone_backbone rd f zone b names =
      rd f >>= fun data => List.foldlM (xyzStepC zone names) ([], []) data >>= fun r => Except.ok (xyzRet b r) := by
  unfold GenR.get_xyz_zone_backbone
  apply bind_congr'; intro data
  simp only [ok_bind, pure_eq_ok]
  rw [foldlM_congr (g := xyzStepC zone names)]
  · apply bind_congr'; intro r
    cases b <;> rfl
  · intro acc line
    unfold xyzStepC rawPt rawKey rawChain rawXyz isAtomLine
    except_pre
    except_norm
    except_close

def dropKeys (p : List Pt × List Pt) : List P3 × List P3 := (p.1.map (·.2), p.2.map (·.2))

theorem dropKeys_splitUpd (zone : Zone) (names : List Str) (acc : List Pt × List Pt) (p : Pt) :
    dropKeys (splitUpd (·.1) zone names acc p) =
      (if p.1.2.2 ∈ names then
        if Model.Dict.contains zone p.1.1 = true then
          if p.1.2.1 ∈ Model.Dict.getD zone p.1.1 then ((dropKeys acc).1 ++ [p.2], (dropKeys acc).2) else dropKeys acc
        else ((dropKeys acc).1, (dropKeys acc).2 ++ [p.2])
      else dropKeys acc) := by
  unfold splitUpd dropKeys
  by_cases h1 : p.1.2.2 ∈ names
  · by_cases h2 : Model.Dict.contains zone p.1.1 = true
    · by_cases h3 : p.1.2.1 ∈ Model.Dict.getD zone p.1.1 <;> simp [h1, h2, h3]
    · simp [h1, h2]
  · simp [h1]

theorem xyzStepC_dropKeys (zone : Zone) (names : List Str) (acc : List Pt × List Pt) (line : Str) :
    xyzStepC zone names (dropKeys acc) line = xyzStep zone names acc line >>= fun r => Except.ok (dropKeys r) := by
  unfold xyzStepC xyzStep
  by_cases hA : isAtomLine line = true
  · simp only [hA, if_true, bind_assoc, ok_bind]
    apply bind_congr'; intro p
    rw [dropKeys_splitUpd]
  · simp only [hA, if_false, Bool.false_eq_true, ok_bind]

theorem foldlM_xyzStepC (zone : Zone) (names : List Str) : ∀ (lines : List Str) (acc : List Pt × List Pt),
    List.foldlM (xyzStepC zone names) (dropKeys acc) lines
      = List.foldlM (xyzStep zone names) acc lines >>= fun r => Except.ok (dropKeys r)
  | [], acc => rfl
  | line :: lines, acc => by
    rw [List.foldlM_cons, List.foldlM_cons, xyzStepC_dropKeys, bind_assoc, bind_assoc]
    apply bind_congr'; intro r
    rw [ok_bind]
    exact foldlM_xyzStepC zone names lines r

/-- `GenR.get_xyz_zone_backbone` = `Model.Rmsd.xyzZoneBackbone` with the keys dropped -/
theorem genr_get_xyz_zone_backbone_eq_model (rd : Str → Except Err (List Str)) (f : Str) (zone : Zone) (b : Bool)
    (names : List Str) :
    GenR.get_xyz_zone_backbone rd f zone b names =
      rd f >>= fun lines => xyzZoneBackbone lines zone names >>= fun p => Except.ok (xyzRet b (dropKeys p)) := by
  rw [get_xyz_zone_backbone_nf]
  apply bind_congr'; intro lines
  have h := foldlM_xyzStepC zone names lines ([], [])
  have h0 : dropKeys (([], []) : List Pt × List Pt) = ([], []) := rfl
  rw [h0] at h
  rw [h]
  unfold xyzStep xyzZoneBackbone rawPts
  rw [foldlM_read isAtomLine rawPt (splitUpd (·.1) zone names)]
  simp only [bind_assoc, ok_bind, pure_eq_ok, foldl_splitUpd_nil]

/-! ### `_get_xyz` -/

def getXyzStep (index : List Key) (acc : List Pt) (line : Str) : Except Err (List Pt) :=
  if isAtomLine line = true then rawPt line >>= (fun p => Except.ok (if p.1 ∈ index then acc ++ [p] else acc)) else Except.ok acc

theorem _get_xyz_nf (rd : Str → Except Err (List Str)) (f : Str) (index : List Key) :
    GenR._get_xyz rd f index =
      rd f >>= fun data => List.foldlM (getXyzStep index) [] data >>= fun r =>
        Except.ok ((GenR.Rt2.sortByFst r).map (·.2)) := by
  unfold GenR._get_xyz
  apply bind_congr'; intro data
  simp only [ok_bind, pure_eq_ok]
  rw [foldlM_congr (g := getXyzStep index)]
  · intro acc line
    unfold getXyzStep rawPt rawKey rawChain rawXyz isAtomLine GenR.Rt2.setMem
    except_pre
    except_norm
    except_close

theorem foldl_filter_append {α : Type} (q : α → Prop) [DecidablePred q] : ∀ (l acc : List α),
    l.foldl (fun acc p => if q p then acc ++ [p] else acc) acc = acc ++ l.filter (fun p => decide (q p))
  | [], acc => by simp
  | p :: l, acc => by
    rw [List.foldl_cons, foldl_filter_append q l]
    by_cases h : q p <;> simp [h, List.filter_cons]

/-- `GenR._get_xyz` = `Model.Rmsd.getXyz` with the keys dropped (`Rt2.sortByFst` is the model's stable `sortByKey`) -/
theorem genr_get_xyz_eq_model (rd : Str → Except Err (List Str)) (f : Str) (index : List Key) :
    GenR._get_xyz rd f index = rd f >>= fun lines => getXyz lines index >>= fun ps => Except.ok (ps.map (·.2)) := by
  rw [_get_xyz_nf]
  apply bind_congr'; intro lines
  unfold getXyzStep getXyz rawPts
  rw [foldlM_read isAtomLine rawPt (fun acc p => if p.1 ∈ index then acc ++ [p] else acc)]
  simp only [bind_assoc, ok_bind, pure_eq_ok, sortByFst_eq]
  apply bind_congr'; intro ps
  rw [foldl_filter_append (fun p : Pt => p.1 ∈ index)]
  simp only [List.nil_append, List.contains_eq_mem]

/-! ### `read_zone` -/

/-- normal form of the loop body of `read_zone`: the translated line parser, then the model's create-if-missing + append -/
def zoneStep (d : Zone) (line : Str) : Except Err Zone :=
  Gen.read_zone_line line >>= fun r => Except.ok ((Model.Dict.setDefault d r.1 []).extend r.1 [r.2])

theorem read_zone_nf (isfile : Str → Bool) (readlines : Str → Except Err (List Str)) (zf : Str) :
    GenR.read_zone isfile readlines zf =
      if isfile zf = true then readlines zf >>= fun data => List.foldlM zoneStep [] data
      else Except.error Err.fileNotFound := by
  unfold GenR.read_zone
  by_cases h : isfile zf = true
  · simp only [h, Bool.not_true, Bool.false_eq_true, if_false, if_true]
    apply bind_congr'; intro data
    simp only [ok_bind, pure_eq_ok, bind_ok_eq]
    rw [foldlM_congr (g := zoneStep)]
    · rfl
    · intro d line
      unfold zoneStep
      apply bind_congr'; intro r
      simp only [ite_ok, ok_bind, pure_eq_ok, ite_not_contains_setItem, setdefault_eq, bind_assoc]
      exact create_then_append d r.1 r.2
  · simp only [h, Bool.not_false, if_true, Bool.false_eq_true, if_false]
    rfl

/-- `GenR.read_zone` = `Model.Rmsd.readZone` on the lines of an existing file, `FileNotFoundError` otherwise -/
theorem genr_read_zone_eq_model (isfile : Str → Bool) (readlines : Str → Except Err (List Str)) (zf : Str) :
    GenR.read_zone isfile readlines zf =
      if isfile zf = true then readlines zf >>= fun lines => readZone lines else Except.error Err.fileNotFound := by
  rw [read_zone_nf]
  rfl

end Proofs.GenRmsd
