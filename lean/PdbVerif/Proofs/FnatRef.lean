/-
  C08, step 1: the residue-pair dictionary of a two-chain structure in closed form.  For a table `t` whose chains are
  exactly `X < Y`, `get_contact_residues(cutoff, return_contact_pairs=True, excludeH=True, chain1=X, chain2=Y)` succeeds and its
  flattened pair list is duplicate-free and consists exactly of the pairs (residue key of `x`, residue key of `y`) with `x` a
  heavy atom of `X`, `y` a heavy atom of `Y`, `distance(x, y) ≤ cutoff`.  Built on cluster C's closed forms
  (Proofs/ContactsTwo.lean, ContactsRes.lean, ContactsSpec.lean).  Helper lemmas only.
-/
import Mathlib.Data.List.Nodup
import Mathlib.Data.List.Perm.Basic
import PdbVerif.Proofs.ContactsSpec
import PdbVerif.Model.Fnat
import PdbVerif.Spec.C08

set_option linter.unusedSectionVars false
set_option linter.unusedVariables false

namespace Proofs.Fnat
open Py Model Model.Fnat Proofs.Contacts

/-- a heavy atom in the sense of the code: the name does not start with `H` -/
def heavy (x : Atom) : Bool := !startsWithH x.name

theorem heavy_eq (x : Atom) : heavy x = !Spec.C08.isHydrogen x := rfl

theorem passes_pairArgs (c : Rat) (X Y : Str) (x : Atom) :
    Spec.Contact.passes (params (pairArgs c X Y)) x = heavy x := by
  simp [Spec.Contact.passes, params, pairArgs, Gen.fnat_ref_only_backbone, Gen.fnat_ref_excludeH, heavy,
    Spec.Contact.isHydrogen, startsWithH]

theorem near_pairArgs (c : Rat) (X Y : Str) (x y : Atom) :
    Spec.Contact.near (params (pairArgs c X Y)) x y = Spec.C08.within c x y := rfl

/-- the atom-level relation behind a residue contact of chains `X`, `Y` -/
def Touch (c : Rat) (t : List Atom) (X Y : Str) (K K' : ResKey) : Prop :=
  ∃ x ∈ t, ∃ y ∈ t, x.chainID = X ∧ y.chainID = Y ∧ heavy x = true ∧ heavy y = true ∧ Spec.C08.within c x y = true ∧
    resKey x = K ∧ resKey y = K'

theorem two_of_getChains {t : List Atom} {X Y : Str} (h : getChains t = [X, Y]) :
    X ≠ Y ∧ ltStr X Y = true ∧ X ∈ getChains t ∧ Y ∈ getChains t := by
  have hasc := asc_getChains t
  rw [h] at hasc
  have hlt : ltStr X Y = true := by
    have := List.pairwise_cons.1 hasc
    exact this.1 Y (by simp)
  refine ⟨?_, hlt, by rw [h]; simp, by rw [h]; simp⟩
  intro hXY; subst hXY
  simp [strictTotal_ltStr.irrefl] at hlt

theorem flatten_nodup {d : Dict ResKey (List ResKey)} (hk : (d.map (fun e => e.1)).Nodup) (hv : ∀ e ∈ d, e.2.Nodup) :
    (flattenPairs d).Nodup := by
  unfold flattenPairs
  induction d with
  | nil => simp
  | cons e d ih =>
    simp only [List.map_cons, List.nodup_cons] at hk
    simp only [List.flatMap_cons]
    rw [List.nodup_append]
    refine ⟨?_, ih hk.2 (fun e' he' => hv e' (List.mem_cons_of_mem _ he')), ?_⟩
    · exact List.Nodup.map (fun a b hab => by injection hab) (hv e (List.mem_cons_self ..))
    · intro p hp q hq hpq
      subst hpq
      obtain ⟨b, _, rfl⟩ := List.mem_map.1 hp
      obtain ⟨e', he', hq'⟩ := List.mem_flatMap.1 hq
      obtain ⟨b', _, hb'⟩ := List.mem_map.1 hq'
      injection hb' with h1 _
      exact hk.1 (List.mem_map.2 ⟨e', he', h1⟩)

theorem mem_flatten {d : Dict ResKey (List ResKey)} {K K' : ResKey} :
    (K, K') ∈ flattenPairs d ↔ ∃ L, (K, L) ∈ d ∧ K' ∈ L := by
  unfold flattenPairs
  simp only [List.mem_flatMap, List.mem_map, Prod.mk.injEq]
  constructor
  · rintro ⟨⟨K0, L⟩, he, b, hb, rfl, rfl⟩; exact ⟨L, he, hb⟩
  · rintro ⟨L, he, hb⟩; exact ⟨(K, L), he, K', hb, rfl, rfl⟩

/-- **closed form of the residue-pair dictionary** for chains `X`, `Y` of a structure whose chains are `[X, Y]` -/
theorem pairs_char {t : List Atom} {X Y : Str} (h : getChains t = [X, Y]) (c : Rat) :
    ∃ D, contactResiduePairs t (pairArgs c X Y) = .ok D ∧ (flattenPairs D).Nodup ∧
      ∀ K K', (K, K') ∈ flattenPairs D ↔ Touch c t X Y K K' := by
  obtain ⟨hne, _, h1, h2⟩ := two_of_getChains h
  have hcp := contactPairs_two_chain t (pairArgs c X Y) rfl hne h1 h2
  have hres : residueArgs (pairArgs c X Y) = pairArgs c X Y := rfl
  refine ⟨_, by rw [contactResiduePairs_eq, hres, hcp]; rfl, ?_, ?_⟩
  · obtain ⟨hk, _, hv⟩ := spec_residuePairMap t (Spec.Contact.pairMap (params (pairArgs c X Y)) t X Y)
    exact flatten_nodup hk (fun e he => asc_nodup strictTotal_ltRes (hv e.1 e.2 he).1)
  · intro K K'
    obtain ⟨_, hkeys, hv⟩ := spec_residuePairMap t (Spec.Contact.pairMap (params (pairArgs c X Y)) t X Y)
    rw [mem_flatten]
    constructor
    · rintro ⟨L, hKL, hK'⟩
      obtain ⟨e, he, ⟨x, hx, hrx⟩, j, hj, y, hy, hry⟩ := ((hv K L hKL).2 K').1 hK'
      obtain ⟨i, js⟩ := e
      obtain ⟨x', y', hx', hy', hcx, hcy, hpx, hpy, hn⟩ := ((spec_pairMap_values he).2 j).1 hj
      have : x' = x := by simp only at hx; rw [hx] at hx'; exact (Option.some.inj hx').symm
      subst this
      have : y' = y := by rw [hy] at hy'; exact (Option.some.inj hy').symm
      subst this
      rw [passes_pairArgs] at hpx hpy
      rw [near_pairArgs] at hn
      exact ⟨x', List.mem_of_getElem? hx, y', List.mem_of_getElem? hy, hcx, hcy, hpx, hpy, hn, hrx, hry⟩
    · rintro ⟨x, hx, y, hy, hcx, hcy, hpx, hpy, hn, hrx, hry⟩
      obtain ⟨i, hi⟩ := List.mem_iff_getElem?.1 hx
      obtain ⟨j, hj⟩ := List.mem_iff_getElem?.1 hy
      -- the atom `i` is a key of the pair map
      have hic : i ∈ Spec.Contact.contactAtoms (params (pairArgs c X Y)) t X Y :=
        spec_contactAtoms_iff.2 ⟨x, hi, hcx, by rw [passes_pairArgs]; exact hpx, j, y, hj, hcy,
          by rw [passes_pairArgs]; exact hpy, by rw [near_pairArgs]; exact hn⟩
      rw [← pairMap_keys] at hic
      obtain ⟨e, he, hei⟩ := List.mem_map.1 hic
      obtain ⟨i', js⟩ := e
      simp only at hei; subst hei
      have hjs : j ∈ js := ((spec_pairMap_values he).2 j).2
        ⟨x, y, hi, hj, hcx, hcy, by rw [passes_pairArgs]; exact hpx, by rw [passes_pairArgs]; exact hpy,
          by rw [near_pairArgs]; exact hn⟩
      have hK : K ∈ (Spec.Contact.residuePairMap t (Spec.Contact.pairMap (params (pairArgs c X Y)) t X Y)).map (fun e => e.1) :=
        (hkeys K).2 ⟨(i', js), he, x, hi, hrx⟩
      obtain ⟨⟨K0, L⟩, hKL, hK0⟩ := List.mem_map.1 hK
      simp only at hK0; subst hK0
      exact ⟨L, hKL, ((hv K0 L hKL).2 K').2 ⟨(i', js), he, ⟨x, hi, hrx⟩, j, hjs, y, hj, hry⟩⟩

end Proofs.Fnat
