/-
  The requested attributes: column-string validation, SELECT list, and the tail of `get`
  (`_format_get_output`: −1 on the requested rowID column, flattening) against `Spec.project`.
-/
import PdbVerif.Proofs.TableSql

set_option linter.unusedVariables false
set_option linter.unusedSimpArgs false

namespace TableProofs
open Tbl Model

/-- the column string is well formed: every name (blanks around it ignored) is a listed attribute; `rowID` is
    written without blanks and at most once; (last conjunct) the substring test the source uses to find out
    whether rowID is requested agrees with the list of names — true of every string built from listed names,
    checked by evaluation for a concrete string -/
def ColsOK (names : List Py.Str) (columns : Py.Str) : Bool :=
  columns == "*".toList ||
  (let parts := Py.splitOn ',' columns
   parts.all (fun p => (Tbl.colnames names).contains (Py.strip p)) &&
   parts.all (fun p => Py.strip p != rowIDName || p == rowIDName) &&
   decide (parts.count rowIDName ≤ 1) &&
   (Py.strIn rowIDName columns == parts.contains rowIDName))

/-- a column string that is fine for a database without added columns is fine for every database -/
theorem colsOK_mono (names : List Py.Str) (columns : Py.Str) (h : ColsOK [] columns = true) : ColsOK names columns = true := by
  unfold ColsOK at h ⊢
  by_cases hs : (columns == "*".toList) = true
  · rw [hs]; rfl
  · have hs' : (columns == "*".toList) = false := by simpa using hs
    simp only [hs', Bool.false_or, Bool.and_eq_true] at h ⊢
    obtain ⟨⟨⟨h1, h2⟩, h3⟩, h4⟩ := h
    refine ⟨⟨⟨?_, h2⟩, h3⟩, h4⟩
    rw [List.all_eq_true] at h1 ⊢
    intro p hp
    have := h1 p hp
    simp only [List.contains_iff_mem, Tbl.colnames, List.mem_cons, List.mem_append, List.not_mem_nil, or_false] at this ⊢
    rcases this with h | h
    · exact Or.inl h
    · exact Or.inr (Or.inl h)

def isIntVal : Val → Bool
  | .int _ => true
  | _ => false

def sqlRow (cols : List Col) (rp : Row × Nat) : List Val := cols.map (fun c => sqlCell c rp.2 rp.1)
def specRow (cols : List Col) (rp : Row × Nat) : List Val := cols.map (fun c => cell c rp.2 rp.1)

theorem sqlCell_ne_rowID (c : Col) (hc : c ≠ .rowID) (p : Nat) (r : Row) : sqlCell c p r = cell c p r := by
  cases c with
  | rowID => exact absurd rfl hc
  | std s => rfl
  | extra k => rfl

theorem sqlRow_no_rowID (cols : List Col) (h : ∀ c ∈ cols, c ≠ .rowID) (rp : Row × Nat) : sqlRow cols rp = specRow cols rp := by
  unfold sqlRow specRow
  apply List.map_congr_left
  intro c hc
  exact sqlCell_ne_rowID c (h c hc) _ _

theorem forall₂_mem_right {α β : Type} {R : α → β → Prop} : ∀ {l1 : List α} {l2 : List β}, List.Forall₂ R l1 l2 →
    ∀ c ∈ l2, ∃ q ∈ l1, R q c
  | _, _, .nil, c, hc => by simp at hc
  | _, _, .cons h1 h2, c, hc => by
    rcases List.mem_cons.1 hc with rfl | hc
    · exact ⟨_, by simp, h1⟩
    · obtain ⟨q, hq, hr⟩ := forall₂_mem_right h2 c hc
      exact ⟨q, List.mem_cons_of_mem _ hq, hr⟩

theorem strip_rowID : Py.strip rowIDName = rowIDName := by decide

/-- the −1 at the position of the first `'rowID'` of the column list turns the SQL row into the requested row -/
theorem modify_decr (names : List Py.Str) (rp : Row × Nat) :
    ∀ (parts : List Py.Str) (cols : List Col),
      List.Forall₂ (fun p c => resolve names (Py.strip p) = some c) parts cols →
      (∀ p ∈ parts, Py.strip p = rowIDName → p = rowIDName) → parts.count rowIDName ≤ 1 →
      ∀ i, parts.idxOf? rowIDName = some i → (sqlRow cols rp).modify i decr = specRow cols rp
  | [], [], _, _, _, i, hi => by simp [List.idxOf?] at hi
  | p :: ps, c :: cs, hf, hh, hc, i, hi => by
    rw [List.forall₂_cons] at hf
    by_cases hp : p = rowIDName
    · subst hp
      have hc0 : c = .rowID := by
        have := hf.1; rw [strip_rowID] at this
        have h2 := (resolve_eq_rowID_iff names rowIDName).2 rfl
        rw [this] at h2; exact Option.some.inj h2
      have hi0 : i = 0 := by
        simp [List.idxOf?, List.findIdx?_cons] at hi; exact hi.symm
      subst hi0 hc0
      have hrest : ∀ c ∈ cs, c ≠ .rowID := by
        intro c hcm hcr
        subst hcr
        obtain ⟨q, hq, hres⟩ := forall₂_mem_right hf.2 _ hcm
        have hq2 := hh q (List.mem_cons_of_mem _ hq) ((resolve_eq_rowID_iff names _).1 hres)
        subst hq2
        have : 1 ≤ ps.count rowIDName := List.count_pos_iff.2 hq
        simp [List.count_cons] at hc
        omega
      have hs := sqlRow_no_rowID cs hrest rp
      unfold sqlRow specRow at hs ⊢
      simp only [List.map_cons, List.modify_zero_cons, hs]
      simp [sqlCell, cell, decr]
    · have hsp : Py.strip p ≠ rowIDName := fun h => hp (hh p (by simp) h)
      have hc0 : c ≠ .rowID := by
        intro hcr; subst hcr
        exact hsp ((resolve_eq_rowID_iff names _).1 hf.1)
      have hidx : ∃ j, ps.idxOf? rowIDName = some j ∧ i = j + 1 := by
        simp only [List.idxOf?, List.findIdx?_cons] at hi
        have hne : (p == rowIDName) = false := by simpa using hp
        rw [hne] at hi
        simp only [Bool.false_eq_true, if_false, Option.map_eq_some_iff] at hi
        obtain ⟨j, hj, rfl⟩ := hi
        exact ⟨j, hj, rfl⟩
      obtain ⟨j, hj, rfl⟩ := hidx
      have ih := modify_decr names rp ps cs hf.2 (fun q hq => hh q (List.mem_cons_of_mem _ hq))
        (by simp [List.count_cons, hp] at hc; exact hc) j hj
      unfold sqlRow specRow at ih ⊢
      simp only [List.map_cons, List.modify_succ_cons, ih, sqlCell_ne_rowID c hc0]

theorem starCols_no_rowID (names : List Py.Str) : ∀ c ∈ starCols names, c ≠ .rowID := by
  intro c hc
  simp only [starCols, List.mem_append, List.mem_map] at hc
  rcases hc with ⟨s, _, rfl⟩ | ⟨k, _, rfl⟩ <;> simp

theorem starCols_length (names : List Py.Str) : (starCols names).length = 14 + names.length := by
  simp [starCols, StdCol.all]; omega

theorem project_eq (cols : List Col) (rp : Row × Nat) :
    Spec.project cols rp = if cols.length = 1 then .one ((specRow cols rp).headD (.int 0)) else .many (specRow cols rp) := by
  unfold Spec.project specRow
  match cols with
  | [] => simp
  | [c] => simp
  | c :: d :: t => simp

theorem contains_idxOf? {α : Type} [BEq α] [LawfulBEq α] (a : α) : ∀ (l : List α), l.contains a = true → ∃ i, l.idxOf? a = some i
  | [], h => by simp at h
  | b :: t, h => by
    by_cases hb : b = a
    · exact ⟨0, by simp [List.idxOf?, List.findIdx?_cons, hb]⟩
    · have : t.contains a = true := by
        simp only [List.contains_iff_mem, List.mem_cons] at h ⊢
        rcases h with h | h
        · exact absurd h.symm hb
        · exact h
      obtain ⟨i, hi⟩ := contains_idxOf? a t this
      refine ⟨i + 1, ?_⟩
      simp only [List.idxOf?] at hi ⊢
      simp [List.findIdx?_cons, hb, hi]

/-- the rows the SELECT returns, after `_format_get_output`, are the requested attributes of the selected
    atoms, a single attribute flattened -/
theorem finish_correct (names : List Py.Str) (columns : Py.Str) (hok : ColsOK names columns = true)
    (cols : List Col) (hcols : Spec.colsOf names columns = some cols) (sel : List (Row × Nat)) :
    finish columns (sel.map (sqlRow cols)) = .ok (sel.map (Spec.project cols)) := by
  -- the SQL rows with the rowID column shifted back are the requested rows
  have hfix : fixRowID columns (sel.map (sqlRow cols)) = .ok (sel.map (specRow cols)) := by
    unfold Spec.colsOf at hcols
    by_cases hstar : columns = "*".toList
    · subst hstar
      simp only [if_true, Option.some.injEq] at hcols
      subst hcols
      have h0 : Py.strIn rowIDName "*".toList = false := by decide
      simp only [fixRowID, h0, Bool.false_eq_true, if_false]
      congr 1
      apply List.map_congr_left
      intro rp _
      exact sqlRow_no_rowID _ (starCols_no_rowID names) rp
    · simp only [hstar, if_false] at hcols
      have hf := (option_mapM_eq_some _ _ _).1 hcols
      unfold ColsOK at hok
      have hs : (columns == "*".toList) = false := by simpa using hstar
      simp only [hs, Bool.false_or, Bool.and_eq_true, List.all_eq_true, decide_eq_true_eq, Bool.or_eq_true,
        bne_iff_ne, ne_eq, beq_iff_eq] at hok
      obtain ⟨⟨⟨h1, h2⟩, h3⟩, h4⟩ := hok
      have hh : ∀ p ∈ Py.splitOn ',' columns, Py.strip p = rowIDName → p = rowIDName := by
        intro p hp hsp
        rcases h2 p hp with h | h
        · exact absurd hsp h
        · exact h
      unfold fixRowID
      by_cases hin : Py.strIn rowIDName columns = true
      · rw [hin] at h4
        obtain ⟨i, hi⟩ := contains_idxOf? rowIDName _ h4.symm
        simp only [hin, if_true, hi, List.map_map]
        congr 1
        apply List.map_congr_left
        intro rp _
        exact modify_decr names rp _ _ hf hh h3 i hi
      · have hin' : Py.strIn rowIDName columns = false := by simpa using hin
        rw [hin'] at h4
        simp only [hin', Bool.false_eq_true, if_false]
        congr 1
        apply List.map_congr_left
        intro rp _
        apply sqlRow_no_rowID
        intro c hc hcr
        subst hcr
        obtain ⟨q, hq, hres⟩ := forall₂_mem_right hf _ hc
        have := hh q hq ((resolve_eq_rowID_iff names _).1 hres)
        subst this
        have : (Py.splitOn ',' columns).contains rowIDName = true := by simpa using hq
        rw [this] at h4; cases h4
  cases sel with
  | nil => rfl
  | cons rp0 rest =>
    simp only [List.map_cons] at hfix ⊢
    unfold finish
    simp only [hfix]
    have hlen : (sqlRow cols rp0).length = cols.length := by simp [sqlRow]
    rw [hlen]
    by_cases h1 : cols.length = 1
    · simp only [h1, if_true, ← List.map_cons, List.map_map]
      congr 1
      apply List.map_congr_left
      intro rp _
      simp [project_eq, h1]
    · simp only [h1, if_false, ← List.map_cons, List.map_map]
      congr 1
      apply List.map_congr_left
      intro rp _
      simp [project_eq, h1]

/-- a well-formed column string passes the validation, and the SELECT list is the requested attribute list -/
theorem cols_ok (db : Db) (h : WF db) (columns : Py.Str) (hok : ColsOK db.extraNames columns = true) :
    validCols db columns = true ∧ ∃ cols, Spec.colsOf db.extraNames columns = some cols ∧ sqlCols db columns = .ok cols := by
  by_cases hstar : columns = "*".toList
  · subst hstar
    exact ⟨by simp [validCols], starCols db.extraNames, by simp [Spec.colsOf], by simp [sqlCols]⟩
  · unfold ColsOK at hok
    have hs : (columns == "*".toList) = false := by simpa using hstar
    simp only [hs, Bool.false_or, Bool.and_eq_true, List.all_eq_true] at hok
    obtain ⟨⟨⟨h1, _⟩, _⟩, _⟩ := hok
    refine ⟨by simp only [validCols, hstar, decide_false, Bool.false_or, List.all_eq_true]; exact h1, ?_⟩
    have hmem : ∀ p ∈ Py.splitOn ',' columns, Py.strip p ∈ db.colnames := by
      intro p hp; simpa [Db.colnames] using h1 p hp
    have key : ∀ (parts : List Py.Str), (∀ p ∈ parts, Py.strip p ∈ db.colnames) →
        ∃ cols, parts.mapM (fun p => resolve db.extraNames (Py.strip p)) = some cols ∧
          parts.mapM (fun p => match sqlCol db (Py.strip p) with
            | some c => Except.ok c
            | none => Except.error Err.operational) = .ok cols := by
      intro parts
      induction parts with
      | nil => intro _; exact ⟨[], rfl, rfl⟩
      | cons p ps ih =>
        intro hm
        obtain ⟨cs, i1, i2⟩ := ih (fun q hq => hm q (List.mem_cons_of_mem _ hq))
        obtain ⟨c, hc⟩ := resolve_of_mem db.extraNames _ (hm p (by simp))
        have hsql := sqlCol_eq_resolve db h _ (hm p (by simp))
        rw [hc] at hsql
        refine ⟨c :: cs, ?_, ?_⟩
        · rw [List.mapM_cons, hc, i1]; rfl
        · rw [List.mapM_cons, hsql, i2]; rfl
    obtain ⟨cols, c1, c2⟩ := key _ hmem
    exact ⟨cols, by rw [Spec.colsOf, if_neg hstar]; exact c1, by rw [sqlCols, if_neg hstar]; exact c2⟩

end TableProofs
