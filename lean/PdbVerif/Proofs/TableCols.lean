/-
  The requested attributes: column-string validation, SELECT list, and the tail of `get`
  (`_format_get_output`: −1 on the requested rowID column, flattening) against `Spec.project`.
-/
import PdbVerif.Proofs.TableSql

set_option linter.unusedVariables false
set_option linter.unusedSimpArgs false

namespace TableProofs
open Tbl Model

/-- the column string is well formed: every name (blanks around it ignored) is a listed attribute; `rowID` is
    written without blanks and at most once; (last conjunct) the substring test the source uses to find out
    whether rowID is requested agrees with the list of names — true of every string built from listed names,
    checked by evaluation for a concrete string -/
def ColsOK (names : List Py.Str) (columns : Py.Str) : Bool :=
  columns == "*".toList ||
  (let parts := Py.splitOn ',' columns
   parts.all (fun p => (Tbl.colnames names).contains (Py.strip p)) &&
   parts.all (fun p => Py.strip p != rowIDName || p == rowIDName) &&
   decide (parts.count rowIDName ≤ 1) &&
   (Py.strIn rowIDName columns == parts.contains rowIDName))

def sqlRow (cols : List Col) (rp : Row × Nat) : List Val := cols.map (fun c => sqlCell c rp.2 rp.1)
def specRow (cols : List Col) (rp : Row × Nat) : List Val := cols.map (fun c => cell c rp.2 rp.1)

theorem sqlCell_ne_rowID (c : Col) (hc : c ≠ .rowID) (p : Nat) (r : Row) : sqlCell c p r = cell c p r := by
  cases c with
  | rowID => exact absurd rfl hc
  | std s => rfl
  | extra k => rfl

theorem sqlRow_no_rowID (cols : List Col) (h : ∀ c ∈ cols, c ≠ .rowID) (rp : Row × Nat) : sqlRow cols rp = specRow cols rp := by
  unfold sqlRow specRow
  apply List.map_congr_left
  intro c hc
  exact sqlCell_ne_rowID c (h c hc) _ _

theorem forall₂_mem_right {α β : Type} {R : α → β → Prop} : ∀ {l1 : List α} {l2 : List β}, List.Forall₂ R l1 l2 →
    ∀ c ∈ l2, ∃ q ∈ l1, R q c
  | _, _, .nil, c, hc => by simp at hc
  | _, _, .cons h1 h2, c, hc => by
    rcases List.mem_cons.1 hc with rfl | hc
    · exact ⟨_, by simp, h1⟩
    · obtain ⟨q, hq, hr⟩ := forall₂_mem_right h2 c hc
      exact ⟨q, List.mem_cons_of_mem _ hq, hr⟩

theorem strip_rowID : Py.strip rowIDName = rowIDName := by decide

/-- the −1 at the position of the first `'rowID'` of the column list turns the SQL row into the requested row -/
theorem modify_decr (names : List Py.Str) (rp : Row × Nat) :
    ∀ (parts : List Py.Str) (cols : List Col),
      List.Forall₂ (fun p c => resolve names (Py.strip p) = some c) parts cols →
      (∀ p ∈ parts, Py.strip p = rowIDName → p = rowIDName) → parts.count rowIDName ≤ 1 →
      ∀ i, parts.idxOf? rowIDName = some i → (sqlRow cols rp).modify i decr = specRow cols rp
  | [], [], _, _, _, i, hi => by simp [List.idxOf?] at hi
  | p :: ps, c :: cs, hf, hh, hc, i, hi => by
    rw [List.forall₂_cons] at hf
    by_cases hp : p = rowIDName
    · subst hp
      have hc0 : c = .rowID := by
        have := hf.1; rw [strip_rowID] at this
        have h2 := (resolve_eq_rowID_iff names rowIDName).2 rfl
        rw [this] at h2; exact Option.some.inj h2
      have hi0 : i = 0 := by
        simp [List.idxOf?, List.findIdx?_cons] at hi; exact hi.symm
      subst hi0 hc0
      have hrest : ∀ c ∈ cs, c ≠ .rowID := by
        intro c hcm hcr
        subst hcr
        obtain ⟨q, hq, hres⟩ := forall₂_mem_right hf.2 _ hcm
        have hq2 := hh q (List.mem_cons_of_mem _ hq) ((resolve_eq_rowID_iff names _).1 hres)
        subst hq2
        have : 1 ≤ ps.count rowIDName := List.count_pos_iff.2 hq
        simp [List.count_cons] at hc
        omega
      have hs := sqlRow_no_rowID cs hrest rp
      unfold sqlRow specRow at hs ⊢
      simp only [List.map_cons, List.modify_zero_cons, hs]
      simp [sqlCell, cell, decr]
    · have hsp : Py.strip p ≠ rowIDName := fun h => hp (hh p (by simp) h)
      have hc0 : c ≠ .rowID := by
        intro hcr; subst hcr
        exact hsp ((resolve_eq_rowID_iff names _).1 hf.1)
      have hidx : ∃ j, ps.idxOf? rowIDName = some j ∧ i = j + 1 := by
        simp only [List.idxOf?, List.findIdx?_cons] at hi
        have hne : (p == rowIDName) = false := by simpa using hp
        rw [hne] at hi
        simp only [Bool.false_eq_true, if_false, Option.map_eq_some_iff] at hi
        obtain ⟨j, hj, rfl⟩ := hi
        exact ⟨j, hj, rfl⟩
      obtain ⟨j, hj, rfl⟩ := hidx
      have ih := modify_decr names rp ps cs hf.2 (fun q hq => hh q (List.mem_cons_of_mem _ hq))
        (by simp [List.count_cons, hp] at hc; exact hc) j hj
      unfold sqlRow specRow at ih ⊢
      simp only [List.map_cons, List.modify_succ_cons, ih, sqlCell_ne_rowID c hc0]

end TableProofs
