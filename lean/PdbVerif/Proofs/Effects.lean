/-
  C16 — helper lemmas about effect programs (sequential part): solo run = iterated step, frame, determinism on the
  footprint, traces inside the footprint.   Core Lean only.
-/
import PdbVerif.Spec.C16

set_option linter.unusedVariables false
set_option linter.unusedSectionVars false

namespace Proofs.Effects
open Spec.C16

variable {P L R : Type} [DecidableEq P]

theorem ne_of_role {role : P → Role} {p q : P} {a b : Role} (hp : role p = a) (hq : role q = b) (hab : a ≠ b) : p ≠ q := by
  intro h; subst h; exact hab (hp.symm.trans hq)

/-- a solo run is the iteration of `step` -/
theorem exec_step (t : Prog P L R) (fs : FS P L) : t.exec fs = (t.step fs).2.exec (t.step fs).1 := by
  cases t <;> simp only [Prog.exec, Prog.step] <;> split <;> simp_all [Prog.exec]

theorem exec_outcome (t : Prog P L R) (fs : FS P L) (o : Outcome R) (h : t.outcome = some o) : (t.exec fs).2 = o := by
  cases t <;> simp_all [Prog.outcome, Prog.exec]

/-- running a one-task system for a while and then to completion = running to completion -/
theorem exec_run_solo (t : Prog P L R) (fs : FS P L) (n : Nat) :
    ∃ t', (Sys.run ⟨fs, [t]⟩ (List.replicate n 0)).tasks = [t'] ∧
      t'.exec (Sys.run ⟨fs, [t]⟩ (List.replicate n 0)).fs = t.exec fs := by
  induction n generalizing t fs with
  | zero => exact ⟨t, rfl, rfl⟩
  | succ n ih =>
    obtain ⟨t', h1, h2⟩ := ih (t.step fs).2 (t.step fs).1
    refine ⟨t', ?_, ?_⟩
    · simpa [Sys.run, List.replicate_succ, Sys.step] using h1
    · rw [exec_step t fs]
      simpa [Sys.run, List.replicate_succ, Sys.step] using h2

/-- files that are inputs or unrelated are not changed by a run inside the footprint -/
theorem exec_frame (role : P → Role) (t : Prog P L R) (h : Within role t) (fs : FS P L) (p : P)
    (hp : role p = .input ∨ role p = .other) : (t.exec fs).1 p = fs p := by
  have hne : ∀ q b, role q = b → b ≠ .input → b ≠ .other → p ≠ q := by
    intro q b hq h1 h2 heq; subst heq
    rcases hp with hp | hp
    · exact h1 (hq.symm.trans hp)
    · exact h2 (hq.symm.trans hp)
  induction t generalizing fs with
  | done r => rfl
  | fail e => rfl
  | pathExists q k ih => simp only [Within] at h; exact ih _ (h.2 _) fs
  | isFile q k ih => simp only [Within] at h; exact ih _ (h.2 _) fs
  | readAll q k ih =>
    simp only [Within] at h; simp only [Prog.exec]; split
    · exact ih _ (h.2 _) fs
    · rfl
  | createTemp q k ih =>
    simp only [Within] at h; simp only [Prog.exec]; split
    · rw [ih h.2]; exact FS.set_other _ _ _ _ (hne q _ h.1 (by decide) (by decide))
    · rfl
  | append q ch k ih =>
    simp only [Within] at h; simp only [Prog.exec]; split
    · rw [ih h.2]; apply FS.set_other
      rcases h.1 with h1 | h1
      · exact hne q _ h1 (by decide) (by decide)
      · exact hne q _ h1 (by decide) (by decide)
    · exact ih h.2 fs
  | openTrunc q k ih =>
    simp only [Within] at h; simp only [Prog.exec]
    rw [ih h.2]; exact FS.set_other _ _ _ _ (hne q _ h.1 (by decide) (by decide))
  | replace s d k ih =>
    simp only [Within] at h; simp only [Prog.exec]; split
    · rw [ih h.2, FS.set_other _ _ _ _ (hne d _ h.1.2 (by decide) (by decide)),
        FS.set_other _ _ _ _ (hne s _ h.1.1 (by decide) (by decide))]
    · rfl
  | remove q k ih =>
    simp only [Within] at h; simp only [Prog.exec]; split
    · rw [ih h.2]; exact FS.set_other _ _ _ _ (hne q _ h.1 (by decide) (by decide))
    · rfl
  | dbOpen q k ih => simp only [Within] at h
  | dbMem k ih => simp only [Within] at h; exact ih h fs
  | shell f k ih => simp only [Within] at h

theorem agree_set {role : P → Role} {fs₁ fs₂ : FS P L} (h : AgreeOn role fs₁ fs₂) (q : P) (v : Option (List L)) :
    AgreeOn role (fs₁.set q v) (fs₂.set q v) := by
  intro p hp
  by_cases hpq : p = q
  · subst hpq; simp
  · rw [FS.set_other _ _ _ _ hpq, FS.set_other _ _ _ _ hpq]; exact h p hp

/-- a write to a requested output is invisible to the computation -/
theorem agree_set_output {role : P → Role} {fs₁ fs₂ : FS P L} (h : AgreeOn role fs₁ fs₂) (q : P) (hq : role q = .output)
    (v w : Option (List L)) : AgreeOn role (fs₁.set q v) (fs₂.set q w) := by
  intro p hp
  have hpq : p ≠ q := by
    intro heq; subst heq; rcases hp with hp | hp | hp <;> rw [hq] at hp <;> cases hp
  rw [FS.set_other _ _ _ _ hpq, FS.set_other _ _ _ _ hpq]; exact h p hp

theorem agree_set_output_left {role : P → Role} {fs₁ fs₂ : FS P L} (h : AgreeOn role fs₁ fs₂) (q : P) (hq : role q = .output)
    (v : Option (List L)) : AgreeOn role (fs₁.set q v) fs₂ := by
  intro p hp
  have hpq : p ≠ q := by
    intro heq; subst heq; rcases hp with hp | hp | hp <;> rw [hq] at hp <;> cases hp
  rw [FS.set_other _ _ _ _ hpq]; exact h p hp

theorem agree_set_output_right {role : P → Role} {fs₁ fs₂ : FS P L} (h : AgreeOn role fs₁ fs₂) (q : P) (hq : role q = .output)
    (v : Option (List L)) : AgreeOn role fs₁ (fs₂.set q v) := by
  intro p hp
  have hpq : p ≠ q := by
    intro heq; subst heq; rcases hp with hp | hp | hp <;> rw [hq] at hp <;> cases hp
  rw [FS.set_other _ _ _ _ hpq]; exact h p hp

/-- the value and the cache left behind depend on inputs, cache (and the fresh temp names) only -/
theorem exec_agree (role : P → Role) (t : Prog P L R) (h : Within role t) (fs₁ fs₂ : FS P L) (ha : AgreeOn role fs₁ fs₂) :
    (t.exec fs₁).2 = (t.exec fs₂).2 ∧ AgreeOn role (t.exec fs₁).1 (t.exec fs₂).1 := by
  have hread : ∀ q, (role q).readable = true → fs₁ q = fs₂ q := by
    intro q hq; apply ha
    cases hr : role q <;> simp_all [Role.readable]
  induction t generalizing fs₁ fs₂ with
  | done r => exact ⟨rfl, ha⟩
  | fail e => exact ⟨rfl, ha⟩
  | pathExists q k ih =>
    simp only [Within] at h; simp only [Prog.exec]; rw [hread q h.1]
    exact ih _ (h.2 _) fs₁ fs₂ ha hread
  | isFile q k ih =>
    simp only [Within] at h; simp only [Prog.exec]; rw [hread q h.1]
    exact ih _ (h.2 _) fs₁ fs₂ ha hread
  | readAll q k ih =>
    simp only [Within] at h; simp only [Prog.exec]; rw [hread q h.1]
    split
    · exact ih _ (h.2 _) fs₁ fs₂ ha hread
    · exact ⟨rfl, ha⟩
  | createTemp q k ih =>
    simp only [Within] at h; simp only [Prog.exec]
    rw [ha q (Or.inr (Or.inr h.1))]
    split
    · have ha' := agree_set ha q (some ([] : List L))
      exact ih h.2 _ _ ha' (fun q' hq' => by
        apply ha'; cases hr : role q' <;> simp_all [Role.readable])
    · exact ⟨rfl, ha⟩
  | append q ch k ih =>
    simp only [Within] at h; simp only [Prog.exec]
    rcases h.1 with h1 | h1
    · rw [ha q (Or.inr (Or.inr h1))]
      split
      · rename_i c hc
        have ha' := agree_set ha q (some (c ++ ch))
        exact ih h.2 _ _ ha' (fun q' hq' => by
          apply ha'; cases hr : role q' <;> simp_all [Role.readable])
      · exact ih h.2 _ _ ha hread
    · -- a requested output: never read, so whatever it held before is irrelevant
      have key : ∀ (g₁ g₂ : FS P L), AgreeOn role g₁ g₂ →
          (k.exec g₁).2 = (k.exec g₂).2 ∧ AgreeOn role (k.exec g₁).1 (k.exec g₂).1 := by
        intro g₁ g₂ hg
        exact ih h.2 g₁ g₂ hg (fun q' hq' => by
          apply hg; cases hr : role q' <;> simp_all [Role.readable])
      cases h₁ : fs₁ q <;> cases h₂ : fs₂ q <;> simp only []
      · exact key _ _ ha
      · exact key _ _ (agree_set_output_right ha q h1 _)
      · exact key _ _ (agree_set_output_left ha q h1 _)
      · exact key _ _ (agree_set_output ha q h1 _ _)
  | openTrunc q k ih =>
    simp only [Within] at h; simp only [Prog.exec]
    have ha' := agree_set ha q (some ([] : List L))
    exact ih h.2 _ _ ha' (fun q' hq' => by
      apply ha'; cases hr : role q' <;> simp_all [Role.readable])
  | replace s d k ih =>
    simp only [Within] at h; simp only [Prog.exec]
    rw [ha s (Or.inr (Or.inr h.1.1))]
    split
    · rename_i c hc
      have ha' := agree_set (agree_set ha s none) d (some c)
      exact ih h.2 _ _ ha' (fun q' hq' => by
        apply ha'; cases hr : role q' <;> simp_all [Role.readable])
    · exact ⟨rfl, ha⟩
  | remove q k ih =>
    simp only [Within] at h; simp only [Prog.exec]
    rw [ha q (Or.inr (Or.inr h.1))]
    split
    · have ha' := agree_set ha q none
      exact ih h.2 _ _ ha' (fun q' hq' => by
        apply ha'; cases hr : role q' <;> simp_all [Role.readable])
    · exact ⟨rfl, ha⟩
  | dbOpen q k ih => simp only [Within] at h
  | dbMem k ih => simp only [Within] at h; exact ih h _ _ ha hread
  | shell f k ih => simp only [Within] at h

/-- every action of a solo run of a program inside the footprint is an allowed action -/
theorem trace_ok (role : P → Role) (t : Prog P L R) (h : Within role t) (fs : FS P L) : traceOk role (t.trace fs) = true := by
  unfold traceOk
  induction t generalizing fs with
  | done r => rfl
  | fail e => rfl
  | pathExists q k ih => simp only [Within] at h; simp [Prog.trace, Act.ok, h.1, ih _ (h.2 _) fs]
  | isFile q k ih => simp only [Within] at h; simp [Prog.trace, Act.ok, h.1, ih _ (h.2 _) fs]
  | readAll q k ih =>
    simp only [Within] at h; simp only [Prog.trace, List.all_cons, Act.ok, h.1, Bool.true_and]
    split
    · exact ih _ (h.2 _) fs
    · rfl
  | createTemp q k ih =>
    simp only [Within] at h; simp only [Prog.trace, List.all_cons, Act.ok, h.1, beq_self_eq_true, Bool.true_and]
    split
    · exact ih h.2 _
    · rfl
  | append q ch k ih =>
    simp only [Within] at h
    have : (role q == Role.temp || role q == Role.output) = true := by
      rcases h.1 with h1 | h1 <;> simp [h1]
    simp only [Prog.trace, List.all_cons, Act.ok, this, Bool.true_and]
    split
    · exact ih h.2 _
    · exact ih h.2 _
  | openTrunc q k ih =>
    simp only [Within] at h; simp only [Prog.trace, List.all_cons, Act.ok, h.1, beq_self_eq_true, Bool.true_and]
    exact ih h.2 _
  | replace s d k ih =>
    simp only [Within] at h
    simp only [Prog.trace, List.all_cons, Act.ok, h.1.1, h.1.2, beq_self_eq_true, Bool.true_and]
    split
    · exact ih h.2 _
    · rfl
  | remove q k ih =>
    simp only [Within] at h; simp only [Prog.trace, List.all_cons, Act.ok, h.1, beq_self_eq_true, Bool.true_and]
    split
    · exact ih h.2 _
    · rfl
  | dbOpen q k ih => simp only [Within] at h
  | dbMem k ih => simp only [Within] at h; simp only [Prog.trace, List.all_cons, Act.ok, Bool.true_and]; exact ih h _
  | shell f k ih => simp only [Within] at h

end Proofs.Effects
