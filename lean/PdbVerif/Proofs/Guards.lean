/-
  Unfolding lemmas for the guards and the `Except` plumbing of `Model.kabsch` / `Model.quaternion`, and the
  contract predicates at the matrices the code passes to `np.linalg.svd` / `np.linalg.eigh`.  Helper lemmas only.
-/
import PdbVerif.Proofs.Residual
import PdbVerif.Spec.C06
import PdbVerif.Model.Superpose

set_option linter.unusedSectionVars false
set_option linter.unusedVariables false

namespace Proofs.Guards
open Py Py.Mat3 Spec Model

variable {α : Type} [Field α] [LinearOrder α] [IsStrictOrderedRing α]

/-- the contract of `np.linalg.svd` at the matrix the code passes to it -/
def SvdOK (svd : Mat3 α → Mat3 α × Vec3 α × Mat3 α) (P Q : List (Vec3 α)) : Prop :=
  SvdContract (covariance P Q) (svd (covariance P Q)).1 (svd (covariance P Q)).2.1 (svd (covariance P Q)).2.2

/-- the contract of `np.linalg.eigh` at the matrix the code passes to it, for the pair the code selects -/
def EigOK (eig : Mat4 α → List (α × Vec4 α)) (P Q : List (Vec3 α)) : Prop :=
  ∃ lq, (eig (Gen.quat_F (dotPtQ P Q)))[argmax ((eig (Gen.quat_F (dotPtQ P Q))).map Prod.fst)]? = some lq ∧
    EigContract (Gen.quat_F (dotPtQ P Q)) lq.1 lq.2

theorem kabsch_ok_iff (svd : Mat3 α → Mat3 α × Vec3 α × Mat3 α) (eps : α) (P Q : List (Vec3 α)) (U : Mat3 α) :
    kabsch svd eps P Q = .ok U ↔
      guards eps P Q = .ok () ∧ U = kabschCore (svd (covariance P Q)).1 (svd (covariance P Q)).2.2 := by
  unfold kabsch
  cases hg : guards eps P Q with
  | error e => simp
  | ok u => simp [eq_comm]

theorem guards_eq (eps : α) (P Q : List (Vec3 α)) (hne : P.length ≠ 0) :
    guards eps P Q =
      if P.length ≠ Q.length ∨ uncentred eps P = true ∨ uncentred eps Q = true then .error .valueError else .ok () := by
  unfold guards
  by_cases h1 : P.length = Q.length
  · rw [if_neg (not_not.2 h1), if_neg hne]
    cases h2 : uncentred eps P <;> cases h3 : uncentred eps Q <;> simp [h1]
  · rw [if_pos h1, if_pos (Or.inl h1)]

theorem guards_ok_iff (eps : α) (P Q : List (Vec3 α)) :
    guards eps P Q = .ok () ↔
      P.length = Q.length ∧ P.length ≠ 0 ∧ uncentred eps P = false ∧ uncentred eps Q = false := by
  by_cases hne : P.length = 0
  · unfold guards
    by_cases h1 : P.length = Q.length
    · rw [if_neg (not_not.2 h1), if_pos hne]; simp [hne]
    · rw [if_pos h1]; simp [h1]
  · rw [guards_eq eps P Q hne]
    constructor
    · intro h
      split_ifs at h with hc
      push Not at hc
      exact ⟨hc.1, hne, by simpa using hc.2.1, by simpa using hc.2.2⟩
    · rintro ⟨h1, _, h2, h3⟩
      rw [if_neg]
      simp [h1, h2, h3]

theorem npts_pos {P : List (Vec3 α)} (h : P.length ≠ 0) : (0 : α) < ((P.length : Nat) : α) := by
  exact_mod_cast Nat.pos_of_ne_zero h

theorem quaternion_ok_iff (eig : Mat4 α → List (α × Vec4 α)) (eps : α) (P Q : List (Vec3 α)) (U : Mat3 α) :
    quaternion eig eps P Q = .ok U ↔
      guards eps P Q = .ok () ∧
      ∃ lq, (eig (Gen.quat_F (dotPtQ P Q)))[argmax ((eig (Gen.quat_F (dotPtQ P Q))).map Prod.fst)]? = some lq ∧
        U = Gen.quat_rot lq.2.w lq.2.x lq.2.y lq.2.z := by
  unfold quaternion
  cases hg : guards eps P Q with
  | error e => simp
  | ok u =>
    simp only [true_and]
    cases hq : (eig (Gen.quat_F (dotPtQ P Q)))[argmax ((eig (Gen.quat_F (dotPtQ P Q))).map Prod.fst)]? with
    | none => simp
    | some lq => obtain ⟨l, q⟩ := lq; simp [eq_comm]

theorem absv_le_iff (x e : α) : ¬ (e < absv x) ↔ absLe x e := by
  unfold absv absLe
  split_ifs with h
  · constructor
    · intro h1; constructor <;> linarith
    · intro ⟨h1, h2⟩; linarith
  · constructor
    · intro h1; constructor <;> linarith
    · intro ⟨h1, h2⟩; linarith

theorem uncentred_iff (eps : α) (P : List (Vec3 α)) : uncentred eps P = true ↔ ¬ Centred eps P := by
  unfold uncentred Centred
  rw [← Proofs.Residual.mean_eq]
  simp only [Bool.or_eq_true, decide_eq_true_eq, ← absv_le_iff]
  tauto

end Proofs.Guards
