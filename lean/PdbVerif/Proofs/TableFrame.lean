/-
  Frame of the modifications on the whole database object: what one step cannot change, invariants every step
  keeps (`Shape`), and the induction over histories.
-/
import PdbVerif.Proofs.TableUpd

set_option linter.unusedVariables false
set_option linter.unusedSimpArgs false

namespace TableProofs
open Tbl Model

/-- the cell at table `j`, position `p`, attribute `c` (`none`: no such table or row) -/
def cellAt (db : Db) (j p : Nat) (c : Col) : Option Val :=
  match db.tabs[j]? with
  | none => none
  | some t => match t.rows[p]? with
    | none => none
    | some r => some (cell c p r)

/-- shape invariant: table names unique, one cell per added column in every row -/
structure Shape (db : Db) : Prop where
  tabs : TabsOK db
  extras : ∀ t ∈ db.tabs, ∀ r ∈ t.rows, r.extra.length = db.extra.length

/-- names and row counts of the tables -/
def skeleton (db : Db) : List (Py.Str × Nat) := db.tabs.map (fun t => (t.name, t.rows.length))

/-! ### the UPDATE loop -/

theorem execRows_extra (db : Db) (cols : List Col) (n : Nat) : ∀ (pairs : List (List Val × Int)) (T : Table),
    (∀ r ∈ T, r.extra.length = n) → ∀ r ∈ (execRows db cols pairs T).1, r.extra.length = n
  | [], T, h => h
  | (vals, rid) :: rest, T, h => by
    unfold execRows
    split_ifs
    · exact h
    · exact execRows_extra db cols n rest T h
    · split
      · exact execRows_extra db cols n rest T h
      · rename_i r0 hr0
        split
        · exact h
        · rename_i r0' hset
          apply execRows_extra db cols n rest
          intro r hr
          rcases List.mem_or_eq_of_mem_set hr with hr | rfl
          · exact h r hr
          · rw [setCells_extra_length db _ _ _ hset]; exact h r0 (List.mem_of_getElem? hr0)

theorem tab_eq_of_ci (db : Db) (hT : TabsOK db) (tn : Py.Str) (tab : Tab) (h : findTab db tn = some tab)
    (t : Tab) (ht : t ∈ db.tabs) (hc : ciEq t.name tn = true) : t = tab := by
  have hci : ciEq tab.name tn = true := by have := List.find?_some h; simpa using this
  exact inj_of_nodup_map (fun t : Tab => Py.lower t.name) db.tabs hT t ht tab (findTab_mem db tn tab h)
    (by rw [(ciEq_iff _ _).1 hc, (ciEq_iff _ _).1 hci])

/-- `executemany` changes no cell outside (the addressed table) × (the addressed rowIDs) × (the assigned columns) -/
theorem execMany_frame (db : Db) (hT : TabsOK db) (tn : Py.Str) (cols : List Col) (pairs : List (List Val × Int))
    (j p : Nat) (c : Col)
    (hfree : (∀ t, db.tabs[j]? = some t → ciEq t.name tn = false) ∨ (∀ pr ∈ pairs, pr.2 ≠ (p : Int) + 1) ∨ c ∉ cols) :
    cellAt (execMany db tn cols pairs).1 j p c = cellAt db j p c := by
  cases hf : findTab db tn with
  | none =>
    -- no such table: the first statement fails, nothing happens
    cases pairs with
    | nil => rfl
    | cons pr rest =>
      obtain ⟨vals, rid⟩ := pr
      unfold execMany
      split_ifs
      · rfl
      · simp [updateAt, hf]
  | some tab =>
    rw [execMany_eq cols tn pairs db tab hT hf]
    unfold cellAt replaceTab
    simp only [List.getElem?_map]
    cases hj : db.tabs[j]? with
    | none => rfl
    | some t =>
      simp only [Option.map_some]
      by_cases hc : ciEq t.name tn = true
      · have ht : t = tab := tab_eq_of_ci db hT tn tab hf t (List.mem_of_getElem? hj) hc
        subst ht
        simp only [hc, if_true]
        have hlen := execRows_length db cols pairs t.rows
        cases hr : t.rows[p]? with
        | none =>
          have : (execRows db cols pairs t.rows).1[p]? = none := by
            rw [List.getElem?_eq_none_iff] at hr ⊢; omega
          rw [this]
        | some r =>
          have hp : p < (execRows db cols pairs t.rows).1.length := by
            rw [hlen]; exact (List.getElem?_eq_some_iff.1 hr).1
          have hr' : (execRows db cols pairs t.rows).1[p]? = some ((execRows db cols pairs t.rows).1[p]) :=
            List.getElem?_eq_getElem hp
          rw [hr']
          simp only [Option.some.injEq]
          apply execRows_frame db cols pairs t.rows p c _ r _ hr hr'
          rcases hfree with h | h | h
          · have := h t hj; rw [hc] at this; cases this
          · exact Or.inl h
          · exact Or.inr h
      · simp [hc]

theorem execMany_skeleton (db : Db) (hT : TabsOK db) (tn : Py.Str) (cols : List Col) (pairs : List (List Val × Int)) :
    skeleton (execMany db tn cols pairs).1 = skeleton db ∧ (execMany db tn cols pairs).1.extra = db.extra ∧
    (execMany db tn cols pairs).1.nModel = db.nModel := by
  cases hf : findTab db tn with
  | none =>
    cases pairs with
    | nil => exact ⟨rfl, rfl, rfl⟩
    | cons pr rest =>
      obtain ⟨vals, rid⟩ := pr
      unfold execMany
      split_ifs
      · exact ⟨rfl, rfl, rfl⟩
      · simp [updateAt, hf]
  | some tab =>
    rw [execMany_eq cols tn pairs db tab hT hf]
    refine ⟨?_, rfl, rfl⟩
    unfold skeleton replaceTab
    simp only [List.map_map]
    apply List.map_congr_left
    intro t ht
    by_cases hc : ciEq t.name tn = true
    · have : t = tab := tab_eq_of_ci db hT tn tab hf t ht hc
      subst this
      simp [hc, execRows_length]
    · simp [hc]

theorem execMany_shape (db : Db) (hS : Shape db) (tn : Py.Str) (cols : List Col) (pairs : List (List Val × Int)) :
    Shape (execMany db tn cols pairs).1 := by
  cases hf : findTab db tn with
  | none =>
    cases pairs with
    | nil => exact hS
    | cons pr rest =>
      obtain ⟨vals, rid⟩ := pr
      unfold execMany
      split_ifs
      · exact hS
      · simp only [updateAt, hf]; exact hS
  | some tab =>
    rw [execMany_eq cols tn pairs db tab hS.tabs hf]
    refine ⟨replaceTab_tabsOK db tn _ hS.tabs, ?_⟩
    intro t ht r hr
    simp only [replaceTab, List.mem_map] at ht
    obtain ⟨t0, ht0, rfl⟩ := ht
    by_cases hc : ciEq t0.name tn = true
    · simp only [hc, if_true] at hr
      exact execRows_extra db cols db.extra.length pairs tab.rows
        (hS.extras tab (findTab_mem db tn tab hf)) r hr
    · simp only [hc, Bool.false_eq_true, if_false] at hr
      exact hS.extras t0 ht0 r hr

/-! ### `update` -/

/-- the table at index `j` is the one a statement on `tn` addresses -/
def Addresses (db : Db) (j : Nat) (tn : Py.Str) : Prop := ∃ t, db.tabs[j]? = some t ∧ ciEq t.name tn = true

/-- `c` is one of the attributes `update(columns, …)` assigns -/
def Assigns (db : Db) (columns : Py.Str) (c : Col) : Prop := ∃ n ∈ updNames columns, sqlCol db n = some c

theorem mem_of_mapM_sqlCol (db : Db) (names : List Py.Str) (cs : List Col) (h : names.mapM (sqlCol db) = some cs)
    (c : Col) (hc : c ∈ cs) : ∃ n ∈ names, sqlCol db n = some c :=
  forall₂_mem_right ((option_mapM_eq_some _ _ _).1 h) c hc

/-- what `update` (one model) can change: the addressed table × the selected rows × the assigned attributes -/
theorem updateCore_frame (db : Db) (hT : TabsOK db) (columns : Py.Str) (values : List (List Val)) (tn : Py.Str)
    (kw : List Kw) (j p : Nat) (c : Col)
    (h : ¬ (Addresses db j tn ∧ Assigns db columns c ∧ ∃ ids, updIds db tn kw = .ok ids ∧ (p : Int) ∈ ids)) :
    cellAt (updateCore db columns values tn kw).1 j p c = cellAt db j p c := by
  unfold updateCore
  cases values with
  | nil => rfl
  | cons v0 vs =>
    simp only
    split_ifs with h1
    · rfl
    · cases hget : (Model.get db rowIDName tn kw >>= asInts) with
      | error e => rfl
      | ok rowID =>
        simp only
        split_ifs with h2
        · rfl
        · cases hcs : (updNames columns).mapM (sqlCol db) with
          | none => rfl
          | some cs =>
            simp only
            apply execMany_frame db hT
            by_cases hA : Addresses db j tn
            · by_cases hB : c ∈ cs
              · right; left
                intro pr hpr heq
                apply h
                refine ⟨hA, mem_of_mapM_sqlCol db _ cs hcs c hB, rowID, hget, ?_⟩
                have := (List.of_mem_zip hpr).2
                simp only [List.mem_map] at this
                obtain ⟨i, hi, hi2⟩ := this
                have : i = (p : Int) := by omega
                rw [← this]; exact hi
              · exact Or.inr (Or.inr hB)
            · left
              intro t ht
              by_contra hne
              exact hA ⟨t, ht, by simpa using hne⟩

theorem updateCore_keeps (db : Db) (hS : Shape db) (columns : Py.Str) (values : List (List Val)) (tn : Py.Str) (kw : List Kw) :
    Shape (updateCore db columns values tn kw).1 ∧ skeleton (updateCore db columns values tn kw).1 = skeleton db ∧
    (updateCore db columns values tn kw).1.extra = db.extra ∧ (updateCore db columns values tn kw).1.nModel = db.nModel := by
  unfold updateCore
  cases values with
  | nil => exact ⟨hS, rfl, rfl, rfl⟩
  | cons v0 vs =>
    simp only
    split_ifs with h1
    · exact ⟨hS, rfl, rfl, rfl⟩
    · cases hget : (Model.get db rowIDName tn kw >>= asInts) with
      | error e => exact ⟨hS, rfl, rfl, rfl⟩
      | ok rowID =>
        simp only
        split_ifs with h2
        · exact ⟨hS, rfl, rfl, rfl⟩
        · cases hcs : (updNames columns).mapM (sqlCol db) with
          | none => exact ⟨hS, rfl, rfl, rfl⟩
          | some cs =>
            simp only
            obtain ⟨a, b, c⟩ := execMany_skeleton db hS.tabs tn cs ((v0 :: vs).zip (rowID.map (· + 1)))
            exact ⟨execMany_shape db hS tn cs _, a, b, c⟩

theorem sqlCol_congr (db db' : Db) (he : db'.extra = db.extra) (n : Py.Str) : sqlCol db' n = sqlCol db n := by
  unfold sqlCol Db.extraNames; rw [he]

theorem addresses_congr (db db' : Db) (hs : skeleton db' = skeleton db) (j : Nat) (tn : Py.Str) :
    Addresses db' j tn ↔ Addresses db j tn := by
  have hname : (db'.tabs[j]?).map (·.name) = (db.tabs[j]?).map (·.name) := by
    have := congrArg (fun l => (l[j]?).map Prod.fst) hs
    simp only [skeleton, List.getElem?_map, Option.map_map] at this
    exact this
  unfold Addresses
  constructor
  · rintro ⟨t, ht, hc⟩
    rw [ht] at hname
    cases h : db.tabs[j]? with
    | none => rw [h] at hname; cases hname
    | some t0 =>
      rw [h] at hname; simp only [Option.map_some, Option.some.injEq] at hname
      exact ⟨t0, rfl, by rw [← hname]; exact hc⟩
  · rintro ⟨t, ht, hc⟩
    rw [ht] at hname
    cases h : db'.tabs[j]? with
    | none => rw [h] at hname; cases hname
    | some t0 =>
      rw [h] at hname; simp only [Option.map_some, Option.some.injEq] at hname
      exact ⟨t0, rfl, by rw [hname]; exact hc⟩

/-- the per-model loop of `update` changes nothing outside the addressed table × the assigned attributes -/
theorem updateModels_frame (columns : Py.Str) (values : List (List Val)) (tn : Py.Str) (kw : List Kw) (j p : Nat) (c : Col) :
    ∀ (ms : List Nat) (db : Db), Shape db → ¬ (Addresses db j tn ∧ Assigns db columns c) →
      cellAt (updateModels columns values tn kw ms db).1 j p c = cellAt db j p c
  | [], db, _, _ => rfl
  | m :: ms, db, hS, h => by
    unfold updateModels
    obtain ⟨k1, k2, k3, k4⟩ := updateCore_keeps db hS columns values tn (kw ++ [{ key := modelKey, arg := .scalar (.int m) }])
    have hfr := updateCore_frame db hS.tabs columns values tn (kw ++ [{ key := modelKey, arg := .scalar (.int m) }]) j p c
      (fun hh => h ⟨hh.1, hh.2.1⟩)
    cases hres : updateCore db columns values tn (kw ++ [{ key := modelKey, arg := .scalar (.int m) }]) with
    | mk db' out =>
      rw [hres] at k1 k2 k3 hfr
      cases out with
      | error e => exact hfr
      | ok u =>
        simp only
        rw [updateModels_frame columns values tn kw j p c ms db' k1 (by
          intro hh; apply h
          refine ⟨(addresses_congr db db' k2 j tn).1 hh.1, ?_⟩
          obtain ⟨n, hn, hc⟩ := hh.2
          exact ⟨n, hn, by rw [← sqlCol_congr db db' k3 n]; exact hc⟩)]
        exact hfr

theorem updateModels_keeps (columns : Py.Str) (values : List (List Val)) (tn : Py.Str) (kw : List Kw) :
    ∀ (ms : List Nat) (db : Db), Shape db →
      Shape (updateModels columns values tn kw ms db).1 ∧ skeleton (updateModels columns values tn kw ms db).1 = skeleton db ∧
      (updateModels columns values tn kw ms db).1.extra = db.extra ∧ (updateModels columns values tn kw ms db).1.nModel = db.nModel
  | [], db, hS => ⟨hS, rfl, rfl, rfl⟩
  | m :: ms, db, hS => by
    unfold updateModels
    obtain ⟨k1, k2, k3, k4⟩ := updateCore_keeps db hS columns values tn (kw ++ [{ key := modelKey, arg := .scalar (.int m) }])
    cases hres : updateCore db columns values tn (kw ++ [{ key := modelKey, arg := .scalar (.int m) }]) with
    | mk db' out =>
      rw [hres] at k1 k2 k3 k4
      cases out with
      | error e => exact ⟨k1, k2, k3, k4⟩
      | ok u =>
        simp only
        obtain ⟨i1, i2, i3, i4⟩ := updateModels_keeps columns values tn kw ms db' k1
        exact ⟨i1, i2.trans k2, i3.trans k3, i4.trans k4⟩

theorem update_frame (db : Db) (hS : Shape db) (columns : Py.Str) (values : List (List Val)) (tn : Py.Str)
    (kw : List Kw) (j p : Nat) (c : Col)
    (h : ¬ (Addresses db j tn ∧ Assigns db columns c ∧
        ((!hasModelKey kw && decide (db.nModel > 0)) = true ∨ ∃ ids, updIds db tn kw = .ok ids ∧ (p : Int) ∈ ids))) :
    cellAt (Model.update db columns values tn kw).1 j p c = cellAt db j p c := by
  unfold Model.update
  split_ifs with h1 h2
  · rfl
  · exact updateModels_frame columns values tn kw j p c _ db hS (fun hh => h ⟨hh.1, hh.2, Or.inl h2⟩)
  · exact updateCore_frame db hS.tabs columns values tn kw j p c (fun hh => h ⟨hh.1, hh.2.1, Or.inr hh.2.2⟩)

theorem update_keeps (db : Db) (hS : Shape db) (columns : Py.Str) (values : List (List Val)) (tn : Py.Str) (kw : List Kw) :
    Shape (Model.update db columns values tn kw).1 ∧ skeleton (Model.update db columns values tn kw).1 = skeleton db ∧
    (Model.update db columns values tn kw).1.extra = db.extra ∧ (Model.update db columns values tn kw).1.nModel = db.nModel := by
  unfold Model.update
  split_ifs
  · exact ⟨hS, rfl, rfl, rfl⟩
  · exact updateModels_keeps columns values tn kw _ db hS
  · exact updateCore_keeps db hS columns values tn kw

/-! ### `update_column`, `add_column`, `_fix_chainID` -/

/-- the positions `update_column` addresses -/
def columnAddresses (values : List Val) (index : Option (List Val)) (p : Nat) : Prop :=
  match index with
  | none => p < values.length
  | some idx => ∃ v ∈ idx, pyInt v = .ok (p : Int)

theorem updateColumn_frame (db : Db) (hS : Shape db) (colname : Py.Str) (values : List Val) (index : Option (List Val))
    (tn : Py.Str) (j p : Nat) (c : Col)
    (h : ¬ (Addresses db j tn ∧ sqlCol db colname = some c ∧ columnAddresses values index p)) :
    cellAt (Model.updateColumn db colname values index tn).1 j p c = cellAt db j p c := by
  unfold Model.updateColumn
  cases index with
  | none =>
    simp only
    cases hf : findTab db tn with
    | none => rfl
    | some tab =>
      cases hc : sqlCol db colname with
      | none => rfl
      | some c0 =>
        simp only
        apply execMany_frame db hS.tabs
        by_cases hA : Addresses db j tn
        · by_cases hB : c = c0
          · right; left
            intro pr hpr heq
            apply h
            refine ⟨hA, by rw [hc, hB], ?_⟩
            simp only [List.mem_map] at hpr
            obtain ⟨vi, hvi, rfl⟩ := hpr
            have := List.mem_zipIdx hvi
            simp only at heq
            show p < values.length
            omega
          · exact Or.inr (Or.inr (by simpa using hB))
        · left; intro t ht; by_contra hne; exact hA ⟨t, ht, by simpa using hne⟩
  | some idx =>
    simp only
    cases hd : (values.zip idx).mapM (fun vi => do
        let i ← pyInt vi.2
        pure (([vi.1], i + 1) : List Val × Int)) with
    | error e => rfl
    | ok d =>
      simp only
      cases hf : findTab db tn with
      | none => rfl
      | some tab =>
        cases hc : sqlCol db colname with
        | none => rfl
        | some c0 =>
          simp only
          apply execMany_frame db hS.tabs
          by_cases hA : Addresses db j tn
          · by_cases hB : c = c0
            · right; left
              intro pr hpr heq
              apply h
              refine ⟨hA, by rw [hc, hB], ?_⟩
              -- every pair comes from an index entry
              have key : ∀ (l : List (Val × Val)) (d : List (List Val × Int)),
                  l.mapM (fun vi => do
                    let i ← pyInt vi.2
                    pure (([vi.1], i + 1) : List Val × Int)) = .ok d →
                  ∀ pr ∈ d, ∃ vi ∈ l, pyInt vi.2 = .ok (pr.2 - 1) := by
                intro l
                induction l with
                | nil => intro d hd pr hpr; simp [List.mapM_nil, pure, Except.pure] at hd; subst hd; simp at hpr
                | cons a t ih =>
                  intro d hd pr hpr
                  rw [List.mapM_cons] at hd
                  simp only [bind, Except.bind, pure, Except.pure] at hd
                  cases ha : pyInt a.2 with
                  | error e => rw [ha] at hd; cases hd
                  | ok i =>
                    rw [ha] at hd
                    simp only at hd
                    cases ht : t.mapM (fun vi => do
                        let i ← pyInt vi.2
                        pure (([vi.1], i + 1) : List Val × Int)) with
                    | error e => simp only [bind, Except.bind, pure, Except.pure] at ht; rw [ht] at hd; cases hd
                    | ok d' =>
                      simp only [bind, Except.bind, pure, Except.pure] at ht
                      rw [ht] at hd
                      injection hd with hd; subst hd
                      rcases List.mem_cons.1 hpr with rfl | hpr
                      · exact ⟨a, by simp, by simp [ha]⟩
                      · obtain ⟨vi, hvi, hp⟩ := ih d' (by simp only [bind, Except.bind, pure, Except.pure]; exact ht) pr hpr
                        exact ⟨vi, List.mem_cons_of_mem _ hvi, hp⟩
              obtain ⟨vi, hvi, hp⟩ := key _ d hd pr hpr
              refine ⟨vi.2, (List.of_mem_zip hvi).2, ?_⟩
              rw [hp]; congr 1; omega
            · exact Or.inr (Or.inr (by simpa using hB))
          · left; intro t ht; by_contra hne; exact hA ⟨t, ht, by simpa using hne⟩

theorem updateColumn_keeps (db : Db) (hS : Shape db) (colname : Py.Str) (values : List Val) (index : Option (List Val))
    (tn : Py.Str) :
    Shape (Model.updateColumn db colname values index tn).1 ∧
    skeleton (Model.updateColumn db colname values index tn).1 = skeleton db ∧
    (Model.updateColumn db colname values index tn).1.extra = db.extra ∧
    (Model.updateColumn db colname values index tn).1.nModel = db.nModel := by
  have fin : ∀ d : List (List Val × Int),
      Shape (match findTab db tn, sqlCol db colname with
        | some _, some c => execMany db tn [c] d
        | _, _ => (db, .error .operational)).1 ∧
      skeleton (match findTab db tn, sqlCol db colname with
        | some _, some c => execMany db tn [c] d
        | _, _ => (db, .error .operational)).1 = skeleton db ∧
      (match findTab db tn, sqlCol db colname with
        | some _, some c => execMany db tn [c] d
        | _, _ => (db, .error .operational)).1.extra = db.extra ∧
      (match findTab db tn, sqlCol db colname with
        | some _, some c => execMany db tn [c] d
        | _, _ => (db, .error .operational)).1.nModel = db.nModel := by
    intro d
    cases hf : findTab db tn with
    | none => exact ⟨hS, rfl, rfl, rfl⟩
    | some tab =>
      cases hc : sqlCol db colname with
      | none => exact ⟨hS, rfl, rfl, rfl⟩
      | some c0 =>
        obtain ⟨a, b, c⟩ := execMany_skeleton db hS.tabs tn [c0] d
        exact ⟨execMany_shape db hS tn _ _, a, b, c⟩
  unfold Model.updateColumn
  cases index with
  | none => exact fin _
  | some idx =>
    simp only
    cases hd : (values.zip idx).mapM (fun vi => do
        let i ← pyInt vi.2
        pure (([vi.1], i + 1) : List Val × Int)) with
    | error e => exact ⟨hS, rfl, rfl, rfl⟩
    | ok d => exact fin d

/-- an existing attribute: rowID, a standard attribute, or a column added so far -/
def ColExists (db : Db) : Col → Prop
  | .extra k => k < db.extra.length
  | _ => True

/-- `add_column` either fails and changes nothing, or appends one column with the same value in every row -/
theorem addColumn_cases (db : Db) (name coltype : Py.Str) (value : Val) (tn : Py.Str) :
    (∃ e, Model.addColumn db name coltype value tn = (db, .error e)) ∨
    ∃ tab aff d, db.tabs = [tab] ∧ Model.addColumn db name coltype value tn = (withColumn db tab name aff d, .ok ()) := by
  unfold Model.addColumn
  split
  · rename_i tab htabs
    split_ifs
    · exact Or.inl ⟨_, rfl⟩
    · exact Or.inl ⟨_, rfl⟩
    · exact Or.inl ⟨_, rfl⟩
    · exact Or.inl ⟨_, rfl⟩
    · split
      · exact Or.inl ⟨_, rfl⟩
      · split
        · exact Or.inl ⟨_, rfl⟩
        · exact Or.inr ⟨tab, _, _, htabs, rfl⟩
  · exact Or.inl ⟨_, rfl⟩

theorem withColumn_frame (db : Db) (hS : Shape db) (tab : Tab) (htabs : db.tabs = [tab]) (name : Py.Str) (aff : Aff) (d : Val)
    (j p : Nat) (c : Col) (hc : ColExists db c) : cellAt (withColumn db tab name aff d) j p c = cellAt db j p c := by
  unfold cellAt withColumn
  simp only [htabs]
  cases j with
  | succ j' => simp
  | zero =>
    simp only [List.getElem?_cons_zero, List.getElem?_map]
    cases hr : tab.rows[p]? with
    | none => rfl
    | some r =>
      simp only [Option.map_some, Option.some.injEq]
      cases c with
      | rowID => rfl
      | std s => rfl
      | extra k =>
        have hlen : r.extra.length = db.extra.length :=
          hS.extras tab (by rw [htabs]; simp) r (List.mem_of_getElem? hr)
        simp only [ColExists] at hc
        simp only [cell, List.getD_eq_getElem?_getD]
        rw [List.getElem?_append_left (by omega)]

/-- `add_column` changes no existing cell -/
theorem addColumn_frame (db : Db) (hS : Shape db) (name coltype : Py.Str) (value : Val) (tn : Py.Str)
    (j p : Nat) (c : Col) (hc : ColExists db c) :
    cellAt (Model.addColumn db name coltype value tn).1 j p c = cellAt db j p c := by
  rcases addColumn_cases db name coltype value tn with ⟨e, he⟩ | ⟨tab, aff, d, htabs, he⟩
  · rw [he]
  · rw [he]; exact withColumn_frame db hS tab htabs name aff d j p c hc

theorem addColumn_keeps (db : Db) (hS : Shape db) (name coltype : Py.Str) (value : Val) (tn : Py.Str) :
    Shape (Model.addColumn db name coltype value tn).1 ∧ skeleton (Model.addColumn db name coltype value tn).1 = skeleton db ∧
    (Model.addColumn db name coltype value tn).1.nModel = db.nModel ∧
    db.extra.length ≤ (Model.addColumn db name coltype value tn).1.extra.length := by
  rcases addColumn_cases db name coltype value tn with ⟨e, he⟩ | ⟨tab, aff, d, htabs, he⟩
  · rw [he]; exact ⟨hS, rfl, rfl, Nat.le_refl _⟩
  · rw [he]
    refine ⟨⟨?_, ?_⟩, ?_, rfl, by simp [withColumn]⟩
    · have := hS.tabs; unfold TabsOK at this ⊢; rw [htabs] at this; simpa [withColumn] using this
    · intro t ht r hr
      simp only [withColumn, List.mem_singleton] at ht; subst ht
      simp only [List.mem_map] at hr
      obtain ⟨r0, hr0, rfl⟩ := hr
      simp [withColumn, hS.extras tab (by rw [htabs]; simp) r0 hr0]
    · simp [skeleton, htabs, withColumn]

theorem sqlCol_chainID (db : Db) : sqlCol db "chainID".toList = some (.std .chainID) := by
  have : StdCol.all.find? (fun c => ciEq c.pyName "chainID".toList) = some .chainID := by decide
  unfold sqlCol; rw [this]

theorem fixChainID_frame (db : Db) (hS : Shape db) (j p : Nat) (c : Col)
    (h : ¬ (Addresses db j defaultTable ∧ c = .std .chainID)) :
    cellAt (Model.fixChainID db).1 j p c = cellAt db j p c := by
  unfold Model.fixChainID
  split
  · rfl
  · apply updateColumn_frame db hS
    rintro ⟨hA, hc, _⟩
    rw [sqlCol_chainID] at hc
    exact h ⟨hA, (Option.some.inj hc).symm⟩

theorem fixChainID_keeps (db : Db) (hS : Shape db) :
    Shape (Model.fixChainID db).1 ∧ skeleton (Model.fixChainID db).1 = skeleton db ∧
    (Model.fixChainID db).1.extra = db.extra ∧ (Model.fixChainID db).1.nModel = db.nModel := by
  unfold Model.fixChainID
  split
  · exact ⟨hS, rfl, rfl, rfl⟩
  · exact updateColumn_keeps db hS _ _ _ _

/-! ### one step, histories -/

/-- the cells a step may write, evaluated in the state before the step -/
def touches (db : Db) (op : Op) (j p : Nat) (c : Col) : Prop :=
  match op with
  | .update columns _ tn kw =>
    Addresses db j tn ∧ Assigns db columns c ∧
      ((!hasModelKey kw && decide (db.nModel > 0)) = true ∨ ∃ ids, updIds db tn kw = .ok ids ∧ (p : Int) ∈ ids)
  | .updateXyz _ tn kw =>
    Addresses db j tn ∧ Assigns db "x,y,z".toList c ∧
      ((!hasModelKey kw && decide (db.nModel > 0)) = true ∨ ∃ ids, updIds db tn kw = .ok ids ∧ (p : Int) ∈ ids)
  | .updateColumn colname values index tn =>
    Addresses db j tn ∧ sqlCol db colname = some c ∧ columnAddresses values index p
  | .addColumn _ _ _ _ => False
  | .fixChainID => Addresses db j defaultTable ∧ c = .std .chainID

/-- **frame of one step**: a cell of an existing attribute that the step does not address keeps its value
    (and exists afterwards iff it existed before) -/
theorem step_frame (db : Db) (hS : Shape db) (op : Op) (j p : Nat) (c : Col) (hc : ColExists db c)
    (h : ¬ touches db op j p c) : cellAt (Model.step db op).1 j p c = cellAt db j p c := by
  cases op with
  | update columns values tn kw => exact update_frame db hS columns values tn kw j p c h
  | updateXyz values tn kw => exact update_frame db hS _ values tn kw j p c h
  | updateColumn colname values index tn => exact updateColumn_frame db hS colname values index tn j p c h
  | addColumn n ty v tn => exact addColumn_frame db hS n ty v tn j p c hc
  | fixChainID => exact fixChainID_frame db hS j p c h

/-- every step keeps the shape invariant, the tables with their names and row counts, and the added columns -/
theorem step_keeps (db : Db) (hS : Shape db) (op : Op) :
    Shape (Model.step db op).1 ∧ skeleton (Model.step db op).1 = skeleton db ∧
    (Model.step db op).1.nModel = db.nModel ∧ db.extra.length ≤ (Model.step db op).1.extra.length := by
  cases op with
  | update columns values tn kw =>
    obtain ⟨a, b, c, d⟩ := update_keeps db hS columns values tn kw
    exact ⟨a, b, d, by show db.extra.length ≤ (Model.update db columns values tn kw).1.extra.length; rw [c]⟩
  | updateXyz values tn kw =>
    obtain ⟨a, b, c, d⟩ := update_keeps db hS "x,y,z".toList values tn kw
    exact ⟨a, b, d, by show db.extra.length ≤ (Model.update db _ values tn kw).1.extra.length; rw [c]⟩
  | updateColumn colname values index tn =>
    obtain ⟨a, b, c, d⟩ := updateColumn_keeps db hS colname values index tn
    exact ⟨a, b, d, by show db.extra.length ≤ (Model.updateColumn db colname values index tn).1.extra.length; rw [c]⟩
  | addColumn n ty v tn => exact addColumn_keeps db hS n ty v tn
  | fixChainID =>
    obtain ⟨a, b, c, d⟩ := fixChainID_keeps db hS
    exact ⟨a, b, d, by show db.extra.length ≤ (Model.fixChainID db).1.extra.length; rw [c]⟩

/-- a cell is touched by a history if some step, in the state it is applied to, addresses it -/
def touchedBy (db : Db) : List Op → Nat → Nat → Col → Prop
  | [], _, _, _ => False
  | op :: rest, j, p, c => touches db op j p c ∨ touchedBy (Model.step db op).1 rest j p c

theorem colExists_mono (db db' : Db) (h : db.extra.length ≤ db'.extra.length) (c : Col) (hc : ColExists db c) : ColExists db' c := by
  cases c with
  | extra k => simp only [ColExists] at hc ⊢; omega
  | rowID => trivial
  | std s => trivial

/-- **frame over histories** (induction on the history): tables, their names and row counts never change, and
    every cell of an existing attribute that no step addresses has its initial value at the end -/
theorem run_frame : ∀ (ops : List Op) (db : Db), Shape db →
    Shape (Model.run db ops) ∧ skeleton (Model.run db ops) = skeleton db ∧
    ∀ j p c, ColExists db c → ¬ touchedBy db ops j p c → cellAt (Model.run db ops) j p c = cellAt db j p c
  | [], db, hS => ⟨hS, rfl, fun _ _ _ _ _ => rfl⟩
  | op :: rest, db, hS => by
    obtain ⟨k1, k2, _, k4⟩ := step_keeps db hS op
    obtain ⟨i1, i2, i3⟩ := run_frame rest (Model.step db op).1 k1
    have hrun : Model.run db (op :: rest) = Model.run (Model.step db op).1 rest := rfl
    rw [hrun]
    refine ⟨i1, i2.trans k2, ?_⟩
    intro j p c hc hnt
    simp only [touchedBy, not_or] at hnt
    rw [i3 j p c (colExists_mono db _ k4 c hc) hnt.2]
    exact step_frame db hS op j p c hc hnt.1

end TableProofs
