/-
  Soundness of the optimality certificate evaluated by the Spec driver (Wahba's problem): for a proper
  rotation `U` with `M = U·B` symmetric and `tr(M)·I − M` positive semidefinite, `tr(R·B) ≤ tr(U·B)` for
  every proper rotation `R`.  Uses `quat_surjective` (R·Uᵀ is the rotation of a unit quaternion
  `(r₀, v)` and `tr(M) − tr(R·Uᵀ·M) = 2·(‖v‖²·tr M − vᵀMv)`).  Helper lemmas only.
-/
import PdbVerif.Proofs.Quat

set_option linter.unusedSectionVars false
set_option linter.unusedVariables false

namespace Proofs.Cert
open Py Py.Mat3 Spec Proofs.M3

theorem tr_quat_sym (r : Vec4 ℝ) (M : Mat3 ℝ) (hr : Vec4.dot r r = 1) (hsym : M.T = M) :
    tr ((Gen.quat_rot r.w r.x r.y r.z).mul M) =
      tr M - 2 * (tr M * Vec3.dot ⟨r.x, r.y, r.z⟩ ⟨r.x, r.y, r.z⟩ - Vec3.dot ⟨r.x, r.y, r.z⟩ (M.mulVec ⟨r.x, r.y, r.z⟩)) := by
  have hb := congrArg Mat3.b hsym; have hc := congrArg Mat3.c hsym; have hf := congrArg Mat3.f hsym
  simp only [T] at hb hc hf
  simp only [Vec4.dot] at hr
  simp only [Gen.quat_rot, tr, mul, Vec3.dot, mulVec]
  linear_combination (M.a + M.e + M.i) * hr + (-2 * r.w * r.z) * hb + (2 * r.w * r.y) * hc + (-2 * r.w * r.x) * hf

theorem cert_sound (U R B : Mat3 ℝ) (hU : IsRotation U) (hR : IsRotation R)
    (hsym : (U.mul B).T = U.mul B)
    (hpsd : ∀ v : Vec3 ℝ, Vec3.dot v ((U.mul B).mulVec v) ≤ tr (U.mul B) * Vec3.dot v v) :
    tr (R.mul B) ≤ tr (U.mul B) := by
  have e : R.mul B = (R.mul U.T).mul (U.mul B) := by
    rw [M3.mul_assoc, ← M3.mul_assoc U.T, hU.1.2, M3.one_mul]
  obtain ⟨r, hr, hq⟩ := Proofs.Quat.quat_surjective (R.mul U.T) (rot_mul hR (rot_T hU))
  rw [e, ← hq, tr_quat_sym r _ hr hsym]
  have := hpsd ⟨r.x, r.y, r.z⟩
  linarith

end Proofs.Cert
