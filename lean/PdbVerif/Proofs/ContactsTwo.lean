/-
  Helper lemmas for C05 / C14, part 3: positions, the per-chain post-processing (`mapChains`), the two-chain call,
  rejection of unknown chains, the transpose.
-/
import PdbVerif.Proofs.ContactsLoop

set_option linter.unusedVariables false
set_option linter.unusedSimpArgs false
set_option linter.unusedSectionVars false

namespace Proofs.Contacts
open Model Py
open Spec.Contact (Params passes near touches isHydrogen chainAtoms partners atoms)

/-! ### positions -/

theorem zipIdx_map_snd' (t : List Atom) : t.zipIdx.map (fun r => r.2) = List.range' 0 t.length :=
  List.zipIdx_map_snd 0 t

/-- positions of a selection of rows are strictly ascending -/
theorem asc_positions (t : List Atom) (f : IRow → Bool) : Asc ltNat ((t.zipIdx.filter f).map (fun r => r.2)) := by
  have h1 : ((t.zipIdx.filter f).map (fun r => r.2)).Sublist (t.zipIdx.map (fun r => r.2)) :=
    List.Sublist.map _ List.filter_sublist
  rw [zipIdx_map_snd'] at h1
  have h2 := List.Pairwise.sublist h1 (List.pairwise_lt_range' (s := 0) (n := t.length))
  exact h2.imp (by intro a b h; simp [ltNat, h])

/-- a position identifies its atom -/
theorem pos_inj {t : List Atom} {p q : IRow} (hp : p ∈ t.zipIdx) (hq : q ∈ t.zipIdx) (h : p.2 = q.2) : p = q := by
  have h1 := List.mem_zipIdx_iff_getElem?.mp hp
  have h2 := List.mem_zipIdx_iff_getElem?.mp hq
  rw [h, h2] at h1
  have : q.1 = p.1 := Option.some.inj h1
  exact Prod.ext this.symm h

theorem mem_chainAtoms {t : List Atom} {X : Str} {p : IRow} : p ∈ chainAtoms t X ↔ p ∈ t.zipIdx ∧ p.1.chainID = X := by
  simp [chainAtoms, atoms]

theorem chainAtoms_sub {t : List Atom} {X : Str} {p : IRow} (h : p ∈ chainAtoms t X) : p ∈ t.zipIdx :=
  (mem_chainAtoms.mp h).1

theorem mem_getChains {t : List Atom} {X : Str} : X ∈ getChains t ↔ ∃ x ∈ t, x.chainID = X := by
  simp [getChains]

theorem chain_mem_getChains {t : List Atom} {p : IRow} (h : p ∈ t.zipIdx) : p.1.chainID ∈ getChains t := by
  have h1 := List.mem_zipIdx_iff_getElem?.mp h
  exact mem_getChains.mpr ⟨p.1, List.mem_of_getElem? h1, rfl⟩

theorem asc_getChains (t : List Atom) : Asc ltStr (getChains t) := asc_sortedSet strictTotal_ltStr _

theorem chainIDs_eq (t : List Atom) : Spec.Contact.chainIDs t = getChains t := by
  simp [Spec.Contact.chainIDs, getChains, sortDistinct_eq, strLt_eq]

/-! ### membership in the Spec's lists -/

theorem mem_contactAtoms {P : Params} {t : List Atom} {X Y : Str} {i : Nat} :
    i ∈ Spec.Contact.contactAtoms P t X Y ↔
      ∃ p ∈ chainAtoms t X, p.2 = i ∧ ∃ q ∈ chainAtoms t Y, touches P p q = true := by
  simp only [Spec.Contact.contactAtoms, List.mem_map, List.mem_filter, List.any_eq_true]
  constructor
  · rintro ⟨p, ⟨hp, q, hq, hpq⟩, rfl⟩; exact ⟨p, hp, rfl, q, hq, hpq⟩
  · rintro ⟨p, hp, rfl, q, hq, hpq⟩; exact ⟨p, ⟨hp, q, hq, hpq⟩, rfl⟩

theorem asc_contactAtoms (P : Params) (t : List Atom) (X Y : Str) : Asc ltNat (Spec.Contact.contactAtoms P t X Y) := by
  unfold Spec.Contact.contactAtoms chainAtoms atoms
  simp only [List.filter_filter]
  exact asc_positions t _

theorem pairMap_keys (P : Params) (t : List Atom) (X Y : Str) :
    (Spec.Contact.pairMap P t X Y).map (fun e => e.1) = Spec.Contact.contactAtoms P t X Y := by
  simp only [Spec.Contact.pairMap, Spec.Contact.contactAtoms, List.map_map]; rfl

/-- the partners listed in the pair map of `(X, Y)` are the contact atoms of `Y` with respect to `X` -/
theorem mem_pairMap_values {P : Params} {t : List Atom} {X Y : Str} {j : Nat} :
    j ∈ (Spec.Contact.pairMap P t X Y).flatMap (·.2) ↔ j ∈ Spec.Contact.contactAtoms P t Y X := by
  rw [mem_contactAtoms]
  simp only [Spec.Contact.pairMap, partners, List.mem_flatMap, List.mem_map, List.mem_filter, List.any_eq_true]
  constructor
  · rintro ⟨e, ⟨p, ⟨hp, _⟩, rfl⟩, hj⟩
    obtain ⟨q, hq, rfl⟩ := List.mem_map.mp hj
    obtain ⟨hq, hpq⟩ := List.mem_filter.mp hq
    exact ⟨q, hq, rfl, p, hp, by rw [touches_comm]; exact hpq⟩
  · rintro ⟨q, hq, rfl, p, hp, hqp⟩
    have hpq : touches P p q = true := by rw [touches_comm]; exact hqp
    exact ⟨_, ⟨p, ⟨hp, q, hq, hpq⟩, rfl⟩, List.mem_map.mpr ⟨q, List.mem_filter.mpr ⟨hq, hpq⟩, rfl⟩⟩

/-! ### `for chain in chainIDs: index_contact[chain] = f(index_contact[chain])` -/

theorem set_eq_map (f : List Nat → List Nat) {d : Dict Str (List Nat)} (hd : d.keys.Nodup) {k : Str} (hk : k ∈ d.keys) :
    d.set k (f (d.getD k)) = d.map (fun e => if e.1 = k then (e.1, f e.2) else e) := by
  induction d with
  | nil => simp [Dict.keys] at hk
  | cons e d ih =>
    obtain ⟨k₀, v₀⟩ := e
    simp only [Dict.keys, List.map_cons, List.nodup_cons] at hd
    by_cases h0 : k₀ = k
    · subst h0
      simp only [Dict.set, Dict.getD, if_true, List.map_cons, List.cons.injEq, true_and]
      symm
      rw [List.map_congr_left (g := id)]
      · simp
      · intro e he
        have : ¬ e.1 = k₀ := by
          intro h'
          exact hd.1 (h' ▸ List.mem_map.mpr ⟨e, he, rfl⟩)
        simp [this]
    · have hk' : k ∈ Dict.keys d := by
        simp only [Dict.keys, List.map_cons, List.mem_cons] at hk
        rcases hk with hk | hk
        · exact absurd hk.symm h0
        · exact hk
      simp only [Dict.set, Dict.getD, h0, if_false, List.map_cons, List.cons.injEq, true_and]
      exact ih hd.2 hk'

theorem keys_map_upd (d : Dict Str (List Nat)) (g : Str × List Nat → Str × List Nat) (hg : ∀ e, (g e).1 = e.1) :
    Dict.keys (d.map g) = d.keys := by
  simp [Dict.keys, List.map_map, Function.comp_def, hg]

/-- all keys present: every listed chain's list is replaced by its image -/
theorem mapChains_ok (f : List Nat → List Nat) {ks : List Str} (hks : ks.Nodup) {d : Dict Str (List Nat)} (hd : d.keys.Nodup)
    (hall : ∀ k ∈ ks, k ∈ d.keys) :
    mapChains f ks d = .ok (d.map (fun e => if e.1 ∈ ks then (e.1, f e.2) else e)) := by
  induction ks generalizing d with
  | nil => simp [mapChains, List.foldlM, pure, Except.pure]
  | cons k ks ih =>
    have hk := hall k (by simp)
    have hks' := List.nodup_cons.mp hks
    unfold mapChains
    rw [List.foldlM_cons]
    rw [get?_eq_getD hk]
    simp only [pure, Except.pure, bind, Except.bind]
    rw [set_eq_map f hd hk]
    have hkeys : Dict.keys (d.map (fun e => if e.1 = k then (e.1, f e.2) else e)) = d.keys :=
      keys_map_upd d _ (by intro e; by_cases h : e.1 = k <;> simp [h])
    have := ih hks'.2 (d := d.map (fun e => if e.1 = k then (e.1, f e.2) else e)) (by rw [hkeys]; exact hd)
      (by intro k' hk'; rw [hkeys]; exact hall k' (by simp [hk']))
    unfold mapChains at this
    simp only [pure, Except.pure, bind, Except.bind] at this
    rw [this]
    congr 1
    rw [List.map_map]
    apply List.map_congr_left
    intro e he
    by_cases h1 : e.1 = k
    · have : k ∉ ks := hks'.1
      simp [h1, this]
    · simp [h1]

/-- some listed chain has no entry: `KeyError` -/
theorem mapChains_err (f : List Nat → List Nat) {ks : List Str} {d : Dict Str (List Nat)} (hd : d.keys.Nodup)
    (hmiss : ∃ k ∈ ks, k ∉ d.keys) :
    mapChains f ks d = .error Err.keyError := by
  induction ks generalizing d with
  | nil => simp at hmiss
  | cons k ks ih =>
    unfold mapChains
    rw [List.foldlM_cons]
    by_cases hk : k ∈ d.keys
    · rw [get?_eq_getD hk]
      simp only [pure, Except.pure, bind, Except.bind]
      rw [set_eq_map f hd hk]
      have hkeys : Dict.keys (d.map (fun e => if e.1 = k then (e.1, f e.2) else e)) = d.keys :=
        keys_map_upd d _ (by intro e; by_cases h : e.1 = k <;> simp [h])
      have := ih (d := d.map (fun e => if e.1 = k then (e.1, f e.2) else e)) (by rw [hkeys]; exact hd)
        (by
          obtain ⟨k', hk', hk2⟩ := hmiss
          rcases List.mem_cons.mp hk' with rfl | hk'
          · exact absurd hk hk2
          · exact ⟨k', hk', by rw [hkeys]; exact hk2⟩)
      unfold mapChains at this
      simp only [pure, Except.pure, bind, Except.bind] at this
      exact this
    · rw [get?_none hk]
      rfl

/-! ### the body of `get_contact_atoms` with the loops replaced by their events -/

/-- the optional residue extension of one chain's list -/
def extendIf (a : ContactArgs) (t : List Atom) (l : List Nat) : List Nat :=
  if a.extend then extendToResidue t l a.bb else l

/-- `chainIDs` of the call -/
def callChains (t : List Atom) (a : ContactArgs) : List Str :=
  if a.allchains then getChains t else [a.chain1, a.chain2]

/-- `index_contact` after the double loop -/
def icAfterLoop (t : List Atom) (a : ContactArgs) : Dict Str (List Nat) :=
  applyEvents [] ((combinations2 (callChains t a)).flatMap (pairEvents a t))

/-- `index_contact_pairs` after the double loop -/
def pairsAfterLoop (t : List Atom) (a : ContactArgs) : Dict Nat (List Nat) :=
  applyEvents [] ((combinations2 (callChains t a)).flatMap (selOf a t))

theorem contactRun_eq (t : List Atom) (a : ContactArgs) :
    contactRun t a =
      if (callChains t a).any (fun c => !(getChains t).contains c) then .error Err.valueError
      else
        (mapChains (sortedSet ltNat) (callChains t a) (icAfterLoop t a)).bind (fun ic =>
          (if a.extend then mapChains (fun l => extendToResidue t l a.bb) (callChains t a) ic else .ok ic).bind (fun ic =>
            .ok (ic, pairsAfterLoop t a))) := by
  unfold contactRun
  simp only [foldl_scanPair, callChains, icAfterLoop, pairsAfterLoop, bind, Except.bind, pure, Except.pure, throw, throwThe,
    MonadExceptOf.throw]
  by_cases hc : ((if a.allchains = true then getChains t else [a.chain1, a.chain2]).any fun c => !(getChains t).contains c) = true
  · simp only [hc, if_true]
  · simp only [hc, if_false, Bool.false_eq_true]
    cases mapChains (sortedSet ltNat) (if a.allchains = true then getChains t else [a.chain1, a.chain2])
        (applyEvents [] (List.flatMap (pairEvents a t) (combinations2 (if a.allchains = true then getChains t else [a.chain1, a.chain2])))) with
    | error e => rfl
    | ok ic =>
      by_cases he : a.extend = true
      · simp only [he, if_true]
      · simp only [he, if_false, Bool.false_eq_true]

theorem nodup_keys_icAfterLoop (t : List Atom) (a : ContactArgs) : (icAfterLoop t a).keys.Nodup :=
  nodup_keys_applyEvents (by simp [Dict.keys]) _

/-! ### unknown chains -/

theorem contactRun_unknown (t : List Atom) (a : ContactArgs) (hall : a.allchains = false)
    (h : a.chain1 ∉ getChains t ∨ a.chain2 ∉ getChains t) : contactRun t a = .error Err.valueError := by
  rw [contactRun_eq]
  have : (callChains t a).any (fun c => !(getChains t).contains c) = true := by
    simp only [callChains, hall, List.any_cons, List.any_nil, Bool.or_false, Bool.or_eq_true, Bool.not_eq_true',
      List.contains_eq_mem, decide_eq_false_iff_not, Bool.false_eq_true, if_false]
    exact h
  rw [if_pos this]

theorem callChains_known (t : List Atom) (a : ContactArgs)
    (h : a.allchains = true ∨ (a.chain1 ∈ getChains t ∧ a.chain2 ∈ getChains t)) :
    (callChains t a).any (fun c => !(getChains t).contains c) = false := by
  rw [List.any_eq_false]
  intro c hc
  simp only [Bool.not_eq_true', List.contains_eq_mem, decide_eq_false_iff_not, Classical.not_not, Bool.not_eq_true,
    Bool.not_eq_false']
  unfold callChains at hc
  cases hall : a.allchains with
  | true => simp [hall] at hc ⊢; exact hc
  | false =>
    simp [hall] at hc h ⊢
    rcases hc with rfl | rfl
    · exact h.1
    · exact h.2

/-! ### two different chains -/

theorem eventsOf_icEvents_fst {A B : Str} (hne : A ≠ B) (s : List (Nat × List Nat)) :
    eventsOf (icEvents A B s) A = s.map (·.1) := by
  induction s with
  | nil => rfl
  | cons e es ih =>
    have hBA : ¬ B = A := fun h => hne h.symm
    simp only [eventsOf, icEvents, List.flatMap_cons, List.cons_append, List.nil_append, List.filter_cons, decide_true,
      if_true, hBA, decide_false, Bool.false_eq_true, if_false, List.map_cons, List.singleton_append, List.cons.injEq, true_and] at ih ⊢
    exact ih

theorem eventsOf_icEvents_snd {A B : Str} (hne : A ≠ B) (s : List (Nat × List Nat)) :
    eventsOf (icEvents A B s) B = s.flatMap (·.2) := by
  induction s with
  | nil => rfl
  | cons e es ih =>
    simp only [eventsOf, icEvents, List.flatMap_cons, List.cons_append, List.nil_append, List.filter_cons, decide_true,
      if_true, hne, decide_false, Bool.false_eq_true, if_false, List.append_cancel_left_eq] at ih ⊢
    exact ih

theorem icAfterLoop_two (t : List Atom) (a : ContactArgs) (hall : a.allchains = false) (hne : a.chain1 ≠ a.chain2) :
    icAfterLoop t a =
      [(a.chain1, Spec.Contact.contactAtoms (params a) t a.chain1 a.chain2),
       (a.chain2, (Spec.Contact.pairMap (params a) t a.chain1 a.chain2).flatMap (·.2))] := by
  have hne' : ¬ a.chain2 = a.chain1 := fun h => hne h.symm
  have hcomb : combinations2 (callChains t a) = [(a.chain1, a.chain2)] := by
    simp [callChains, hall, combinations2]
  unfold icAfterLoop
  rw [hcomb]
  simp only [List.flatMap_cons, List.flatMap_nil, List.append_nil, pairEvents]
  rw [applyEvents_append]
  have h0 : applyEvents ([] : Dict Str (List Nat)) [(a.chain1, []), (a.chain2, [])] = [(a.chain1, []), (a.chain2, [])] := by
    simp [applyEvents, Dict.extend, hne]
  rw [h0]
  have hk : (applyEvents [(a.chain1, ([] : List Nat)), (a.chain2, [])] (icEvents a.chain1 a.chain2 (selOf a t (a.chain1, a.chain2)))).keys
      = [a.chain1, a.chain2] := by
    rw [keys_applyEvents_of_mem]
    · simp [Dict.keys]
    · intro e he
      simp only [icEvents, List.mem_flatMap, List.mem_cons, List.not_mem_nil, or_false] at he
      obtain ⟨x, _, rfl | rfl⟩ := he <;> simp [Dict.keys]
  have hn : (applyEvents [(a.chain1, ([] : List Nat)), (a.chain2, [])] (icEvents a.chain1 a.chain2 (selOf a t (a.chain1, a.chain2)))).keys.Nodup := by
    rw [hk]; simp [hne]
  rw [eq_map_keys _ hn, hk]
  simp only [List.map_cons, List.map_nil, getD_applyEvents, Dict.getD, if_true, hne, if_false, List.nil_append,
    eventsOf_icEvents_fst hne, eventsOf_icEvents_snd hne, selOf_eq, pairMap_keys]

theorem pairsAfterLoop_two (t : List Atom) (a : ContactArgs) (hall : a.allchains = false) :
    pairsAfterLoop t a = Spec.Contact.pairMap (params a) t a.chain1 a.chain2 := by
  have hcomb : combinations2 (callChains t a) = [(a.chain1, a.chain2)] := by
    simp [callChains, hall, combinations2]
  unfold pairsAfterLoop
  rw [hcomb]
  simp only [List.flatMap_cons, List.flatMap_nil, List.append_nil, selOf_eq]
  rw [applyEvents_of_nodup]
  · simp
  · simp only [Dict.keys, List.map_nil, List.nil_append]
    rw [pairMap_keys]
    exact asc_nodup strictTotal_ltNat (asc_contactAtoms _ _ _ _)

/-- the two-chain call, with the Spec's lists -/
theorem contactRun_two_chain' (t : List Atom) (a : ContactArgs) (hall : a.allchains = false) (hne : a.chain1 ≠ a.chain2)
    (h1 : a.chain1 ∈ getChains t) (h2 : a.chain2 ∈ getChains t) :
    contactRun t a = .ok
      ([(a.chain1, extendIf a t (Spec.Contact.contactAtoms (params a) t a.chain1 a.chain2)),
        (a.chain2, extendIf a t (Spec.Contact.contactAtoms (params a) t a.chain2 a.chain1))],
       Spec.Contact.pairMap (params a) t a.chain1 a.chain2) := by
  have hne' : ¬ a.chain2 = a.chain1 := fun h => hne h.symm
  rw [contactRun_eq, callChains_known t a (Or.inr ⟨h1, h2⟩), icAfterLoop_two t a hall hne, pairsAfterLoop_two t a hall]
  have hcc : callChains t a = [a.chain1, a.chain2] := by simp [callChains, hall]
  rw [hcc]
  have hA : sortedSet ltNat (Spec.Contact.contactAtoms (params a) t a.chain1 a.chain2) = Spec.Contact.contactAtoms (params a) t a.chain1 a.chain2 :=
    sortedSet_self strictTotal_ltNat (asc_contactAtoms _ _ _ _)
  have hB : sortedSet ltNat ((Spec.Contact.pairMap (params a) t a.chain1 a.chain2).flatMap (·.2)) = Spec.Contact.contactAtoms (params a) t a.chain2 a.chain1 :=
    sortedSet_eq_of_asc strictTotal_ltNat (asc_contactAtoms _ _ _ _) (fun z => mem_pairMap_values)
  cases hext : a.extend with
  | false =>
    simp [mapChains, List.foldlM, Dict.get?, Dict.set, hne, hne', hA, hB, extendIf, hext, bind, Except.bind, pure, Except.pure]
  | true =>
    simp [mapChains, List.foldlM, Dict.get?, Dict.set, hne, hne', hA, hB, extendIf, hext, bind, Except.bind, pure, Except.pure]

theorem contactRun_two_chain (t : List Atom) (a : ContactArgs) (hall : a.allchains = false) (hne : a.chain1 ≠ a.chain2)
    (h1 : a.chain1 ∈ getChains t) (h2 : a.chain2 ∈ getChains t) (hext : a.extend = false) :
    contactRun t a = .ok (Spec.Contact.twoChains (params a) t a.chain1 a.chain2,
                          Spec.Contact.pairMap (params a) t a.chain1 a.chain2) := by
  rw [contactRun_two_chain' t a hall hne h1 h2]
  simp [extendIf, hext, Spec.Contact.twoChains]

theorem contactPairs_two_chain (t : List Atom) (a : ContactArgs) (hall : a.allchains = false) (hne : a.chain1 ≠ a.chain2)
    (h1 : a.chain1 ∈ getChains t) (h2 : a.chain2 ∈ getChains t) :
    contactPairs t a = .ok (Spec.Contact.pairMap (params a) t a.chain1 a.chain2) := by
  simp [contactPairs, contactRun_two_chain' t a hall hne h1 h2, Except.map]

theorem contactSets_two_chain (t : List Atom) (a : ContactArgs) (hall : a.allchains = false) (hne : a.chain1 ≠ a.chain2)
    (h1 : a.chain1 ∈ getChains t) (h2 : a.chain2 ∈ getChains t) (hext : a.extend = false) :
    contactSets t a = .ok (Spec.Contact.twoChains (params a) t a.chain1 a.chain2) := by
  simp [contactSets, contactRun_two_chain t a hall hne h1 h2 hext, Except.map]

/-! ### swapping the two chains -/

/-- Spec-level: the pair map of `(Y, X)` is the transpose of the pair map of `(X, Y)` -/
theorem pairMap_swap (P : Params) (t : List Atom) (X Y : Str) :
    Spec.Contact.pairMap P t Y X = Spec.Contact.transpose (Spec.Contact.pairMap P t X Y) := by
  unfold Spec.Contact.transpose
  rw [sortDistinct_eq, natLt_eq]
  rw [sortedSet_eq_of_asc strictTotal_ltNat (asc_contactAtoms P t Y X) (fun z => mem_pairMap_values)]
  simp only [Spec.Contact.pairMap, Spec.Contact.contactAtoms, List.map_map]
  apply List.map_congr_left
  intro q hq
  obtain ⟨hqY, _⟩ := List.mem_filter.mp hq
  simp only [Function.comp, Prod.mk.injEq, true_and, partners]
  rw [List.filter_map, List.map_map, List.filter_filter]
  show List.map (fun x => x.snd) (List.filter (touches P q) (chainAtoms t X)) = _
  have hfun : ((fun x : Nat × List Nat => x.1) ∘ fun p : IRow => (p.2, List.map (fun x => x.snd) (List.filter (touches P p) (chainAtoms t Y))))
      = fun p : IRow => p.2 := rfl
  rw [hfun]
  congr 1
  apply List.filter_congr
  intro p hp
  rw [Bool.eq_iff_iff]
  simp only [Function.comp, Bool.and_eq_true, List.contains_eq_mem, decide_eq_true_eq, List.mem_map, List.mem_filter,
    List.any_eq_true]
  constructor
  · intro h
    have hpq : touches P p q = true := by rw [touches_comm]; exact h
    exact ⟨⟨q, ⟨hqY, hpq⟩, rfl⟩, q, hqY, hpq⟩
  · rintro ⟨⟨q', ⟨hq', hpq'⟩, h2⟩, _⟩
    have : q' = q := pos_inj (chainAtoms_sub hq') (chainAtoms_sub hqY) h2
    subst this
    rw [touches_comm]; exact hpq'

end Proofs.Contacts
