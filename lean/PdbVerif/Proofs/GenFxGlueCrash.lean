/-
  C20 — crash points INSIDE the translated `_create_sql` and `_close` (between isfile / remove / connect, between commit and close,
  between close and remove).  `genf_runT_eq_run` / `genf_crash_atomic` (Proofs/GenFxStore.lean) quantify over crash points BETWEEN
  operations of a scenario (`ops.take k`): a whole `_create_sql` or `_close` is one operation there.  Here the translated program is
  run for its first `n` effectful calls only (`toC20n`, the same clauses as `toC20`), for every `n`, and a fresh reader of the store
  left behind finds what it found before the call, or what it finds after the whole call, or — only between `os.remove(old file)`
  and `sqlite3.connect` of `_create_sql` — no file, which the property counts as "no atoms" (the assumption recorded in c20.py).
-/
import PdbVerif.Proofs.GenFxStore

set_option linter.unusedVariables false
set_option linter.unusedSimpArgs false

namespace Proofs.GenFx
open Py Py.Fx Spec.C20 Model.C20

section
variable {P C Row : Type} [DecidableEq P] {α : Type}

/-- the store after the first `n.length` effectful calls of a program (a process death after that call); the count is a list of units
    so that no numeral arithmetic gets between the proofs and the clauses -/
def toC20n (journal : P → P) : List Unit → Fx.Prog P C α → St P Row → St P Row
  | [], _, s => s
  | _ :: _, .pure _, s => s
  | _ :: _, .raise _, s => s
  | _ :: n, .isfile p f, s => toC20n journal n (f (s.world p).isSome) (note s (.isFile p))
  | _ :: n, .pathExists p f, s => toC20n journal n (f (s.world p).isSome) (note s (.isFile p))
  | _ :: n, .remove p m, s =>
    match s.world p with
    | some _ => toC20n journal n m { s with world := s.world.set p none, trace := s.trace ++ [.remove p] }
    | none => note s (.remove p)
  | _ :: n, .connect (some p) m, s =>
    let w' : Model.C20.World P Row := match s.world p with
      | none => s.world.set p (some (.db none))
      | some _ => s.world
    toC20n journal n m { s with world := w', phase := .live, pending := [], trace := s.trace ++ [.connect p] }
  | _ :: n, .connect none m, s => toC20n journal n m s
  | _ :: n, .cursor _ m, s => toC20n journal n m s
  | _ :: n, .commit (some p) m, s =>
    match s.phase with
    | .live => toC20n journal n m (Model.C20.commit journal p s)
    | _ => s
  | _ :: n, .commit none m, s => toC20n journal n m s
  | _ :: n, .close (some p) m, s =>
    match s.phase with
    | .live => toC20n journal n m (rollbackClose journal p s)
    | _ => toC20n journal n m s
  | _ :: n, .close none m, s => toC20n journal n m s
  | _ :: n, .openw p _ m, s => toC20n journal n m (note s (.shell [p]))
  | _ :: n, .write p _ m, s => toC20n journal n m (note s (.shell [p]))
  | _ :: n, .fclose p m, s => toC20n journal n m (note s (.shell [p]))
  | _ :: n, .mkstemp d _ _ f, s => toC20n journal n (f d) (note s (.shell [d]))
  | _ :: n, .replace a b m, s => toC20n journal n m (note s (.shell [a, b]))
  | _ :: n, .readlines p f, s => toC20n journal n (f []) (note s (.shell [p]))

@[simp] theorem toC20n_pure (journal : P → P) (n : List Unit) (a : α) (s : St P Row) :
    toC20n journal n (Fx.Prog.pure a : Fx.Prog P C α) s = s := by cases n <;> rfl

theorem readBack_set_other (w : Model.C20.World P Row) (p q : P) (v : Option (Model.C20.File Row)) (h : q ≠ p) :
    readBack (w.set q v) p = readBack w p := by
  unfold readBack World.set; simp [Ne.symm h]

theorem readBack_rollbackClose (journal : P → P) (p : P) (hj : journal p ≠ p) (s : St P Row) :
    readBack (rollbackClose journal p s).world p = readBack s.world p := by
  unfold rollbackClose; split
  · rfl
  · exact readBack_set_other _ _ _ _ hj

/-- **every crash point inside `_create_sql`**: old content, or the new empty database, or (between remove and connect) no file -/
theorem genf_crash_inside_create_sql (journal : P → P) (p : P) (self : Fx.Self P) (s : St P Row)
    (hs : self.sqlfile = some p) (hph : s.phase = .fresh) (n : List Unit) :
    let r := readBack (crash (toC20n journal n (GenF._create_sql self : Fx.Prog P C _) s)) p
    r = readBack s.world p ∨ r = readBack (step journal p s .openDb).world p ∨ (r = .noFile ∧ r.noAtoms) := by
  intro r
  have hr : r = readBack (crash (toC20n journal n (GenF._create_sql self : Fx.Prog P C _) s)) p := rfl
  rw [create_sql_nf, hs] at hr
  simp only [step, hph, removeIfFile]
  rcases n with _ | ⟨_, _ | ⟨_, _ | ⟨_, _ | ⟨_, n⟩⟩⟩⟩ <;> cases hw : s.world p <;>
    simp [toC20n, note, crash, hw, World.set, readBack, Read.noAtoms] at hr ⊢ <;> simp [hr]

/-- **every crash point inside `_close(rmdb=False)`** (before the commit, between commit and close, after the close):
    what a reader found before the call, or what it finds after it -/
theorem genf_crash_inside_close_keep (journal : P → P) (p : P) (hj : journal p ≠ p) (self : Fx.Self P) (s : St P Row)
    (hs : self.sqlfile = some p) (hc : self.conn = some ⟨some p⟩) (hph : s.phase = .live) (n : List Unit) :
    let r := readBack (crash (toC20n journal n (GenF._close self false : Fx.Prog P C _) s)) p
    r = readBack s.world p ∨ r = readBack (step journal p s .closeKeep).world p := by
  intro r
  have hr : r = readBack (crash (toC20n journal n (GenF._close self false : Fx.Prog P C _) s)) p := rfl
  rw [close_nf, hc, hs] at hr
  simp only [step, hph]
  rcases n with _ | ⟨_, _ | ⟨_, n⟩⟩
  · left; simpa [toC20n, crash] using hr
  · right; simpa [toC20n, crash, hph] using hr
  · right
    have h2 : (Model.C20.commit journal p s).phase = .live := by rw [commit_phase, hph]
    have h3 : (rollbackClose journal p (Model.C20.commit journal p s)).world = (Model.C20.commit journal p s).world := by
      unfold rollbackClose; simp [commit_pending]
    cases n <;> simpa [toC20n, crash, hph, h2, h3] using hr

/-- **every crash point inside `_close(rmdb=True)`** (before the close, between close and isfile, between isfile and remove, after
    the remove): the committed table as before the call, or no file -/
theorem genf_crash_inside_close_remove (journal : P → P) (p : P) (hj : journal p ≠ p) (self : Fx.Self P) (s : St P Row)
    (hs : self.sqlfile = some p) (hc : self.conn = some ⟨some p⟩) (hph : s.phase = .live) (n : List Unit) :
    let r := readBack (crash (toC20n journal n (GenF._close self true : Fx.Prog P C _) s)) p
    r = readBack s.world p ∨ r = .noFile := by
  intro r
  have hr : r = readBack (crash (toC20n journal n (GenF._close self true : Fx.Prog P C _) s)) p := rfl
  rw [close_nf, hc, hs] at hr
  have hrb := readBack_rollbackClose journal p hj s
  rcases n with _ | ⟨_, _ | ⟨_, _ | ⟨_, n⟩⟩⟩
  · left; simpa [toC20n, crash] using hr
  · left; simpa [toC20n, crash, hph, hrb] using hr
  · left; simpa [toC20n, crash, hph, hrb, note] using hr
  · cases hw : (rollbackClose journal p s).world p with
    | none =>
      left
      have : readBack (rollbackClose journal p s).world p = .noFile := by unfold readBack; rw [hw]
      cases n <;> simp [toC20n, crash, hph, note, hw] at hr <;> rw [hr, ← hrb, this]
    | some v =>
      right
      cases n <;> simp [toC20n, crash, hph, note, hw, readBack, World.set] at hr <;> exact hr

/-- running all the calls is the whole program: `toC20n` with enough fuel is `toC20` (so the three theorems above cover the
    completed call as well) -/
theorem toC20n_create_sql_full (journal : P → P) (p : P) (self : Fx.Self P) (s : St P Row)
    (hs : self.sqlfile = some p) (hph : s.phase = .fresh) :
    toC20n journal [(), (), (), ()] (GenF._create_sql self : Fx.Prog P C _) s = (toC20 journal (GenF._create_sql self : Fx.Prog P C _) s).1 := by
  rw [create_sql_nf, hs]
  cases hw : s.world p <;> simp [toC20n, toC20, note, hw, World.set]

end
end Proofs.GenFx
