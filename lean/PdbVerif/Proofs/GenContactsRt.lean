/-
  Lemmas about the runtime of the translated contact code (Py/Dict.lean): its operations are those of the hand model's
  `Model.Dict` / `sortedSet` / `distinctFirst` / `combinations2`, and generic facts about `List.foldlM` in `Except`
  (the loops of Gen/Contacts.lean) in continuation-passing form, so that they apply by unification to whatever body the
  translator emitted.
-/
import PdbVerif.Gen.Contacts
import PdbVerif.Proofs.ContactsSpec

set_option linter.unusedVariables false
set_option linter.unusedSimpArgs false
set_option linter.unusedSectionVars false

namespace Proofs.GenContacts
open Model Proofs.Contacts

/-! ### the `Except` monad -/

theorem ok_bind {ε α β : Type} (a : α) (f : α → Except ε β) : (Except.ok a >>= f) = f a := rfl
theorem error_bind {ε α β : Type} (e : ε) (f : α → Except ε β) : ((Except.error e : Except ε α) >>= f) = Except.error e := rfl
theorem pure_eq_ok {ε α : Type} (a : α) : (pure a : Except ε α) = Except.ok a := rfl
theorem throw_eq_error {ε α : Type} (e : ε) : (throw e : Except ε α) = Except.error e := rfl
theorem ite_ok {ε α : Type} (c : Prop) [Decidable c] (a b : α) :
    (if c then (Except.ok a : Except ε α) else Except.ok b) = Except.ok (if c then a else b) := by
  by_cases h : c <;> simp [h]
theorem bind_ok_eq {ε α : Type} (x : Except ε α) : (x >>= fun a => Except.ok a) = x := by
  cases x <;> rfl
theorem map_ok {ε α β : Type} (f : α → β) (a : α) : Except.map f (Except.ok a : Except ε α) = Except.ok (f a) := rfl
theorem map_error {ε α β : Type} (f : α → β) (e : ε) : Except.map f (Except.error e : Except ε α) = Except.error e := rfl

/-! ### dictionaries: the runtime's operations are the model's -/

section dict
variable {κ ν : Type} [DecidableEq κ]

theorem contains_eq (d : List (κ × ν)) (k : κ) : Py.Dict.contains d k = Model.Dict.contains d k := by
  induction d with
  | nil => rfl
  | cons e d ih => obtain ⟨k', v'⟩ := e; simp only [Py.Dict.contains, Model.Dict.contains, ih]

theorem get?_eq (d : List (κ × ν)) (k : κ) : Py.Dict.get? d k = Model.Dict.get? d k := by
  induction d with
  | nil => rfl
  | cons e d ih => obtain ⟨k', v'⟩ := e; simp only [Py.Dict.get?, Model.Dict.get?, ih]

theorem setItem_eq (d : List (κ × ν)) (k : κ) (v : ν) : Py.Dict.setItem d k v = Model.Dict.set d k v := by
  induction d with
  | nil => rfl
  | cons e d ih => obtain ⟨k', v'⟩ := e; simp only [Py.Dict.setItem, Model.Dict.set, ih]

theorem setdefault_eq (d : List (κ × ν)) (k : κ) (v : ν) : Py.Dict.setdefault d k v = Model.Dict.setDefault d k v := by
  simp only [Py.Dict.setdefault, Model.Dict.setDefault, contains_eq]

theorem keys_eq (d : List (κ × ν)) : Py.Dict.keys d = Model.Dict.keys d := rfl

/-- `if k not in d: d[k] = v` is `d.setdefault(k, v)` -/
theorem set_if_absent (d : List (κ × ν)) (k : κ) (v : ν) :
    (if (!Model.Dict.contains d k) = true then Model.Dict.set d k v else d) = Model.Dict.setDefault d k v := by
  unfold Model.Dict.setDefault
  induction d with
  | nil => simp [Model.Dict.contains, Model.Dict.set]
  | cons e d ih =>
    obtain ⟨k', v'⟩ := e
    by_cases h : k' = k
    · simp [Model.Dict.contains, h]
    · simp only [Model.Dict.contains, h, if_false, Model.Dict.set]
      by_cases hc : Model.Dict.contains d k = true
      · simp [hc]
      · simp only [hc] at ih ⊢
        simp at ih ⊢
        exact ih

theorem getItem_some {d : List (κ × ν)} {k : κ} {v : ν} (h : Model.Dict.get? d k = some v) : Py.Dict.getItem d k = .ok v := by
  simp only [Py.Dict.getItem, get?_eq, h]

theorem getItem_none {d : List (κ × ν)} {k : κ} (h : Model.Dict.get? d k = none) : Py.Dict.getItem d k = .error .keyError := by
  simp only [Py.Dict.getItem, get?_eq, h]

theorem getItem_of_mem {d : List (κ × List ν)} {k : κ} (h : k ∈ Model.Dict.keys d) :
    Py.Dict.getItem d k = .ok (Model.Dict.getD d k) := getItem_some (get?_eq_getD h)

theorem getItem_of_not_mem {d : List (κ × ν)} {k : κ} (h : k ∉ Model.Dict.keys d) :
    Py.Dict.getItem d k = .error .keyError := getItem_none (get?_none h)

theorem mem_keys_set (d : List (κ × ν)) (k k' : κ) (v : ν) :
    k' ∈ Model.Dict.keys (Model.Dict.set d k v) ↔ k' = k ∨ k' ∈ Model.Dict.keys d := by
  induction d with
  | nil => simp [Model.Dict.set, Model.Dict.keys]
  | cons e d ih =>
    obtain ⟨k₀, v₀⟩ := e
    simp only [Model.Dict.keys] at ih
    by_cases h0 : k₀ = k
    · subst h0; simp [Model.Dict.set, Model.Dict.keys]
    · simp only [Model.Dict.set, h0, if_false, Model.Dict.keys, List.map_cons, List.mem_cons, ih]
      constructor
      · rintro (h | h | h) <;> simp [h]
      · rintro (h | h | h) <;> simp [h]

theorem get?_set (d : List (κ × ν)) (k k' : κ) (v : ν) :
    Model.Dict.get? (Model.Dict.set d k v) k' = if k = k' then some v else Model.Dict.get? d k' := by
  induction d with
  | nil => simp [Model.Dict.set, Model.Dict.get?]
  | cons e d ih =>
    obtain ⟨k₀, v₀⟩ := e
    by_cases h0 : k₀ = k
    · subst h0
      by_cases h : k₀ = k' <;> simp [Model.Dict.set, Model.Dict.get?, h]
    · by_cases h1 : k₀ = k'
      · subst h1
        have : ¬ k = k₀ := fun h => h0 h.symm
        simp [Model.Dict.set, Model.Dict.get?, h0, this]
      · simp [Model.Dict.set, Model.Dict.get?, h0, h1, ih]

/-- `d[k] += l` on a present key is the model's `extend` -/
theorem set_getD_append {d : List (κ × List ν)} {k : κ} (h : k ∈ Model.Dict.keys d) (l : List ν) :
    Model.Dict.set d k (Model.Dict.getD d k ++ l) = Model.Dict.extend d k l := by
  induction d with
  | nil => simp [Model.Dict.keys] at h
  | cons e d ih =>
    obtain ⟨k₀, v₀⟩ := e
    by_cases h0 : k₀ = k
    · simp [Model.Dict.set, Model.Dict.getD, Model.Dict.extend, h0]
    · have hk : k ∈ Model.Dict.keys d := by
        simp only [Model.Dict.keys, List.map_cons, List.mem_cons] at h
        rcases h with h | h
        · exact absurd h.symm h0
        · exact h
      simp [Model.Dict.set, Model.Dict.getD, Model.Dict.extend, h0, ih hk]

theorem mem_keys_setDefault (d : List (κ × ν)) (k k' : κ) (v : ν) :
    k' ∈ Model.Dict.keys (Model.Dict.setDefault d k v) ↔ k' = k ∨ k' ∈ Model.Dict.keys d := by
  unfold Model.Dict.setDefault
  by_cases hc : Model.Dict.contains d k = true
  · simp only [hc, if_true]
    have := contains_iff.mp hc
    constructor
    · exact Or.inr
    · rintro (h | h)
      · exact h ▸ this
      · exact h
  · simp only [hc]
    simp [Model.Dict.keys, or_comm]

theorem mem_keys_extend (d : List (κ × List ν)) (k k' : κ) (l : List ν) :
    k' ∈ Model.Dict.keys (Model.Dict.extend d k l) ↔ k' = k ∨ k' ∈ Model.Dict.keys d := by
  rw [keys_extend]
  by_cases h : k ∈ Model.Dict.keys d
  · simp only [h, if_true]
    constructor
    · exact Or.inr
    · rintro (h' | h')
      · exact h' ▸ h
      · exact h'
  · simp [h, or_comm]

/-- `d.setdefault(k, []).extend(l)` -/
theorem setDefault_set_getD (d : List (κ × List ν)) (k : κ) (l : List ν) :
    Model.Dict.set (Model.Dict.setDefault d k []) k (Model.Dict.getD (Model.Dict.setDefault d k []) k ++ l) = Model.Dict.extend d k l := by
  rw [set_getD_append ((mem_keys_setDefault d k k []).mpr (Or.inl rfl)), setDefault_extend]

end dict

/-! ### lists, sets, sorting -/

theorem set_eq {α : Type} [DecidableEq α] (l : List α) : Py.Rt.set l = distinctFirst l := by
  induction l with
  | nil => rfl
  | cons x xs ih => simp only [Py.Rt.set, distinctFirst, ih]

theorem combinations2_eq {α : Type} (l : List α) : Py.Rt.combinations2 l = combinations2 l := by
  induction l with
  | nil => rfl
  | cons x xs ih => simp only [Py.Rt.combinations2, combinations2, ih]

theorem mem_combinations2_sub {α : Type} {l : List α} {p : α × α} (h : p ∈ combinations2 l) : p.1 ∈ l ∧ p.2 ∈ l := by
  induction l with
  | nil => simp [combinations2] at h
  | cons x xs ih =>
    simp only [combinations2, List.mem_append, List.mem_map] at h
    rcases h with ⟨y, hy, rfl⟩ | h
    · simp [hy]
    · have := ih h
      simp [this.1, this.2]

section sorting
variable {α : Type} [DecidableEq α] [Py.Rt.PyOrd α]

theorem insertSorted_eq_insertAsc {x : α} {l : List α} (h : x ∉ l) :
    Py.Rt.insertSorted x l = insertAsc Py.Rt.PyOrd.lt x l := by
  induction l with
  | nil => rfl
  | cons y ys ih =>
    simp only [List.mem_cons, not_or] at h
    simp only [Py.Rt.insertSorted, insertAsc, h.1, if_false, ih h.2]

theorem foldl_insertSorted (l acc : List α) (hl : l.Nodup) (hd : ∀ z ∈ acc, z ∉ l) :
    l.foldl (fun acc x => Py.Rt.insertSorted x acc) acc = l.foldl (fun acc x => insertAsc Py.Rt.PyOrd.lt x acc) acc := by
  induction l generalizing acc with
  | nil => rfl
  | cons x xs ih =>
    have hx : x ∉ acc := fun hx => hd x hx (List.mem_cons_self ..)
    rw [List.nodup_cons] at hl
    simp only [List.foldl_cons, insertSorted_eq_insertAsc hx]
    apply ih _ hl.2
    intro z hz
    rcases (mem_insertAsc (lt := Py.Rt.PyOrd.lt)).mp hz with rfl | hz
    · exact hl.1
    · exact fun h => hd z hz (List.mem_cons_of_mem _ h)

/-- `sorted(s)` of a duplicate-free list is the model's `sorted(set(·))` -/
theorem sorted_of_nodup {l : List α} (h : l.Nodup) : Py.Rt.sorted l = sortedSet Py.Rt.PyOrd.lt l := by
  unfold Py.Rt.sorted sortedSet
  exact foldl_insertSorted l [] h (by simp)

theorem sorted_set (hlt : StrictTotal (Py.Rt.PyOrd.lt (α := α))) (l : List α) :
    Py.Rt.sorted (Py.Rt.set l) = sortedSet Py.Rt.PyOrd.lt l := by
  rw [set_eq, sorted_of_nodup (nodup_distinctFirst l)]
  exact sortedSet_congr hlt (fun z => mem_distinctFirst)

end sorting

theorem lt_nat_eq : (Py.Rt.PyOrd.lt : Nat → Nat → Bool) = ltNat := rfl
theorem lt_str_eq : (Py.Rt.PyOrd.lt : Py.Str → Py.Str → Bool) = ltStr := rfl
theorem lt_res_eq : (Py.Rt.PyOrd.lt : ResKey → ResKey → Bool) = ltRes := rfl

theorem sorted_set_nat (l : List Nat) : Py.Rt.sorted (Py.Rt.set l) = sortedSet ltNat l :=
  sorted_set (lt_nat_eq ▸ strictTotal_ltNat) l
theorem sorted_set_str (l : List Py.Str) : Py.Rt.sorted (Py.Rt.set l) = sortedSet ltStr l :=
  sorted_set (lt_str_eq ▸ strictTotal_ltStr) l
theorem sorted_set_res (l : List ResKey) : Py.Rt.sorted (Py.Rt.set l) = sortedSet ltRes l :=
  sorted_set (lt_res_eq ▸ strictTotal_ltRes) l

/-! ### loops (`List.foldlM` in `Except`), in continuation-passing form -/

section loops
variable {σ α β : Type}

theorem foldlM_ok_of_inv (f : σ → α → Except Py.Err σ) (g : σ → α → σ) (Inv : σ → Prop) :
    ∀ (xs : List α) (init : σ), Inv init →
      (∀ acc x, Inv acc → x ∈ xs → f acc x = .ok (g acc x) ∧ Inv (g acc x)) →
      xs.foldlM f init = .ok (xs.foldl g init) ∧ Inv (xs.foldl g init) := by
  intro xs
  induction xs with
  | nil => intro init h0 _; exact ⟨rfl, h0⟩
  | cons x xs ih =>
    intro init h0 hstep
    obtain ⟨h1, h2⟩ := hstep init x h0 (List.mem_cons_self ..)
    have := ih (g init x) h2 (fun acc y ha hy => hstep acc y ha (List.mem_cons_of_mem _ hy))
    simp only [List.foldlM_cons, h1, List.foldl_cons]
    exact this

/-- a loop whose body never raises (under the invariant) is the pure fold -/
theorem foldlM_bind_ok {f : σ → α → Except Py.Err σ} {xs : List α} {init : σ} {k : σ → Except Py.Err β} {rhs : Except Py.Err β}
    (g : σ → α → σ) (Inv : σ → Prop) (h0 : Inv init)
    (hstep : ∀ acc x, Inv acc → x ∈ xs → f acc x = .ok (g acc x) ∧ Inv (g acc x))
    (hk : Inv (xs.foldl g init) → k (xs.foldl g init) = rhs) :
    (xs.foldlM f init >>= k) = rhs := by
  obtain ⟨h1, h2⟩ := foldlM_ok_of_inv f g Inv xs init h0 hstep
  rw [h1]
  exact hk h2

theorem foldlM_inv (f : σ → α → Except Py.Err σ) (Inv : List α → σ → Prop) (all : List α) :
    ∀ (xs done : List α) (init : σ), done ++ xs = all → Inv done init →
      (∀ done x acc, Inv done acc → x ∈ all → ∃ acc', f acc x = .ok acc' ∧ Inv (done ++ [x]) acc') →
      ∃ res, xs.foldlM f init = .ok res ∧ Inv all res := by
  intro xs
  induction xs with
  | nil => intro done init hd h0 _; exact ⟨init, rfl, by simpa [← hd] using h0⟩
  | cons x xs ih =>
    intro done init hd h0 hstep
    have hx : x ∈ all := by rw [← hd]; simp
    obtain ⟨acc', h1, h2⟩ := hstep done x init h0 hx
    obtain ⟨res, h3, h4⟩ := ih (done ++ [x]) acc' (by simpa using hd) h2 hstep
    exact ⟨res, by simp only [List.foldlM_cons, h1]; exact h3, h4⟩

/-- a loop that establishes, step by step, a fact about the elements processed so far -/
theorem foldlM_bind_inv {f : σ → α → Except Py.Err σ} {xs : List α} {init : σ} {k : σ → Except Py.Err β} {rhs : Except Py.Err β}
    (Inv : List α → σ → Prop) (h0 : Inv [] init)
    (hstep : ∀ done x acc, Inv done acc → x ∈ xs → ∃ acc', f acc x = .ok acc' ∧ Inv (done ++ [x]) acc')
    (hk : ∀ res, Inv xs res → k res = rhs) :
    (xs.foldlM f init >>= k) = rhs := by
  obtain ⟨res, h1, h2⟩ := foldlM_inv f Inv xs xs [] init rfl h0 hstep
  rw [h1]
  exact hk res h2

/-- a loop that only checks: `for x in xs: if p(x): raise e` -/
theorem foldlM_bind_guard {f : Unit → α → Except Py.Err Unit} {xs : List α} {u : Unit} {k : Unit → Except Py.Err β} {rhs : Except Py.Err β}
    (p : α → Bool) (e : Py.Err) (h : ∀ x u, f u x = if p x = true then .error e else .ok ())
    (hk : (if xs.any p = true then .error e else k ()) = rhs) :
    (xs.foldlM f u >>= k) = rhs := by
  subst hk
  induction xs with
  | nil => rfl
  | cons x xs ih =>
    simp only [List.foldlM_cons, h, List.any_cons, Bool.or_eq_true]
    by_cases hp : p x = true
    · simp only [hp, if_true, true_or]; rfl
    · have hp' : p x = false := by simpa using hp
      simp only [hp', false_or, Bool.false_eq_true, if_false]
      exact ih

theorem foldlM_congr {f f' : σ → α → Except Py.Err σ} (h : ∀ acc x, f acc x = f' acc x) (xs : List α) (init : σ) :
    xs.foldlM f init = xs.foldlM f' init := by
  have : f = f' := funext fun a => funext fun x => h a x
  rw [this]

theorem foldlM_bind_congr {f : σ → α → Except Py.Err σ} {xs : List α} {init : σ} {k : σ → Except Py.Err β} {rhs : Except Py.Err β}
    (f' : σ → α → Except Py.Err σ) (h : ∀ acc x, f acc x = f' acc x) (hk : (xs.foldlM f' init >>= k) = rhs) :
    (xs.foldlM f init >>= k) = rhs := by
  rw [foldlM_congr h]; exact hk

theorem enumerate_map {ρ γ : Type} (rows : List ρ) (c : ρ → γ) :
    Py.Rt.enumerate (rows.map c) = rows.zipIdx.map (fun p => (p.2, c p.1)) := by
  simp only [Py.Rt.enumerate, List.zipIdx_map, List.map_map]
  rfl

/-- `for i, x in enumerate(rows.map c)`: the body is examined for the row `r` at position `i` -/
theorem foldlM_enumerate_bind_ok {ρ γ : Type} {f : σ → Nat × γ → Except Py.Err σ} {rows : List ρ} {c : ρ → γ} {init : σ}
    {k : σ → Except Py.Err β} {rhs : Except Py.Err β}
    (G : σ → ρ → σ) (Inv : σ → Prop) (h0 : Inv init)
    (hstep : ∀ acc i r, Inv acc → rows[i]? = some r → f acc (i, c r) = .ok (G acc r) ∧ Inv (G acc r))
    (hk : Inv (rows.foldl G init) → k (rows.foldl G init) = rhs) :
    ((Py.Rt.enumerate (rows.map c)).foldlM f init >>= k) = rhs := by
  rw [enumerate_map, List.foldlM_map]
  have hfold : rows.zipIdx.foldl (fun acc p => G acc p.1) init = rows.foldl G init := by
    have := List.foldl_map (f := Prod.fst) (g := G) (l := rows.zipIdx) (init := init)
    rw [List.zipIdx_map_fst] at this
    exact this.symm
  refine foldlM_bind_ok (fun acc p => G acc p.1) Inv h0 ?_ ?_
  · intro acc p ha hp
    exact hstep acc p.2 p.1 ha (List.mem_zipIdx_iff_getElem?.mp hp)
  · rw [hfold]; exact hk

end loops

/-! ### list indexing, comprehensions, `np.where` -/

theorem getItem_of_getElem? {α : Type} {l : List α} {i : Nat} {x : α} (h : l[i]? = some x) : Py.Rt.getItem l i = .ok x := by
  simp only [Py.Rt.getItem, h]

theorem getItem_map {ρ α : Type} {l : List ρ} {i : Nat} {r : ρ} (f : ρ → α) (h : l[i]? = some r) :
    Py.Rt.getItem (l.map f) i = .ok (f r) :=
  getItem_of_getElem? (by simp [h])

theorem where0_map {ρ : Type} (rows : List ρ) (p : ρ → Bool) :
    Py.Np.where0 (rows.map p) = (rows.zipIdx.filter (fun q => p q.1)).map (fun q => q.2) := by
  simp only [Py.Np.where0, List.zipIdx_map, List.filter_map, List.map_map]
  rfl

theorem filterMapM_aux {ρ β : Type} (p : ρ → Bool) (f : Nat → Except Py.Err (Option β)) (F : ρ → Option β) :
    ∀ l : List (ρ × Nat), (∀ q ∈ l, f q.2 = .ok (F q.1)) →
      Py.Rt.filterMapM f ((l.filter (fun q => p q.1)).map (fun q => q.2)) = .ok (((l.map (fun q => q.1)).filter p).filterMap F) := by
  intro l
  induction l with
  | nil => intro _; rfl
  | cons q l ih =>
    intro h
    have hq := h q (List.mem_cons_self ..)
    have ih' := ih (fun q' hq' => h q' (List.mem_cons_of_mem _ hq'))
    by_cases hp : p q.1 = true
    · simp only [List.filter_cons, hp, if_true, List.map_cons, Py.Rt.filterMapM, hq, ih', List.filterMap_cons]
      cases F q.1 <;> rfl
    · simp only [List.filter_cons, hp, List.map_cons]
      exact ih'

/-- `[e(k) for k in np.where(mask)[0] if c(k)]` where mask, `c`, `e` are row-wise functions of a list of rows -/
theorem filterMapM_where0 {ρ β : Type} (rows : List ρ) (p : ρ → Bool) (f : Nat → Except Py.Err (Option β)) (F : ρ → Option β)
    (h : ∀ k r, rows[k]? = some r → f k = .ok (F r)) :
    Py.Rt.filterMapM f (Py.Np.where0 (rows.map p)) = .ok ((rows.filter p).filterMap F) := by
  rw [where0_map, filterMapM_aux p f F rows.zipIdx (fun q hq => h q.2 q.1 (List.mem_zipIdx_iff_getElem?.mp hq))]
  rw [show (List.map (fun q => q.1) rows.zipIdx) = rows from List.zipIdx_map_fst 0 rows]

theorem length_where0_map {ρ : Type} (rows : List ρ) (p : ρ → Bool) :
    (Py.Np.where0 (rows.map p)).length = (rows.filter p).length := by
  rw [where0_map, List.length_map]
  have : rows.filter p = (rows.zipIdx.filter (fun q => p q.1)).map (fun q => q.1) := by
    have h1 : (rows.zipIdx.filter (fun q => p q.1)).map (fun q => q.1) = (rows.zipIdx.map (fun q => q.1)).filter p := by
      rw [List.filter_map]; rfl
    rw [h1, show rows.zipIdx.map (fun q => q.1) = rows from List.zipIdx_map_fst 0 rows]
  rw [this, List.length_map]

theorem filterMap_ite {ρ β : Type} (l : List ρ) (c : ρ → Bool) (g : ρ → β) :
    l.filterMap (fun r => if c r = true then some (g r) else none) = (l.filter c).map g := by
  induction l with
  | nil => rfl
  | cons x xs ih =>
    by_cases h : c x = true <;> simp [List.filterMap_cons, List.filter_cons, h, ih]

theorem foldl_append_flatMap {α β : Type} (l : List α) (F : α → List β) (init : List β) :
    l.foldl (fun acc x => acc ++ F x) init = init ++ l.flatMap F := by
  induction l generalizing init with
  | nil => simp
  | cons x xs ih => simp [ih, List.flatMap_cons, List.append_assoc]

/-! ### the table accessor -/

theorem select_eq {β : Type} (t : List Py.Atom) (cond : Py.Tbl.IRow → Bool) (proj : Py.Tbl.IRow → β) :
    Py.Tbl.select t cond proj = (t.zipIdx.filter cond).map proj := rfl

theorem select_all_chainID (t : List Py.Atom) :
    Py.Tbl.select t (fun _ => true) (fun r => r.1.chainID) = t.map (·.chainID) := by
  have h1 : t.zipIdx.filter (fun _ => true) = t.zipIdx := List.filter_eq_self.mpr (fun _ _ => rfl)
  have h2 := List.zipIdx_map_fst 0 t
  simp only [Py.Tbl.select, h1]
  conv => rhs; rw [← h2, List.map_map]
  rfl


end Proofs.GenContacts
