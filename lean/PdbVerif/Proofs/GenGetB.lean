/-
  The loops of the translated `get` (Gen/Get.lean) against the pieces of the hand model `Model.getF` (Model/Table.lean):
  column validation = `validCols`, the per-model loop = `modelLoop`, the loop over the keywords = the translated fragment
  `GenSql.get_cond` (whose closed form is `SqlProofs.condStep`) plus the chunked branch.
-/
import PdbVerif.Proofs.GenGetA

set_option linter.unusedVariables false
set_option linter.unusedSimpArgs false

namespace GenGetProofs
open Tbl Model MicroSql GenSql SqlProofs GenG

/-! ### the body of the loop over `kwargs.items()` -/

/-- the `neg` of the source: `' NOT'` or `''` -/
def negStr (k : Py.Str) : Py.Str := if Py.startsWith k ['n', 'o', '_'] = true then [' ', 'N', 'O', 'T'] else []

/-- **normal form of the translated loop body**: it is the fragment `GenSql.get_cond` (the unit the theorems of Proofs/Sql*.lean
    are about) on the loop-carried `vals`, `conditions`; where that fragment leaves through the over-long list, the chunked
    branch runs -/
theorem get_for_k_v_nf (sg : SelfGet) (db : Db) (c tn : Py.Str) (kw : List Kw) (it : Int × (Py.Str × Arg))
    (st : Py.Str × (List Val) × (List Py.Str)) :
    get_for_k_v sg db c tn kw it st =
      (match get_cond it.2.1 it.2.2 st.2.1 st.2.2 with
       | .error e => .error (errOf e)
       | .ok (.cont s) => .ok (.cont (st.1, s.1, s.2))
       | .ok (.ret ()) =>
         match get_for_k_v_if_chunck_size sg db c tn kw it.2.2.vals st.1 it.2.1 (negStr it.2.1) (Rt.len it.2.2.vals) with
         | .error e => .error e
         | .ok r => .ok (.ret r)) := by
  obtain ⟨i, k, v⟩ := it
  obtain ⟨q, vals, conds⟩ := st
  unfold get_for_k_v get_cond negStr
  by_cases hp : Py.startsWith k ['n', 'o', '_'] = true
  · cases v with
    | list vs =>
      by_cases hl : Rt.len vs > (Gen.max_sql_values : Int)
      · simp only [hp, hl, if_true, Arg.vals, bind, Except.bind, pure, Except.pure]
        cases get_for_k_v_if_chunck_size sg db c tn kw vs q k _ _ <;> rfl
      · by_cases hr : Py.sliceFrom k 3 = ['r', 'o', 'w', 'I', 'D']
        · simp only [hp, hl, hr, if_true, if_false, Arg.vals, bind, Except.bind, pure, Except.pure, py_eq]
          generalize (List.mapM _ vs : Except GErr (List Int)) = m
          cases m <;> rfl
        · simp [hp, hl, hr, bind, Except.bind, pure, Except.pure, py_eq]
    | scalar x =>
      by_cases hr : Py.sliceFrom k 3 = ['r', 'o', 'w', 'I', 'D']
      · simp only [hp, hr, if_true, if_false, bind, Except.bind, pure, Except.pure, py_eq]
        cases h1 : Rt.addInt x 1 with
        | error e => rfl
        | ok t => simp only [Except.mapError]; cases h2 : Rt.int t <;> rfl
      · simp [hp, hr, bind, Except.bind, pure, Except.pure, py_eq]
  · cases v with
    | list vs =>
      by_cases hl : Rt.len vs > (Gen.max_sql_values : Int)
      · simp only [hp, hl, if_true, if_false, Bool.false_eq_true, Arg.vals, bind, Except.bind, pure, Except.pure]
        cases get_for_k_v_if_chunck_size sg db c tn kw vs q k _ _ <;> rfl
      · by_cases hr : k = ['r', 'o', 'w', 'I', 'D']
        · simp only [hp, hl, hr, if_true, if_false, Bool.false_eq_true, Arg.vals, bind, Except.bind, pure, Except.pure, py_eq]
          generalize (List.mapM _ vs : Except GErr (List Int)) = m
          cases m <;> rfl
        · simp [hp, hl, hr, bind, Except.bind, pure, Except.pure, py_eq]
    | scalar x =>
      by_cases hr : k = ['r', 'o', 'w', 'I', 'D']
      · simp only [hp, hr, if_true, if_false, Bool.false_eq_true, bind, Except.bind, pure, Except.pure, py_eq]
        cases h1 : Rt.addInt x 1 with
        | error e => rfl
        | ok t => simp only [Except.mapError]; cases h2 : Rt.int t <;> rfl
      · simp [hp, hr, bind, Except.bind, pure, Except.pure, py_eq]

/-! ### the loop over the keywords when no list is over-long -/

/-- with no over-long list the translated loop of `get` is the translated fragment's loop: the conditions and values of
    `SqlProofs.specsOf`, the query head carried along unchanged -/
theorem loop_short (sg : SelfGet) (db : Db) (c tn : Py.Str) (kw0 : List Kw) (q : Py.Str) : ∀ (kw : List Kw) (i : Nat)
    (vals : List Val) (conds : List Py.Str), NoLong kw →
    E.forIn (((Rt.items kw).zipIdx i).map (fun p => (((p.2 : Nat) : Int), p.1))) (q, vals, conds)
        (fun it_ st_ => get_for_k_v sg db c tn kw0 it_ st_) =
      (match specsOf kw with
       | .error e => .error (errOf e)
       | .ok none => .error .fuel
       | .ok (some ss) => .ok (.cont (q, vals ++ ss.flatMap (·.vals), conds ++ ss.map CondSpec.text)))
  | [], i, vals, conds, _ => by simp [Rt.items, E.forIn, specsOf]
  | k :: rest, i, vals, conds, hnl => by
    have hl' : isLong k.arg = false := hnl k (by simp)
    have ih := loop_short sg db c tn kw0 q rest (i + 1)
    simp only [Rt.items, List.map_cons, List.zipIdx_cons, E.forIn, get_for_k_v_nf, get_cond_nf, specsOf, hl', if_false,
      Bool.false_eq_true]
    cases hg : genVals (stripNo k.key).2 k.arg with
    | error e => rw [condStep_err _ _ _ _ hl' e hg]
    | ok t =>
      rw [condStep_ok _ _ _ _ hl' t hg]
      simp only []
      have := ih (vals ++ t) (conds ++ [condText (stripNo k.key).2 (stripNo k.key).1 t.length]) (fun x hx => hnl x (by simp [hx]))
      simp only [Rt.items, get_for_k_v_nf, get_cond_nf] at this
      rw [this]
      cases specsOf rest with
      | error e => rfl
      | ok o =>
        cases o with
        | none => rfl
        | some ss => simp [CondSpec.text]

/-! ### the column validation -/

theorem star_lit : ("*".toList : Py.Str) = ['*'] := rfl

theorem validate_eq (sg : SelfGet) (db : Db) (columns : Py.Str) :
    E.unit (if columns ≠ ['*'] then
        (E.forM (Py.splitOn ',' columns) () (fun it_ st_ => get_for_i sg db (E.get_colnames db) it_ st_)).bind (fun _ => pure ())
      else pure ()) = if validCols db columns = true then .ok () else .error .valueError := by
  have hb : (fun (it_ : Py.Str) (st_ : Unit) => get_for_i sg db (E.get_colnames db) it_ st_) =
      (fun it _ => if (fun i => db.colnames.contains (Py.strip i)) it = true then .ok () else .error .valueError) := by
    funext it_ st_; rw [get_for_i_nf]; rfl
  rw [hb, forM_guard]
  unfold validCols E.unit
  rw [star_lit]
  by_cases hs : columns = ['*']
  · simp [hs, pure, Except.pure]
  · by_cases ha : (Py.splitOn ',' columns).all (fun i => db.colnames.contains (Py.strip i)) = true
    · simp only [hs, ha, if_true, ne_eq, not_false_eq_true, decide_false, Bool.false_or, Except.bind]; rfl
    · simp only [hs, ha, if_false, ne_eq, not_false_eq_true, if_true, decide_false, Bool.false_or, Except.bind]; rfl

/-! ### the per-model dispatch -/

theorem modelLit_eq : modelLit = modelKey := rfl

theorem dispatch_iff (db : Db) (kw : List Kw) :
    ((['m', 'o', 'd', 'e', 'l'] : Py.Str) ∉ E.keys kw ∧ E.nModel db > 0) ↔ (!hasModelKey kw && decide (db.nModel > 0)) = true := by
  have : (['m', 'o', 'd', 'e', 'l'] : Py.Str) = modelKey := rfl
  rw [this]
  simp only [E.keys, E.nModel, hasModelKey, Bool.and_eq_true, Bool.not_eq_true', decide_eq_true_eq, List.mem_map, not_exists, not_and]
  constructor
  · rintro ⟨h1, h2⟩
    refine ⟨?_, by omega⟩
    rw [List.any_eq_false]
    intro x hx; simpa using h1 x hx
  · rintro ⟨h1, h2⟩
    refine ⟨?_, by omega⟩
    intro x hx
    have := (List.any_eq_false.1 h1) x hx
    simpa using this

theorem setKw_absent (key : Py.Str) (a : Arg) : ∀ (kw : List Kw), key ∉ E.keys kw → E.setKw kw key a = kw ++ [⟨key, a⟩]
  | [], _ => rfl
  | k :: rest, h => by
    have h1 : k.key ≠ key := by intro e; apply h; simp [E.keys, e]
    have h2 : key ∉ E.keys rest := by intro e; apply h; simp only [E.keys, List.map_cons, List.mem_cons]; exact Or.inr e
    simp [E.setKw, h1, setKw_absent key a rest h2]

theorem setKw_last (key : Py.Str) (a b : Arg) : ∀ (kw : List Kw), key ∉ E.keys kw → E.setKw (kw ++ [⟨key, b⟩]) key a = kw ++ [⟨key, a⟩]
  | [], _ => by simp [E.setKw]
  | k :: rest, h => by
    have h1 : k.key ≠ key := by intro e; apply h; simp [E.keys, e]
    have h2 : key ∉ E.keys rest := by intro e; apply h; simp only [E.keys, List.map_cons, List.mem_cons]; exact Or.inr e
    simp [E.setKw, h1, setKw_last key a b rest h2]

/-- the translated per-model loop = `Model.modelLoop`, given what the recursive calls answer -/
theorem modelLoop_eq (sg : SelfGet) (recM : List Kw → Except Model.Err Model.Result) (db : Db) (columns tn : Py.Str) (kw : List Kw)
    (hnot : modelKey ∉ E.keys kw)
    (hrec : ∀ m : Nat, sg columns tn (kw ++ [⟨modelKey, .scalar (.int m)⟩]) = recM (kw ++ [⟨modelKey, .scalar (.int m)⟩])) :
    ∀ (ms : List Nat) (kwS : List Kw) (acc : List (List Item)), (∀ a, E.setKw kwS modelKey a = kw ++ [⟨modelKey, a⟩]) →
      (match E.forM (ms.map (fun (k : Nat) => (k : Int))) (kwS, acc)
          (fun it_ st_ => get_if_model_data_for_iModel sg db columns tn it_ st_) with
       | .error e => Except.error e
       | .ok st => Except.ok st.2 : Except Model.Err (List (List Item))) =
      (match modelLoop recM kw ms with
       | .error e => Except.error e
       | .ok ds => Except.ok (acc ++ ds))
  | [], kwS, acc, _ => by simp [E.forM, modelLoop]
  | m :: ms, kwS, acc, hinv => by
    simp only [List.map_cons, E.forM, get_if_model_data_for_iModel_nf, modelLit_eq, hinv, hrec, modelLoop]
    cases recM (kw ++ [⟨modelKey, .scalar (.int m)⟩]) with
    | error e => rfl
    | ok r =>
      simp only []
      have hd : E.asData r = asData r := by cases r <;> rfl
      rw [hd]
      cases asData r with
      | error e => rfl
      | ok d =>
        simp only []
        have := modelLoop_eq sg recM db columns tn kw hnot hrec ms (kw ++ [⟨modelKey, .scalar (.int m)⟩]) (acc ++ [d])
          (fun a => setKw_last modelKey a _ kw hnot)
        simp only [get_if_model_data_for_iModel_nf, modelLit_eq] at this
        rw [this]
        cases modelLoop recM kw ms <;> simp

end GenGetProofs
