/-
  `add_column`: the ALTER TABLE text of the translated builder parses to the statement MicroSql executes as
  `Model.addColumn` (Python's `str` is a parameter: its contract is that SQLite reads the literal back as the value).
-/
import PdbVerif.Proofs.SqlUpdate

set_option linter.unusedVariables false
set_option linter.unusedSimpArgs false

namespace SqlProofs
open Tbl Model MicroSql GenSql

/-! ### `add_column`: the ALTER TABLE text -/

theorem tok_quoted (s : Py.Str) : ∀ (acc cur rest : Py.Str), NoQuote s →
    tok (s ++ quote :: rest) cur (some acc) = .quoted (acc.reverse ++ s) :: tok rest [] none := by
  induction s with
  | nil => intro acc cur rest _; simp [tok]
  | cons c s ih =>
    intro acc cur rest h
    have hc : c ≠ quote := h c (by simp)
    rw [List.cons_append, tok]
    simp only [hc, beq_iff_eq, if_false]
    rw [ih (c :: acc) cur rest (fun x hx => h x (by simp [hx]))]
    simp

theorem tokenize_quoted (s rest : Py.Str) (h : NoQuote s) : tokenize (quote :: (s ++ quote :: rest)) = .quoted s :: tokenize rest := by
  unfold tokenize
  rw [tok]
  simp only [beq_self_eq_true, if_true, flush, List.isEmpty_nil]
  rw [tok_quoted s [] [] rest h]; rfl

/-- `"ALTER TABLE %s ADD COLUMN '%s' %s DEFAULT %s"` -/
def alterText (tn colname coltype lit : Py.Str) : Py.Str :=
  ['A', 'L', 'T', 'E', 'R', ' ', 'T', 'A', 'B', 'L', 'E', ' '] ++ tn ++ [' ', 'A', 'D', 'D', ' ', 'C', 'O', 'L', 'U', 'M', 'N', ' ', '\''] ++
    colname ++ ['\'', ' '] ++ coltype ++ [' ', 'D', 'E', 'F', 'A', 'U', 'L', 'T', ' '] ++ lit

theorem add_column_exec_nf (str : Val → Py.Str) (colname coltype : Py.Str) (value : Val) (tn : Py.Str) :
    add_column_exec str colname coltype value tn = alterText tn colname coltype (str value) := rfl

/-- a word of the text that is not an identifier position: non-empty, no blank, no punctuation, no quote -/
def IsWord (w : Py.Str) : Prop := w ≠ [] ∧ WordChars w

theorem parse_alterText (tn colname coltype lit : Py.Str) (ht : isName tn = true) (hn : NoQuote colname)
    (hty : IsWord coltype) (hlit : IsWord lit) :
    parse (alterText tn colname coltype lit) = .ok (.addColumn tn colname coltype lit) := by
  have htok : tokenize (alterText tn colname coltype lit) =
      [.word ['A', 'L', 'T', 'E', 'R'], .word ['T', 'A', 'B', 'L', 'E'], .word tn, .word ['A', 'D', 'D'],
       .word ['C', 'O', 'L', 'U', 'M', 'N'], .quoted colname, .word coltype, .word ['D', 'E', 'F', 'A', 'U', 'L', 'T'], .word lit] := by
    unfold alterText
    simp only [List.append_assoc]
    show tokenize (['A', 'L', 'T', 'E', 'R'] ++ ' ' :: (['T', 'A', 'B', 'L', 'E'] ++ ' ' :: (tn ++ ' ' :: (['A', 'D', 'D'] ++ ' ' ::
      (['C', 'O', 'L', 'U', 'M', 'N'] ++ ' ' :: (quote :: (colname ++ quote :: ' ' :: (coltype ++ ' ' ::
        (['D', 'E', 'F', 'A', 'U', 'L', 'T'] ++ ' ' :: lit))))))))) = _
    rw [tokenize_append_space _ _ (by decide), tokenize_append_space _ _ (by decide), tokenize_append_space tn _ (name_noQuote tn ht),
      tokenize_append_space _ _ (by decide), tokenize_append_space _ _ (by decide), tokenize_quoted colname _ hn, tokenize_space,
      tokenize_append_space coltype _ (wordChars_noQuote hty.2), tokenize_append_space _ _ (by decide),
      tokenize_name tn ht, tokenize_word coltype hty.1 hty.2, tokenize_word lit hlit.1 hlit.2]
    rfl
  unfold parse
  rw [htok]
  simp only [show isKw "select" ['A', 'L', 'T', 'E', 'R'] = false from by decide,
    show isKw "update" ['A', 'L', 'T', 'E', 'R'] = false from by decide, show isKw "alter" ['A', 'L', 'T', 'E', 'R'] = true from by decide,
    if_true, Bool.false_eq_true, if_false, parseAlter,
    show isKw "table" ['T', 'A', 'B', 'L', 'E'] = true from by decide, show isKw "add" ['A', 'D', 'D'] = true from by decide,
    show isKw "column" ['C', 'O', 'L', 'U', 'M', 'N'] = true from by decide,
    show isKw "default" ['D', 'E', 'F', 'A', 'U', 'L', 'T'] = true from by decide, Bool.and_self, ident_ok tn ht, bind, Except.bind,
    pure, Except.pure]

/-- **`add_column` = MicroSql on the translated text**, for every way `str` renders the value as a literal that
    SQLite reads back as that value (`litVal (str value) = some value`: Python's `str` of an int, of a float — `repr`
    round-trips —, of a bare word) -/
theorem addColumn_eq_sql (db : Db) (str : Val → Py.Str) (colname coltype : Py.Str) (value : Val) (tn : Py.Str)
    (ht : isName tn = true) (hn : NoQuote colname) (hty : IsWord coltype) (hlit : IsWord (str value))
    (hval : litVal (str value) = some value) :
    execAlter db (add_column_exec str colname coltype value tn) = Model.addColumn db colname coltype value tn := by
  rw [add_column_exec_nf]
  unfold execAlter
  rw [parse_alterText tn colname coltype (str value) ht hn hty hlit]
  simp only [hval]

end SqlProofs
