/-
  Helper lemmas for C07 / C11 (cluster E), part 2: the zone dictionaries; which residues `compute_izone` and
  `compute_lzone` list.  Uses cluster C's characterisation of `get_contact_atoms` (Proofs/Contacts*.lean).
  Helper lemmas only.
-/
import PdbVerif.Proofs.RmsdBasic

set_option linter.unusedVariables false
set_option linter.unusedSimpArgs false
set_option linter.unusedSectionVars false

namespace Proofs.Rmsd
open Model Model.Rmsd Py Proofs.Contacts

/-! ### the dictionary built from the residue list -/

theorem zoneOfResidues_eq (l : List (Str × Int)) :
    zoneOfResidues l = applyEvents [] (l.map (fun r => (r.1, [r.2]))) := by
  unfold zoneOfResidues applyEvents
  rw [List.foldl_map]
  congr 1
  funext d r
  exact setDefault_extend d r.1 [r.2]

theorem zone_has_iff (l : List (Str × Int)) (ch : Str) (rs : Int) :
    Zone.has (zoneOfResidues l) ch rs = true ↔ (ch, rs) ∈ l := by
  unfold Zone.has
  rw [zoneOfResidues_eq, getD_applyEvents]
  simp only [Dict.getD, List.nil_append, List.contains_eq_mem, decide_eq_true_eq, eventsOf, List.mem_flatMap,
    List.mem_filter, List.mem_map]
  constructor
  · rintro ⟨e, ⟨⟨r, hr, rfl⟩, hk⟩, hrs⟩
    obtain ⟨r1, r2⟩ := r
    simp only at hk hrs
    simp only [List.mem_cons, List.not_mem_nil, or_false] at hrs
    subst hk; subst hrs; exact hr
  · intro h
    exact ⟨(ch, [rs]), ⟨⟨(ch, rs), h, rfl⟩, rfl⟩, by simp⟩

theorem zone_contains_iff (l : List (Str × Int)) (ch : Str) :
    (zoneOfResidues l).contains ch = true ↔ ∃ rs, (ch, rs) ∈ l := by
  rw [contains_iff, zoneOfResidues_eq, mem_keys_applyEvents]
  simp only [Dict.keys, List.map_nil, List.not_mem_nil, false_or, List.mem_map]
  constructor
  · rintro ⟨e, ⟨r, hr, rfl⟩, hk⟩
    obtain ⟨r1, r2⟩ := r
    simp only at hk; subst hk
    exact ⟨r2, hr⟩
  · rintro ⟨rs, h⟩
    exact ⟨(ch, [rs]), ⟨(ch, rs), h, rfl⟩, rfl⟩

/-- the test of the zone helpers on one key: the chain is a key of the zone and the residue number is listed -/
def inZone (z : Zone) (k : Key) : Bool := z.contains k.1 && z.has k.1 k.2.1

theorem inZone_iff (l : List (Str × Int)) (k : Key) : inZone (zoneOfResidues l) k = true ↔ (k.1, k.2.1) ∈ l := by
  unfold inZone
  rw [Bool.and_eq_true, zone_contains_iff, zone_has_iff]
  constructor
  · exact fun h => h.2
  · exact fun h => ⟨⟨_, h⟩, h⟩

/-! ### the residues listed by `compute_izone` -/

open Spec.Contact (Params passes near touches chainAtoms)

theorem getChains_two {t : List Atom} {c0 c1 : Str} (h : getChains t = [c0, c1]) :
    c0 ≠ c1 ∧ c0 ∈ getChains t ∧ c1 ∈ getChains t ∧ ∀ x ∈ t, x.chainID = c0 ∨ x.chainID = c1 := by
  have hasc := asc_getChains t
  rw [h] at hasc
  have hnd := asc_nodup strictTotal_ltStr hasc
  refine ⟨?_, by simp [h], by simp [h], ?_⟩
  · intro e; subst e; simp at hnd
  · intro x hx
    have : x.chainID ∈ getChains t := mem_getChains.mpr ⟨x, hx, rfl⟩
    rw [h] at this
    simpa using this

theorem izone_passes (c : Rat) (c0 c1 : Str) (x : Atom) : passes (params (izoneArgs c c0 c1)) x = true := by
  simp [passes, params, izoneArgs, Gen.izone_only_backbone, Gen.izone_excludeH]

theorem izone_touches (c : Rat) (c0 c1 : Str) (p q : IRow) :
    touches (params (izoneArgs c c0 c1)) p q = withinCutoff c q.1 p.1 := by
  have := withinCutoff_eq (izoneArgs c c0 c1) q.1 p.1
  simp only [touches, izone_passes, Bool.true_and]
  rw [show (izoneArgs c c0 c1).cutoff = c from rfl] at this
  exact this.symm

/-- the rows `compute_izone` / `compute_irmsd_pdb2sql` select: the backbone atoms of the residues that own an atom within
    the cutoff of an atom of the other chain -/
theorem izone_rows {t : List Atom} {c : Rat} {c0 c1 : Str} (h : getChains t = [c0, c1]) :
    ∃ d, contactSets t (izoneArgs c c0 c1) = .ok d ∧ ∀ r : IRow, r ∈ backboneRowsAt t (flattenContacts d) ↔
      r ∈ t.zipIdx ∧ r.1.name ∈ backbone ∧
        ∃ y ∈ t, resKey y = resKey r.1 ∧ ∃ q ∈ t, q.chainID ≠ y.chainID ∧ withinCutoff c q y = true := by
  obtain ⟨hne, h0, h1, hall⟩ := getChains_two h
  have hrun := contactRun_two_chain' t (izoneArgs c c0 c1) rfl hne h0 h1
  simp only [contactSets, hrun, Except.map]
  refine ⟨_, rfl, ?_⟩
  rintro ⟨xa, i⟩
  simp only [backboneRowsAt, List.mem_filter, rowsAt, flattenContacts,
    List.flatMap_cons, List.flatMap_nil, List.append_nil, List.contains_eq_mem, decide_eq_true_eq, List.mem_append]
  have hext : ∀ l, extendIf (izoneArgs c c0 c1) t l = Spec.Contact.extension backbone t l false := by
    intro l
    simp [extendIf, izoneArgs, Gen.izone_extend_to_residue, Gen.izone_only_backbone, extendToResidue_eq]
  simp only [hext, mem_extension, mem_contactAtoms, izone_touches, mem_chainAtoms]
  have hc1 : (izoneArgs c c0 c1).chain1 = c0 := rfl
  have hc2 : (izoneArgs c c0 c1).chain2 = c1 := rfl
  simp only [hc1, hc2]
  constructor
  · rintro ⟨⟨hai, hdisj⟩, hbb⟩
    have hxi : t[i]? = some xa := List.mem_zipIdx_iff_getElem?.mp hai
    refine ⟨hai, hbb, ?_⟩
    rcases hdisj with ⟨x, hx, ⟨s, ⟨⟨p, sp⟩, ⟨hp, hpc⟩, hps, ⟨q, qi⟩, ⟨hq, hqc⟩, hw⟩, y, hy, hres⟩, _⟩ |
                     ⟨x, hx, ⟨s, ⟨⟨p, sp⟩, ⟨hp, hpc⟩, hps, ⟨q, qi⟩, ⟨hq, hqc⟩, hw⟩, y, hy, hres⟩, _⟩
    all_goals
      simp only at hx hps hpc hqc hw
      subst hps
      have hp' := List.mem_zipIdx_iff_getElem?.mp hp
      rw [hp'] at hy; cases hy
      rw [hxi] at hx; cases hx
      refine ⟨p, List.mem_of_getElem? hp', hres, q, List.mem_of_getElem? (List.mem_zipIdx_iff_getElem?.mp hq), ?_, hw⟩
      rw [hpc, hqc]
    · exact fun e => hne e.symm
    · exact hne
  · rintro ⟨hai, hbb, y, hy, hres, q, hq, hqc, hw⟩
    have hi : t[i]? = some xa := List.mem_zipIdx_iff_getElem?.mp hai
    obtain ⟨s, hs⟩ := List.mem_iff_getElem?.mp hy
    obtain ⟨j, hj⟩ := List.mem_iff_getElem?.mp hq
    refine ⟨⟨hai, ?_⟩, hbb⟩
    rcases hall y hy with hyc | hyc
    · have hqc' : q.chainID = c1 := by
        rcases hall q hq with h' | h'
        · exact absurd (h'.trans hyc.symm) hqc
        · exact h'
      exact Or.inl ⟨xa, hi, ⟨s, ⟨(y, s), ⟨List.mem_zipIdx_iff_getElem?.mpr hs, hyc⟩, rfl, (q, j),
        ⟨List.mem_zipIdx_iff_getElem?.mpr hj, hqc'⟩, hw⟩, y, hs, hres⟩, by simp⟩
    · have hqc' : q.chainID = c0 := by
        rcases hall q hq with h' | h'
        · exact h'
        · exact absurd (h'.trans hyc.symm) hqc
      exact Or.inr ⟨xa, hi, ⟨s, ⟨(y, s), ⟨List.mem_zipIdx_iff_getElem?.mpr hs, hyc⟩, rfl, (q, j),
        ⟨List.mem_zipIdx_iff_getElem?.mpr hj, hqc'⟩, hw⟩, y, hs, hres⟩, by simp⟩

theorem mem_computeIzone {t : List Atom} {c : Rat} {c0 c1 : Str} (h : getChains t = [c0, c1]) :
    ∃ zl, computeIzone t c = .ok zl ∧ ∀ ch rs, (ch, rs) ∈ zl ↔
      ∃ x ∈ t, x.name ∈ backbone ∧ x.chainID = ch ∧ x.resSeq = rs ∧
        ∃ y ∈ t, resKey y = resKey x ∧ ∃ q ∈ t, q.chainID ≠ y.chainID ∧ withinCutoff c q y = true := by
  obtain ⟨d, hd, hrows⟩ := izone_rows (c := c) h
  unfold computeIzone
  rw [h]
  simp only [hd, bind, Except.bind, pure, Except.pure]
  refine ⟨_, rfl, ?_⟩
  intro ch rs
  simp only [sortedResidues, mem_sortedSet, List.mem_map, hrows, Prod.mk.injEq]
  constructor
  · rintro ⟨⟨x, i⟩, ⟨hx, hbb, hrest⟩, hch, hrs⟩
    exact ⟨x, List.mem_of_getElem? (List.mem_zipIdx_iff_getElem?.mp hx), hbb, hch, hrs, hrest⟩
  · rintro ⟨x, hx, hbb, hch, hrs, hrest⟩
    obtain ⟨i, hi⟩ := List.mem_iff_getElem?.mp hx
    exact ⟨(x, i), ⟨List.mem_zipIdx_iff_getElem?.mpr hi, hbb, hrest⟩, hch, hrs⟩

/-! ### the residues listed by `compute_lzone` -/

theorem chainRows_length (t : List Atom) (ch : Str) :
    (chainRows t ch).length = (t.filter (fun a => decide (a.chainID = ch))).length := by
  have : (chainRows t ch).map (·.1) = t.filter (fun a => decide (a.chainID = ch)) := by
    unfold chainRows
    rw [show (fun r : IRow => decide (r.1.chainID = ch)) = (fun a : Atom => decide (a.chainID = ch)) ∘ Prod.fst from rfl,
      ← List.filter_map, List.zipIdx_map_fst]
  rw [← this, List.length_map]

/-- the chain `compute_lzone` fits: the second one only when it has strictly more atoms -/
def longOf (t : List Atom) (c0 c1 : Str) : Str :=
  if (chainRows t c0).length < (chainRows t c1).length then c1 else c0

theorem mem_computeLzone {t : List Atom} {c0 c1 : Str} (h : getChains t = [c0, c1]) :
    ∃ zl, computeLzone t = .ok zl ∧ ∀ ch rs, (ch, rs) ∈ zl ↔
      ch = longOf t c0 c1 ∧ ∃ x ∈ t, x.chainID = ch ∧ x.resSeq = rs := by
  unfold computeLzone
  rw [h]
  refine ⟨_, rfl, ?_⟩
  intro ch rs
  simp only [sortedResidues, mem_sortedSet, List.mem_map, chainRows, List.mem_filter, decide_eq_true_eq, Prod.mk.injEq, longOf]
  constructor
  · rintro ⟨⟨x, i⟩, ⟨hx, hc⟩, hch, hrs⟩
    simp only at hc hch hrs
    exact ⟨by rw [← hch]; exact of_decide_eq_true hc, x, List.mem_of_getElem? (List.mem_zipIdx_iff_getElem?.mp hx), hch, hrs⟩
  · rintro ⟨hl, x, hx, hch, hrs⟩
    obtain ⟨i, hi⟩ := List.mem_iff_getElem?.mp hx
    exact ⟨(x, i), ⟨List.mem_zipIdx_iff_getElem?.mpr hi, by simp only [hch, hl, decide_true]⟩, hch, hrs⟩

end Proofs.Rmsd
