/-
  The translated `pdb2sql._fix_chainID` (Gen/ParseLoop.lean: `GenP._fix_chainID` with its two loops `_fix_chainID_for_ic_chain`,
  `_fix_chainID_for_ind`; regenerated from pdb2sqlcore.py on every run) IS the hand model `Model.fixChainID` of Model/Table.lean:
  `self.get` is `Model.get`, the call of `self.update_column` is returned and run by `Model.updateColumn` (`Rt.runMethod`), the
  exits (`set()` of a per-model answer: TypeError; more than 26 chains: SystemExit) are inside the equation.
  `newID[ind] = ..` outside the list is IndexError in the code and in the hand model (`Model.setNewID`), so the equation holds of
  EVERY database; on well-formed single-model databases with an ATOM table it gives `Spec.fixChains` (`genp_fix_chainID_spec`).
  Loop lemmas in continuation-passing form (`foldlM_setLetter`, `foldlM_chains`): no proof quotes generated text.
-/
import PdbVerif.Proofs.GenParseRt
import PdbVerif.Proofs.TableChain
set_option linter.unusedVariables false
set_option linter.unusedSimpArgs false
namespace Proofs.GenParse
open Py Tbl

instance instDecEqExcept' {ε α : Type} [DecidableEq ε] [DecidableEq α] : DecidableEq (Except ε α)
  | .ok a, .ok b => if h : a = b then isTrue (by rw [h]) else isFalse (by intro h'; cases h'; exact h rfl)
  | .error a, .error b => if h : a = b then isTrue (by rw [h]) else isFalse (by intro h'; cases h'; exact h rfl)
  | .ok _, .error _ => isFalse (by intro h; cases h)
  | .error _, .ok _ => isFalse (by intro h; cases h)

/-- the letter of rank `ic` -/
def letter (ic : Nat) : Str := [Char.ofNat (65 + ic)]

/-- one assignment `newID[ind] = letter`: the runtime's `listSet` on strs is the model's `setNewID` on `Val`s, seen through `.text`
    (IndexError outside the list on both sides) -/
theorem listSet_text (acc : List Str) (i : Int) (v : Str) :
    (GenP.Rt.listSet acc i v >>= fun r => Except.ok (r.map Tbl.Val.text)) =
      Model.setNewID (acc.map Tbl.Val.text) i (Tbl.Val.text v) := by
  unfold GenP.Rt.listSet Model.setNewID
  simp only [List.length_map]
  by_cases h : ((if i < 0 then i + (acc.length : Int) else i) < 0 ∨ (if i < 0 then i + (acc.length : Int) else i) ≥ (acc.length : Int))
  · simp only [h, if_true, error_bind]
  · simp only [h, if_false, ok_bind, List.map_set]

/-- the inner loop `for ind in index: newID[ind] = ascii_uppercase[ic]` = the model's inner loop, for EVERY index list -/
theorem foldlM_setLetter (L : Str) (ic : Nat) (hL : GenP.Rt.strItem L (ic : Int) = Except.ok (letter ic))
    (f : List Str → Int → Except Model.Err (List Str))
    (hf : ∀ acc ind, f acc ind = GenP.Rt.strItem L (ic : Int) >>= fun t => GenP.Rt.listSet acc ind t) :
    ∀ (index : List Int) (acc : List Str),
      (List.foldlM f acc index >>= fun r => Except.ok (r.map Tbl.Val.text)) =
        index.foldlM (fun a i => Model.setNewID a i (Tbl.Val.text (letter ic))) (acc.map Tbl.Val.text)
  | [], acc => rfl
  | i :: rest, acc => by
    rw [List.foldlM_cons, List.foldlM_cons, hf, hL, ok_bind, ← listSet_text]
    cases hset : GenP.Rt.listSet acc i (letter ic) with
    | error e => rfl
    | ok acc' =>
      simp only [ok_bind]
      exact foldlM_setLetter L ic hL f hf rest acc'

/-- the outer loop `for ic, chain in enumerate(chainID)` = `Model.fillNewID`, for every database and every list so far -/
theorem foldlM_chains (db : Db)
    (f : List Str → Int × Str → Except Model.Err (List Str))
    (g : Int → List Str → List Int → Except Model.Err (List Str))
    (hg : ∀ (ic : Nat) acc index, ic < 26 →
      (g (ic : Int) acc index >>= fun r => Except.ok (r.map Tbl.Val.text)) =
        index.foldlM (fun a i => Model.setNewID a i (Tbl.Val.text (letter ic))) (acc.map Tbl.Val.text))
    (hf : ∀ acc ic chain, f acc (ic, chain) =
      (Model.get db rowIDName Model.defaultTable [{ key := "chainID".toList, arg := .scalar (.text chain) }] >>= Model.asInts) >>= fun index =>
        g ic acc index) :
    ∀ (ps : List (Nat × Str)) (acc : List Str), (∀ p ∈ ps, p.1 < 26) →
      (List.foldlM f acc (ps.map (fun p => ((p.1 : Int), p.2))) >>= fun r => Except.ok (r.map Tbl.Val.text)) =
        Model.fillNewID db ps (acc.map Tbl.Val.text)
  | [], acc, _ => rfl
  | (ic, chain) :: rest, acc, h26 => by
    have hic : ic < 26 := h26 (ic, chain) (by simp)
    simp only [List.map_cons, List.foldlM_cons, Model.fillNewID]
    rw [hf acc ic chain]
    cases hgt : (Model.get db rowIDName Model.defaultTable [{ key := "chainID".toList, arg := .scalar (.text chain) }] >>= Model.asInts) with
    | error e => simp [error_bind]
    | ok index =>
      simp only [ok_bind]
      have hm := hg ic acc index hic
      cases hgi : g (ic : Int) acc index with
      | error e =>
        rw [hgi, error_bind] at hm
        have hm' : index.foldlM (fun a i => Model.setNewID a i (Tbl.Val.text [Char.ofNat (65 + ic)])) (acc.map Tbl.Val.text) = .error e := hm.symm
        simp only [error_bind, hm']
      | ok acc' =>
        rw [hgi, ok_bind] at hm
        have hm' : index.foldlM (fun a i => Model.setNewID a i (Tbl.Val.text [Char.ofNat (65 + ic)])) (acc.map Tbl.Val.text) = .ok (acc'.map Tbl.Val.text) := hm.symm
        simp only [ok_bind, hm']
        exact foldlM_chains db f g hg hf rest acc' (fun p hp => h26 p (by simp [hp]))

theorem letters_item : ∀ ic : Nat, ic < 26 →
    GenP.Rt.strItem ['A', 'B', 'C', 'D', 'E', 'F', 'G', 'H', 'I', 'J', 'K', 'L', 'M', 'N', 'O', 'P', 'Q', 'R', 'S', 'T', 'U', 'V', 'W', 'X', 'Y', 'Z'] (ic : Int)
      = Except.ok (letter ic) := by
  decide +kernel

theorem fix_chainID_for_ind_nf (ic : Nat) (hic : ic < 26) (acc : List Str) (index : List Int) :
    (GenP._fix_chainID_for_ind (ic : Int) acc index >>= fun r => Except.ok (r.map Tbl.Val.text)) =
      index.foldlM (fun a i => Model.setNewID a i (Tbl.Val.text (letter ic))) (acc.map Tbl.Val.text) := by
  unfold GenP._fix_chainID_for_ind
  exact foldlM_setLetter _ ic (letters_item ic hic) _ (fun acc ind => rfl) index acc

theorem enumerate_eq (ids : List Str) :
    GenP.Rt.enumerate ids = (ids.zipIdx.map (fun ci => (ci.2, ci.1))).map (fun p => ((p.1 : Int), p.2)) := by
  simp [GenP.Rt.enumerate, List.map_map, Function.comp_def]

theorem runTFx_single (db : Db) (cn : Str) (vals : List Tbl.Val) (tn : Str) :
    GenP.Rt.runTFx db [GenP.Rt.TFx.update_column cn vals tn] = Model.updateColumn db cn vals none tn := by
  simp only [GenP.Rt.runTFx]
  rcases h : Model.updateColumn db cn vals none tn with ⟨db', r⟩
  cases r with
  | ok u => cases u; rfl
  | error e => rfl

theorem run_update (db : Db) (cid tn : Str) (X : Except Model.Err (List Str)) :
    GenP.Rt.runMethod db (X >>= fun r => Except.ok [GenP.Rt.TFx.update_column cid (r.map (fun x_ => Tbl.Val.text x_)) tn]) =
      (match (X >>= fun r => Except.ok (r.map Tbl.Val.text)) with
       | .error e => (db, .error e)
       | .ok newID => Model.updateColumn db cid newID none tn) := by
  cases X with
  | error e => rfl
  | ok r => simp only [ok_bind, GenP.Rt.runMethod, runTFx_single]

theorem fix_chainID_for_ic_chain_nf (db : Db) (ps : List (Nat × Str)) (acc : List Str) (h26 : ∀ p ∈ ps, p.1 < 26) :
    (GenP._fix_chainID_for_ic_chain db acc (ps.map (fun p => ((p.1 : Int), p.2))) >>= fun r => Except.ok (r.map Tbl.Val.text)) =
      Model.fillNewID db ps (acc.map Tbl.Val.text) := by
  unfold GenP._fix_chainID_for_ic_chain
  exact foldlM_chains db _ (fun ic acc index => GenP._fix_chainID_for_ind ic acc index)
    (fun ic acc index hic => fix_chainID_for_ind_nf ic hic acc index) (fun acc ic chain => rfl) ps acc h26

/-- **`_fix_chainID` = `Model.fixChainID`, for EVERY database**: the translated function computes (or raises) and returns its
    `update_column` call; run on the database model this is the hand model — TypeError (per-model answer), SystemExit (more than 26
    chains), IndexError (`newID[ind]` outside the list), every exception of `get` / `update_column` inside the equation -/
theorem genp_fix_chainID_eq_model (db : Db) :
    GenP.Rt.runMethod db (GenP._fix_chainID db) = Model.fixChainID db := by
  unfold GenP._fix_chainID Model.fixChainID Model.fixChainIDNew
  have hdt : (['A', 'T', 'O', 'M'] : Str) = Model.defaultTable := rfl
  have hcid : "chainID".toList = (['c', 'h', 'a', 'i', 'n', 'I', 'D'] : Str) := rfl
  simp only [hdt, hcid]
  cases hget : Model.get db ['c', 'h', 'a', 'i', 'n', 'I', 'D'] Model.defaultTable [] with
  | error e => simp [GenP.Rt.getStrs, GenP.Rt.runMethod, error_bind]
  | ok res =>
    cases res with
    | models per => simp [GenP.Rt.getStrs, GenP.Rt.runMethod, error_bind]
    | data items =>
      cases hm : items.mapM Model.itemText with
      | error e => simp [GenP.Rt.getStrs, hm, GenP.Rt.runMethod, error_bind]
      | ok chainID =>
        simp only [GenP.Rt.getStrs, hm, ok_bind, pure_eq_ok, throw_eq_error, GenP.Rt.sortedSet]
        by_cases h26 : (sortDedup strLt chainID).length > 26
        · have : (((sortDedup strLt chainID).length : Nat) : Int) > 26 := by omega
          simp [h26, this, GenP.Rt.runMethod, error_bind]
        · have hn26 : ¬ (((sortDedup strLt chainID).length : Nat) : Int) > 26 := by omega
          simp only [h26, hn26, decide_false, Bool.false_eq_true, if_false, ok_bind, Int.toNat_natCast, List.nil_append]
          rw [run_update, enumerate_eq]
          have hrep : List.replicate chainID.length (Tbl.Val.text []) = (List.replicate chainID.length ([] : Str)).map Tbl.Val.text := by
            simp
          rw [hrep, fix_chainID_for_ic_chain_nf db _ _ (by
              intro p hp
              simp only [List.mem_map] at hp
              obtain ⟨ci, hci, rfl⟩ := hp
              have := (List.mem_zipIdx' (x := ci.1) (i := ci.2) hci).1
              show ci.2 < 26
              omega)]
          cases Model.fillNewID db (List.map (fun ci => (ci.2, ci.1)) (sortDedup strLt chainID).zipIdx)
            (List.map Tbl.Val.text (List.replicate chainID.length [])) <;> rfl

/-- the same, stated for the databases of `fix_chainID_spec` (kept for its users; the hypotheses are no longer needed) -/
theorem genp_fix_chainID_eq_model_wf (db : Db) (hwf : TableProofs.WF db) (tab : Tab)
    (htab : Model.findTab db Model.defaultTable = some tab) (hnm : db.nModel = 0) :
    GenP.Rt.runMethod db (GenP._fix_chainID db) = Model.fixChainID db :=
  genp_fix_chainID_eq_model db

/-- … hence the translated function renames the chains as the property says (`Spec.fixChains`), by `fixChainID_eq` -/
theorem genp_fix_chainID_spec (db : Db) (hwf : TableProofs.WF db) (hT : TableProofs.TabsOK db) (tab : Tab)
    (htab : Model.findTab db Model.defaultTable = some tab) (hnm : db.nModel = 0)
    (h26 : (sortDedup strLt (tab.rows.map (fun r => r.atom.chainID))).length ≤ 26) :
    GenP.Rt.runMethod db (GenP._fix_chainID db) = (db.setTable Model.defaultTable (Spec.fixChains tab.rows), .ok ()) := by
  rw [genp_fix_chainID_eq_model_wf db hwf tab htab hnm]
  exact TableProofs.fixChainID_eq db hwf hT tab htab hnm h26

end Proofs.GenParse
