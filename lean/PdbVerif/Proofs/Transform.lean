/-
  List-level and database-level lemmas for the transforms (C10) and `align` (C18): inverse transforms,
  the centroid is a fixed point of a rotation about the centroid, `update (f (get sel)) sel` moves exactly
  the selected rows.  Helper lemmas only.
-/
import Mathlib.Tactic.FieldSimp
import PdbVerif.Proofs.Rodrigues

set_option linter.unusedSectionVars false
set_option linter.unusedVariables false

namespace Proofs.Tr
open Py Py.Mat3 Spec Proofs.M3 Model

section field
variable {α : Type} [Field α] [LinearOrder α] [IsStrictOrderedRing α]

theorem about_inv {M : Mat3 α} (hM : Orthogonal M) (c p : Vec3 α) :
    Vec3.add (M.T.mulVec (Vec3.sub (Vec3.add (M.mulVec (Vec3.sub p c)) c) c)) c = p := by
  have h : Vec3.sub (Vec3.add (M.mulVec (Vec3.sub p c)) c) c = M.mulVec (Vec3.sub p c) := by
    ext <;> simp only [Vec3.sub, Vec3.add] <;> ring
  rw [h, ← mulVec_mul, hM.2, one_mulVec]
  ext <;> simp only [Vec3.sub, Vec3.add] <;> ring

/-- rotating back with the transpose about the same centre restores the coordinates -/
theorem rotateAbout_inv {M : Mat3 α} (hM : Orthogonal M) (c : Vec3 α) (X : List (Vec3 α)) :
    rotateAbout M.T c (rotateAbout M c X) = X := by
  unfold rotateAbout
  rw [List.map_map]
  conv_rhs => rw [← List.map_id X]
  apply List.map_congr_left
  intro p _
  exact about_inv hM c p

theorem translate_inv (v : Vec3 α) (X : List (Vec3 α)) : translate (Vec3.neg v) (translate v X) = X := by
  unfold translate
  rw [List.map_map]
  conv_rhs => rw [← List.map_id X]
  apply List.map_congr_left
  intro p _
  ext <;> simp only [Function.comp, Vec3.add, Vec3.neg, id] <;> ring

theorem vsum_map_about (M : Mat3 α) (c : Vec3 α) (X : List (Vec3 α)) :
    Model.vsum (X.map (fun p => Vec3.add (M.mulVec (Vec3.sub p c)) c)) =
      Vec3.add (M.mulVec (Vec3.sub (Model.vsum X) (Vec3.smul ((X.length : Nat) : α) c)))
        (Vec3.smul ((X.length : Nat) : α) c) := by
  induction X with
  | nil => ext <;> simp [Model.vsum, Vec3.zero, Vec3.add, Vec3.sub, Vec3.smul, mulVec]
  | cons p X ih =>
    simp only [List.map_cons, Model.vsum, ih, List.length_cons, Nat.cast_succ]
    ext <;> simp only [Vec3.add, Vec3.sub, Vec3.smul, mulVec] <;> ring

theorem length_rotateAbout (M : Mat3 α) (c : Vec3 α) (X : List (Vec3 α)) : (rotateAbout M c X).length = X.length := by
  simp [rotateAbout]

/-- the centroid is a fixed point of every rotation (indeed of every linear map) about the centroid -/
theorem centroid_fixed (M : Mat3 α) (X : List (Vec3 α)) (hX : X ≠ []) :
    mean (rotateAbout M (mean X) X) = mean X := by
  have hn : ((X.length : Nat) : α) ≠ 0 := by
    have : 0 < X.length := List.length_pos_iff.2 hX
    exact_mod_cast (Nat.pos_iff_ne_zero.1 this)
  have hz : Vec3.sub (Model.vsum X) (Vec3.smul ((X.length : Nat) : α) (mean X)) = Vec3.zero := by
    ext <;> simp only [mean, Vec3.sub, Vec3.smul, Vec3.zero] <;> field_simp <;> ring
  have e : Model.vsum (rotateAbout M (mean X) X) = Vec3.smul ((X.length : Nat) : α) (mean X) := by
    unfold rotateAbout
    rw [vsum_map_about, hz]
    ext <;> simp [Vec3.add, Vec3.smul, mulVec, Vec3.zero]
  have hm : mean (rotateAbout M (mean X) X) =
      ⟨(Model.vsum (rotateAbout M (mean X) X)).x / ((X.length : Nat) : α),
       (Model.vsum (rotateAbout M (mean X) X)).y / ((X.length : Nat) : α),
       (Model.vsum (rotateAbout M (mean X) X)).z / ((X.length : Nat) : α)⟩ := by
    simp [mean, length_rotateAbout]
  rw [hm, e]
  ext <;> simp only [Vec3.smul] <;> field_simp

/-- hence the default-centre inverse also restores -/
theorem rotate_default_inv {M : Mat3 α} (hM : Orthogonal M) (X : List (Vec3 α)) (hX : X ≠ []) :
    rotate M.T none (rotate M none X) = X := by
  unfold rotate
  simp only
  rw [centroid_fixed M X hX, rotateAbout_inv hM]

end field

/-! ### database level -/

theorem getFrom_eq (sel : Sel) (db : List Atom) (i : Nat) :
    getFrom sel i db = ((db.zipIdx i).filter (fun ai => sel ai.2 ai.1)).map (fun ai => xyzOf ai.1) := by
  induction db generalizing i with
  | nil => rfl
  | cons a db ih =>
    simp only [getFrom, List.zipIdx_cons, List.filter_cons]
    by_cases h : sel i a = true
    · simp [h, ih, atomXYZ, xyzOf]
    · simp [h, ih]

theorem getXYZ_eq (sel : Sel) (db : List Atom) : getXYZ sel db = selectedXYZ sel db := getFrom_eq sel db 0

theorem updFrom_map (sel : Sel) (g : Vec3 Rat → Vec3 Rat) (db : List Atom) (i : Nat) :
    updFrom sel i db ((getFrom sel i db).map g) =
      (db.zipIdx i).map (fun ai =>
        if sel ai.2 ai.1 then { ai.1 with x := (g (xyzOf ai.1)).x, y := (g (xyzOf ai.1)).y, z := (g (xyzOf ai.1)).z } else ai.1) := by
  induction db generalizing i with
  | nil => rfl
  | cons a db ih =>
    simp only [getFrom, List.zipIdx_cons, List.map_cons]
    by_cases h : sel i a = true
    · simp only [h, if_true, List.map_cons, updFrom, ih, atomSetXYZ, atomXYZ, xyzOf]
    · have h' : sel i a = false := by simpa using h
      simp only [updFrom, h', Bool.false_eq_true, if_false, List.cons.injEq, true_and]
      exact ih (i + 1)

/-- `update 'x,y,z' (map g (get 'x,y,z' sel)) sel` on a non-empty selection is "move the selected rows by g" -/
theorem update_get (sel : Sel) (g : Vec3 Rat → Vec3 Rat) (db : List Atom) (hne : (getXYZ sel db).length ≠ 0) :
    updateXYZ sel ((getXYZ sel db).map g) db = .ok (moveSelected sel g db) := by
  unfold updateXYZ
  rw [List.length_map, if_neg hne, if_neg (by simp)]
  unfold getXYZ moveSelected
  rw [updFrom_map]

theorem moveSelected_moves (sel : Sel) (g : Vec3 Rat → Vec3 Rat) (db : List Atom) :
    MovesExactly sel g db (moveSelected sel g db) := by
  refine ⟨by simp [moveSelected], ?_⟩
  intro i a a' ha ha'
  unfold moveSelected at ha'
  rw [List.getElem?_map, List.getElem?_zipIdx, ha] at ha'
  simp only [Option.map_some, Nat.zero_add, Option.some.injEq] at ha'
  subst ha'
  constructor
  · intro h; simp [h]
  · intro h; simp [h]

theorem about_comm (M : Mat3 ℚ) (c p : Vec3 ℚ) :
    Vec3.add (M.mulVec (Vec3.sub p c)) c = about M.mulVec c p := by
  ext <;> simp only [about, Vec3.add] <;> ring

theorem sameAttrs_refl (a : Atom) : SameAttrs a a := rfl
theorem sameAttrs_trans {a b c : Atom} (h1 : SameAttrs a b) (h2 : SameAttrs b c) : SameAttrs a c := by
  unfold SameAttrs at *; rw [h2, h1]

end Proofs.Tr
