/-
  The sequential `UPDATE … WHERE rowID=?` loop over the selected positions = `Spec.assign`
  (the i-th value row lands on the i-th selected atom, nothing else changes).
-/
import PdbVerif.Proofs.TableFrame

set_option linter.unusedVariables false
set_option linter.unusedSimpArgs false

namespace TableProofs
open Tbl Model

/-- what SQLite stores is the value "equal in value" the property asks for -/
theorem storeVal_of_coerce (d : Decl) (v w : Val) (h : Spec.coerce d v = some w) : storeVal d v = w := by
  cases d <;> cases v <;> simp [Spec.coerce] at h <;> (try subst h) <;> simp [storeVal, applyAff]
  all_goals
    obtain ⟨h1, h2⟩ := h
    subst h2
    simp [h1]

theorem setCell_of_writeCell (db : Db) (c : Col) (v : Val) (r r' : Row)
    (h : Spec.writeCell db.extra c v r = some r') : setCell db c v r = .ok r' := by
  cases c with
  | rowID => simp [Spec.writeCell] at h
  | std s =>
    simp only [Spec.writeCell, bind, Option.bind] at h
    cases hco : Spec.coerce s.kind.decl v with
    | none => rw [hco] at h; cases h
    | some w =>
      rw [hco] at h
      simp only at h
      cases hst : setStd s w r.atom with
      | none => rw [hst] at h; cases h
      | some a =>
        rw [hst] at h
        simp only [pure, Option.some.injEq] at h
        subst h
        simp [setCell, affOfKind, storeVal_of_coerce _ _ _ hco, hst]
  | extra k =>
    simp only [Spec.writeCell] at h
    split_ifs at h with hk
    · cases hco : Spec.coerce (Spec.declOf db.extra (.extra k)) v with
      | none => rw [hco] at h; cases h
      | some w =>
        rw [hco] at h
        simp only [Option.map_some, Option.some.injEq] at h
        subst h
        have : affOf db (.extra k) = Spec.declOf db.extra (.extra k) := rfl
        simp [setCell, hk, this, storeVal_of_coerce _ _ _ hco]

theorem setCells_of_writeRow (db : Db) : ∀ (cs : List Col) (vs : List Val) (r r' : Row),
    Spec.writeRow db.extra cs vs r = some r' → setCells db (cs.zip vs) r = .ok r'
  | [], [], r, r', h => by simp [Spec.writeRow] at h; subst h; rfl
  | [], _ :: _, r, r', h => by simp [Spec.writeRow] at h
  | _ :: _, [], r, r', h => by simp [Spec.writeRow] at h
  | c :: cs, v :: vs, r, r', h => by
    simp only [Spec.writeRow, Option.bind] at h
    cases hw : Spec.writeCell db.extra c v r with
    | none => rw [hw] at h; cases h
    | some r1 =>
      rw [hw] at h
      simp only at h
      simp only [List.zip_cons_cons, setCells, setCell_of_writeCell db c v r r1 hw, bind, Except.bind]
      exact setCells_of_writeRow db cs vs r1 r' h

theorem writeRow_length (extra : List ColDef) : ∀ (cs : List Col) (vs : List Val) (r r' : Row),
    Spec.writeRow extra cs vs r = some r' → vs.length = cs.length
  | [], [], _, _, _ => rfl
  | [], _ :: _, r, r', h => by simp [Spec.writeRow] at h
  | _ :: _, [], r, r', h => by simp [Spec.writeRow] at h
  | c :: cs, v :: vs, r, r', h => by
    simp only [Spec.writeRow, Option.bind] at h
    cases hw : Spec.writeCell extra c v r with
    | none => rw [hw] at h; cases h
    | some r1 =>
      rw [hw] at h
      simp [writeRow_length extra cs vs r1 r' h]

/-! ### `mapM` over the enumerated table, row by row -/

theorem option_mapM_pointwise {α β : Type} (G : α → Option β) : ∀ (l : List α) (l' : List β),
    l.mapM G = some l' ↔ l'.length = l.length ∧ ∀ i (h : i < l.length), (l'[i]?) = G l[i]
  | [], l' => by
    cases l' with
    | nil => simp
    | cons b t => simp
  | a :: t, l' => by
    rw [option_mapM_eq_some]
    cases l' with
    | nil => simp
    | cons b t' =>
      rw [List.forall₂_cons, ← option_mapM_eq_some, option_mapM_pointwise G t t']
      constructor
      · rintro ⟨h1, h2, h3⟩
        refine ⟨by simp [h2], ?_⟩
        intro i hi
        cases i with
        | zero => simp [h1]
        | succ i' => simpa using h3 i' (by simpa using hi)
      · rintro ⟨h1, h2⟩
        refine ⟨?_, by simpa using h1, ?_⟩
        · have := h2 0 (by simp); simpa using this.symm
        · intro i hi
          have := h2 (i + 1) (by simpa using hi)
          simpa using this

/-- the row function of `Spec.assign` -/
def assignRow (extra : List ColDef) (sel : List Nat) (cs : List Col) (vals : List (List Val)) (rp : Row × Nat) : Option Row :=
  match sel.idxOf? rp.2 with
  | none => some rp.1
  | some i => Spec.writeRow extra cs (vals.getD i []) rp.1

theorem assign_pointwise (extra : List ColDef) (T T' : Table) (sel : List Nat) (cs : List Col) (vals : List (List Val)) :
    Spec.assign extra T sel cs vals = some T' ↔
      T'.length = T.length ∧ ∀ p (h : p < T.length), T'[p]? = assignRow extra sel cs vals (T[p], p) := by
  unfold Spec.assign
  rw [option_mapM_pointwise]
  simp only [List.length_zipIdx, List.getElem_zipIdx, Nat.zero_add, assignRow]
  exact Iff.rfl

theorem idxOf?_cons_ne (p0 p : Nat) (ps : List Nat) (h : p0 ≠ p) :
    (p0 :: ps).idxOf? p = (ps.idxOf? p).map (· + 1) := by
  simp [List.idxOf?, List.findIdx?_cons, h]

theorem idxOf?_none_of_not_mem (p : Nat) (ps : List Nat) (h : p ∉ ps) : ps.idxOf? p = none := by
  unfold List.idxOf?
  rw [List.findIdx?_eq_none_iff]
  intro x hx
  rw [Bool.eq_false_iff]
  intro he
  have : x = p := by simpa using he
  subst this; exact h hx

/-- **the UPDATE loop over ascending positions is `assign`** -/
theorem execRows_assign (db : Db) (cs : List Col) : ∀ (ps : List Nat) (vals : List (List Val)) (T T' : Table),
    ps.Pairwise (· < ·) → (∀ p ∈ ps, p < T.length) → vals.length = ps.length →
    Spec.assign db.extra T ps cs vals = some T' →
    execRows db cs (vals.zip (List.map (fun (p : Nat) => (p : Int) + 1) ps)) T = (T', .ok ())
  | [], vals, T, T', _, _, hl, hA => by
    have : vals = [] := List.length_eq_zero_iff.1 (by simpa using hl)
    subst this
    rw [assign_pointwise] at hA
    have : T' = T := by
      apply List.ext_getElem? 
      intro p
      by_cases hp : p < T.length
      · rw [hA.2 p hp]; simp [assignRow, List.idxOf?, List.getElem?_eq_getElem hp]
      · have h1 : T'[p]? = none := by rw [List.getElem?_eq_none_iff]; omega
        have h2 : T[p]? = none := by rw [List.getElem?_eq_none_iff]; omega
        rw [h1, h2]
    subst this; rfl
  | p0 :: ps, vals, T, T', hsort, hlt, hl, hA => by
    cases vals with
    | nil => simp at hl
    | cons v0 vs =>
      rw [List.pairwise_cons] at hsort
      have hp0 : p0 < T.length := hlt p0 (by simp)
      have hnot : p0 ∉ ps := fun hm => by have := hsort.1 p0 hm; omega
      rw [assign_pointwise] at hA
      obtain ⟨hlen, hpt⟩ := hA
      -- the first value row lands on the first selected atom
      have h0 := hpt p0 hp0
      simp only [assignRow, List.idxOf?, List.findIdx?_cons, beq_self_eq_true, if_true, List.getD_cons_zero] at h0
      have hp0' : p0 < T'.length := by omega
      rw [List.getElem?_eq_getElem hp0'] at h0
      have hw : Spec.writeRow db.extra cs v0 T[p0] = some T'[p0] := h0.symm
      have hset := setCells_of_writeRow db cs v0 _ _ hw
      have hvl := writeRow_length db.extra cs v0 _ _ hw
      -- the rest of the loop runs on the table with that row replaced
      have hrest : Spec.assign db.extra (T.set p0 T'[p0]) ps cs vs = some T' := by
        rw [assign_pointwise]
        refine ⟨by simp [hlen], ?_⟩
        intro p hp
        have hp' : p < T.length := by simpa using hp
        by_cases hpp : p = p0
        · subst hpp
          simp only [assignRow, idxOf?_none_of_not_mem _ _ hnot, List.getElem_set_self]
          exact List.getElem?_eq_getElem hp0'
        · rw [hpt p hp']
          simp only [assignRow, idxOf?_cons_ne p0 p ps (fun e => hpp e.symm), List.getElem_set_ne (fun e => hpp e.symm)]
          cases ps.idxOf? p with
          | none => rfl
          | some i => rfl
      have ih := execRows_assign db cs ps vs (T.set p0 T'[p0]) T' hsort.2
        (fun p hp => by simpa using hlt p (List.mem_cons_of_mem _ hp)) (by simpa using hl) hrest
      show execRows db cs ((v0, (p0 : Int) + 1) :: vs.zip (List.map (fun (p : Nat) => (p : Int) + 1) ps)) T = _
      unfold execRows
      have hr1 : ¬ ((p0 : Int) + 1 < 1 ∨ (p0 : Int) + 1 > T.length) := by omega
      have hidx : ((p0 : Int) + 1 - 1).toNat = p0 := by omega
      simp only [hvl, ne_eq, not_true_eq_false, if_false, hr1, hidx, List.getElem?_eq_getElem hp0, hset]
      exact ih

/-! ### `update` = `assign` on the selection -/

theorem splitOn_no_sep (c : Char) : ∀ (s : Py.Str), s.contains c = false → Py.splitOn c s = [s]
  | [], _ => rfl
  | x :: xs, h => by
    have hx : (x == c) = false := by
      simp only [List.contains_cons, Bool.or_eq_false_iff] at h
      rw [Bool.eq_false_iff]; intro he; have := beq_iff_eq.1 he; subst this; simp at h
    have hxs : xs.contains c = false := by
      simp only [List.contains_cons, Bool.or_eq_false_iff] at h; exact h.2
    simp only [Py.splitOn, hx, Bool.false_eq_true, if_false, splitOn_no_sep c xs hxs]

/-- the names `update` validates are the names it assigns -/
theorem validColsUpdate_of (db : Db) (columns : Py.Str) (h : ∀ n ∈ updNames columns, n ∈ db.colnames) :
    validColsUpdate db columns = true := by
  unfold validColsUpdate
  by_cases hstar : columns = "*".toList
  · simp [hstar]
  · simp only [hstar, decide_false, Bool.false_or, List.all_eq_true, List.contains_iff_mem]
    intro n hn
    apply h
    unfold updNames
    by_cases hc : columns.contains ',' = true
    · rw [if_pos hc]; exact hn
    · have hc' : columns.contains ',' = false := by simpa using hc
      rw [splitOn_no_sep ',' columns hc'] at hn
      rw [if_neg hc]; exact hn

/-- the rowIDs `update` addresses are the positions the property selects -/
theorem updIds_eq (db : Db) (h : WF db) (tn : Py.Str) (tab : Tab) (htab : findTab db tn = some tab) (kw : List Kw)
    (hk : KeysOK db kw) (hr : RowIDInts kw) (hnm : db.nModel = 0)
    (hmany : Spec.tooMany Gen.max_sql_values Gen.SQLITE_LIMIT_VARIABLE_NUMBER kw = false)
    (q : List Spec.Cond) (hq : kw.mapM (Spec.condOf db.extraNames) = some q) :
    updIds db tn kw = .ok (posInts db tab.rows q) := by
  unfold updIds
  rw [get_full db h tn tab htab rowIDName (colsOK_rowID _) kw hk hr]
  have htable : db.table? tn = some tab.rows := by rw [findTab_table?, htab]; rfl
  have hget := spec_get_eq db tab.rows rowIDName kw [Col.rowID] q (colsOf_rowID _) hq
  simp only [Spec.getOn, htable, hnm, Nat.lt_irrefl, decide_false, Bool.and_false, Bool.false_eq_true,
    if_false, Spec.answerOne, hget, hmany, toResult]
  exact asInts_positions _

theorem posInts_eq_positions (db : Db) (T : Table) (q : List Spec.Cond) :
    posInts db T q = List.map (fun (p : Nat) => (p : Int)) (Spec.positions db.extra T q) := by
  unfold posInts Spec.positions
  rw [List.map_map]; rfl

theorem positions_lt (xd : List ColDef) (T : Table) (q : List Spec.Cond) : ∀ p ∈ Spec.positions xd T q, p < T.length := by
  intro p hp
  simp only [Spec.positions, Spec.selected, List.mem_map, List.mem_filter] at hp
  obtain ⟨rp, ⟨h1, _⟩, rfl⟩ := hp
  exact (List.mem_zipIdx' (x := rp.1) (i := rp.2) h1).1

theorem positions_sorted (xd : List ColDef) (T : Table) (q : List Spec.Cond) : (Spec.positions xd T q).Pairwise (· < ·) := by
  have h := posInts_pairwise ⟨[], xd, 0⟩ T q
  unfold posInts at h
  rw [List.pairwise_map] at h
  unfold Spec.positions
  rw [List.pairwise_map]
  exact h.imp (by intro a b hab; simp only [intLt, decide_eq_true_eq] at hab; omega)

theorem replaceTab_eq_setTable (db : Db) (tn : Py.Str) (rows : Table) : replaceTab db tn rows = db.setTable tn rows := rfl

/-- **update = assign**: on a well-formed call `update` leaves exactly `Spec.assign` of the selected positions -/
theorem update_eq_assign (db : Db) (hwf : WF db) (hT : TabsOK db) (tn : Py.Str) (tab : Tab) (htab : findTab db tn = some tab)
    (columns : Py.Str) (values : List (List Val)) (kw : List Kw)
    (cs : List Col) (hcs : (updNames columns).mapM (resolve db.extraNames) = some cs)
    (hnames : ∀ n ∈ updNames columns, n ∈ db.colnames)
    (hk : KeysOK db kw) (hr : RowIDInts kw) (hnm : db.nModel = 0)
    (hmany : Spec.tooMany Gen.max_sql_values Gen.SQLITE_LIMIT_VARIABLE_NUMBER kw = false)
    (q : List Spec.Cond) (hq : kw.mapM (Spec.condOf db.extraNames) = some q)
    (hne : values ≠ []) (hrows : ∀ r ∈ values, r.length = cs.length)
    (hsel : values.length = (Spec.positions db.extra tab.rows q).length)
    (T' : Table) (hassign : Spec.assign db.extra tab.rows (Spec.positions db.extra tab.rows q) cs values = some T') :
    Model.update db columns values tn kw = (db.setTable tn T', .ok ()) := by
  have hids := updIds_eq db hwf tn tab htab kw hk hr hnm hmany q hq
  have hcslen : cs.length = (updNames columns).length := by
    have := (option_mapM_eq_some _ _ _).1 hcs
    exact (List.Forall₂.length_eq this).symm
  have hsql : (updNames columns).mapM (sqlCol db) = some cs := by
    rw [← hcs]
    have key : ∀ (l : List Py.Str), (∀ n ∈ l, n ∈ db.colnames) → l.mapM (sqlCol db) = l.mapM (resolve db.extraNames) := by
      intro l
      induction l with
      | nil => intro _; rfl
      | cons a t ih =>
        intro hm
        rw [List.mapM_cons, List.mapM_cons, sqlCol_eq_resolve db hwf a (hm a (by simp)),
          ih (fun n hn => hm n (List.mem_cons_of_mem _ hn))]
    exact key _ hnames
  have hshape : ShapesOK db columns values tn kw := by
    refine ⟨hne, fun r hr' => by rw [hrows r hr', hcslen], ?_⟩
    intro ids hi
    rw [hids] at hi; injection hi with hi; subst hi
    simp [posInts, Spec.positions] at hsel ⊢; exact hsel.symm
  unfold Model.update
  simp only [validColsUpdate_of db columns hnames, hnm, Nat.lt_irrefl, decide_false, Bool.and_false,
    Bool.not_true, Bool.false_eq_true, if_false]
  rw [updateCore_ok db columns values tn kw _ hids hshape cs hsql, execMany_eq cs tn _ db tab hT htab,
    posInts_eq_positions, List.map_map]
  have := execRows_assign db cs (Spec.positions db.extra tab.rows q) values tab.rows T'
    (positions_sorted _ _ _) (positions_lt _ _ _) hsel hassign
  have hfun : ((fun x : Int => x + 1) ∘ fun p : Nat => (p : Int)) = fun p : Nat => (p : Int) + 1 := rfl
  rw [hfun, this]
  rfl

end TableProofs
