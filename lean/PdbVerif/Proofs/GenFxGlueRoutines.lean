/-
  C16 — whole-routine equalities for the three routines that write a requested file: `compute_lzone(save_file, filename)`,
  `compute_izone(cutoff, save_file, filename)` (routines `.lzone`, `.izone`) and `compute_residue_pairs_ref(save_file, filename)`
  (`.pairsRef`): the glued effect program (hand glue around translated pieces, as described in Proofs/GenFxGlue.lean) IS
  `Model.C16.prog` of that routine.  In the model these routines are `checked … [.load ref] []`: a failing computation is the check of
  stage 0, the value is `W.score`, the pickle is `W.exportLines`; the hypotheses say that `W` is read off the (GenR) computation.
  For `.pairsRef` the value computation is `GenR.compute_residue_pairs_ref` itself (translated for `save_file=False`; the `if save_file:`
  statement it leaves out is the translated `GenF.compute_residue_pairs_ref_save`).
-/
import PdbVerif.Proofs.GenFxGlueGenR

set_option linter.unusedVariables false
set_option linter.unusedSimpArgs false
set_option linter.unusedSectionVars false

namespace Proofs.GenFx
open Py Py.Fx Spec.C16 Model.C16 Proofs.Effects

section
variable {R : Type}

/-- the model's pure work for a routine that loads the reference, computes `x` (or fails) and returns `val x` -/
structure LoadComputeIs {X : Type} (W : Work Py.Str ZoneZ R) (r : Routine) (ce : List Py.Str → Except Py.Err X) (val : X → R) : Prop where
  check0 : ∀ rc, W.check r 0 [rc] = match ce rc with | .ok _ => .ok () | .error e => .error (errOf e)
  check1 : ∀ rc, W.check r 1 [rc] = .ok ()
  score : ∀ rc x, ce rc = .ok x → W.score r none [rc] = .ok (val x)

/-- **whole `compute_lzone` / `compute_izone`** (`a.zone = some f`: `save_file=True, filename=f`; `none`: `save_file=False`) -/
theorem genf_zone_routine_whole (mk : Py.Str → Py.Str → Py.Str → Py.Str) (W : Work Py.Str ZoneZ R)
    (de : Routine → List Py.Str → Except Py.Err ZoneZ) (r : Routine) (hr : r = .lzone ∨ r = .izone) (val : ZoneZ → R)
    (hW : LoadComputeIs W r (de r) val) (hrender : W.render = renderZone) (hcomp : ∀ rc d, de r rc = .ok d → W.compute r rc = d)
    (a : Args Py.Str) (ht : TmpIsMkstemp mk a) :
    prog16 mk (computeZoneT de r a.ref a.zone.isSome a.zone) (fun d => finish (.ok (val d))) = prog W r a := by
  have h := toC16_computeZoneT mk de r hr a.ref (fun d => (finish (.ok (val d)) : Spec.C16.Prog Py.Str Py.Str R))
  unfold prog16
  cases hz : a.zone with
  | none =>
    simp only [Option.isSome]
    rw [h.1]
    rcases hr with rfl | rfl <;>
    · simp only [prog, checked, readSeq, List.append_nil, List.nil_append, List.cons_append, hz, loadPdb, readPdb]
      congr 2; funext b1; cases b1 <;> simp only [Bool.false_eq_true, if_false, if_true]
      congr 1; funext b2; cases b2 <;> simp only [Bool.false_eq_true, if_false, if_true]
      congr 1; funext rc
      rw [hW.check0 rc]
      cases hd : de _ rc with
      | error e => rfl
      | ok d => simp only [hW.check1, hW.score rc d hd]
  | some f =>
    simp only [Option.isSome]
    rw [h.2 f, ← ht f hz]
    rcases hr with rfl | rfl <;>
    · simp only [prog, checked, readSeq, List.append_nil, List.nil_append, List.cons_append, hz, loadPdb, readPdb]
      congr 2; funext b1; cases b1 <;> simp only [Bool.false_eq_true, if_false, if_true]
      congr 1; funext b2; cases b2 <;> simp only [Bool.false_eq_true, if_false, if_true]
      congr 1; funext rc
      rw [hW.check0 rc]
      cases hd : de _ rc with
      | error e => rfl
      | ok d => simp only [hW.check1, hW.score rc d hd, hrender, hcomp rc d hd]

/-! ### `compute_residue_pairs_ref` -/

/-- `compute_residue_pairs_ref(cutoff, save_file, filename)` in source order: `interface(self.ref)`, the pure work (chains, contact
    residues — `pe`), `sql_ref._close()`, the translated `if save_file:` statement, the value -/
def pairsRefT {D : Type} (pe : List Py.Str → Except Py.Err D) (pickle : D → Py.Str) (ref : Py.Str) (save : Bool) (fn : Option Py.Str) : PS D :=
  (loadT ref).bind fun x => (Fx.liftE (pe x.2)).bind fun d =>
    (GenF._close x.1 GenF._close_rmdb_default).bind fun _ =>
      (GenF.compute_residue_pairs_ref_save ref pickle save fn d).bind fun _ => .pure d

/-- the pure work, by the translated `GenR.compute_residue_pairs_ref` on the parsed lines of the reference -/
def pairsE (parse : List Py.Str → Except Py.Err (List Py.Atom))
    (gcr : List Py.Atom → Rat → Py.Str → Py.Str → Except Py.Err (Py.Dict (Py.Str × Int × Py.Str) (List (Py.Str × Int × Py.Str))))
    (ref : Py.Str) (cutoff : Rat) (rc : List Py.Str) : Except Py.Err (Py.Dict (Py.Str × Int × Py.Str) (List (Py.Str × Int × Py.Str))) :=
  GenR.compute_residue_pairs_ref (fun _ => parse rc) gcr ref cutoff

/-- **whole `compute_residue_pairs_ref`** (`a.out1 = some o`: `save_file=True, filename=o`; `none`: `save_file=False`) -/
theorem genf_pairs_ref_whole {D : Type} (mk : Py.Str → Py.Str → Py.Str → Py.Str) (W : Work Py.Str ZoneZ R)
    (pe : List Py.Str → Except Py.Err D) (pickle : D → Py.Str) (val : D → R)
    (hW : LoadComputeIs W .pairsRef pe val) (hexp : ∀ rc d, pe rc = .ok d → W.exportLines .pairsRef 0 [rc] = [pickle d])
    (a : Args Py.Str) :
    prog16 mk (pairsRefT pe pickle a.ref a.out1.isSome a.out1) (fun d => finish (.ok (val d))) = prog W .pairsRef a := by
  unfold prog16 pairsRefT
  simp only [prog, checked, readSeq, List.append_nil, List.nil_append, List.cons_append]
  rw [toC16_loadT]; congr 1; funext rc
  rw [toC16_liftE, hW.check0 rc]
  cases hd : pe rc with
  | error e => rfl
  | ok d =>
    simp only [hW.check1, hW.score rc d hd]
    rw [toC16_bind, toC16_close_memory mk memSelf _ rfl rfl, pairs_save_nf]
    unfold export1
    cases ho : a.out1 with
    | none => simp [toC16, Fx.Prog.bind, finish]
    | some o => simp [toC16, Fx.Prog.bind, finish, writeFile, hexp rc d hd, noBufs, Bufs.write, FS.set]

end
end Proofs.GenFx
